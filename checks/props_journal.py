"""Component `journal` (M5): event journal + restore + prune. Properties C10, C11, C12.
Model: lean/HqModel/Journal/{Model,File,Spec}.lean; driver hqm-journal; harness `hqv journal`;
hooks /repo/crates/hyperqueue/src/verif/journal.rs. Report: /verif/notes/journal.md."""

_TRUSTED = [
    "bincode/serde encoding of `Event` (incl. the embedded serialized SubmitRequest): deterministic, self-delimiting, "
    "a strict prefix of an encoding ends in UnexpectedEof (hypothesis `Codec.Lawful` of the file-layer theorems); not "
    "proved - swept by the harness at byte offsets of the last records of every generated journal",
    "file system: fsync / rename / set_len / append semantics (stream.rs tmp-file + rename + reopen is exercised by the "
    "harness but its atomicity is assumed)",
    "harness generator `hqv journal gen` mirrors the order in which job.rs / state.rs / client handlers / the tako reactor "
    "emit events; every generated prefix is checked against the Lean predicate `Producible` by the driver (out-tag `prod`)",
    "hooks in crates/hyperqueue/src/verif/journal.rs repeat the call sequence of bootstrap::start_server on a socket-less "
    "tako VerifServer (no TCP listeners); the first queue id after a restart is issued by the real AddQueue handler of an autoalloc "
    "state seeded with the restored counter AFTER the restored queues were re-added under their old ids through that same handler",
]

_PART = {
    "component": "journal", "driver": "hqm-journal",
    "quick": {"cases": 16, "shards": 16, "extra": []},
    "thorough": {"cases": 40, "shards": 16, "extra": []},
}

PROPS = {
    "C11": {
        "module": "HqModel.Props.C11",
        "theorems": ["HqModel.C11.c11_fresh", "HqModel.C11.c11_iterate", "HqModel.C11.c11_iterate_step"],
        "parts": [dict(_PART, tags=["res", "ctr", "next", "uid", "prod", "boot"], clauses=["c11."])],
        "assumptions": [
            "ids are natural numbers in the model (u32 wrap-around of the counters is not what C11 is about)",
            "c11_iterate: no `hq journal prune` between restarts (pruning drops the high-water marks of completed jobs / lost "
            "workers; ids the pruned journal no longer mentions are reissued - theorem c11_prune_lowers_marks, recorded observation)",
            "a `Submit` attaching to a job the journal never opened is ignored by restore (warning) and its id is not protected",
        ],
        "trusted_base": _TRUSTED,
        "rule": "one evaluation = one operation of a journal trace (record appended by the real JournalWriter, restore of a "
                "prefix / torn tail by the real StateRestorer incl. the first ids issued by State::new_job_id, Core::new_worker_id, "
                "AutoAllocState::create_id) executed on the real code and on the Lean model with outputs compared under the "
                "projection {res, ctr, next, uid, prod}; a case is distinct by the hash of its op sequence, non-trivial with >= 2 ops",
    },
    "C10": {
        "module": "HqModel.Props.C10Restart",
        "theorems": [
            "HqModel.C10.c10_restore_refines", "HqModel.C10.c10_prefix", "HqModel.C10.c10_every_crash_point",
            "HqModel.C10.c10_torn_tail", "HqModel.C10.c10_torn_tail_load", "HqModel.C10.c10_truncate_append",
            "HqModel.C10.c10_f9_regression", "HqModel.C10.c10_f10_regression", "HqModel.C10.c10_f11_f17_regression",
            "HqModel.C10.c10_emitted_producible", "HqModel.C10.c10_emitted_dep_closed", "HqModel.C10.c10_emitted_producible_prefix",
            "HqModel.C10.c10_emitted_restore", "HqModel.C10.c10_emitted_state_agrees", "HqModel.C10.c10_emitted_step",
            "HqModel.C10.c10_emitted_interleaved",
            "HqModel.C10.c10_emitted_late_start_witness", "HqModel.C10.c10_emitted_consumers_witness",
            "HqModel.C10.c10_emitted_instance_witness", "HqModel.C10.c10_emitted_lost_twice_witness",
            "HqModel.C10.c10_emitted_entries_witness", "HqModel.C10.c10_emitted_poison_submit_witness",
            "HqModel.C10.c10_restart_no_running", "HqModel.C10.c10_restart_wf", "HqModel.C10.c10_restart_inv",
            "HqModel.C10.c10_emitted_across_restarts", "HqModel.C10.c10_emitted_lives", "HqModel.C10.c10_emitted_lives_restore",
            "HqModel.C10.c10_lives_first",
        ],
        "parts": [dict(_PART, tags=["res", "trunc", "job", "cnt", "task", "sub", "adj", "core", "queue", "prod", "boot"],
                       clauses=["c10.", "gen.", "c03.restart", "c06.restart", "c07.restart"]),
                  # the writer side: the job-layer model M4 on simulated cluster runs; the compiled model evaluates the side
                  # condition Emit.EmitOk of the c10_emitted_* theorems on the pre-state of every real operation
                  {"component": "job", "driver": "hqm-job", "name": "job_emit",
                   "tags": ["ev", "ret", "core", "job", "tasks", "!panic"], "clauses": ["c10.emit"],
                   "quick": {"cases": 20, "shards": 12, "extra": []}, "thorough": {"cases": 200, "shards": 16, "extra": []}}],
        "assumptions": [
            "`Producible` / `DepClosed` of emitted journals are THEOREMS over the job-layer model M4 (c10_emitted_producible, "
            "c10_emitted_dep_closed, c10_emitted_restore: every prefix of the journal M4 writes, also when other emitters' records are "
            "interleaved) under the decidable side condition Emit.EmitOk (late start, instance ids increasing, consumer closure of a "
            "failure, worker ids, array shape); hqm-job evaluates it on the pre-state of every real operation (mon FAIL c10.emit <sig>); "
            "each conjunct is shown necessary by a decide-witness; ACROSS ANY NUMBER OF RESTARTS (c10_emitted_lives, "
            "c10_emitted_lives_restore: a list of server lives, each possibly crashing after any number of its records reached the file; the "
            "restored job-layer state jobStateOf R X satisfies StateWF and the emit invariant, so every prefix of the whole file is again "
            "Producible / DepClosed / NoStartBeforeCreate and the restart clauses of C03, C06, C07 apply at every crash point of every life); "
            "after a restart the EmitOk conjuncts about instance ids and worker ids are obligations on the core / id counters (C06 restart "
            "clause, C11) and are evaluated on real traces only within one life",
            "c10_restore_refines is full strength for the code after the fixes 08d60f1 (F9), 05de231 (F10), 360a725 (F11), "
            "40220c7 (F17); it includes the restart clauses of C03 (remaining deps), C06 (next instance id) and C07 (crash "
            "counter) as `handle_new_tasks` applies the adjust map",
            "`Producible` = the explicit decidable well-formedness predicate of lean/HqModel/Journal/Spec.lean (records refer to "
            "existing tasks without outcome, Started before Finished, instance ids increase, Close before Completed, submits "
            "pass validate_submit with distinct ids, worker ids are fresh and only connected workers are lost); tied to the "
            "generator by the `prod` out-line of every restore op",
            "IntArray ranges have step >= 1 (Rust `step_by(0)` panics; part of `Producible`)",
            "a journal cut inside its 10-byte header (crash between file creation and the header flush) is refused by "
            "JournalReader::open: observation, outside the record-level statement",
        ],
        "trusted_base": _TRUSTED,
    },
    "C12": {
        "module": "HqModel.Props.C12Fixed",
        "theorems": ["HqModel.C12.c12_prune2_equiv_partial", "HqModel.C12.c12_prune2_restore", "HqModel.C12.c12_append2",
                     "HqModel.C12.c12_wf2_append", "HqModel.C12.c12_prune2_twice", "HqModel.C12.c12_wf2", "HqModel.C12.c12_prune2_idem",
                     "HqModel.C12.c12_f12_regression", "HqModel.C12.c12_f25_witness2", "HqModel.C12.c12_full2_statement_false",
                     "HqModel.C12.c12_prune_equiv_partial", "HqModel.C12.c12_f12_witness"],
        "parts": [dict(_PART, tags=["pn", "prec", "res", "job", "cnt", "task", "sub", "adj", "core", "queue"],
                       clauses=["c12."]),
                  # the live sets `handle_prune_journal` computes: prune requests through the real rpc loop in simulated cluster
                  # runs with the journal sink; monitor c12.live_sets = the hypothesis LiveCovers of the theorems on real runs
                  {"component": "job", "driver": "hqm-job", "name": "job_prune", "tags": ["ev", "job", "tasks", "!panic"],
                   "clauses": ["c12."],
                   "quick": {"cases": 15, "shards": 12, "extra": ["--wait"]},
                   "thorough": {"cases": 150, "shards": 16, "extra": ["--wait"]}}],
        "assumptions": [
            "live sets are the ones `handle_prune_journal` computes: jobs of the State that are not terminated, workers that "
            "are connected; prune is requested between two server actions; that these sets cover every job without a JobCompleted "
            "record and every connected worker (hypothesis LiveCovers) is checked on real runs: prune requests go through the real rpc "
            "loop in simulated cluster runs and the sets that reach the journal thread are compared with the persisted events "
            "(part job_prune, monitor c12.live_sets)",
            "c12_prune2_equiv_partial (the code after fix 13acddd; prune2 = the stateful prune that keeps the WorkerLost of every worker "
            "named in a kept TaskStarted): SameView2 = all job entries INCLUDING crash counters, job tables equal as lists, queues, uid, for "
            "EVERY journal that restores, and c12_prune2_restore at the level of restore (jobs, TaskSubmit batches with adjust maps); the "
            "one missing component is queue_to_worker_resources (known finding F25: WorkerConnected of no-longer-live allocation workers "
            "dropped), refuted by c12_f25_witness2; c12_wf2 (syntactic intersection law) assumes that no worker which ran a task of a live "
            "job is live at the second prune without having been live at the first; c12_prune2_twice / c12_prune2_idem need no such "
            "assumption; c12_prune_equiv_partial / c12_f12_witness are the statements about the code BEFORE the fix (F12), "
            "c12_f12_regression shows the witness repaired",
            "the step from the restorer state to Job / TaskSubmit values is the function restoreJobs of the model (it reads the "
            "crash counters only in the adjust map, queue_to_worker_resources only for Queue.worker_resources)",
        ],
        "trusted_base": _TRUSTED,
    },
}
