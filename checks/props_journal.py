"""Component `journal` (M5): event journal + restore + prune. Properties C10, C11, C12.
Model: lean/HqModel/Journal/{Model,File,Spec}.lean; driver hqm-journal; harness `hqv journal`;
hooks /repo/crates/hyperqueue/src/verif/journal.rs. Report: /verif/notes/journal.md."""

_TRUSTED = [
    "bincode/serde encoding of `Event` (incl. the embedded serialized SubmitRequest): deterministic, self-delimiting, "
    "a strict prefix of an encoding ends in UnexpectedEof (hypothesis `Codec.Lawful` of the file-layer theorems); not "
    "proved - swept by the harness at byte offsets of the last records of every generated journal",
    "file system: fsync / rename / set_len / append semantics (stream.rs tmp-file + rename + reopen is exercised by the "
    "harness but its atomicity is assumed)",
    "harness generator `hqv journal gen` mirrors the order in which job.rs / state.rs / client handlers / the tako reactor "
    "emit events; every generated prefix is checked against the Lean predicate `Producible` by the driver (out-tag `prod`)",
    "hooks in crates/hyperqueue/src/verif/journal.rs repeat the call sequence of bootstrap::start_server on a socket-less "
    "tako VerifServer (no TCP listeners, no autoalloc service: the queue id is issued by a fresh AutoAllocState)",
]

_PART = {
    "component": "journal", "driver": "hqm-journal",
    "quick": {"cases": 8, "shards": 16, "extra": []},
    "thorough": {"cases": 40, "shards": 16, "extra": []},
}

PROPS = {
    "C11": {
        "module": "HqModel.Props.C11",
        "theorems": ["HqModel.C11.c11_fresh", "HqModel.C11.c11_iterate", "HqModel.C11.c11_iterate_step"],
        "parts": [dict(_PART, tags=["res", "ctr", "next", "uid", "prod"], clauses=["c11."])],
        "assumptions": [
            "ids are natural numbers in the model (u32 wrap-around of the counters is not what C11 is about)",
            "c11_iterate: no `hq journal prune` between restarts (pruning drops the high-water marks of completed jobs / lost "
            "workers; ids the pruned journal no longer mentions are reissued - theorem c11_prune_lowers_marks, recorded observation)",
            "a `Submit` attaching to a job the journal never opened is ignored by restore (warning) and its id is not protected",
        ],
        "trusted_base": _TRUSTED,
        "rule": "one evaluation = one operation of a journal trace (record appended by the real JournalWriter, restore of a "
                "prefix / torn tail by the real StateRestorer incl. the first ids issued by State::new_job_id, Core::new_worker_id, "
                "AutoAllocState::create_id) executed on the real code and on the Lean model with outputs compared under the "
                "projection {res, ctr, next, uid, prod}; a case is distinct by the hash of its op sequence, non-trivial with >= 2 ops",
    },
    "C10": {
        "module": "HqModel.Props.C10",
        "theorems": [
            "HqModel.C10.c10_restore_refines_partial", "HqModel.C10.c10_prefix", "HqModel.C10.c10_torn_tail",
            "HqModel.C10.c10_truncate_append", "HqModel.C10.c10_every_crash_point", "HqModel.C10.c10_torn_tail_load",
            "HqModel.C10.c10_f9_witness", "HqModel.C10.c10_f10_witness", "HqModel.C10.c10_full_statement_false",
        ],
        "parts": [dict(_PART, tags=["res", "trunc", "job", "cnt", "task", "sub", "adj", "core", "queue", "prod"],
                       clauses=["c10.", "gen."])],
        "assumptions": [
            "c10_restore_refines is proved as `_partial`: under `NoFailBeforeStart` (excludes defect F9) and with the job "
            "counters only for jobs with at most one submit (excludes defect F10); the full statement is refuted on concrete "
            "witness journals (c10_f9_witness, c10_f10_witness) that are replayed on the real code (corpus/journal/)",
            "`Producible` = the explicit well-formedness predicate of lean/HqModel/Journal/Spec.lean (decidable); tied to the "
            "generator by the `prod` out-line",
            "IntArray ranges have step >= 1 (Rust `step_by(0)` panics; part of `Producible`)",
        ],
        "trusted_base": _TRUSTED,
    },
    "C12": {
        "module": "HqModel.Props.C12",
        "theorems": ["HqModel.C12.c12_wf", "HqModel.C12.c12_f12_witness"],
        "parts": [dict(_PART, tags=["pn", "prec", "res", "job", "cnt", "task", "sub", "adj", "core", "queue"],
                       clauses=["c12."])],
        "assumptions": [
            "live sets are the ones `handle_prune_journal` computes: jobs of the State that are not terminated, workers that "
            "are connected; prune is requested between two server actions",
            "c12_prune_equiv is proved as `_partial` (all components except crash counts); the crash-count component is "
            "refuted by c12_f12_witness (defect F12: `WorkerLost` records of no-longer-live workers are dropped)",
        ],
        "trusted_base": _TRUSTED,
    },
}
