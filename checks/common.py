"""Shared machinery of /verif/bin/check (see DESIGN.md sections 3-5).

A *component* (job, alloc, autoalloc, stream, auth, journal, core, sched) owns
  - a Lean model + a compiled driver exe  (lean/Driver/<Comp>Main.lean -> hqm-<comp>)
  - a harness subcommand                  (harness/src/<comp>.rs      -> hqv <comp> ...)
  - a python plugin                       (checks/<comp>.py) describing its properties.
The generic flow implemented here:
  1. build + audit the Lean property module (proof obligations, axioms)
  2. build the harness against /repo's current working tree (hooks on)
  3. run the harness (real code) -> trace files with `case/op/out/mon/end` lines
  4. pipe the same traces through the model driver -> model `out` lines
  5. compare under the property's projection, scan monitor lines, classify, write evidence.
"""
import fcntl, hashlib, json, os, re, shutil, subprocess, sys, time
from concurrent.futures import ThreadPoolExecutor

ROOT = os.path.dirname(os.path.dirname(os.path.abspath(__file__)))
LEAN = os.path.join(ROOT, "lean")
HARNESS = os.path.join(ROOT, "harness")
WORK = os.path.join(ROOT, "work")
EVID = os.path.join(ROOT, "evidence")
REPLAYS = os.path.join(ROOT, "replays")
HQV = os.path.join(HARNESS, "target", "release", "hqv")
ALLOWED_AXIOMS = {"propext", "Classical.choice", "Quot.sound"}
NCPU = os.cpu_count() or 4
ENV = dict(os.environ, CARGO_NET_OFFLINE="true")


def sh(cmd, cwd=None, timeout=None, env=None, stdin=None, stdout=None):
    p = subprocess.run(cmd, cwd=cwd, timeout=timeout, env=env or ENV, stdin=stdin,
                       stdout=stdout or subprocess.PIPE, stderr=subprocess.STDOUT, text=True)
    return p.returncode, (p.stdout if stdout is None else "")


class Lock:
    def __init__(self, name):
        os.makedirs(WORK, exist_ok=True)
        self.path = os.path.join(WORK, name + ".lock")
    def __enter__(self):
        self.f = open(self.path, "w")
        fcntl.flock(self.f, fcntl.LOCK_EX)
    def __exit__(self, *a):
        fcntl.flock(self.f, fcntl.LOCK_UN)
        self.f.close()


# ---------------------------------------------------------------- Lean side
def lake_build(targets):
    with Lock("lake"):
        rc, out = sh(["lake", "build"] + targets, cwd=LEAN, timeout=3600)
    return rc == 0, out


AUDIT_TMPL = """import Lean
import {module}
open Lean in
#eval show CoreM Unit from do
  let env ← getEnv
  let mut lines : Array String := #[]
  for (n, ci) in env.constants.map₁.toList do
    match env.getModuleIdxFor? n with
    | none => pure ()
    | some idx =>
      let modName := env.header.moduleNames[idx.toNat]!
      if (modName.toString.startsWith "HqModel") && !n.isInternal then
        match ci with
        | .thmInfo _ =>
          let axs ← collectAxioms n
          lines := lines.push s!"THM {{modName}} {{n}} {{axs.toList}}"
        | _ => pure ()
  for l in lines do IO.println l
"""


def lean_audit(module):
    """Every theorem of the HqModel.* modules in the import cone of `module`, with its axioms."""
    os.makedirs(WORK, exist_ok=True)
    path = os.path.join(WORK, "audit_%s.lean" % module.replace(".", "_"))
    with open(path, "w") as f:
        f.write(AUDIT_TMPL.format(module=module))
    rc, out = sh(["lake", "env", "lean", path], cwd=LEAN, timeout=1800)
    thms = []
    for line in out.splitlines():
        m = re.match(r"THM (\S+) (\S+) \[(.*)\]$", line)
        if m and not re.search(r"(^|\.)(injEq|sizeOf_spec|eq_def|eq_\d+|match_\d+.*|proof_\d+|noConfusion.*|below_\d+|brecOn.*|rec_\d+|congr_simp|induct.*|fun_cases.*|ext|ext_iff|omega_.*)$", m.group(2)):
            axs = [a.strip() for a in m.group(3).split(",") if a.strip()]
            thms.append({"module": m.group(1), "name": m.group(2), "axioms": axs})
    return rc == 0, thms, out


def grep_forbidden(paths):
    """Textual scan for sorry/admit/axiom/native_decide/... outside comments."""
    hits = []
    pat = re.compile(r"\b(sorry|admit|native_decide|bv_decide|implemented_by|unsafe|maxHeartbeats 0)\b|^\s*axiom\s")
    for p in paths:
        if not os.path.exists(p):
            continue
        incomment = 0
        for i, line in enumerate(open(p, encoding="utf-8"), 1):
            s = line
            # strip block comments (approximate, nesting-aware) and line comments
            outl = ""
            j = 0
            while j < len(s):
                if s.startswith("/-", j):
                    incomment += 1; j += 2; continue
                if s.startswith("-/", j) and incomment:
                    incomment -= 1; j += 2; continue
                if not incomment:
                    if s.startswith("--", j):
                        break
                    outl += s[j]
                j += 1
            if pat.search(outl):
                hits.append("%s:%d: %s" % (p, i, line.strip()))
    return hits


def lean_sources_in_cone(module):
    """Files of the HqModel.* import cone of a module (transitive, textual)."""
    seen, todo = set(), [module]
    while todo:
        m = todo.pop()
        if m in seen or not m.startswith("HqModel"):
            continue
        seen.add(m)
        p = os.path.join(LEAN, *m.split(".")) + ".lean"
        if os.path.exists(p):
            for line in open(p, encoding="utf-8"):
                mm = re.match(r"\s*(?:public\s+)?import\s+(\S+)", line)
                if mm:
                    todo.append(mm.group(1))
    return sorted(os.path.join(LEAN, *m.split(".")) + ".lean" for m in seen)


# ---------------------------------------------------------------- Rust side
def cargo_build():
    with Lock("cargo"):
        lock_src = "/repo/Cargo.lock"
        lock_dst = os.path.join(HARNESS, "Cargo.lock")
        if not os.path.exists(lock_dst):
            shutil.copy(lock_src, lock_dst)
        rc, out = sh(["cargo", "build", "--release", "--offline", "--bin", "hqv"], cwd=HARNESS, timeout=3600)
    return rc == 0, out


def repo_tree_id():
    rc, out = sh(["git", "-C", "/repo", "rev-parse", "HEAD"])
    rc2, diff = sh(["git", "-C", "/repo", "diff", "HEAD", "--", "crates"])
    return out.strip()[:12] + ("+" + hashlib.sha1(diff.encode()).hexdigest()[:8] if diff.strip() else "")


# ---------------------------------------------------------------- traces
class Case:
    __slots__ = ("header", "lines")
    def __init__(self, header):
        self.header = header
        self.lines = []   # (kind, text) with kind in op/out/mon


def parse_trace(path):
    cases, cur = [], None
    with open(path, encoding="utf-8", errors="replace") as f:
        for raw in f:
            line = raw.rstrip("\n")
            if line.startswith("case "):
                cur = Case(line); cases.append(cur)
            elif cur is None:
                continue
            elif line.startswith("op "):
                cur.lines.append(("op", line))
            elif line.startswith("out "):
                cur.lines.append(("out", line))
            elif line.startswith("mon "):
                cur.lines.append(("mon", line))
            elif line.startswith("act "):
                cur.lines.append(("act", line))
            elif line == "end":
                cur = None
    return cases


def steps_of(case):
    """[(op_line, [out lines], [mon lines])]"""
    steps = []
    for kind, line in case.lines:
        if kind == "op":
            steps.append((line, [], []))
        elif kind == "act":
            continue
        elif steps:
            steps[-1][1 if kind == "out" else 2].append(line)
    return steps


def out_tag(line):
    t = line.split(" ", 2)
    return t[1] if len(t) > 1 else ""


class Disagreement:
    def __init__(self, case, step_idx, op, tag, impl, model):
        self.case, self.step_idx, self.op, self.tag, self.impl, self.model = case, step_idx, op, tag, impl, model
    def describe(self):
        return {"case": self.case.header, "step": self.step_idx, "op": self.op, "tag": self.tag,
                "impl": self.impl, "model": self.model}


def compare_cases(impl_cases, model_cases, tags=None):
    """First disagreement per case. `tags`: set of out-tags in the property's projection (None = all).
    Returns (disagreements_in_projection, n_desync_outside, n_steps_compared)."""
    dis, outside, nsteps = [], 0, 0
    mc = {c.header: c for c in model_cases}
    for ic in impl_cases:
        m = mc.get(ic.header)
        if m is None:
            dis.append(Disagreement(ic, -1, "", "!missing-case", [ic.header], []))
            continue
        isteps, msteps = steps_of(ic), steps_of(m)
        for k, (iop, iouts, _) in enumerate(isteps):
            if k >= len(msteps) or msteps[k][0] != iop:
                dis.append(Disagreement(ic, k, iop, "!op-mismatch", [iop], [msteps[k][0]] if k < len(msteps) else []))
                break
            nsteps += 1
            mouts = msteps[k][1]
            if iouts == mouts:
                continue
            # find the first differing line and its tag
            j = 0
            while j < len(iouts) and j < len(mouts) and iouts[j] == mouts[j]:
                j += 1
            bad = iouts[j] if j < len(iouts) else mouts[j]
            tag = out_tag(bad)
            if tags is None or tag in tags or tag.startswith("!"):
                dis.append(Disagreement(ic, k, iop, tag, iouts, mouts))
            else:
                # is there any differing line inside the projection in this step?
                pi = [l for l in iouts if out_tag(l) in tags]
                pm = [l for l in mouts if out_tag(l) in tags]
                if pi != pm:
                    dis.append(Disagreement(ic, k, iop, "projected", iouts, mouts))
                else:
                    outside += 1   # model desynchronised outside the projection: case dropped for this property
            break
    return dis, outside, nsteps


def monitor_fails(cases, clauses=None):
    """`mon FAIL <clause> <sig> <detail…>` lines; clauses: set of clause prefixes relevant for the property."""
    fails = []
    for c in cases:
        for k, (op, _, mons) in enumerate(steps_of(c)):
            for m in mons:
                t = m.split(" ", 4)
                if len(t) >= 3 and t[1] == "FAIL":
                    clause = t[2]
                    if clauses is None or any(clause.startswith(p) for p in clauses):
                        fails.append({"case": c, "step": k, "op": op, "clause": clause,
                                      "sig": t[3] if len(t) > 3 else "", "detail": t[4] if len(t) > 4 else ""})
    return fails


def case_text(case, upto=None):
    out = [case.header]
    k = -1
    for kind, line in case.lines:
        if kind == "op":
            k += 1
            if upto is not None and k > upto:
                # the `act` line(s) that belong to the cut-off operation were already emitted: drop them
                while len(out) > 1 and out[-1].startswith("act "):
                    out.pop()
                break
        out.append(line)
    out.append("end")
    return "\n".join(out)


# ---------------------------------------------------------------- running harness + driver
def run_shards(comp, seed, tier, extra, nshards, workdir, driver_exe, cases_per_shard):
    os.makedirs(workdir, exist_ok=True)
    drv = os.path.join(LEAN, ".lake", "build", "bin", driver_exe)
    def one(i):
        ip = os.path.join(workdir, "impl_%d.trace" % i)
        mp = os.path.join(workdir, "model_%d.trace" % i)
        with open(ip, "w") as f:
            rc, _ = sh([HQV, comp, "gen", "--seed", str(seed), "--shard", "%d/%d" % (i, nshards),
                        "--cases", str(cases_per_shard), "--tier", tier] + extra, stdout=f, timeout=7200)
        if rc != 0:
            return i, ip, mp, "harness rc=%d" % rc
        with open(ip) as fin, open(mp, "w") as fout:
            p = subprocess.run([drv], stdin=fin, stdout=fout, stderr=subprocess.PIPE, text=True, timeout=7200)
        if p.returncode != 0:
            return i, ip, mp, "driver rc=%d %s" % (p.returncode, p.stderr[-2000:])
        return i, ip, mp, None
    with ThreadPoolExecutor(max_workers=min(nshards, NCPU)) as ex:
        return list(ex.map(one, range(nshards)))


def run_trace_file(comp, trace_path, driver_exe, workdir):
    """Re-run an explicit trace (corpus / replay) through harness `replay` and the driver."""
    os.makedirs(workdir, exist_ok=True)
    drv = os.path.join(LEAN, ".lake", "build", "bin", driver_exe)
    base = os.path.basename(trace_path)
    ip = os.path.join(workdir, "impl_" + base)
    mp = os.path.join(workdir, "model_" + base)
    with open(trace_path) as fin, open(ip, "w") as f:
        rc, _ = sh([HQV, comp, "replay"], stdin=fin, stdout=f, timeout=3600)
    if rc != 0:
        return ip, mp, "harness replay rc=%d" % rc
    with open(ip) as fin, open(mp, "w") as fout:
        p = subprocess.run([drv], stdin=fin, stdout=fout, stderr=subprocess.PIPE, text=True, timeout=3600)
    if p.returncode != 0:
        return ip, mp, "driver rc=%d %s" % (p.returncode, p.stderr[-2000:])
    return ip, mp, None


# ---------------------------------------------------------------- known findings / evidence / verdict
def load_known(prop):
    path = os.path.join(ROOT, "KNOWN_FINDINGS.jsonl")
    res = []
    if os.path.exists(path):
        for line in open(path):
            line = line.strip()
            if line and not line.startswith("#"):
                e = json.loads(line)
                if e.get("property") == prop:
                    res.append(e)
    return res


def matches_known(fail, known):
    """A monitor failure is covered by a finding iff clause and signature match its `identify`."""
    for e in known:
        if e.get("kind") != "finding":
            continue
        ident = e.get("identify", {})
        if ident.get("clause") == fail["clause"] and ident.get("sig") == fail["sig"]:
            return e
    return None


def write_replay(prop, name, text):
    os.makedirs(REPLAYS, exist_ok=True)
    p = os.path.join(REPLAYS, "%s_%s.txt" % (prop, name))
    with open(p, "w") as f:
        f.write(text)
    return p


def write_evidence(prop, tier, seed, coverage, assumptions, wall, violations):
    os.makedirs(EVID, exist_ok=True)
    ev = {"property_id": prop, "tier": tier, "seed": seed, "level": "proof", "coverage": coverage,
          "assumptions": assumptions, "wall_s": round(wall, 2), "violations": violations}
    with open(os.path.join(EVID, prop + ".json"), "w") as f:
        json.dump(ev, f, indent=1, sort_keys=True)
        f.write("\n")
