"""Component `sched` (M7, one scheduling decision): C15. The traces come from the real tako scheduler
(`create_task_batches` -> `run_scheduling_solver` with HiGHS -> `create_task_mapping`) run on small instances; ops =
the instance as read back from the real core + the solver's solution + the placement; outs = the batches and the MILP
as the real code built them (recorded by hooks), the ids `take_tasks` popped, the queues left, and the verdicts
feasible / optimal / fragment / C15 predicate, recomputed by the Lean model. Request classes range over two resource
kinds (cpus + gpus), workers are heterogeneous (notes/sched.md, notes/sched2.md)."""

PROPS = {
    "C15": {
        "module": "HqModel.Props.C15",
        "theorems": [
            "HqModel.C15.c15_queue_order",
            "HqModel.C15.c15_queue_order_takeTasks",
            "HqModel.C15.c15_queue_sorted_reachable",
            "HqModel.C15.prio_embedding_mono",
            "HqModel.C15.c15_batches_spec",
            "HqModel.C15.c15_partial_F",
            "HqModel.C15.c15_counterexample",
            "HqModel.C15.c15_counterexample_two_workers",
            "HqModel.C15.c15_counterexample_weights",
            "HqModel.C15.c15_F1_two_resources",
            "HqModel.C15.c15_gap_two_resources",
            "HqModel.C15.c15_counterexample_two_resources",
        ],
        "parts": [{
            "component": "sched", "driver": "hqm-sched",
            "tags": ["batch", "den", "var", "row", "taken", "left", "deal", "feasible", "objective", "optimal", "frag", "spec",
                     "c15", "!panic", "!bad-op"],
            "clauses": ["c15."],
            "quick": {"cases": 50, "shards": 16, "extra": []},
            "thorough": {"cases": 1500, "shards": 16, "extra": []},
        },
            # the priority mechanism inside ONE class: ready queues in priority order, the backlog (prefill set) given back when a
            # higher-priority task of the class becomes ready (TaskQueue, check_dispose_prefill, take_tasks): the core view of the
            # simulated cluster (model M1: queue contents, retract messages, redirects compared per action) + monitor
            # c15.prefill_priority on every core snapshot
            {"component": "core", "driver": "hqm-core", "tags": ["q", "msg", "rd", "t", "!panic", "!bad-choice"], "clauses": ["c15."],
             "quick": {"cases": 13, "shards": 12, "extra": []}, "thorough": {"cases": 100, "shards": 16, "extra": []}}],
        "assumptions": [
            "c15_partial_F is PARTIAL: PriorityRespecting is proved for the fragment F = F1 (at most one request class with ready "
            "tasks; any cluster, any needs over the two resource kinds: c15_F1_two_resources) u F2 (one worker, at most two such "
            "classes, default class weights, at most 32 priority levels, AND the explicit hypothesis CpuOnly: the classes with "
            "ready tasks ask for cpus only - the worker may have gpus and running tasks may use them) only; outside F the "
            "property is false for the code as it is (c15_counterexample, c15_counterexample_two_workers, "
            "c15_counterexample_weights, and c15_counterexample_two_resources: the shape of F2 with a class that also asks for "
            "gpus; KNOWN_FINDINGS F7)",
            "c15_queue_order* cover queues without a prefill set (proactive filling is off in C15's quantifier and in the generator); "
            "the hash-ordered drain of a non-empty prefill set is validated by Queue.takeTasks but not covered by a theorem",
            "HiGHS is not modelled: its solution is an input of the model; that it is feasible and optimal for the modelled "
            "MILP is assumed by the theorems and checked by exhaustive enumeration of the integer box on every generated instance "
            "(out-tags feasible/optimal); theorems quantify over EVERY optimal solution, so any tie-break of the solver is covered",
            "objective weights are f64 in the code and exact rationals (scaled integers, common denominator max G1 1 * max G2 1 * "
            "workers * 10^6 with G = free amount of a kind in the cluster) in the model; the harness checks per variable that the "
            "recorded f64 weight times the denominator is the model's integer up to 1e-4 absolute + 1e-12 relative (with two "
            "kinds the denominator exceeds 2^53, an exact integer comparison of f64 values is no longer possible; a wrong weight "
            "formula is off by percents); with two kinds the smallest objective difference (about 1/(G1*G2*workers*100) in "
            "whole units) can be below the MIP gap tolerance of HiGHS (1e-4 relative): that HiGHS nevertheless returned an exact "
            "optimum is checked per instance by the exhaustive enumerations (out-tag optimal; 0 exceptions in all runs)",
            "quantifier of the model and of the generator: single-node single-variant request classes over TWO resource kinds "
            "(cpus >= 1 and gpus >= 0, whole units), 1-3 workers with heterogeneous (cpus, gpus) totals (gpus may be absent), "
            "idle or partly busy with running tasks of classes inside or outside the ready queues, some rejected (blocked) "
            "classes, up to 8 priority levels, no worker time limits, min_utilization 0, one worker group, proactive filling "
            "off (no prefill set), solver status optimal; a third resource kind, 'all' requests, fractional amounts, "
            "multi-variant gap computation (compute_gap_resources, which calls the LP solver) and multi-node rows are outside "
            "the model",
            "the scheduling model M7 (lean/HqModel/Sched/*.lean) is hand-written from batches.rs/solver.rs/gap.rs/mapping.rs; it "
            "is tied to the code only by the sampled correspondence of this check (batches, variables, weights, rows, taken ids "
            "compared per instance)",
        ],
        "trusted_base": [
            "recorder hooks tako::verif::sched_c15 (batches, MILP variables/rows/solution as handed to LpSolver) and "
            "tako::verif::sched (take_tasks result), tako::verif::server (VerifServer, core snapshot)",
            "HiGHS 1.x via the highs crate: 'Optimal' status taken as optimality within its tolerances; cross-checked per instance "
            "by two independent exhaustive enumerations (harness in Rust, driver in Lean)",
            "harness-side copy of the modelled encoding (harness/src/sched.rs: model_batches/model_milp/brute_best) used only to "
            "classify monitor hits (sig); it is compared with the real recorded encoding and with the Lean model on every instance",
        ],
        "rule": "one evaluation = one real scheduling round whose batches, MILP (variables, exact weights, rows), taken ids, "
                "remaining queues and verdicts (solution feasible/optimal for the modelled MILP, fragment, C15 predicate) were "
                "compared between the real code and the Lean model; a case is distinct by the hash of its instance + solution ops",
    },
}
