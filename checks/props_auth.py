"""Component `auth` (model M9): property C20. See /verif/work/auth_notes.md."""

_ROWS = 21696   # size of the complete table (printed by `hqv auth gen --count`; every case header carries rows=<N>)

PROPS = {
    "C20": {
        "module": "HqModel.Props.C20",
        "theorems": [
            "HqModel.C20.c20_complete",
            "HqModel.C20.c20_mismatch",
            "HqModel.C20.c20_auth",
            "HqModel.C20.c20_no_reflection",
            "HqModel.C20.c20_role_chal_inj",
            "HqModel.C20.c20_keyed_accepts_only_answer",
            "HqModel.C20.c20_accept_request_checked",
            "HqModel.C20.c20_keyless",
            "HqModel.C20.c20_nonvacuous",
        ],
        "parts": [{
            "component": "auth", "driver": "hqm-auth",
            # `res`: accept/refuse of both ends; `sent`: kind (noauth/enc/error/none) of the response each end sent
            "tags": ["res", "sent"],
            "clauses": ["c20."],
            # the harness IGNORES --cases: it always enumerates the whole table and splits it by row index mod shards
            "quick":    {"cases": _ROWS // 8 + 1,  "shards": 8,  "extra": []},
            "thorough": {"cases": _ROWS // 16 + 1, "shards": 16, "extra": []},
        }],
        "assumptions": [
            "Symbolic (Dolev-Yao) cryptography: orion's XChaCha20-Poly1305 secret stream is an unforgeable AEAD - a chunk opens "
            "under (key, stream nonce) only if it was sealed with exactly that key and nonce (Lean: openC_eq_some); this includes "
            "chunk-position and tag binding, i.e. a later data chunk of a connection cannot be replayed as the first chunk "
            "(handshake answer) of a stream, and honest endpoints seal handshake payloads only as first chunk with tag Message.",
            "secure_rand_bytes returns 16 bytes that are fresh and unpredictable: a new challenge differs from every challenge "
            "generated before and from every challenge that occurred in any request seen before (side condition of Action.start).",
            "Keys of honest endpoints are not known to the adversary (k not in adv); SecretKey::from_slice / the access file "
            "handling that produces the key is outside the model.",
            "bincode encoding and length-delimited framing are not modelled: the symbolic adversary acts on message fields; "
            "undecodable frames and I/O errors are treated like a message that never arrives (receiver refuses).",
            "Timeouts are not modelled (a dropped message = the receiver never finishes = refuse); the harness closes the pipe "
            "so that the real code sees EOF instead of waiting 15 s (virtual clock as a safety net).",
            "The correspondence table fixes two keys, the four declared role pairs, protocol numbers {0,1} and ONE substitution per "
            "session; the theorems themselves are unbounded (any number of sessions, interleavings and adversary steps).",
            "Finding outside the quantifier (documented, theorem c20_protocol_not_sealed, harness mode --double-proto): the protocol "
            "number and the requester's role field are not inside the seal; rewriting the protocol field of BOTH requests makes "
            "endpoints with different protocol numbers accept each other.",
        ],
        "trusted_base": [
            "orion 0.17 (XChaCha20-Poly1305 secretstream, secure_rand_bytes), bincode 1.3 fixint encoding, tokio-util "
            "LengthDelimitedCodec, tokio duplex pipes + paused clock (harness only)",
            "harness mirror structs of AuthenticationRequest/Response (same serde shape; every genuine frame is round-tripped "
            "through them on every run, clause c20.mirror)",
        ],
        "rule": ("EXHAUSTIVE finite table (every case header: exhaustive=1 rows=%d): key in {none,k1,k2}^2 x the 4 declared "
                 "(my_role,peer_role) pairs per end (4x4) x protocol {0,1}^2 x adversary action in {none} + for message i in 1..4: "
                 "drop, reflect, earlier-session replay, parallel-session (oracle) substitute + field-modified copies (requests: "
                 "protocol flipped, role := each other role, challenge bit flip, challenge truncated to 15, mode swapped; responses: "
                 "ciphertext bit flip, nonce bit flip, replaced by NoAuth, replaced by Error); statically non-applicable request "
                 "modifications (challenge edits of a NoAuth request) are not rows. One case = one row = two evaluations: `op base` "
                 "(earlier undisturbed session of the two configurations, real code vs model) and `op adv` (main session under the "
                 "action, real do_authentication on both ends vs model); outputs compared: accept/refuse of both ends and the kind "
                 "of response each end sent. The table is complete in both tiers; --cases is ignored by the generator." % _ROWS),
    },
}
