"""Component `job` (M4, job layer): C13. The traces come from the simulated cluster (real tako reactor + scheduler,
real HQ job layer, real worker state machines), printed in the *job view*: ops = client requests and the tako
callbacks the real core made; outs = events, responses, ids handed to the core, job snapshot."""

SIM_TRUST = [
    "harness world: harness-owned FIFO queues between the real server reactor and the real worker state machines; "
    "tokio scheduling, TCP, HiGHS, the file system and process spawning are not modelled (task ends are harness inputs)",
]

PROPS = {
    "C13": {
        "module": "HqModel.Props.C13",
        "theorems": [
            "HqModel.C13.c13_counters",
            "HqModel.C13.c13_status",
            "HqModel.C13.c13_submit_reject_no_effect",
            "HqModel.C13.c13_auto_ids",
            "HqModel.C13.c13_auto_id_single",
            "HqModel.C13.c13_completed_once",
            "HqModel.C13.c13_wait",
        ],
        "parts": [{
            "component": "job", "driver": "hqm-job",
            "tags": ["ev", "resp", "ret", "core", "job", "tasks", "live", "!panic"],
            "clauses": ["c13."],
            "quick": {"cases": 40, "shards": 12, "extra": []},
            "thorough": {"cases": 400, "shards": 16, "extra": []},
        }, {
            # submit with wait/progress under a slow journal flush: the waiting connection goes through the real
            # client_rpc_loop / start_streaming; the journal sink answers flush requests only when the harness says so
            "component": "job", "driver": "hqm-job", "name": "job_wait",
            "tags": ["ev", "ret", "core", "job", "tasks", "live", "wait", "!panic"],
            "clauses": ["c13."],
            "quick": {"cases": 20, "shards": 12, "extra": ["--wait"]},
            "thorough": {"cases": 200, "shards": 16, "extra": ["--wait"]},
        }],
        "assumptions": [
            "job-layer model M4 (lean/HqModel/Job/Model.lean) is hand-written from job.rs/state.rs/submit.rs/client/mod.rs; "
            "it is tied to the code only by the sampled correspondence of this check",
            "submits are non-empty and id arrays are non-overlapping (what the hq client produces); timestamps, names, "
            "program definitions and worker ids inside task data are not modelled",
            "c13_wait: no completion report of the job lies before the accepted submit, so a listener registered while the submit "
            "is processed receives every completion report; THAT the real listener is registered at that point (fix 6bae9eb; "
            "before it: after the journal-flush await, defect F5) is checked on every run on simulated cluster runs with a "
            "slow journal flush through the real client_rpc_loop / start_streaming (part job_wait, out-tag wait, monitor c13.wait)",
        ],
        "trusted_base": SIM_TRUST,
    },
}
