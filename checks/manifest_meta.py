"""Per-property text of MANIFEST.json (level claimed, trusted base, technique)."""
NOT_APPLICABLE_REASON = {}
CORR = ("; the model is tied to /repo on every run by a sampled correspondence check (real code vs compiled Lean model on the same "
        "operation sequences) plus harness-side monitors that give a concrete failing input")
META = {
    "C13": {
        "text": "Lean 4 theorems over the job-layer model M4, by induction over ALL sequences of client requests and tako callbacks: "
                "counters equal per-state task counts and never underflow (c13_counters), job status follows the rule table and its assert "
                "cannot fire (c13_status), a rejected submit changes nothing (c13_submit_reject_no_effect), auto ids continue after the maximum "
                "(c13_auto_ids)" + CORR,
        "design_ref": "DESIGN.md 7/C13",
        "note": "trusted: Lean kernel (axioms propext, Classical.choice, Quot.sound), the hand-written model M4, harness + hooks + driver; "
                "not yet a theorem: completed-exactly-once and the submit+wait clause (listener registration after the journal-flush await)",
        "technique": "Lean 4 proof (inductive invariant over operation sequences) + differential correspondence check",
    },
}
