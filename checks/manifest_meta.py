"""Per-property text of MANIFEST.json (level claimed, trusted base, technique)."""
NOT_APPLICABLE_REASON = {}
CORR = ("; the model is tied to /repo on every run by a sampled correspondence check (real code vs compiled Lean model on the same "
        "operation sequences) plus harness-side monitors that give a concrete failing input")
SIMNOTE = 'trusted: Lean kernel, hand-written models M1/M4 tied by the sampled correspondence (0 disagreements on the unchanged tree), recorded solver solutions and hash-order picks as validated inputs, harness world (FIFO queues, task ends as inputs); the history-level statement is monitored on real traces, not proved'
META = {
    "C13": {
        "text": "Lean 4 theorems over the job-layer model M4, by induction over ALL sequences of client requests and tako callbacks: "
                "counters equal per-state task counts and never underflow (c13_counters), job status follows the rule table and its assert "
                "cannot fire (c13_status), a rejected submit changes nothing (c13_submit_reject_no_effect), auto ids continue after the maximum "
                "(c13_auto_ids), a job is reported completed at most once and exactly when closed with all tasks terminal, never before "
                "(c13_completed_once), and no completion report of a job lies before an accepted submit into it, so the listener of a submit "
                "with wait/progress misses none (c13_wait)" + CORR,
        "design_ref": "DESIGN.md 7/C13",
        "note": "trusted: Lean kernel (axioms propext, Classical.choice, Quot.sound), the hand-written model M4, harness + hooks + driver; "
                "that the real listener of a submit with wait is registered while the submit is processed is not a theorem: it is checked on "
                "simulated runs with a slow journal flush through the real client_rpc_loop (defect F5 found this way, fixed in 6bae9eb)",
        "technique": "Lean 4 proof (inductive invariant over operation sequences) + differential correspondence check",
    },
    "C19": {
        "text": "Lean 4 theorems over a byte-level model of the stream codec, writer and reader (M8): varint/header round-trip and "
                "prefix-freeness, c19_readback (for every family of chunk sequences, every interleaving into any number of files in any "
                "directory order: cat = bytes of the maximal instance in write order, finished iff end marker, earlier instances superseded), "
                "c19_torn (every file cut at any byte offset behind the relevant end marker)" + CORR,
        "design_ref": "DESIGN.md 7/C19",
        "note": "trusted: Lean kernel, hand-written byte-level model of bincode varint + StreamChunkHeader (compared byte-exactly with every "
                "file the real writer produced), tokio mpsc FIFO + BufWriter flush order, file-system prefix semantics under crash; hypothesis: "
                "distinct instance ids per task across files (= C06)",
        "technique": "Lean 4 proof (induction over chunk/file lists, byte-level codec lemmas) + differential correspondence check",
    },
    "C20": {
        "text": "Lean 4 theorems over a symbolic (Dolev-Yao) model of the authentication handshake (M9) for an unbounded number of sessions "
                "and adversary steps: c20_complete, c20_mismatch, c20_auth (injective agreement on role and this session's challenge), "
                "c20_no_reflection, c20_role_chal_inj; the whole finite table (24768 rows: keys x roles x protocols x single-message "
                "substitutions incl. reflection and cross-session replay) is enumerated against the real do_authentication; the configurations of the real call sites: c20_sites_refuse_echo / c20_sites_accept_honest, tied by component authhq (real TCP, honest and echoing peers)" + CORR,
        "design_ref": "DESIGN.md 7/C20",
        "note": "trusted: Lean kernel, the symbolic model's premises (unforgeability of orion XChaCha20-Poly1305 sealing, unpredictability of "
                "secure_rand_bytes), the hand-written model of auth.rs tied by the exhaustive table",
        "technique": "Lean 4 proof (symbolic protocol model, invariant over unbounded traces) + exhaustive differential table",
    },
    "C01": {
        "text": "Lean 4 theorems: a finish is accepted only for a started task, a terminal outcome is final in the job layer (every second terminal transition is refused), the core forgets a task in the step that reports its outcome and ignores every later message about it; OutcomeOnce over whole cluster runs (incl. 'finished only if a worker ran it successfully') is monitored on every real trace" + CORR,
        "design_ref": 'DESIGN.md 7/C01',
        "note": SIMNOTE,
        "technique": "Lean 4 proof (step-level and job-layer theorems) + differential correspondence check on a simulated cluster + trace monitors",
    },
    "C02": {
        "text": 'Lean 4 theorems: for every submit shape the ids attached to the job equal the ids handed to the scheduler (incl. auto ids); registry equality after every client request and the rest condition after a fault-free drain are monitored on every real trace' + CORR,
        "design_ref": 'DESIGN.md 7/C02',
        "note": SIMNOTE,
        "technique": "Lean 4 proof (step-level and job-layer theorems) + differential correspondence check on a simulated cluster + trace monitors",
    },
    "C03": {
        "text": 'Lean 4 theorem: a new task with unfinished dependencies enters no ready queue (all core states); no-early-start at every launch and propagation of failure/cancel to all transitive dependents are monitored on every real trace' + CORR,
        "design_ref": 'DESIGN.md 7/C03',
        "note": SIMNOTE,
        "technique": "Lean 4 proof (step-level and job-layer theorems) + differential correspondence check on a simulated cluster + trace monitors",
    },
    "C05": {
        "text": 'Lean 4 theorems: reservations are exact and non-saturating when the request fits, release restores every component (all vectors and requests); ResInv (free + reserved = total per worker), multi-node exclusivity and single-group placement are monitored on every core snapshot of every real trace' + CORR,
        "design_ref": 'DESIGN.md 7/C05',
        "note": SIMNOTE,
        "technique": "Lean 4 proof (step-level and job-layer theorems) + differential correspondence check on a simulated cluster + trace monitors",
    },
    "C06": {
        "text": 'Lean 4 theorem: a task retracted from a lost worker is re-sent with a larger instance id; single live execution, no launch after a confirmed give-back and strictly increasing instance ids in the launch log are monitored on every real trace' + CORR,
        "design_ref": 'DESIGN.md 7/C06',
        "note": SIMNOTE,
        "technique": "Lean 4 proof (step-level and job-layer theorems) + differential correspondence check on a simulated cluster + trace monitors",
    },
    "C07": {
        "text": 'Lean 4 theorems: the crash-limit decision table stated outright for every limit, loss reason and count (counter +1 exactly on failure losses, fail exactly at the limit, never-restart on any loss, unlimited never), job layer moves exactly Running->Waiting; the running list reported at every worker loss is monitored against the announced starts on every real trace; connection level: decision table M9 (c07_conn_end_failure) tied to the real worker_rpc_loop over TCP by component rpc' + CORR,
        "design_ref": 'DESIGN.md 7/C07',
        "note": SIMNOTE,
        "technique": "Lean 4 proof (step-level and job-layer theorems) + differential correspondence check on a simulated cluster + trace monitors",
    },
    "C08": {
        "text": 'Lean 4 theorems: after the cancel is answered every task of the job is terminal (all well-formed states), repeating the cancel changes nothing, other jobs are untouched, the core forgets a cancelled task in the same step; no report and no launch after the cancel are monitored on every real trace' + CORR,
        "design_ref": 'DESIGN.md 7/C08',
        "note": SIMNOTE,
        "technique": "Lean 4 proof (step-level and job-layer theorems) + differential correspondence check on a simulated cluster + trace monitors",
    },
    "C09": {
        "text": 'Lean 4 theorems: no client request (open/close/cancel/forget) makes the job layer panic in a well-formed / reachable state; every panic site of the modelled paths is an explicit outcome of the models and compared step by step; every panic of the real code is caught by the harness and reported with its source function; PROGRESS theorem for the core model: c09_core_run_no_panic (no modelled panic site is reachable under decidable input side conditions evaluated on every real operation; one exclusion = finding F27), composed partial theorems sys/sysw_run_never_stops_partial; connection ends: c09_conn_end_removes (component rpc, real server over TCP)' + CORR,
        "design_ref": 'DESIGN.md 7/C09',
        "note": SIMNOTE,
        "technique": "Lean 4 proof (step-level and job-layer theorems) + differential correspondence check on a simulated cluster + trace monitors",
    },
    "C14": {
        "text": 'Lean 4 theorems: process_task_failed hands the core the list of ALL non-terminal tasks iff the number of failed tasks exceeds the limit (otherwise nothing), and aborting that list leaves every task of the job terminal; no later start is monitored on every real trace' + CORR,
        "design_ref": 'DESIGN.md 7/C14',
        "note": SIMNOTE,
        "technique": "Lean 4 proof (step-level and job-layer theorems) + differential correspondence check on a simulated cluster + trace monitors",
    },
    "C15": {
        "text": 'Lean 4 theorems over the scheduling model M7 (create_task_batches, the MILP built by run_scheduling_solver as data, take_tasks): queue order - the tasks one decision takes from a request class are exactly its highest-priority ready tasks, for every reachable queue (c15_queue_order, c15_queue_order_takeTasks, c15_queue_sorted_reachable, prio_embedding_mono), the batch loop meets its closed-form spec (c15_batches_spec), and EVERY optimal solution of the modelled MILP is priority-respecting on the fragment F = {at most one request class with ready tasks} u {one worker, at most two classes, default weights, <= 32 priority levels} (c15_partial_F, PARTIAL); outside F the statement is false of the unchanged code (three kernel-checked counterexamples, known finding F7)' + CORR,
        "design_ref": 'DESIGN.md 7/C15',
        "note": 'trusted: Lean kernel; HiGHS is not modelled - its solution is an input whose feasibility and optimality for the modelled MILP is checked per instance by two exhaustive enumerations (Rust and Lean); f64 objective weights compared with exact scaled integers up to 1e-4; recorder hooks tako::verif::sched_c15; quantifier: single-node single-variant cpu-only classes, no time limits, proactive filling off',
        "technique": 'Lean 4 proof (exchange argument over optimal MILP solutions on a fragment, induction over queues; decide +kernel counterexamples) + differential correspondence check of batches/variables/weights/rows/taken ids per real scheduling round',
    },
    "C10": {
        "text": 'Lean 4 theorems over the journal/restore model M5: c10_restore_refines (for every producible journal restore does not stop and jobs, open flags, outcomes, counters equal the spec; every pending task resubmitted once with remaining deps, next instance id and crash count - this covers the restart clauses of C03/C06/C07), c10_prefix / c10_every_crash_point (every record boundary), c10_torn_tail / c10_truncate_append (partial last record); real server sessions through bootstrap::init_hq_server on cut journals (op boot)' + CORR,
        "design_ref": 'DESIGN.md 7/C10',
        "note": 'trusted: Lean kernel, hand-written model of restore.rs/journal read+write tied by the correspondence on real journals written by the real JournalWriter (every record boundary; byte offsets in the thorough tier); bincode/serde encoding of Event assumed deterministic and prefix-free (swept, not proved); fsync/rename/set_len semantics',
        "technique": 'Lean 4 proof (refinement of a short spec, induction over record lists) + differential correspondence check',
    },
    "C11": {
        "text": 'Lean 4 theorems for EVERY journal (no producibility needed): c11_fresh (new job/worker/queue ids exceed every id of that kind in the journal, server uid preserved), c11_iterate (preserved across repeated restarts)' + CORR,
        "design_ref": 'DESIGN.md 7/C11',
        "note": 'trusted: Lean kernel, model of the counter seeding (restore.rs, bootstrap.rs, State::new_job_id, Core::new_worker_id, autoalloc queue ids) tied by the correspondence incl. the first ids the real code issues after restore',
        "technique": 'Lean 4 proof (fold lemmas over arbitrary record lists) + differential correspondence check',
    },
    "C12": {
        "text": 'Lean 4 theorems about the prune of the code after fix 13acddd (prune2): c12_prune2_equiv_partial (for every journal that restores, the pruned journal restores with the same job entries INCLUDING crash counters, job tables equal as lists, queues, uid), c12_prune2_restore (same restored jobs and TaskSubmit batches with adjust maps), c12_append2, c12_wf2_append, c12_prune2_twice, c12_prune2_idem; the one component not preserved is queue worker resources (known finding F25, refuted on a witness); the statements about the code before the fix (F12) are kept with their witness and a regression theorem' + CORR,
        "design_ref": 'DESIGN.md 7/C12',
        "note": 'trusted: as C10; partial: queue worker_resources differ after prune (KNOWN_FINDINGS F25); F12 (crash counts) found by this check and fixed in 13acddd; the real journal thread around a prune request is exercised (op sprune); tmp-file + rename is file-system behaviour',
        "technique": 'Lean 4 proof (per-job/per-queue factorisation of the restorer fold) + differential correspondence check',
    },
    "C17": {
        "text": 'Lean 4 theorems over the auto-allocation model M6 with a fully adversarial batch system and worker query: c17_limits (inductive invariant: queued <= backlog, sum of targets <= max worker count, 1 <= target <= max per allocation), c17_silent, c17_pause, c17_paused_stays, c17_resume_live (full strength since the fix cdd9fd1), c17_permit_order_independent; the worker query: model M10, c17_mn_demand_offered / c17_mn_answers_sound, tied to the real new_worker_query by component query' + CORR,
        "design_ref": 'DESIGN.md 7/C17',
        "note": 'trusted: Lean kernel, hand-written model of autoalloc/{process,state}.rs tied by the correspondence through the real handle_message / perform_submits / do_periodic_update with a scripted QueueHandler and mock clock; the scheduler query answer is an arbitrary input',
        "technique": 'Lean 4 proof (inductive invariant over all event sequences) + differential correspondence check',
    },
    "C18": {
        "text": 'Lean 4 theorems over M6: c18_monotone (rank never decreases, finished absorbing), c18_announce (at most one Started, exactly one Finished per finished allocation, in order), c18_workers (connected set exact, normal finish exactly when distinct lost workers reach the target), c18_unknown, c18_remove_queue; the feed of worker notices from the job layer is checked in the simulated cluster (monitor c18.notify)' + CORR,
        "design_ref": 'DESIGN.md 7/C18',
        "note": 'trusted: as C17; c18_announce over whole runs assumes queue ids come from the counter (never reused; C11)',
        "technique": 'Lean 4 proof (inductive invariants over all event sequences) + differential correspondence check',
    },
    "C04": {
        "text": 'Lean 4 theorems over the allocator model M3 for all descriptors, requests and operation sequences: c04_inv (Conserve - per index free fraction + held fractions = one unit, sums never exceed the size - is an inductive invariant for every allowed choice), c04_exclusive, c04_exact (exactly the requested amount, whole indices first, at most one fractional index last), c04_release, c04_concise; clause told = held: model M8 (HqModel/Env) and theorems c04_told_only_held, c04_told_values, c04_told_taskset, c04_labels_roundtrip, tied by component env (the real HqTaskLauncher spawns a process per launch, its printed environment is compared)' + CORR,
        "design_ref": 'DESIGN.md 7/C04',
        "note": 'trusted: Lean kernel, hand-written model of worker/resources/*.rs tied by the correspondence (HiGHS group set and hash-order fraction picks are validated inputs); side condition NoSingletonGroups for c04_release/c04_concise (the normal constructor never builds such pools; the correspondence covers them); the text rendering of variable names and the parse of the printed environment (component env) are in driver / harness',
        "technique": 'Lean 4 proof (inductive invariant over operation sequences) + differential correspondence check',
    },
    "C16": {
        "text": "Lean 4 theorems over M3, full strength: c16_admit_iff (non-strict request admitted iff the free state contains the amount), c16_single_fraction, c16_claim_nostop (try_allocate never stops - no failing unwrap/assert/index, no non-termination of the claim loops incl. tight and the strict policies - in every reachable state for every policy and resource kind; termination of the tight loop by an explicit measure), c16_all (a granted all holds every index whole), c16_scatter (closed formula of the per-group contributions for any free state: empty groups skipped, several rounds; groups used = min(units, non-empty groups)); partial with explicit hypotheses: c16_grant_agrees_partial (solver determinism), c16_min_groups_partial, c16_strict_partial (tie-break bounds); recorded finding F30 (strict policy refused by the solver's tie-break term)" + CORR,
        "design_ref": 'DESIGN.md 7/C16',
        "note": "trusted: as C04; the group set chosen by HiGHS is an input validated for feasibility and (brute force over group subsets, within HiGHS's MIP gap) optimality; policies on coupled descriptors are compared, not proved",
        "technique": 'Lean 4 proof (admission/claim lemmas for all free states) + differential correspondence check with brute-force reference',
    },
}
