"""Component `worker` (M2, worker-side task state machine): worker-side clauses of C01, C02, C04, C06, C08, C09.

The traces come from the REAL `WorkerState` driven stand-alone (harness/src/worker.rs, hook
crates/tako/src/verif/worker2.rs): scripted server->worker messages, harness-owned task launcher (launch
failures, task results, time-limit expiry under paused tokio time), retract-check ticks. The resource allocator is
not part of M2: its answers are recorded in the op lines (see lean/HqModel/Worker/Model.lean).

Each entry only contributes a `parts` list (+ its theorems). The theorems live in HqModel.Props.WorkerSide; their
names are added to a property's `theorems` only when the property's Lean module has HqModel.Props.WorkerSide in its
import cone (or when no other component defines the property), so that a property file that does not import them
yet is not reported as `missing theorem`."""
import os
from checks import common as C

MODULE = "HqModel.Props.WorkerSide"
WS = os.path.join(C.LEAN, "HqModel", "Props", "WorkerSide.lean")


def _part(tags, clauses, q=90, t=500):
    return {"component": "worker", "driver": "hqm-worker", "tags": tags + ["!panic", "!bad-op", "!bad-choice", "!no-state"],
            "clauses": clauses,
            "quick": {"cases": q, "shards": 16, "extra": []}, "thorough": {"cases": t, "shards": 16, "extra": []}}


ASSUME = [
    "worker model M2 (lean/HqModel/Worker/Model.lean) is hand-written from worker/{reactor,state,rpc,task,task_comm}.rs and tied to "
    "the code only by the sampled correspondence of component `worker`",
    "the resource allocator is an abstract interface in M2: try_allocate / is_enabled answers and allocation identities are recorded "
    "from the real allocator (Rc identity of the allocation seen by the launcher and held by the running task; is_enabled queried "
    "through the hook); the only allocator law the theorems use is that try_allocate never returns a handle that is still live "
    "(checked by the model on every recorded answer); a refused try_allocate without launcher call is inferred from the absence of the "
    "call and cross-checked against is_enabled before the step and against conservation of the allocator's free amounts after it",
    "hash-order choices (iteration order of blocked_requests / prefilled_tasks) are recorded from the real maps and validated as "
    "permutations; the worker's remaining life time is treated as constant during a case (limits are far from every min_time)",
    "outside M2: remaining_time() underflow after the worker outlived its time limit, the assert in RunningTaskComm::send_stop "
    "(launcher dropped the stop receiver), shared_data[shared_index], NewWorker/LostWorker/overview messages, multi-node node lists",
]
TRUST = [
    "harness launcher (harness/src/worker.rs WLauncher) stands for TaskLauncher::build_task; tokio time is paused and advanced by the "
    "harness; tokio task scheduling, sockets and serialization of messages are not modelled",
]

_THEOREMS = {
    "C01": ["c01_timeout", "c01_timeout_signalled"],
    "C02": ["c02_enable"],
    "C04": ["c04_handover"],
    "C06": ["c06_given_back"],
    "C08": ["c08_worker"],
    "C09": ["c09_worker_no_panic"],
}
_PARTS = {
    "C01": _part(["stop", "upd", "launch", "run"], ["c01.timeout", "c01.ran"]),
    "C02": _part(["upd", "blocked", "rel", "launch"], ["c02.enable"]),
    "C04": _part(["launch", "rel", "run"], ["c04.handover"]),
    "C06": _part(["retr", "launch", "backlog", "run", "upd"], ["c06.given_back"]),
    # C08 also says "the resources reserved for it are released": conservation of the worker's allocator after every step
    "C08": _part(["launch", "backlog", "run", "upd", "stop"], ["c08.worker", "c04.handover"]),
    "C09": _part(["launch", "rel", "stop", "upd", "retr", "run", "backlog", "blocked", "stopped"], ["c09.panic"]),
}


def _imports_worker_side(pid):
    """True/False when HqModel/Props/<pid>.lean exists (does its import cone contain WorkerSide?), None when it does not exist."""
    p = os.path.join(C.LEAN, "HqModel", "Props", pid + ".lean")
    if not os.path.exists(p):
        return None
    return WS in C.lean_sources_in_cone("HqModel.Props." + pid)


PROPS = {}
for _pid in _THEOREMS:
    _imp = _imports_worker_side(_pid)
    PROPS[_pid] = {
        # used only when no other props_*.py defines the property (registry keeps the first `module`)
        "module": MODULE,
        "theorems": ["HqModel.WorkerSide." + t for t in _THEOREMS[_pid]] if _imp in (True, None) else [],
        "parts": [_PARTS[_pid]],
        "assumptions": ASSUME,
        "trusted_base": TRUST,
    }

LEAN_TARGETS = [MODULE, "hqm-worker"]
