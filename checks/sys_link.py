"""Link check of the COMPOSED model `Sys` (HqModel/Sys/Model.lean, notes/sys.md section 8).

The job view and the core view of the SAME simulated cluster runs (same seed / shard / cases: same sub-seeds, the runs are
deterministic) are merged into one world-action trace per case; the compiled driver `hqm-sys` replays it through `Sys.step`,
evaluates the side conditions `Sys.OpOk` of the `sys_*` theorems on every real action, compares the callbacks the composed model
routes to the job layer with the `cb.*` operations the real job layer received, and evaluates the conclusion of `sys_registry`
on every composed state. Every deviation is a model-side monitor line `mon FAIL sys.<clause> <sig>`."""
import collections, hashlib, os, subprocess
from concurrent.futures import ThreadPoolExecutor
from checks import common as C


def read_cases(path):
    cases = []; cur = None
    for line in open(path):
        line = line.rstrip("\n")
        if line.startswith("case "):
            cur = {"hdr": line.split(), "acts": [], "panic": False}
            cases.append(cur)
        elif cur is None:
            continue
        elif line.startswith("act "):
            cur["acts"].append({"act": line[4:], "ops": []})
        elif line.startswith("op "):
            if not cur["acts"]:
                cur["acts"].append({"act": "<none>", "ops": []})
            cur["acts"][-1]["ops"].append(line[3:].split())
        elif line.startswith("out !panic") or line.startswith("out !bad"):
            cur["panic"] = True
    return cases


def merge(job_path, core_path):
    """-> (text of the merged trace, number of cases, list of (idx, reason) skipped)"""
    job = read_cases(job_path); core = read_cases(core_path)
    out = []; skipped = []; n = 0
    for cj, cc in zip(job, core):
        idx = cj["hdr"][1]
        if cj["hdr"][2] != cc["hdr"][2]:
            skipped.append((idx, "sub-seeds differ")); continue
        if cj["panic"] or cc["panic"]:
            skipped.append((idx, "real run panicked (judged by C09)")); continue
        if len(cj["acts"]) != len(cc["acts"]) or any(a["act"][:40] != b["act"][:40] for a, b in zip(cj["acts"], cc["acts"])):
            skipped.append((idx, "act lines of the two views differ")); continue
        params = [t for t in cc["hdr"] if t.startswith("reserve=") or t.startswith("max=")]
        lines = ["C %s %s" % (idx, " ".join(params))]
        ok = True
        for aj, ac in zip(cj["acts"], cc["acts"]):
            multis = []
            for toks in ac["ops"]:
                if toks[0] != "multi":
                    ok = False; break
                rets = toks[1][5:]
                subs = []; cur = []
                for t in toks[2:]:
                    if t == "|":
                        subs.append(cur); cur = []
                    else:
                        cur.append(t)
                subs.append(cur)
                multis.append((rets, subs))
            client = [o for o in aj["ops"] if o[0] in ("open", "submit", "submitw", "close", "cancel", "forget")]
            cbs = [o for o in aj["ops"] if o[0].startswith("cb.")]
            exp = ",".join((o[0][3:] + ":" + (o[1] if len(o) > 1 else "")) for o in cbs) or "-"
            if client:
                if len(client) != 1 or cbs:
                    ok = False; break
                o = client[0]
                allsubs = [s for (_, subs) in multis for s in subs]
                if o[0] == "open":
                    lines.append("S open " + o[1][3:] + " X -")
                elif o[0] in ("submit", "submitw"):
                    nt = "-"
                    for s in allsubs:
                        if s[0] == "newrq":
                            lines.append("S core - " + " ".join(s) + " X -")
                        elif s[0] == "newtasks":
                            nt = s[1]
                        else:
                            ok = False
                    lines.append("S submit " + " ".join(x.split("=")[1] if "=" in x else x for x in o[1:3]) + " " + " ".join(o[3:]) + " " + nt + " X -")
                elif o[0] == "cancel":
                    cs = list(allsubs)
                    for j in o[1].split(","):
                        ids = "-"
                        if cs and cs[0][0] == "cancel" and all(t.startswith(j + ".") for t in cs[0][1].split(",")):
                            ids = cs.pop(0)[1]
                        lines.append("S cancel " + j + " " + ids + " X -")
                    if cs:
                        ok = False
                elif o[0] == "close":
                    for j in o[1].split(","):
                        lines.append("S close " + j + " X -")
                elif o[0] == "forget":
                    for j in o[1].split(","):
                        lines.append("S forget " + j + " " + o[2] + " X -")
            else:
                nsub = sum(len(subs) for (_, subs) in multis)
                k = 0
                for (rets, subs) in multis:
                    rem = rets
                    for s in subs:
                        k += 1
                        r = "-"
                        if s[0] in ("update", "wlost"):
                            r = rem; rem = "-"
                        lines.append("S core " + r + " " + " ".join(s) + " X " + (exp if k == nsub else "?"))
                if nsub == 0 and cbs:
                    ok = False
            if not ok:
                break
        if not ok:
            skipped.append((idx, "actions could not be merged")); continue
        lines.append("E")
        out += lines; n += 1
    return "\n".join(out) + "\n", n, skipped


def run(prop, part, tier, seed, workdir):
    os.makedirs(workdir, exist_ok=True)
    cfg = part[tier]
    clauses = part.get("clauses")
    nshards, cases = cfg["shards"], cfg["cases"]
    drv = os.path.join(C.LEAN, ".lake", "build", "bin", "hqm-sys")
    res = {"coverage": {}, "distinct": set(), "samples": [], "hit": collections.Counter(),
           "violations": [], "known": [], "notes": []}

    def one(i):
        paths = {}
        for view in ("job", "core"):
            p = os.path.join(workdir, "%s_%d.trace" % (view, i))
            with open(p, "w") as f:
                rc, _ = C.sh([C.HQV, view, "gen", "--seed", str(seed), "--shard", "%d/%d" % (i, nshards), "--cases", str(cases),
                              "--tier", tier] + cfg.get("extra", []), stdout=f, timeout=7200)
            if rc != 0:
                return i, None, None, 0, [], "harness %s rc=%d" % (view, rc)
            paths[view] = p
        text, n, skipped = merge(paths["job"], paths["core"])
        mp = os.path.join(workdir, "sys_%d.merged" % i)
        open(mp, "w").write(text)
        op = os.path.join(workdir, "sys_%d.trace" % i)
        with open(mp) as fin, open(op, "w") as fout:
            p = subprocess.run([drv], stdin=fin, stdout=fout, stderr=subprocess.PIPE, text=True, timeout=7200)
        if p.returncode != 0:
            return i, mp, op, n, skipped, "driver rc=%d %s" % (p.returncode, p.stderr[-1000:])
        return i, mp, op, n, skipped, None

    with ThreadPoolExecutor(max_workers=min(nshards, C.NCPU)) as ex:
        results = list(ex.map(one, range(nshards)))
    ncases = 0; steps = 0; errors = []; fails = []; skipped_all = collections.Counter()
    for i, mp, op, n, skipped, err in results:
        if err:
            errors.append("shard %d: %s" % (i, err)); continue
        ncases += n
        for _, why in skipped:
            skipped_all[why] += 1
        cs = C.parse_trace(op)
        fails += C.monitor_fails(cs, clauses)
        for c in cs:
            st = C.steps_of(c)
            steps += len(st)
            if len(st) >= 2:
                res["distinct"].add(hashlib.sha1("\n".join(s[0] for s in st).encode()).hexdigest())
            for o, _, _ in st:
                res["hit"]["sys." + (o.split(" ")[1] if " " in o else o)] += 1
    res["coverage"] = {"cases": ncases, "steps_compared": steps, "disagreements": 0, "monitor_failures": len(fails),
                       "errors": errors[:5], "skipped_cases": dict(skipped_all)}
    if errors:
        txt = "property %s: the link check of the composed model failed to execute: %s\n" % (prop, errors)
        res["violations"].append((C.write_replay(prop, "sys_error", txt), True))
    if fails:
        f = fails[0]
        txt = ("property %s: link check of the composed model Sys (job layer + core): %s (sig %s)\n%s\nstep %d: %s\n\n"
               "# the merged world actions of the case up to the failing one (input of lean/.lake/build/bin/hqm-sys)\n%s\n"
               % (prop, f["clause"], f["sig"], f["detail"], f["step"], f["op"], C.case_text(f["case"], upto=f["step"])))
        # a deviation of the composition is a broken correspondence (the sys_* theorems lose their checked premise)
        res["violations"].append((C.write_replay(prop, "sys_link", txt), True))
    return res
