"""Properties decided on the simulated cluster (real tako reactor + scheduler, real HQ job layer, real worker state
machines; components `job` = job view / M4 and `core` = core view / M1 of the same runs). The worker-side parts
(component `worker`, M2) are added by checks/props_worker.py."""
from checks.props_job import SIM_TRUST

def job(tags, clauses, q=25, t=250):
    return {"component": "job", "driver": "hqm-job", "tags": tags + ["!panic"], "clauses": clauses,
            "quick": {"cases": q, "shards": 12, "extra": []}, "thorough": {"cases": t, "shards": 16, "extra": []}}

def core(tags, clauses, q=25, t=250):
    return {"component": "core", "driver": "hqm-core", "tags": tags + ["!panic", "!bad-choice"], "clauses": clauses,
            "quick": {"cases": q, "shards": 12, "extra": []}, "thorough": {"cases": t, "shards": 16, "extra": []}}

MODEL_NOTE = ("models M1 (lean/HqModel/Core: reactor, task queues, mapping after the solver) and M4 (lean/HqModel/Job) are hand-written "
              "from the code; the MILP solution and every hash-order dependent pick are recorded from the real run and validated by the "
              "model (feasibility of the picks), HiGHS itself is not modelled")
PARTIAL = ("the theorems are step-level (all states, all inputs of one step) or job-layer-global; the invariant over whole cluster histories "
           "is evaluated by harness monitors on every explored real trace and is not a theorem yet (DESIGN.md 6.1 stage B)")

def exhaust(view, tags, clauses, qd=3, td=6, scenario=None):
    """bounded exhaustive exploration: EVERY sequence of enabled world actions (schedule, deliver each pending message,
    end each running task ok/failed, lose a worker, cancel, add a worker) up to depth qd / td from three small fixed
    scenarios (dependencies + max_fails; prefill backlog on two workers; multi-node), each executed on the real code"""
    drv = {"job": "hqm-job", "core": "hqm-core"}[view]
    extra = ["!panic"] + (["!bad-choice"] if view == "core" else [])
    # `scenario`: only that scenario (a deeper quick exploration of one state family)
    sc = ["--scenario", str(scenario)] if scenario is not None else []
    name = view + "_exhaust" + ("_s%d" % scenario if scenario is not None else "")
    return {"component": view, "driver": drv, "name": name, "tags": tags + extra, "clauses": clauses,
            "quick": {"cases": 1, "shards": 16, "extra": ["--exhaust", str(qd)] + sc} if qd else None,
            "thorough": {"cases": 1, "shards": 16, "extra": ["--exhaust", str(td)] + sc} if td else None}

def sys_link(q=20, t=200, quick=True):
    """link check of the composed model Sys (checks/sys_link.py): the job view and the core view of the same runs merged into
    world actions and replayed through Sys.step by hqm-sys (side conditions Sys.OpOk, routed callbacks, registry equality)"""
    return {"component": "sys", "driver": "hqm-sys", "name": "sys_link", "runner": ("sys_link", "run"), "tags": [], "clauses": ["sys."],
            "quick": {"cases": q, "shards": 12, "extra": []} if quick else None,
            "thorough": {"cases": t, "shards": 16, "extra": []}}

def rpc(clauses):
    """component rpc (harness/src/rpc.rs, model M9 HqModel/Rpc, driver hqm-rpc): the REAL tako server over TCP (server_start,
    worker_rpc_loop); hand-made workers register and their connection ends in each of 7 ways (clean close, close inside a frame,
    undecodable frame, Stop(reason) x3, silence) x task assigned before or not x another worker connected or not = 28 rows, all
    of them in BOTH tiers; announced loss reason, removal, re-send of the assigned task and survival of a later submit + scheduling
    round are compared with the decision table"""
    return {"component": "rpc", "driver": "hqm-rpc", "tags": ["lost", "removed", "resent", "alive"], "clauses": clauses,
            "quick": {"cases": 2, "shards": 14, "extra": []}, "thorough": {"cases": 2, "shards": 14, "extra": []}}

RPC_NOTE = ("c09_conn_end_* / c07_conn_end_failure: model M9 is a decision table over the ways a worker connection can end, tied to the real "
            "worker_rpc_loop by component rpc (all 28 rows executed on every run over real TCP connections); timing (heartbeat period, the "
            "500 ms check interval) and the socket layer are the real ones and are not modelled")

SYSW_CLAUSES = ["sysw.", "c06.single", "c08.cancel_sent"]

def sysw(tags, q=13, t=100, quick=True):
    """link check of the composed model WITH the workers, SysW (harness/src/sysw.rs, lean/Driver/SysWMain.lean, notes/sysw_link.md):
    one op per world action of the same Sim runs as job / core, replayed through SysW.step by hqm-sysw: SysW.OpOk on every real
    action, stops = real panics, both queues of every worker + running / backlog / blocked sets + job and core views compared per op;
    monitors sysw.hyp / sysw.step / sysw.fin_proto / c06.single / c08.cancel_sent. tags None = every out line"""
    return {"component": "sysw", "driver": "hqm-sysw", "tags": tags, "clauses": SYSW_CLAUSES,
            "quick": {"cases": q, "shards": 12, "extra": []} if quick else None,
            "thorough": {"cases": t, "shards": 16, "extra": []}}

def sysw_exhaust(tags, qd=None, td=4):
    return {"component": "sysw", "driver": "hqm-sysw", "name": "sysw_exhaust", "tags": tags, "clauses": SYSW_CLAUSES,
            "quick": {"cases": 1, "shards": 16, "extra": ["--exhaust", str(qd)]} if qd else None,
            "thorough": {"cases": 1, "shards": 16, "extra": ["--exhaust", str(td)]}}

SYSW_NOTE = ("sysw_* theorems: the worker model M2 is composed into the system (SysW = Sys + one M2 state per worker + two FIFO queues per "
             "worker, the actions of the harness world: deliveries, worker-local events, add / lose worker): the worker-protocol side "
             "conditions of the sys_* theorems (FinProto, RejectOk / UpdProto) and NoSaturation are THEOREMS there (sysw_fin_proto: the update "
             "batch at the head of every worker's queue satisfies Sys.OpOk in the state in which the reactor processes it), so "
             "sysw_registry, sysw_no_job_panic, sysw_cancel_final, sysw_max_fails, sysw_outcome_once hold with side conditions about INPUTS "
             "only (fresh worker records, SubmitOk, no task id submitted twice, QueueOkD / SolMnOk before a scheduling round); "
             "sysw_c08_cancel_sent: after a cancel is answered every worker still running a task of that job the core knew has a CancelTasks "
             "naming it in its queue; sysw_c06_single_partial: a task the core knows runs on at most one worker (partial: tasks the core has "
             "forgotten); SysW is tied to the code through its components (job, core, worker correspondences + the Sys link check) AND by the link "
             "check of component sysw: real simulated-cluster runs replayed through SysW.step, SysW.OpOk evaluated on every real action, "
             "both queues of every worker, the workers' running / backlog / blocked sets and both server views compared per action. Inputs "
             "recorded from the real run there: the worker allocator's answers (inferred from the worker's reports), and four state edits the "
             "driver applies outside SysW.step (counted per case, notes/sysw_link.md section 4): the worker clock after age_worker (M2's "
             "remaining time is a run constant), fault injection into a backlog, the id order inside a RetractResponse (M2 lists a class "
             "newest-first, the code oldest-first and classes in hash order) and the order of redirect messages at a worker loss (hash order "
             "of the task map) -- for the last two some real runs are runs of SysW only up to these orders, which no theorem statement mentions")

SYS_NOTE = ("sys_* theorems are about the COMPOSED model Sys = job layer M4 x core M1 (HqModel/Sys/Model.lean): every callback of the core is "
            "routed in order to the job layer, the lists on_task_error returns are checked against the rets the core consumed, client "
            "cancel / submit carry exactly what the job layer hands to the core; they hold for every run under the decidable side "
            "conditions Sys.OpOk (Core.OpOk2 + FinProto: a Finished update comes for a task the core has as Running - a worker-protocol "
            "assumption + fresh worker ids + SubmitOk); the composition is tied to the code by the link check (part sys_link): real runs "
            "replayed through Sys.step, Sys.OpOk evaluated on every real action, routed callbacks compared with the cb.* operations the real "
            "job layer received, registry equality evaluated on every composed state")

def journal(clauses, q=20, t=60):
    """restart clause of a sim property: generated and real (kind sim) journals restored at every prefix by the real StateRestorer"""
    return {"component": "journal", "driver": "hqm-journal", "tags": ["res", "sub", "adj", "core", "prod"], "clauses": clauses,
            "quick": {"cases": q, "shards": 12, "extra": []}, "thorough": {"cases": t, "shards": 16, "extra": []}}

def entry(pid, theorems, parts, extra_assumptions=()):
    return {"module": "HqModel.Props." + pid, "theorems": [t[1:] if t.startswith("@") else "HqModel.%s.%s" % (pid, t) for t in theorems],
            "parts": parts,
            "assumptions": [MODEL_NOTE, PARTIAL] + list(extra_assumptions), "trusted_base": SIM_TRUST}

PROPS = {
    "C01": entry("C01", ["c01_outcome_once", "c01_finish_needs_start", "c01_terminal_is_final", "c01_core_forgets", "c01_core_ignores_unknown",
                         "c01_core_forgets_reachable"],
                 [job(["ev", "tasks", "job"], ["c01."]), core(["cb", "t"], ["c01.", "core.hyp"]),
                  exhaust("job", ["ev", "tasks", "job"], ["c01."], qd=None)]),
    "C02": entry("C02", ["c02_submit_ids", "c02_auto_ids_agree", "@HqModel.Sys.sys_registry", "@HqModel.Sys.sys_coupled",
                         "@HqModel.Sys.sys_job_run", "@HqModel.Sys.sys_core_run", "@HqModel.SysW.sysw_registry", "@HqModel.SysW.sysw_sys_run"],
                 [job(["core", "live", "resp", "tasks"], ["c02."]), core(["t", "q", "flag"], ["c02."]),
                  exhaust("core", ["t", "q", "flag"], ["c02."], qd=None), sys_link(),
                  sysw(["ev", "resp", "core", "live", "job", "tasks", "t", "msg", "cb", "s2w", "w2s"])],
                 [SYS_NOTE, SYSW_NOTE, "progress ('eventually terminal') depends on HiGHS returning an optimal solution and on the fair drain; monitored at rest "
                  "after a fault-free drain of every generated run, not proved"]),
    "C03": entry("C03", ["c03_not_ready_with_deps", "c03_restart", "depClosed_iff", "c03_compute_only_ready", "c03_compute_only_ready_run",
                         "c03_consumers_waiting_reachable"],
                 [core(["msg", "t", "q", "cb"], ["c03.", "core.hyp"]), job(["ev", "resp", "tasks"], ["c03.", "c10.emit"]),
                  # scenario 6: a task with three dependencies of which the first has finished, another consumer of the last one;
                  # every action sequence to depth 4 (quick) / 6 (thorough)
                  exhaust("core", ["msg", "t", "q", "cb"], ["c03.", "core.hyp"], qd=4, td=6, scenario=6),
                  # restart clause: journals persisted by the REAL server in simulated runs (kind sim) and generated ones,
                  # restored at every record boundary by the real StateRestorer; monitor c03.restart
                  {"component": "journal", "driver": "hqm-journal", "tags": ["res", "sub", "adj", "prod"], "clauses": ["c03.restart"],
                   "quick": {"cases": 8, "shards": 12, "extra": ["--kind", "sim"]},
                   "thorough": {"cases": 60, "shards": 16, "extra": ["--kind", "sim"]}}],
                 ["c03_restart assumes the recorded state is closed under failure propagation at the cut (DepClosed): PROVED for every prefix of "
                  "the journal the job-layer model M4 writes (HqModel.C10.c10_emitted_dep_closed / c10_emitted_restore, under Emit.EmitOk "
                  "which hqm-job evaluates on every real operation) and additionally validated on every run on journals the real server "
                  "persists in simulated cluster runs, restored at every record boundary (monitor c03.restart)"]),
    "C05": entry("C05", ["c05_reserve_exact", "c05_release_restores", "c05_inv_partial", "c05_resinv_reachable", "c05_free_le_total",
                         "c05_f29_witness", "c05_reject_witness", "c05_worker_task_wf",
                         "c05_queue_inv_reachable", "c05_ready_unlisted", "c05_queue_redundant", "c05_queue_redundant2", "c05_queue_step",
                         "c05_resinv_reachable'", "c05_free_le_total'", "c05_worker_task_wf'", "c03_compute_only_ready_run'",
                         "c03_consumers_waiting_reachable'", "c05_queue_reuse_witness", "c05_queue_stale_witness",
                         "c05_queue_dup_dep_witness"],
                 [core(["msg", "w", "rd", "t", "q"], ["c05.", "core.hyp"]),
                  # scenarios 7-9: one group of three workers, the first / second / third of them too short-lived for the time request
                  # of two-node tasks that arrive later; every action sequence to depth 3 (quick) / 5 (thorough)
                  exhaust("core", ["msg", "w", "rd", "t", "q"], ["c05.", "core.hyp"], qd=3, td=5, scenario=7),
                  exhaust("core", ["msg", "w", "rd", "t", "q"], ["c05.", "core.hyp"], qd=3, td=5, scenario=8),
                  exhaust("core", ["msg", "w", "rd", "t", "q"], ["c05.", "core.hyp"], qd=3, td=5, scenario=9)],
                 ["c05_inv_partial / c05_resinv_reachable: the resource equation free + sum(reserved) = total is an inductive invariant of EVERY "
                  "operation of the core model under decidable side conditions (StepHyp: fresh worker record, request names a resource once, "
                  "Reject comes from the assigned worker, SolMnOk for a scheduling round; the queue/dependency clause QueueOkD and the redirect clause RdIn are "
                  "no longer hypotheses: they are PROVED invariants (c05_queue_inv_reachable, for runs in which no task id is submitted twice: "
                  "NoIdReuse, shown necessary by c05_queue_reuse_witness; the primed corollaries restate the history theorems without QueueOkD); NoSaturation: a Running / "
                  "RunningPrefilled of a Prefilled or Retracting task fits the free vector); the compiled model evaluates every side condition "
                  "on the pre-state of every operation of every real trace (model-side monitor c05.hyp): all hold on the unchanged tree except "
                  "NoSaturation, whose failure is finding F29 (c05_f29_witness shows it cannot be dropped)"]),
    "C06": entry("C06", ["c06_retracting_lost_increments", "c06_inst_never_decreases", "c06_sends_nondecreasing", "c06_sent_le_current",
                         "c06_send_after_start", "c06_lost_worker_increments", "c06_equal_resend_witness", "c06_reuse_witness",
                         "c06_started_unsent_witness", "c06_restart", "c06_restart_emitted", "c06_restart_reuse_witness",
                         "c06_started_stays", "c06_mn_reject_witness",
                         "@HqModel.SysW.sysw_c06_single_partial"],
                 [core(["msg", "t", "rd", "w"], ["c06.", "core.hyp"]), journal(["c06.restart"]),
                  exhaust("core", ["msg", "t", "rd", "w"], ["c06.", "core.hyp"], qd=None),
                  sysw(["wrun", "wbl", "launch", "s2w", "w2s", "t", "msg"], quick=False)],
                 ["message-level theorems are about what the server SENDS: instance ids sent for one task never decrease (c06_sends_nondecreasing, "
                  "hypothesis NoIdReuse: no task id submitted twice), every send after an announced start carries a larger id "
                  "(c06_send_after_start), every loss of the worker holding a task increments its instance (c06_lost_worker_increments); an EQUAL "
                  "resend occurs exactly where the first worker stated it had not started the task (reject / successful retract: "
                  "c06_equal_resend_witness); that LAUNCHES on workers strictly increase is monitored on every real trace (c06.instance)",
                  "c06_restart: the instance id a task is resubmitted with after a restart exceeds every recorded TaskStarted of it, for every "
                  "producible journal in which no job id is re-created after a start (NoStartBeforeCreate: decidable; a theorem for journals the "
                  "job-layer model emits, c06_restart_emitted; without it false: c06_restart_reuse_witness; real ids come from counters restored "
                  "above every id in the journal, C11)"]),
    "C07": entry("C07", ["c07_crash_decision", "c07_unlimited_never_fails", "c07_stop_is_no_crash", "c07_job_layer", "c07_crash_counter_step",
                         "c07_crash_counter_mono", "c07_crash_only_running_on_lost", "c07_restart", "c07_restart_emitted", "c07_crashes_step",
                         "@HqModel.Rpc.c07_conn_end_failure"],
                 [core(["cb", "t", "q", "msg"], ["c07.", "core.hyp"]), job(["ev", "tasks", "job", "ret"], ["c07."]), journal(["c07.restart"]),
                  rpc(["c09.conn"])],
                 [RPC_NOTE]),
    "C08": entry("C08", ["c08_all_terminal", "c08_idempotent", "c08_other_jobs", "c08_core_forgets", "c08_core_forgets_reachable",
                         "@HqModel.Sys.sys_cancel_final", "@HqModel.Sys.sys_cancel_no_callback", "@HqModel.SysW.sysw_cancel_final",
                         "@HqModel.SysW.sysw_c08_cancel_sent"],
                 [job(["ev", "resp", "tasks", "job", "live"], ["c08."]), core(["msg", "t", "w", "q", "rd", "cb"], ["c08.", "core.hyp"]),
                  exhaust("job", ["ev", "resp", "tasks", "job", "live"], ["c08."], qd=None),
                  # scenario 5 (a task Retracting from the root of a multi-node task, the state family of F27) to depth 5 on every change
                  exhaust("job", ["ev", "resp", "tasks", "job", "live"], ["c08."], qd=5, td=None, scenario=5), sys_link(quick=False),
                  sysw(["ev", "resp", "tasks", "job", "live", "msg", "s2w", "w2s", "stop", "wrun", "wbl"], quick=False)]),
    "C09": entry("C09", ["c09_open_close_no_panic", "c09_forget_no_panic", "c09_cancel_no_panic", "@HqModel.Sys.sys_no_job_panic",
                         "@HqModel.Sys.sys_run_no_job_panic", "@HqModel.Sys.sys_started_running", "@HqModel.Sys.sys_outcome_once",
                         "@HqModel.SysW.sysw_fin_proto", "@HqModel.SysW.sysw_fin_proto_head", "@HqModel.SysW.sysw_fin_view",
                         "@HqModel.SysW.sysw_pipeline", "@HqModel.SysW.sysw_no_job_panic", "@HqModel.SysW.sysw_run_no_job_panic",
                         "@HqModel.SysW.sysw_started_running", "@HqModel.SysW.sysw_outcome_once", "@HqModel.SysW.sysw_inv",
                         "@HqModel.Rpc.c09_conn_end_removes", "@HqModel.Rpc.c09_conn_end_resends",
                         # PROGRESS of the core model (Props/C09Core.lean, Lemmas/CoreNoPanic*.lean, notes/core_nopanic.md)
                         "c09_core_step_no_panic", "c09_core_step_ok", "c09_core_inv_step", "c09_core_inv_reachable",
                         "c09_core_run_no_panic", "c09_core_run_no_panic'", "c09_core_run_step_no_panic",
                         "c09_mn_reject_no_panic'", "c09_mn_reject_no_panic_reachable'", "c09_core_f27_witness",
                         # composed (Props/C09Compose.lean): neither layer panics, hypotheses explicit
                         "@HqModel.Sys.sys_core_good", "@HqModel.Sys.sys_no_core_panic_partial", "@HqModel.Sys.sys_never_panics_partial",
                         "@HqModel.Sys.sys_run_never_panics_partial", "@HqModel.SysW.sysw_core_good",
                         "@HqModel.SysW.sysw_never_stops_partial", "@HqModel.SysW.sysw_run_never_stops_partial",
                         # the F32 repair (Props/C09.lean)
                         "c09_mn_shape_reachable", "c09_mn_reject_arm_no_panic", "c09_mn_reject_no_panic",
                         "c09_mn_reject_no_panic_reachable"],
                 [job(["ev", "resp", "ret", "core", "job", "tasks", "live"], ["c09."]),
                  core(["msg", "cb", "flag", "t", "w", "q", "rd"], ["c09."]),   # incl. c09.hyp: OpNP / OpExcl of the progress theorem on every real op
                  exhaust("core", ["msg", "cb", "flag", "t", "w", "q", "rd"], ["c09."]),
                  exhaust("job", ["ev", "resp", "ret", "core", "job", "tasks", "live"], ["c09."]), sys_link(),
                  sysw(None), sysw_exhaust(None), rpc(["c09."])],
                 [SYS_NOTE, SYSW_NOTE, RPC_NOTE, "a panic inside an unmodelled dependency (tokio, HiGHS, bincode) is outside the claim"]),
    "C14": entry("C14", ["c14_decision", "c14_abort_all", "@HqModel.Sys.sys_max_fails", "@HqModel.SysW.sysw_max_fails"],
                 [job(["ret", "ev", "tasks", "job"], ["c14."]), core(["msg", "cb", "t"], ["c14."]), sys_link(quick=False)],
                 [SYS_NOTE, SYSW_NOTE]),
}

# C05's theorems about the queue invariant live in a module that imports Props.C05
PROPS["C05"]["module"] = "HqModel.Props.C05Queue"
