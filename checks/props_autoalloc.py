"""Component `autoalloc` (model M6, Slurm/PBS automatic allocation): properties C17 and C18. See /verif/notes/autoalloc.md."""

_ASSUMPTIONS = [
    "Environment = inputs. The batch system (QueueHandler: results of submit_allocation, the status map of "
    "get_status_of_allocations incl. per-allocation errors, missing ids and whole-call failures; remove_allocation results "
    "are only logged by the code), the scheduler's answer to ServerRef::new_worker_query (incl. error, wrong length, bad "
    "index, oversized multi-node request) and the monotonic clock are universally quantified inputs of the model steps; "
    "the scheduler itself (compute_new_worker_query, clause c17_no_demand of DESIGN.md) is NOT modelled here.",
    "Hash-map iteration orders the behaviour depends on are choice inputs recorded from the real run and validated by the "
    "driver (`out !bad-choice`): the order of the queue map in perform_submits (`order=`; the theorems c17_silent / "
    "c17_resume_live need it duplicate-free, c17_limits/c18_* hold for any list), the order of the allocation ids handed to "
    "get_status_of_allocations (`rep=`). The order of the queued allocations inside compute_submission_permit is NOT an input: "
    "the result is independent of it (theorem c17_permit_order_independent), the model uses insertion order.",
    "u32/u64 counters are Nat (no overflow: active_worker_count sums `as u32`); `(sn as f32 / wpa as f32).floor()` is modelled "
    "as Nat division, exact for single_node_workers < 2^24 (generated range 0..9).",
    "DisconnectedWorkers::all_crashed: the model keeps one bit per lost worker, computed at the event from (reason, lifetime) "
    "with the literal 60 s of state.rs (generated lifetimes straddle it: 59999/60000/60001 ms).",
    "`resume()`: which limiter fields it resets is PROBED from the running implementation at harness start (`rmask=` in the "
    "case header; pinned code 0 = F13, after fix cdd9fd1: 3 = both failure counters) and is a parameter of the model; "
    "c17_resume_live is stated for masks with bits 0 and 1, its negation is proved for mask 0 on the F13 witness.",
    "c18_announce (trace level) assumes queue ids are not reused: addQueue without explicit id (the journal-restore path that "
    "passes explicit ids is excluded by hypothesis NoExplicitIds; c18_announce_step, c18_monotone, c18_workers* need no such "
    "assumption). Allocation ids returned by the batch system need NOT be fresh: a duplicate inside a queue is the modelled "
    "panic dup-alloc (run ends), a duplicate across queues is modelled exactly (index overwritten; later a2q-missing panic).",
    "A step that panics (6 modelled sites: query-index, permit-assert, rem-zero, dup-alloc, a2q-missing, dup-queue - all need an "
    "adversarial batch system / scheduler answer / max_workers_per_alloc=0 / explicit duplicate queue id) ends the run; "
    "c17_limits holds for the state left behind as well, c17_pause / c17_resume_live assume the tick does not panic.",
    "Not covered: autoalloc_process' select loop timing (which arm fires when), dry-run submission (try_submit_allocation), "
    "PBS/Slurm command construction and output parsing (queue/{pbs,slurm,common}.rs), removal of stale directories, "
    "GetQueues/GetQueueAllocations/GetAllocation read-only requests, worker_resources / query construction "
    "(create_queue_worker_query) beyond the number of queries.",
]

_TRUSTED = [
    "hooks: hyperqueue::verif::autoalloc (VerifAutoAlloc = real AutoAllocState driven through the real handle_message / "
    "perform_submits / do_periodic_update, guarded by has_active_queues exactly as the two select! arms; scripted QueueHandler; "
    "override_worker_query = one cfg-guarded `let response = …?` after the real new_worker_query call in "
    "compute_query_responses; mocked_now = cfg-guarded early return in common::utils::time::now_monotonic; "
    "verif_set_handler / verif_snapshot / verif_allocation_to_queue accessors in state.rs; verif_hooks wrappers in process.rs)",
    "harness/src/autoalloc.rs (generator, monitors, canonical printing, panic-message -> site mapping) and "
    "lean/HqModel/AutoAlloc/Wire.lean + lean/Driver/AutoallocMain.lean (parser / printer / choice validation)",
    "FxHash iteration order of tako::Map is deterministic (replays re-resolve the same orders)",
]

_PART = {
    "component": "autoalloc", "driver": "hqm-autoalloc",
    "quick":    {"cases": 150, "shards": 16, "extra": []},
    "thorough": {"cases": 2500, "shards": 16, "extra": []},
}

PROPS = {
    "C17": {
        "module": "HqModel.Props.C17",
        "theorems": [
            "HqModel.C17.c17_limits",
            "HqModel.C17.c17_limits_step",
            "HqModel.C17.c17_silent",
            "HqModel.C17.c17_pause",
            "HqModel.C17.c17_paused_stays",
            "HqModel.C17.c17_resume_live",
            "HqModel.C17.c17_resume_live_false_before_fix",
            "HqModel.C17.c17_permit_order_independent",
            # "submitted on demand": the multi-node part of the worker query (model M10, Props/C17Query.lean)
            "HqModel.Query.c17_mn_demand_offered", "HqModel.Query.c17_mn_answers_sound",
        ],
        "parts": [dict(_PART, clauses=["c17."],
                       tags=["submit", "query", "queue", "lim", "alloc", "tickres", "resp", "sched", "ev", "a2q"]),
                  # component query: ServerRef::new_worker_query -> compute_new_worker_query on the REAL tako core with waiting
                  # multi-node classes (nodes, time request), single-node tasks and 1-4 worker types (time limit, workers per
                  # allocation); multi-node answers compared with model M10, single-node counts (real solver) sanity-checked
                  {"component": "query", "driver": "hqm-query", "tags": ["mn"], "clauses": ["c17."],
                   "quick": {"cases": 60, "shards": 16, "extra": []}, "thorough": {"cases": 2000, "shards": 16, "extra": []}}],
        "assumptions": _ASSUMPTIONS + [
            "component autoalloc scripts the answer of the worker query (the demand is an input of the tick); the query itself "
            "(tako compute_new_worker_query) is covered by component query: its multi-node part is model M10 (c17_mn_*), its "
            "single-node part runs HiGHS on fake workers and is only sanity-checked by monitors (c17.demand sn-*)"],
        "trusted_base": _TRUSTED,
    },
    "C18": {
        "module": "HqModel.Props.C18",
        "theorems": [
            "HqModel.C18.c18_monotone",
            "HqModel.C18.c18_announce",
            "HqModel.C18.c18_announce_step",
            "HqModel.C18.c18_workers",
            "HqModel.C18.c18_workers_finish",
            "HqModel.C18.c18_workers_lost_set",
            "HqModel.C18.c18_workers_fed",
            "HqModel.C18.c18_workers_event",
            "HqModel.C18.c18_unknown",
            "HqModel.C18.c18_remove_queue",
            "HqModel.C18.c18_remove_queue_refused",
            "HqModel.C18.c18_ids_unique",
        ],
        "parts": [dict(_PART, clauses=["c18."],
                       tags=["ev", "alloc", "rm", "a2q", "resp", "ran", "queue", "lim", "sched"]),
                  # the feed of the allocation bookkeeping: in the simulated cluster (real job layer, State::process_worker_new /
                  # process_worker_lost) a third of the workers carry manager info; after every connect and every loss (all reasons)
                  # the messages the job layer put on the autoalloc service channel are inspected (monitor c18.notify)
                  {"component": "job", "driver": "hqm-job", "tags": ["ev", "!panic"], "clauses": ["c18."],
                   "quick": {"cases": 13, "shards": 12, "extra": []}, "thorough": {"cases": 100, "shards": 16, "extra": []}}],
        "assumptions": _ASSUMPTIONS + [
            "the theorems take the WorkerConnected / WorkerLost messages as inputs of the autoalloc state machine; that the job layer "
            "sends one for every connect and every loss of a worker started inside an allocation (State::process_worker_new / "
            "process_worker_lost -> AutoAllocService) is checked on the simulated cluster by monitor c18.notify, not proved"],
        "trusted_base": _TRUSTED,
    },
}
