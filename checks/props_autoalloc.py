"""Component `autoalloc` (model M6, Slurm/PBS automatic allocation): properties C17 and C18. See /verif/notes/autoalloc.md."""

_PART = {
    "component": "autoalloc", "driver": "hqm-autoalloc",
    "quick":    {"cases": 60,  "shards": 16, "extra": []},
    "thorough": {"cases": 1500, "shards": 16, "extra": []},
}

PROPS = {
    "C17": {
        "module": "HqModel.Props.C17",
        "theorems": ["HqModel.C17.c17_limits"],
        "parts": [dict(_PART, clauses=["c17."], tags=["submit", "query", "queue", "lim", "alloc", "tickres", "resp", "sched", "ev"])],
        "assumptions": [], "trusted_base": [],
    },
    "C18": {
        "module": "HqModel.Props.C18",
        "theorems": ["HqModel.C18.c18_wiring"],
        "parts": [dict(_PART, clauses=["c18."], tags=["ev", "alloc", "rm", "a2q", "resp", "ran", "queue"])],
        "assumptions": [], "trusted_base": [],
    },
}
