"""Property registry: merges the `PROPS` dicts of all checks/props_*.py files (one file per component).

Entry format (see checks/props_job.py for a worked example):
  "C13": {
     "module": "HqModel.Props.C13",                 # Lean module holding the property theorems
     "theorems": ["HqModel.C13.c13_counters", …],   # full names; must exist, axioms audited
     "parts": [ {                                    # one per component whose correspondence the property needs
        "component": "job", "driver": "hqm-job",
        "tags": ["resp", "ev", "cnt"],              # out-tags in the property's projection (None = all)
        "clauses": ["c13."],                         # monitor clause prefixes that belong to the property
        "quick":    {"cases": 30,  "shards": 8,  "extra": []},
        "thorough": {"cases": 300, "shards": 16, "extra": []},
        # optional "runner": ("module", "function") for a custom part
     } ],
     "assumptions": […], "trusted_base": […], "rule": "…",
  }
"""
import glob, importlib, os

PROPS = {}
ALL_LEAN_TARGETS = ["HqModel"]
for path in sorted(glob.glob(os.path.join(os.path.dirname(__file__), "props_*.py"))):
    mod = importlib.import_module("checks." + os.path.basename(path)[:-3])
    for k, v in getattr(mod, "PROPS", {}).items():
        if k in PROPS:
            # a property served by several components: merge parts / theorems
            PROPS[k]["parts"] += v.get("parts", [])
            PROPS[k]["theorems"] += [t for t in v.get("theorems", []) if t not in PROPS[k]["theorems"]]
            PROPS[k]["assumptions"] = PROPS[k].get("assumptions", []) + v.get("assumptions", [])
            PROPS[k]["trusted_base"] = PROPS[k].get("trusted_base", []) + v.get("trusted_base", [])
        else:
            PROPS[k] = v
    for t in getattr(mod, "LEAN_TARGETS", []):
        if t not in ALL_LEAN_TARGETS:
            ALL_LEAN_TARGETS.append(t)
for k, v in PROPS.items():
    if v["module"] not in ALL_LEAN_TARGETS:
        ALL_LEAN_TARGETS.append(v["module"])
    for p in v["parts"]:
        if p.get("driver") and p["driver"] not in ALL_LEAN_TARGETS:
            ALL_LEAN_TARGETS.append(p["driver"])
