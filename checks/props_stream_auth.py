"""Registry entries of the components `stream` (C19) and `auth` (C20). Format: checks/registry.py."""

_PAIRS = 380736  # thorough tier only
_ROWS = 24768   # size of the complete table (printed by `hqv auth gen --count`; every case header carries rows=<N>)

PROPS = {
    "C19": {
        "module": "HqModel.Props.C19",
        "theorems": [
            "HqModel.C19.varint_roundtrip",
            "HqModel.C19.varint_prefix_free",
            "HqModel.C19.hdr_roundtrip",
            "HqModel.C19.hdr_prefix_free",
            "HqModel.C19.scanner_any_prefix",
            "HqModel.C19.c19_readback",
            "HqModel.C19.c19_torn",
        ],
        "parts": [{
            "component": "stream", "driver": "hqm-stream",
            # every out-tag of the component is in the projection of C19 (bytes written, index, read-back
            # bytes, finished flag, superseded instances, summary, open result)
            "tags": ["file", "open", "idx", "cat", "fin", "sup", "sum"],
            "clauses": ["c19."],
            "quick": {"cases": 30, "shards": 16, "extra": []},
            "thorough": {"cases": 40, "shards": 16, "extra": []},
        }],
        "assumptions": [
            "hypothesis of c19_readback/c19_torn (made explicit in the statements): every (task, instance) is written by "
            "one writer (one file), and inside one file the chunks of two instances of the same task are not interleaved "
            "(one live execution per task, instance ids never reused = property C06); all files of the directory carry "
            "the same server uid; channel ids are 0/1; chunk size < 2^32. Outside these hypotheses the reader merges or "
            "splits instances (modelled and compared, not claimed).",
            "the per-directory queue (tokio mpsc, capacity 128) is FIFO and BufWriter+flush put the serialized bytes "
            "into the file in queue order; the task is reported ended only after StreamSender::flush returned "
            "(worker/start/program.rs) - exercised by the harness through the real Streamer, not proved",
            "a worker crash leaves a prefix of the bytes that were written to the file (no reordering/corruption by the "
            "file system)",
            "`finished` is per instance, not per channel: it is set by the first end marker of either channel "
            "(see notes/stream_auth.md, observation S1)",
        ],
        "trusted_base": [
            "bincode 1.3.3 varint/zigzag integer encoding and serde derive order of StreamChunkHeader are modelled by hand "
            "(Stream/Codec.lean, Stream/Header.lean); tied by byte-exact comparison of every produced file (hash) and of "
            "every read-back under truncation",
            "chrono's accepted time-stamp range is a constant of the model (probed at both borders)",
            "UTF-8 validation of the server uid is modelled for ASCII uids only",
            "std::fs / BufReader::seek_relative / read_exact semantics (seek behind EOF succeeds, short read fails)",
        ],
        "rule": "one evaluation = one operation (write a file with the real writer | cut a file | open the directory with the "
                "real OutputLog) executed on the real code and on the Lean model, all out lines compared; a case is distinct "
                "by the hash of its operation sequence and non-trivial when it has >= 2 operations",
    },
    "C20": {
        "module": "HqModel.Props.C20",
        "theorems": [
            "HqModel.C20.c20_complete",
            "HqModel.C20.c20_mismatch",
            "HqModel.C20.c20_auth",
            "HqModel.C20.c20_no_reflection",
            "HqModel.C20.c20_role_chal_inj",
            "HqModel.C20.c20_keyed_accepts_only_answer",
            "HqModel.C20.c20_accept_request_checked",
            "HqModel.C20.c20_keyless",
            "HqModel.C20.c20_nonvacuous",
            # the configurations of the real call sites (HqModel/Auth/Sites.lean, Props/C20Sites.lean)
            "HqModel.Auth.c20_sites_refuse_echo", "HqModel.Auth.c20_sites_accept_honest", "HqModel.Auth.c20_equal_roles_witness",
        ],
        "parts": [
            # component authhq: ClientSession::connect_to_server, accept_client (hyperqueue/src/transfer/connection.rs) and
            # connect_to_server_and_authenticate (tako) over real TCP, against the honest peer and against a key-less peer that echoes
            # every byte; the harness passes only the key -- roles and protocol number are the ones the code configures; 12 rows, all
            # of them on every run
            {"component": "authhq", "driver": "hqm-auth", "tags": ["res"], "clauses": ["c20."],
             "quick": {"cases": 12, "shards": 4, "extra": []}, "thorough": {"cases": 12, "shards": 4, "extra": []}},
            {
            "component": "auth", "driver": "hqm-auth",
            # `res`: accept/refuse of both ends; `sent`: kind (noauth/enc/error/none) of the response each end sent
            "tags": ["res", "sent"],
            "clauses": ["c20."],
            # the harness IGNORES --cases: it always enumerates the whole table and splits it by row index mod shards
            "quick":    {"cases": _ROWS // 8 + 1,  "shards": 8,  "extra": []},
            # thorough = the same complete table + the pairs table (every two single-message actions on two different
            # messages, 380736 rows, OUTSIDE C20's quantifier: correspondence + the any-adversary clauses only)
            "thorough": {"cases": (_ROWS + _PAIRS) // 16 + 1, "shards": 16, "extra": []},
        }],
        "assumptions": [
            "Symbolic (Dolev-Yao) cryptography: orion's XChaCha20-Poly1305 secret stream is an unforgeable AEAD - a chunk opens "
            "under (key, stream nonce) only if it was sealed with exactly that key and nonce (Lean: openC_eq_some); this includes "
            "chunk-position and tag binding, i.e. a later data chunk of a connection cannot be replayed as the first chunk "
            "(handshake answer) of a stream, and honest endpoints seal handshake payloads only as first chunk with tag Message.",
            "secure_rand_bytes returns 16 bytes that are fresh and unpredictable: a new challenge differs from every challenge "
            "generated before and from every challenge that occurred in any request seen before (side condition of Action.start).",
            "Keys of honest endpoints are not known to the adversary (k not in adv); SecretKey::from_slice / the access file "
            "handling that produces the key is outside the model.",
            "bincode encoding and length-delimited framing are not modelled: the symbolic adversary acts on message fields; "
            "undecodable frames and I/O errors are treated like a message that never arrives (receiver refuses).",
            "Timeouts are not modelled (a dropped message = the receiver never finishes = refuse); the harness closes the pipe "
            "so that the real code sees EOF instead of waiting 15 s (virtual clock as a safety net).",
            "The correspondence table fixes two keys, the four declared role pairs, protocol numbers {0,1} and ONE substitution per "
            "session; the theorems themselves are unbounded (any number of sessions, interleavings and adversary steps).",
            "Finding outside the quantifier (documented, theorem c20_protocol_not_sealed, harness mode --double-proto): the protocol "
            "number and the requester's role field are not inside the seal; rewriting the protocol field of BOTH requests makes "
            "endpoints with different protocol numbers accept each other.",
        ],
        "trusted_base": [
            "orion 0.17 (XChaCha20-Poly1305 secretstream, secure_rand_bytes), bincode 1.3 fixint encoding, tokio-util "
            "LengthDelimitedCodec, tokio duplex pipes + paused clock (harness only)",
            "harness mirror structs of AuthenticationRequest/Response (same serde shape; every genuine frame is round-tripped "
            "through them on every run, clause c20.mirror)",
        ],
        "rule": ("EXHAUSTIVE finite table (every case header: exhaustive=1 rows=%d): key in {none,k1,k2}^2 x the 4 declared "
                 "(my_role,peer_role) pairs per end (4x4) x protocol {0,1}^2 x adversary action in {none} + for message i in 1..4: "
                 "drop, reflect, earlier-session replay, parallel-session (oracle) substitute + field-modified copies (requests: "
                 "protocol flipped, role := each other role, challenge bit flip, challenge truncated to 15 / extended to 17, mode "
                 "swapped; responses: ciphertext bit flip / truncation, nonce bit flip / truncation, replaced by NoAuth, replaced "
                 "by Error); statically non-applicable request "
                 "modifications (challenge edits of a NoAuth request) are not rows. One case = one row = two evaluations: `op base` "
                 "(earlier undisturbed session of the two configurations, real code vs model) and `op adv` (main session under the "
                 "action, real do_authentication on both ends vs model); outputs compared: accept/refuse of both ends and the kind "
                 "of response each end sent. The table is complete in both tiers; --cases is ignored by the generator. The thorough "
                 "tier adds the pairs table (table=pairs rows=%d: all pairs of single-message actions on different messages; only "
                 "the correspondence and the clauses valid for any adversary - c20.agreement, c20.sound/accepted-after-bad-request - "
                 "are evaluated there)." % (_ROWS, _PAIRS)),
    },
}
