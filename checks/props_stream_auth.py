"""Registry entries of the components `stream` (C19) and `auth` (C20). Format: checks/registry.py."""

PROPS = {
    "C19": {
        "module": "HqModel.Props.C19",
        "theorems": [
            "HqModel.C19.varint_roundtrip",
            "HqModel.C19.varint_prefix_free",
            "HqModel.C19.hdr_roundtrip",
            "HqModel.C19.hdr_prefix_free",
            # "HqModel.C19.c19_readback",
            # "HqModel.C19.c19_torn",
        ],
        "parts": [{
            "component": "stream", "driver": "hqm-stream",
            # every out-tag of the component is in the projection of C19 (bytes written, index, read-back
            # bytes, finished flag, superseded instances, summary, open result)
            "tags": ["file", "open", "idx", "cat", "fin", "sup", "sum"],
            "clauses": ["c19."],
            "quick": {"cases": 10, "shards": 16, "extra": []},
            "thorough": {"cases": 40, "shards": 16, "extra": []},
        }],
        "assumptions": [
            "hypothesis of c19_readback/c19_torn (made explicit in the statements): every (task, instance) is written by "
            "one writer (one file), and inside one file the chunks of two instances of the same task are not interleaved "
            "(one live execution per task, instance ids never reused = property C06); all files of the directory carry "
            "the same server uid; channel ids are 0/1; chunk size < 2^32. Outside these hypotheses the reader merges or "
            "splits instances (modelled and compared, not claimed).",
            "the per-directory queue (tokio mpsc, capacity 128) is FIFO and BufWriter+flush put the serialized bytes "
            "into the file in queue order; the task is reported ended only after StreamSender::flush returned "
            "(worker/start/program.rs) - exercised by the harness through the real Streamer, not proved",
            "a worker crash leaves a prefix of the bytes that were written to the file (no reordering/corruption by the "
            "file system)",
            "`finished` is per instance, not per channel: it is set by the first end marker of either channel "
            "(see notes/stream_auth.md, observation S1)",
        ],
        "trusted_base": [
            "bincode 1.3.3 varint/zigzag integer encoding and serde derive order of StreamChunkHeader are modelled by hand "
            "(Stream/Codec.lean, Stream/Header.lean); tied by byte-exact comparison of every produced file (hash) and of "
            "every read-back under truncation",
            "chrono's accepted time-stamp range is a constant of the model (probed at both borders)",
            "UTF-8 validation of the server uid is modelled for ASCII uids only",
            "std::fs / BufReader::seek_relative / read_exact semantics (seek behind EOF succeeds, short read fails)",
        ],
        "rule": "one evaluation = one operation (write a file with the real writer | cut a file | open the directory with the "
                "real OutputLog) executed on the real code and on the Lean model, all out lines compared; a case is distinct "
                "by the hash of its operation sequence and non-trivial when it has >= 2 operations",
    },
}
