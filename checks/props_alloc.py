"""Component `alloc` (model M3, worker-side resource allocator): properties C04 and C16. See /verif/notes/alloc.md."""

_ALL_TAGS = ["pool", "concise", "alloc", "res", "enabled"]

_COMMON_ASSUMPTIONS = [
    "HiGHS (group_solver) is not modelled: the group sets it returned and its objective value are recorded by a "
    "cfg-guarded hook inside group_solver and are an INPUT of the model step, which validates them (each set ascending, in "
    "range, satisfying the modelled constraint rows; objective value = objective of these sets in exact integer arithmetic "
    "scaled by 20000; and equal to the brute-force optimum over all group subsets). A recorded answer the model does not "
    "allow shows up as `out !bad-choice`, i.e. as a disagreement. The theorems quantify over every allowed answer.",
    "Hash-map iteration order (best_fraction_match: which of several indices with the same minimal sufficient free fraction "
    "is taken) is an input as well (`fp=` token, read off the returned allocation); the model checks that the picked index is "
    "one of the minimal candidates.",
    "Amounts are Nat in 1/10000 units; u32/u64 wrap-around is not modelled (the two subtractions that could wrap are "
    "modelled as an `overflow` stop and are unreachable for requests with distinct resource ids).",
    "Requests are built with ResourceRequest::new (entries sorted by resource id, ids distinct) - what validate() enforces "
    "upstream; n_nodes/min_time/weight are constant (they are only part of the cache key of the strict-policy cache).",
    "The allocations handed out are kept by the caller (RunningTask.allocation); the model keeps them as `live` by handle. "
    "`release` is only defined for a live handle (the worker reactor releases exactly the allocation of the finished task; "
    "that hand-over is component `worker`, clause c04_handover, not this component).",
    "Env-var rendering of an allocation (HQ_RESOURCE_VALUES_*, CUDA_VISIBLE_DEVICES, pinning) in "
    "crates/hyperqueue/src/worker/start/program.rs is glue and NOT covered here.",
    "Label -> index resolution (ResourceLabelMap) is modelled as 'k-th label = index k' (labels unique, as "
    "ResourceDescriptor::validate enforces); descriptors that fail validate() are not generated.",
]

_TRUSTED = [
    "HiGHS 1.x via the `highs` crate (only as producer of validated choices), hashbrown/fxhash iteration order (idem)",
    "hooks: tako::verif::alloc (VerifAllocator = thin wrapper of ResourceAllocator::{new,try_allocate,is_enabled,"
    "release_allocation}; snapshot accessors added as cfg-guarded impl blocks at the end of pool.rs/concise.rs/allocator.rs; "
    "solver recorder = two cfg-guarded statements in groups.rs)",
    "harness/src/alloc.rs (generator, monitors, canonical printing) and lean/Driver/AllocMain.lean (parser/printer)",
]

_PART = {
    "component": "alloc", "driver": "hqm-alloc",
    "tags": _ALL_TAGS,
    "quick":    {"cases": 120, "shards": 16, "extra": []},
    "thorough": {"cases": 1500, "shards": 16, "extra": []},
}

PROPS = {
    "C04": {
        "module": "HqModel.Props.C04",
        "theorems": [
            "HqModel.C04.c04_inv",
            "HqModel.C04.c04_exclusive",
        ],
        "parts": [dict(_PART, clauses=["c04."], tags=["pool", "concise", "alloc", "res"])],
        "assumptions": _COMMON_ASSUMPTIONS,
        "trusted_base": _TRUSTED,
    },
}
