"""Component `alloc` (model M3, worker-side resource allocator): properties C04 and C16. See /verif/notes/alloc.md."""

_ALL_TAGS = ["pool", "concise", "alloc", "res", "enabled"]

_COMMON_ASSUMPTIONS = [
    "HiGHS (group_solver) is not modelled: the group sets it returned and its objective value are recorded by a "
    "cfg-guarded hook inside group_solver and are an INPUT of the model step, which validates them (each set ascending, in "
    "range, satisfying the modelled constraint rows; objective value = objective of these sets in exact integer arithmetic "
    "scaled by 20000; and equal to the brute-force optimum over all group subsets). A recorded answer the model does not "
    "allow shows up as `out !bad-choice`, i.e. as a disagreement. The theorems quantify over every allowed answer.",
    "Hash-map iteration order (best_fraction_match: which of several indices with the same minimal sufficient free fraction "
    "is taken) is an input as well (`fp=` token, read off the returned allocation); the model checks that the picked index is "
    "one of the minimal candidates.",
    "Amounts are Nat in 1/10000 units; u32/u64 wrap-around is not modelled (the two subtractions that could wrap are "
    "modelled as an `overflow` stop and are unreachable for requests with distinct resource ids).",
    "Requests are built with ResourceRequest::new (entries sorted by resource id, ids distinct) - what validate() enforces "
    "upstream; n_nodes/min_time/weight are constant (they are only part of the cache key of the strict-policy cache).",
    "The allocations handed out are kept by the caller (RunningTask.allocation); the model keeps them as `live` by handle. "
    "`release` is only defined for a live handle (the worker reactor releases exactly the allocation of the finished task; "
    "that hand-over is component `worker`, clause c04_handover, not this component).",
    "Env-var rendering of an allocation (HQ_RESOURCE_VALUES_*, CUDA_VISIBLE_DEVICES, pinning) in "
    "crates/hyperqueue/src/worker/start/program.rs is glue and NOT covered here.",
    "Label -> index resolution (ResourceLabelMap) is modelled as 'k-th label = index k' (labels unique, as "
    "ResourceDescriptor::validate enforces); descriptors that fail validate() are not generated.",
]

_TRUSTED = [
    "HiGHS 1.x via the `highs` crate (only as producer of validated choices), hashbrown/fxhash iteration order (idem)",
    "hooks: tako::verif::alloc (VerifAllocator = thin wrapper of ResourceAllocator::{new,try_allocate,is_enabled,"
    "release_allocation}; snapshot accessors added as cfg-guarded impl blocks at the end of pool.rs/concise.rs/allocator.rs; "
    "solver recorder = two cfg-guarded statements in groups.rs)",
    "harness/src/alloc.rs (generator, monitors, canonical printing) and lean/Driver/AllocMain.lean (parser/printer)",
]

_PART = {
    "component": "alloc", "driver": "hqm-alloc",
    "tags": _ALL_TAGS,
    "quick":    {"cases": 120, "shards": 16, "extra": []},
    "thorough": {"cases": 1500, "shards": 16, "extra": []},
}

PROPS = {
    "C04": {
        "module": "HqModel.Props.C04",
        "theorems": [
            "HqModel.C04.c04_inv",
            "HqModel.C04.c04_exclusive",
            "HqModel.C04.c04_exact",
            "HqModel.C04.c04_release",
            "HqModel.C04.c04_concise",
            # clause "the resource values it is told about are the ones it holds" (model M8, Props/C04Env.lean)
            "HqModel.Env.c04_told_only_held", "HqModel.Env.c04_told_values", "HqModel.Env.c04_told_collision_witness",
            "HqModel.Env.c04_told_taskset", "HqModel.Env.c04_labels_roundtrip",
        ],
        "parts": [dict(_PART, clauses=["c04."], tags=["pool", "concise", "alloc", "res"]),
                  # component env: the REAL worker with the REAL HqTaskLauncher spawns `/bin/sh -c env` for every launch; the
                  # environment the process printed (HQ_RESOURCE_VALUES_*, HQ_CPUS, CUDA/ROCR_VISIBLE_DEVICES, OMP_*, HQ_PIN), the CPU
                  # list handed to `taskset` (stand-in script on PATH) and launch failures are compared with model M8
                  {"component": "env", "driver": "hqm-env", "tags": ["env", "ts", "end", "refused", "ok"], "clauses": ["c04.told"],
                   "quick": {"cases": 40, "shards": 16, "extra": []}, "thorough": {"cases": 600, "shards": 16, "extra": []}}],
        "assumptions": _COMMON_ASSUMPTIONS + [
            "c04_release and c04_concise carry the side condition NoSingletonGroups (no `Groups` pool with exactly one group; "
            "ResourceDescriptorKind::groups() normalises that to a List). c04_inv, c04_exclusive, c04_exact do not.",
            "c04_handover (prefill_loop hands an allocation to the next task only after taskEnd) belongs to component "
            "`worker` (M2) and is not part of this component.",
            "c04_told_*: model M8 (HqModel/Env/Model.lean) of pin_program / insert_resources_into_env / allocation_to_labels; the "
            "allocation (names, labels of the held indices, amounts) is a recorded input taken from the TaskBuildContext the real "
            "launcher is handed; variable names are a structured type in the model, their text rendering and the parse of the "
            "printed environment are in the driver / harness (trusted); the HQ_RESOURCE_REQUEST_* echo of the request text, "
            "multi-node tasks (no resource variables by design) and the kernel-level effect of taskset are not modelled; "
            "c04_told_values needs distinct normalised resource names (NamesOk, necessary: c04_told_collision_witness -- two "
            "resources named e.g. `a.b` and `a-b` share HQ_RESOURCE_VALUES_a_b, the later overwrites; an observation, the task is "
            "still told values it holds: c04_told_only_held is unconditional)",
        ],
        "trusted_base": _TRUSTED,
    },
    "C16": {
        "module": "HqModel.Props.C16Full",
        "theorems": [
            "HqModel.C16.c16_claim_nostop", "HqModel.C16.c16_tight_loop", "HqModel.C16.c16_enabled_nostop",
            "HqModel.C16.c16_all", "HqModel.C16.c16_all_claim",
            "HqModel.C16.c16_scatter", "HqModel.C16.c16_scatter_claim", "HqModel.C16.c16_scatter_unique", "HqModel.C16.c16_scatter_groups",
            "HqModel.C16.c16_grant_agrees_partial",
            "HqModel.C16.c16_claim_nostop_partial",
            "HqModel.C16.c16_single_fraction",
            "HqModel.C16.c16_admit_iff",
            "HqModel.C16.c16_admit_iff_partial",
            "HqModel.C16.c16_all_partial",
            "HqModel.C16.c16_scatter_partial",
            "HqModel.C16.c16_min_groups_partial",
            "HqModel.C16.c16_strict_partial",
        ],
        "parts": [dict(_PART, clauses=["c16."], tags=["enabled", "res", "alloc"])],
        "assumptions": _COMMON_ASSUMPTIONS + [
            "c16_grant_agrees_partial assumes solver determinism explicitly (hypothesis hdet: for a request with a strict entry "
            "the solver reports the same objective value for the identical MILP in is_enabled and in try_allocate); HiGHS may "
            "return any incumbent within mip_rel_gap=1e-4, so optimality of the recorded answer alone does not give this.",
            "c16_claim_nostop_partial (try_allocate never stops) covers list/range/sum resources with every policy and grouped "
            "resources with all/scatter/compact; tight and the strict policies on grouped resources are NOT covered by a theorem "
            "(correspondence only). Its hypotheses: NoSingletonGroups, distinct resource ids, no entry on an Empty pool, coupling "
            "items address existing groups.",
            "The policy theorems that are `_partial` state their missing parts in their doc comments: c16_admit_iff_partial "
            "(any state, fraction values < 1 unit as hypothesis; the full c16_admit_iff discharges it for reachable states under "
            "NoSingletonGroups), c16_all (all indices free at admission not formalised), "
            "c16_scatter (only the case 'every group non-empty, whole amount <= #groups'), c16_min_groups / c16_strict (bounds "
            "as hypotheses on the tie-break terms; uncoupled single entry; strict: only 'admitted => no more groups than on the "
            "empty worker'). The converse of c16_strict is false for the code: KNOWN_FINDINGS F30.",
            "Scatter spread, min-group count, strict admission and `all` are additionally checked on every generated grant by "
            "harness monitors against brute-force references (c16.scatter, c16.min-groups, c16.strict, c16.all, c16.admit).",
        ],
        "trusted_base": _TRUSTED,
    },
}
