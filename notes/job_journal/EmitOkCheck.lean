import HqModel.Base.Proto
import HqModel.Job.Model
import HqModel.Lemmas.JobJournal
import HqModel.Props.C03Restart
/-!
Reference script (NOT part of the build): evaluates `Emit.EmitOk` on every operation of `hqv job gen` traces, the way the
job driver should (see /verif/notes/job_journal.md), and cross-checks the theorems' conclusions (`recordOk` of every
record M4 writes, `DepClosed` after every record).

  cd /verif/lean && lake env lean --run /verif/notes/job_journal/EmitOkCheck.lean FILE.trace...
-/
open HqModel HqModel.Proto HqModel.Job HqModel.Journal HqModel.Emit

def parseTid (s : String) : Option TaskId :=
  match s.splitOn "." with
  | [a, b] => do let x ← a.toNat?; let y ← b.toNat?; pure (x, y)
  | _ => none

def parseTids (s : String) : Option (List TaskId) :=
  if s = "-" then some [] else (s.splitOn ",").mapM parseTid

def parseOptNat (s : String) : Option (Option Nat) :=
  if s = "-" then some none else s.toNat?.map some

def parseKV (key s : String) : Option String :=
  if s.startsWith (key ++ "=") then some (s.drop (key.length + 1)).toString else none

def parseRanges (s : String) : Option IntArray :=
  if s = "-" then some [] else
  (s.splitOn ";").mapM fun r =>
    match r.splitOn ":" with
    | [a, b, c] => do
      let x ← a.toNat?; let y ← b.toNat?; let z ← c.toNat?
      pure ({ start := x, count := y, step := z } : IntRange)
    | _ => none

def parseGraph (s : String) : Option (List (Nat × List Nat)) :=
  (s.splitOn ";").mapM fun item =>
    match item.splitOn ":" with
    | [a, b] => do
      let t ← a.toNat?
      let deps ← if b = "" then some [] else (b.splitOn ".").mapM String.toNat?
      pure (t, deps)
    | _ => none


def parseStatus : String → Option Status
  | "waiting" => some .waiting | "running" => some .running | "finished" => some .finished
  | "failed" => some .failed | "canceled" => some .canceled | "aborted" => some .aborted
  | "opened" => some .opened | _ => none



def parseOps (toks : List String) : Option (List Op) :=
  match toks with
  | ["open", mf] => do let mf ← parseKV "mf" mf >>= parseOptNat; pure [.openJob mf]
  | ["submit", job, mf, "array", a, b] => do
      let job ← parseKV "job" job >>= parseOptNat; let mf ← parseKV "mf" mf >>= parseOptNat
      let ids ← parseRanges a; let en ← parseOptNat b
      pure [.submit job mf (.array ids en)]
  | ["submit", job, mf, "graph", g] => do
      let job ← parseKV "job" job >>= parseOptNat; let mf ← parseKV "mf" mf >>= parseOptNat
      let g ← parseGraph g
      pure [.submit job mf (.graph g)]
  | ["close", ids] => (parseNatList ids).map (·.map .close)
  | ["cancel", ids] => (parseNatList ids).map (·.map .cancel)
  | ["forget", ids, sts] => do
      let allowed ← if sts = "-" then some [] else (sts.splitOn ",").mapM parseStatus
      let ids ← parseNatList ids
      pure (ids.map fun j => .forget j allowed)
  | ["cb.started", t, inst, ws, rv] => do
      let t ← parseTid t; let i ← inst.toNat?; let ws ← parseNatList ws; let rv ← rv.toNat?
      pure [.started t i ws rv]
  | ["cb.finished", t] => do let t ← parseTid t; pure [.finished t]
  | ["cb.error", t, cons] => do let t ← parseTid t; let c ← parseTids cons; pure [.failed t c]
  | ["cb.wnew", w] => do let w ← w.toNat?; pure [.workerNew w]
  | ["cb.wlost", w, running, reason] => do let w ← w.toNat?; let r ← parseTids running; pure [.workerLost w r reason]
  | _ => none

structure St where
  s : State := {}
  A : AState := meaningStep {} (.serverStart "u")
  dead : Bool := false
  nops : Nat := 0
  nrec : Nat := 0
  fails : Nat := 0

def runOps (caseId : String) (line : String) (st : St) : List Op → IO St
  | [] => pure st
  | op :: ops => do
    if st.dead then return st
    let mut st := st
    for sig in emitFails st.s st.A op do
      IO.println s!"mon FAIL c10.emit {sig} case {caseId}: {line}"
      st := { st with fails := st.fails + 1 }
    match step st.s op with
    | .error _ => pure { st with dead := true }
    | .ok (s', evs) =>
      let recs := recordsOf st.s op evs
      let mut A := st.A
      for r in recs do
        if !recordOk A r then
          IO.println s!"RECORD-NOT-OK case {caseId}: {line} :: {repr r}"
          st := { st with fails := st.fails + 1 }
        A := meaningStep A r
        if !HqModel.C03.depClosedB A then
          IO.println s!"NOT-DEPCLOSED case {caseId}: {line} :: after {repr r}"
          st := { st with fails := st.fails + 1 }
      runOps caseId line { st with s := s', A := A, nops := st.nops + 1, nrec := st.nrec + recs.length } ops

def checkFile (path : String) : IO Unit := do
  let txt ← IO.FS.readFile path
  let mut st : St := {}
  let mut caseId := "?"
  let mut totalOps := 0
  let mut totalRec := 0
  let mut totalFail := 0
  let mut cases := 0
  for line in txt.splitOn "\n" do
    let toks := (line.trimAscii.toString.splitOn " ").filter (· ≠ "")
    match toks with
    | "case" :: idx :: _ =>
      totalOps := totalOps + st.nops; totalRec := totalRec + st.nrec; totalFail := totalFail + st.fails
      st := {}
      caseId := idx
      cases := cases + 1
    | "op" :: rest =>
      match parseOps rest with
      | none => IO.println s!"BAD-OP case {caseId}: {line}"
      | some ops => st ← runOps caseId line st ops
    | _ => pure ()
  totalOps := totalOps + st.nops; totalRec := totalRec + st.nrec; totalFail := totalFail + st.fails
  IO.println s!"cases={cases} ops={totalOps} records={totalRec} failures={totalFail}"

def main (args : List String) : IO Unit := do
  for a in args do checkFile a
