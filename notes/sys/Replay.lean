import HqModel.Lemmas.SysOk
import Driver.CoreMain
open HqModel HqModel.Sys

namespace Replay

def parseOptNat (s : String) : Option (Option Nat) := if s = "-" then some none else s.toNat?.map some

def parseRanges (s : String) : Option Job.IntArray :=
  if s = "-" then some [] else
  (s.splitOn ";").mapM fun r =>
    match r.splitOn ":" with
    | [a, b, c] => do
      let x ← a.toNat?; let y ← b.toNat?; let z ← c.toNat?
      pure ({ start := x, count := y, step := z } : Job.IntRange)
    | _ => none

def parseGraph (s : String) : Option (List (Nat × List Nat)) :=
  (s.splitOn ";").mapM fun item =>
    match item.splitOn ":" with
    | [a, b] => do
      let t ← a.toNat?
      let deps ← if b = "" then some [] else (b.splitOn ".").mapM String.toNat?
      pure (t, deps)
    | _ => none

def parseStatus : String → Option Job.Status
  | "waiting" => some .waiting | "running" => some .running | "finished" => some .finished
  | "failed" => some .failed | "canceled" => some .canceled | "aborted" => some .aborted
  | "opened" => some .opened | _ => none

def parseNts (s : String) : Option (List Core.NewTask) :=
  if s = "-" then some [] else (s.splitOn ",").mapM CoreDriver.parseNewTask

/-- one world action from the merged trace -/
def parseOp (s : State) (toks : List String) : Option Op :=
  match toks with
  | ["open", mf] => do pure (.openJob (← parseOptNat mf))
  | ["submit", job, mf, "array", a, b, nts] => do
    pure (.submit (← parseOptNat job) (← parseOptNat mf) (.array (← parseRanges a) (← parseOptNat b)) (← parseNts nts))
  | ["submit", job, mf, "graph", g, nts] => do
    pure (.submit (← parseOptNat job) (← parseOptNat mf) (.graph (← parseGraph g)) (← parseNts nts))
  | ["close", j] => do pure (.close (← j.toNat?))
  | ["cancel", j, ids] => do pure (.cancel (← j.toNat?) (← CoreDriver.parseTidsSep "," ids))
  | ["forget", j, sts] => do
    let allowed ← if sts = "-" then some [] else (sts.splitOn ",").mapM parseStatus
    pure (.forget (← j.toNat?) allowed)
  | "core" :: rets :: sub => do
    let rets ← CoreDriver.parseRets rets
    let (cop, _) ← CoreDriver.subOp s.core rets sub
    match cop with
    | .newWorker w => pure (.newWorker w)
    | .removeWorker w reason f order rets => pure (.removeWorker w reason f order rets)
    | .newRq rqv => pure (.newRq rqv)
    | .update w us rets => pure (.update w us rets)
    | .retracted w ids => pure (.retracted w ids)
    | .schedule sol => pure (.schedule sol)
    | _ => none
  | _ => none

def showTid (t : TaskId) : String := s!"{t.1}.{t.2}"
def showCb : Core.Cb → String
  | .started t _ _ _ => s!"started:{showTid t}"
  | .finished t => s!"finished:{showTid t}"
  | .error t _ => s!"error:{showTid t}"
  | .workerNew w => s!"wnew:{w}"
  | .workerLost w _ _ => s!"wlost:{w}"

structure Stats where
  steps : Nat := 0
  stops : Nat := 0
  badOk : Nat := 0
  cbMismatch : Nat := 0
  badParse : Nat := 0
  regMismatch : Nat := 0
  cases : Nat := 0

def tidLt (a b : TaskId) : Bool := a.1 < b.1 || (a.1 == b.1 && a.2 < b.2)

partial def loop (h : IO.FS.Stream) (s : State) (dead : Bool) (st : Stats) (pendingCbs : List String) : IO Stats := do
  let line ← h.getLine
  if line.isEmpty then return st
  let toks := (line.trimAscii.toString.splitOn " ").filter (· ≠ "")
  match toks with
  | "C" :: _ :: params =>
    let get (key : String) (d : Nat) : Nat :=
      match params.findSome? (fun t => CoreDriver.dropPrefix (key ++ "=") t) with
      | some v => v.toNat?.getD d
      | none => d
    loop h (initState (get "reserve" 1) (get "max" 1)) false { st with cases := st.cases + 1 } []
  | ["E"] => loop h s dead st []
  | "S" :: rest =>
    if dead then loop h s dead st [] else
    -- split off the expected callbacks
    let body := rest.takeWhile (· ≠ "X")
    let exp := (rest.dropWhile (· ≠ "X")).drop 1 |>.headD "-"
    match parseOp s body with
    | none =>
      IO.println s!"BADPARSE {line.trimAscii}"
      loop h s true { st with badParse := st.badParse + 1 } []
    | some op =>
      let ok := decide (OpOk s op)
      let st := if ok then st else { st with badOk := st.badOk + 1 }
      if !ok then IO.println s!"OPOK-FALSE case-line: {line.trimAscii.toString.take 200}"
      match step s op with
      | .error e =>
        IO.println s!"STOP {repr e} at: {line.trimAscii.toString.take 300}"
        loop h s true { st with steps := st.steps + 1, stops := st.stops + 1 } []
      | .ok (s', o) =>
        let cbs := pendingCbs ++ o.core.cbs.map showCb
        let (mism, pend) :=
          if exp = "?" then (false, cbs)
          else
            let got := if cbs.isEmpty then "-" else ",".intercalate cbs
            (got ≠ exp, [])
        if mism then IO.println s!"CB-MISMATCH got={cbs} exp={exp} at: {line.trimAscii.toString.take 200}"
        -- registry equality (theorem sys_registry): evaluate on the state
        let ids := (s'.core.tasks.map (·.id))
        let reg := ids.all s'.job.sent.contains && s'.job.sent.all ids.contains
        if !reg then IO.println s!"REGISTRY-MISMATCH at: {line.trimAscii.toString.take 200}"
        let st := { st with steps := st.steps + 1, cbMismatch := st.cbMismatch + (if mism then 1 else 0),
                            regMismatch := st.regMismatch + (if reg then 0 else 1) }
        loop h s' false st pend
  | _ => loop h s dead st pendingCbs

def runFile (path : String) : IO Unit := do
  let h ← IO.FS.Handle.mk path .read
  let st ← loop (IO.FS.Stream.ofHandle h) {} false {} []
  IO.println s!"cases={st.cases} steps={st.steps} stops={st.stops} opok-false={st.badOk} cb-mismatch={st.cbMismatch} registry-mismatch={st.regMismatch} bad-parse={st.badParse}"

end Replay

#eval Replay.runFile "/tmp/sysw/replay/sys3.trace"
