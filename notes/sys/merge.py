#!/usr/bin/env python3
"""merge the job view and the core view of the same cases into one world-action trace for Sys.step"""
import sys
def read_cases(path):
    cases=[]; cur=None
    for line in open(path):
        line=line.rstrip('\n')
        if line.startswith('case '):
            cur={'hdr':line.split(),'acts':[],'panic':False}
            cases.append(cur)
        elif line.startswith('act '):
            cur['acts'].append({'act':line[4:40],'ops':[]})
        elif line.startswith('op '):
            if not cur['acts']:
                cur['acts'].append({'act':'<none>','ops':[]})
            cur['acts'][-1]['ops'].append(line[3:].split())
        elif line.startswith('out !panic') or line.startswith('out !bad'):
            cur['panic']=True
    return cases
job=read_cases(sys.argv[1]); core=read_cases(sys.argv[2])
assert len(job)==len(core)
out=[]
for cj,cc in zip(job,core):
    assert cj['hdr'][2]==cc['hdr'][2], (cj['hdr'],cc['hdr'])
    if cj['panic'] or cc['panic']:
        continue
    if len(cj['acts'])!=len(cc['acts']):
        print('SKIP act mismatch',cj['hdr'][1],file=sys.stderr); continue
    params=[t for t in cc['hdr'] if t.startswith('reserve=') or t.startswith('max=')]
    out.append('C '+cj['hdr'][1]+' '+' '.join(params))
    for aj,ac in zip(cj['acts'],cc['acts']):
        assert aj['act']==ac['act'], (aj['act'],ac['act'])
        # core sub ops
        multis=[]
        for toks in ac['ops']:
            assert toks[0]=='multi'
            rets=toks[1][5:]
            subs=[]; curs=[]
            for t in toks[2:]:
                if t=='|': subs.append(curs); curs=[]
                else: curs.append(t)
            subs.append(curs)
            multis.append((rets,subs))
        client=[o for o in aj['ops'] if o[0] in ('open','submit','close','cancel','forget')]
        cbs=[o for o in aj['ops'] if o[0].startswith('cb.')]
        exp=','.join((o[0][3:]+':'+(o[1] if len(o)>1 else '')) for o in cbs) or '-'
        if client:
            assert len(client)==1 and not cbs, aj
            o=client[0]
            allsubs=[s for (_,subs) in multis for s in subs]
            if o[0]=='open':
                out.append('S open '+o[1][3:]+' X -')
            elif o[0]=='submit':
                nt='-'
                for s in allsubs:
                    if s[0]=='newrq': out.append('S core - '+' '.join(s)+' X -')
                    elif s[0]=='newtasks': nt=s[1]
                    else: raise Exception(s)
                out.append('S submit '+' '.join(x.split('=')[1] if '=' in x else x for x in o[1:3])+' '+' '.join(o[3:])+' '+nt+' X -')
            elif o[0]=='cancel':
                cs=[s for s in allsubs]
                for j in o[1].split(','):
                    ids='-'
                    if cs and cs[0][0]=='cancel' and all(t.startswith(j+'.') for t in cs[0][1].split(',')):
                        ids=cs.pop(0)[1]
                    out.append('S cancel '+j+' '+ids+' X -')
                assert not cs, (o,cs)
            elif o[0]=='close':
                for j in o[1].split(','): out.append('S close '+j+' X -')
            elif o[0]=='forget':
                for j in o[1].split(','): out.append('S forget '+j+' '+o[2]+' X -')
        else:
            first=True
            n=sum(len(subs) for (_,subs) in multis)
            k=0
            for (rets,subs) in multis:
                rem=rets
                for s in subs:
                    k+=1
                    r='-'
                    if s[0] in ('update','wlost'):
                        r=rem; rem='-'
                    # expected callbacks are attached to the last sub op of the act
                    out.append('S core '+r+' '+' '.join(s)+' X '+(exp if k==n else '?'))
            if n==0:
                assert not cbs, aj
    out.append('E')
print('\n'.join(out))
