import HqModel.Base.Proto
