/-!
M2 — the worker-side task state machine as coded in `crates/tako/src/internal/worker/`
`reactor.rs` (`compute_tasks`, `try_alloc_and_start_task`, `prefill_loop`, `try_start_task`, `launch_task`,
`handle_task_future`), `state.rs` (`cancel_task`, `retract_tasks`, `remove_running_task`, `register_resource_rq`),
`rpc.rs` (`process_worker_message`, `retract_check_process`), `task.rs`, `task_comm.rs`.

* ids are `Nat`; a finite map is a list (`running`) or a total function plus a key list (`backlog`, `bkeys`);
* the resource allocator (`worker/resources/*`, model M3 = `HqModel.Alloc`) is NOT modelled here. It is an
  abstract interface: the answer of every `try_allocate` (`none` | `some handle`) and of every `is_enabled`
  is an *input* of the step (recorded by the harness from the real allocator). The state keeps the ghost
  set `live` of allocation handles that were handed out by `try_allocate` and not yet passed to
  `release_allocation`; the one law of the interface the worker relies on — `try_allocate` never returns a
  handle that is still live — is checked by the step (`Stop.badChoice` when an input violates it), so every
  theorem about runs that end in `.ok` is a theorem about every allocator satisfying that law;
* hash-order choices (iteration order of `blocked_requests` in `handle_task_future`, of `prefilled_tasks` in
  `retract_check_process`) are inputs as well, checked to be permutations of the modelled set;
* whether the launcher (`TaskLauncher::build_task`) refuses a task is an attribute of the task (`launchFails`),
  the result of a running task is an input of `taskEnd`;
* every `unwrap/assert!/index` on these paths is `Stop.panic site`;
* the worker's remaining life time is a constant of a run (`remaining`, seconds); `min_time`s are seconds.
  (`remaining_time()` reads the wall clock; the correspondence uses limits that are far from every `min_time`.)

The prefilled backlog of a request class is a stack (`Vec::push` / `Vec::pop`): head of the list = top.
-/
namespace HqModel.Worker

inductive TaskResult where
  | finished | error | canceled | timeouted
  deriving DecidableEq, Repr, Inhabited

inductive FailKind where
  | launch | error | timeout
  deriving DecidableEq, Repr, Inhabited

inductive StopKind where
  | cancel | timeout
  deriving DecidableEq, Repr, Inhabited

/-- `WorkerTaskUpdate` (the serialized task context of `Running*` is glue and dropped) -/
inductive Update where
  | finished (t : Nat)
  | failed (t : Nat) (k : FailKind)
  | running (t rv : Nat)
  | runningPrefilled (t rv : Nat)
  | reject (t : Nat) (rv : Option Nat)
  | enable (rq rv : Nat)
  deriving DecidableEq, Repr, Inhabited

/-- everything the worker does that is visible outside of it, in order -/
inductive Out where
  /-- `TaskLauncher::build_task` was called (ok = it returned `Ok`) -/
  | launch (t inst rv h : Nat) (ok : Bool)
  /-- `allocator.release_allocation(h)` -/
  | release (h : Nat)
  /-- a stop signal was sent to the future of a running task -/
  | stop (t : Nat) (k : StopKind)
  /-- one `FromWorkerMessage::TaskUpdate` -/
  | updates (us : List Update)
  /-- one `FromWorkerMessage::RetractResponse` -/
  | retractResponse (ids : List Nat)
  /-- `process_worker_message` returned `true` -/
  | stopped
  deriving DecidableEq, Repr, Inhabited

/-- `worker::task::Task` -/
structure Task where
  id : Nat
  inst : Nat := 0
  rq : Nat := 0
  timeLimit : Option Nat := none
  launchFails : Bool := false
  deriving DecidableEq, Repr, Inhabited

/-- `worker::task::RunningTask`; `stopSent` = the `stop_sender` of its `RunningTaskComm` was taken,
`fired` = the time-limit branch of `handle_task_future` was taken -/
structure Running where
  task : Task
  rv : Nat
  h : Nat
  stopSent : Bool := false
  fired : Bool := false
  deriving DecidableEq, Repr, Inhabited

inductive PanicSite where
  /-- `ResourceRqMap::get(..).unwrap()` -/
  | rqUnknown
  /-- `ResourceRequestVariants::get`: index out of bounds -/
  | rvUnknown
  /-- `StableMap::insert`: `assert!(self.map.insert(key, index).is_none())` -/
  | runningDup
  /-- `assert_eq!(rq_id, new_id)` in `process_worker_message` -/
  | rqIdMismatch
  deriving DecidableEq, Repr, Inhabited

inductive Stop where
  | panic (site : PanicSite)
  /-- the operation cannot occur in this state (no such running task, …); never issued by the harness -/
  | notEnabled
  /-- an environment input (allocator answer, hash order) violates the law stated for it -/
  | badChoice
  deriving DecidableEq, Repr, Inhabited

structure State where
  /-- `running_tasks` -/
  running : List Running := []
  /-- `prefilled_tasks[rq]`, head = top of the stack -/
  backlog : Nat → List Task := fun _ => []
  /-- keys present in `prefilled_tasks` -/
  bkeys : List Nat := []
  /-- `blocked_requests` -/
  blocked : List (Nat × Nat) := []
  /-- ghost: allocation handles handed out and not yet released -/
  live : List Nat := []
  /-- `resource_rq_map`: per class, the `min_time` of every variant -/
  rqs : List (List Nat) := []
  /-- remaining life time of the worker (`None` = no time limit) -/
  remaining : Option Nat := none

/-- one entry of `ComputeTasksMsg`; `rv = none` = prefill entry; `alloc` = the allocator's answer to the
`try_allocate` this entry causes (`none` = refused) -/
structure Entry where
  task : Task
  rv : Option Nat := none
  alloc : Option Nat := none
  deriving DecidableEq, Repr, Inhabited

inductive Op where
  | compute (es : List Entry)
  | retract (ids : List Nat)
  | cancel (ids : List Nat)
  /-- the future of running task `t` resolved with `res`; `en` = `blocked_requests` in iteration order with
  the allocator's `is_enabled` answers after the release -/
  | taskEnd (t : Nat) (res : TaskResult) (en : List ((Nat × Nat) × Bool))
  /-- the time limit of running task `t` elapsed before its future resolved -/
  | timeoutFire (t : Nat)
  /-- one tick of `retract_check_process`; `order` = keys of `prefilled_tasks` in iteration order -/
  | retractCheck (order : List Nat)
  | newRq (id : Nat) (minTimes : List Nat)
  | stop
  deriving Repr, Inhabited

/-- outputs under construction: events (launcher calls, releases) and the `TaskUpdates` batch -/
structure Acc where
  s : State
  ev : List Out := []
  upd : List Update := []

def setBacklog (s : State) (rq : Nat) (l : List Task) : State :=
  { s with backlog := fun r => if r = rq then l else s.backlog r }

def isRunning (s : State) (t : Nat) : Bool := s.running.any (fun r => r.task.id == t)

/-- `state.resource_rq_map.get(rq).get(rv).min_time()` -/
def minTime (s : State) (rq rv : Nat) : Except Stop Nat :=
  match s.rqs[rq]? with
  | none => .error (.panic .rqUnknown)
  | some vs =>
    match vs[rv]? with
    | none => .error (.panic .rvUnknown)
    | some mt => .ok mt

/-- `remaining_time() < min_time` -/
def tooLate (s : State) (mt : Nat) : Bool :=
  match s.remaining with
  | some r => decide (r < mt)
  | none => false

/-- `try_start_task` (with `launch_task`); the flag says whether the allocation was consumed. -/
def tryStart (a : Acc) (t : Task) (rv : Nat) (prefilled : Bool) (h : Nat) : Except Stop (Acc × Bool) :=
  match minTime a.s t.rq rv with
  | .error e => .error e
  | .ok mt =>
    if tooLate a.s mt then
      -- hard reject
      .ok ({ a with upd := a.upd ++ [.reject t.id (some rv)] }, false)
    else if t.launchFails then
      .ok ({ a with ev := a.ev ++ [.launch t.id t.inst rv h false], upd := a.upd ++ [.failed t.id .launch] }, false)
    else if isRunning a.s t.id then
      .error (.panic .runningDup)
    else
      .ok ({ s := { a.s with running := a.s.running ++ [{ task := t, rv := rv, h := h }] },
             ev := a.ev ++ [.launch t.id t.inst rv h true],
             upd := a.upd ++ [if prefilled then .runningPrefilled t.id rv else .running t.id rv] }, true)

/-- `prefill_loop` over the backlog `bl` of class `rq` (`bl = a.s.backlog rq` at every call) -/
def prefillLoop (rq rv h : Nat) : List Task → Acc → Except Stop (Acc × Bool)
  | [], a =>
    .ok ({ a with s := { setBacklog a.s rq [] with live := a.s.live.erase h }, ev := a.ev ++ [.release h] }, false)
  | t :: rest, a =>
    match tryStart { a with s := setBacklog a.s rq rest } t rv true h with
    | .error e => .error e
    | .ok (a', true) => .ok (a', true)
    | .ok (a', false) => prefillLoop rq rv h rest a'

def insertBlocked (s : State) (k : Nat × Nat) : State :=
  if k ∈ s.blocked then s else { s with blocked := k :: s.blocked }

/-- one iteration of the loop of `compute_tasks` -/
def computeEntry (a : Acc) (e : Entry) : Except Stop Acc :=
  match e.rv with
  | none =>
    let s := a.s
    .ok { a with s := { setBacklog s e.task.rq (e.task :: s.backlog e.task.rq) with
                        bkeys := if e.task.rq ∈ s.bkeys then s.bkeys else e.task.rq :: s.bkeys } }
  | some rv =>
    -- `try_alloc_and_start_task`
    match minTime a.s e.task.rq rv with
    | .error err => .error err
    | .ok _ =>
      match e.alloc with
      | none =>
        -- soft reject
        .ok { a with s := insertBlocked a.s (e.task.rq, rv), upd := a.upd ++ [.reject e.task.id (some rv)] }
      | some h =>
        if h ∈ a.s.live then .error .badChoice
        else
          match tryStart { a with s := { a.s with live := h :: a.s.live } } e.task rv false h with
          | .error err => .error err
          | .ok (a', true) => .ok a'
          | .ok (a', false) =>
            match prefillLoop e.task.rq rv h (a'.s.backlog e.task.rq) a' with
            | .error err => .error err
            | .ok (a'', _) => .ok a''

def computeEntries : List Entry → Acc → Except Stop Acc
  | [], a => .ok a
  | e :: es, a =>
    match computeEntry a e with
    | .error err => .error err
    | .ok a' => computeEntries es a'

/-- the message is sent only when the batch is not empty -/
def finish (a : Acc) : State × List Out :=
  (a.s, a.ev ++ (if a.upd = [] then [] else [.updates a.upd]))

def compute (s : State) (es : List Entry) : Except Stop (State × List Out) :=
  match computeEntries es { s := s } with
  | .error err => .error err
  | .ok a => .ok (finish a)

/-- `retract_tasks` + the response -/
def retract (s : State) (ids : List Nat) : State × List Out :=
  let retracted := s.bkeys.flatMap fun rq => ((s.backlog rq).filter (fun t => t.id ∈ ids)).map (·.id)
  ({ s with backlog := fun rq => (s.backlog rq).filter (fun t => t.id ∉ ids) },
   if ids = [] then [] else [.retractResponse retracted])

/-- `cancel_task` for one id: a running task gets the stop signal (once); a task that is not running is
removed from every backlog (`fix: a canceled task in the worker's prefilled backlog was still started`) -/
def cancelOne (a : State × List Out) (t : Nat) : State × List Out :=
  let (s, outs) := a
  match s.running.find? (fun r => r.task.id == t) with
  | none => ({ s with backlog := fun rq => (s.backlog rq).filter (fun x => x.id ≠ t) }, outs)
  | some r =>
    if r.stopSent then (s, outs)
    else ({ s with running := s.running.map fun x => if x.task.id = t then { x with stopSent := true } else x },
          outs ++ [.stop t .cancel])

def cancel (s : State) (ids : List Nat) : State × List Out := ids.foldl cancelOne (s, [])

def resultUpdates (t : Nat) : TaskResult → List Update
  | .finished => [.finished t]
  | .canceled => []
  | .timeouted => [.failed t .timeout]
  | .error => [.failed t .error]

/-- the tail of `handle_task_future` after the task future resolved -/
def taskEnd (s : State) (t : Nat) (res : TaskResult) (en : List ((Nat × Nat) × Bool)) : Except Stop (State × List Out) :=
  match s.running.find? (fun r => r.task.id == t) with
  | none => .error .notEnabled
  | some r =>
    let s1 := { s with running := s.running.filter (fun x => x.task.id != t) }
    match prefillLoop r.task.rq r.rv r.h (s1.backlog r.task.rq) { s := s1, upd := resultUpdates t res } with
    | .error err => .error err
    | .ok (a, used) =>
      if used = false ∧ a.s.blocked ≠ [] then
        if (en.map (·.1)).isPerm a.s.blocked then
          let unblocked := (en.filter (·.2)).map (·.1)
          .ok (finish { a with s := { a.s with blocked := a.s.blocked.filter (fun k => k ∉ unblocked) },
                               upd := a.upd ++ unblocked.map (fun k => .enable k.1 k.2) })
        else .error .badChoice
      else .ok (finish a)

/-- the `Either::Right` branch of `handle_task_future` -/
def timeoutFire (s : State) (t : Nat) : Except Stop (State × List Out) :=
  match s.running.find? (fun r => r.task.id == t) with
  | none => .error .notEnabled
  | some r =>
    if r.task.timeLimit = none ∨ r.fired = true then .error .notEnabled
    else
      .ok ({ s with running := s.running.map fun x => if x.task.id = t then { x with stopSent := true, fired := true } else x },
           if r.stopSent then [] else [.stop t .timeout])

/-- `ResourceRequestVariants::min_time` -/
def classMinTime : List Nat → Nat
  | [] => 0
  | v :: vs => vs.foldl min v

structure RcAcc where
  toRemove : List Nat := []
  upd : List Update := []

def retractCheckLoop (s : State) (rem : Nat) : List Nat → RcAcc → Except Stop RcAcc
  | [], a => .ok a
  | rq :: rest, a =>
    match s.rqs[rq]? with
    | none => .error (.panic .rqUnknown)
    | some vs =>
      if rem < classMinTime vs then
        retractCheckLoop s rem rest
          { toRemove := a.toRemove ++ [rq],
            upd := a.upd ++ (s.backlog rq).reverse.map (fun t => .reject t.id none) }
      else retractCheckLoop s rem rest a

/-- one tick of `retract_check_process` -/
def retractCheck (s : State) (order : List Nat) : Except Stop (State × List Out) :=
  if s.bkeys = [] then .ok (s, [])
  else
    match s.remaining with
    | none => .ok (s, [])
    | some rem =>
      if order.isPerm s.bkeys then
        match retractCheckLoop s rem order {} with
        | .error err => .error err
        | .ok a =>
          if a.upd = [] then .ok (s, [])
          else
            .ok ({ s with backlog := fun rq => if rq ∈ a.toRemove then [] else s.backlog rq,
                          bkeys := s.bkeys.filter (fun rq => rq ∉ a.toRemove) },
                 [.updates a.upd])
      else .error .badChoice

def newRq (s : State) (id : Nat) (minTimes : List Nat) : Except Stop (State × List Out) :=
  if id = s.rqs.length then .ok ({ s with rqs := s.rqs ++ [minTimes] }, [])
  else .error (.panic .rqIdMismatch)

def step (s : State) : Op → Except Stop (State × List Out)
  | .compute es => compute s es
  | .retract ids => .ok (retract s ids)
  | .cancel ids => .ok (cancel s ids)
  | .taskEnd t res en => taskEnd s t res en
  | .timeoutFire t => timeoutFire s t
  | .retractCheck order => retractCheck s order
  | .newRq id mts => newRq s id mts
  | .stop => .ok (s, [.stopped])

/-- a run: the outputs of every step are kept per step -/
def run : State → List Op → Except Stop (State × List (List Out))
  | s, [] => .ok (s, [])
  | s, op :: ops =>
    match step s op with
    | .error e => .error e
    | .ok (s', o) =>
      match run s' ops with
      | .error e => .error e
      | .ok (s'', os) => .ok (s'', o :: os)

def init (rqs : List (List Nat)) (remaining : Option Nat) : State :=
  { rqs := rqs, remaining := remaining }

end HqModel.Worker
