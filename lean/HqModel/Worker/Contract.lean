import HqModel.Worker.Model
/-!
The *server contract* of the worker: what a correct server sends (decidable, evaluated on the worker state
before each message). Ids in `RetractTasks` / `CancelTasks` are arbitrary; a `ComputeTasks` message names
registered request classes (and variants, for assigned entries), its task ids are pairwise different and none of
them is currently held by the worker (running or in a backlog); `NewResourceRequest` carries the next free id.
Task ends / time-limit expiries / retract-check ticks are not messages: they are unconstrained here (a
`taskEnd` for a task that is not running is `Stop.notEnabled`, not a panic).
-/
namespace HqModel.Worker

def backlogIds (s : State) : List Nat := s.bkeys.flatMap fun rq => (s.backlog rq).map (·.id)

def heldIds (s : State) : List Nat := s.running.map (·.task.id) ++ backlogIds s

def entryOk (s : State) (e : Entry) : Bool :=
  match s.rqs[e.task.rq]? with
  | none => false
  | some vs =>
    match e.rv with
    | none => true
    | some rv => decide (rv < vs.length)

def contract (s : State) : Op → Bool
  | .compute es =>
    es.all (entryOk s) && decide ((es.map (·.task.id)).Nodup) && es.all (fun e => decide (e.task.id ∉ heldIds s))
  | .newRq id _ => decide (id = s.rqs.length)
  | _ => true

/-- the contract holds before every operation of the run (evaluated along the run; a run that stops early is
only constrained up to the stop) -/
def contractRun : State → List Op → Bool
  | _, [] => true
  | s, op :: ops =>
    contract s op &&
      match step s op with
      | .error _ => true
      | .ok (s', _) => contractRun s' ops

end HqModel.Worker
