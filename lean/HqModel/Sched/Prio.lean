/-!
`Priority::from_user_priority` (`internal/common/priority.rs`) on bit vectors:
`Priority((user_priority.0 as u64 ^ 0x8000_0000) << 32)` — the `as u64` of an `i32` sign-extends.
Queues and batches compare `Priority` values (u64); the instance of the scheduling model carries the user
priorities (i32, as `Int`). `prio_embedding_mono` (Lemmas/SchedPrio.lean) shows that both orders agree.
-/
namespace HqModel.Sched

def fromUserPriority (x : BitVec 32) : BitVec 64 := ((x.signExtend 64) ^^^ 0x80000000#64) <<< 32

end HqModel.Sched
