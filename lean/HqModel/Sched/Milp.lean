import HqModel.Sched.Batches
/-!
M7 Sched, part 2: the MILP of `run_scheduling_solver` (`scheduler/solver.rs`) *as data*, for the fragment of
C15 (single-node, single-variant classes over two resource kinds; `min_utilization = 0`; no time limits; no
multi-node).

Variables (all integer, lower bound 0):
* `P w c`  placement count of class `c` on worker `w` (`add_nat_variable`), created iff the worker has not
           blocked the class and has the resources free *now*;
* `R w c`  reservation (`add_bool_variable`): worker `w` cannot start class `c` now but could run it, and the
           batch of `c` blocks somebody; takes all free resources of `w`;
* `B c s`  blocker (`add_bool_variable`): may be 0 only if at least `s` tasks of class `c` are scheduled/reserved.

Objective weights are `f64` in the code (`create_sn_var`: the sum over the ENTRIES of the request of
`amount / global`, where `global` is the sum of the free amounts of that kind over all workers and a kind with
`global < 1e-6` contributes 0):
  `P w c : (need c / G1 + need2 c / G2) * (n - widx) * weight c / n`,  `R w c : widx / (n * 100)`
Here they are the exact rationals, scaled by the common denominator `den = max G1 1 * max G2 1 * n * 10^6` (amounts
in 1/10000, weight in 1/10000): `P : (need c * max G2 1 + need2 c * max G1 1) * (n - widx) * weight c * 100` (a term
whose `G` is 0 dropped), `R : widx * max G1 1 * max G2 1 * 10^4`. Without the second kind anywhere (`G2 = 0`) these are
the numbers of the cpu-only model. The harness checks per generated instance that the recorded `f64` weight times
`den` is this integer up to a relative 1e-13.

Row coefficients: resource rows are kept in 1/10000 units (the code uses `as_f64()` units; both sides print rows
divided by their gcd); count rows in tasks. There is one resource row per worker and resource kind.
-/
namespace HqModel.Sched

inductive Var where
  | P (w c : Nat)
  | R (w c : Nat)
  | B (c s : Nat)
  deriving Repr, DecidableEq, Inhabited

def Var.isBool : Var → Bool
  | .P .. => false
  | _ => true

structure Row where
  /-- `true`: `Min` (lhs ≥ bound); `false`: `Max` (lhs ≤ bound) -/
  ge : Bool
  bound : Nat
  terms : List (Var × Nat)
  deriving Repr, DecidableEq, Inhabited

structure Milp where
  /-- variables with their objective weight (scaled by `den`) -/
  vars : List (Var × Nat) := []
  rows : List Row := []
  den : Nat := 1
  deriving Repr, Inhabited

abbrev Assign := Var → Nat

def Row.lhs (r : Row) (x : Assign) : Nat := (r.terms.map fun t => t.2 * x t.1).sum

def Row.holds (r : Row) (x : Assign) : Prop := if r.ge then r.bound ≤ r.lhs x else r.lhs x ≤ r.bound

instance (r : Row) (x : Assign) : Decidable (r.holds x) := by unfold Row.holds; infer_instance

/-- an integer point satisfying every row; `B`/`R` variables are 0/1 -/
def Feasible (m : Milp) (x : Assign) : Prop :=
  (∀ r ∈ m.rows, r.holds x) ∧ (∀ v ∈ m.vars, v.1.isBool = true → x v.1 ≤ 1)

instance (m : Milp) (x : Assign) : Decidable (Feasible m x) := by unfold Feasible; infer_instance

def objective (m : Milp) (x : Assign) : Nat := (m.vars.map fun v => v.2 * x v.1).sum

/-- maximal among ALL feasible integer points (the integer box of section `box` below contains them all) -/
def Optimal (m : Milp) (x : Assign) : Prop := Feasible m x ∧ ∀ y, Feasible m y → objective m y ≤ objective m x

/-! ### which variables exist -/

/-- `!is_request_blocked && have_immediate_resources_for_rq` (time limits are outside the fragment) -/
def hasP (inst : Instance) (w : Worker) (c : Nat) : Bool := !w.blocked.contains c && fitsNow inst c w

/-- `!has_variant && batch.is_blocker && worker.is_capable_to_run_rqv` -/
def hasR (inst : Instance) (w : Worker) (b : Batch) : Bool :=
  !hasP inst w b.rq && b.blocker && capable inst b.rq w

def countVar (inst : Instance) (w : Worker) (b : Batch) : Option Var :=
  if hasP inst w b.rq then some (.P w.id b.rq) else if hasR inst w b then some (.R w.id b.rq) else none

/-- `tasks_count_vars[rq]` in creation order -/
def countVars (inst : Instance) (b : Batch) : List Var := inst.workers.filterMap (countVar inst · b)

def countVarsOf (inst : Instance) (bs : List Batch) (c : Nat) : List Var :=
  match bs.find? (·.rq = c) with
  | some b => countVars inst b
  | none => []

def Instance.freeSum (inst : Instance) : Nat := (inst.workers.map (·.free)).sum

def Instance.freeSum2 (inst : Instance) : Nat := (inst.workers.map (·.free2)).sum

/-- the share of a request in the free resources of the cluster, summed over its entries, times
`max G1 1 * max G2 1` -/
def shareP (inst : Instance) (c : Nat) : Nat :=
  (if inst.freeSum = 0 then 0 else inst.need c * max inst.freeSum2 1) +
  (if inst.freeSum2 = 0 then 0 else inst.need2 c * max inst.freeSum 1)

def weightP (inst : Instance) (widx c : Nat) : Nat :=
  shareP inst c * (inst.workers.length - widx) * inst.weight c * 100

def weightR (inst : Instance) (widx : Nat) : Nat := widx * (max inst.freeSum 1 * max inst.freeSum2 1) * 10000

def Instance.den (inst : Instance) : Nat :=
  max inst.freeSum 1 * max inst.freeSum2 1 * inst.workers.length * 1000000

def prVars (inst : Instance) (bs : List Batch) : List (Var × Nat) :=
  inst.workers.zipIdx.flatMap fun wi =>
    bs.filterMap fun b =>
      if hasP inst wi.1 b.rq then some (.P wi.1.id b.rq, weightP inst wi.2 b.rq)
      else if hasR inst wi.1 b then some (.R wi.1.id b.rq, weightR inst wi.2)
      else none

/-! ### rows -/

/-- "w resource limit" for the cpus: a placement takes what its request asks for, a reservation all that is free
(`iter_pairs` skips a kind of which nothing is free) -/
def resourceRow1 (inst : Instance) (bs : List Batch) (w : Worker) : Option Row :=
  let terms : List (Var × Nat) := bs.filterMap fun b =>
    if hasP inst w b.rq then some (.P w.id b.rq, inst.need b.rq)
    else if hasR inst w b && w.free != 0 then some (.R w.id b.rq, w.free)
    else none
  if terms.isEmpty then none else some { ge := false, bound := w.free, terms := terms }

/-- "w resource limit" for the second kind: only the placements whose request has an entry for it -/
def resourceRow2 (inst : Instance) (bs : List Batch) (w : Worker) : Option Row :=
  let terms : List (Var × Nat) := bs.filterMap fun b =>
    if hasP inst w b.rq then (if inst.need2 b.rq = 0 then none else some (.P w.id b.rq, inst.need2 b.rq))
    else if hasR inst w b && w.free2 != 0 then some (.R w.id b.rq, w.free2)
    else none
  if terms.isEmpty then none else some { ge := false, bound := w.free2, terms := terms }

/-- the resource rows, one per worker and resource kind -/
def resourceRows (inst : Instance) (bs : List Batch) : List Row :=
  inst.workers.filterMap (resourceRow1 inst bs) ++ inst.workers.filterMap (resourceRow2 inst bs)

/-- "size limit for rq" -/
def sizeRows (inst : Instance) (bs : List Batch) : List Row :=
  bs.filterMap fun b =>
    let cv := countVars inst b
    if cv.isEmpty || b.reached then none else some { ge := false, bound := b.size, terms := cv.map (·, 1) }

/-- what is left of an amount after the tasks of the classes other than `high` reserved on the worker have taken
their part (`WorkerResources::remove` is saturating; `g` = the need of a class in this kind) -/
def gapLeft (g : Nat → Nat) (high : Nat) (assigned : List Nat) (base : Nat) : Nat :=
  assigned.foldl (fun f a => if a ≠ high then f - g a else f) base

/-- `GapCache::get_gap` for single-variant classes: what `high` can never use of the whole worker (the TOTAL
resources minus as many `high` tasks as fit, per kind), minus what the tasks of other classes reserved there take
(saturating, per kind), in tasks of `low` -/
def gap (inst : Instance) (high low : Nat) (w : Worker) : Nat :=
  let n := fitCount w.total w.total2 (inst.need high) (inst.need2 high)
  let free1 := gapLeft inst.need high w.assigned (w.total - inst.need high * n)
  let free2 := gapLeft inst.need2 high w.assigned (w.total2 - inst.need2 high * n)
  fitCount free1 free2 (inst.need low) (inst.need2 low)

def capableWorkers (inst : Instance) (c : Nat) : List Worker := inst.workers.filter fun w => capable inst c w

/-- per worker with a positive gap: "if #rq{blocker} < s then limit #rq to cut + gap" / "limit #rq to cut + gap" -/
def gapRows (inst : Instance) (bs : List Batch) (b : Batch) (cut : Cut) (c' : Nat) (s? : Option Nat) : List Row :=
  (capableWorkers inst c').filterMap fun w =>
    let g := gap inst c' b.rq w
    if g = 0 then none else
    let vars : List (Var × Nat) := if hasP inst w b.rq then [(.P w.id b.rq, 1)] else []
    match s? with
    | some s =>
      if (countVarsOf inst bs c').isEmpty then none
      else some { ge := false, bound := cut.size + b.size + g, terms := vars ++ [(.B c' s, b.size)] }
    | none => some { ge := false, bound := cut.size + g, terms := vars }

/-- `zero_cond`: the placements of the batch on workers that can run the blocker and leave it no gap -/
def zeroCond (inst : Instance) (b : Batch) (c' : Nat) : List Var :=
  (capableWorkers inst c').filterMap fun w =>
    if gap inst c' b.rq w = 0 && hasP inst w b.rq then some (.P w.id b.rq) else none

/-- "if #rq{blocker} < s then limit #rq to cut" / "limit #rq to cut" (the latter once per batch and blocker:
`firstUnbounded`) -/
def zeroRows (inst : Instance) (bs : List Batch) (b : Batch) (cut : Cut) (c' : Nat) (s? : Option Nat)
    (firstUnbounded : Bool) : List Row :=
  let z := zeroCond inst b c'
  if z.isEmpty then [] else
  match s? with
  | some s =>
    if (countVarsOf inst bs c').isEmpty then []
    else [{ ge := false, bound := b.size + cut.size, terms := z.map (·, 1) ++ [(.B c' s, b.size)] }]
  | none => if firstUnbounded then [{ ge := false, bound := cut.size, terms := z.map (·, 1) }] else []

/-- rows of one cut; `earlier` = the cuts of the batch before this one (for `blocked_by_unbounded`) -/
def cutRows (inst : Instance) (bs : List Batch) (b : Batch) (earlier : List Cut) (cut : Cut) : List Row :=
  cut.blockers.flatMap fun bl =>
    gapRows inst bs b cut bl.1 bl.2 ++
    zeroRows inst bs b cut bl.1 bl.2 (earlier.all fun e => !e.blockers.contains (bl.1, none))

def cutRowsFrom (inst : Instance) (bs : List Batch) (b : Batch) : List Cut → List Cut → List Row
  | _, [] => []
  | earlier, cut :: rest => cutRows inst bs b earlier cut ++ cutRowsFrom inst bs b (earlier ++ [cut]) rest

def batchCutRows (inst : Instance) (bs : List Batch) (b : Batch) : List Row :=
  if (countVars inst b).isEmpty then [] else cutRowsFrom inst bs b [] b.cuts

/-- is `B c' s` asked for by the rows of this (batch, cut, blocker)? -/
def usesB (inst : Instance) (bs : List Batch) (b : Batch) (c' : Nat) : Bool :=
  !(countVarsOf inst bs c').isEmpty &&
    ((capableWorkers inst c').any (fun w => gap inst c' b.rq w != 0) || !(zeroCond inst b c').isEmpty)

def dedupAux [DecidableEq α] : List α → List α → List α
  | [], _ => []
  | a :: l, seen => if a ∈ seen then dedupAux l seen else a :: dedupAux l (a :: seen)

/-- the `B` variables in creation order -/
def bVars (inst : Instance) (bs : List Batch) : List (Nat × Nat) :=
  dedupAux (bs.flatMap fun b =>
    if (countVars inst b).isEmpty then [] else
    b.cuts.flatMap fun cut => cut.blockers.filterMap fun bl =>
      match bl.2 with
      | some s => if usesB inst bs b bl.1 then some (bl.1, s) else none
      | none => none) []

/-- "blocker rq at size s": `Σ count vars + s·B ≥ s` -/
def bRows (inst : Instance) (bs : List Batch) : List Row :=
  (bVars inst bs).map fun cs =>
    { ge := true, bound := cs.2, terms := (countVarsOf inst bs cs.1).map (·, 1) ++ [(.B cs.1 cs.2, cs.2)] }

def milpOf (inst : Instance) (bs : List Batch) : Milp where
  vars := prVars inst bs ++ (bVars inst bs).map fun cs => (.B cs.1 cs.2, 0)
  rows := resourceRows inst bs ++ sizeRows inst bs ++ bRows inst bs ++ bs.flatMap (batchCutRows inst bs)
  den := inst.den

/-- the MILP of one scheduling round -/
def milp (inst : Instance) : Milp := milpOf inst (batches inst)

/-- solution extraction: per batch the positive placement counts per worker (`sn_counts`) -/
def extract (inst : Instance) (x : Assign) : List (Nat × List (Nat × Nat)) :=
  (batches inst).filterMap fun b =>
    let counts := inst.workers.filterMap fun w =>
      if hasP inst w b.rq && x (.P w.id b.rq) > 0 then some (w.id, x (.P w.id b.rq)) else none
    if counts.isEmpty then none else some (b.rq, counts)

/-! ### the integer box -/

/-- upper bounds of the placement variables implied by the resource rows; `R`, `B` are 0/1 -/
def boxBound (inst : Instance) : Var → Nat
  | .P w c =>
    match inst.workers.find? (·.id = w) with
    | some wk => fitCount wk.free wk.free2 (inst.need c) (inst.need2 c)
    | none => 0
  | _ => 1

end HqModel.Sched
