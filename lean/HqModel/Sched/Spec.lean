import HqModel.Sched.Priority
/-!
M7 Sched, part 5: a closed-form specification of what `create_task_batches` computes (no loop): sizes and limit
flags from the task counts, every cut sits at a priority level of its queue and names exactly the other classes
that hold tasks of higher priority, and for every level that needs a cut there is one (possibly merged with the
cut of an earlier level of the same class: same blockers, smaller size).

`BatchesSpec inst bs` is decidable; the driver evaluates it on `batches inst` for every generated instance
(`out spec`), `Lemmas/SchedF2.lean` uses it as the interface between the loop and the exchange argument.
-/
namespace HqModel.Sched

/-- number of ready tasks of class `c` with priority strictly above `p` -/
def above (inst : Instance) (c : Nat) (p : Int) : Nat :=
  (inst.tasks.filter fun t => t.cls = c && decide (p < t.prio)).length

/-- number of ready tasks of class `c` -/
def total (inst : Instance) (c : Nat) : Nat := (inst.tasks.filter fun t => t.cls = c).length

/-- the blockers of a cut of class `c` at priority level `p`: the other ready classes with tasks above `p`, with
their count — or `none` when that count exceeds their limit -/
def blockersAt (inst : Instance) (c : Nat) (p : Int) : List (Nat × Option Nat) :=
  (inst.readyClasses.filter fun c' => c' != c && above inst c' p > 0).map fun c' =>
    (c', if above inst c' p > inst.limitOf c' then none else some (above inst c' p))

structure BatchesSpec (inst : Instance) (bs : List Batch) : Prop where
  /-- the batches are the ready classes that some worker can run, in class order -/
  classes : bs.map (·.rq) = inst.readyClasses.filter fun c => inst.limitOf c > 0
  limit : ∀ b ∈ bs, b.limit = inst.limitOf b.rq
  sizeReached : ∀ b ∈ bs, b.reached = true → b.size = b.limit ∧ b.limit < total inst b.rq
  sizeAll : ∀ b ∈ bs, b.reached = false → b.size = total inst b.rq ∧ b.size ≤ b.limit
  /-- every cut is the cut of a level of its queue -/
  cutSound : ∀ b ∈ bs, ∀ cut ∈ b.cuts, ∃ t ∈ inst.tasks, t.cls = b.rq ∧
      cut.size = above inst b.rq t.prio ∧ cut.size ≤ b.limit ∧ cut.blockers = blockersAt inst b.rq t.prio
  /-- every level that is reached before the limit and has blockers is covered by a cut -/
  cutExists : ∀ b ∈ bs, ∀ t ∈ inst.tasks, t.cls = b.rq → above inst b.rq t.prio ≤ b.limit →
      blockersAt inst b.rq t.prio ≠ [] →
      ∃ cut ∈ b.cuts, cut.size ≤ above inst b.rq t.prio ∧ cut.blockers = blockersAt inst b.rq t.prio
  cutsSorted : ∀ b ∈ bs, b.cuts.Pairwise fun c1 c2 => c1.size ≤ c2.size

/-- the decidable form evaluated by the driver -/
def batchesSpecB (inst : Instance) (bs : List Batch) : Bool :=
  decide (bs.map (·.rq) = inst.readyClasses.filter fun c => inst.limitOf c > 0) &&
  bs.all (fun b =>
    decide (b.limit = inst.limitOf b.rq) &&
    (if b.reached then decide (b.size = b.limit ∧ b.limit < total inst b.rq)
     else decide (b.size = total inst b.rq ∧ b.size ≤ b.limit)) &&
    b.cuts.all (fun cut => inst.tasks.any fun t =>
      decide (t.cls = b.rq) && decide (cut.size = above inst b.rq t.prio) && decide (cut.size ≤ b.limit) &&
      decide (cut.blockers = blockersAt inst b.rq t.prio)) &&
    inst.tasks.all (fun t =>
      !(decide (t.cls = b.rq)) || !(decide (above inst b.rq t.prio ≤ b.limit)) || (blockersAt inst b.rq t.prio).isEmpty ||
      b.cuts.any fun cut => decide (cut.size ≤ above inst b.rq t.prio) &&
        decide (cut.blockers = blockersAt inst b.rq t.prio)) &&
    decide (b.cuts.Pairwise fun c1 c2 => c1.size ≤ c2.size))

end HqModel.Sched
