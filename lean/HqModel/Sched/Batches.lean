import HqModel.Core.Sched
/-!
M7 Sched, part 1: the instance of one scheduling decision and `create_task_batches`
(`scheduler/batches.rs`) for the fragment of property C15: single-node, single-variant request classes over TWO
resource kinds (cpus and one more, e.g. gpus; a class asks for cpus and optionally for the second kind, a worker may
lack the second kind), no time limits, no prefill (proactive filling off).

`batches` is written as a recursion over the globally merged, descending list of distinct priorities; the
code instead advances one iterator per queue and looks for the maximum of the current heads — the same
sequence of `found` sets, because a level at which only stopped (limit reached) queues have tasks is
invisible to the code and leaves the state unchanged here. The equality with the real
`create_task_batches` is part of the correspondence check (`out batch …` lines).
-/
namespace HqModel.Sched
open HqModel.Core (TaskId)

structure Worker where
  id : Nat
  /-- total cpus (in 1/10000) -/
  total : Nat
  /-- free cpus at the start of the round -/
  free : Nat
  /-- request classes of the tasks reserved on the worker (assigned or running) -/
  assigned : List Nat := []
  /-- request classes the worker has rejected (`blocked_requests`, variant 0) -/
  blocked : List Nat := []
  /-- second resource kind: total amount (in 1/10000); 0 = the worker does not have the kind -/
  total2 : Nat := 0
  /-- second resource kind: free amount at the start of the round -/
  free2 : Nat := 0
  deriving Repr, DecidableEq, Inhabited

structure RqClass where
  /-- cpus a task of the class needs (in 1/10000) -/
  need : Nat
  /-- `ResourceWeight` in 1/10000 -/
  weight : Nat := 10000
  /-- amount of the second resource kind a task of the class needs (in 1/10000); 0 = the request has no entry for it -/
  need2 : Nat := 0
  deriving Repr, DecidableEq, Inhabited

/-- ready part of a `TaskQueue`, as in `HqModel.Core.Queue.ready`: descending priority, ids ascending -/
abbrev Ready := List (Int × List TaskId)

/-- workers in ascending id order (the order `run_scheduling_solver` sorts them into), classes and queues
indexed by request class id -/
structure Instance where
  workers : List Worker := []
  classes : List RqClass := []
  queues : List Ready := []
  deriving Repr, Inhabited

def Instance.need (inst : Instance) (c : Nat) : Nat :=
  match inst.classes[c]? with
  | some k => k.need
  | none => 0

def Instance.need2 (inst : Instance) (c : Nat) : Nat :=
  match inst.classes[c]? with
  | some k => k.need2
  | none => 0

def Instance.weight (inst : Instance) (c : Nat) : Nat :=
  match inst.classes[c]? with
  | some k => k.weight
  | none => 0

def Instance.queue (inst : Instance) (c : Nat) : Ready :=
  match inst.queues[c]? with
  | some q => q
  | none => []

/-- number of ready tasks of a queue at priority `p` -/
def cnt (q : Ready) (p : Int) : Nat :=
  match q with
  | [] => 0
  | (p', ids) :: rest => (if p' = p then ids.length else 0) + cnt rest p

/-- request classes with a non-empty queue, ascending (`task_queues.iter().filter(!is_empty)`) -/
def Instance.readyClasses (inst : Instance) : List Nat :=
  (List.range inst.queues.length).filter fun c => !(inst.queue c).isEmpty

/-! ### priorities of all queues, descending, without duplicates -/

def insertDesc (p : Int) : List Int → List Int
  | [] => [p]
  | q :: rest => if p = q then q :: rest else if q < p then p :: q :: rest else q :: insertDesc p rest

def Instance.prios (inst : Instance) : List Int :=
  (inst.queues.flatMap fun q => q.map (·.1)).foldr insertDesc []

/-! ### batches -/

structure Cut where
  size : Nat
  /-- (blocking class, `some size` | `none` = its limit was reached) -/
  blockers : List (Nat × Option Nat)
  deriving Repr, DecidableEq, Inhabited

structure Batch where
  rq : Nat
  size : Nat := 0
  limit : Nat := 0
  reached : Bool := false
  blocker : Bool := false
  cuts : List Cut := []
  deriving Repr, DecidableEq, Inhabited

/-- `WorkerResources::task_max_count_for_request` over the two kinds: how many tasks needing `(n1, n2)` fit into the
amounts `(a1, a2)`; the minimum runs over the entries of the request, and there is an entry for the second kind iff
`n2 ≠ 0` (a kind the worker lacks has amount 0) -/
def fitCount (a1 a2 n1 n2 : Nat) : Nat := if n2 = 0 then a1 / n1 else min (a1 / n1) (a2 / n2)

/-- `Worker::is_capable_to_run_rqv` (single variant, no time limit): every entry fits into the worker's TOTAL resources -/
def capable (inst : Instance) (c : Nat) (w : Worker) : Bool :=
  inst.need c ≤ w.total && inst.need2 c ≤ w.total2

/-- `Worker::have_immediate_resources_for_rq`: every entry fits into the resources that are free now -/
def fitsNow (inst : Instance) (c : Nat) (w : Worker) : Bool :=
  inst.need c ≤ w.free && inst.need2 c ≤ w.free2

/-- `limit` of a single-node batch: over the workers that can run the class at all, how many tasks fit into
the free resources now, at least one per worker -/
def Instance.limitOf (inst : Instance) (c : Nat) : Nat :=
  (inst.workers.map fun w =>
    if capable inst c w then max 1 (fitCount w.free w.free2 (inst.need c) (inst.need2 c)) else 0).sum

structure MState where
  bs : List Batch
  /-- `unique` of the code, as the request class of the batch -/
  unique : Option Nat := none
  deriving Repr

def Batch.live (b : Batch) : Bool := b.size > 0 || b.reached

/-- `higher_priorities` for batch `c`: all other batches that already hold tasks -/
def blockersOf (bs : List Batch) (c : Nat) : List (Nat × Option Nat) :=
  bs.filterMap fun b =>
    if b.rq ≠ c && b.live then some (b.rq, if b.reached then none else some b.size) else none

def Batch.addLevel (b : Batch) (n : Nat) : Batch :=
  if b.size + n > b.limit then { b with size := b.limit, reached := true } else { b with size := b.size + n }

/-- the batches whose current head has priority `p` -/
def found (inst : Instance) (bs : List Batch) (p : Int) : List Nat :=
  (bs.filter fun b => !b.reached && cnt (inst.queue b.rq) p > 0).map (·.rq)

/-- the `else` branch of the loop: cuts for all found batches (computed from the sizes before this level),
then the sizes grow -/
def cutAndAdd (inst : Instance) (bs : List Batch) (fnd : List Nat) (p : Int) : List Batch :=
  bs.map fun b =>
    let b1 : Batch :=
      if fnd.contains b.rq then
        let bl := blockersOf bs b.rq
        if bl.isEmpty then b else { b with cuts := b.cuts ++ [{ size := b.size, blockers := bl }] }
      else b
    let b2 : Batch := if b.live && fnd.any (· != b.rq) then { b1 with blocker := true } else b1
    if fnd.contains b.rq then b2.addLevel (cnt (inst.queue b.rq) p) else b2

def stepLevel (inst : Instance) (s : MState) (p : Int) : MState :=
  match found inst s.bs p with
  | [] => s
  | [c] =>
    if s.unique = some c then
      { s with bs := s.bs.map fun b => if b.rq = c then b.addLevel (cnt (inst.queue c) p) else b }
    else { bs := cutAndAdd inst s.bs [c] p, unique := some c }
  | fnd => { bs := cutAndAdd inst s.bs fnd p, unique := none }

def Instance.initBatches (inst : Instance) : List Batch :=
  inst.readyClasses.map fun c => { rq := c, limit := inst.limitOf c }

/-! `prune_progressive(cuts, 4, 32)`: keeps the first 4 cuts and 28 more at quadratically growing distance.
The float expression `(t*t*(pool-1)).round()` with `t = i/27` is `round(i²(pool-1)/729)`; 729 is odd, so the
value is never at a rounding boundary and integer arithmetic is exact. -/

def pruneIndices (len : Nat) : List Nat :=
  let pool := len - 4
  let rec go (fuel i last : Nat) : List Nat :=
    match fuel with
    | 0 => []
    | fuel + 1 =>
      let idx0 := 4 + (2 * (i * i * (pool - 1)) + 729) / (2 * 729)
      let idx := if idx0 ≤ last then last + 1 else idx0
      idx :: go fuel (i + 1) idx
  [0, 1, 2, 3] ++ go 28 0 3

def pruneProgressive (l : List α) : List α :=
  if l.length ≤ 32 then l else (pruneIndices l.length).filterMap (l[·]?)

/-- `create_task_batches` -/
def batches (inst : Instance) : List Batch :=
  let fin := inst.prios.foldl (stepLevel inst) { bs := inst.initBatches }
  (fin.bs.map fun b => { b with cuts := pruneProgressive b.cuts }).filter (·.size > 0)

end HqModel.Sched
