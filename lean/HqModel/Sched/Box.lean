import HqModel.Sched.Priority
/-!
M7 Sched, part 4: assignments as association lists and the exhaustive optimum over the integer box, used by the
driver to check the implementation's solution (feasible? optimal?) on every generated instance.

`bruteBest` enumerates the `P`/`R` variables inside their bounds (pruning on the `≤` rows, whose coefficients are
non-negative) and gives every `B` variable the smallest value its `≥` row allows: `B` has weight 0, occurs in
exactly one `≥` row (its own) and otherwise only on the left of `≤` rows, so this choice is feasible whenever
any is and does not change the objective.
-/
namespace HqModel.Sched

def assignOf (l : List (Var × Nat)) : Assign := fun v =>
  match l.find? (·.1 = v) with
  | some e => e.2
  | none => 0

def Row.holdsB (r : Row) (x : Assign) : Bool := if r.ge then r.bound ≤ r.lhs x else r.lhs x ≤ r.bound

def feasibleB (m : Milp) (x : Assign) : Bool :=
  m.rows.all (·.holdsB x) && m.vars.all fun v => !v.1.isBool || x v.1 ≤ 1

def optMax : Option Nat → Option Nat → Option Nat
  | none, b => b
  | a, none => a
  | some a, some b => some (max a b)

/-- values of the `B` variables for fixed `P`, `R` -/
def completeB (m : Milp) (acc : List (Var × Nat)) : List (Var × Nat) :=
  let x := assignOf acc
  (m.vars.filter fun v => match v.1 with | .B .. => true | _ => false).map fun v =>
    let ok0 := (m.rows.filter fun r => r.ge && r.terms.any (·.1 = v.1)).all (·.holdsB x)
    (v.1, if ok0 then 0 else 1)

def bruteGo (m : Milp) (ub : Var → Nat) : List (Var × Nat) → List (Var × Nat) → Option Nat
  | [], acc =>
    let x := assignOf (acc ++ completeB m acc)
    if feasibleB m x then some (objective m x) else none
  | v :: rest, acc =>
    let rec vals (fuel val : Nat) (best : Option Nat) : Option Nat :=
      match fuel with
      | 0 => best
      | fuel + 1 =>
        let acc' := (v.1, val) :: acc
        let x := assignOf acc'
        let here := if (m.rows.all fun r => r.ge || r.holdsB x) then bruteGo m ub rest acc' else none
        vals fuel (val + 1) (optMax best here)
    vals (ub v.1 + 1) 0 none

/-- the best objective over the box, `none` when the MILP is infeasible -/
def bruteBest (m : Milp) (ub : Var → Nat) : Option Nat :=
  bruteGo m ub (m.vars.filter fun v => match v.1 with | .B .. => false | _ => true) []

end HqModel.Sched
