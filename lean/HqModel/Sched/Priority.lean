import HqModel.Sched.Milp
/-!
M7 Sched, part 3: the placement of one round and the property predicate of C15.

A placement is the list of (task id, worker id) pairs dispatched by the round. `ValidPlacement inst x pl` says
that `pl` is a placement `create_task_mapping` can produce from the MILP solution `x`: per request class the
dispatched tasks are the ids `take_tasks` pops for the total count (`HqModel.Core.takeFromQueue`), and every
worker receives as many tasks of a class as its placement variable says (which task goes to which worker
depends on hash-map iteration order in the code, so every such deal is allowed).
-/
namespace HqModel.Sched
open HqModel.Core (TaskId)

structure TaskInfo where
  id : TaskId
  cls : Nat
  prio : Int
  deriving Repr, DecidableEq, Inhabited

/-- the tasks of a ready queue in queue order (descending priority, ascending id) -/
def flatten (c : Nat) (q : Ready) : List TaskInfo :=
  q.flatMap fun e => e.2.map fun t => { id := t, cls := c, prio := e.1 }

/-- all ready tasks -/
def Instance.tasks (inst : Instance) : List TaskInfo :=
  (List.range inst.queues.length).flatMap fun c => flatten c (inst.queue c)

abbrev Placement := List (TaskId × Nat)

def Placement.dispatched (pl : Placement) (t : TaskId) : Bool := pl.any (·.1 = t)

def Placement.on (pl : Placement) (t : TaskId) (w : Nat) : Bool := pl.contains (t, w)

/-- cpus on worker `w` taken by the tasks dispatched there in this round whose priority is at least `p` -/
def keptLoad (inst : Instance) (pl : Placement) (w : Nat) (p : Int) : Nat :=
  ((inst.tasks.filter fun t => pl.on t.id w && decide (p ≤ t.prio)).map fun t => inst.need t.cls).sum

/-- the same for the second resource kind -/
def keptLoad2 (inst : Instance) (pl : Placement) (w : Nat) (p : Int) : Nat :=
  ((inst.tasks.filter fun t => pl.on t.id w && decide (p ≤ t.prio)).map fun t => inst.need2 t.cls).sum

/-- `h` would fit on `w` once the lower-priority tasks dispatched there in this round are left out: EVERY resource
kind it asks for fits -/
def fitsWithoutLower (inst : Instance) (pl : Placement) (h : TaskInfo) (w : Worker) : Bool :=
  !w.blocked.contains h.cls && keptLoad inst pl w.id h.prio + inst.need h.cls ≤ w.free &&
    keptLoad2 inst pl w.id h.prio + inst.need2 h.cls ≤ w.free2

/-- the documented exception: another worker could run `h` but is too busy to start it now -/
def waitsForBusy (inst : Instance) (h : TaskInfo) (w : Worker) : Bool :=
  inst.workers.any fun o => o.id != w.id && capable inst h.cls o && !fitsNow inst h.cls o

/-- a pair that C15 forbids -/
def violatingPair (inst : Instance) (pl : Placement) (h l : TaskInfo) (w : Worker) : Bool :=
  !pl.dispatched h.id && pl.on l.id w.id && decide (l.prio < h.prio) &&
    fitsWithoutLower inst pl h w && !waitsForBusy inst h w

/-- C15: no task is dispatched to a worker while a ready task of strictly higher priority stays undispatched
although it would fit there once the lower-priority tasks dispatched there in this decision are left out —
unless the higher one is kept waiting for another capable worker that is too busy now. -/
def PriorityRespecting (inst : Instance) (pl : Placement) : Prop :=
  ∀ h ∈ inst.tasks, ∀ l ∈ inst.tasks, ∀ w ∈ inst.workers, violatingPair inst pl h l w = false

instance (inst : Instance) (pl : Placement) : Decidable (PriorityRespecting inst pl) := by
  unfold PriorityRespecting; infer_instance

/-! ### placements a solution can lead to -/

/-- number of tasks the solution places for class `c` (sum of `sn_counts[(c, 0)]`) -/
def placedCount (inst : Instance) (x : Assign) (c : Nat) : Nat :=
  (inst.workers.map fun w => if hasP inst w c then x (.P w.id c) else 0).sum

/-- ids `take_tasks(count)` returns for a queue without prefill, `none` when the code would panic -/
def takeIds (q : Ready) (count : Nat) : Option (List TaskId) :=
  match HqModel.Core.takeFromQueue (count + q.length + 1) q count [] with
  | .ok (_, ids) => some ids
  | .error _ => none

def countOn (inst : Instance) (pl : Placement) (w c : Nat) : Nat :=
  (inst.tasks.filter fun t => t.cls = c && pl.on t.id w).length

structure ValidPlacement (inst : Instance) (x : Assign) (pl : Placement) : Prop where
  /-- a task is dispatched at most once -/
  nodup : (pl.map (·.1)).Nodup
  /-- to a worker of the instance -/
  workers : ∀ e ∈ pl, ∃ w ∈ inst.workers, w.id = e.2
  /-- per class: exactly the ids `take_tasks` pops for the count of the solution -/
  taken : ∀ c < inst.queues.length, ∃ ids, takeIds (inst.queue c) (placedCount inst x c) = some ids ∧
      ∀ t ∈ flatten c (inst.queue c), pl.dispatched t.id = true ↔ t.id ∈ ids
  /-- only ready tasks are dispatched -/
  ready : ∀ e ∈ pl, ∃ t ∈ inst.tasks, t.id = e.1
  /-- per worker and class: as many as the placement variable says -/
  counts : ∀ w ∈ inst.workers, ∀ c < inst.queues.length,
      countOn inst pl w.id c = if hasP inst w c then x (.P w.id c) else 0

/-! ### fragments -/

/-- the quantifier of C15 plus the well-formedness every reachable core state has -/
structure Instance.WF (inst : Instance) : Prop where
  /-- workers in ascending id order -/
  workersSorted : inst.workers.Pairwise (·.id < ·.id)
  needPos : ∀ k ∈ inst.classes, 0 < k.need
  weightPos : ∀ k ∈ inst.classes, 0 < k.weight
  sameLen : inst.queues.length = inst.classes.length
  /-- queues as `TaskQueue` keeps them: strictly descending priorities, non-empty levels -/
  queuesSorted : ∀ q ∈ inst.queues, q.Pairwise (fun a b => b.1 < a.1)
  levelsNonempty : ∀ q ∈ inst.queues, ∀ e ∈ q, e.2 ≠ []
  /-- task ids are unique over all queues -/
  idsNodup : (inst.tasks.map (·.id)).Nodup
  freeLeTotal : ∀ w ∈ inst.workers, w.free ≤ w.total

/-- F1: at most one request class has ready tasks (any cluster) -/
def Instance.inF1 (inst : Instance) : Bool := inst.readyClasses.length ≤ 1

/-- F2 (shape): one worker, at most two request classes with ready tasks, all classes with the default weight, at most
32 priority levels (no batch then has more than 32 cuts, so `prune_progressive` drops nothing). The theorem for F2
needs `CpuOnly` in addition (`c15_counterexample_two_resources`: it is false without). -/
def Instance.inF2 (inst : Instance) : Bool :=
  inst.workers.length = 1 && inst.readyClasses.length ≤ 2 && inst.classes.all (·.weight = 10000) &&
    inst.prios.length ≤ 32

/-- the request classes that have ready tasks ask for cpus only (workers may have the second resource kind, tasks
that are already running may use it) -/
def Instance.CpuOnly (inst : Instance) : Prop := ∀ c ∈ inst.readyClasses, inst.need2 c = 0

instance (inst : Instance) : Decidable inst.CpuOnly := by unfold Instance.CpuOnly; infer_instance

/-- F = F1 ∪ (F2 ∩ CpuOnly): the fragment `c15_partial_F` covers -/
def Instance.fragment (inst : Instance) : String :=
  if inst.inF1 then "F1" else if inst.inF2 && decide inst.CpuOnly then "F2" else "out"

end HqModel.Sched
