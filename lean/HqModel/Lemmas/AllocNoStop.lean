import HqModel.Lemmas.AllocReach
import HqModel.Lemmas.AllocPolicy
/-!
`try_allocate` does not stop (no panic, no non-termination) once the admission test has passed — proved for the
entries on list / range / sum resources and for `all`; for the claim procedures on grouped resources (scatter /
compact / tight loops) "does not stop" is a hypothesis.
-/
namespace HqModel.Alloc

/-- the result is not a panic and not a hang (a rejected choice is the environment's fault, not a stop) -/
def NoStop {α} (r : Except Stop α) : Prop := ∀ e, r = .error e → e = .badChoice

theorem NoStop.ok {α} (x : α) : NoStop (.ok x : Except Stop α) := by intro e h; cases h

/-- if the pools part of an allocation went through, `free_resources.remove` does not stop -/
theorem conciseRemove_ok {U} {s s' : State} {rq : Request} {al : Allocation} {h : Nat}
    (hinv : Inv2 U s) (hU : ∀ r g, (U r g).Nodup) (hinv' : Inv U s') (hlive : s'.live = (h, al) :: s.live)
    (hexact : AllExact s.pools rq al) (hkinds : SameKinds s.pools s'.pools) :
    ∃ cs', conciseRemove s.concise al = .ok cs' := by
  -- per-resource data
  let tag : Nat → Nat := fun r => (s.pools[r]?.map Pool.tag).getD 0
  let n : Nat → Nat := fun r => (s.pools[r]?.map Pool.ngroups).getD 0
  let F : Nat → Nat := fun r => (s.pools[r]?.map Pool.sumFree).getD 0
  have hlen := hinv.concise.len
  have hpc0 : ∀ r c, s.concise[r]? = some c → PC (U r) (tag r) (n r) (F r) c (heldOf s.live r) := by
    intro r c hc
    have hr : r < s.pools.length := by rw [← hlen]; exact lt_length_of_getElem? hc
    obtain ⟨p, hp⟩ := exists_get hr
    simpa [tag, n, F, hp] using hinv.concise.pc r p c hp hc
  -- the new allocation's entries are held in s'
  have hheld' : ∀ r, (heldOf s'.live r).Perm (heldOf s.live r ++ raEntries r al) := by
    intro r
    rw [hlive, heldOf_cons]
    exact List.perm_append_comm
  have hra : ∀ ra ∈ al, ra.rid < s.concise.length ∧ RaOk (tag ra.rid) (n ra.rid) ra := by
    intro ra hra
    obtain ⟨p', hp', hne'⟩ := hinv'.rids (h, al) (by rw [hlive]; simp) ra hra
    have hr : ra.rid < s.pools.length := by rw [hkinds.1]; exact lt_length_of_getElem? hp'
    obtain ⟨p, hp⟩ := exists_get hr
    obtain ⟨ht, -, hn⟩ := hkinds.2 ra.rid p p' hp hp'
    have hmem : ∀ e ∈ ra.indices, e ∈ heldOf s'.live ra.rid := by
      intro e he
      rw [hlive, heldOf_cons]
      apply List.mem_append_left
      simp only [raEntries, List.mem_flatMap]
      exact ⟨ra, hra, by simp [he]⟩
    have hkeys := (hinv'.pools.pool ra.rid p' hp').keys
    refine ⟨by rw [hlen]; exact hr, ?_, ?_, ?_, ?_⟩
    · show tag ra.rid ≠ 0
      simp only [tag, hp, Option.map_some, Option.getD_some]
      rw [← ht]
      exact Pool.tag_ne_zero hne'
    · intro e he
      left
      have := (hkeys e (hmem e he)).1
      show e.group < n ra.rid
      simp only [n, hp, Option.map_some, Option.getD_some]
      rw [← hn]; exact this
    · intro ht12 hn1
      simp only [tag, n, hp, Option.map_some, Option.getD_some] at ht12 hn1
      obtain ⟨e, -, p₀, hp₀, hrid, -, hcases⟩ := hexact ra hra
      rw [← hrid, hp] at hp₀
      cases hp₀
      rcases ht12 with h1 | h2
      · rcases hcases with ⟨h3, -⟩ | ⟨-, hs⟩ | ⟨h3, -⟩ | ⟨h3, -⟩
        · omega
        · exact hs
        · omega
        · omega
      · exact absurd hn1 (hinv.shaped.nosingle ra.rid p hp h2)
    · intro ht3
      simp only [tag, hp, Option.map_some, Option.getD_some] at ht3
      match hidx : ra.indices with
      | [] => rfl
      | e :: es =>
        have := (hkeys e (hmem e (by rw [hidx]; simp))).1
        have hp't : p'.tag = 3 := by rw [ht]; exact ht3
        rw [Pool.groupsOf_of_tag3 hp't] at this
        simp at this
  have hb : ∀ r, HeldBound (U r) (heldOf s.live r ++ raEntries r al) := by
    intro r g i
    rw [← heldBy_perm (hheld' r)]
    cases hp' : s'.pools[r]? with
    | none =>
      -- no pool: nothing held
      have hnil : heldOf s'.live r = [] := by
        unfold heldOf raEntries
        simp only [List.flatMap_eq_nil_iff]
        intro x hx ra hra
        split
        · rename_i hrid
          obtain ⟨p, hp, -⟩ := hinv'.rids x hx ra hra
          rw [hrid, hp'] at hp; cases hp
        · rfl
      simp [hnil]
    | some p' =>
      have := (hinv'.pools.pool r p' hp').conserve g i
      omega
  have hsum : ∀ r, tag r = 3 → raAmount r al ≤ F r := by
    intro r ht
    cases hp : s.pools[r]? with
    | none => simp [tag, hp] at ht
    | some p =>
      simp only [tag, hp, Option.map_some, Option.getD_some] at ht
      obtain ⟨p', hp'⟩ := exists_get (show r < s'.pools.length by rw [← hkinds.1]; exact lt_length_of_getElem? hp)
      obtain ⟨ht', hf', -⟩ := hkinds.2 r p p' hp hp'
      cases p with
      | sum full free =>
        cases p' with
        | sum full' free' =>
          simp only [Pool.fullSize] at hf'
          subst hf'
          have h1 := hinv.inv.pools.sum r full' free hp
          have h2 := hinv'.pools.sum r full' free' hp'
          rw [hlive, heldAmount_cons] at h2
          simp only [F, hp, Option.map_some, Option.getD_some, Pool.sumFree]
          omega
        | _ => simp [Pool.tag] at ht'
      | _ => simp [Pool.tag] at ht
  obtain ⟨cs', hcr', -, -⟩ := conciseRemove_pc hU hpc0 hra hb hsum
  exact ⟨cs', hcr'⟩

theorem claimResources_exact {s : State} {rq : Request} {ch : Choices} {sols sols' : List (Option SolRec)}
    {pools' : List Pool} {al : Allocation} (hcl : claimResources s rq ch sols = .ok (pools', al, sols')) :
    AllExact s.pools rq al ∧ SameKinds s.pools pools' := by
  unfold claimResources at hcl
  split at hcl
  · cases hcl
  · rename_i pools1 al1 h1
    obtain ⟨k1, e1⟩ := claimPlain_exact (pools₀ := s.pools) (rq₀ := rq) h1 (SameKinds.refl _)
      (fun _ h => h) (by intro ra hra; cases hra)
    dsimp only at hcl
    by_cases hce : (coupledEntries s.pools rq).isEmpty = true
    · rw [if_pos hce] at hcl
      simp only [Except.ok.injEq, Prod.mk.injEq] at hcl
      obtain ⟨rfl, rfl, -⟩ := hcl
      exact ⟨e1, k1⟩
    · rw [if_neg hce] at hcl
      split at hcl
      · cases hcl
      · split at hcl
        · cases hcl
        · cases hcl
        · split at hcl
          · cases hcl
          · rename_i pools2 al2 h2
            simp only [Except.ok.injEq, Prod.mk.injEq] at hcl
            obtain ⟨rfl, rfl, -⟩ := hcl
            have hsub : ∀ e ∈ coupledEntries s.pools rq, e ∈ rq := by
              intro e he
              exact (List.mem_filter.mp he).1
            obtain ⟨k2, e2⟩ := claimCoupled_exact (rq₀ := rq) h2 k1 hsub e1
            exact ⟨fun ra hra => e2 ra ((normalize_perm' al2).mem_iff.mp hra), k2⟩

theorem claimResources_inv' {U} {s : State} {rq : Request} {ch : Choices} {sols sols' : List (Option SolRec)}
    {pools' : List Pool} {al : Allocation} (h : Nat) (hinv : Inv U s)
    (hcl : claimResources s rq ch sols = .ok (pools', al, sols')) :
    Inv U { s with pools := pools', live := (h, al) :: s.live } := by
  obtain ⟨hb, le⟩ := claimResources_inv hcl hinv.pools
  refine ⟨?_, ?_⟩
  · refine hb.1.congr (fun r => ?_) (fun r => ?_)
    · show (heldOf s.live r ++ raEntries r al).Perm (heldOf ((h, al) :: s.live) r)
      rw [heldOf_cons]
      exact List.perm_append_comm
    · show heldAmount s.live r + raAmount r al = heldAmount ((h, al) :: s.live) r
      rw [heldAmount_cons]; omega
  · intro x hx ra hra
    rcases List.mem_cons.mp hx with rfl | hx
    · exact hb.2 ra hra
    · obtain ⟨p, hp, hne⟩ := hinv.rids x hx ra hra
      exact le _ p hp hne

/-- once `claim_resources` has returned, the rest of `try_allocate` does not stop -/
theorem tryAllocate_after_claim {U} {s : State} {rq : Request} {ch : Choices} {sols sols' : List (Option SolRec)}
    {pools' : List Pool} {al : Allocation} (hinv : Inv2 U s) (hU : ∀ r g, (U r g).Nodup)
    (hcl : claimResources s rq ch sols = .ok (pools', al, sols')) :
    ∃ cs', conciseRemove s.concise al = .ok cs' := by
  obtain ⟨hexact, hkinds⟩ := claimResources_exact hcl
  exact conciseRemove_ok (h := 0) (s' := { s with pools := pools', live := (0, al) :: s.live }) hinv hU
    (claimResources_inv' 0 hinv.inv hcl) rfl hexact hkinds

/-! ### the claims on list / range / sum pools do not stop when the pool contains the amount -/

/-- the group contains the amount: enough whole indices and, for a fractional part, a spare whole index or an index
with at least that fraction free -/
def PoolHas (g : Group) (amount : Nat) : Prop :=
  amount / FPU < g.free.length ∨
    (amount / FPU = g.free.length ∧ (amount % FPU = 0 ∨ ∃ k v, fget g.fracs k = some v ∧ amount % FPU ≤ v))

theorem takeIndices_ok (gid n : Nat) (g : Group) (acc : List AIdx) (h : n ≤ g.free.length) :
    ∃ g' acc', takeIndices gid n g acc = .ok (g', acc') ∧ g'.fracs = g.fracs ∧ g'.free.length + n = g.free.length := by
  induction n generalizing g acc with
  | zero => exact ⟨g, acc, rfl, rfl, rfl⟩
  | succ n ih =>
    cases hfree : g.free with
    | nil => rw [hfree] at h; simp at h
    | cons i rest =>
      have hlen : n ≤ ({ g with free := rest } : Group).free.length := by
        rw [hfree] at h; simp at h ⊢; omega
      obtain ⟨g', acc', hr, hf, hl⟩ := ih { g with free := rest } (acc ++ [⟨i, gid, 0⟩]) hlen
      refine ⟨g', acc', ?_, hf, ?_⟩
      · simp only [takeIndices, hfree]; exact hr
      · simp only [hfree, List.length_cons] at hl ⊢; omega

theorem bestVal_ne_none {m : FMap} {k v fr : Nat} (hget : fget m k = some v) (hle : fr ≤ v) :
    bestVal m fr ≠ none := by
  induction m with
  | nil => simp at hget
  | cons kv m ih =>
    obtain ⟨k', v'⟩ := kv
    simp only [fget] at hget
    simp only [bestVal]
    split at hget
    · simp only [Option.some.injEq] at hget
      subst hget
      split <;> simp [hle]
    · have := ih hget
      split
      · rename_i hn; exact absurd hn this
      · split <;> simp

theorem bestMatch_nostop (m : FMap) (fr : Nat) (pick : Option Nat) : NoStop (bestMatch m fr pick) := by
  intro e h
  unfold bestMatch at h
  split at h
  · cases h
  · split at h
    · split at h
      · split at h
        · cases h
        · cases h; rfl
      · cases h; rfl
    · split at h
      · cases h
      · cases h; rfl

theorem takeFracOrSplit_nostop {gid fr : Nat} {pick : Option Nat} {g : Group} {acc : List AIdx}
    (h : fr = 0 ∨ bestVal g.fracs fr ≠ none ∨ g.free ≠ []) : NoStop (takeFracOrSplit gid fr pick g acc) := by
  intro e he
  unfold takeFracOrSplit at he
  split at he
  · cases he
  · rename_i hne
    split at he
    · rename_i er hb
      simp only [Except.error.injEq] at he
      subst he
      exact bestMatch_nostop _ _ _ _ hb
    · cases he
    · rename_i hb
      split at he
      · rename_i hfree
        rcases h with h | h | h
        · exact absurd h hne
        · exfalso
          apply h
          unfold bestMatch at hb
          split at hb
          · assumption
          · split at hb
            · split at hb
              · split at hb <;> cases hb
              · cases hb
            · split at hb <;> cases hb
        · exact absurd hfree h
      · cases he

theorem claim_indices_nostop {full : Nat} {g : Group} {e : Entry} {pick : Option Nat}
    (h : PoolHas g (e.amountOr full)) : NoStop ((Pool.indices full g).claim e pick) := by
  intro er he
  simp only [Pool.claim] at he
  have hn : e.amountOr full / FPU ≤ g.free.length := by
    rcases h with h | ⟨h, -⟩ <;> omega
  obtain ⟨g1, acc1, h1, hf1, hl1⟩ := takeIndices_ok 0 (e.amountOr full / FPU) g [] hn
  rw [h1] at he
  dsimp only at he
  have h2 : NoStop (takeFracOrSplit 0 (e.amountOr full % FPU) pick g1 acc1) := by
    apply takeFracOrSplit_nostop
    rcases h with h | ⟨h, h0 | ⟨k, v, hget, hle⟩⟩
    · right; right
      intro hnil
      rw [hnil] at hl1
      simp at hl1
      omega
    · exact .inl h0
    · right; left
      rw [hf1]
      exact bestVal_ne_none hget hle
  split at he
  · rename_i er' h2'
    simp only [Except.error.injEq] at he
    subst he
    exact h2 _ h2'
  · cases he

theorem claim_sum_nostop {full free : Nat} {e : Entry} {pick : Option Nat} (h : e.amountOr full ≤ free) :
    NoStop ((Pool.sum full free).claim e pick) := by
  intro er he
  have : ¬ free < e.amountOr full := by omega
  simp [Pool.claim, this] at he

theorem claim_groups_all_nostop {full : Nat} {gs : List Group} {e : Entry} {pick : Option Nat}
    (h : e.policy = .all) : NoStop ((Pool.groups full gs).claim e pick) := by
  intro er he
  simp [Pool.claim, h] at he

theorem fget_of_fracOf_pos {m : FMap} {k v : Nat} (h : fracOf m k = v) (hv : 0 < v) : fget m k = some v := by
  unfold fracOf at h
  cases hg : fget m k with
  | none => rw [hg] at h; simp at h; omega
  | some w => rw [hg] at h; simp at h; rw [h]

/-- admission ⇒ the pool contains the amount (list / range pools) -/
theorem admitted_indices {U} {s : State} (hinv : Inv2 U s) {e : Entry} {full : Nat} {g : Group}
    (hp : s.pools[e.rid]? = some (.indices full g))
    (hadm : entryHasResources s.pools s.concise e = true) : PoolHas g (e.amountOr full) := by
  have hr : e.rid < s.concise.length := by rw [hinv.concise.len]; exact lt_length_of_getElem? hp
  obtain ⟨c, hc⟩ := exists_get hr
  have hpc := hinv.concise.pc e.rid _ c hp hc
  have hpool := hinv.inv.pools.pool e.rid _ hp
  have hlt := concise_vals_lt hinv e.rid _ c hp hc
  rcases hpc with ⟨ht, -⟩ | ⟨-, hci⟩ | ⟨ht, -⟩
  · simp [Pool.tag] at ht
  · obtain ⟨cg, rfl⟩ : ∃ cg, c = [cg] := by
      have := hci.len
      simp only [Pool.ngroups, Pool.groupsOf, List.length_cons, List.length_nil] at this
      match c, this with
      | [cg], _ => exact ⟨cg, rfl⟩
    obtain ⟨hlen, hfr⟩ := group_summary (gs := [g]) (g := 0) hpool rfl
    have hunits : cg.units = g.free.length := by rw [hci.units 0 cg rfl, hlen]
    have hfracs : ∀ i, fracOf cg.fracs i = fracOf g.fracs i := fun i => by rw [hci.fracs 0 cg rfl i, hfr i]
    -- the amount is below `amount_max_alloc`
    have hle : e.amountOr full ≤ CState.maxAlloc [cg] := by
      unfold entryHasResources at hadm
      rw [hp] at hadm
      simp only [hc, Option.getD_some, Pool.fullSize] at hadm
      unfold Entry.amountOr
      cases hpe : e.policy <;> simp only [hpe] at hadm ⊢ <;> first
        | (have := of_decide_eq_true hadm; exact this)
        | (have : CState.maxAlloc [cg] = full := by simpa using hadm
           omega)
    have hF := maxFrac_lt [cg] hlt
    rw [maxAlloc_eq, le_maxAlloc_iff _ _ _ hF] at hle
    have htu : totalUnits [cg] = g.free.length := by simp [totalUnits, hunits]
    rw [htu] at hle
    rcases hle with h1 | ⟨h1, h2⟩
    · exact .inl h1
    · refine .inr ⟨h1, ?_⟩
      rcases Nat.eq_zero_or_pos (e.amountOr full % FPU) with h0 | hpos
      · exact .inl h0
      · right
        obtain ⟨g', hg', kv, hkv, hle'⟩ := (le_maxFrac_iff [cg] _ hpos).mp h2
        simp only [List.mem_cons, List.not_mem_nil, or_false] at hg'
        subst hg'
        have h3 := fget_of_mem (hci.nodup 0 g' rfl) hkv
        have h4 : fracOf g.fracs kv.1 = kv.2 := by rw [← hfracs, fracOf_of_fget h3]
        exact ⟨kv.1, kv.2, fget_of_fracOf_pos h4 (by omega), hle'⟩
  · simp [Pool.tag] at ht

theorem fmax_le {m : FMap} {b : Nat} (h : ∀ kv ∈ m, kv.2 ≤ b) : fmax m ≤ b := by
  rcases fmax_mem m with h0 | ⟨kv, hkv, he⟩
  · omega
  · rw [← he]; exact h kv hkv

/-- admission ⇒ the sum pool contains the amount -/
theorem admitted_sum {U} {s : State} (hinv : Inv2 U s) {e : Entry} {full free : Nat}
    (hp : s.pools[e.rid]? = some (.sum full free))
    (hadm : entryHasResources s.pools s.concise e = true) : e.amountOr full ≤ free := by
  have hr : e.rid < s.concise.length := by rw [hinv.concise.len]; exact lt_length_of_getElem? hp
  obtain ⟨c, hc⟩ := exists_get hr
  have hpc := hinv.concise.pc e.rid _ c hp hc
  rcases hpc with ⟨ht, -⟩ | ⟨ht, -⟩ | ⟨-, cg, rfl, hu, hf, hnd⟩
  · simp [Pool.tag] at ht
  · rcases ht with h | h <;> simp [Pool.tag] at h
  · simp only [Pool.sumFree] at hu hf
    have hmax : CState.maxAlloc [cg] ≤ free := by
      have hfm : fmax cg.fracs ≤ free % FPU := by
        apply fmax_le
        intro kv hkv
        have h1 := fget_of_mem hnd hkv
        have h2 := hf kv.1
        rw [fracOf_of_fget h1] at h2
        rw [h2]
        split <;> omega
      have : CState.maxAlloc [cg] = cg.units * FPU + max 0 (fmax cg.fracs) := by
        simp [CState.maxAlloc]
      rw [this, hu]
      have := Nat.div_add_mod free FPU
      have hm : max 0 (fmax cg.fracs) = fmax cg.fracs := Nat.max_eq_right (Nat.zero_le _)
      rw [hm]
      unfold FPU at *
      omega
    unfold entryHasResources at hadm
    rw [hp] at hadm
    simp only [hc, Option.getD_some, Pool.fullSize] at hadm
    unfold Entry.amountOr
    cases hpe : e.policy <;> simp only [hpe] at hadm ⊢ <;> first
      | (have := of_decide_eq_true hadm; omega)
      | (have : CState.maxAlloc [cg] = full := by simpa using hadm
         omega)

/-! ### `claim_resources` / `try_allocate` -/

/-- the first loop of `claim_resources` does not stop if every plain claim on the pool the entry addresses does not
(resource ids distinct, so a pool is untouched until its entry is processed) -/
theorem claimPlain_nostop {picks : Choices} {pools : List Pool} {rq : Request} {al : Allocation}
    (hnd : (rq.map (·.rid)).Nodup)
    (h : ∀ e ∈ rq, ∃ pool, pools[e.rid]? = some pool ∧
      ((pool.isGroups && e.policy.relevantForCoupling) = true ∨ NoStop (pool.claim e (picks.pick e.rid)))) :
    NoStop (claimPlain picks pools rq al) := by
  induction rq generalizing pools al with
  | nil => exact NoStop.ok _
  | cons e es ih =>
    obtain ⟨hne, hnd'⟩ := List.nodup_cons.mp hnd
    obtain ⟨pool, hp, hcl⟩ := h e (by simp)
    have hrest : ∀ pools' : List Pool, (∀ r : Nat, r ≠ e.rid → pools'[r]? = pools[r]?) →
        ∀ e' ∈ es, ∃ pool' : Pool, pools'[e'.rid]? = some pool' ∧
          ((pool'.isGroups && e'.policy.relevantForCoupling) = true ∨
            NoStop (pool'.claim e' (picks.pick e'.rid))) := by
      intro pools' hsame e' he'
      obtain ⟨pool', hp', hcl'⟩ := h e' (List.mem_cons_of_mem _ he')
      have hrid : e'.rid ≠ e.rid := by
        intro heq
        apply hne
        exact List.mem_map.mpr ⟨e', he', heq⟩
      exact ⟨pool', by rw [hsame _ hrid]; exact hp', hcl'⟩
    simp only [claimPlain, hp]
    by_cases hc : (pool.isGroups && e.policy.relevantForCoupling) = true
    · rw [if_pos hc]
      exact ih hnd' (hrest pools (fun _ _ => rfl))
    · rw [if_neg hc]
      rcases hcl with hcl | hcl
      · exact absurd hcl hc
      · cases hr : pool.claim e (picks.pick e.rid) with
        | error er =>
          intro e' he'
          simp only [Except.error.injEq] at he'
          subst he'
          exact hcl _ hr
        | ok v =>
          obtain ⟨pool', ra⟩ := v
          dsimp only
          apply ih hnd'
          apply hrest
          intro r hr'
          simp only [setPool]
          rw [List.getElem?_set_ne (fun h => hr' h.symm)]

/-- **`try_allocate` does not stop** in a state satisfying the full invariant, for a request with distinct resource
ids whose entries address list / range / sum pools with any policy, or grouped pools with `all` / `scatter` (no entry
goes through the group solver; for the grouped claims themselves "does not stop" is the premise `hgclaim`, discharged
in `AllocScatter.lean`), and no entry addresses a resource the worker does not have (`Empty` pool — excluded
upstream by `is_capable_to_run_request`; `all` on such a pool passes the test with `0 == 0` and hits `unreachable!()`). -/
theorem tryAllocate_nostop {U} {s : State} (hinv : Inv2 U s) (hU : ∀ r g, (U r g).Nodup) (h : Nat) (rq : Request)
    (ch : Choices) (hnd : (rq.map (·.rid)).Nodup)
    (hplain : ∀ e ∈ rq, ∀ full gs, s.pools[e.rid]? = some (.groups full gs) →
      e.policy = .all ∨ e.policy = .scatter)
    (hgclaim : ∀ e ∈ rq, ∀ full gs, s.pools[e.rid]? = some (.groups full gs) →
      entryHasResources s.pools s.concise e = true → NoStop ((Pool.groups full gs).claim e (ch.pick e.rid)))
    (hcap : ∀ e ∈ rq, s.pools[e.rid]? ≠ some .empty) :
    NoStop (tryAllocate s h rq ch) := by
  -- no entry goes through the group solver
  have hcoupled : coupledEntries s.pools rq = [] := by
    unfold coupledEntries
    rw [List.filter_eq_nil_iff]
    intro e he
    cases hp : s.pools[e.rid]? with
    | none => simp
    | some pool =>
      cases pool with
      | groups full gs =>
        rcases hplain e he full gs hp with h | h <;> simp [Pool.isGroups, h, Policy.relevantForCoupling]
      | _ => simp [Pool.isGroups]
  intro er herr
  unfold tryAllocate at herr
  -- the admission test
  have hhas : ∀ sols, hasResources s rq sols =
      .ok (rq.all (entryHasResources s.pools s.concise), s.cache, sols) := by
    intro sols
    unfold hasResources
    by_cases h1 : (!rq.all (entryHasResources s.pools s.concise)) = true
    · rw [if_pos h1]
      have : rq.all (entryHasResources s.pools s.concise) = false := by simpa using h1
      rw [this]
    · rw [if_neg h1]
      dsimp only
      rw [hcoupled]
      have : rq.all (entryHasResources s.pools s.concise) = true := by simpa using h1
      simp [this]
  rw [hhas] at herr
  cases hall : rq.all (entryHasResources s.pools s.concise) with
  | false =>
    rw [hall] at herr
    cases hs : ch.sols with
    | nil => rw [hs] at herr; simp at herr
    | cons x xs => rw [hs] at herr; simp at herr; exact herr.symm
  | true =>
    rw [hall] at herr
    dsimp only at herr
    have hentries : ∀ e ∈ rq, entryHasResources s.pools s.concise e = true := List.all_eq_true.mp hall
    -- the claims
    have hclaims : NoStop (claimPlain ch s.pools rq []) := by
      apply claimPlain_nostop hnd
      intro e he
      have hadm := hentries e he
      cases hp : s.pools[e.rid]? with
      | none => simp [entryHasResources, hp] at hadm
      | some pool =>
        refine ⟨pool, rfl, .inr ?_⟩
        cases pool with
        | empty => exact absurd hp (hcap e he)
        | indices full g => exact claim_indices_nostop (admitted_indices hinv hp hadm)
        | groups full gs => exact hgclaim e he full gs hp hadm
        | sum full free => exact claim_sum_nostop (admitted_sum hinv hp hadm)
    unfold claimResources at herr
    cases hcp : claimPlain ch s.pools rq [] with
    | error er' =>
      rw [hcp] at herr
      simp only [Except.error.injEq] at herr
      subst herr
      exact hclaims _ hcp
    | ok v =>
      obtain ⟨pools1, al1⟩ := v
      rw [hcp] at herr
      dsimp only at herr
      rw [hcoupled] at herr
      simp only [List.isEmpty_nil, if_true] at herr
      have hcl : claimResources s rq ch ch.sols = .ok (pools1, al1, ch.sols) := by
        unfold claimResources
        rw [hcp]
        dsimp only
        rw [hcoupled]
        simp
      obtain ⟨cs', hcr⟩ := tryAllocate_after_claim hinv hU hcl
      cases hs : ch.sols with
      | nil => rw [hs] at herr; simp [hcr] at herr
      | cons x xs => rw [hs] at herr; simp at herr; exact herr.symm

end HqModel.Alloc
