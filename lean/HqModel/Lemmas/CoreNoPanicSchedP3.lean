import HqModel.Lemmas.CoreNoPanicSchedP2
/-!
C09 progress, the scheduling round, part 3: one call of `take_tasks_for_prefill` + retain (`prefillWorker`).

* `prefillBack_keep` : the ids the `back` loop keeps are not Retracting;
* `prefillRest_ok` : from `NpJ taken s1` (the state after the queue update), `Inv s1`, a single-node worker `w` and
  "every taken id is in the prefill list of queue `rq`": the loops `back` and `mark` succeed;
* **`prefillWorker_ok`** : `Inv s`, `NpQ noD [] s`, `HeadOk s rq p k` (first entry exists, prefill priority agrees),
  `SnW s w` ⇒ `∃ r, s.prefillWorker m rq size w = .ok r`;
* forward worker frames `prefillMark_snw`, `prefillWorker_snw`; the bundle after one call `prefillWorker_bd`.
-/
namespace HqModel.Core.NPS

open HqModel.Core.NP HqModel.Core.NPD HqModel.Core.NPA

/-! ### the `back` loop keeps only ids that are not Retracting -/

theorem prefillBack_keep (rq : Nat) : ∀ (l : List TaskId) (s s' : State) (keep keep' : List TaskId),
    State.prefillWorker.back rq s l keep = .ok (s', keep') →
    (∀ id ∈ keep, ∀ t, findTask s.tasks id = some t → ∀ w, t.state ≠ .retracting w) →
    ∀ id ∈ keep', ∀ t, findTask s.tasks id = some t → ∀ w, t.state ≠ .retracting w
  | [], s, s', keep, keep', h, hk => by
    simp only [State.prefillWorker.back] at h; cases h; exact hk
  | id :: rest, s, s', keep, keep', h, hk => by
    simp only [State.prefillWorker.back] at h
    split at h
    · cases h
    · rename_i t hgt
      split at h
      · split at h
        · cases h
        · rename_i s2 hm
          have ht := movePrefilledToReady_tasks hm
          have := prefillBack_keep rq rest s2 s' keep keep' h (by rw [ht]; exact hk)
          rw [ht] at this; exact this
      · rename_i hnr
        refine prefillBack_keep rq rest s s' _ keep' h ?_
        intro x hx t' ht' w0 e
        rcases List.mem_append.mp hx with hx | hx
        · exact hk x hx t' ht' w0 e
        · simp only [List.mem_singleton] at hx; subst hx
          rw [getTask_spec hgt] at ht'; cases ht'
          exact hnr w0 e

/-! ### `back` and `mark` succeed -/

theorem prefillRest_ok {s1 : State} {rq w : Nat} {taken : List TaskId} (hJ : NpJ taken s1) (hi : Inv s1)
    (hw : SnW s1 w)
    (hpf : ∀ id ∈ taken, ∃ q pp ts, s1.queues[rq]? = some q ∧ q.prefill = some (pp, ts) ∧ id ∈ ts) :
    ∃ s2 keep, State.prefillWorker.back rq s1 taken [] = .ok (s2, keep) ∧
      ∃ s3, State.prefillWorker.mark w s2 keep = .ok s3 := by
  have hin : ∀ id ∈ taken, (s1.task? id).isSome = true := by
    intro id hid
    obtain ⟨t, ht, _⟩ := hJ.pending hid
    rw [ht]; rfl
  obtain ⟨⟨s2, keep⟩, hb⟩ := prefillBack_ok rq taken s1 [] hJ.knd hin hpf
  refine ⟨s2, keep, hb, ?_⟩
  have hJ2 : NpJ keep s2 := prefillBack_npj rq taken s1 s2 [] keep (by simpa using hJ) hb
  obtain ⟨hce, _, _⟩ := prefillBack_spec rq taken s1 s2 [] keep hb
  have hnr := prefillBack_keep rq taken s1 s2 [] keep hb (fun _ h => by cases h)
  -- the kept ids are Waiting
  have hwait : ∀ id ∈ keep, ∃ t n, s2.task? id = some t ∧ t.state = .waiting n := by
    intro id hid
    obtain ⟨t, ht, _, hs⟩ := hJ2.pending hid
    rcases hs with a | ⟨⟨w0, a⟩, _⟩
    · exact ⟨t, 0, ht, a⟩
    · have ht1 : findTask s1.tasks id = some t := by rw [← hce.t]; exact ht
      exact absurd a (hnr id hid t ht1 w0)
  obtain ⟨wk, A, F, P, hfw, ha⟩ := hw
  refine prefillMark_ok w keep s2 hJ2.knd hwait ⟨wk, A, F, P, by rw [worker?_eq, hce.w]; exact hfw, ha, ?_⟩
  intro id hid hm
  obtain ⟨t, n, ht, hs⟩ := hwait id hid
  have hpre : id ∈ preW s1.workers w := by
    rw [preW_of_find hfw]; simp only [wPre, ha]; exact hm
  have := hi.ls.a2 w id hpre
  have ht1 : findTask s1.tasks id = some t := by rw [← hce.t]; exact ht
  rw [stOf_of_find ht1, hs] at this
  cases this

/-- **one call of `take_tasks_for_prefill` + retain succeeds** -/
theorem prefillWorker_ok {s : State} {m : List WUpdate} {rq size w : Nat} {p : Int} {k : Nat}
    (hi : Inv s) (hq : NpQ noD [] s) (hh : HeadOk s rq p k) (hw : SnW s w) :
    ∃ r, s.prefillWorker m rq size w = .ok r := by
  obtain ⟨q, ids, rest, hqi, hr, _, hpp⟩ := hh
  have hlt : rq < s.queues.length := by
    rcases Nat.lt_or_ge rq s.queues.length with h | h
    · exact h
    · rw [List.getElem?_eq_none h] at hqi; cases hqi
  simp only [State.prefillWorker]
  split
  · rename_i hnone; rw [hqi] at hnone; cases hnone
  · rename_i q' hq'
    rw [hqi] at hq'; cases hq'
    split
    · rename_i hnil; rw [hr] at hnil; cases hnil
    · rename_i p' ids0 more hready
      have hp' : p' = p := by rw [hr] at hready; cases hready; rfl
      subst hp'
      split
      · rename_i e he
        exfalso
        split at he
        · rename_i pp ts hpre
          have := hpp pp ts hpre
          subst this
          simp at he
        · cases he
      · rename_i pf hpf
        have hJ := npj_start (size := size) hq hqi hready hpf
        have hpf1 : ∀ id ∈ (takeFromFirst q.ready size).2, ∃ q1 pp ts,
            ({ s with queues := s.queues.set rq { ready := (takeFromFirst q.ready size).1, prefill := some pf } } :
              State).queues[rq]? = some q1 ∧ q1.prefill = some (pp, ts) ∧ id ∈ ts := by
          intro id hid
          refine ⟨_, pf.1, pf.2, List.getElem?_set_self hlt, rfl, ?_⟩
          split at hpf
          · split at hpf
            · cases hpf
            · cases hpf; exact List.mem_append.mpr (Or.inr hid)
          · cases hpf; exact hid
        obtain ⟨s2, keep, hb, s3, hm⟩ := prefillRest_ok (w := w) hJ hi (hw.congr rfl) hpf1
        rw [hb]
        simp only
        rw [hm]
        exact ⟨_, rfl⟩

/-! ### forward worker frames -/

theorem prefillMark_snw (w : Nat) : ∀ (l : List TaskId) (s s' : State),
    State.prefillWorker.mark w s l = .ok s' → ∀ {x : Nat}, SnW s x → SnW s' x
  | [], s, s', h, x, hx => by simp only [State.prefillWorker.mark] at h; cases h; exact hx
  | id :: rest, s, s', h, x, hx => by
    simp only [State.prefillWorker.mark] at h
    split at h
    · cases h
    · split at h
      · split at h
        · cases h
        · rename_i s2 h2
          exact prefillMark_snw w rest s2 s' h (SnW.withWorker (snop_insertPrefill _) h2 (hx.congr rfl))
      · cases h

theorem prefillWorker_snw {s s' : State} {m m' : List WUpdate} {rq size w : Nat}
    (h : s.prefillWorker m rq size w = .ok (s', m')) {x : Nat} (hx : SnW s x) : SnW s' x := by
  simp only [State.prefillWorker] at h
  split at h
  · cases h
  · split at h
    · cases h
    · split at h
      · cases h
      · split at h
        · cases h
        · rename_i s2 keep hb
          obtain ⟨hce, _, _⟩ := prefillBack_spec _ _ _ _ _ _ hb
          split at h
          · cases h
          · rename_i s3 hm
            cases h
            exact prefillMark_snw w _ _ _ hm ((hx.congr rfl).congr hce.w)

/-! ### the bundle after one call -/

theorem prefillWorker_bd {s0 s s' : State} {m m' : List WUpdate} {rq size w : Nat}
    (hb : Bd s0 s) (hq0 : QueueOk s0) (hmn : s.isMultiNode rq = false)
    (h : s.prefillWorker m rq size w = .ok (s', m')) : Bd s0 s' := by
  obtain ⟨a, b⟩ := prefillWorker_inv hq0 hb.inv hb.trk h
  have f : FrQ False s s' := prefillWorker_fr hb.qrq hmn h
  exact ⟨a, prefillWorker_tw hb.tw h, b, f.fr.np3 hb.np3, prefillWorker_npq hb.q hb.nd h, f.qrq hb.qrq⟩

end HqModel.Core.NPS
