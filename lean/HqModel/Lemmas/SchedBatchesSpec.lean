import HqModel.Lemmas.SchedLink
/-!
Lemmas for C15, part 12: `batches inst` satisfies its closed-form specification `BatchesSpec` whenever there are at
most 32 priority levels (then no batch has more than 32 cuts and `prune_progressive` is the identity).
-/
namespace HqModel.Sched

theorem init_inv (inst : Instance) : Inv inst [] { bs := inst.initBatches } := by
  refine ⟨?_, ?_, ?_, ?_, ?_, ?_, ?_, ?_⟩
  · simp [Instance.initBatches, List.map_map, Function.comp_def]
  · intro b hb
    simp only [Instance.initBatches, List.mem_map] at hb
    obtain ⟨c, _, rfl⟩ := hb
    rfl
  · intro b hb _
    simp only [Instance.initBatches, List.mem_map] at hb
    obtain ⟨c, _, rfl⟩ := hb
    simp [N]
  · intro b hb hre
    simp only [Instance.initBatches, List.mem_map] at hb
    obtain ⟨c, _, rfl⟩ := hb
    cases hre
  · intro b hb cut hcut
    simp only [Instance.initBatches, List.mem_map] at hb
    obtain ⟨c, _, rfl⟩ := hb
    simp at hcut
  · intro b _ pre p post h
    simp at h
  · intro b hb
    simp only [Instance.initBatches, List.mem_map] at hb
    obtain ⟨c, _, rfl⟩ := hb
    simp
  · intro c hc
    cases hc

theorem filter_map_comm {α β} (r : α → β) (P : α → Bool) (Q : β → Bool) : ∀ (l : List α),
    (∀ a ∈ l, P a = Q (r a)) → (l.filter P).map r = (l.map r).filter Q
  | [], _ => rfl
  | a :: rest, h => by
    have ih := filter_map_comm r P Q rest fun a' ha' => h a' (by simp [ha'])
    have ha := h a (by simp)
    simp only [List.filter_cons, List.map_cons, ha]
    cases Q (r a) <;> simp [ih]

theorem total_pos {inst : Instance} (hne : ∀ q ∈ inst.queues, ∀ e ∈ q, e.2 ≠ []) {c : Nat}
    (hc : c ∈ inst.readyClasses) : 0 < total inst c := by
  simp only [Instance.readyClasses, List.mem_filter, List.mem_range, Bool.not_eq_true'] at hc
  obtain ⟨hlt, hq⟩ := hc
  cases hqc : inst.queue c with
  | nil => rw [hqc] at hq; simp at hq
  | cons e rest =>
    have he : e ∈ inst.queue c := by rw [hqc]; simp
    have hids := hne _ (queue_mem hlt) e he
    cases hid : e.2 with
    | nil => exact absurd hid hids
    | cons t ts =>
      have hmem : ({ id := t, cls := c, prio := e.1 } : TaskInfo) ∈ inst.tasks := by
        apply mem_tasks.mpr ⟨c, hlt, ?_⟩
        simp only [flatten, List.mem_flatMap, List.mem_map]
        exact ⟨e, he, t, by rw [hid]; simp, rfl⟩
      unfold total
      apply List.length_pos_of_mem (a := { id := t, cls := c, prio := e.1 })
      simp [List.mem_filter, hmem]

/-- `create_task_batches` meets its closed-form specification -/
theorem batches_spec {inst : Instance} (hne : ∀ q ∈ inst.queues, ∀ e ∈ q, e.2 ≠ [])
    (hlv : inst.prios.length ≤ 32) : BatchesSpec inst (batches inst) := by
  have hinv : Inv inst inst.prios (inst.prios.foldl (stepLevel inst) { bs := inst.initBatches }) := by
    simpa using foldl_inv inst.prios [] _ (init_inv inst)
  generalize hfin : inst.prios.foldl (stepLevel inst) { bs := inst.initBatches } = fin at hinv
  -- pruning is the identity
  have hprune : ∀ b ∈ fin.bs, ({ b with cuts := pruneProgressive b.cuts } : Batch) = b := by
    intro b hb
    have hlen := (hinv.sizes b hb).2.2
    have : pruneProgressive b.cuts = b.cuts := by
      unfold pruneProgressive
      rw [if_pos (by omega)]
    rw [this]
  have hbat : batches inst = fin.bs.filter (fun b => decide (b.size > 0)) := by
    unfold batches
    simp only [hfin]
    congr 1
    rw [List.map_congr_left hprune]
    simp
  rw [hbat]
  have hmem : ∀ {b : Batch}, b ∈ fin.bs.filter (fun b => decide (b.size > 0)) → b ∈ fin.bs :=
    fun hb => (List.mem_filter.mp hb).1
  refine ⟨?_, ?_, ?_, ?_, ?_, ?_, ?_⟩
  · -- classes
    rw [← hinv.rqs]
    apply filter_map_comm (fun b : Batch => b.rq)
    intro b hb
    have hlim := hinv.limit b hb
    have hrc : b.rq ∈ inst.readyClasses := by
      rw [← hinv.rqs]; exact List.mem_map.mpr ⟨b, hb, rfl⟩
    have htot := total_pos hne hrc
    cases hre : b.reached with
    | true =>
      obtain ⟨h1, _⟩ := hinv.closed b hb hre
      rw [h1, hlim]
    | false =>
      obtain ⟨h1, h2⟩ := hinv.open_ b hb hre
      rw [N_total] at h1
      have e1 : decide (b.size > 0) = true := by simp; omega
      have e2 : decide (inst.limitOf b.rq > 0) = true := by simp; omega
      rw [e1, e2]
  · intro b hb; exact hinv.limit b (hmem hb)
  · intro b hb hre
    obtain ⟨h1, h2⟩ := hinv.closed b (hmem hb) hre
    rw [N_total] at h2
    exact ⟨h1, h2⟩
  · intro b hb hre
    obtain ⟨h1, h2⟩ := hinv.open_ b (hmem hb) hre
    rw [N_total] at h1
    exact ⟨h1, h2⟩
  · intro b hb cut hcut
    obtain ⟨pre, p, post, hsplit, hcnt, h1, h2, h3⟩ := hinv.sound b (hmem hb) cut hcut
    obtain ⟨t, ht, htc, htp⟩ := exists_task_of_cnt hcnt
    subst htp
    exact ⟨t, ht, htc, by rw [h1, N_above _ hsplit], h2, by rw [h3, blockersAtN_eq _ hsplit]⟩
  · intro b hb t ht htc hle hbl
    obtain ⟨pre, post, hsplit⟩ := List.append_of_mem (task_prio_mem ht)
    have hcnt : cnt (inst.queue b.rq) t.prio > 0 := by rw [← htc]; exact cnt_pos_of_task ht
    obtain ⟨cut, hcut, h1, h2⟩ := hinv.exists_ b (hmem hb) pre t.prio post hsplit hcnt
      (by rw [N_above _ hsplit]; exact hle) (by rw [blockersAtN_eq _ hsplit]; exact hbl)
    exact ⟨cut, hcut, by rw [← N_above _ hsplit]; exact h1, by rw [← blockersAtN_eq _ hsplit]; exact h2⟩
  · intro b hb; exact (hinv.sizes b (hmem hb)).2.1

/-! `pruneProgressive` against the two vectors of the Rust unit test `test_prune_progressive` -/

example : pruneProgressive (List.range 1000) =
    [0, 1, 2, 3, 4, 5, 9, 16, 26, 38, 53, 71, 91, 115, 140, 169, 201, 235, 272, 311, 353, 398, 446, 497, 550, 606,
     665, 726, 790, 857, 927, 999] := by decide +kernel

example : pruneProgressive (List.range 40) =
    [0, 1, 2, 3, 4, 5, 6, 7, 8, 9, 10, 11, 12, 13, 14, 15, 16, 17, 18, 19, 20, 21, 22, 23, 24, 25, 27, 29, 32, 34,
     36, 39] := by decide +kernel

end HqModel.Sched
