import HqModel.Lemmas.AutoAllocSubmit
/-!
The scheduling tick as a whole (C17 `c17_silent`, `c17_pause`, `c17_resume_live`).
-/
namespace HqModel.AutoAlloc

theorem State.activeIn_nodup (s : State) (order : List Nat) (h : order.Nodup) : (s.activeIn order).Nodup :=
  List.Nodup.sublist List.filter_sublist h

/-- a queue that is active after the pausing pass was not touched by it -/
theorem State.pauseAll_active (s : State) (x : Nat) (qu : Queue) (h : s.pauseAll.getQueue x = some qu)
    (ha : qu.active = true) : s.getQueue x = some qu := by
  rw [State.getQueue_pauseAll] at h
  cases hq : s.getQueue x with
  | none => rw [hq] at h; cases h
  | some q0 =>
    rw [hq] at h
    simp only [Option.map_some, Option.some.injEq] at h
    subst h
    rw [Queue.tryPause_active q0 ha]

/-- Everything that holds when the tick calls `submit_allocation(x, n)`. -/
theorem State.tick_submit (s : State) (now : Nat) (order : List Nat) (query : Query) (results : List SubRes)
    (x n : Nat) (hnd : order.Nodup) (h : Out.submit x n ∈ (s.tick now order query results).outs) :
    ∃ qu sn mn responses resp p,
      s.getQueue x = some qu ∧ qu.active = true ∧ qu.lim.limitsReached = false ∧ qu.lim.elapsed now = true ∧
      qu.hasSpace = true ∧ query = .ok sn mn ∧ mergeMn mn (sn.map fun k => ⟨k, 0, 0⟩) = .ok responses ∧
      (resp, x) ∈ responses.zip (s.pauseAll.activeIn order) ∧ resp.isEmpty = false ∧
      qu.permit resp = .ok p ∧ n ∈ p := by
  unfold State.tick at h
  simp only at h
  split at h
  · simp at h
  · split at h
    · simp at h
    · split at h
      · simp at h
      · split at h
        · simp at h
        · simp at h
        · rename_i sn mn
          split at h
          · simp at h
          · rename_i responses hmerge
            have hsub : Out.submit x n ∈ (submitAll now (responses.zip (s.pauseAll.activeIn order))
                ⟨s.pauseAll, [Out.query (s.pauseAll.activeIn order).length], results, none⟩).outs := by
              split at h
              · exact h
              · simp only [List.mem_append, List.mem_singleton] at h
                rcases h with (h | h) | h
                · exact h
                · split at h <;> simp at h
                · cases h
            rcases submitAll_submit now _ _ x n
                (zip_snd_nodup _ _ (State.activeIn_nodup _ _ hnd)) hsub with h0 | ⟨r, qu, res, hmem, hq, hts⟩
            · simp at h0
            · obtain ⟨_, hne, hact, hst, p, hp, hn⟩ := Queue.trySubmit_submit _ _ _ _ _ _ hts
              obtain ⟨hl, hel⟩ := Limiter.status_ok _ _ hst
              have hpne : p ≠ [] := by intro hp0; subst hp0; cases hn
              exact ⟨qu, sn, mn, responses, r, p, State.pauseAll_active s x qu hq hact, hact, hl, hel,
                Queue.permit_hasSpace qu r p hp hpne, rfl, hmerge, hmem, hne, hp, hn⟩

/-- the possible shapes of the state after a tick -/
theorem State.tick_cases (s : State) (now : Nat) (order : List Nat) (query : Query) (results : List SubRes) :
    (s.hasActiveQueues = false ∧ (s.tick now order query results).st = s) ∨
    (∃ st : State, (s.tick now order query results).st = st.pauseAll) ∨
    (s.tick now order query results).panic ≠ none := by
  unfold State.tick
  simp only
  split
  · rename_i h
    exact .inl ⟨by simpa using h, rfl⟩
  · split
    · exact .inr (.inl ⟨s, rfl⟩)
    · split
      · exact .inr (.inl ⟨s, rfl⟩)
      · split
        · exact .inr (.inl ⟨s, rfl⟩)
        · exact .inr (.inl ⟨s, rfl⟩)
        · split
          · exact .inr (.inr (by simp))
          · split
            · exact .inr (.inr (by simp))
            · exact .inr (.inl ⟨_, rfl⟩)

/-- At the end of every tick that does not panic, every queue whose failure counters reached a limit is paused. -/
theorem State.tick_paused (s : State) (now : Nat) (order : List Nat) (query : Query) (results : List SubRes)
    (hnp : (s.tick now order query results).panic = none) :
    ∀ q ∈ (s.tick now order query results).st.queues, q.lim.limitsReached = true → q.active = false := by
  rcases State.tick_cases s now order query results with ⟨hna, hst⟩ | ⟨st, hst⟩ | hp
  · rw [hst]
    intro q hq _
    simp only [State.hasActiveQueues, List.any_eq_false] at hna
    simpa using hna q hq
  · rw [hst]; exact State.pauseAll_spec st
  · exact absurd hnp hp

/-- the main path of the tick: some queue is active and has space, the scheduler answered -/
theorem State.tick_main (s : State) (now : Nat) (order : List Nat) (sn : List Nat) (mn : List (Nat × Nat × Nat))
    (results : List SubRes) (responses : List QResp) (x : Nat) (qx : Queue)
    (h1 : s.hasActiveQueues = true) (hx : x ∈ s.pauseAll.activeIn order) (hqx : s.pauseAll.getQueue x = some qx)
    (hsp : qx.hasSpace = true) (hm : mergeMn mn (sn.map fun k => ⟨k, 0, 0⟩) = .ok responses) :
    s.tick now order (.ok sn mn) results =
      (match (submitAll now (responses.zip (s.pauseAll.activeIn order))
          ⟨s.pauseAll, [Out.query (s.pauseAll.activeIn order).length], results, none⟩).panic with
      | some p =>
        ⟨(submitAll now (responses.zip (s.pauseAll.activeIn order))
            ⟨s.pauseAll, [Out.query (s.pauseAll.activeIn order).length], results, none⟩).st,
         (submitAll now (responses.zip (s.pauseAll.activeIn order))
            ⟨s.pauseAll, [Out.query (s.pauseAll.activeIn order).length], results, none⟩).outs, some p⟩
      | none =>
        ⟨(submitAll now (responses.zip (s.pauseAll.activeIn order))
            ⟨s.pauseAll, [Out.query (s.pauseAll.activeIn order).length], results, none⟩).st.pauseAll,
         (submitAll now (responses.zip (s.pauseAll.activeIn order))
            ⟨s.pauseAll, [Out.query (s.pauseAll.activeIn order).length], results, none⟩).outs ++
          (if (submitAll now (responses.zip (s.pauseAll.activeIn order))
            ⟨s.pauseAll, [Out.query (s.pauseAll.activeIn order).length], results, none⟩).results.isEmpty then []
           else [.bad "unused-submit-results"]) ++ [.tickRes .ok], none⟩) := by
  unfold State.tick
  simp only
  split
  · rename_i h
    simp [h1] at h
  · split
    · rename_i h
      rw [List.isEmpty_iff] at h
      rw [h] at hx; cases hx
    · split
      · rename_i h
        rw [List.all_eq_true] at h
        have := h x hx
        rw [hqx] at this
        simp [hsp] at this
      · simp only [hm]
        split <;> rename_i hp <;> simp only [hp]

/-- The first tick after `resume` with demand, room and elapsed back-off calls `submit_allocation`
(for a `resume` that clears both failure counters: bits 0 and 1 of the probed mask). -/
theorem State.resume_tick_live (s : State) (x : Nat) (q : Queue) (now : Nat) (order : List Nat)
    (sn : List Nat) (mn : List (Nat × Nat × Nat)) (results : List SubRes) (responses : List QResp) (resp : QResp)
    (n : Nat) (rest : List Nat)
    (hmask : s.consts.resumeMask.testBit 0 = true ∧ s.consts.resumeMask.testBit 1 = true)
    (hq : s.getQueue x = some q)
    (hpos : 0 < q.lim.maf ∧ 0 < q.lim.msf)
    (hnd : order.Nodup)
    (hmerge : mergeMn mn (sn.map fun k => ⟨k, 0, 0⟩) = .ok responses)
    (hresp : (resp, x) ∈ responses.zip ((step s (.resume x)).st.pauseAll.activeIn order))
    (hdemand : resp.isEmpty = false)
    (hroom : ({ q with active := true, lim := q.lim.onResume s.consts.resumeMask } : Queue).permit resp = .ok (n :: rest))
    (hel : (q.lim.onResume s.consts.resumeMask).elapsed now = true)
    (hnp : ((step s (.resume x)).st.tick now order (.ok sn mn) results).panic = none) :
    Out.submit x n ∈ ((step s (.resume x)).st.tick now order (.ok sn mn) results).outs := by
  -- the resumed queue
  have hid := State.getQueue_id' s x q hq
  generalize hq1 : ({ q with active := true, lim := q.lim.onResume s.consts.resumeMask } : Queue) = q1 at hroom
  have hs1 : (step s (.resume x)).st = s.setQueue q1 := by
    simp only [step, State.resume, hq, hq1]
  rw [hs1] at hresp hnp ⊢
  have hx1 : x = q1.id := by rw [← hq1]; exact hid.symm
  have hg1 : (s.setQueue q1).getQueue x = some q1 := by
    rw [State.getQueue_setQueue, if_pos hx1, hq]; rfl
  have hact1 : q1.active = true := by rw [← hq1]
  have hlim1 : q1.lim.limitsReached = false := by
    rw [← hq1]
    simp only [Limiter.limitsReached, Limiter.onResume, hmask.1, hmask.2, if_true, Bool.or_eq_false_iff,
      decide_eq_false_iff_not]
    omega
  have hel1 : q1.lim.elapsed now = true := by rw [← hq1]; exact hel
  have hst1 : q1.lim.status now = .ok := Limiter.status_ok_of _ _ hlim1 hel1
  have hpause : q1.tryPause = q1 := by
    unfold Queue.tryPause
    rw [hlim1, Bool.and_false]; rfl
  have hg2 : (s.setQueue q1).pauseAll.getQueue x = some q1 := by
    rw [State.getQueue_pauseAll, hg1, Option.map_some, hpause]
  have hmem1 : q1 ∈ (s.setQueue q1).queues := State.getQueue_mem _ _ _ hg1
  have hspace : q1.hasSpace = true := Queue.permit_hasSpace q1 resp _ hroom (by simp)
  have hxin : x ∈ (s.setQueue q1).pauseAll.activeIn order := (List.of_mem_zip hresp).2
  have h1 : (s.setQueue q1).hasActiveQueues = true := by
    simp only [State.hasActiveQueues, List.any_eq_true]
    exact ⟨q1, hmem1, hact1⟩
  have hmain := State.tick_main (s.setQueue q1) now order sn mn results responses x q1 h1 hxin hg2 hspace hmerge
  rw [hmain] at hnp ⊢
  have hlive := submitAll_live now (responses.zip ((s.setQueue q1).pauseAll.activeIn order))
    ⟨(s.setQueue q1).pauseAll, [Out.query ((s.setQueue q1).pauseAll.activeIn order).length], results, none⟩
    x resp q1 n rest (zip_snd_nodup _ _ (State.activeIn_nodup _ _ hnd)) hresp hg2 hdemand hact1 hst1 hroom
  split at hnp
  · cases hnp
  · rename_i hp
    simp only [List.mem_append]
    exact .inl (.inl (hlive hp))

end HqModel.AutoAlloc
