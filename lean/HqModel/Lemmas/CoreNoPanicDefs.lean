import HqModel.Lemmas.CoreQueueRun
/-!
C09 for the tako core model (M1): **progress** — vocabulary.

All theorems about M1 so far are of the preservation kind ("if `step s op = .ok (s', out)` then the invariant holds
in `s'`"). This family (`Lemmas/CoreNoPanic*.lean`, `Props/C09Core.lean`) proves the progress kind: from the invariant
and the side conditions of the operation, `step s op` is never `.error (.panic site)` with a site of the code
(sites whose name starts with `!` are refusals of an invalid recorded input, not panics of the code).

This file: the outcome predicate, the additional **input** side conditions (all decidable, all facts about the
operation, evaluated on the pre-state), the **exclusion** of the known finding F27 and the additional
**state invariant** `NpInv` that progress needs on top of `InvF`, `QInv` (index ranges, multi-node shape, dependency
registration, exact queue ↔ state correspondence).
-/
namespace HqModel.Core

/-! ### outcome -/

/-- not a panic of the code: a value, or a refusal `!…` of an invalid recorded input -/
def NoCorePanic {α : Type} (r : M α) : Prop := ∀ site, r = .error (.panic site) → site.startsWith "!" = true

theorem NoCorePanic.ok {α : Type} (x : α) : NoCorePanic (Except.ok x : M α) := by
  intro site h; cases h

theorem NoCorePanic.of_ok {α : Type} {r : M α} (h : ∃ x, r = .ok x) : NoCorePanic r := by
  obtain ⟨x, rfl⟩ := h; exact NoCorePanic.ok x

theorem NoCorePanic.bang {α : Type} {site : String} (h : site.startsWith "!" = true) :
    NoCorePanic (Except.error (.panic site) : M α) := by
  intro site' e; cases e; exact h

/-! ### input side conditions (new) -/

/-- `on_new_tasks`: the message is not empty (`handle_new_tasks` returns early for an empty submit), every request id
was created before (`get_or_create_resource_rq_id` precedes the submit), no dependency is named twice
(`build_tasks_graph` collects the dependencies into a set) -/
def NewTasksOk (s : State) (nts : List NewTask) : Prop :=
  nts ≠ [] ∧ ∀ nt ∈ nts, nt.rq < s.rqs.length ∧ nt.deps.Nodup

instance (s : State) (nts : List NewTask) : Decidable (NewTasksOk s nts) := by unfold NewTasksOk; infer_instance

/-- the lists the client's `on_task_error` returned (ids to cancel) name no task twice -/
def RetsOk (rets : List (List TaskId)) : Prop := ∀ l ∈ rets, l.Nodup

instance (rets : List (List TaskId)) : Decidable (RetsOk rets) := by unfold RetsOk; infer_instance

/-- the variant `rv` of request `rq` exists and names only resources worker `w` (which exists) has a slot for -/
def RunIdx (s : State) (w rq rv : Nat) : Prop :=
  match s.rq rq rv, s.worker? w with
  | .ok r, some wk => ∀ e ∈ r.entries, e.res < wk.total.length
  | _, _ => False

instance (s : State) (w rq rv : Nat) : Decidable (RunIdx s w rq rv) := by
  unfold RunIdx
  cases s.rq rq rv <;> cases s.worker? w <;> simp only <;> infer_instance

/-- **worker protocol** (what the core's `assert!`s / `unreachable!`s of the update handlers demand of a message
from worker `w`, judged in the state in which the reactor processes it): the worker exists; the message is about a
task the core does not know (any more), or
* `Running`/`RunningPrefilled t rv`: `t` is Assigned to `w` with variant `rv`, or Prefilled on / Retracting from `w`
  and `rv` is a variant `w` can host, or multi-node with root `w`;
* `Finished t`: `t` is Running on `w` or multi-node with root `w` (a worker finishes only what it reported running);
* `Failed t`: `t` is Assigned / Running / Prefilled on, Retracting from `w`, or multi-node with root `w`;
* `RejectRequest t`: `t` is Assigned (the existing `RejectOk` says: to `w`, same variant), Prefilled on `w`,
  Retracting, or RunningMultiNode (handled since the fix of F32: reset of the reserved workers + re-queue). -/
def UpdNP (s : State) (w : Nat) (u : Update) : Prop :=
  (s.worker? w).isSome = true ∧
  match u with
  | .running t rv | .runningPrefilled t rv =>
    (match s.task? t with
     | none => True
     | some task =>
       match task.state with
       | .assigned w' rv' => w' = w ∧ rv' = rv
       | .prefilled w' => w' = w ∧ RunIdx s w task.rq rv
       | .retracting w' => w' = w ∧ RunIdx s w task.rq rv
       | .runningMN ws => ws.head? = some w
       | _ => False)
  | .finished t =>
    (match s.task? t with
     | none => True
     | some task =>
       match task.state with
       | .running w' _ => w' = w
       | .runningMN ws => ws.head? = some w
       | _ => False)
  | .failed t =>
    (match s.task? t with
     | none => True
     | some task =>
       match task.state with
       | .assigned w' _ => w' = w
       | .running w' _ => w' = w
       | .prefilled w' => w' = w
       | .retracting w' => w' = w
       | .runningMN ws => ws.head? = some w
       | _ => False)
  | .reject t _ =>
    (match s.task? t with
     | none => True
     | some task =>
       match task.state with
       | .assigned _ _ => True
       | .prefilled w' => w' = w
       | .retracting _ => True
       | .runningMN _ => True
       | _ => False)
  | .enable _ _ => True

instance (s : State) (w : Nat) (u : Update) : Decidable (UpdNP s w u) := by
  unfold UpdNP
  refine @instDecidableAnd _ _ inferInstance ?_
  repeat' split
  all_goals infer_instance

/-- **exclusion of finding F27** (`insert_sn_task` → `unreachable!()`): no Running / RunningPrefilled message about a
task that is Retracting arrives from a worker that is in a multi-node assignment (the worker started a prefilled
task whose retraction was under way, and a multi-node task was placed on the — seemingly idle — worker meanwhile). -/
def NoF27 (s : State) (w : Nat) (u : Update) : Prop :=
  match u with
  | .running t _ | .runningPrefilled t _ =>
    (match s.task? t, s.worker? w with
     | some task, some wk =>
       (match task.state, wk.assign with
        | .retracting _, .mn _ _ _ => False
        | _, _ => True)
     | _, _ => True)
  | _ => True

instance (s : State) (w : Nat) (u : Update) : Decidable (NoF27 s w u) := by
  unfold NoF27
  repeat' split
  all_goals infer_instance

/-! ### the recorded solution of a scheduling round -/

def pfIds (q : Queue) : List TaskId := match q.prefill with | some (_, ts) => ts | none => []

/-- one `sn_counts` entry, judged in the state in which `create_task_mapping` processes it: the (request, variant)
exists and is a single-node request (the solver creates `sn` variables only for those), and the solver did not
place more tasks than the queue offers (`count ≤ queue.size()` row of the MILP) -/
def SnEntryOk (s : State) (e : SnEntry) : Prop :=
  (∃ r, s.rq e.rq e.v = .ok r) ∧ s.isMultiNode e.rq = false ∧
  ∀ q, s.queues[e.rq]? = some q → (e.counts.map (·.2)).sum ≤ (rIds q.ready).length + (pfIds q).length

instance (s : State) (e : SnEntry) : Decidable (SnEntryOk s e) := by
  unfold SnEntryOk
  have : Decidable (∃ r, s.rq e.rq e.v = .ok r) := by
    cases s.rq e.rq e.v with
    | ok r => exact isTrue ⟨r, rfl⟩
    | error x => exact isFalse (fun ⟨r, h⟩ => by cases h)
  have : Decidable (∀ q, s.queues[e.rq]? = some q → (e.counts.map (·.2)).sum ≤ (rIds q.ready).length + (pfIds q).length) := by
    cases s.queues[e.rq]? with
    | none => exact isTrue (fun _ h => by cases h)
    | some q =>
      by_cases h : (e.counts.map (·.2)).sum ≤ (rIds q.ready).length + (pfIds q).length
      · exact isTrue (fun _ e => by cases e; exact h)
      · exact isFalse (fun hh => h (hh q rfl))
  infer_instance

def SnOk (now : Nat) : State → List WUpdate → List SnEntry → Prop
  | _, _, [] => True
  | s, m, e :: rest =>
    SnEntryOk s e ∧
    match s.mapSn now m [e] with
    | .ok (s1, m1) => SnOk now s1 m1 rest
    | .error _ => True

instance SnOk.decidable (now : Nat) : ∀ (es : List SnEntry) (s : State) (m : List WUpdate), Decidable (SnOk now s m es)
  | [], _, _ => isTrue trivial
  | e :: rest, s, m => by
    simp only [SnOk]
    cases h : s.mapSn now m [e] with
    | error x => simp only; infer_instance
    | ok r =>
      obtain ⟨s1, m1⟩ := r
      simp only
      have := SnOk.decidable now rest s1 m1
      infer_instance

/-- one multi-node placement, judged in the state in which it is processed: a non-empty set of distinct, existing,
free workers, and the queue has a ready task -/
def MnSetOk (s : State) (rq : Nat) (ws : List Nat) : Prop :=
  ws ≠ [] ∧ ws.Nodup ∧ (∀ w ∈ ws, ∃ wk, s.worker? w = some wk ∧ wk.isFree = true) ∧
  ∀ q, s.queues[rq]? = some q → q.ready ≠ []

instance (s : State) (rq : Nat) (ws : List Nat) : Decidable (MnSetOk s rq ws) := by
  unfold MnSetOk
  have : ∀ w, Decidable (∃ wk, s.worker? w = some wk ∧ wk.isFree = true) := by
    intro w
    cases s.worker? w with
    | none => exact isFalse (fun ⟨_, h, _⟩ => by cases h)
    | some wk =>
      by_cases h : wk.isFree = true
      · exact isTrue ⟨wk, rfl, h⟩
      · exact isFalse (fun ⟨_, e, h2⟩ => by cases e; exact h h2)
  have : Decidable (∀ q, s.queues[rq]? = some q → q.ready ≠ []) := by
    cases s.queues[rq]? with
    | none => exact isTrue (fun _ h => by cases h)
    | some q =>
      by_cases h : q.ready ≠ []
      · exact isTrue (fun _ e => by cases e; exact h)
      · exact isFalse (fun hh => h (hh q rfl))
  infer_instance

def MnSetsOk (rq : Nat) : State → List TaskId → List (List Nat) → Prop
  | _, _, [] => True
  | s, acc, ws :: rest =>
    MnSetOk s rq ws ∧
    match s.mapMnSets rq [ws] acc with
    | .ok (s1, acc1) => MnSetsOk rq s1 acc1 rest
    | .error _ => True

instance MnSetsOk.decidable (rq : Nat) : ∀ (sets : List (List Nat)) (s : State) (acc : List TaskId),
    Decidable (MnSetsOk rq s acc sets)
  | [], _, _ => isTrue trivial
  | ws :: rest, s, acc => by
    simp only [MnSetsOk]
    cases h : s.mapMnSets rq [ws] acc with
    | error x => simp only; infer_instance
    | ok r =>
      obtain ⟨s1, acc1⟩ := r
      simp only
      have := MnSetsOk.decidable rq rest s1 acc1
      infer_instance

def MnEntriesOk : State → List TaskId → List MnEntry → Prop
  | _, _, [] => True
  | s, acc, e :: rest =>
    MnSetsOk e.rq s acc e.sets ∧
    match s.mapMnSets e.rq e.sets acc with
    | .ok (s1, acc1) => MnEntriesOk s1 acc1 rest
    | .error _ => True

instance MnEntriesOk.decidable : ∀ (es : List MnEntry) (s : State) (acc : List TaskId), Decidable (MnEntriesOk s acc es)
  | [], _, _ => isTrue trivial
  | e :: rest, s, acc => by
    simp only [MnEntriesOk]
    cases h : s.mapMnSets e.rq e.sets acc with
    | error x => simp only; infer_instance
    | ok r =>
      obtain ⟨s1, acc1⟩ := r
      simp only
      have := MnEntriesOk.decidable rest s1 acc1
      infer_instance

/-- **what the solver and `take_tasks` guarantee about the recorded solution**, every entry judged in the state in
which `create_task_mapping` processes it (as `UpdatesOk` does for the updates of one message). Everything else about
the solution (`taken` is what `take_tasks` returns, placements only where allowed and fitting, prefill order a
permutation of the candidates) is validated by the model itself (`!bad-choice …`). -/
def SolOk (s : State) (sol : Solution) : Prop :=
  SnOk sol.now s [] sol.sn ∧
  match s.mapSn sol.now [] sol.sn with
  | .ok (s1, _) => MnEntriesOk s1 [] sol.mn
  | .error _ => True

instance (s : State) (sol : Solution) : Decidable (SolOk s sol) := by
  unfold SolOk
  cases s.mapSn sol.now [] sol.sn with
  | error x => simp only; infer_instance
  | ok r => obtain ⟨s1, m1⟩ := r; simp only; infer_instance

/-! ### all side conditions of one operation -/

/-- the new input conditions of one operation (to be added to `OpOk5`) -/
def OpNP (s : State) : Op → Prop
  | .newWorker w => s.worker? w.id = none
  | .removeWorker w _ _ _ rets => (s.worker? w).isSome = true ∧ RetsOk rets
  | .newRq _ => True
  | .newTasks nts => NewTasksOk s nts
  | .cancel ids => ids.Nodup
  | .update w us rets => UpdatesOk UpdNP s w us rets ∧ RetsOk rets
  | .retracted _ _ => True
  | .schedule sol => SolOk s sol

instance (s : State) (op : Op) : Decidable (OpNP s op) := by
  cases op <;> simp only [OpNP] <;> infer_instance

/-- the exclusion of the known finding F27 (F32 is fixed in the model) -/
def OpExcl (s : State) : Op → Prop
  | .update w us rets => UpdatesOk NoF27 s w us rets
  | _ => True

instance (s : State) (op : Op) : Decidable (OpExcl s op) := by
  cases op <;> simp only [OpExcl] <;> infer_instance

/-! ### the additional state invariant -/

/-- worker records: ids unique, the free vector has the length of the total vector -/
structure NpW (s : State) : Prop where
  nd : (s.workers.map (·.id)).Nodup
  free : ∀ wk ∈ s.workers, ∀ A F P, wk.assign = .sn A F P → F.length = wk.total.length

instance (s : State) : Decidable (NpW s) := by
  have : Decidable (∀ wk ∈ s.workers, ∀ A F P, wk.assign = .sn A F P → F.length = wk.total.length) := by
    have : ∀ wk : Worker, Decidable (∀ A F P, wk.assign = .sn A F P → F.length = wk.total.length) := by
      intro wk
      cases h : wk.assign with
      | mn a b c => exact isTrue (fun _ _ _ e => by cases e)
      | sn A F P =>
        by_cases hl : F.length = wk.total.length
        · exact isTrue (fun _ _ _ e => by cases e; exact hl)
        · exact isFalse (fun hh => hl (hh A F P rfl))
    infer_instance
  exact decidable_of_iff ((s.workers.map (·.id)).Nodup ∧
    ∀ wk ∈ s.workers, ∀ A F P, wk.assign = .sn A F P → F.length = wk.total.length)
    ⟨fun h => ⟨h.1, h.2⟩, fun h => ⟨h.1, h.2⟩⟩

/-- worker `w` holds a reservation of variant `v` for the task record `t` -/
def HeldT (rd : List (TaskId × Nat × Nat)) (t : Task) (w v : Nat) : Prop :=
  t.state = .assigned w v ∨ t.state = .running w v ∨ ((∃ w0, t.state = .retracting w0) ∧ (t.id, w, v) ∈ rd)

/-- the variant exists and names only resource slots the worker (if it is in the map) has -/
def IdxOk (s : State) (w rq v : Nat) : Prop :=
  match s.rq rq v with
  | .ok r => ∀ wk, s.worker? w = some wk → ∀ e ∈ r.entries, e.res < wk.total.length
  | .error _ => False

instance (s : State) (w rq v : Nat) : Decidable (IdxOk s w rq v) := by
  unfold IdxOk
  cases s.rq rq v with
  | error _ => exact isFalse (fun h => h)
  | ok r =>
    simp only
    cases s.worker? w with
    | none => exact isTrue (fun _ h => by cases h)
    | some wk =>
      by_cases h : ∀ e ∈ r.entries, e.res < wk.total.length
      · exact isTrue (fun _ e => by cases e; exact h)
      · exact isFalse (fun hh => h (hh wk rfl))

/-- what the reservation table says about one task record, decidable form -/
def heldList (rd : List (TaskId × Nat × Nat)) (t : Task) : List (Nat × Nat) :=
  match t.state with
  | .assigned w v => [(w, v)]
  | .running w v => [(w, v)]
  | .retracting _ => (rd.filter (·.1 = t.id)).map (·.2)
  | _ => []

theorem mem_heldList {rd : List (TaskId × Nat × Nat)} {t : Task} {w v : Nat} :
    (w, v) ∈ heldList rd t ↔ HeldT rd t w v := by
  unfold heldList HeldT
  cases h : t.state with
  | retracting w0 =>
    simp only [List.mem_map, List.mem_filter, decide_eq_true_eq, reduceCtorEq, false_or, TS.retracting.injEq,
      exists_eq', true_and]
    constructor
    · rintro ⟨x, ⟨hm, hx⟩, e⟩
      obtain ⟨a, b, c⟩ := x
      simp only at hx e
      cases e; subst hx; exact hm
    · intro hm; exact ⟨(t.id, w, v), ⟨hm, rfl⟩, rfl⟩
  | assigned w' v' => simp; constructor <;> (rintro ⟨a, b⟩; exact ⟨a.symm, b.symm⟩)
  | running w' v' => simp; constructor <;> (rintro ⟨a, b⟩; exact ⟨a.symm, b.symm⟩)
  | _ => simp

/-- index ranges -/
structure NpIdx (s : State) : Prop where
  /-- one task queue per request (`add_task_queue` in `get_or_create_resource_rq_id`) -/
  ql : s.queues.length = s.rqs.length
  rq : ∀ t ∈ s.tasks, t.rq < s.rqs.length
  held : ∀ t ∈ s.tasks, ∀ w v, HeldT s.redirects t w v → IdxOk s w t.rq v

instance (s : State) : Decidable (NpIdx s) := by
  have : Decidable (∀ t ∈ s.tasks, ∀ w v, HeldT s.redirects t w v → IdxOk s w t.rq v) :=
    decidable_of_iff (∀ t ∈ s.tasks, ∀ p ∈ heldList s.redirects t, IdxOk s p.1 t.rq p.2)
      ⟨fun h t ht w v hh => h t ht (w, v) (mem_heldList.mpr hh),
       fun h t ht p hp => h t ht p.1 p.2 (mem_heldList.mp hp)⟩
  exact decidable_of_iff (s.queues.length = s.rqs.length ∧ (∀ t ∈ s.tasks, t.rq < s.rqs.length) ∧
    ∀ t ∈ s.tasks, ∀ w v, HeldT s.redirects t w v → IdxOk s w t.rq v)
    ⟨fun h => ⟨h.1, h.2.1, h.2.2⟩, fun h => ⟨h.1, h.2, h.3⟩⟩

/-- states in which a task is placed on (or being taken from) a single-node worker -/
def snState : TS → Prop
  | .assigned .. => True
  | .prefilled _ => True
  | .retracting _ => True
  | .running .. => True
  | _ => False

instance : DecidablePred snState := fun st => by cases st <;> simp only [snState] <;> infer_instance

/-- multi-node shape -/
structure NpMn (s : State) : Prop where
  /-- the worker list of a RunningMultiNode task is not empty and names no worker twice -/
  ne : ∀ t ∈ s.tasks, ∀ ws, t.state = .runningMN ws → ws ≠ [] ∧ ws.Nodup
  /-- only tasks with a single-node request are in a single-node placement state -/
  sn : ∀ t ∈ s.tasks, snState t.state → s.isMultiNode t.rq = false

instance (s : State) : Decidable (NpMn s) := by
  have : Decidable (∀ t ∈ s.tasks, ∀ ws, t.state = .runningMN ws → ws ≠ [] ∧ ws.Nodup) := by
    have : ∀ t : Task, Decidable (∀ ws, t.state = .runningMN ws → ws ≠ [] ∧ ws.Nodup) := by
      intro t
      cases h : t.state with
      | runningMN ws =>
        by_cases hc : ws ≠ [] ∧ ws.Nodup
        · exact isTrue (fun _ e => by cases e; exact hc)
        · exact isFalse (fun hh => hc (hh ws rfl))
      | _ => exact isTrue (fun _ e => by cases e)
    infer_instance
  exact decidable_of_iff ((∀ t ∈ s.tasks, ∀ ws, t.state = .runningMN ws → ws ≠ [] ∧ ws.Nodup) ∧
    ∀ t ∈ s.tasks, snState t.state → s.isMultiNode t.rq = false)
    ⟨fun h => ⟨h.1, h.2⟩, fun h => ⟨h.1, h.2⟩⟩

/-- dependency registration (`U` = ghost list of all ids submitted so far, as in `QInv`) -/
structure NpDeps (U : List TaskId) (s : State) : Prop where
  /-- every registered consumer is a task of the map -/
  cin : ∀ t ∈ s.tasks, ∀ c ∈ t.consumers, (s.task? c).isSome = true
  /-- a task is listed only by tasks it depends on -/
  cdep : ∀ t ∈ s.tasks, ∀ c ∈ t.consumers, ∀ ct, s.task? c = some ct → t.id ∈ ct.deps
  /-- every dependency that is in the map lists the task (`remove_task` asserts it) -/
  reg : ∀ ct ∈ s.tasks, ∀ d ∈ ct.deps, ∀ dt, s.task? d = some dt → ct.id ∈ dt.consumers
  dnd : ∀ t ∈ s.tasks, t.deps.Nodup
  uD : ∀ t ∈ s.tasks, ∀ d ∈ t.deps, d ∈ U

instance (U : List TaskId) (s : State) : Decidable (NpDeps U s) := by
  have d1 : ∀ (c : TaskId) (P : Task → Prop) [DecidablePred P], Decidable (∀ ct, s.task? c = some ct → P ct) := by
    intro c P _
    cases h : s.task? c with
    | none => exact isTrue (fun _ e => by cases e)
    | some ct =>
      by_cases hp : P ct
      · exact isTrue (fun _ e => by cases e; exact hp)
      · exact isFalse (fun hh => hp (hh ct rfl))
  have : Decidable (∀ t ∈ s.tasks, ∀ c ∈ t.consumers, ∀ ct, s.task? c = some ct → t.id ∈ ct.deps) := by
    have : ∀ (t : Task) (c : TaskId), Decidable (∀ ct, s.task? c = some ct → t.id ∈ ct.deps) :=
      fun t c => d1 c (fun ct => t.id ∈ ct.deps)
    infer_instance
  have : Decidable (∀ ct ∈ s.tasks, ∀ d ∈ ct.deps, ∀ dt, s.task? d = some dt → ct.id ∈ dt.consumers) := by
    have : ∀ (ct : Task) (d : TaskId), Decidable (∀ dt, s.task? d = some dt → ct.id ∈ dt.consumers) :=
      fun ct d => d1 d (fun dt => ct.id ∈ dt.consumers)
    infer_instance
  exact decidable_of_iff ((∀ t ∈ s.tasks, ∀ c ∈ t.consumers, (s.task? c).isSome = true) ∧
    (∀ t ∈ s.tasks, ∀ c ∈ t.consumers, ∀ ct, s.task? c = some ct → t.id ∈ ct.deps) ∧
    (∀ ct ∈ s.tasks, ∀ d ∈ ct.deps, ∀ dt, s.task? d = some dt → ct.id ∈ dt.consumers) ∧
    (∀ t ∈ s.tasks, t.deps.Nodup) ∧ ∀ t ∈ s.tasks, ∀ d ∈ t.deps, d ∈ U)
    ⟨fun h => ⟨h.1, h.2.1, h.2.2.1, h.2.2.2.1, h.2.2.2.2⟩, fun h => ⟨h.1, h.2, h.3, h.4, h.5⟩⟩

/-- the shape of a ready list (`BTreeMap<Reverse<Priority>, BTreeSet<TaskId>>` without empty sets) -/
structure ReadyWf (ready : List (Int × List TaskId)) : Prop where
  prio : (ready.map (·.1)).Pairwise (fun a b => a > b)
  ne : ∀ e ∈ ready, e.2 ≠ []
  asc : ∀ e ∈ ready, e.2.Pairwise (fun a b => tidLt a b = true)

instance (ready : List (Int × List TaskId)) : Decidable (ReadyWf ready) :=
  decidable_of_iff ((ready.map (·.1)).Pairwise (fun a b => a > b) ∧ (∀ e ∈ ready, e.2 ≠ []) ∧
    ∀ e ∈ ready, e.2.Pairwise (fun a b => tidLt a b = true))
    ⟨fun h => ⟨h.1, h.2.1, h.2.2⟩, fun h => ⟨h.1, h.2, h.3⟩⟩

/-- an id in the ready list of queue `i` under priority `p`: a task of the map with that request and priority that is
`Waiting 0`, or Retracting without a redirect, or Prefilled and waiting for `process_retracted` (`R`) -/
def ReadyGood (R : List TaskId) (s : State) (i : Nat) (p : Int) (id : TaskId) : Prop :=
  match s.task? id with
  | none => False
  | some t =>
    t.rq = i ∧ t.prio = p ∧
    match t.state with
    | .waiting n => n = 0
    | .retracting _ => ∀ x ∈ s.redirects, x.1 ≠ id
    | .prefilled _ => id ∈ R
    | _ => False

instance (R : List TaskId) (s : State) (i : Nat) (p : Int) (id : TaskId) : Decidable (ReadyGood R s i p id) := by
  unfold ReadyGood
  cases s.task? id with
  | none => exact isFalse (fun h => h)
  | some t => simp only; cases t.state <;> simp only <;> infer_instance

/-- an id in the prefill set of queue `i`: a Prefilled task of the map with that request and priority -/
def PfGood (R : List TaskId) (s : State) (i : Nat) (pp : Int) (id : TaskId) : Prop :=
  match s.task? id with
  | none => False
  | some t =>
    t.rq = i ∧ t.prio = pp ∧ id ∉ R ∧
    match t.state with
    | .prefilled _ => True
    | _ => False

instance (R : List TaskId) (s : State) (i : Nat) (pp : Int) (id : TaskId) : Decidable (PfGood R s i pp id) := by
  unfold PfGood
  cases s.task? id with
  | none => exact isFalse (fun h => h)
  | some t => simp only; cases t.state <;> simp only <;> infer_instance

/-- the Prefilled task `t` is in the prefill set of its queue -/
def InPrefill (s : State) (t : Task) : Prop :=
  match s.queues[t.rq]? with
  | some q => t.id ∈ pfIds q
  | none => False

instance (s : State) (t : Task) : Decidable (InPrefill s t) := by
  unfold InPrefill
  cases s.queues[t.rq]? <;> simp only <;> infer_instance

/-- ids whose prefill set was disposed and that `process_retracted` has not seen yet are Prefilled tasks -/
def IsPrefilled (s : State) (id : TaskId) : Prop :=
  match s.task? id with
  | some t => (match t.state with | .prefilled _ => True | _ => False)
  | none => False

instance (s : State) (id : TaskId) : Decidable (IsPrefilled s id) := by
  unfold IsPrefilled
  cases s.task? id with
  | none => exact isFalse (fun h => h)
  | some t => simp only; cases t.state <;> simp only <;> infer_instance

/-- **exact queue ↔ state correspondence** (`R` = ids disposed from a prefill set, not yet retracted: empty at
operation boundaries; `D` = tasks "in repair", exempt from the state → queue clause `pin`: empty at boundaries) -/
structure NpQ (D : TaskId → Prop) (R : List TaskId) (s : State) : Prop where
  wf : ∀ q ∈ s.queues, ReadyWf q.ready
  rg : ∀ p ∈ s.queues.zipIdx, ∀ e ∈ p.1.ready, ∀ id ∈ e.2, ReadyGood R s p.2 e.1 id
  pnd : ∀ q ∈ s.queues, (pfIds q).Nodup
  pg : ∀ p ∈ s.queues.zipIdx, ∀ pp ts, p.1.prefill = some (pp, ts) → ∀ id ∈ ts, PfGood R s p.2 pp id
  pin : ∀ t ∈ s.tasks, (∃ w, t.state = .prefilled w) → t.id ∉ R → ¬ D t.id → InPrefill s t
  rnd : R.Nodup
  rpre : ∀ id ∈ R, IsPrefilled s id

instance (R : List TaskId) (s : State) : Decidable (NpQ noD R s) := by
  have : Decidable (∀ p ∈ s.queues.zipIdx, ∀ pp ts, p.1.prefill = some (pp, ts) → ∀ id ∈ ts, PfGood R s p.2 pp id) := by
    have : ∀ p : Queue × Nat, Decidable (∀ pp ts, p.1.prefill = some (pp, ts) → ∀ id ∈ ts, PfGood R s p.2 pp id) := by
      intro p
      cases h : p.1.prefill with
      | none => exact isTrue (fun _ _ e => by cases e)
      | some x =>
        obtain ⟨pp, ts⟩ := x
        by_cases hc : ∀ id ∈ ts, PfGood R s p.2 pp id
        · exact isTrue (fun _ _ e => by cases e; exact hc)
        · exact isFalse (fun hh => hc (hh pp ts rfl))
    infer_instance
  have : Decidable (∀ t ∈ s.tasks, (∃ w, t.state = .prefilled w) → t.id ∉ R → InPrefill s t) := by
    have : ∀ t : Task, Decidable (∃ w, t.state = .prefilled w) := by
      intro t
      cases h : t.state with
      | prefilled w => exact isTrue ⟨w, rfl⟩
      | _ => exact isFalse (fun ⟨_, e⟩ => by cases e)
    infer_instance
  exact decidable_of_iff ((∀ q ∈ s.queues, ReadyWf q.ready) ∧
    (∀ p ∈ s.queues.zipIdx, ∀ e ∈ p.1.ready, ∀ id ∈ e.2, ReadyGood R s p.2 e.1 id) ∧
    (∀ q ∈ s.queues, (pfIds q).Nodup) ∧
    (∀ p ∈ s.queues.zipIdx, ∀ pp ts, p.1.prefill = some (pp, ts) → ∀ id ∈ ts, PfGood R s p.2 pp id) ∧
    (∀ t ∈ s.tasks, (∃ w, t.state = .prefilled w) → t.id ∉ R → InPrefill s t) ∧ R.Nodup ∧ ∀ id ∈ R, IsPrefilled s id)
    ⟨fun h => ⟨h.1, h.2.1, h.2.2.1, h.2.2.2.1, fun t ht hp hr _ => h.2.2.2.2.1 t ht hp hr, h.2.2.2.2.2.1, h.2.2.2.2.2.2⟩,
     fun h => ⟨h.1, h.2, h.3, h.4, fun t ht hp hr => h.5 t ht hp hr (fun e => e), h.6, h.7⟩⟩

/-- **the additional invariant progress needs** -/
structure NpInv (U : List TaskId) (R : List TaskId) (s : State) : Prop where
  w : NpW s
  idx : NpIdx s
  mn : NpMn s
  deps : NpDeps U s
  q : NpQ noD R s

instance (U R : List TaskId) (s : State) : Decidable (NpInv U R s) :=
  decidable_of_iff (NpW s ∧ NpIdx s ∧ NpMn s ∧ NpDeps U s ∧ NpQ noD R s)
    ⟨fun h => ⟨h.1, h.2.1, h.2.2.1, h.2.2.2.1, h.2.2.2.2⟩, fun h => ⟨h.1, h.2, h.3, h.4, h.5⟩⟩

end HqModel.Core
