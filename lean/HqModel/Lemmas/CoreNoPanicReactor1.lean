import HqModel.Lemmas.CoreNoPanicModel
/-!
C09 progress, part 3: forward lemmas for the small loops of `Core/Reactor.lean`
(`resetMnAll`, `resetMnChecked`, `wakeConsumers`) and for `task_running`.
-/
namespace HqModel.Core

namespace NP

/-! ### queue list length -/

theorem disposeAll_length (qs : List Queue) (p : Int) : (disposeAll qs p).1.length = qs.length := by
  induction qs with
  | nil => rfl
  | cons q rest ih => simp only [disposeAll, List.length_cons, ih]

theorem modifyQueue_length (qs : List Queue) (i : Nat) (f : Queue → Queue) : (modifyQueue qs i f).length = qs.length := by
  unfold modifyQueue
  split <;> simp

theorem addReady_qlen {s s' : State} {t : Task} {r : List TaskId} (h : s.addReady t = .ok (s', r)) :
    s'.queues.length = s.queues.length := by
  simp only [State.addReady] at h
  split at h
  · cases h
  · cases h
    simp only [modifyQueue_length, disposeAll_length]

theorem queueRemove_qlen {s s' : State} {rq : Nat} {t : TaskId} {p : Int} (h : s.queueRemove rq t p = .ok s') :
    s'.queues.length = s.queues.length := by
  simp only [State.queueRemove] at h
  split at h
  · cases h
  · cases h; simp only [modifyQueue_length]

/-! ### resetting multi-node workers -/

theorem isSome_findWorker_putWorker {ws : List Worker} {wk : Worker} {x : Nat}
    (h : (findWorker ws x).isSome = true) : (findWorker (putWorker ws wk) x).isSome = true := by
  rw [findWorker_putWorker]
  split
  · simpa using h
  · exact h

theorem resetMnAll_ok : ∀ (ws : List Nat) (s : State), (∀ w ∈ ws, (s.worker? w).isSome = true) →
    ∃ s', resetMnAll s ws = .ok s'
  | [], s, _ => ⟨s, rfl⟩
  | w :: rest, s, h => by
    have hw := h w List.mem_cons_self
    cases hf : s.worker? w with
    | none => rw [hf] at hw; cases hw
    | some wk =>
      simp only [resetMnAll, getWorker_ok hf]
      apply resetMnAll_ok rest
      intro x hx
      exact isSome_findWorker_putWorker (h x (List.mem_cons_of_mem _ hx))

theorem resetMnChecked_ok (id : TaskId) : ∀ (ws : List Nat) (s : State), ws.Nodup →
    (∀ x ∈ ws, ∃ wk root st, s.worker? x = some wk ∧ wk.assign = .mn id root st) →
    ∃ s', resetMnChecked s id ws = .ok s'
  | [], s, _, _ => ⟨s, rfl⟩
  | w :: rest, s, hnd, h => by
    obtain ⟨wk, root, st, hw, ha⟩ := h w List.mem_cons_self
    have hwid : wk.id = w := findWorker_some_id hw
    simp only [resetMnChecked, getWorker_ok hw, ha, ne_eq, not_true_eq_false, if_false]
    apply resetMnChecked_ok id rest _ (List.nodup_cons.mp hnd).2
    intro x hx
    have hne : x ≠ w := fun e => (List.nodup_cons.mp hnd).1 (e ▸ hx)
    obtain ⟨wkx, rx, sx, hwx, hax⟩ := h x (List.mem_cons_of_mem _ hx)
    refine ⟨wkx, rx, sx, ?_, hax⟩
    show findWorker (putWorker s.workers wk.emptySn) x = some wkx
    rw [findWorker_putWorker]
    have : ¬ x = wk.emptySn.id := by show ¬ x = wk.id; rw [hwid]; exact hne
    simp only [this, if_false]
    exact hwx

/-- from the invariants: the workers of a RunningMultiNode task can be reset -/
theorem mn_workers_of {D} {s : State} (htw : TWI D s) {t : TaskId} {task : Task} (ht : s.task? t = some task)
    (hd : ¬ D t) {ws : List Nat} (hs : task.state = .runningMN ws) :
    ∀ x ∈ ws, ∃ wk root st, s.worker? x = some wk ∧ wk.assign = .mn t root st := by
  intro x hx
  have := htw.tw.t3 t ws hd (by rw [stOf_of_find ht, hs]) x hx
  obtain ⟨wk, root, st, hw, ha⟩ := mnW_elim this
  exact ⟨wk, root, st, hw, ha⟩

/-! ### `decrease_unfinished_deps` for the consumers of a finished task -/

theorem isSome_findTask_putTask {ts : List Task} {t : Task} {x : TaskId}
    (h : (findTask ts x).isSome = true) : (findTask (putTask ts t) x).isSome = true := by
  rw [findTask_putTask]
  split
  · simpa using h
  · exact h

theorem slack_pos {st : TS} (h : 0 < slack st) : ∃ n, st = .waiting (n + 1) := by
  cases st with
  | waiting n =>
    cases n with
    | zero => simp at h
    | succ k => exact ⟨k, rfl⟩
  | _ => simp at h

theorem wakeConsumers_ok {U f} : ∀ (cs : List TaskId) (s : State) (r : List TaskId), QInv U f cs s → cs.Nodup →
    (∀ c ∈ cs, (s.task? c).isSome = true) → (∀ t ∈ s.tasks, t.rq < s.queues.length) →
    ∃ res, s.wakeConsumers cs r = .ok res
  | [], s, r, _, _, _, _ => ⟨_, rfl⟩
  | c :: rest, s, r, hq, hnd, hin, hrq => by
    have hc := hin c List.mem_cons_self
    cases hf : s.task? c with
    | none => rw [hf] at hc; cases hc
    | some t =>
      have hcnt := hq.cnt c t hf
      have how : owed (c :: rest) c = 1 := by simp [owed]
      obtain ⟨n, hs⟩ := slack_pos (st := t.state) (by omega)
      have hcr : c ∉ rest := (List.nodup_cons.mp hnd).1
      have hnd' := (List.nodup_cons.mp hnd).2
      have hid : t.id = c := findTask_some_id hf
      have hq1 : QInv U f rest (s.setTask { t with state := .waiting n }) := QInv4.wake hq hf hs hcr
      have hin1 : ∀ x ∈ rest, ((s.setTask { t with state := .waiting n }).task? x).isSome = true :=
        fun x hx => isSome_findTask_putTask (hin x (List.mem_cons_of_mem _ hx))
      have hrq1 : ∀ x ∈ (s.setTask { t with state := .waiting n }).tasks,
          x.rq < (s.setTask { t with state := .waiting n }).queues.length := by
        intro x hx
        rcases mem_putTask hx with e | e
        · subst e; exact hrq t (findTask_some_mem hf)
        · exact hrq x e
      simp only [State.wakeConsumers, getTask_ok hf, hs]
      by_cases hn : n = 0
      · simp only [hn, if_true]
        subst hn
        have hlt : ({ t with state := .waiting 0 } : Task).rq <
            (s.setTask { t with state := .waiting 0 }).queues.length := hrq t (findTask_some_mem hf)
        obtain ⟨⟨s2, r2⟩, ha⟩ := addReady_ok hlt
        simp only [ha]
        have hf1 : findTask (s.setTask { t with state := .waiting 0 }).tasks
            ({ t with state := .waiting 0 } : Task).id = some { t with state := .waiting 0 } := by
          show findTask (putTask s.tasks _) t.id = _
          rw [findTask_putTask]
          simp only [if_true]
          have : findTask s.tasks t.id = some t := by rw [hid]; exact hf
          rw [this]; rfl
        have hsafe := Safe.addReady hf1 rfl (by simp) ha
        have ht2 := addReady_tasks ha
        apply wakeConsumers_ok rest s2 _ (hsafe U f rest hq1) hnd'
        · intro x hx; rw [task?_eq, ht2]; exact hin1 x hx
        · intro x hx; rw [ht2] at hx; rw [addReady_qlen ha]; exact hrq1 x hx
      · simp only [hn, if_false]
        exact wakeConsumers_ok rest _ _ hq1 hnd' hin1 hrq1

/-- a Finished record is not touched by `wakeConsumers` -/
theorem wakeConsumers_keeps_finished : ∀ (cs : List TaskId) (s s' : State) (r r' : List TaskId) (id : TaskId) (t : Task),
    s.wakeConsumers cs r = .ok (s', r') → s.task? id = some t → t.state = .finished → s'.task? id = some t
  | [], s, s', r, r', id, t, h, ht, _ => by simp only [State.wakeConsumers] at h; cases h; exact ht
  | c :: rest, s, s', r, r', id, t, h, ht, hs => by
    simp only [State.wakeConsumers] at h
    split at h
    · cases h
    · rename_i tc hg
      have hfc := getTask_spec hg
      split at h
      · rename_i n hsc
        have hne : id ≠ tc.id := by
          intro e
          rw [findTask_some_id hfc] at e
          subst e
          have : s.task? id = some tc := hfc
          rw [ht] at this; cases this
          rw [hs] at hsc; cases hsc
        have ht1 : (s.setTask { tc with state := .waiting n }).task? id = some t := by
          show findTask (putTask s.tasks _) id = some t
          rw [findTask_putTask]
          have : ¬ id = ({ tc with state := .waiting n } : Task).id := hne
          simp only [this, if_false]; exact ht
        split at h
        · split at h
          · cases h
          · rename_i s2 r2 ha
            have : s2.task? id = some t := by rw [task?_eq, addReady_tasks ha]; exact ht1
            exact wakeConsumers_keeps_finished rest s2 s' _ r' id t h this hs
        · exact wakeConsumers_keeps_finished rest _ s' _ r' id t h ht1 hs
      · cases h

/-- a record that is not Prefilled is not touched by `process_retracted` -/
theorem processRetracted_keeps : ∀ (l : List TaskId) (s s' : State) (acc acc' : List (Nat × TaskId)) (id : TaskId) (t : Task),
    s.processRetracted l acc = .ok (s', acc') → s.task? id = some t → (∀ w, t.state ≠ .prefilled w) →
    s'.task? id = some t
  | [], s, s', acc, acc', id, t, h, ht, _ => by simp only [State.processRetracted] at h; cases h; exact ht
  | x :: rest, s, s', acc, acc', id, t, h, ht, hs => by
    simp only [State.processRetracted] at h
    split at h
    · cases h
    · rename_i tx hg
      have hfx := getTask_spec hg
      split at h
      · rename_i w hsx
        split at h
        · cases h
        · rename_i s1 hw
          have hne : id ≠ tx.id := by
            intro e
            rw [findTask_some_id hfx] at e
            subst e
            have : s.task? id = some tx := hfx
            rw [ht] at this; cases this
            exact hs w hsx
          have ht1 : (s1.setTask { tx with state := .retracting w }).task? id = some t := by
            show findTask (putTask s1.tasks _) id = some t
            rw [findTask_putTask, withWorker_tasks hw]
            have : ¬ id = ({ tx with state := .retracting w } : Task).id := hne
            simp only [this, if_false]; exact ht
          exact processRetracted_keeps rest _ s' _ acc' id t h ht1 hs
      · cases h

theorem retract_keeps {s s' : State} {l : List TaskId} {o : Out} {id : TaskId} {t : Task}
    (h : s.retract l = .ok (s', o)) (ht : s.task? id = some t) (hs : ∀ w, t.state ≠ .prefilled w) :
    s'.task? id = some t := by
  simp only [State.retract] at h
  split at h
  · cases h
  · rename_i s1 pairs hp
    cases h
    exact processRetracted_keeps _ _ _ _ _ id t hp ht hs

end NP

end HqModel.Core
