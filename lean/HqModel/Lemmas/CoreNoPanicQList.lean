import HqModel.Lemmas.CoreNoPanicQBase
/-!
C09 progress, queue correspondence `NpQ`: the **pure list level**.

For `insertTid, readyAdd, readyAddMany, readyRemove, Queue.remove, Queue.checkDispose, disposeAll, modifyQueue`:
the shape `ReadyWf` of a ready list is preserved, and exact membership in terms of `NP.rPairs`:

* `mem_insertTid`, `insertTid_asc`, `insertTid_ne_nil`, `insertTid_of_mem` (idempotent on an ascending list);
* `readyWf_nil`, `readyWf_cons` (what `ReadyWf` says about a cons);
* `mem_rPairs_readyAdd : x ∈ rPairs (readyAdd ready t p) ↔ x = (p, t) ∨ x ∈ rPairs ready`, `readyAdd_wf`,
  `readyAdd_of_mem` (`readyAdd` is the identity on a well-formed list that already contains `(p, t)`);
* `mem_rPairs_readyAddMany`, `readyAddMany_wf`;
* `mem_rPairs_readyRemove : ReadyWf ready → (x ∈ rPairs (readyRemove ready t p) ↔ x ∈ rPairs ready ∧ x ≠ (p, t))`,
  `mem_rPairs_readyRemove_sub` (no hypothesis), `readyRemove_wf`, `readyRemove_of_not_mem`;
* `Queue.remove_cases` (prefill set first), `remove_ready_wf`, `mem_rPairs_remove_sub`, `mem_pfIds_remove_sub`,
  `pfIds_remove_nodup`;
* `checkDispose_cases`, `mem_checkDispose_snd`, `checkDispose_ready_wf`, `mem_rPairs_checkDispose`,
  `checkDispose_prefill`;
* `length_disposeAll`, `mem_disposeAll_snd`, `disposeAll_snd_nodup` (`getElem?_disposeAll` is in `CoreQueueBase`);
* `length_modifyQueue` (`getElem?_modifyQueue` is in `CoreQueueBase`).
-/
namespace HqModel.Core.NPC

open HqModel.Core.NP

/-! ### `insertTid` -/

theorem mem_insertTid {x y : TaskId} {l : List TaskId} : y ∈ insertTid x l ↔ y = x ∨ y ∈ l := by
  induction l with
  | nil => simp [insertTid]
  | cons z zs ih =>
    simp only [insertTid]
    split
    · rename_i e; subst e; simp
    · split
      · simp
      · simp only [List.mem_cons, ih]
        grind

theorem insertTid_ne_nil (x : TaskId) (l : List TaskId) : insertTid x l ≠ [] := by
  cases l with
  | nil => simp [insertTid]
  | cons z zs =>
    simp only [insertTid]
    split
    · simp
    · split <;> simp

theorem insertTid_asc {x : TaskId} {l : List TaskId} (h : l.Pairwise (fun a b => tidLt a b = true)) :
    (insertTid x l).Pairwise (fun a b => tidLt a b = true) := by
  induction l with
  | nil => simp [insertTid]
  | cons z zs ih =>
    simp only [insertTid]
    rw [List.pairwise_cons] at h
    split
    · exact List.pairwise_cons.mpr h
    · rename_i hne
      split
      · rename_i hlt
        refine List.pairwise_cons.mpr ⟨?_, List.pairwise_cons.mpr h⟩
        intro a ha
        rcases List.mem_cons.mp ha with e | e
        · subst e; exact hlt
        · exact tidLt_trans hlt (h.1 a e)
      · rename_i hnlt
        refine List.pairwise_cons.mpr ⟨?_, ih h.2⟩
        intro a ha
        rcases mem_insertTid.mp ha with e | e
        · subst e; exact tidLt_total (by simpa using hnlt) hne
        · exact h.1 a e

/-- inserting an id that is already there changes nothing -/
theorem insertTid_of_mem {x : TaskId} {l : List TaskId} (h : l.Pairwise (fun a b => tidLt a b = true)) (hx : x ∈ l) :
    insertTid x l = l := by
  induction l with
  | nil => cases hx
  | cons z zs ih =>
    simp only [insertTid]
    rw [List.pairwise_cons] at h
    split
    · rfl
    · rename_i hne
      have hx' : x ∈ zs := by
        rcases List.mem_cons.mp hx with e | e
        · exact absurd e hne
        · exact e
      have hzx := h.1 x hx'
      rw [tidLt_asymm hzx]
      simp only [Bool.false_eq_true, if_false]
      rw [ih h.2 hx']

/-! ### `ReadyWf` and `rPairs` of a cons -/

theorem readyWf_nil : ReadyWf [] := ⟨by simp, by simp, by simp⟩

theorem readyWf_cons {q : Int} {ids : List TaskId} {rest : List (Int × List TaskId)} :
    ReadyWf ((q, ids) :: rest) ↔
      (∀ e ∈ rest, q > e.1) ∧ ids ≠ [] ∧ ids.Pairwise (fun a b => tidLt a b = true) ∧ ReadyWf rest := by
  constructor
  · intro h
    have hp := h.prio
    simp only [List.map_cons, List.pairwise_cons] at hp
    refine ⟨fun e he => hp.1 e.1 (List.mem_map_of_mem he), h.ne _ List.mem_cons_self, h.asc _ List.mem_cons_self,
      ⟨hp.2, fun e he => h.ne e (List.mem_cons_of_mem _ he), fun e he => h.asc e (List.mem_cons_of_mem _ he)⟩⟩
  · rintro ⟨h1, h2, h3, h4⟩
    refine ⟨?_, ?_, ?_⟩
    · simp only [List.map_cons, List.pairwise_cons]
      refine ⟨?_, h4.prio⟩
      intro a ha
      obtain ⟨e, he, rfl⟩ := List.mem_map.mp ha
      exact h1 e he
    · intro e he
      rcases List.mem_cons.mp he with e1 | e1
      · subst e1; exact h2
      · exact h4.ne e e1
    · intro e he
      rcases List.mem_cons.mp he with e1 | e1
      · subst e1; exact h3
      · exact h4.asc e e1

theorem mem_rPairs_cons {x : Int × TaskId} {q : Int} {ids : List TaskId} {rest : List (Int × List TaskId)} :
    x ∈ rPairs ((q, ids) :: rest) ↔ (x.1 = q ∧ x.2 ∈ ids) ∨ x ∈ rPairs rest := by
  obtain ⟨p, id⟩ := x
  simp only [rPairs, List.flatMap_cons, List.mem_append, List.mem_map, Prod.mk.injEq]
  constructor
  · rintro (⟨a, ha, rfl, rfl⟩ | h)
    · exact Or.inl ⟨rfl, ha⟩
    · exact Or.inr h
  · rintro (⟨rfl, ha⟩ | h)
    · exact Or.inl ⟨id, ha, rfl, rfl⟩
    · exact Or.inr h

theorem rPairs_nil : rPairs [] = [] := rfl

/-- the priority of a pair is the priority of an entry -/
theorem fst_of_mem_rPairs {x : Int × TaskId} {ready : List (Int × List TaskId)} (h : x ∈ rPairs ready) :
    ∃ e ∈ ready, e.1 = x.1 := by
  obtain ⟨p, id⟩ := x
  obtain ⟨e, he, e1, _⟩ := mem_rPairs.mp h
  exact ⟨e, he, e1⟩

/-! ### `readyAdd` -/

theorem mem_rPairs_readyAdd {x : Int × TaskId} {ready : List (Int × List TaskId)} {t : TaskId} {p : Int} :
    x ∈ rPairs (readyAdd ready t p) ↔ x = (p, t) ∨ x ∈ rPairs ready := by
  induction ready with
  | nil =>
    obtain ⟨xp, xid⟩ := x
    simp only [readyAdd, mem_rPairs_cons, rPairs_nil, List.mem_singleton, List.not_mem_nil, or_false, Prod.mk.injEq]
  | cons e rest ih =>
    obtain ⟨q, ids⟩ := e
    obtain ⟨xp, xid⟩ := x
    simp only [readyAdd]
    split
    · rename_i e; subst e
      simp only [mem_rPairs_cons, mem_insertTid, Prod.mk.injEq]
      grind
    · split
      · simp only [mem_rPairs_cons, List.mem_singleton, Prod.mk.injEq]
      · simp only [mem_rPairs_cons, ih, Prod.mk.injEq]
        grind

theorem fst_readyAdd {ready : List (Int × List TaskId)} {t : TaskId} {p : Int} {e : Int × List TaskId}
    (h : e ∈ readyAdd ready t p) : e.1 = p ∨ ∃ e' ∈ ready, e'.1 = e.1 := by
  induction ready with
  | nil => simp only [readyAdd, List.mem_singleton] at h; subst h; exact Or.inl rfl
  | cons e0 rest ih =>
    obtain ⟨q, ids⟩ := e0
    simp only [readyAdd] at h
    split at h
    · rename_i e1
      rcases List.mem_cons.mp h with e2 | e2
      · subst e2; exact Or.inl e1.symm
      · exact Or.inr ⟨e, List.mem_cons_of_mem _ e2, rfl⟩
    · split at h
      · rcases List.mem_cons.mp h with e2 | e2
        · subst e2; exact Or.inl rfl
        · exact Or.inr ⟨e, e2, rfl⟩
      · rcases List.mem_cons.mp h with e2 | e2
        · subst e2; exact Or.inr ⟨_, List.mem_cons_self, rfl⟩
        · rcases ih e2 with e3 | ⟨e', he', e3⟩
          · exact Or.inl e3
          · exact Or.inr ⟨e', List.mem_cons_of_mem _ he', e3⟩

theorem readyAdd_wf {ready : List (Int × List TaskId)} {t : TaskId} {p : Int} (h : ReadyWf ready) :
    ReadyWf (readyAdd ready t p) := by
  induction ready with
  | nil =>
    simp only [readyAdd]
    exact readyWf_cons.mpr ⟨by simp, by simp, by simp, readyWf_nil⟩
  | cons e0 rest ih =>
    obtain ⟨q, ids⟩ := e0
    obtain ⟨h1, h2, h3, h4⟩ := readyWf_cons.mp h
    simp only [readyAdd]
    split
    · exact readyWf_cons.mpr ⟨h1, insertTid_ne_nil _ _, insertTid_asc h3, h4⟩
    · rename_i hne
      split
      · rename_i hgt
        refine readyWf_cons.mpr ⟨?_, by simp, by simp, h⟩
        intro e he
        rcases List.mem_cons.mp he with e1 | e1
        · subst e1; exact hgt
        · have := h1 e e1; omega
      · rename_i hngt
        refine readyWf_cons.mpr ⟨?_, h2, h3, ih h4⟩
        intro e he
        rcases fst_readyAdd he with e1 | ⟨e', he', e1⟩
        · omega
        · have := h1 e' he'; omega

/-- `readyAdd` is the identity on a well-formed list that already contains the pair -/
theorem readyAdd_of_mem {ready : List (Int × List TaskId)} {t : TaskId} {p : Int} (h : ReadyWf ready)
    (hm : (p, t) ∈ rPairs ready) : readyAdd ready t p = ready := by
  induction ready with
  | nil => cases hm
  | cons e0 rest ih =>
    obtain ⟨q, ids⟩ := e0
    obtain ⟨h1, h2, h3, h4⟩ := readyWf_cons.mp h
    have hrest : (p, t) ∈ rPairs rest → q > p := by
      intro hr
      obtain ⟨e, he, e1⟩ := fst_of_mem_rPairs hr
      have := h1 e he
      simp only at e1; omega
    simp only [readyAdd]
    rcases mem_rPairs_cons.mp hm with ⟨e1, e2⟩ | hr
    · simp only at e1 e2
      subst e1
      simp only [if_true]
      rw [insertTid_of_mem h3 e2]
    · have := hrest hr
      have c1 : ¬ p = q := by omega
      have c2 : ¬ p > q := by omega
      simp only [c1, c2, if_false]
      rw [ih h4 hr]

/-! ### `readyAddMany` -/

theorem mem_rPairs_readyAddMany {x : Int × TaskId} {ts : List TaskId} {ready : List (Int × List TaskId)} {p : Int} :
    x ∈ rPairs (readyAddMany ready ts p) ↔ (x.1 = p ∧ x.2 ∈ ts) ∨ x ∈ rPairs ready := by
  unfold readyAddMany
  induction ts generalizing ready with
  | nil => simp
  | cons t rest ih =>
    obtain ⟨xp, xid⟩ := x
    simp only [List.foldl_cons, ih, mem_rPairs_readyAdd, List.mem_cons, Prod.mk.injEq]
    grind

theorem readyAddMany_wf {ts : List TaskId} {ready : List (Int × List TaskId)} {p : Int} (h : ReadyWf ready) :
    ReadyWf (readyAddMany ready ts p) := by
  unfold readyAddMany
  induction ts generalizing ready with
  | nil => exact h
  | cons t rest ih => simp only [List.foldl_cons]; exact ih (readyAdd_wf h)

/-! ### `readyRemove` -/

theorem mem_readyRemove {ready : List (Int × List TaskId)} {t : TaskId} {p : Int} {e : Int × List TaskId}
    (h : e ∈ readyRemove ready t p) : ∃ e' ∈ ready, e'.1 = e.1 ∧ ∀ x ∈ e.2, x ∈ e'.2 := by
  induction ready with
  | nil => simp [readyRemove] at h
  | cons e0 rest ih =>
    obtain ⟨q, ids⟩ := e0
    simp only [readyRemove] at h
    split at h
    · split at h
      · exact ⟨e, List.mem_cons_of_mem _ h, rfl, fun _ hx => hx⟩
      · rcases List.mem_cons.mp h with e1 | e1
        · subst e1; exact ⟨_, List.mem_cons_self, rfl, fun x hx => List.mem_of_mem_erase hx⟩
        · exact ⟨e, List.mem_cons_of_mem _ e1, rfl, fun _ hx => hx⟩
    · rcases List.mem_cons.mp h with e1 | e1
      · subst e1; exact ⟨_, List.mem_cons_self, rfl, fun _ hx => hx⟩
      · obtain ⟨e', he', a, b⟩ := ih e1
        exact ⟨e', List.mem_cons_of_mem _ he', a, b⟩

/-- without any hypothesis: the pairs after a removal are pairs of the list -/
theorem mem_rPairs_readyRemove_sub {x : Int × TaskId} {ready : List (Int × List TaskId)} {t : TaskId} {p : Int}
    (h : x ∈ rPairs (readyRemove ready t p)) : x ∈ rPairs ready := by
  obtain ⟨xp, xid⟩ := x
  obtain ⟨e, he, e1, hx⟩ := mem_rPairs.mp h
  obtain ⟨e', he', a, b⟩ := mem_readyRemove he
  exact mem_rPairs.mpr ⟨e', he', a.trans e1, b _ hx⟩

theorem readyRemove_wf {ready : List (Int × List TaskId)} {t : TaskId} {p : Int} (h : ReadyWf ready) :
    ReadyWf (readyRemove ready t p) := by
  induction ready with
  | nil => simp only [readyRemove]; exact readyWf_nil
  | cons e0 rest ih =>
    obtain ⟨q, ids⟩ := e0
    obtain ⟨h1, h2, h3, h4⟩ := readyWf_cons.mp h
    simp only [readyRemove]
    split
    · split
      · exact h4
      · rename_i hne
        refine readyWf_cons.mpr ⟨h1, ?_, List.Pairwise.sublist List.erase_sublist h3, h4⟩
        intro e; rw [e] at hne; simp at hne
    · refine readyWf_cons.mpr ⟨?_, h2, h3, ih h4⟩
      intro e he
      obtain ⟨e', he', a, _⟩ := mem_readyRemove he
      have := h1 e' he'; omega

/-- exact membership after a removal from a well-formed list -/
theorem mem_rPairs_readyRemove {x : Int × TaskId} {ready : List (Int × List TaskId)} {t : TaskId} {p : Int}
    (h : ReadyWf ready) : x ∈ rPairs (readyRemove ready t p) ↔ x ∈ rPairs ready ∧ x ≠ (p, t) := by
  induction ready with
  | nil => simp [readyRemove, rPairs_nil]
  | cons e0 rest ih =>
    obtain ⟨q, ids⟩ := e0
    obtain ⟨h1, h2, h3, h4⟩ := readyWf_cons.mp h
    obtain ⟨xp, xid⟩ := x
    have hrest : (xp, xid) ∈ rPairs rest → q > xp := by
      intro hr
      obtain ⟨e, he, e1⟩ := fst_of_mem_rPairs hr
      have := h1 e he
      simp only at e1; omega
    have hnd := nodup_of_asc h3
    simp only [readyRemove]
    split
    · rename_i e; subst e
      split
      · rename_i hemp
        have hemp' : ids.erase t = [] := by simpa using hemp
        have hall : ∀ y ∈ ids, y = t := by
          intro y hy
          by_cases e : y = t
          · exact e
          · have := (List.mem_erase_of_ne e).mpr hy
            rw [hemp'] at this; cases this
        simp only [mem_rPairs_cons, ne_eq, Prod.mk.injEq]
        constructor
        · intro hr
          exact ⟨Or.inr hr, fun e => by have := hrest hr; omega⟩
        · rintro ⟨⟨e1, e2⟩ | hr, hne⟩
          · exact absurd ⟨e1, hall _ e2⟩ hne
          · exact hr
      · simp only [mem_rPairs_cons, ne_eq, Prod.mk.injEq, hnd.mem_erase_iff]
        constructor
        · rintro (⟨e1, e2, e3⟩ | hr)
          · exact ⟨Or.inl ⟨e1, e3⟩, fun e => e2 e.2⟩
          · exact ⟨Or.inr hr, fun e => by have := hrest hr; omega⟩
        · rintro ⟨⟨e1, e2⟩ | hr, hne⟩
          · exact Or.inl ⟨e1, fun e => hne ⟨e1, e⟩, e2⟩
          · exact Or.inr hr
    · rename_i hpq
      simp only [mem_rPairs_cons, ih h4, ne_eq, Prod.mk.injEq]
      constructor
      · rintro (⟨e1, e2⟩ | ⟨hr, hne⟩)
        · exact ⟨Or.inl ⟨e1, e2⟩, fun e => hpq (e.1.symm.trans e1)⟩
        · exact ⟨Or.inr hr, hne⟩
      · rintro ⟨⟨e1, e2⟩ | hr, hne⟩
        · exact Or.inl ⟨e1, e2⟩
        · exact Or.inr ⟨hr, hne⟩

/-- removing a pair that is not there changes nothing -/
theorem readyRemove_of_not_mem {ready : List (Int × List TaskId)} {t : TaskId} {p : Int}
    (h : ReadyWf ready) (hm : (p, t) ∉ rPairs ready) : readyRemove ready t p = ready := by
  induction ready with
  | nil => rfl
  | cons e0 rest ih =>
    obtain ⟨q, ids⟩ := e0
    obtain ⟨h1, h2, h3, h4⟩ := readyWf_cons.mp h
    simp only [readyRemove]
    split
    · rename_i e; subst e
      have : t ∉ ids := fun hx => hm (mem_rPairs_cons.mpr (Or.inl ⟨rfl, hx⟩))
      rw [List.erase_of_not_mem this]
      have : ids.isEmpty = false := by cases ids with | nil => exact absurd rfl h2 | cons a b => rfl
      simp [this]
    · rw [ih h4 (fun hx => hm (mem_rPairs_cons.mpr (Or.inr hx)))]

/-! ### `Queue.remove` -/

/-- `TaskQueue::remove` looks into the prefill set first -/
theorem remove_cases (q : Queue) (t : TaskId) (p : Int) :
    (∃ pp ts, q.prefill = some (pp, ts) ∧ p = pp ∧ t ∈ ts ∧ q.remove t p = { q with prefill := some (pp, ts.erase t) }) ∨
    ((∀ pp ts, q.prefill = some (pp, ts) → ¬ (p = pp ∧ t ∈ ts)) ∧
      q.remove t p = { q with ready := readyRemove q.ready t p }) := by
  unfold Queue.remove
  split
  · rename_i pp ts hp
    split
    · rename_i hc
      simp only [Bool.and_eq_true, decide_eq_true_eq, List.contains_iff_mem] at hc
      exact Or.inl ⟨pp, ts, hp, hc.1, hc.2, rfl⟩
    · rename_i hc
      simp only [Bool.and_eq_true, decide_eq_true_eq, List.contains_iff_mem] at hc
      refine Or.inr ⟨?_, rfl⟩
      intro pp' ts' e
      rw [hp] at e; cases e
      exact hc
  · rename_i hp
    refine Or.inr ⟨?_, rfl⟩
    intro pp ts e
    rw [hp] at e; cases e

theorem remove_ready_wf {q : Queue} {t : TaskId} {p : Int} (h : ReadyWf q.ready) : ReadyWf (q.remove t p).ready := by
  rcases remove_cases q t p with ⟨pp, ts, _, _, _, e⟩ | ⟨_, e⟩ <;> rw [e]
  · exact h
  · exact readyRemove_wf h

theorem mem_rPairs_remove_sub {q : Queue} {t : TaskId} {p : Int} {x : Int × TaskId}
    (h : x ∈ rPairs (q.remove t p).ready) : x ∈ rPairs q.ready := by
  rcases remove_cases q t p with ⟨pp, ts, _, _, _, e⟩ | ⟨_, e⟩ <;> rw [e] at h
  · exact h
  · exact mem_rPairs_readyRemove_sub h

theorem mem_pfIds_remove_sub {q : Queue} {t : TaskId} {p : Int} {x : TaskId}
    (h : x ∈ pfIds (q.remove t p)) : x ∈ pfIds q := by
  rcases remove_cases q t p with ⟨pp, ts, hp, _, _, e⟩ | ⟨_, e⟩ <;> rw [e] at h
  · simp only [pfIds, hp] at h ⊢
    exact List.mem_of_mem_erase h
  · exact h

theorem pfIds_remove_nodup {q : Queue} {t : TaskId} {p : Int} (h : (pfIds q).Nodup) : (pfIds (q.remove t p)).Nodup := by
  rcases remove_cases q t p with ⟨pp, ts, hp, _, _, e⟩ | ⟨_, e⟩ <;> rw [e]
  · simp only [pfIds, hp] at h ⊢
    exact h.erase t
  · exact h

/-! ### `Queue.checkDispose` -/

theorem checkDispose_cases (q : Queue) (p : Int) :
    (∃ pp ts, q.prefill = some (pp, ts) ∧ pp < p ∧
      q.checkDispose p = ({ ready := readyAddMany q.ready ts pp, prefill := none }, ts)) ∨
    ((∀ pp ts, q.prefill = some (pp, ts) → ¬ pp < p) ∧ q.checkDispose p = (q, [])) := by
  unfold Queue.checkDispose
  split
  · rename_i pp ts hp
    split
    · rename_i hc
      exact Or.inl ⟨pp, ts, hp, hc, rfl⟩
    · rename_i hc
      refine Or.inr ⟨?_, rfl⟩
      intro pp' ts' e; rw [hp] at e; cases e; exact hc
  · rename_i hp
    refine Or.inr ⟨?_, rfl⟩
    intro pp ts e; rw [hp] at e; cases e

/-- the ids returned by `check_dispose_prefill`: the whole prefill set, if its priority is lower -/
theorem mem_checkDispose_snd {q : Queue} {p : Int} {x : TaskId} :
    x ∈ (q.checkDispose p).2 ↔ ∃ pp ts, q.prefill = some (pp, ts) ∧ pp < p ∧ x ∈ ts := by
  rcases checkDispose_cases q p with ⟨pp, ts, hp, hlt, e⟩ | ⟨hn, e⟩ <;> rw [e]
  · constructor
    · intro hx; exact ⟨pp, ts, hp, hlt, hx⟩
    · rintro ⟨pp', ts', hp', _, hx⟩
      rw [hp] at hp'; cases hp'; exact hx
  · constructor
    · intro hx; cases hx
    · rintro ⟨pp', ts', hp', hlt, _⟩
      exact absurd hlt (hn _ _ hp')

theorem checkDispose_ready_wf {q : Queue} {p : Int} (h : ReadyWf q.ready) : ReadyWf (q.checkDispose p).1.ready := by
  rcases checkDispose_cases q p with ⟨pp, ts, _, _, e⟩ | ⟨_, e⟩ <;> rw [e]
  · exact readyAddMany_wf h
  · exact h

theorem mem_rPairs_checkDispose {q : Queue} {p : Int} {x : Int × TaskId} :
    x ∈ rPairs (q.checkDispose p).1.ready ↔
      x ∈ rPairs q.ready ∨ ∃ pp ts, q.prefill = some (pp, ts) ∧ pp < p ∧ x.1 = pp ∧ x.2 ∈ ts := by
  rcases checkDispose_cases q p with ⟨pp, ts, hp, hlt, e⟩ | ⟨hn, e⟩ <;> rw [e]
  · simp only [mem_rPairs_readyAddMany]
    constructor
    · rintro (⟨e1, e2⟩ | hr)
      · exact Or.inr ⟨pp, ts, hp, hlt, e1, e2⟩
      · exact Or.inl hr
    · rintro (hr | ⟨pp', ts', hp', _, e1, e2⟩)
      · exact Or.inr hr
      · rw [hp] at hp'; cases hp'; exact Or.inl ⟨e1, e2⟩
  · constructor
    · intro hr; exact Or.inl hr
    · rintro (hr | ⟨pp', ts', hp', hlt, _⟩)
      · exact hr
      · exact absurd hlt (hn _ _ hp')

/-- the prefill set after `check_dispose_prefill`: unchanged (and not of lower priority), or disposed -/
theorem checkDispose_prefill {q : Queue} {p : Int} {pp : Int} {ts : List TaskId} :
    (q.checkDispose p).1.prefill = some (pp, ts) ↔ q.prefill = some (pp, ts) ∧ ¬ pp < p := by
  rcases checkDispose_cases q p with ⟨pp', ts', hp, hlt, e⟩ | ⟨hn, e⟩ <;> rw [e]
  · constructor
    · intro h; cases h
    · rintro ⟨h1, h2⟩
      rw [hp] at h1; cases h1; exact absurd hlt h2
  · constructor
    · intro h; exact ⟨h, hn _ _ h⟩
    · rintro ⟨h1, _⟩; exact h1

/-! ### `disposeAll`, `modifyQueue` -/

theorem length_disposeAll (qs : List Queue) (p : Int) : (disposeAll qs p).1.length = qs.length := by
  induction qs with
  | nil => rfl
  | cons q rest ih => simp only [disposeAll, List.length_cons, ih]

theorem mem_disposeAll_snd {qs : List Queue} {p : Int} {x : TaskId} :
    x ∈ (disposeAll qs p).2 ↔ ∃ q ∈ qs, x ∈ (q.checkDispose p).2 := by
  induction qs with
  | nil => simp [disposeAll]
  | cons q rest ih =>
    simp only [disposeAll, List.mem_append, ih, List.mem_cons, exists_eq_or_imp]

/-- the retracted ids are distinct if the prefill sets are duplicate-free and pairwise disjoint -/
theorem disposeAll_snd_nodup {qs : List Queue} {p : Int} (hnd : ∀ q ∈ qs, (pfIds q).Nodup)
    (hdis : qs.Pairwise (fun a b => ∀ x ∈ pfIds a, x ∉ pfIds b)) : (disposeAll qs p).2.Nodup := by
  have hsub : ∀ (q : Queue) x, x ∈ (q.checkDispose p).2 → x ∈ pfIds q := by
    intro q x hx
    obtain ⟨pp, ts, hp, _, hm⟩ := mem_checkDispose_snd.mp hx
    simp only [pfIds, hp]; exact hm
  induction qs with
  | nil => simp [disposeAll]
  | cons q rest ih =>
    rw [List.pairwise_cons] at hdis
    simp only [disposeAll]
    rw [List.nodup_append]
    refine ⟨?_, ih (fun q' hq' => hnd q' (List.mem_cons_of_mem _ hq')) hdis.2, ?_⟩
    · have hq := hnd q List.mem_cons_self
      rcases checkDispose_cases q p with ⟨pp, ts, hp, _, e⟩ | ⟨_, e⟩ <;> rw [e]
      · simpa [pfIds, hp] using hq
      · simp
    · intro x hx y hy exy
      subst exy
      obtain ⟨q', hq', hm⟩ := mem_disposeAll_snd.mp hy
      exact hdis.1 q' hq' x (hsub q x hx) (hsub q' x hm)

theorem length_modifyQueue (qs : List Queue) (i : Nat) (f : Queue → Queue) :
    (modifyQueue qs i f).length = qs.length := by
  unfold modifyQueue
  split <;> simp

end HqModel.Core.NPC
