import HqModel.Lemmas.SchedF2a
/-!
Lemmas for C15, part 7 (fragment F2): the exchange. From a solution `x` build `exch x …`: one more task of the
higher class `H`, only `k` tasks of the lower class `L`, the blockers of `L` re-set. It is feasible whenever the
resource row, the size of `H`'s batch and the cuts of `H` leave room for the extra task.
-/
namespace HqModel.Sched

def exch (x : Assign) (wid H L k : Nat) : Assign := fun v =>
  match v with
  | .P w' c => if w' = wid ∧ c = H then x (.P wid H) + 1 else if w' = wid ∧ c = L then k else x v
  | .B c s => if c = L then (if s ≤ k then 0 else 1) else x v
  | .R _ _ => x v

theorem exch_PH (x : Assign) (wid H L k : Nat) : exch x wid H L k (.P wid H) = x (.P wid H) + 1 := by
  simp [exch]

theorem exch_PL (x : Assign) (wid : Nat) {H L : Nat} (k : Nat) (hne : H ≠ L) : exch x wid H L k (.P wid L) = k := by
  have : ¬ L = H := fun e => hne e.symm
  simp [exch, this]

theorem exch_BH (x : Assign) (wid : Nat) {H L : Nat} (k s : Nat) (hne : H ≠ L) :
    exch x wid H L k (.B H s) = x (.B H s) := by
  simp [exch, hne]

theorem exch_BL (x : Assign) (wid H L k s : Nat) : exch x wid H L k (.B L s) = if s ≤ k then 0 else 1 := by
  simp [exch]

variable {inst : Instance} {w : Worker} {bs : List Batch} {bH bL : Batch}

theorem exch_feasible (h : TwoBatches inst w bs bH bL) {x : Assign} {k : Nat}
    (hx : Feasible (milpOf inst bs) x)
    (hk : k ≤ x (.P w.id bL.rq))
    (hres : inst.need bH.rq * (x (.P w.id bH.rq) + 1) + inst.need bL.rq * k ≤ w.free)
    (hsizeH : x (.P w.id bH.rq) + 1 ≤ bH.size)
    (hblL : ∀ cut ∈ bL.cuts, ∀ bl ∈ cut.blockers, bl.1 = bH.rq)
    (hblH : ∀ cut ∈ bH.cuts, ∀ bl ∈ cut.blockers, bl.1 = bL.rq ∧
      ((∃ s, bl.2 = some s ∧ s ≤ k) ∨ x (.P w.id bH.rq) + 1 ≤ cut.size)) :
    Feasible (milpOf inst bs) (exch x w.id bH.rq bL.rq k) := by
  have hne := h.ne
  refine ⟨fun r hr => ?_, fun v hv hb => ?_⟩
  · have hrx := hx.1 r hr
    rcases (TwoBatches.rows_iff inst bs).mp hr with hr | hr | hr | ⟨b, hb, hr⟩
    · -- resource row
      obtain ⟨hge, hbound, hlhs⟩ := h.resourceRow hr
      unfold Row.holds
      simp only [hge, Bool.false_eq_true, ↓reduceIte, hlhs, exch_PH, exch_PL _ _ _ hne, hbound]
      exact hres
    · -- size rows
      obtain ⟨hge, hs | hs⟩ := h.sizeRow hr
      · obtain ⟨_, hbound, hlhs⟩ := hs
        unfold Row.holds
        simp only [hge, Bool.false_eq_true, ↓reduceIte, hlhs, exch_PH, hbound]
        exact hsizeH
      · obtain ⟨_, hbound, hlhs⟩ := hs
        unfold Row.holds at hrx ⊢
        simp only [hge, Bool.false_eq_true, ↓reduceIte, hlhs, exch_PL _ _ _ hne, hbound] at hrx ⊢
        omega
    · -- blocker rows
      obtain ⟨c, s, hcv, hge, hbound, hterms⟩ := bRows_form hr
      by_cases hcH : c = bH.rq
      · subst hcH
        unfold Row.holds at hrx ⊢
        simp only [hge, ↓reduceIte, hbound, Row.lhs, hterms, h.countVarsOfH, List.map_cons, List.map_nil,
          List.cons_append, List.nil_append, List.sum_cons, List.sum_nil, exch_PH, exch_BH _ _ _ _ hne] at hrx ⊢
        omega
      · by_cases hcL : c = bL.rq
        · subst hcL
          unfold Row.holds
          simp only [hge, ↓reduceIte, hbound, Row.lhs, hterms, h.countVarsOfL, List.map_cons, List.map_nil,
            List.cons_append, List.nil_append, List.sum_cons, List.sum_nil, exch_PL _ _ _ hne, exch_BL]
          split <;> omega
        · rw [h.countVarsOf_other hcH hcL] at hcv
          simp at hcv
    · -- cut rows
      rcases h.mem_iff.mp hb with rfl | rfl
      · -- cuts of the higher class
        simp only [batchCutRows, h.countVarsH, List.isEmpty_cons, Bool.false_eq_true, ↓reduceIte] at hr
        obtain ⟨pre, cut, post, hcuts, hr⟩ := mem_cutRowsFrom hr
        have hcut : cut ∈ b.cuts := by rw [hcuts]; simp
        simp only [cutRows, List.mem_flatMap, List.mem_append] at hr
        obtain ⟨bl, hbl, hr⟩ := hr
        obtain ⟨hbl1, hbl2⟩ := hblH cut hcut bl hbl
        rcases hr with hr | hr
        · obtain ⟨hge, _, hf | hf⟩ := gapRows_form h.workers hr
          · obtain ⟨s, hs, hbound, hterms⟩ := hf
            unfold Row.holds
            simp only [hge, Bool.false_eq_true, ↓reduceIte, hbound, Row.lhs, hterms, theP, h.pH, hbl1,
              List.cons_append, List.nil_append, List.map_cons, List.map_nil, List.sum_cons, List.sum_nil,
              exch_PH, exch_BL]
            rcases hbl2 with ⟨s', hs', hle⟩ | hle
            · rw [hs] at hs'; cases hs'
              simp only [hle, ↓reduceIte]; omega
            · split <;> omega
          · obtain ⟨hs, hbound, hterms⟩ := hf
            unfold Row.holds
            simp only [hge, Bool.false_eq_true, ↓reduceIte, hbound, Row.lhs, hterms, theP, h.pH,
              List.map_cons, List.map_nil, List.sum_cons, List.sum_nil, exch_PH]
            rcases hbl2 with ⟨s', hs', _⟩ | hle
            · rw [hs] at hs'; cases hs'
            · omega
        · obtain ⟨hge, _, hf | hf⟩ := zeroRows_form h.workers hr
          · obtain ⟨s, hs, hbound, hterms⟩ := hf
            unfold Row.holds
            simp only [hge, Bool.false_eq_true, ↓reduceIte, hbound, Row.lhs, hterms, hbl1,
              List.map_cons, List.map_nil, List.sum_cons, List.sum_nil, exch_PH, exch_BL]
            rcases hbl2 with ⟨s', hs', hle⟩ | hle
            · rw [hs] at hs'; cases hs'
              simp only [hle, ↓reduceIte]; omega
            · split <;> omega
          · obtain ⟨hs, hbound, hterms⟩ := hf
            unfold Row.holds
            simp only [hge, Bool.false_eq_true, ↓reduceIte, hbound, Row.lhs, hterms,
              List.map_cons, List.map_nil, List.sum_cons, List.sum_nil, exch_PH]
            rcases hbl2 with ⟨s', hs', _⟩ | hle
            · rw [hs] at hs'; cases hs'
            · omega
      · -- cuts of the lower class: nothing grows
        simp only [batchCutRows, h.countVarsL, List.isEmpty_cons, Bool.false_eq_true, ↓reduceIte] at hr
        obtain ⟨pre, cut, post, hcuts, hr⟩ := mem_cutRowsFrom hr
        have hcut : cut ∈ b.cuts := by rw [hcuts]; simp
        simp only [cutRows, List.mem_flatMap, List.mem_append] at hr
        obtain ⟨bl, hbl, hr⟩ := hr
        have hbl1 := hblL cut hcut bl hbl
        have hPle : exch x w.id bH.rq b.rq k (.P w.id b.rq) ≤ x (.P w.id b.rq) := by
          rw [exch_PL _ _ _ hne]; exact hk
        rcases hr with hr | hr
        · obtain ⟨hge, _, hf | hf⟩ := gapRows_form h.workers hr
          · obtain ⟨s, _, _, hterms⟩ := hf
            refine holds_of_le hge (fun t ht => ?_) hrx
            rw [hterms] at ht
            simp only [theP, h.pL, ↓reduceIte, List.cons_append, List.nil_append, List.mem_cons,
              List.not_mem_nil, or_false] at ht
            rcases ht with rfl | rfl
            · exact hPle
            · simp only [hbl1, exch_BH _ _ _ _ hne]; exact Nat.le_refl _
          · obtain ⟨_, _, hterms⟩ := hf
            refine holds_of_le hge (fun t ht => ?_) hrx
            rw [hterms] at ht
            simp only [theP, h.pL, ↓reduceIte, List.mem_cons, List.not_mem_nil, or_false] at ht
            subst ht
            exact hPle
        · obtain ⟨hge, _, hf | hf⟩ := zeroRows_form h.workers hr
          · obtain ⟨s, _, _, hterms⟩ := hf
            refine holds_of_le hge (fun t ht => ?_) hrx
            rw [hterms] at ht
            simp only [List.mem_cons, List.not_mem_nil, or_false] at ht
            rcases ht with rfl | rfl
            · exact hPle
            · simp only [hbl1, exch_BH _ _ _ _ hne]; exact Nat.le_refl _
          · obtain ⟨_, _, hterms⟩ := hf
            refine holds_of_le hge (fun t ht => ?_) hrx
            rw [hterms] at ht
            simp only [List.mem_cons, List.not_mem_nil, or_false] at ht
            subst ht
            exact hPle
  · -- 0/1 variables
    have hxv := hx.2 v hv hb
    obtain ⟨var, wt⟩ := v
    cases var with
    | P w' c => simp [Var.isBool] at hb
    | R w' c => simpa [exch] using hxv
    | B c s =>
      simp only [exch]
      split
      · split <;> omega
      · exact hxv

end HqModel.Sched
