import HqModel.Lemmas.SysWOps
/-!
One scheduling round, part 1: the bookkeeping. `aItems m w t` / `pItems m w t` = the assigned variants / the prefill
entries for task `t` in the update record of worker `w` (`m : List WUpdate`, what `send_messages` turns into
`ComputeTasks` items). `TRelS` relates, for ONE task, its state before the round, its state now, and the items
entered for it so far; `SI` = `TRelS` for every task + one record per worker.
-/
namespace HqModel.Core
open HqModel HqModel.SysW

/-! ### items of the update list -/

def items {β : Type} (sel : WUpdate → List β) (m : List WUpdate) (w : Nat) : List β :=
  m.flatMap fun u => if u.w = w then sel u else []

def selA (t : TaskId) (u : WUpdate) : List Nat := (u.assigned.filter fun a => a.1 = t).map (·.2)
def selP (t : TaskId) (u : WUpdate) : List TaskId := u.prefills.filter fun x => x = t

def aItems (m : List WUpdate) (w : Nat) (t : TaskId) : List Nat := items (selA t) m w
def pItems (m : List WUpdate) (w : Nat) (t : TaskId) : List TaskId := items (selP t) m w

theorem items_nil_of_not_mem {β : Type} (sel : WUpdate → List β) {m : List WUpdate} {w : Nat}
    (h : w ∉ m.map (·.w)) : items sel m w = [] := by
  simp only [items, List.flatMap_eq_nil_iff]
  intro u hu
  have : u.w ≠ w := fun e => h (e ▸ List.mem_map_of_mem (f := (·.w)) hu)
  simp [this]

theorem items_cons {β : Type} (sel : WUpdate → List β) (u : WUpdate) (m : List WUpdate) (w : Nat) :
    items sel (u :: m) w = (if u.w = w then sel u else []) ++ items sel m w := by
  simp [items]

theorem items_append {β : Type} (sel : WUpdate → List β) (a b : List WUpdate) (w : Nat) :
    items sel (a ++ b) w = items sel a w ++ items sel b w := by
  simp [items]

theorem any_w_iff (m : List WUpdate) (w : Nat) : (m.any (·.w == w)) = true ↔ w ∈ m.map (·.w) := by
  simp only [List.any_eq_true, List.mem_map, beq_iff_eq]

/-- `updAt` keeps one record per worker -/
theorem updAt_ws {m : List WUpdate} {w : Nat} {f : WUpdate → WUpdate} (hf : ∀ u, (f u).w = u.w) :
    (updAt m w f).map (·.w) = if w ∈ m.map (·.w) then m.map (·.w) else m.map (·.w) ++ [w] := by
  unfold updAt
  by_cases ha : (m.any (·.w == w)) = true
  · rw [if_pos ha, if_pos ((any_w_iff m w).mp ha), List.map_map]
    apply List.map_congr_left
    intro u _
    simp only [Function.comp]
    split
    · exact hf u
    · rfl
  · rw [if_neg ha, if_neg (fun e => ha ((any_w_iff m w).mpr e)), List.map_append]
    simp [hf]

theorem updAt_nodup {m : List WUpdate} {w : Nat} {f : WUpdate → WUpdate} (hf : ∀ u, (f u).w = u.w)
    (hn : (m.map (·.w)).Nodup) : ((updAt m w f).map (·.w)).Nodup := by
  rw [updAt_ws hf]
  split
  · exact hn
  · rename_i h
    rw [List.nodup_append]
    exact ⟨hn, by simp, fun a ha b hb => by simp only [List.mem_singleton] at hb; subst hb; exact fun e => h (e ▸ ha)⟩

/-- the items after `updAt` with an `f` that appends `D` to the selection -/
theorem items_updAt {β : Type} (sel : WUpdate → List β) {m : List WUpdate} {w : Nat} {f : WUpdate → WUpdate} {D : List β}
    (hn : (m.map (·.w)).Nodup) (hf : ∀ u, (f u).w = u.w) (hsel : ∀ u, sel (f u) = sel u ++ D)
    (hsel0 : sel { w := w } = []) (w' : Nat) :
    items sel (updAt m w f) w' = items sel m w' ++ (if w = w' then D else []) := by
  unfold updAt
  by_cases ha : (m.any (·.w == w)) = true
  · rw [if_pos ha]
    have hmem := (any_w_iff m w).mp ha
    clear ha
    induction m with
    | nil => cases hmem
    | cons u rest ih =>
      simp only [List.map_cons, List.nodup_cons] at hn
      simp only [List.map_cons, items_cons]
      by_cases hu : u.w = w
      · have hrest : w ∉ rest.map (·.w) := hu ▸ hn.1
        have hid : rest.map (fun x => if (x.w == w) = true then f x else x) = rest := by
          rw [List.map_congr_left (g := id)]
          · simp
          · intro x hx
            have : x.w ≠ w := fun e => hrest (e ▸ List.mem_map_of_mem (f := (·.w)) hx)
            simp [this]
        simp only [hu, beq_self_eq_true, if_true, hid, hf, hsel]
        by_cases hw : w = w'
        · subst hw
          simp only [if_true]
          rw [items_nil_of_not_mem sel hrest]
          simp
        · simp [hw]
      · have hmem' : w ∈ rest.map (·.w) := by
          simp only [List.map_cons, List.mem_cons] at hmem
          exact hmem.resolve_left (fun e => hu e.symm)
        have hne : (u.w == w) = false := by simp [hu]
        simp only [hne, Bool.false_eq_true, if_false]
        rw [ih hn.2 hmem', List.append_assoc]
  · rw [if_neg ha, items_append]
    congr 1
    simp only [items, List.flatMap_cons, List.flatMap_nil, List.append_nil, hf, hsel, hsel0, List.nil_append]

/-- a selection that `f` does not change -/
theorem items_updAt_same {β : Type} (sel : WUpdate → List β) {m : List WUpdate} {w : Nat} {f : WUpdate → WUpdate}
    (hn : (m.map (·.w)).Nodup) (hf : ∀ u, (f u).w = u.w) (hsel : ∀ u, sel (f u) = sel u)
    (hsel0 : sel { w := w } = []) (w' : Nat) : items sel (updAt m w f) w' = items sel m w' := by
  have := items_updAt sel (D := []) hn hf (fun u => by rw [hsel u, List.append_nil]) hsel0 w'
  rw [this]; simp

/-- with one record per worker, a concatenated selection splits -/
theorem items_split {β : Type} (f g : WUpdate → List β) {m : List WUpdate} (hn : (m.map (·.w)).Nodup) (w : Nat) :
    items (fun u => f u ++ g u) m w = items f m w ++ items g m w := by
  induction m with
  | nil => rfl
  | cons u rest ih =>
    simp only [List.map_cons, List.nodup_cons] at hn
    simp only [items_cons, ih hn.2]
    by_cases hu : u.w = w
    · have hrest : w ∉ rest.map (·.w) := hu ▸ hn.1
      simp only [hu, if_true, items_nil_of_not_mem _ hrest, List.append_nil]
    · simp [hu]

theorem items_map {β γ : Type} (sel : WUpdate → List β) (h : β → γ) (m : List WUpdate) (w : Nat) :
    items (fun u => (sel u).map h) m w = (items sel m w).map h := by
  induction m with
  | nil => rfl
  | cons u rest ih =>
    simp only [items_cons, ih, List.map_append]
    split <;> rfl

/-! ### the per-task relation -/

def NoIt (A : Nat → List Nat) (P : Nat → List TaskId) (k : Nat) : Prop := (∀ w, A w = []) ∧ (∀ w, P w = []) ∧ k = 0

/-- state before the round `a`, state now `b`, assigned items `A`, prefill items `P` per worker, occurrences in the
multi-node list `k` -/
def TRelS (t : TaskId) (a b : Option TS) (A : Nat → List Nat) (P : Nat → List TaskId) (k : Nat) : Prop :=
  match a with
  | none => b = none ∧ NoIt A P k
  | some (.waiting n) =>
    (b = some (.waiting n) ∧ NoIt A P k) ∨
    (∃ w rv, b = some (.assigned w rv) ∧ A w = [rv] ∧ (∀ w', w' ≠ w → A w' = []) ∧ (∀ w', P w' = []) ∧ k = 0) ∨
    (∃ w, b = some (.prefilled w) ∧ P w = [t] ∧ (∀ w', w' ≠ w → P w' = []) ∧ (∀ w', A w' = []) ∧ k = 0) ∨
    (∃ ws, b = some (.runningMN ws) ∧ (∀ w', A w' = []) ∧ (∀ w', P w' = []) ∧ k = 1)
  | some st0 => NoIt A P k ∧ ∃ st, b = some st ∧ owner st = owner st0 ∧ ¬ isWaiting st

structure SI (c0 s : State) (m : List WUpdate) (acc : List TaskId) : Prop where
  nd : (m.map (·.w)).Nodup
  t : ∀ t, TRelS t (stOf c0.tasks t) (stOf s.tasks t) (fun w => aItems m w t) (fun w => pItems m w t) (acc.count t)

theorem SI.init (c : State) : SI c c [] [] := by
  refine ⟨List.nodup_nil, fun t => ?_⟩
  have hno : NoIt (fun w => aItems [] w t) (fun w => pItems [] w t) (([] : List TaskId).count t) :=
    ⟨fun _ => rfl, fun _ => rfl, rfl⟩
  cases hs : stOf c.tasks t with
  | none => exact ⟨rfl, hno⟩
  | some st =>
    cases st with
    | waiting n => exact .inl ⟨rfl, hno⟩
    | assigned w v => exact ⟨hno, _, rfl, rfl, fun h => h⟩
    | prefilled w => exact ⟨hno, _, rfl, rfl, fun h => h⟩
    | retracting w => exact ⟨hno, _, rfl, rfl, fun h => h⟩
    | running w v => exact ⟨hno, _, rfl, rfl, fun h => h⟩
    | runningMN l => exact ⟨hno, _, rfl, rfl, fun h => h⟩
    | finished => exact ⟨hno, _, rfl, rfl, fun h => h⟩

/-- a step that touches only the tasks in `K` -/
theorem SI.step {c0 s s' : State} {m m' : List WUpdate} {acc acc' : List TaskId} (h : SI c0 s m acc)
    (hnd : (m'.map (·.w)).Nodup) (K : TaskId → Prop)
    (hsame : ∀ t, ¬ K t → stOf s'.tasks t = stOf s.tasks t ∧ (∀ w, aItems m' w t = aItems m w t) ∧
      (∀ w, pItems m' w t = pItems m w t) ∧ acc'.count t = acc.count t)
    (hK : ∀ t, K t → TRelS t (stOf c0.tasks t) (stOf s'.tasks t) (fun w => aItems m' w t) (fun w => pItems m' w t)
      (acc'.count t)) : SI c0 s' m' acc' := by
  refine ⟨hnd, fun t => ?_⟩
  by_cases hk : K t
  · exact hK t hk
  · obtain ⟨a, b, c, d⟩ := hsame t hk
    have := h.t t
    rw [a, d]
    have eA : (fun w => aItems m' w t) = fun w => aItems m w t := funext b
    have eP : (fun w => pItems m' w t) = fun w => pItems m w t := funext c
    rw [eA, eP]
    exact this

/-- only the state (tasks, update list, multi-node list) the relation reads matters -/
theorem SI.congr {c0 s s' : State} {m : List WUpdate} {acc : List TaskId} (h : SI c0 s m acc) (e : s'.tasks = s.tasks) :
    SI c0 s' m acc :=
  ⟨h.nd, fun t => by rw [e]; exact h.t t⟩

/-- the state now of a task that is Waiting now: it was Waiting before the round and nothing was entered for it -/
theorem TRelS.of_waiting {t : TaskId} {a : Option TS} {n : Nat} {A : Nat → List Nat} {P : Nat → List TaskId} {k : Nat}
    (h : TRelS t a (some (.waiting n)) A P k) : a = some (.waiting n) ∧ NoIt A P k := by
  cases a with
  | none => obtain ⟨e, _⟩ := h; cases e
  | some st0 =>
    cases st0 with
    | waiting n0 =>
      rcases h with ⟨e, hn⟩ | ⟨_, _, e, _⟩ | ⟨_, e, _⟩ | ⟨_, e, _⟩
      · cases e; exact ⟨rfl, hn⟩
      · cases e
      · cases e
      · cases e
    | assigned w v => obtain ⟨_, st, e, _, hw⟩ := h; cases e; exact (hw trivial).elim
    | prefilled w => obtain ⟨_, st, e, _, hw⟩ := h; cases e; exact (hw trivial).elim
    | retracting w => obtain ⟨_, st, e, _, hw⟩ := h; cases e; exact (hw trivial).elim
    | running w v => obtain ⟨_, st, e, _, hw⟩ := h; cases e; exact (hw trivial).elim
    | runningMN l => obtain ⟨_, st, e, _, hw⟩ := h; cases e; exact (hw trivial).elim
    | finished => obtain ⟨_, st, e, _, hw⟩ := h; cases e; exact (hw trivial).elim

end HqModel.Core
