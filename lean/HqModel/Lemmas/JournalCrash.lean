import HqModel.Lemmas.JournalInv
/-!
The crash-counter part of the simulation invariant (restart clause of C07): the restorer's `crash_counter` of a task
equals the number of failure-losses of its root worker while it was running, as `meaning` counts them.
-/
namespace HqModel.Journal

/-- `conn` = connected workers, `mw` = highest worker id seen (both from the abstract state) -/
structure CrashRel (conn : List Nat) (mw : Nat) (rj : RJob) (aj : AJob) : Prop where
  crash : ∀ a ∈ aj.tasks, a.crashes = ((alGet rj.tasks a.id).map (·.crash)).getD 0
  /-- a task running according to the journal is `Running` on the same workers in the restorer -/
  run1 : ∀ a ∈ aj.tasks, ∀ ws, a.run = some ws → ∃ ti i, alGet rj.tasks a.id = some ti ∧ ti.state = .running ⟨i, ws⟩
  /-- a stale `Running` entry (its root was lost, or the server restarted) names a root that is not connected -/
  run2 : ∀ a ∈ aj.tasks, a.run = none → ∀ ti sd root, alGet rj.tasks a.id = some ti → ti.state = .running sd →
    sd.workers.head? = some root → root ∉ conn
  run3 : ∀ t ti sd root, alGet rj.tasks t = some ti → ti.state = .running sd → sd.workers.head? = some root → root ≤ mw

/-- the per-job simulation relation -/
def JR (conn : List Nat) (mw : Nat) (rj : RJob) (aj : AJob) : Prop := JobRel rj aj ∧ CrashRel conn mw rj aj

structure Inv (R : Restorer) (A : AState) : Prop where
  jobs : AlRel (JR A.workers A.maxWorker) R.jobs A.jobs
  queues : R.queues = A.queues
  maxJob : R.maxJob = A.maxJob
  maxWorker : R.maxWorker = A.maxWorker
  maxQueue : R.maxQueue = A.maxQueue
  uid : R.uid = A.uid

theorem inv_init : Inv {} {} := ⟨.nil, rfl, rfl, rfl, rfl, rfl⟩

theorem AlRel.imp {P Q : β → γ → Prop} {l : List (Nat × β)} {m : List (Nat × γ)} (h : AlRel P l m)
    (hpq : ∀ b c, P b c → Q b c) : AlRel Q l m := by
  induction h with
  | nil => exact .nil
  | cons hp _ ih => exact .cons (hpq _ _ hp) ih

theorem Inv.getJob {R : Restorer} {A : AState} (h : Inv R A) {j : Nat} {aj : AJob} (ha : alGet A.jobs j = some aj) :
    ∃ rj, alGet R.jobs j = some rj ∧ JobRel rj aj ∧ CrashRel A.workers A.maxWorker rj aj := by
  rcases h.jobs.get j with ⟨_, h2⟩ | ⟨b, c, h1, h2, h3⟩
  · rw [ha] at h2; cases h2
  · rw [ha] at h2; cases h2; exact ⟨b, h1, h3.1, h3.2⟩

theorem Inv.setJob {R : Restorer} {A : AState} (h : Inv R A) (j : Nat) {rj : RJob} {aj : AJob} (hr : JobRel rj aj)
    (hc : CrashRel A.workers A.maxWorker rj aj) :
    Inv { R with jobs := alSet R.jobs j rj } { A with jobs := alSet A.jobs j aj } :=
  ⟨h.jobs.set j ⟨hr, hc⟩, h.queues, h.maxJob, h.maxWorker, h.maxQueue, h.uid⟩

theorem CrashRel.mono {conn conn' : List Nat} {mw mw' : Nat} {rj : RJob} {aj : AJob} (h : CrashRel conn mw rj aj)
    (hc : ∀ x ∈ conn', x ∈ conn) (hm : mw ≤ mw') : CrashRel conn' mw' rj aj :=
  ⟨h.crash, h.run1, fun a ha hr ti sd root h1 h2 h3 hmem => h.run2 a ha hr ti sd root h1 h2 h3 (hc root hmem),
   fun t ti sd root h1 h2 h3 => Nat.le_trans (h.run3 t ti sd root h1 h2 h3) hm⟩

theorem CrashRel.connect {conn : List Nat} {mw w : Nat} {rj : RJob} {aj : AJob} (h : CrashRel conn mw rj aj)
    (hw : mw < w) : CrashRel (w :: conn) (max mw w) rj aj :=
  ⟨h.crash, h.run1, fun a ha hr ti sd root h1 h2 h3 hmem => by
      rcases List.mem_cons.1 hmem with e | hmem
      · have := h.run3 a.id ti sd root h1 h2 h3; omega
      · exact h.run2 a ha hr ti sd root h1 h2 h3 hmem,
   fun t ti sd root h1 h2 h3 => Nat.le_trans (h.run3 t ti sd root h1 h2 h3) (Nat.le_max_left _ _)⟩

/-- generic "one task changes" step of the crash relation -/
theorem CrashRel.updTask {conn : List Nat} {mw : Nat} {rj : RJob} {aj : AJob} (h : CrashRel conn mw rj aj) (t : Nat)
    (f : ATask → ATask) (ti' : RTask) (hid : ∀ a, (f a).id = a.id)
    (hc : ∀ a ∈ aj.tasks, a.id = t → (f a).crashes = ti'.crash ∧
      (∀ ws, (f a).run = some ws → ∃ i, ti'.state = .running ⟨i, ws⟩) ∧
      ((f a).run = none → ∀ sd root, ti'.state = .running sd → sd.workers.head? = some root → root ∉ conn))
    (h3 : ∀ sd root, ti'.state = .running sd → sd.workers.head? = some root → root ≤ mw) :
    CrashRel conn mw { rj with tasks := alSet rj.tasks t ti' }
      { aj with tasks := aj.tasks.map fun a => if a.id = t then f a else a } := by
  have hid' : ∀ a : ATask, (if a.id = t then f a else a).id = a.id := by intro a; split <;> simp [hid]
  refine ⟨?_, ?_, ?_, ?_⟩
  · intro a' ha'
    obtain ⟨a, ha, rfl⟩ := List.mem_map.1 ha'
    rw [hid' a]
    by_cases hat : a.id = t
    · simp only [hat, if_true, alGet_set_self, Option.map_some, Option.getD_some]
      exact (hc a ha hat).1
    · have : t ≠ a.id := fun e => hat e.symm
      simp only [hat, if_false, alGet_set_ne _ _ this]
      exact h.crash a ha
  · intro a' ha' ws hr
    obtain ⟨a, ha, rfl⟩ := List.mem_map.1 ha'
    rw [hid' a]
    by_cases hat : a.id = t
    · simp only [hat, if_true] at hr
      obtain ⟨i, hi⟩ := (hc a ha hat).2.1 ws hr
      exact ⟨ti', i, by simp [hat, alGet_set_self], hi⟩
    · have : t ≠ a.id := fun e => hat e.symm
      simp only [hat, if_false] at hr
      simp only [alGet_set_ne _ _ this]
      exact h.run1 a ha ws hr
  · intro a' ha' hr ti sd root h1 h2 hh
    obtain ⟨a, ha, rfl⟩ := List.mem_map.1 ha'
    rw [hid' a] at h1
    by_cases hat : a.id = t
    · simp only [hat, if_true] at hr
      simp only [hat, alGet_set_self, Option.some.injEq] at h1
      subst h1
      exact (hc a ha hat).2.2 hr sd root h2 hh
    · have : t ≠ a.id := fun e => hat e.symm
      simp only [hat, if_false] at hr
      rw [alGet_set_ne _ _ this] at h1
      exact h.run2 a ha hr ti sd root h1 h2 hh
  · intro t' ti sd root h1 h2 hh
    simp only [alGet_set] at h1
    split at h1
    · cases h1; exact h3 sd root h2 hh
    · exact h.run3 t' ti sd root h1 h2 hh

/-- the crash bump of `increase_crash_counters` on one entry -/
def bump (w : Nat) (b : Bool) (t : RTask) : RTask :=
  if b then
    match t.state with
    | .running sd => if sd.workers.head? == some w then { t with crash := t.crash + 1 } else t
    | _ => t
  else t

theorem bump_state (w : Nat) (b : Bool) (t : RTask) : (bump w b t).state = t.state ∧ (bump w b t).inst = t.inst := by
  unfold bump
  split
  · split
    · split <;> simp
    · simp
  · simp

theorem bump_crash_running (w : Nat) (b : Bool) (t : RTask) (sd : Started) (h : t.state = .running sd) :
    (bump w b t).crash = if b && (sd.workers.head? == some w) then t.crash + 1 else t.crash := by
  unfold bump
  cases b with
  | false => simp
  | true =>
    simp only [if_true, h, Bool.true_and]
    split <;> simp_all

theorem bump_crash_other (w : Nat) (b : Bool) (t : RTask) (h : ∀ sd, t.state ≠ .running sd) :
    (bump w b t).crash = t.crash := by
  unfold bump
  split
  · split
    · rename_i sd hs; exact absurd hs (h sd)
    · rfl
  · rfl

theorem lose_id (w : Nat) (b : Bool) (a : ATask) : (a.lose w b).id = a.id := (lose_fields w b a).1

/-- `WorkerLost w`: both sides count the crash for exactly the tasks whose root worker is `w` -/
theorem CrashRel.workerLost {conn : List Nat} {mw : Nat} {rj rj' : RJob} {aj : AJob} (h : CrashRel conn mw rj aj)
    (w : Nat) (b : Bool) (hw : w ∈ conn) (hget : ∀ t, alGet rj'.tasks t = (alGet rj.tasks t).map (bump w b)) :
    CrashRel (conn.filter (· != w)) mw rj' { aj with tasks := aj.tasks.map (ATask.lose w b) } := by
  refine ⟨?_, ?_, ?_, ?_⟩
  · intro a' ha'
    obtain ⟨a, ha, rfl⟩ := List.mem_map.1 ha'
    rw [lose_id, hget]
    have hcr := h.crash a ha
    cases hrun : a.run with
    | none =>
      have hl : a.lose w b = a := by simp [ATask.lose, hrun]
      rw [hl, hcr]
      cases hg : alGet rj.tasks a.id with
      | none => rfl
      | some ti =>
        simp only [Option.map_some, Option.getD_some]
        by_cases hr : ∃ sd, ti.state = .running sd
        · obtain ⟨sd, hsd⟩ := hr
          rw [bump_crash_running w b ti sd hsd]
          by_cases hh : sd.workers.head? = some w
          · exact absurd hw (h.run2 a ha hrun ti sd w hg hsd hh)
          · have : (sd.workers.head? == some w) = false := by simpa using hh
            simp [this]
        · rw [bump_crash_other w b ti (fun sd hsd => hr ⟨sd, hsd⟩)]
    | some ws =>
      obtain ⟨ti, i, hg, hst⟩ := h.run1 a ha ws hrun
      rw [hg] at hcr ⊢
      simp only [Option.map_some, Option.getD_some] at hcr ⊢
      rw [bump_crash_running w b ti _ hst]
      cases ws with
      | nil => simp [ATask.lose, hrun, hcr]
      | cons root rest =>
        by_cases hroot : root = w
        · subst hroot
          cases b <;> simp [ATask.lose, hrun, hcr]
        · have : ((root :: rest).head? == some w) = false := by simpa using hroot
          simp [ATask.lose, hrun, hroot, hcr, this]
  · intro a' ha' ws hr
    obtain ⟨a, ha, rfl⟩ := List.mem_map.1 ha'
    rw [lose_id, hget]
    have hrun : a.run = some ws := by
      unfold ATask.lose at hr
      split at hr
      · split at hr
        · simp at hr
        · exact hr
      · exact hr
    obtain ⟨ti, i, hg, hst⟩ := h.run1 a ha ws hrun
    exact ⟨bump w b ti, i, by simp [hg], by rw [(bump_state w b ti).1, hst]⟩
  · intro a' ha' hr ti' sd root h1 h2 hh
    obtain ⟨a, ha, rfl⟩ := List.mem_map.1 ha'
    rw [lose_id, hget] at h1
    cases hg : alGet rj.tasks a.id with
    | none => simp [hg] at h1
    | some ti =>
      simp only [hg, Option.map_some, Option.some.injEq] at h1
      subst h1
      rw [(bump_state w b ti).1] at h2
      intro hmem
      have hmem' := List.mem_filter.1 hmem
      cases hrun : a.run with
      | none => exact h.run2 a ha hrun ti sd root hg h2 hh hmem'.1
      | some ws =>
        obtain ⟨ti0, i, hg0, hst0⟩ := h.run1 a ha ws hrun
        rw [hg] at hg0; cases hg0
        rw [hst0] at h2; cases h2
        -- the task was running on `ws`; it lost its `run` only if the root is `w`
        cases ws with
        | nil => simp at hh
        | cons r rest =>
          simp only [List.head?_cons, Option.some.injEq] at hh
          subst hh
          by_cases hrw : r = w
          · subst hrw; simp at hmem'
          · simp [ATask.lose, hrun, hrw] at hr
  · intro t ti' sd root h1 h2 hh
    rw [hget] at h1
    cases hg : alGet rj.tasks t with
    | none => simp [hg] at h1
    | some ti =>
      simp only [hg, Option.map_some, Option.some.injEq] at h1
      subst h1
      rw [(bump_state w b ti).1] at h2
      exact h.run3 t ti sd root hg h2 hh

end HqModel.Journal
