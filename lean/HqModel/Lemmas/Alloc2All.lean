import HqModel.Lemmas.Alloc2NoStop
/-!
From the operation to the claim of one entry: in a successful `try_allocate` of a request with distinct resource ids,
an entry that does not go through the group solver (`all`, `scatter`, everything on list/range/sum resources) is
answered by `ResourcePool::claim_resources` executed on the pool of the state, after its admission test passed
(`tryAllocate_plain_claim`). Plus: the grouped pools `ResourceAllocator::new` creates.
-/
namespace HqModel.Alloc

theorem claimPlain_subset {picks : Choices} {pools pools' : List Pool} {rq : Request} {al al' : Allocation}
    (h : claimPlain picks pools rq al = .ok (pools', al')) : ∀ ra ∈ al, ra ∈ al' := by
  induction rq generalizing pools al with
  | nil =>
    simp only [claimPlain, Except.ok.injEq, Prod.mk.injEq] at h
    rw [← h.2]; exact fun _ h => h
  | cons e es ih =>
    simp only [claimPlain] at h
    split at h
    · cases h
    · split at h
      · exact ih h
      · split at h
        · cases h
        · intro ra hra
          exact ih h ra (List.mem_append_left _ hra)

theorem claimCoupled_subset {picks : Choices} {pools pools' : List Pool} {es : List Entry} {sets : List (List Nat)}
    {al al' : Allocation} (h : claimCoupled picks pools es sets al = .ok (pools', al')) : ∀ ra ∈ al, ra ∈ al' := by
  induction es generalizing pools al sets with
  | nil =>
    simp only [claimCoupled, Except.ok.injEq, Prod.mk.injEq] at h
    rw [← h.2]; exact fun _ h => h
  | cons e es ih =>
    cases sets with
    | nil =>
      simp only [claimCoupled, Except.ok.injEq, Prod.mk.injEq] at h
      rw [← h.2]; exact fun _ h => h
    | cons set sets =>
      simp only [claimCoupled] at h
      split at h
      · cases h
      · split at h
        · cases h
        · intro ra hra
          exact ih h ra (List.mem_append_left _ hra)

/-- the first loop of `claim_resources` answers a plain entry by the claim on the pool the loop started with -/
theorem claimPlain_mem {picks : Choices} {pools pools' : List Pool} {rq : Request} {al al' : Allocation}
    (hnd : (rq.map (·.rid)).Nodup) (h : claimPlain picks pools rq al = .ok (pools', al')) {e : Entry} (he : e ∈ rq)
    {pool : Pool} (hp : pools[e.rid]? = some pool)
    (hnc : (pool.isGroups && e.policy.relevantForCoupling) = false) :
    ∃ p' ra, pool.claim e (picks.pick e.rid) = .ok (p', ra) ∧ ra ∈ al' := by
  induction rq generalizing pools al with
  | nil => cases he
  | cons x xs ih =>
    obtain ⟨hx, hxs⟩ := List.nodup_cons.mp hnd
    simp only [claimPlain] at h
    split at h
    · cases h
    · rename_i poolx hpx
      rcases List.mem_cons.mp he with rfl | he'
      · rw [hp] at hpx
        cases hpx
        rw [hnc] at h
        simp only [Bool.false_eq_true, if_false] at h
        split at h
        · cases h
        · rename_i p' ra hc
          exact ⟨p', ra, hc, claimPlain_subset h ra (by simp)⟩
      · have hne : e.rid ≠ x.rid := fun heq => hx (List.mem_map.mpr ⟨e, he', heq⟩)
        split at h
        · exact ih hxs h he' hp
        · split at h
          · cases h
          · refine ih hxs h he' ?_
            simp only [setPool]
            rw [List.getElem?_set_ne (fun h' => hne h'.symm)]
            exact hp

/-- **from the operation to the claim of a plain entry** -/
theorem tryAllocate_plain_claim {s s' : State} {h : Nat} {rq : Request} {ch : Choices} {al : Allocation}
    (hstep : tryAllocate s h rq ch = .ok (some al, s')) (hnd : (rq.map (·.rid)).Nodup) {e : Entry} (he : e ∈ rq)
    {pool : Pool} (hp : s.pools[e.rid]? = some pool)
    (hnc : (pool.isGroups && e.policy.relevantForCoupling) = false) :
    entryHasResources s.pools s.concise e = true ∧
      ∃ p' ra, pool.claim e (ch.pick e.rid) = .ok (p', ra) ∧ ra ∈ al := by
  unfold tryAllocate at hstep
  split at hstep
  · cases hstep
  · cases hstep
  · cases hstep
  · rename_i cache sols1 hhr
    refine ⟨hasResources_true hhr e he, ?_⟩
    split at hstep
    · cases hstep
    · cases hstep
    · rename_i pools al' hcl
      split at hstep
      · cases hstep
      · simp only [Except.ok.injEq, Prod.mk.injEq, Option.some.injEq] at hstep
        obtain ⟨rfl, -⟩ := hstep
        unfold claimResources at hcl
        split at hcl
        · cases hcl
        · rename_i pools1 al1 h1
          obtain ⟨p', ra, hc, hra⟩ := claimPlain_mem hnd h1 he hp hnc
          refine ⟨p', ra, hc, ?_⟩
          dsimp only at hcl
          by_cases hce : (coupledEntries s.pools rq).isEmpty = true
          · rw [if_pos hce] at hcl
            simp only [Except.ok.injEq, Prod.mk.injEq] at hcl
            rw [← hcl.2.1]; exact hra
          · rw [if_neg hce] at hcl
            split at hcl
            · cases hcl
            · split at hcl
              · cases hcl
              · cases hcl
              · split at hcl
                · cases hcl
                · rename_i pools2 al2 h2
                  simp only [Except.ok.injEq, Prod.mk.injEq] at hcl
                  rw [← hcl.2.1]
                  exact (normalize_perm' al2).mem_iff.mpr (claimCoupled_subset h2 ra hra)

/-! ### the pools `ResourceAllocator::new` creates -/

theorem placeItems_created (ps : List Pool) (items : List (Nat × Kind))
    (h : ∀ p ∈ ps, p = .empty ∨ ∃ k, p = Pool.new k) :
    ∀ p ∈ placeItems ps items, p = .empty ∨ ∃ k, p = Pool.new k := by
  induction items generalizing ps with
  | nil => simpa [placeItems] using h
  | cons it rest ih =>
    obtain ⟨rid, k⟩ := it
    simp only [placeItems]
    apply ih
    intro p hp
    rcases List.mem_or_eq_of_mem_set hp with hp | rfl
    · exact h p hp
    · exact .inr ⟨k, rfl⟩

theorem init_created {d : Descriptor} {s₀ : State} (h : State.init d = some s₀) :
    ∀ p ∈ s₀.pools, p = .empty ∨ ∃ k, p = Pool.new k := by
  unfold State.init at h
  split at h
  · cases h
  · dsimp only at h
    split at h
    · cases h
    · simp only [Option.some.injEq] at h
      subst h
      apply placeItems_created
      intro p hp
      exact .inl (List.eq_of_mem_replicate hp)

/-- a grouped pool of the initial state was built from a `Groups` descriptor item -/
theorem init_groups {d : Descriptor} {s₀ : State} (h : State.init d = some s₀) {rid full : Nat} {gs₀ : List Group}
    (hp : s₀.pools[rid]? = some (.groups full gs₀)) :
    ∃ sizes, full = sizes.sum * FPU ∧ gs₀ = groupsFrom 0 sizes := by
  rcases init_created h _ (List.mem_of_getElem? hp) with h0 | ⟨k, hk⟩
  · cases h0
  · cases k with
    | groups sizes =>
      simp only [Pool.new, Pool.groups.injEq] at hk
      exact ⟨sizes, hk.1, hk.2⟩
    | list n => simp [Pool.new] at hk
    | range a b => simp [Pool.new] at hk
    | sum size => simp [Pool.new] at hk

end HqModel.Alloc
