import HqModel.Journal.Prune2
import HqModel.Lemmas.JournalPruneEq
/-!
The patched (stateful) pruner `prune2` against `load_event_file`: the simulation of `JournalPruneEq` with EQUAL job
entries (crash counters included). Two ingredients on top of `restorerStep_factor` / `jobStep`:

* `RInv`: on the unpruned side every task of a live job that is `Running` runs on workers that are in
  `task_worker_ids` (they came from a kept `TaskStarted` earlier in the file);
* hence a `WorkerLost w` the patched pruner drops (`w` neither live nor in `task_worker_ids`) changes no crash counter
  of a live job (`increaseCrash_eq_self`).
-/
namespace HqModel.Journal

/-! ### association lists: membership -/

theorem mem_alSet {l : List (Nat × β)} {k : Nat} {v : β} {kv : Nat × β} (h : kv ∈ alSet l k v) :
    kv ∈ l ∨ kv = (k, v) := by
  induction l with
  | nil => simp only [alSet, List.mem_singleton] at h; exact Or.inr h
  | cons a r ih =>
    obtain ⟨k', w⟩ := a
    by_cases hk : k' = k
    · simp only [alSet, hk, if_true, List.mem_cons] at h
      rcases h with h | h
      · exact Or.inr h
      · exact Or.inl (List.mem_cons_of_mem _ h)
    · simp only [alSet, hk, if_false, List.mem_cons] at h
      rcases h with h | h
      · exact Or.inl (h ▸ List.mem_cons_self)
      · rcases ih h with h' | h'
        · exact Or.inl (List.mem_cons_of_mem _ h')
        · exact Or.inr h'

theorem mem_alMap {f : β → γ} {l : List (Nat × β)} {kv : Nat × γ} (h : kv ∈ alMap f l) :
    ∃ kv0, kv0 ∈ l ∧ kv = (kv0.1, f kv0.2) := by
  simp only [alMap, List.mem_map] at h
  obtain ⟨a, ha, e⟩ := h
  exact ⟨a, ha, e.symm⟩

theorem alGet_mem {l : List (Nat × β)} {k : Nat} {v : β} (h : alGet l k = some v) : (k, v) ∈ l := by
  induction l with
  | nil => simp [alGet] at h
  | cons a r ih =>
    obtain ⟨k', w⟩ := a
    by_cases hk : k' = k
    · simp only [alGet, hk, if_true, Option.some.injEq] at h
      subst h; subst hk; exact List.mem_cons_self
    · simp only [alGet, hk, if_false] at h
      exact List.mem_cons_of_mem _ (ih h)

/-! ### the invariant of the unpruned side -/

/-- every `Running` task of the list runs on workers of `acc` -/
def TasksIn (acc : List Nat) (ts : List (Nat × RTask)) : Prop :=
  ∀ kv, kv ∈ ts → ∀ sd, kv.2.state = .running sd → ∀ w, w ∈ sd.workers → w ∈ acc

def JInv (acc : List Nat) (o : Option RJob) : Prop := ∀ rj, o = some rj → TasksIn acc rj.tasks

/-- `Running` tasks of live jobs run on workers of `acc` -/
def RInv (live : Nat → Bool) (acc : List Nat) (R : Restorer) : Prop :=
  ∀ j, live j = true → JInv acc (alGet R.jobs j)

theorem tasksIn_nil (acc : List Nat) : TasksIn acc [] := fun _ h => by cases h

theorem tasksIn_mono {acc acc' : List Nat} (hsub : ∀ w, w ∈ acc → w ∈ acc') {ts : List (Nat × RTask)}
    (h : TasksIn acc ts) : TasksIn acc' ts := fun kv hkv sd hsd w hw => hsub w (h kv hkv sd hsd w hw)

theorem jinv_mono {acc acc' : List Nat} (hsub : ∀ w, w ∈ acc → w ∈ acc') {o : Option RJob} (h : JInv acc o) :
    JInv acc' o := fun rj e => tasksIn_mono hsub (h rj e)

theorem jinv_none (acc : List Nat) : JInv acc none := fun _ e => by cases e

theorem tasksIn_set {acc : List Nat} {ts : List (Nat × RTask)} (h : TasksIn acc ts) (t : Nat) (v : RTask)
    (hv : ∀ sd, v.state = .running sd → ∀ w, w ∈ sd.workers → w ∈ acc) : TasksIn acc (alSet ts t v) := by
  intro kv hkv
  rcases mem_alSet hkv with h1 | h1
  · exact h kv h1
  · subst h1; exact hv

theorem tasksIn_map {acc : List Nat} {ts : List (Nat × RTask)} (h : TasksIn acc ts) (f : RTask → RTask)
    (hf : ∀ t, (f t).state = t.state) : TasksIn acc (alMap f ts) := by
  intro kv hkv sd hsd
  obtain ⟨kv0, h0, e⟩ := mem_alMap hkv
  subst e
  rw [hf] at hsd
  exact h kv0 h0 sd hsd

/-- the per-task function of `increase_crash_counters` -/
def incTask (w : Nat) (t : RTask) : RTask :=
  match t.state with
  | .running sd => if sd.workers.head? == some w then { t with crash := t.crash + 1 } else t
  | _ => t

theorem increaseCrash_eq (rj : RJob) (w : Nat) : rj.increaseCrash w = { rj with tasks := alMap (incTask w) rj.tasks } := rfl

theorem incTask_state (w : Nat) (t : RTask) : (incTask w t).state = t.state := by
  unfold incTask
  split
  · split <;> rfl
  · rfl

theorem cancelTask_tasksIn {acc : List Nat} {ts : List (Nat × RTask)} (h : TasksIn acc ts) (t : Nat) :
    TasksIn acc (cancelTask ts t) := by
  unfold cancelTask
  split
  · apply tasksIn_set h
    intro sd hsd
    split at hsd <;> cases hsd
  · apply tasksIn_set h
    intro sd hsd; cases hsd

theorem abortTask_tasksIn {acc : List Nat} {ts : List (Nat × RTask)} (h : TasksIn acc ts) (t : Nat) :
    TasksIn acc (abortTask ts t) := by
  unfold abortTask
  split
  · apply tasksIn_set h
    intro sd hsd
    split at hsd <;> cases hsd
  · apply tasksIn_set h
    intro sd hsd; cases hsd

/-- a `WorkerLost w` with `w ∉ task_worker_ids` does not touch the job -/
theorem increaseCrash_eq_self {acc : List Nat} {rj : RJob} (h : TasksIn acc rj.tasks) {w : Nat} (hw : ¬ w ∈ acc) :
    rj.increaseCrash w = rj := by
  rw [increaseCrash_eq]
  have : alMap (incTask w) rj.tasks = rj.tasks := by
    unfold alMap
    conv => rhs; rw [← List.map_id rj.tasks]
    apply List.map_congr_left
    intro kv hkv
    have hk : incTask w kv.2 = kv.2 := by
      unfold incTask
      split
      · rename_i sd hsd
        split
        · rename_i hh
          exfalso
          have : sd.workers.head? = some w := by simpa using hh
          exact hw (h kv hkv sd hsd w (List.mem_of_mem_head? this))
        · rfl
      · rfl
    simp [hk]
  rw [this]

/-- `taskWorkersStep` only grows the set -/
theorem taskWorkersStep_mono (lj acc : List Nat) (x : Record) : ∀ w, w ∈ acc → w ∈ taskWorkersStep lj acc x := by
  intro w hw
  cases x <;> simp only [taskWorkersStep] <;> try exact hw
  split
  · exact List.mem_append_left _ hw
  · exact hw

/-- `jobStep` of a record of a live job keeps the invariant of the entry -/
theorem jobStep_jinv (lj acc : List Nat) (x : Record) (j : Nat) (hj : jobOf x = some j) (hl : lj.contains j = true)
    {o o1 : Option RJob} (h : JInv acc o) (hs : jobStep x o = .ok o1) : JInv (taskWorkersStep lj acc x) o1 := by
  have hm := taskWorkersStep_mono lj acc x
  cases x <;> simp only [jobOf, Option.some.injEq, reduceCtorEq] at hj <;> subst hj
  case submit j c mf d =>
    cases c with
    | true =>
      simp only [jobStep, if_true, Except.ok.injEq] at hs; subst hs
      intro rj e; cases e; exact tasksIn_nil _
    | false =>
      simp only [jobStep, Bool.false_eq_true, if_false] at hs
      cases o with
      | none => simp only [Except.ok.injEq] at hs; subst hs; exact jinv_none _
      | some rj0 =>
        simp only [Except.ok.injEq] at hs; subst hs
        intro rj e; cases e; exact h rj0 rfl
  case jobOpen j mf =>
    simp only [jobStep, Except.ok.injEq] at hs; subst hs
    intro rj e; cases e; exact tasksIn_nil _
  case jobClose j =>
    simp only [jobStep] at hs
    cases o with
    | none => cases hs
    | some rj0 =>
      simp only [Except.ok.injEq] at hs; subst hs
      intro rj e; cases e; exact h rj0 rfl
  case jobCancel j =>
    simp only [jobStep] at hs
    cases o with
    | none => cases hs
    | some rj0 =>
      simp only [Except.ok.injEq] at hs; subst hs
      intro rj e; cases e; exact h rj0 rfl
  case jobCompleted j =>
    simp only [jobStep, Except.ok.injEq] at hs; subst hs; exact jinv_none _
  case taskStarted j t i ws =>
    simp only [jobStep] at hs
    cases o with
    | none => simp only [Except.ok.injEq] at hs; subst hs; exact jinv_none _
    | some rj0 =>
      simp only [Except.ok.injEq] at hs; subst hs
      intro rj e; cases e
      simp only [taskWorkersStep, hl, if_true] at hm ⊢
      apply tasksIn_set (tasksIn_mono hm (h rj0 rfl))
      intro sd hsd w hw
      cases hsd
      exact List.mem_append_right _ hw
  case taskFinished j t =>
    simp only [jobStep] at hs
    cases o with
    | none => simp only [Except.ok.injEq] at hs; subst hs; exact jinv_none _
    | some rj0 =>
      simp only at hs
      cases h2 : alGet rj0.tasks t with
      | none => simp [h2] at hs
      | some ti =>
        simp only [h2] at hs
        cases h3 : ti.state <;> simp only [h3, reduceCtorEq] at hs
        case running sd =>
          simp only [Except.ok.injEq] at hs; subst hs
          intro rj e; cases e
          apply tasksIn_set (h rj0 rfl)
          intro sd' hsd'; cases hsd'
  case taskFailed j t =>
    simp only [jobStep] at hs
    cases o with
    | none => simp only [Except.ok.injEq] at hs; subst hs; exact jinv_none _
    | some rj0 =>
      simp only at hs
      cases h2 : alGet rj0.tasks t with
      | none =>
        simp only [h2, Except.ok.injEq] at hs; subst hs
        intro rj e; cases e
        apply tasksIn_set (h rj0 rfl)
        intro sd' hsd'; cases hsd'
      | some ti =>
        simp only [h2] at hs
        cases h3 : ti.state <;> simp only [h3, reduceCtorEq] at hs
        case waiting =>
          simp only [Except.ok.injEq] at hs; subst hs
          intro rj e; cases e
          apply tasksIn_set (h rj0 rfl)
          intro sd' hsd'; cases hsd'
        case running sd =>
          simp only [Except.ok.injEq] at hs; subst hs
          intro rj e; cases e
          apply tasksIn_set (h rj0 rfl)
          intro sd' hsd'; cases hsd'

end HqModel.Journal
