import HqModel.Lemmas.CoreMsgBase
/-!
Message-level facts, part 2: `Evo` (how task records change) for every function of `Model.lean` / `Reactor.lean`
that is reachable from an operation other than `newTasks` / `schedule`, the sends (`Tr`) they emit and the tasks
their `started` callbacks name.

(What an announced start means for LATER sends — "the task stays locked" — is not a fact about task records alone
since `task_reject` takes a multi-node task whose root has NOT started it back to Waiting: it needs the `started`
flag of the root's worker record and is proved in `Lemmas/CoreMsgStart.lean` on top of the global invariant.)
-/
namespace HqModel.Core

/-- everything a function guarantees: task records, sends, and which tasks its `started` callbacks (`r`) name -/
structure Fx (nw cr : Prop) (s : State) (l r : List (TaskId × Nat)) (s' : State) : Prop where
  evo : Evo nw cr s s'
  tr : Tr nw s l s'
  /-- a `started` callback names a task of the map -/
  sx : ∀ q ∈ r, ∃ t ∈ s.tasks, t.id = q.1

theorem Fx.silent {nw cr : Prop} {s s' : State} (e : Evo nw cr s s') : Fx nw cr s [] [] s' :=
  ⟨e, Tr.nil _ _ _, fun _ h => by cases h⟩

/-- nothing started -/
theorem Fx.of_tr {nw cr : Prop} {s s' : State} {l} (e : Evo nw cr s s') (t : Tr nw s l s') : Fx nw cr s l [] s' :=
  ⟨e, t, fun _ h => by cases h⟩

theorem Fx.comp {nw cr : Prop} {s s1 s2 : State} {l1 l2 r1 r2} (a : Fx nw cr s l1 r1 s1) (b : Fx nw cr s1 l2 r2 s2) :
    Fx nw cr s (l1 ++ l2) (r1 ++ r2) s2 := by
  refine ⟨a.evo.trans b.evo, Tr.comp a.evo a.tr b.evo b.tr, ?_⟩
  intro q hq
  rcases List.mem_append.mp hq with h | h
  · exact a.sx q h
  · obtain ⟨t1, ht1, hid⟩ := b.sx q h
    obtain ⟨t, ht, r⟩ := a.evo t1 ht1
    exact ⟨t, ht, r.id ▸ hid⟩

theorem Fx.then {nw cr : Prop} {s s1 s2 : State} {l r} (a : Fx nw cr s l r s1) (e : Evo nw cr s1 s2) :
    Fx nw cr s l r s2 := by
  have := a.comp (Fx.silent e)
  simpa using this

theorem Fx.after {nw cr : Prop} {s s1 s2 : State} {l r} (e : Evo nw cr s s1) (b : Fx nw cr s1 l r s2) :
    Fx nw cr s l r s2 := by
  have := (Fx.silent e).comp b
  simpa using this

theorem Fx.mono {nw cr cr' : Prop} {s s' : State} {l r} (a : Fx nw cr s l r s') (h : cr' → cr) : Fx nw cr' s l r s' :=
  ⟨a.evo.mono id h, a.tr, a.sx⟩

/-! ### `Model.lean` -/

theorem processRetracted_evo {nw cr : Prop} (l : List TaskId) (s s' : State) (acc acc' : List (Nat × TaskId))
    (h : s.processRetracted l acc = .ok (s', acc')) : Evo nw cr s s' := by
  induction l generalizing s acc with
  | nil => simp only [State.processRetracted] at h; cases h; exact Evo.refl _ _ _
  | cons t rest ih =>
    simp only [State.processRetracted] at h
    split at h
    · cases h
    · rename_i task ht
      split at h
      · rename_i w hs
        split at h
        · cases h
        · rename_i s1 h1
          exact (Evo.set (withWorker_tasks h1) (getTask_ok ht)
            (TRel.state task _ (by simp [hs]) (by simp [hs]))).trans (ih _ _ h)
      · cases h

theorem retract_evo {nw cr : Prop} {s s' : State} {l : List TaskId} {o : Out} (h : s.retract l = .ok (s', o)) :
    Evo nw cr s s' ∧ sends o.msgs = [] ∧ o.cbs = [] := by
  simp only [State.retract] at h
  split at h
  · cases h
  · rename_i s1 pairs hp
    cases h
    exact ⟨processRetracted_evo _ _ _ _ _ hp, sends_map_retract _ _ _, rfl⟩

theorem removeConsumer_evo {nw cr : Prop} {ts ts' : List Task} {d c : TaskId} (h : removeConsumer ts d c = .ok ts') :
    EvoL nw cr ts ts' := by
  simp only [removeConsumer] at h
  split at h
  · cases h; exact EvoL.refl _ _ _
  · rename_i dt hd
    split at h
    · cases h
    · cases h; exact EvoL.put hd (TRel.cons dt _)

theorem removeConsumers_evo {nw cr : Prop} (deps : List TaskId) (ts ts' : List Task) (c : TaskId)
    (h : removeConsumers ts c deps = .ok ts') : EvoL nw cr ts ts' := by
  induction deps generalizing ts with
  | nil => simp only [removeConsumers] at h; cases h; exact EvoL.refl _ _ _
  | cons d rest ih =>
    simp only [removeConsumers] at h
    split at h
    · cases h
    · rename_i ts1 h1
      exact (removeConsumer_evo h1).trans (ih _ h)

theorem removeTask_evo {nw cr : Prop} {s s' : State} {id : TaskId} {st : TS} (h : s.removeTask id = .ok (s', st)) :
    Evo nw cr s s' := by
  have he : EvoL nw cr s.tasks (eraseTask s.tasks id) := EvoL.erase _ _
  simp only [State.removeTask] at h
  split at h
  · cases h
  · split at h
    · split at h
      · cases h
      · rename_i s1 hq
        have h1 := queueRemove_tasks hq
        split at h
        · split at h
          · cases h
          · rename_i ts hc
            cases h
            have := removeConsumers_evo (nw := nw) (cr := cr) _ _ _ _ hc
            rw [h1] at this
            exact he.trans this
        · cases h
          unfold Evo
          rw [h1]; exact he
    · split at h
      · cases h
      · rename_i s1 hq
        have h1 := queueRemove_tasks hq
        cases h
        unfold Evo
        rw [h1]; exact he
    · cases h; exact he

/-! ### cancel / fail -/

theorem removeTasksBatched_evo {nw cr : Prop} (ids : List TaskId) (s s' : State)
    (h : s.removeTasksBatched ids = .ok s') : Evo nw cr s s' := by
  induction ids generalizing s with
  | nil => simp only [State.removeTasksBatched] at h; cases h; exact Evo.refl _ _ _
  | cons t rest ih =>
    simp only [State.removeTasksBatched] at h
    split at h
    · cases h
    · rename_i s1 st h1
      exact (removeTask_evo h1).trans (ih _ h)

theorem cancelTasks_evo {nw cr : Prop} {s s' : State} {ids : List TaskId} {o : Out}
    (h : s.cancelTasks ids = .ok (s', o)) : Evo nw cr s s' ∧ sends o.msgs = [] ∧ o.cbs = [] := by
  simp only [State.cancelTasks] at h
  split at h
  · cases h
  · rename_i s1 unreg running h1
    split at h
    · cases h
    · rename_i s2 h2
      cases h
      exact ⟨(Evo.of_tasks (cancelLoop_tasks _ _ _ _ _ _ _ h1)).trans (removeTasksBatched_evo _ _ _ h2),
        sends_map_cancel _ _ _, rfl⟩

theorem removeWaitingAll_evo {nw cr : Prop} (ids : List TaskId) (s s' : State)
    (h : s.removeWaitingAll ids = .ok s') : Evo nw cr s s' := by
  induction ids generalizing s with
  | nil => simp only [State.removeWaitingAll] at h; cases h; exact Evo.refl _ _ _
  | cons t rest ih =>
    simp only [State.removeWaitingAll] at h
    split at h
    · cases h
    · rename_i s1 st h1
      split at h
      · exact (removeTask_evo h1).trans (ih _ h)
      · cases h

theorem taskFailed_evo {nw cr : Prop} {s s' : State} {worker : Option Nat} {id : TaskId} {ret : List TaskId} {o : Out}
    (h : s.taskFailed worker id ret = .ok (s', o)) : Evo nw cr s s' ∧ sends o.msgs = [] ∧ starts o.cbs = [] := by
  simp only [State.taskFailed] at h
  split at h
  · cases h; exact ⟨Evo.refl _ _ _, rfl, rfl⟩
  · rename_i task ht
    split at h
    · cases h
    · rename_i s1 hpre
      have e1 : s1.tasks = s.tasks := by
        clear h
        repeat' (split at hpre)
        all_goals grind
      split at h
      · cases h
      · split at h
        · cases h
        · rename_i s2 h2
          split at h
          · cases h
          · rename_i s3 st h3
            have a : Evo nw cr s s3 :=
              ((Evo.of_tasks e1).trans (removeWaitingAll_evo _ _ _ h2)).trans (removeTask_evo h3)
            clear hpre
            repeat' (split at h)
            all_goals first
              | (cases h; done)
              | (cases h; exact ⟨a, rfl, rfl⟩)
              | (rename_i s4 out2 h4
                 cases h
                 obtain ⟨b, c, d⟩ := cancelTasks_evo (nw := nw) (cr := cr) h4
                 exact ⟨a.trans b, by simp [c], by simp [d, startsOf]⟩)

/-! ### `task_running` -/

theorem taskRunning_fx {nw cr : Prop} {s s' : State} {w : Nat} {id : TaskId} {rv : Nat} {o : Out}
    (h : s.taskRunning w id rv = .ok (s', o)) :
    Evo nw cr s s' ∧ sends o.msgs = [] ∧ ∀ q ∈ starts o.cbs, ∃ t ∈ s.tasks, t.id = q.1 := by
  simp only [State.taskRunning] at h
  split at h
  · cases h; exact ⟨Evo.refl _ _ _, rfl, fun _ hq => by cases hq⟩
  · rename_i task ht
    have hid : task.id = id := findTask_some_id ht
    have hsx : ∀ (ws : List Nat) (q : TaskId × Nat),
        q ∈ starts ({ cbs := [.started id task.inst ws rv] } : Out).cbs → ∃ t ∈ s.tasks, t.id = q.1 := by
      intro ws q hq
      simp [startsOf] at hq
      subst hq
      exact ⟨task, findTask_some_mem ht, hid⟩
    split at h
    · -- assigned
      rename_i w' rv' hs
      split at h
      · cases h
      · split at h
        · cases h
        · cases h
          exact ⟨Evo.set rfl ht (TRel.state task _ (by simp [hs]) (by simp [hs])), rfl, hsx _⟩
    · -- prefilled
      rename_i w' hs
      split at h
      · cases h
      · split at h
        · cases h
        · rename_i r hr
          split at h
          · cases h
          · rename_i s1 h1
            split at h
            · cases h
            · rename_i s2 h2
              cases h
              have e : s'.tasks = putTask s.tasks { task with state := .running w rv } :=
                (queueRemove_tasks h2).trans (withWorker_tasks h1)
              refine ⟨?_, rfl, hsx _⟩
              unfold Evo; rw [e]
              exact EvoL.put ht (TRel.state task _ (by simp [hs]) (by simp [hs]))
    · -- retracting
      rename_i w' hs
      split at h
      · cases h
      · split at h
        · cases h
        · rename_i s1 h1
          split at h
          · cases h
          · rename_i s2 h2
            split at h
            · cases h
            · rename_i r hr
              split at h
              · cases h
              · rename_i s3 h3
                cases h
                have e : s'.tasks = putTask s.tasks { task with state := .running w rv } :=
                  (withWorker_tasks h3).trans ((tryRemoveRedirection_tasks h2).trans (queueRemove_tasks h1))
                refine ⟨?_, rfl, hsx _⟩
                unfold Evo; rw [e]
                exact EvoL.put ht (TRel.state task _ (by simp [hs]) (by simp [hs]))
    · -- runningMN
      rename_i ws hs
      split at h
      · rename_i root rest
        split at h
        · cases h
        · split at h
          · cases h
          · rename_i s1 h1
            cases h
            have e := withWorker_tasks h1
            exact ⟨Evo.of_tasks e, rfl, hsx _⟩
      · cases h
    all_goals cases h

/-! ### `task_reject` -/


theorem requeue_fx {nw cr : Prop} {s s0 s' : State} {id : TaskId} {task t' : Task} {o : Out} {b : Bool}
    (h : (match (s0.setTask t').addReady t' with
      | .error e => .error e
      | .ok (s2, retracted) =>
        match s2.retract retracted with
        | .error e => .error e
        | .ok (s3, out) => .ok (s3, out, true)) = (.ok (s', o, b) : M (State × Out × Bool)))
    (hts : s0.tasks = s.tasks) (ht : s.task? id = some task) (hr : TRel nw cr task t') :
    Evo nw cr s s' ∧ Tr nw s (sends o.msgs) s' ∧ starts o.cbs = [] := by
  split at h
  · cases h
  · rename_i s2 retracted h2
    split at h
    · cases h
    · rename_i s3 out h3
      cases h
      obtain ⟨a, b, c⟩ := retract_evo (nw := nw) (cr := cr) h3
      have e : Evo nw cr s s2 := by
        have := Evo.set (nw := nw) (cr := cr) hts ht hr
        unfold Evo at this ⊢
        rw [addReady_tasks h2]; exact this
      exact ⟨e.trans a, by rw [b]; exact Tr.nil _ _ _, by rw [c]; rfl⟩

theorem findTask_putTask_same {ts : List Task} {id : TaskId} {told t' : Task} (hf : findTask ts id = some told)
    (hid : t'.id = id) : findTask (putTask ts t') id = some t' := by
  rw [findTask_putTask]; simp [hid, hf]

/-- a task record is replaced by a non-Waiting, non-locked descendant and sent -/
theorem redirect_send {nw cr : Prop} {s s1 : State} {id : TaskId} {task t' : Task} (hn : (taskIds s.tasks).Nodup)
    (hts : s1.tasks = s.tasks) (ht : s.task? id = some task) (hr : TRel nw cr task t')
    (hw : ¬ isWaiting t'.state) (hl : ¬ locked t'.state) :
    Evo nw cr s (s1.setTask t') ∧ Tr nw s [(t'.id, t'.inst)] (s1.setTask t') := by
  have e : Evo nw cr s (s1.setTask t') := Evo.set hts ht hr
  refine ⟨e, Tr.of_post e ?_ ?_⟩
  · show (taskIds (putTask s1.tasks _)).Nodup
    rw [taskIds_putTask, hts]; exact hn
  · intro p hp
    simp only [List.mem_singleton] at hp
    subst hp
    refine ⟨t', ?_, rfl, hw, hl⟩
    show findTask (putTask s1.tasks t') t'.id = some t'
    rw [hts]
    have hid : t'.id = id := hr.id.trans (findTask_some_id ht)
    exact findTask_putTask_same (by rw [hid]; exact ht) rfl

theorem taskReject_fx {nw cr : Prop} {s s' : State} {w : Nat} {id : TaskId} {rv : Option Nat} {o : Out} {b : Bool}
    (hn : (taskIds s.tasks).Nodup) (h : s.taskReject w id rv = .ok (s', o, b)) :
    Evo nw cr s s' ∧ Tr nw s (sends o.msgs) s' ∧ starts o.cbs = [] := by
  simp only [State.taskReject] at h
  split at h
  · cases h; exact ⟨Evo.refl _ _ _, Tr.nil _ _ _, rfl⟩
  · rename_i task ht
    have hid : task.id = id := findTask_some_id ht
    split at h
    · cases h
    · rename_i wk0 hw
      split at h
      · -- assigned
        rename_i w' rv' hs
        have hr : TRel nw cr task { task with state := .waiting 0 } := TRel.state task _ (by simp) (by simp [hs])
        split at h
        · exact requeue_fx h rfl ht hr
        · split at h
          · exact requeue_fx h rfl ht hr
          · split at h
            · cases h
            · split at h
              · cases h
              · rename_i s1 h1
                exact requeue_fx h (by have := withWorker_tasks h1; exact this) ht hr
      · -- prefilled
        rename_i w' hs
        have hr : TRel nw cr task { task with state := .waiting 0 } := TRel.state task _ (by simp) (by simp [hs])
        split at h
        · cases h
        · rename_i s1 h1
          split at h
          · cases h
          · rename_i s2 h2
            exact requeue_fx h (by have := withWorker_tasks h1; have := removePrefilled_tasks h2; exact this.trans ‹_›) ht hr
      · -- retracting
        rename_i w' hs
        split at h
        · cases h; exact ⟨Evo.of_tasks rfl, Tr.nil _ _ _, rfl⟩
        · split at h
          · rename_i target trv hrd
            cases h
            obtain ⟨a, b⟩ := redirect_send (nw := nw) (cr := cr) (s1 := { s.setWorker _ with redirects := _ })
              (t' := { task with state := .assigned target trv }) hn rfl ht
              (TRel.state task _ (by simp [hs]) (by simp [hs])) (by simp) (by simp)
            exact ⟨a, by simpa [computeOne] using b, rfl⟩
          · have hr : TRel nw cr task { task with state := .waiting 0 } := TRel.state task _ (by simp) (by simp [hs])
            exact requeue_fx h rfl ht hr
      · -- multi-node: refused by its root before the start was reported (back to Waiting, same instance id)
        rename_i ws hs
        have hr : TRel nw cr task { task with state := .waiting 0 } := TRel.state task _ (by simp) (by simp [hs])
        split at h
        · cases h
        · split at h
          · cases h; exact ⟨Evo.of_tasks rfl, Tr.nil _ _ _, rfl⟩
          · split at h
            · cases h; exact ⟨Evo.of_tasks rfl, Tr.nil _ _ _, rfl⟩
            · split at h
              · cases h; exact ⟨Evo.of_tasks rfl, Tr.nil _ _ _, rfl⟩
              · split at h
                · cases h
                · rename_i s1 h1
                  exact requeue_fx h (by have := resetMnChecked_tasks _ _ _ _ h1; exact this) ht hr
      all_goals cases h

/-! ### `task_finished` -/


theorem wakeConsumers_evo {nw cr : Prop} (cs : List TaskId) (s s' : State) (r r' : List TaskId)
    (h : s.wakeConsumers cs r = .ok (s', r')) : Evo nw cr s s' := by
  induction cs generalizing s r with
  | nil => simp only [State.wakeConsumers] at h; cases h; exact Evo.refl _ _ _
  | cons c rest ih =>
    simp only [State.wakeConsumers] at h
    split at h
    · cases h
    · rename_i t ht
      split at h
      · rename_i n hs
        have e : Evo nw cr s (s.setTask { t with state := .waiting n }) :=
          Evo.set rfl (getTask_ok ht) (TRel.state t _ (by simp) (by simp [hs]))
        split at h
        · split at h
          · cases h
          · rename_i s2 r2 h2
            have e2 : Evo nw cr (s.setTask { t with state := .waiting n }) s2 := Evo.of_tasks (addReady_tasks h2)
            exact (e.trans e2).trans (ih _ _ h)
        · exact e.trans (ih _ _ h)
      · cases h

theorem taskFinished_evo {nw cr : Prop} {s s' : State} {w : Nat} {id : TaskId} {o : Out} {b : Bool}
    (h : s.taskFinished w id = .ok (s', o, b)) : Evo nw cr s s' ∧ sends o.msgs = [] ∧ starts o.cbs = [] := by
  simp only [State.taskFinished] at h
  split at h
  · cases h; exact ⟨Evo.refl _ _ _, rfl, rfl⟩
  · rename_i task ht
    split at h
    · cases h
    · rename_i s1 hpre
      have e1 : s1.tasks = s.tasks ∧ ¬ isWaiting task.state := by
        clear h
        repeat' (split at hpre)
        all_goals first | (cases hpre; done) | (refine ⟨?_, by simp [*]⟩; grind)
      split at h
      · cases h
      · rename_i s3 retracted h3
        split at h
        · cases h
        · rename_i s4 out h4
          split at h
          · cases h
          · rename_i s5 st h5
            split at h
            · cases h
            · cases h
              obtain ⟨a4, b4, c4⟩ := retract_evo (nw := nw) (cr := cr) h4
              have a2 : Evo nw cr s (s1.setTask { task with state := .finished }) :=
                Evo.set e1.1 ht (TRel.state task _ (fun _ hw => absurd hw e1.2) (by simp))
              refine ⟨((a2.trans (wakeConsumers_evo _ _ _ _ _ h3)).trans a4).trans (removeTask_evo h5), ?_, ?_⟩
              · simp [b4]
              · simp [c4, startsOf]


/-! ### `on_task_update` -/


theorem Fx.of_silent {nw cr : Prop} {s s' : State} {l r} (e : Evo nw cr s s') (h1 : l = []) (h2 : r = []) :
    Fx nw cr s l r s' := by subst h1; subst h2; exact Fx.silent e

theorem updateLoop_fx {nw cr : Prop} (us : List Update) (s s' : State) (w : Nat) (rets rets' : List (List TaskId))
    (o o' : Out) (n n' : Bool) (hn : (taskIds s.tasks).Nodup)
    (h : s.updateLoop w us rets o n = .ok (s', o', n', rets')) :
    ∃ l r, sends o'.msgs = sends o.msgs ++ l ∧ starts o'.cbs = starts o.cbs ++ r ∧ Fx nw cr s l r s' := by
  induction us generalizing s rets o n with
  | nil =>
    simp only [State.updateLoop] at h; cases h
    exact ⟨[], [], by simp, by simp, Fx.silent (Evo.refl _ _ _)⟩
  | cons u rest ih =>
    have key : ∀ (s1 : State) (o1 : Out) (rets1 : List (List TaskId)) (n1 : Bool),
        IdsSub s s1 → Fx nw cr s (sends o1.msgs) (starts o1.cbs) s1 →
        s1.updateLoop w rest rets1 (o.add o1) n1 = .ok (s', o', n', rets') →
        ∃ l r, sends o'.msgs = sends o.msgs ++ l ∧ starts o'.cbs = starts o.cbs ++ r ∧ Fx nw cr s l r s' := by
      intro s1 o1 rets1 n1 hsub f1 h1
      obtain ⟨l2, r2, a, b, f2⟩ := ih _ _ _ _ (hsub.nodup hn) h1
      exact ⟨sends o1.msgs ++ l2, starts o1.cbs ++ r2, by simp [a], by simp [b], f1.comp f2⟩
    simp only [State.updateLoop] at h
    split at h
    · -- finished
      split at h
      · cases h
      · rename_i s1 o1 n1 h1
        obtain ⟨a, b, c⟩ := taskFinished_evo (nw := nw) (cr := cr) h1
        exact key _ _ _ _ (taskFinished_sub h1) (Fx.of_silent a b c) h
    · -- failed
      split at h
      · cases h
      · rename_i s1 o1 h1
        obtain ⟨a, b, c⟩ := taskFailed_evo (nw := nw) (cr := cr) h1
        exact key _ _ _ _ (taskFailed_sub h1) (Fx.of_silent a b c) h
    · -- running
      split at h
      · cases h
      · rename_i s1 o1 h1
        obtain ⟨a, b, d⟩ := taskRunning_fx (nw := nw) (cr := cr) h1
        exact key _ _ _ _ (taskRunning_stable h1).sub ⟨a, by rw [b]; exact Tr.nil _ _ _, d⟩ h
    · split at h
      · cases h
      · rename_i s1 o1 h1
        obtain ⟨a, b, d⟩ := taskRunning_fx (nw := nw) (cr := cr) h1
        exact key _ _ _ _ (taskRunning_stable h1).sub ⟨a, by rw [b]; exact Tr.nil _ _ _, d⟩ h
    · -- reject
      split at h
      · cases h
      · rename_i s1 o1 n1 h1
        obtain ⟨a, b, c⟩ := taskReject_fx (nw := nw) (cr := cr) hn h1
        exact key _ _ _ _ (taskReject_stable h1).sub (by rw [c]; exact Fx.of_tr a b) h
    · -- enable
      split at h
      · cases h
      · rename_i s1 h1
        have := key s1 {} rets true (IdsStable.of_tasks (requestEnabled_tasks h1)).sub
          (Fx.silent (Evo.of_tasks (requestEnabled_tasks h1))) (by simpa [Out.add] using h)
        exact this

theorem taskUpdate_fx {nw cr : Prop} {s s' : State} {w : Nat} {us : List Update} {rets : List (List TaskId)} {o : Out}
    (hn : (taskIds s.tasks).Nodup) (h : s.taskUpdate w us rets = .ok (s', o)) :
    Fx nw cr s (sends o.msgs) (starts o.cbs) s' := by
  simp only [State.taskUpdate] at h
  split at h
  · cases h
  · rename_i s1 out need rets' h1
    cases h
    obtain ⟨l, r, a, b, f⟩ := updateLoop_fx (nw := nw) (cr := cr) _ _ _ _ _ _ _ _ _ _ hn h1
    simp only [sends_nil, List.nil_append, starts_nil] at a b
    rw [a, b]
    split
    · exact f.then (Evo.of_tasks rfl)
    · exact f


/-! ### `on_retract_response` -/


/-- the items collected so far are Assigned to their targets -/
def ItemsOk (s : State) (acc : List (Nat × TaskId × Nat)) : Prop :=
  ∀ it ∈ acc, ∃ t, findTask s.tasks it.2.1 = some t ∧ t.state = .assigned it.1 it.2.2

theorem retractLoop_fx {nw cr : Prop} (ids : List TaskId) (s s' : State) (w : Nat) (acc acc' : List (Nat × TaskId × Nat))
    (hacc : ItemsOk s acc) (h : s.retractLoop w ids acc = .ok (s', acc')) : Evo nw cr s s' ∧ ItemsOk s' acc' := by
  induction ids generalizing s acc with
  | nil => simp only [State.retractLoop] at h; cases h; exact ⟨Evo.refl _ _ _, hacc⟩
  | cons id rest ih =>
    simp only [State.retractLoop] at h
    split at h
    · exact ih _ _ hacc h
    · rename_i task ht
      have hid : task.id = id := findTask_some_id ht
      split at h
      · exact ih _ _ hacc h
      · rename_i hs
        simp only [ne_eq, Decidable.not_not] at hs
        -- every collected item names another task
        have hother : ∀ it ∈ acc, it.2.1 ≠ id := by
          intro it hit e
          obtain ⟨t, hf, hst⟩ := hacc it hit
          rw [e] at hf
          have : some t = some task := hf.symm.trans ht
          cases this
          rw [hs] at hst; cases hst
        have hkeep : ∀ (s1 : State) (t' : Task), s1.tasks = s.tasks → t'.id = id → ItemsOk (s1.setTask t') acc := by
          intro s1 t' hts hid' it hit
          obtain ⟨t, hf, hst⟩ := hacc it hit
          refine ⟨t, ?_, hst⟩
          show findTask (putTask s1.tasks t') it.2.1 = some t
          rw [findTask_putTask, hts, hid']
          simp [hother it hit, hf]
        split at h
        · rename_i target rv hrd
          have e : Evo nw cr s (State.setTask { s with redirects := s.redirects.filter (·.1 ≠ id) }
              { task with state := .assigned target rv }) :=
            Evo.set rfl ht (TRel.state task _ (by simp [hs]) (by simp [hs]))
          have hacc' : ItemsOk (State.setTask { s with redirects := s.redirects.filter (·.1 ≠ id) }
              { task with state := .assigned target rv }) (acc ++ [(target, id, rv)]) := by
            intro it hit
            rcases List.mem_append.mp hit with h1 | h1
            · exact hkeep { s with redirects := s.redirects.filter (·.1 ≠ id) } { task with state := .assigned target rv } rfl hid it h1
            · simp only [List.mem_singleton] at h1
              subst h1
              exact ⟨_, findTask_putTask_same (ts := s.tasks) ht hid, rfl⟩
          obtain ⟨a, b⟩ := ih _ _ hacc' h
          exact ⟨e.trans a, b⟩
        · have e : Evo nw cr s (s.setTask { task with state := .waiting 0 }) :=
            Evo.set rfl ht (TRel.state task _ (by simp) (by simp [hs]))
          obtain ⟨a, b⟩ := ih _ _ (hkeep s { task with state := .waiting 0 } rfl hid) h
          exact ⟨e.trans a, b⟩

theorem computeItems_spec (s : State) (its : List (Nat × TaskId × Nat)) (l : List (TaskId × Nat × Option Nat × List Nat))
    (h : computeItems s its = .ok l) :
    ∀ x ∈ l, ∃ it ∈ its, ∃ t, findTask s.tasks it.2.1 = some t ∧ (x.1, x.2.1) = (t.id, t.inst) := by
  induction its generalizing l with
  | nil => simp only [computeItems] at h; cases h; intro x hx; cases hx
  | cons it rest ih =>
    simp only [computeItems] at h
    split at h
    · cases h
    · rename_i t ht
      split at h
      · cases h
      · rename_i l' hl'
        cases h
        intro x hx
        rcases List.mem_cons.mp hx with h1 | h1
        · subst h1; exact ⟨it, List.mem_cons_self, t, getTask_ok ht, rfl⟩
        · obtain ⟨it', hit', r⟩ := ih _ hl' x h1
          exact ⟨it', List.mem_cons_of_mem _ hit', r⟩

theorem groupComputeAux_spec (s : State) (items : List (Nat × TaskId × Nat)) (targets : List Nat) (ms : List Msg)
    (h : groupComputeAux s items targets = .ok ms) :
    ∀ p ∈ sends ms, ∃ it ∈ items, ∃ t, findTask s.tasks it.2.1 = some t ∧ p = (t.id, t.inst) := by
  induction targets generalizing ms with
  | nil => simp only [groupComputeAux] at h; cases h; intro p hp; cases hp
  | cons target rest ih =>
    simp only [groupComputeAux] at h
    split at h
    · cases h
    · rename_i l hl
      split at h
      · cases h
      · rename_i ms' hms
        cases h
        intro p hp
        simp only [sends_cons, sendsOf_compute, List.mem_append, List.mem_map] at hp
        rcases hp with ⟨x, hx, rfl⟩ | hp
        · obtain ⟨it, hit, t, hf, e⟩ := computeItems_spec _ _ _ hl x hx
          exact ⟨it, (List.mem_filter.mp hit).1, t, hf, e⟩
        · exact ih _ hms p hp

theorem retractResponse_fx {nw cr : Prop} {s s' : State} {w : Nat} {ids : List TaskId} {o : Out}
    (hn : (taskIds s.tasks).Nodup) (h : s.retractResponse w ids = .ok (s', o)) :
    Fx nw cr s (sends o.msgs) (starts o.cbs) s' := by
  have hst := retractResponse_stable h
  simp only [State.retractResponse] at h
  split at h
  · cases h
  · rename_i s1 items h1
    split at h
    · cases h
    · rename_i msgs hm
      cases h
      obtain ⟨e, hok⟩ := retractLoop_fx (nw := nw) (cr := cr) _ _ _ _ _ _ (fun _ h => by cases h) h1
      refine Fx.of_tr e (Tr.of_post e (hst.sub.nodup hn) ?_)
      intro p hp
      obtain ⟨it, hit, t, hf, rfl⟩ := groupComputeAux_spec _ _ _ _ hm p hp
      obtain ⟨t2, hf2, hs2⟩ := hok it hit
      have : some t = some t2 := hf.symm.trans hf2
      cases this
      refine ⟨t, ?_, rfl, by simp [hs2], by simp [hs2]⟩
      rw [findTask_some_id hf]; exact hf


/-! ### `on_remove_worker` -/


theorem lostPrefilled_evo {nw cr : Prop} (ids : List TaskId) (s s' : State)
    (h : s.lostPrefilled ids = .ok s') : Evo nw cr s s' := by
  induction ids generalizing s with
  | nil => simp only [State.lostPrefilled] at h; cases h; exact Evo.refl _ _ _
  | cons id rest ih =>
    simp only [State.lostPrefilled] at h
    split at h
    · cases h
    · rename_i task ht
      split at h
      · cases h
      · rename_i s2 h2
        have e : Evo nw cr s (s.setTask { task with inst := task.inst + 1, state := .waiting 0 }) :=
          Evo.set rfl (getTask_ok ht) (TRel.bump task _ (by simp))
        exact (e.trans (Evo.of_tasks (movePrefilledToReady_tasks h2))).trans (ih _ h)

theorem lostAssigned_evo {nw cr : Prop} (ids : List TaskId) (s s' : State) (ru ru' re re' : List TaskId)
    (h : s.lostAssigned ids ru re = .ok (s', ru', re')) : Evo nw cr s s' := by
  induction ids generalizing s ru re with
  | nil => simp only [State.lostAssigned] at h; cases h; exact Evo.refl _ _ _
  | cons id rest ih =>
    simp only [State.lostAssigned] at h
    split at h
    · cases h
    · rename_i task ht
      have hw : Evo nw cr s (s.setTask { task with inst := task.inst + 1, state := .waiting 0 }) :=
        Evo.set rfl (getTask_ok ht) (TRel.bump task _ (by simp))
      split at h
      · split at h
        · cases h
        · rename_i s2 r h2
          exact (hw.trans (Evo.of_tasks (addReady_tasks h2))).trans (ih _ _ _ h)
      · rename_i w0 hs
        split at h
        · cases h
        · split at h
          · cases h
          · rename_i s2 r h2
            have e : Evo nw cr s (State.setTask { s with redirects := s.redirects.filter (·.1 ≠ id) }
                { task with inst := task.inst + 1 }) :=
              Evo.set rfl (getTask_ok ht) (TRel.bump task task.state (fun _ h => h) (fun _ l' h => ⟨l', h, KeepL.refl _⟩))
            exact (e.trans (Evo.of_tasks (addReady_tasks h2))).trans (ih _ _ _ h)
      · split at h
        · cases h
        · rename_i s2 r h2
          exact (hw.trans (Evo.of_tasks (addReady_tasks h2))).trans (ih _ _ _ h)

theorem lostRetracting_fx {nw cr : Prop} (ts : List Task) (s s' : State) (w : Nat) (o o' : Out)
    (hn : (taskIds s.tasks).Nodup) (h : s.lostRetracting w ts o = .ok (s', o')) :
    ∃ l, sends o'.msgs = sends o.msgs ++ l ∧ o'.cbs = o.cbs ∧ Evo nw cr s s' ∧ Tr nw s l s' := by
  induction ts generalizing s o with
  | nil =>
    simp only [State.lostRetracting] at h; cases h
    exact ⟨[], by simp, rfl, Evo.refl _ _ _, Tr.nil _ _ _⟩
  | cons t0 rest ih =>
    simp only [State.lostRetracting] at h
    split at h
    · exact ih _ _ hn h
    · rename_i task0 ht
      split at h
      · exact ih _ _ hn h
      · rename_i hs
        simp only [ne_eq, Decidable.not_not] at hs
        split at h
        · rename_i target rv hrd
          obtain ⟨a, b⟩ := redirect_send (nw := nw) (cr := cr)
            (s1 := { s with redirects := s.redirects.filter (·.1 ≠ task0.id) })
            (t' := { task0 with inst := task0.inst + 1, state := .assigned target rv }) hn rfl ht
            (TRel.bump task0 _ (by simp [hs])) (by simp) (by simp)
          obtain ⟨l, c, d, e, f⟩ := ih _ _ (by
            show (taskIds (putTask s.tasks _)).Nodup
            rw [taskIds_putTask]; exact hn) h
          refine ⟨(task0.id, task0.inst + 1) :: l, ?_, ?_, a.trans e, ?_⟩
          · rw [c]; simp [computeOne]
          · rw [d]; simp
          · exact Tr.comp a b e f
        · have e1 : Evo nw cr s (s.setTask { task0 with inst := task0.inst + 1, state := .waiting 0 }) :=
            Evo.set rfl ht (TRel.bump task0 _ (by simp))
          obtain ⟨l, c, d, e, f⟩ := ih _ _ (by
            show (taskIds (putTask s.tasks _)).Nodup
            rw [taskIds_putTask]; exact hn) h
          exact ⟨l, c, d, e1.trans e, Tr.after_silent e1 e f⟩

theorem crashOutcome_ge (l : CrashLimit) (f : Bool) (c : Nat) : c ≤ (crashOutcome l f c).1 := by
  cases l <;> cases f <;> simp [crashOutcome]

theorem crashOutcome_stop (l : CrashLimit) (c : Nat) : (crashOutcome l false c).1 = c := by
  cases l <;> simp [crashOutcome]

theorem crashLoop_evo {nw : Prop} (ids : List TaskId) (s s' : State) (f : Bool) (rets : List (List TaskId)) (o o' : Out)
    (h : s.crashLoop f ids rets o = .ok (s', o')) :
    Evo nw (f = false) s s' ∧ sends o'.msgs = sends o.msgs ∧ starts o'.cbs = starts o.cbs := by
  induction ids generalizing s rets o with
  | nil => simp only [State.crashLoop] at h; cases h; exact ⟨Evo.refl _ _ _, rfl, rfl⟩
  | cons id rest ih =>
    simp only [State.crashLoop] at h
    split at h
    · exact ih _ _ _ h
    · rename_i task ht
      have e : Evo nw (f = false) s (s.setTask { task with crashes := (crashOutcome task.crashLimit f task.crashes).1 }) :=
        Evo.set rfl ht ⟨rfl, Nat.le_refl _, crashOutcome_ge _ _ _, fun _ h => h, fun h => Or.inl h, fun h => Or.inl h,
          fun _ l' h => ⟨l', h, KeepL.refl _⟩, fun hf => by subst hf; exact crashOutcome_stop _ _⟩
      split at h
      · split at h
        · cases h
        · rename_i s2 o2 h2
          obtain ⟨a, b, c⟩ := taskFailed_evo (nw := nw) (cr := f = false) h2
          obtain ⟨a', b', c'⟩ := ih _ _ _ h
          exact ⟨(e.trans a).trans a', by rw [b']; simp [b], by rw [c']; simp [c]⟩
      · obtain ⟨a', b', c'⟩ := ih _ _ _ h
        exact ⟨e.trans a', b', c'⟩



theorem removeWorker_fx_starts {nw : Prop} {s s' : State} {w : Nat} {reason : String} {f : Bool} {order : List TaskId}
    {rets : List (List TaskId)} {o : Out} (hn : (taskIds s.tasks).Nodup)
    (h : s.removeWorker w reason f order rets = .ok (s', o)) :
    Fx nw (f = false) s (sends o.msgs) (starts o.cbs) s' ∧ starts o.cbs = [] := by
  simp only [State.removeWorker] at h
  split at h
  · cases h
  · rename_i wk hw
    split at h
    · cases h
    · rename_i s1 running retracted hp1
      have e1 : Evo nw (f = false) s s1 ∧ taskIds s1.tasks = taskIds s.tasks := by
        clear h
        split at hp1
        · -- single-node worker
          split at hp1
          · cases hp1
          · split at hp1
            · cases hp1
            · rename_i sp hlp
              have a := lostPrefilled_evo (nw := nw) (cr := f = false) _ _ _ hlp
              have b := lostAssigned_evo (nw := nw) (cr := f = false) _ _ _ _ _ _ _ hp1
              have c := lostPrefilled_ids _ _ _ hlp
              exact ⟨a.trans b, (lostAssigned_ids _ _ _ _ _ _ _ hp1).trans c⟩
        · -- multi-node worker
          split at hp1
          · cases hp1
          · rename_i task ht
            have ht' : s.task? _ = some task := getTask_ok ht
            split at hp1
            · rename_i ws hs
              split at hp1
              · rename_i root others
                split at hp1
                · split at hp1
                  · cases hp1
                  · rename_i sr hr
                    split at hp1
                    · cases hp1
                    · rename_i s3 r h3
                      cases hp1
                      have hts : sr.tasks = s.tasks := by have := resetMnAll_tasks _ _ _ hr; exact this
                      have e : Evo nw (f = false) s (sr.setTask { task with state := .waiting 0, inst := task.inst + 1 }) :=
                        Evo.set hts ht' (TRel.bump task _ (by simp))
                      refine ⟨e.trans (Evo.of_tasks (addReady_tasks h3)), ?_⟩
                      rw [addReady_tasks h3, setTask_ids, hts]
                · rename_i hroot
                  cases hp1
                  exact ⟨Evo.set (s := { s with workers := _ }) rfl ht' (TRel.filterMN task hs hroot), setTask_ids _ _⟩
              · cases hp1
            · cases hp1
      have hn1 : (taskIds s1.tasks).Nodup := e1.2 ▸ hn
      split at h
      · cases h
      · rename_i s2 out1 h2
        obtain ⟨l, a2, b2, e2, t2⟩ := lostRetracting_fx (nw := nw) (cr := f = false) _ _ _ _ _ _ hn1 h2
        split at h
        · cases h
        · rename_i s3 out2 h3
          obtain ⟨e3, a3, b3⟩ := retract_evo (nw := nw) (cr := f = false) h3
          split at h
          · cases h
          · rename_i s4 out h4
            obtain ⟨e4, a4, b4⟩ := crashLoop_evo (nw := nw) _ _ _ _ _ _ _ h4
            have hs : sends out.msgs = l := by
              rw [a4]; simp [a3, a2]
            have hc : starts out.cbs = [] := by
              rw [b4]; simp [b3, b2, startsOf]
            cases h
            refine ⟨?_, hc⟩
            rw [hs, hc]
            have f2 : Fx nw (f = false) s1 l [] s2 := Fx.of_tr e2 t2
            exact ((Fx.after e1.1 f2).then (e3.trans e4)).then (Evo.of_tasks rfl)

theorem removeWorker_fx {nw : Prop} {s s' : State} {w : Nat} {reason : String} {f : Bool} {order : List TaskId}
    {rets : List (List TaskId)} {o : Out} (hn : (taskIds s.tasks).Nodup)
    (h : s.removeWorker w reason f order rets = .ok (s', o)) :
    Fx nw (f = false) s (sends o.msgs) (starts o.cbs) s' := (removeWorker_fx_starts hn h).1

/-- the `started` callback of `task_running` names the reported task with its current instance id -/
theorem taskRunning_starts {s s' : State} {w : Nat} {id : TaskId} {rv : Nat} {o : Out}
    (h : s.taskRunning w id rv = .ok (s', o)) :
    starts o.cbs = [] ∨ ∃ task, s.task? id = some task ∧ starts o.cbs = [(id, task.inst)] := by
  simp only [State.taskRunning] at h
  split at h
  · cases h; exact .inl rfl
  · rename_i task ht
    right
    repeat' split at h
    all_goals first
      | (cases h; done)
      | (cases h; exact ⟨task, ht, by simp [startsOf]⟩)


/-! ### `on_new_tasks` -/


/-- like `Evo`, but tasks with an id in `ids` may be new -/
def EvoN (nw cr : Prop) (ids : List TaskId) (s s' : State) : Prop :=
  ∀ t' ∈ s'.tasks, (∃ t ∈ s.tasks, TRel nw cr t t') ∨ t'.id ∈ ids

theorem registerDeps_evo {nw cr : Prop} (deps : List TaskId) (ts : List Task) (id : TaskId) :
    EvoL nw cr ts (registerDeps ts id deps).1 := by
  induction deps generalizing ts with
  | nil => simp only [registerDeps]; exact EvoL.refl _ _ _
  | cons d rest ih =>
    simp only [registerDeps]
    split
    · exact ih _
    · rename_i dep hd
      exact (EvoL.put hd (TRel.cons dep _)).trans (ih _)

theorem addNewTasks_evo {nw cr : Prop} (nts : List NewTask) (s s' : State) (r r' : List TaskId)
    (h : s.addNewTasks nts r = .ok (s', r')) : EvoN nw cr (nts.map (·.id)) s s' := by
  induction nts generalizing s r with
  | nil =>
    simp only [State.addNewTasks] at h; cases h
    intro t ht; exact Or.inl ⟨t, ht, TRel.refl _ _ t⟩
  | cons nt rest ih =>
    simp only [State.addNewTasks] at h
    have hreg := registerDeps_evo (nw := nw) (cr := cr) nt.deps s.tasks nt.id
    have key : ∀ (s2 : State) (task : Task) (r2 : List TaskId), task.id = nt.id →
        s2.tasks = (registerDeps s.tasks nt.id nt.deps).1 →
        State.addNewTasks { s2 with tasks := s2.tasks ++ [task] } rest r2 = .ok (s', r') →
        EvoN nw cr ((nt :: rest).map (·.id)) s s' := by
      intro s2 task r2 hid hts h2
      intro t' ht'
      rcases ih _ _ h2 t' ht' with ⟨t, ht, rel⟩ | h3
      · simp only [List.mem_append, List.mem_singleton] at ht
        rcases ht with ht | ht
        · rw [hts] at ht
          obtain ⟨t0, ht0, rel0⟩ := hreg t ht
          exact Or.inl ⟨t0, ht0, rel0.trans rel⟩
        · subst ht
          right; simp [rel.id, hid]
      · right; simp [h3]
    split at h
    · cases h
    · split at h
      · split at h
        · cases h
        · rename_i s2 r2 h2
          exact key s2 _ _ rfl (addReady_tasks h2) h
      · exact key { s with tasks := (registerDeps s.tasks nt.id nt.deps).1 } _ _ rfl rfl h

theorem newTasks_evo {nw cr : Prop} {s s' : State} {nts : List NewTask} {o : Out}
    (h : s.newTasks nts = .ok (s', o)) :
    EvoN nw cr (nts.map (·.id)) s s' ∧ sends o.msgs = [] ∧ starts o.cbs = [] := by
  simp only [State.newTasks] at h
  split at h
  · cases h
  · split at h
    · cases h
    · rename_i s1 retracted h1
      split at h
      · cases h
      · rename_i s2 out h2
        cases h
        obtain ⟨a, b, c⟩ := retract_evo (nw := nw) (cr := cr) h2
        refine ⟨?_, b, by rw [c]; rfl⟩
        intro t' ht'
        obtain ⟨t1, ht1, rel1⟩ := a t' ht'
        rcases addNewTasks_evo (nw := nw) (cr := cr) _ _ _ _ _ h1 t1 ht1 with ⟨t, ht, rel⟩ | h3
        · exact Or.inl ⟨t, ht, rel.trans rel1⟩
        · right; rw [rel1.id]; exact h3


end HqModel.Core
