import HqModel.Lemmas.CoreMsgLoss
import HqModel.Lemmas.SysWSched
/-!
Message-level facts, part 5: what an announced start (`started` callback) means for the task afterwards.

Until the fix of F32 this was a fact about task records alone ("a Running / RunningMultiNode / Finished task stays so
unless its instance id grows"). Since `task_reject` takes a multi-node task that its root has NOT started back to
Waiting — with the same instance id — the statement has to read the `started` flag of the root's worker record:

* `StK s S` — for every `started` callback `(t, i)` made so far (`S`): the task, if it is still in the map, has a larger
  instance id now, or the same one and the core has *heard that it started*: some worker's view of it is `hot`
  (`SysW.view`: Running on that worker, or RunningMultiNode with that worker as root and the `started` flag set).
* a `hot` view stays `hot` under EVERY operation, unless the instance id grows (loss of that worker): the view
  lemmas of the composition with the workers (`Lemmas/SysW*.lean`: `Foreign` / `Own` both keep `hot`), which hold for the
  core model alone; for a Reject of a task that is `hot` — not covered there without the protocol — `taskReject_hot`:
  a started multi-node task ignores it (`is_started`), a Running task is the `unreachable!()` arm (no successor state).
* `run_stK` — `StK` holds after every run from the empty core whose operations satisfy `OpOk2` (the side conditions of
  the global invariant `InvF`, which ties the root's worker record to the task) and that submits no id twice.
-/
namespace HqModel.Core
open HqModel HqModel.SysW

/-- `S` = the `started` callbacks made so far -/
def StK (s : State) (S : List (TaskId × Nat)) : Prop :=
  ∀ q ∈ S, ∀ t ∈ s.tasks, t.id = q.1 → q.2 < t.inst ∨ (q.2 = t.inst ∧ ∃ w, view s w t.id = .hot)

theorem StK.nil (s : State) : StK s [] := fun _ h => by cases h

/-- a task of the map with a `hot` view is Running on that worker, or RunningMultiNode with that worker as root -/
theorem hot_state {s : State} {w : Nat} {t : Task} (hn : (taskIds s.tasks).Nodup) (ht : t ∈ s.tasks)
    (hv : view s w t.id = .hot) :
    (∃ v, t.state = .running w v) ∨ ∃ others, t.state = .runningMN (w :: others) ∧ mnStarted s w t.id = true := by
  have hs : stOf s.tasks t.id = some t.state := stOf_of_find (mem_find_of_nodup hn ht)
  rw [view_some hs] at hv
  have ho := owner_of_viewSt_ne_quiet (c := s) (w := w) (t := t.id) (st := t.state) (by rw [hv]; simp)
  cases hst : t.state with
  | waiting n => rw [hst] at ho; cases ho
  | finished => rw [hst] at ho; cases ho
  | assigned x v => rw [hst] at ho hv; cases ho; simp [viewSt] at hv
  | prefilled x => rw [hst] at ho hv; cases ho; simp [viewSt] at hv
  | retracting x => rw [hst] at ho hv; cases ho; simp [viewSt] at hv
  | running x v => rw [hst] at ho; cases ho; exact .inl ⟨v, rfl⟩
  | runningMN l =>
    rw [hst] at ho hv
    cases l with
    | nil => cases ho
    | cons y ys =>
      cases ho
      simp only [viewSt, if_true] at hv
      refine .inr ⟨ys, rfl, ?_⟩
      cases hms : mnStarted s w t.id with
      | true => rfl
      | false => rw [hms] at hv; simp at hv

theorem locked_of_hot {s : State} {w : Nat} {t : Task} (hn : (taskIds s.tasks).Nodup) (ht : t ∈ s.tasks)
    (hv : view s w t.id = .hot) : locked t.state := by
  rcases hot_state hn ht hv with ⟨v, e⟩ | ⟨l, e, _⟩ <;> rw [e] <;> simp

/-! ### a Reject of a task the core has heard started -/

/-- **`task_reject` keeps every `hot` view** (whoever sends it): for a task that is RunningMultiNode with the `started`
flag the message is ignored — from the root because of the flag, from anybody else because he is not the root; for a
Running task `task_reject` has no successor state (`unreachable!()`) -/
theorem taskReject_hot {s s' : State} {w : Nat} {id : TaskId} {rv : Option Nat} {o : Out} {b : Bool}
    (hn : (taskIds s.tasks).Nodup) (hm : MnOk s) (h : s.taskReject w id rv = .ok (s', o, b)) (x : Nat)
    (hv : view s x id = .hot) : view s' x id = .hot := by
  cases hs : stOf s.tasks id with
  | none =>
    have hno : s.task? id = none := by
      cases hf : s.task? id with
      | none => rfl
      | some task => rw [stOf_of_find hf] at hs; cases hs
    simp only [State.taskReject, hno] at h
    cases h
    exact hv
  | some st =>
    rw [view_some hs] at hv
    have ho : owner st = some x := owner_of_viewSt_ne_quiet (c := s) (w := x) (t := id) (by rw [hv]; simp)
    by_cases hwx : w = x
    · subst hwx
      rcases taskReject_own hn hm (fun st' hs' => by rw [hs] at hs'; cases hs'; exact ho) h with
        ⟨h0, _⟩ | ⟨st', h0, ⟨hne, _⟩ | ⟨_, _, _, e, _⟩ | ⟨_, h2, h3, _⟩⟩
      · rw [hs] at h0; cases h0
      · rw [hs] at h0; cases h0; exact absurd hv hne
      · rw [hs] at h0; cases h0; subst e; simp [viewSt] at hv
      · rw [hs] at h0; cases h0; rw [view_some h2]; exact h3
    · -- somebody else: not the root of a multi-node task, and a Running task cannot be rejected at all
      simp only [State.taskReject] at h
      split at h
      · rename_i hno
        rw [stOf_none_of_task? hno] at hs; cases hs
      · rename_i task ht
        have hst : stOf s.tasks id = some task.state := stOf_of_find ht
        rw [hs] at hst
        cases hst
        split at h
        · cases h
        · rename_i wk0 hg
          have hfw0 : s.worker? w = some wk0 := getWorker_spec hg
          split at h
          · rename_i w' rv' hs'; rw [hs'] at ho hv; cases ho; simp [viewSt] at hv
          · rename_i w' hs'; rw [hs'] at ho hv; cases ho; simp [viewSt] at hv
          · rename_i w' hs'; rw [hs'] at ho hv; cases ho; simp [viewSt] at hv
          · rename_i ws hs'
            rw [hs'] at ho hv
            split at h
            · cases h
            · rename_i root rest
              cases ho
              simp only [viewSt, if_true] at hv
              have hms : mnStarted s x id = true := by
                cases hms : mnStarted s x id with
                | true => rfl
                | false => rw [hms] at hv; simp at hv
              split at h
              · simp only [Except.ok.injEq, Prod.mk.injEq] at h
                obtain ⟨e1, _, _⟩ := h
                have h1 : mnStarted s' x id = true := by
                  rw [← e1, ← hms]
                  exact mnStarted_setWorker_same hfw0 (by cases rv <;> rfl) (by cases rv <;> rfl) x id
                have h2 : stOf s'.tasks id = some (.runningMN (x :: rest)) := by
                  rw [← e1]; show stOf s.tasks id = _; rw [hs, hs']
                rw [view_some h2]
                simp [viewSt, h1]
              · rename_i hne
                exact absurd (Classical.not_not.mp hne) hwx
          all_goals cases h

/-! ### one update of a worker message -/

/-- one update of a worker message keeps every `hot` view -/
theorem upd1_hot {c c1 : State} {w : Nat} {u : Update} {rets rets1 : List (List TaskId)} {o1 : Out}
    (hn : (taskIds c.tasks).Nodup) (hm : MnOk c) (hm1 : MnOk c1)
    (h : c.upd1 w u rets = .ok (c1, o1, rets1)) (x : Nat) (t : TaskId) (hv : view c x t = .hot) :
    view c1 x t = .hot := by
  cases u with
  | finished t0 =>
    simp only [State.upd1] at h
    split at h
    · cases h
    · rename_i s1 o b h1
      cases h
      by_cases ht : t = t0
      · subst ht; exact view_none (taskFinished_gone hn h1)
      · exact ((taskFinished_frw h1).foreign hn hm1 x t ht ht).1 hv
  | failed t0 =>
    simp only [State.upd1] at h
    split at h
    · cases h
    · rename_i s1 o h1
      cases h
      exact ((taskFailed_frq h1).foreign hn hm1 x t (fun e => e) (fun e => e)).1 hv
  | running t0 rv =>
    simp only [State.upd1] at h
    split at h
    · cases h
    · rename_i s1 o h1
      cases h
      by_cases ht : t = t0
      · subst ht
        rcases taskRunning_own hm h1 with ⟨_, rfl⟩ | ⟨st, h0, ho, h2⟩
        · exact hv
        · rw [view_some h0] at hv
          have hx : owner st = some x := owner_of_viewSt_ne_quiet (c := c) (w := x) (t := t) (by rw [hv]; simp)
          rw [ho] at hx
          cases hx
          rcases h2 with h2 | ⟨l, h2, h3⟩
          · rw [view_some h2]; simp [viewSt]
          · rw [view_some h2]; simp [viewSt, h3]
      · exact ((taskRunning_frw h1).foreign hn hm1 x t ht ht).1 hv
  | runningPrefilled t0 rv =>
    simp only [State.upd1] at h
    split at h
    · cases h
    · rename_i s1 o h1
      cases h
      by_cases ht : t = t0
      · subst ht
        rcases taskRunning_own hm h1 with ⟨_, rfl⟩ | ⟨st, h0, ho, h2⟩
        · exact hv
        · rw [view_some h0] at hv
          have hx : owner st = some x := owner_of_viewSt_ne_quiet (c := c) (w := x) (t := t) (by rw [hv]; simp)
          rw [ho] at hx
          cases hx
          rcases h2 with h2 | ⟨l, h2, h3⟩
          · rw [view_some h2]; simp [viewSt]
          · rw [view_some h2]; simp [viewSt, h3]
      · exact ((taskRunning_frw h1).foreign hn hm1 x t ht ht).1 hv
  | reject t0 orv =>
    simp only [State.upd1] at h
    split at h
    · cases h
    · rename_i s1 o b h1
      cases h
      by_cases ht : t = t0
      · subst ht; exact taskReject_hot hn hm h1 x hv
      · exact ((taskReject_frw h1).foreign hn hm1 x t ht ht).1 hv
  | enable rq rv =>
    simp only [State.upd1] at h
    split at h
    · cases h
    · rename_i s1 h1
      cases h
      exact ((requestEnabled_frq h1).foreign hn hm1 x t (fun e => e) (fun e => e)).1 hv

/-- the task records after one update descend from those before -/
theorem upd1_evo {c c1 : State} {w : Nat} {u : Update} {rets rets1 : List (List TaskId)} {o1 : Out}
    (hn : (taskIds c.tasks).Nodup) (h : c.upd1 w u rets = .ok (c1, o1, rets1)) : Evo True True c c1 := by
  cases u with
  | finished t0 =>
    simp only [State.upd1] at h
    split at h
    · cases h
    · rename_i s1 o b h1; cases h; exact (taskFinished_evo h1).1
  | failed t0 =>
    simp only [State.upd1] at h
    split at h
    · cases h
    · rename_i s1 o h1; cases h; exact (taskFailed_evo h1).1
  | running t0 rv =>
    simp only [State.upd1] at h
    split at h
    · cases h
    · rename_i s1 o h1; cases h; exact (taskRunning_fx h1).1
  | runningPrefilled t0 rv =>
    simp only [State.upd1] at h
    split at h
    · cases h
    · rename_i s1 o h1; cases h; exact (taskRunning_fx h1).1
  | reject t0 orv =>
    simp only [State.upd1] at h
    split at h
    · cases h
    · rename_i s1 o b h1; cases h; exact (taskReject_fx hn h1).1
  | enable rq rv =>
    simp only [State.upd1] at h
    split at h
    · cases h
    · rename_i s1 h1; cases h; exact Evo.of_tasks (requestEnabled_tasks h1)

/-- the `started` callbacks of one update: none, or one for the task a `Running*` update reports, with its current
instance id, and afterwards the reporter's view of that task is `hot` -/
theorem upd1_starts {c c1 : State} {w : Nat} {u : Update} {rets rets1 : List (List TaskId)} {o1 : Out}
    (hn : (taskIds c.tasks).Nodup) (hm : MnOk c) (h : c.upd1 w u rets = .ok (c1, o1, rets1)) :
    starts o1.cbs = [] ∨
    ∃ t0 task, c.task? t0 = some task ∧ starts o1.cbs = [(t0, task.inst)] ∧ view c1 w t0 = .hot := by
  have run : ∀ {t0 rv s1 o}, c.taskRunning w t0 rv = .ok (s1, o) →
      starts o.cbs = [] ∨ ∃ t0 task, c.task? t0 = some task ∧ starts o.cbs = [(t0, task.inst)] ∧ view s1 w t0 = .hot := by
    intro t0 rv s1 o h1
    rcases taskRunning_starts h1 with e | ⟨task, ht, e⟩
    · exact .inl e
    · refine .inr ⟨t0, task, ht, e, ?_⟩
      rcases taskRunning_own hm h1 with ⟨h0, _⟩ | ⟨st, _, _, h2 | ⟨l, h2, h3⟩⟩
      · rw [stOf_of_find ht] at h0; cases h0
      · rw [view_some h2]; simp [viewSt]
      · rw [view_some h2]; simp [viewSt, h3]
  cases u with
  | finished t0 =>
    simp only [State.upd1] at h
    split at h
    · cases h
    · rename_i s1 o b h1; cases h; exact .inl (taskFinished_evo (nw := True) (cr := True) h1).2.2
  | failed t0 =>
    simp only [State.upd1] at h
    split at h
    · cases h
    · rename_i s1 o h1; cases h; exact .inl (taskFailed_evo (nw := True) (cr := True) h1).2.2
  | running t0 rv =>
    simp only [State.upd1] at h
    split at h
    · cases h
    · rename_i s1 o h1; cases h; exact run h1
  | runningPrefilled t0 rv =>
    simp only [State.upd1] at h
    split at h
    · cases h
    · rename_i s1 o h1; cases h; exact run h1
  | reject t0 orv =>
    simp only [State.upd1] at h
    split at h
    · cases h
    · rename_i s1 o b h1; cases h; exact .inl (taskReject_fx (nw := True) (cr := True) hn h1).2.2
  | enable rq rv =>
    simp only [State.upd1] at h
    split at h
    · cases h
    · rename_i s1 h1; cases h; exact .inl rfl

/-- `StK` through an operation part that keeps `hot` views (or bumps the instance id) and makes no `started` callback -/
theorem StK.keep {s s' : State} {S : List (TaskId × Nat)} (hk : StK s S)
    (hd : ∀ t' ∈ s'.tasks, (∃ q ∈ S, t'.id = q.1) → ∃ t ∈ s.tasks, t'.id = t.id ∧ t.inst ≤ t'.inst ∧
      ∀ x, view s x t.id = .hot → view s' x t.id = .hot ∨ t.inst < t'.inst) : StK s' S := by
  intro q hq t' ht' hid
  obtain ⟨t, ht, e, hle, hot⟩ := hd t' ht' ⟨q, hq, hid⟩
  rcases hk q hq t ht (e ▸ hid) with a | ⟨a, x, hx⟩
  · exact .inl (Nat.lt_of_lt_of_le a hle)
  · rcases hot x hx with h1 | h1
    · rcases Nat.lt_or_ge t.inst t'.inst with h2 | h2
      · exact .inl (a ▸ h2)
      · exact .inr ⟨by omega, x, by rw [e]; exact h1⟩
    · exact .inl (a ▸ h1)

theorem StK.append {s : State} {S1 S2 : List (TaskId × Nat)} (h1 : StK s S1) (h2 : StK s S2) : StK s (S1 ++ S2) := by
  intro q hq
  rcases List.mem_append.mp hq with h | h
  · exact h1 q h
  · exact h2 q h

/-- **one update** -/
theorem upd1_stK {c c1 : State} {w : Nat} {u : Update} {rets rets1 : List (List TaskId)} {o1 : Out}
    {S : List (TaskId × Nat)} (hi : InvF c) (hi1 : InvF c1) (hk : StK c S)
    (h : c.upd1 w u rets = .ok (c1, o1, rets1)) : StK c1 (S ++ starts o1.cbs) := by
  have hn := hi.inv.nd
  have hm := MnOk.of_invF hi
  have hm1 := MnOk.of_invF hi1
  have evo := upd1_evo hn h
  refine StK.append (hk.keep ?_) ?_
  · intro t' ht' _
    obtain ⟨t, ht, r⟩ := evo t' ht'
    exact ⟨t, ht, r.id, r.inst, fun x hx => .inl (upd1_hot hn hm hm1 h x t.id hx)⟩
  · rcases upd1_starts hn hm h with e | ⟨t0, task, ht0, e, hot⟩
    · rw [e]; exact StK.nil _
    · rw [e]
      intro q hq t' ht' hid
      simp only [List.mem_singleton] at hq
      subst hq
      obtain ⟨t, ht, r⟩ := evo t' ht'
      have : some t = some task := by
        have h1 := mem_find_of_nodup hn ht
        rw [← r.id, hid] at h1
        exact h1.symm.trans ht0
      cases this
      rcases Nat.lt_or_ge task.inst t'.inst with h2 | h2
      · exact .inl h2
      · exact .inr ⟨by have := r.inst; show task.inst = t'.inst; omega, w, by rw [hid]; exact hot⟩

/-- **`on_task_update`** -/
theorem updateLoop_stK (w : Nat) (us : List Update) :
    ∀ (c c' : State) (rets rets' : List (List TaskId)) (out out' : Out) (need need' : Bool) (S : List (TaskId × Nat)),
      InvF c → UpdatesOk UpdProto c w us rets → StK c S →
      c.updateLoop w us rets out need = .ok (c', out', need', rets') →
      ∃ cbs, out'.cbs = out.cbs ++ cbs ∧ StK c' (S ++ starts cbs) := by
  induction us with
  | nil =>
    intro c c' rets rets' out out' need need' S _ _ hk h
    simp only [State.updateLoop] at h
    cases h
    exact ⟨[], by simp, by simpa using hk⟩
  | cons u rest ih =>
    intro c c' rets rets' out out' need need' S hi hok hk h
    obtain ⟨c1, o1, rets1, need1, h1, h2⟩ := updateLoop_cons_out h
    have hus := upd1_updateState h1
    simp only [UpdatesOk, hus] at hok
    have hi1 : InvF c1 := ⟨updateState_inv hi.inv hok.1 hus, updateState_tw hi.tw hi.inv hok.1 hus⟩
    obtain ⟨cbs2, e2, k2⟩ := ih c1 c' rets1 rets' _ out' need1 need' _ hi1 hok.2 (upd1_stK hi hi1 hk h1) h2
    refine ⟨o1.cbs ++ cbs2, by rw [e2, Out.add_cbs, List.append_assoc], ?_⟩
    rw [starts_append, ← List.append_assoc]
    exact k2

theorem StK.ask {s : State} {S : List (TaskId × Nat)} (h : StK s S) : StK (ask s) S := by
  intro q hq t ht hid
  rcases h q hq t ht hid with a | ⟨a, x, hx⟩
  · exact .inl a
  · exact .inr ⟨a, x, by rw [view_congr (a := s) (b := Core.ask s) rfl x t.id rfl]; exact hx⟩

theorem taskUpdate_stK {s s' : State} {w : Nat} {us : List Update} {rets : List (List TaskId)} {o : Out}
    {S : List (TaskId × Nat)} (hi : InvF s) (hok : UpdatesOk UpdProto s w us rets) (hk : StK s S)
    (h : s.taskUpdate w us rets = .ok (s', o)) : StK s' (S ++ starts o.cbs) := by
  simp only [State.taskUpdate] at h
  split at h
  · cases h
  · rename_i s1 out need rets' h1
    cases h
    obtain ⟨cbs, e, k⟩ := updateLoop_stK w us _ _ _ _ _ _ _ _ S hi hok hk h1
    have e' : o.cbs = cbs := by simpa using e
    rw [e']
    split
    · exact k.ask
    · exact k

/-! ### the other operations -/

/-- **an operation other than a worker message keeps a `hot` view of a task of the map** — or, if it is the loss of
that worker, the task's instance id grows -/
theorem step_hot {s s' : State} {op : Op} {o : Out} (hi : InvF s) (hok : OpOk2 s op) (hi' : InvF s')
    (h : step s op = .ok (s', o)) (hnu : ∀ w us rets, op ≠ .update w us rets) {x : Nat} {t : Task}
    (ht : t ∈ s.tasks) (hnew : t.id ∉ op.newIds) (hv : view s x t.id = .hot) :
    view s' x t.id = .hot ∨ ∀ t' ∈ s'.tasks, t'.id = t.id → t.inst < t'.inst := by
  have hn := hi.inv.nd
  have hm' := MnOk.of_invF hi'
  cases op with
  | newWorker wk =>
    left
    have h' : s.newWorker wk = .ok (s', o) := h
    rw [(newWorker_views hok h').1 x t.id]; exact hv
  | removeWorker w0 reason f order rets =>
    have h' : s.removeWorker w0 reason f order rets = .ok (s', o) := h
    by_cases hx : x = w0
    · subst hx
      right
      intro t' ht' hid
      have hf : s.task? t.id = some t := mem_find_of_nodup hn ht
      have hf' : s'.task? t.id = some t' := by
        have := mem_find_of_nodup hi'.inv.nd ht'
        rw [hid] at this; exact this
      refine removeWorker_bumped hi h' hf hf' ?_
      rcases hot_state hn ht hv with ⟨v, e⟩ | ⟨l, e, _⟩
      · exact .inr (.inl ⟨v, e⟩)
      · exact .inr (.inr (.inr (.inr ⟨l, e⟩)))
    · exact .inl (((removeWorker_views hi.inv hm' h').1 x t.id hx).1 hv)
  | newRq rqv =>
    left
    simp only [step, Except.ok.injEq, Prod.mk.injEq] at h
    rw [← h.1, newRq_views]; exact hv
  | newTasks nts =>
    have h' : s.newTasks nts = .ok (s', o) := h
    exact .inl (((newTasks_views hn hm' h').1 x t.id hnew).1 hv)
  | cancel ids =>
    have h' : s.cancelTasks ids = .ok (s', o) := h
    exact .inl (((cancelTasks_views hn hm' h').1 x t.id).1 hv)
  | update w us rets => exact absurd rfl (hnu w us rets)
  | retracted w ids =>
    have h' : s.retractResponse w ids = .ok (s', o) := h
    obtain ⟨a, b, _⟩ := retractResponse_views h'
    left
    by_cases hc : x ≠ w ∨ t.id ∉ ids
    · exact (a x t.id hc).1 hv
    · have hxw : x = w := by
        apply Classical.byContradiction
        intro e; exact hc (.inl e)
      subst hxw
      exact (b t.id).1 hv
  | schedule sol =>
    have h' : s.schedule sol = .ok (s', o) := h
    exact .inl (((schedule_views hi.inv hm' h').1 x t.id).1 hv)

/-- an operation other than a worker message makes no `started` callback -/
theorem step_starts {s s' : State} {op : Op} {o : Out} (hn : (taskIds s.tasks).Nodup) (h : step s op = .ok (s', o))
    (hnu : ∀ w us rets, op ≠ .update w us rets) : starts o.cbs = [] := by
  cases op with
  | newWorker wk => simp only [step, State.newWorker] at h; cases h; rfl
  | removeWorker w0 reason f order rets => exact (removeWorker_fx_starts (nw := True) hn h).2
  | newRq rqv => simp only [step] at h; cases h; rfl
  | newTasks nts => exact (newTasks_evo (nw := True) (cr := True) h).2.2
  | cancel ids =>
    have := (cancelTasks_evo (nw := True) (cr := True) (by simpa [step] using h)).2.2
    rw [this]; rfl
  | update w us rets => exact absurd rfl (hnu w us rets)
  | retracted w ids =>
    have h' : s.retractResponse w ids = .ok (s', o) := h
    rw [retractResponse_cbs h']; rfl
  | schedule sol => exact (schedule_fx (cr := True) hn h).2.2.1

/-- **one operation**; `U` = the ids submitted so far (a newly submitted id is not one of them) -/
theorem step_stK {s s' : State} {op : Op} {o : Out} {S : List (TaskId × Nat)} {U : List TaskId}
    (hi : InvF s) (hok : OpOk2 s op) (hids : ∀ t ∈ s.tasks, t.id ∈ U) (hS : ∀ q ∈ S, q.1 ∈ U)
    (hfresh : ∀ x ∈ op.newIds, x ∉ U) (hk : StK s S) (h : step s op = .ok (s', o)) :
    StK s' (S ++ starts o.cbs) := by
  by_cases hu : ∃ w us rets, op = .update w us rets
  · obtain ⟨w, us, rets, rfl⟩ := hu
    exact taskUpdate_stK hi hok hk h
  · have hnu : ∀ w us rets, op ≠ .update w us rets := fun w us rets e => hu ⟨w, us, rets, e⟩
    have hi' := step_invF hi hok h
    have hn := hi.inv.nd
    rw [step_starts hn h hnu, List.append_nil]
    obtain ⟨e, _⟩ := step_fx hn h
    refine hk.keep ?_
    intro t' ht' ⟨q, hq, hid⟩
    rcases e t' ht' with ⟨t, ht, r⟩ | hnew
    · refine ⟨t, ht, r.id, r.inst, fun x hx => ?_⟩
      have hnew : t.id ∉ op.newIds := fun hm => hfresh _ hm (hids t ht)
      rcases step_hot hi hok hi' h hnu ht hnew hx with h1 | h1
      · exact .inl h1
      · exact .inr (h1 t' ht' r.id)
    · -- a new record: its id was never submitted before, so no start was announced for it
      exact absurd (hid ▸ hS q hq) (hfresh _ hnew)

/-! ### runs -/

/-- `StK` together with the history invariant and the global invariant along a run -/
theorem stK_run (ops : List Op) : ∀ (s s' : State) (H S : List (TaskId × Nat)) (U : List TaskId) (out : Out),
    InvF s → Hist s H S U → StK s S → RunOk OpOk2 s ops → (U ++ allNewIds ops).Nodup → Core.run s ops = .ok (s', out) →
    StK s' (S ++ starts out.cbs) := by
  induction ops with
  | nil =>
    intro s s' H S U out _ _ hk _ _ h
    simp only [Core.run] at h; cases h
    simpa using hk
  | cons op rest ih =>
    intro s s' H S U out hi hh hk hok hnd h
    simp only [Core.run] at h
    split at h
    · cases h
    · rename_i s1 o1 h1
      simp only [RunOk, h1] at hok
      split at h
      · cases h
      · rename_i s2 o2 h2
        cases h
        rw [allNewIds_cons] at hnd
        have hfresh : ∀ x ∈ op.newIds, x ∉ U := by
          intro x hx hu
          rw [List.nodup_append] at hnd
          exact hnd.2.2 x hu x (List.mem_append_left _ hx) rfl
        have k1 := step_stK hi hok.1 hh.ids hh.sids hfresh hk h1
        have := ih s1 _ _ _ _ o2 (step_invF hi hok.1 h1) (hh.step hfresh h1) k1 hok.2
          (by rw [List.append_assoc]; exact hnd) h2
        simpa [List.append_assoc] using this

/-- **after every run** from the empty core whose operations satisfy `OpOk2` and that submits no task id twice: a task
for which a start of instance `i` was announced has a larger instance id now, or it still has instance `i` and the core
has heard that it started (some worker's view of it is `hot`) -/
theorem run_stK {ops : List Op} {s : State} {out : Out} (hok : RunOk OpOk2 {} ops) (hr : NoIdReuse ops)
    (h : Core.run {} ops = .ok (s, out)) : StK s (starts out.cbs) := by
  have := stK_run ops {} s [] [] [] out invF_init Hist.init (StK.nil _) hok (by simpa [NoIdReuse] using hr) h
  simpa using this

/-- … in the vocabulary of the model: the task is Running, or RunningMultiNode with the `started` flag of its root's
worker record set -/
theorem run_started_locked {ops : List Op} {s : State} {out : Out} (hok : RunOk OpOk2 {} ops) (hr : NoIdReuse ops)
    (h : Core.run {} ops = .ok (s, out)) (q : TaskId × Nat) (hq : q ∈ starts out.cbs) (t : Task)
    (ht : s.task? q.1 = some t) :
    q.2 < t.inst ∨ (q.2 = t.inst ∧
      ((∃ w v, t.state = .running w v) ∨
       ∃ root others wk r, t.state = .runningMN (root :: others) ∧ s.worker? root = some wk ∧
         wk.assign = .mn q.1 r true)) := by
  have hn : (taskIds s.tasks).Nodup := (run_invF hok h).inv.nd
  have hid : t.id = q.1 := findTask_some_id ht
  rcases run_stK hok hr h q hq t (findTask_some_mem ht) hid with a | ⟨a, w, hw⟩
  · exact .inl a
  · refine .inr ⟨a, ?_⟩
    rcases hot_state hn (findTask_some_mem ht) hw with ⟨v, e⟩ | ⟨l, e, hms⟩
    · exact .inl ⟨w, v, e⟩
    · obtain ⟨wk, r, h1, h2⟩ := mnStarted_iff.mp hms
      exact .inr ⟨w, l, wk, r, e, h1, hid ▸ h2⟩

end HqModel.Core
