import HqModel.Lemmas.JobJournalRestartInv
/-!
# The emitted-journal theorems across any number of restarts
-/
namespace HqModel.Emit
open HqModel.Job HqModel.Journal

/-- what the restart theorems (C10, C03, C06, C07 restart clauses) ask of a journal file, at every crash point -/
structure GoodJ (J : List Record) : Prop where
  prod : Producible J
  dep : ∀ K, K <+: J → DepOk (meaning K)
  fresh : NoStartBeforeCreate J

theorem GoodJ.nil : GoodJ [] :=
  ⟨rfl, fun K hK => (by rw [List.prefix_nil.mp hK]; intro ja hja; cases hja), rfl⟩

theorem producibleFrom_append : ∀ (l m : List Record) (A : AState),
    producibleFrom A (l ++ m) = (producibleFrom A l && producibleFrom (l.foldl meaningStep A) m)
  | [], _, _ => by simp [producibleFrom]
  | r :: l, m, A => by
    simp only [List.cons_append, producibleFrom, List.foldl_cons, producibleFrom_append l m, Bool.and_assoc]

theorem prefix_append_cases : ∀ (l m K : List Record), K <+: l ++ m →
    K <+: l ∨ ∃ K', K = l ++ K' ∧ K' <+: m
  | [], m, K, h => .inr ⟨K, rfl, h⟩
  | a :: l, m, K, h => by
    cases K with
    | nil => exact .inl List.nil_prefix
    | cons b K =>
      rw [List.cons_append] at h
      obtain ⟨hab, hK⟩ := List.cons_prefix_cons.mp h
      subst hab
      rcases prefix_append_cases l m K hK with h1 | ⟨K', rfl, h2⟩
      · exact .inl (List.cons_prefix_cons.mpr ⟨rfl, h1⟩)
      · exact .inr ⟨K', rfl, h2⟩

theorem GoodJ.prefix {J K : List Record} (h : GoodJ J) (hK : K <+: J) : GoodJ K := by
  obtain ⟨M, rfl⟩ := hK
  refine ⟨?_, fun K' hK' => h.dep K' (hK'.trans (List.prefix_append _ _)), nsbc_prefix K M [] h.fresh⟩
  have := h.prod
  unfold Producible at this ⊢
  rw [producibleFrom_append, Bool.and_eq_true] at this
  exact this.1

theorem nsbc_append (M : List Record) (S : List Nat) : ∀ (J : List Record) (seen : List Nat),
    noStartBeforeCreate seen J = true → noStartBeforeCreate S M = true →
    (∀ j, j ∈ seen ∨ (∃ r ∈ J, startedJob r = some j) → j ∈ S) →
    noStartBeforeCreate seen (J ++ M) = true
  | [], seen, _, hM, hS => nsbc_mono M (fun j hj => hS j (.inl hj)) hM
  | r :: J, seen, hJ, hM, hS => by
    simp only [noStartBeforeCreate, Bool.and_eq_true, List.cons_append] at hJ ⊢
    refine ⟨hJ.1, nsbc_append M S J _ hJ.2 hM ?_⟩
    intro j hj
    rcases hj with hj | ⟨r', hr', hs⟩
    · cases hst : startedJob r with
      | none => rw [hst] at hj; exact hS j (.inl hj)
      | some k =>
        rw [hst] at hj
        simp only [List.mem_cons] at hj
        rcases hj with rfl | hj
        · exact hS j (.inr ⟨r, by simp, hst⟩)
        · exact hS j (.inl hj)
    · exact hS j (.inr ⟨r', by simp [hr'], hs⟩)

/-- restore of a producible journal succeeds (first half of `c10_restore_refines`) -/
theorem restore_ok {J : List Record} (hp : Producible J) : ∃ R X, restore J = .ok (R, X) := by
  obtain ⟨R0, hR, hinv⟩ := fold_inv J {} {} inv_init hp
  obtain ⟨js, bs, h1, -, -⟩ := restoreJobsFrom_ok hinv.jobs
    { queues := R0.queues.map fun q => (q.1, (alGet R0.queueRes q.1).isSome) }
  exact ⟨R0, ⟨[] ++ js, [] ++ bs, R0.queues.map fun q => (q.1, (alGet R0.queueRes q.1).isSome)⟩,
    by simp only [restore, restorerFold, hR, restoreJobs, h1]⟩

theorem meaning_snoc (J : List Record) (r : Record) : meaning (J ++ [r]) = meaningStep (meaning J) r := by
  simp [meaning, List.foldl_append]

/-- one more server life on top of a good journal file -/
theorem GoodJ.life {J : List Record} (h : GoodJ J) (uid : String) (ops : List Op)
    (hok : emitOkFrom (nextState J) (meaning (J ++ [.serverStart uid])) ops = true) :
    GoodJ (J ++ .serverStart uid :: journalFrom (nextState J) ops) := by
  obtain ⟨R, X, e⟩ := restore_ok h.prod
  have hs : nextState J = jobStateOf R X := by simp [nextState, e]
  rw [hs] at hok ⊢
  have hinv := restart_inv h.prod (h.dep J (List.prefix_refl J)) e uid
  have g := journalFrom_good ops hinv hok
  rw [meaning_snoc] at g
  refine ⟨?_, ?_, ?_⟩
  · unfold Producible
    rw [producibleFrom_append]
    simp only [producibleFrom, Bool.and_eq_true]
    exact ⟨h.prod, rfl, g.producible⟩
  · intro K hK
    rcases prefix_append_cases _ _ K hK with h1 | ⟨K', rfl, h2⟩
    · exact h.dep K h1
    · cases K' with
      | nil => simpa using h.dep J (List.prefix_refl J)
      | cons r K'' =>
        obtain ⟨hr, hK''⟩ := List.cons_prefix_cons.mp h2
        subst hr
        have : meaning (J ++ Record.serverStart uid :: K'') =
            K''.foldl meaningStep (meaningStep (meaning J) (.serverStart uid)) := by
          simp [meaning, List.foldl_append]
        rw [this]
        exact g.prefix hK''
  · obtain ⟨-, -, hmax⟩ := restart_core h.prod e
    have hst := (meaning_keysLe J h.prod).2
    refine nsbc_append _ (List.range ((meaning J).maxJob + 1)) J [] h.fresh ?_ ?_
    · simp only [noStartBeforeCreate, createdJob, startedJob, Bool.true_and]
      refine journalFrom_nsbc ops (restart_wf h.prod e) ?_
      intro j hj
      simp only [List.mem_range] at hj
      simp only [jobStateOf, counters, hmax]
      exact hj
    · intro j hj
      rcases hj with hj | ⟨r, hr, hs'⟩
      · cases hj
      · have := hst r hr j hs'
        simp only [List.mem_range]; omega

theorem lifeRecords_prefix (J : List Record) (l : Life) :
    J ++ lifeRecords J l <+: J ++ .serverStart l.uid :: journalFrom (nextState J) l.ops := by
  unfold lifeRecords
  cases l.cut with
  | none => exact List.prefix_refl _
  | some n => exact (List.prefix_append_right_inj J).mpr (List.take_prefix _ _)

/-- **any number of server lives**, each possibly ending in a crash at any record boundary -/
theorem GoodJ.lives : ∀ (ls : List Life) {J : List Record}, GoodJ J → livesOk J ls = true → GoodJ (livesJournal J ls)
  | [], _, h, _ => h
  | l :: ls, J, h, hok => by
    simp only [livesOk, Bool.and_eq_true] at hok
    exact GoodJ.lives ls ((h.life l.uid l.ops hok.1).prefix (lifeRecords_prefix J l)) hok.2

end HqModel.Emit
