import HqModel.Lemmas.AutoAllocLife
/-!
The `allocation_to_queue` index and uniqueness of allocation ids inside a queue (C18 `c18_remove_queue`,
`c18_unknown`).
-/
namespace HqModel.AutoAlloc

/-! ### association-list facts -/

theorem a2qLookup_remove (a b : Nat) (m : List (Nat × Nat)) :
    a2qLookup a (a2qRemove b m) = if a = b then none else a2qLookup a m := by
  unfold a2qLookup a2qRemove
  induction m with
  | nil => simp
  | cons y ys ih =>
    simp only [List.filter_cons]
    by_cases hy : y.1 = b
    · have h1 : (y.1 != b) = false := by simp [hy]
      simp only [h1, Bool.false_eq_true, if_false]
      rw [ih]
      by_cases hab : a = b
      · simp [hab]
      · have : (y.1 == a) = false := by simp [hy]; exact fun h => hab h.symm
        simp [hab, List.find?_cons, this]
    · have h1 : (y.1 != b) = true := by simp [hy]
      simp only [h1, if_true, List.find?_cons]
      by_cases hya : y.1 = a
      · have : ¬ a = b := by omega
        simp [hya, this]
      · have : (y.1 == a) = false := by simp [hya]
        simp only [this]
        exact ih

theorem removeA2qAll_lookup (ids : List Nat) (m m' : List (Nat × Nat)) (h : State.removeA2qAll ids m = some m')
    (a : Nat) (ha : a ∈ ids ∨ a2qLookup a m = none) : a2qLookup a m' = none := by
  induction ids generalizing m with
  | nil =>
    simp only [State.removeA2qAll, Option.some.injEq] at h
    subst h
    rcases ha with ha | ha
    · cases ha
    · exact ha
  | cons b rest ih =>
    simp only [State.removeA2qAll] at h
    split at h
    · apply ih _ h
      by_cases hab : a = b
      · right; rw [a2qLookup_remove]; simp [hab]
      · rcases ha with ha | ha
        · simp only [List.mem_cons] at ha
          rcases ha with ha | ha
          · exact absurd ha hab
          · left; exact ha
        · right; rw [a2qLookup_remove]; simp [hab, ha]
    · cases h

/-- entries of other allocations survive the removal of a queue's entries -/
theorem removeA2qAll_other (ids : List Nat) (m m' : List (Nat × Nat)) (h : State.removeA2qAll ids m = some m')
    (a : Nat) (ha : a ∉ ids) : a2qLookup a m' = a2qLookup a m := by
  induction ids generalizing m with
  | nil =>
    simp only [State.removeA2qAll, Option.some.injEq] at h
    subst h; rfl
  | cons b rest ih =>
    simp only [State.removeA2qAll] at h
    simp only [List.mem_cons, not_or] at ha
    split at h
    · rw [ih _ h ha.2, a2qLookup_remove]; simp [ha.1]
    · cases h

/-! ### allocation ids are unique inside a queue -/

def IdsNodup (q : Queue) : Prop := (q.allocs.map (·.id)).Nodup

theorem map_id_of_preserving (l : List Alloc) (f : Alloc → Alloc) (hf : ∀ y, (f y).id = y.id) :
    (l.map f).map (·.id) = l.map (·.id) := by
  simp [List.map_map, Function.comp_def, hf]

theorem Queue.submitLoop_IdsNodup (p : List Nat) (acc : SubAcc) (h : IdsNodup acc.q) :
    IdsNodup (Queue.submitLoop p acc).q := by
  induction p generalizing acc with
  | nil => exact h
  | cons n rest ih =>
    simp only [Queue.submitLoop]
    split
    · exact h
    · rename_i a rs _
      split
      · exact h
      · rename_i hany
        apply ih
        unfold IdsNodup at h ⊢
        simp only [List.map_append, List.map_cons, List.map_nil]
        rw [List.nodup_append]
        refine ⟨h, by simp, ?_⟩
        intro x hx y hy
        simp only [List.mem_singleton] at hy
        subst hy
        intro hxy
        subst hxy
        apply hany
        simp only [List.mem_map] at hx
        obtain ⟨z, hz, hzx⟩ := hx
        simp only [List.any_eq_true, beq_iff_eq]
        exact ⟨z, hz, hzx⟩
    · exact h

theorem QPrim.idsNodup {c : Consts} {P : Nat → AIn → Prop} {a b : Queue} (h : QPrim c P a b) (hn : IdsNodup a) : IdsNodup b := by
  cases h with
  | sync x r =>
    unfold Queue.sync
    split
    · exact hn
    · unfold IdsNodup at hn ⊢
      simp only
      rw [map_id_of_preserving]
      · exact hn
      · intro y; split <;> rfl
  | bumpErr x =>
    unfold Queue.bumpErr
    split
    · exact hn
    · unfold IdsNodup at hn ⊢
      simp only
      rw [map_id_of_preserving]
      · exact hn
      · intro y; split <;> rfl
  | tryPause => unfold Queue.tryPause; split <;> exact hn
  | trySubmit r now res =>
    unfold Queue.trySubmit
    simp only
    split
    · exact hn
    · split
      · exact hn
      · split
        · exact hn
        · exact hn
        · split
          · exact Queue.submitLoop_IdsNodup _ _ hn
          · exact hn
  | pause => exact hn

theorem QTrans.idsNodup {c : Consts} {P : Nat → AIn → Prop} {a b : Queue} (h : QTrans c P a b) : IdsNodup a → IdsNodup b :=
  QTrans.lift (fun a b => IdsNodup a → IdsNodup b) (fun _ h => h) (fun _ _ _ h1 h2 h => h2 (h1 h))
    (fun _ _ h => h.idsNodup) h

/-- In every reachable state the allocation ids of a queue are pairwise distinct. -/
theorem reach_idsNodup (c : Consts) (n : Nat) (s : State) (h : Reach (init c n) s) :
    ∀ x q, s.getQueue x = some q → IdsNodup q := by
  induction h with
  | init => intro x q hq; simp [init, State.getQueue] at hq
  | @step s0 e _ _ ih =>
    intro x q' hq'
    cases hpre : s0.getQueue x with
    | none =>
      obtain ⟨p, lim, qid, _, _, rfl⟩ := step_new_queue s0 e x q' hpre hq'
      simp [IdsNodup]
    | some q =>
      rcases step_queue s0 e x q hpre with ⟨_, hnone⟩ | ⟨_, hres⟩ | ⟨q2, hq2, ht⟩
      · rw [hnone] at hq'; cases hq'
      · rw [hres] at hq'; cases hq'
        exact ih x q hpre
      · rw [hq2] at hq'; cases hq'
        exact ht.idsNodup (ih x q hpre)

end HqModel.AutoAlloc
