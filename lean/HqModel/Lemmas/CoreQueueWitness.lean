import HqModel.Lemmas.CoreQueueRun
import HqModel.Lemmas.CoreMsgWitness
/-!
The queue / dependency invariant, part 8: `NoIdReuse` is necessary.

The core accepts a `Finished` for a task in state Retracting (`task_finished` has an arm for it) and `remove_task`
of a Finished task does not touch the queues: if the retracted task was waiting in the ready queue for the retract
response (a disposed prefill), its id stays in the queue after the task left the map. A correct worker announces
`Running` first (then the id leaves the queue, fix 30afef4), and HyperQueue never reuses a task id, so on real
traces this is invisible; in the model a later submit of the same id with another request makes the stale queue
entry name a task of a different request.
-/
namespace HqModel.Core

/-- one worker with 3 units; request 0 needs 1 unit; tasks 0..2 of request 0; round 1 assigns task 0 and prefills
task 1 on the worker; task 3 (priority 5) disposes the prefill: task 1 goes back to the ready queue of request 0 and
is Retracting; the worker reports it Finished (without Running): it leaves the map, its id stays in queue 0;
request 1 needs half a unit; the id (1,1) is submitted AGAIN, for request 1. -/
def reuseQOps : List Op :=
  [.newWorker { id := 1, assign := .sn [] [30000] [], total := [30000] },
   .newRq [{ entries := [⟨0, .amount 10000⟩] }],
   .newTasks [{ id := (1, 0), rq := 0, prio := 0, crashLimit := .max 5, deps := [] },
              { id := (1, 1), rq := 0, prio := 0, crashLimit := .max 5, deps := [] },
              { id := (1, 2), rq := 0, prio := 0, crashLimit := .max 5, deps := [] }],
   .schedule { sn := [{ rq := 0, v := 0, counts := [(1, 1)], taken := [(1, 0)] }], prefillOrders := [(0, [1])] },
   .newTasks [{ id := (1, 3), rq := 0, prio := 5, crashLimit := .max 5, deps := [] }],
   .update 1 [.finished (1, 1)] [],
   .newRq [{ entries := [⟨0, .amount 5000⟩] }],
   .newTasks [{ id := (1, 1), rq := 1, prio := 0, crashLimit := .max 5, deps := [] }]]

/-- a scheduling round that takes two tasks from queue 0 — (1,3) and the stale entry (1,1) — and places them on the
worker with the amounts of request 0 -/
def reuseQOp : Op := .schedule { sn := [{ rq := 0, v := 0, counts := [(1, 2)], taken := [(1, 3), (1, 1)] }] }

/-- the run satisfies every remaining side condition (even `OpOk4` up to the resubmission), reuses an id, reaches a
state in which `QueueOkD` is false ((1,1) is in queue 0 and a task of request 1), and after the round the resource
equation of worker 1 is false (`0 + 10000 + 10000 + 5000 ≠ 30000`) -/
theorem reuseQ_witness :
    RunOk OpOk5 {} (reuseQOps ++ [reuseQOp]) ∧ RunOk OpOk4 {} reuseQOps ∧ ¬ NoIdReuse (reuseQOps ++ [reuseQOp]) ∧
    ((run {} reuseQOps).toOption.map fun r => decide (QueueOkD r.1)) = some false ∧
    ((run {} reuseQOps).toOption.map fun r => r.1.queues.map fun q => q.ready) =
      some [[(5, [(1, 3)]), (0, [(1, 1), (1, 2)])], [(0, [(1, 1)])]] ∧
    ((run {} reuseQOps).toOption.map fun r => r.1.tasks.map fun t => (t.id, t.rq)) =
      some [((1, 0), 0), ((1, 2), 0), ((1, 3), 0), ((1, 1), 1)] ∧
    ((run {} (reuseQOps ++ [reuseQOp])).toOption.map fun r => (resAtB r.1 1 0, r.1.workers.map wAsg)) =
      some (false, [[(1, 0), (1, 3), (1, 1)]]) :=
  ⟨by decide, by decide, by decide, by decide, by decide, by decide, by decide⟩

/-- **"every queued id is a task of the map" is false in the model**, also without id reuse: the first six
operations of `reuseQOps` satisfy `OpOk4` and `NoIdReuse`; afterwards (1,1) is in ready queue 0 and not in the map;
a scheduling round that takes it stops with the panic `get_task` (the `Finished` for a Retracting task that was
never announced Running is what a correct worker does not send). -/
theorem staleQ_witness :
    RunOk OpOk4 {} (reuseQOps.take 6 ++ [reuseQOp]) ∧ NoIdReuse (reuseQOps.take 6 ++ [reuseQOp]) ∧
    ((run {} (reuseQOps.take 6)).toOption.map fun r => r.1.queues.map fun q => q.ready) =
      some [[(5, [(1, 3)]), (0, [(1, 1), (1, 2)])]] ∧
    ((run {} (reuseQOps.take 6)).toOption.map fun r => r.1.tasks.map fun t => t.id) = some [(1, 0), (1, 2), (1, 3)] ∧
    (match run {} (reuseQOps.take 6 ++ [reuseQOp]) with | .error (.panic site) => site | .ok _ => "ok") = "get_task" :=
  ⟨by decide, by decide, by decide, by decide, by decide⟩

/-- a dependency named twice in one submit: `on_new_tasks` counts it twice and registers the consumer once -/
def dupDepOps : List Op :=
  [.newWorker (wkr 1),
   .newRq [{ entries := [⟨0, .amount 5000⟩] }],
   .newTasks [ntk 0, ntk 1 0 [(1, 0), (1, 0)]],
   .schedule { sn := [{ rq := 0, v := 0, counts := [(1, 1)], taken := [(1, 0)] }] },
   .update 1 [.running (1, 0) 0] [],
   .update 1 [.finished (1, 0)] []]

/-- **the dependency count is `≤`, not `=`**: after the submit (1,1) is `Waiting 2` and listed once; after its only
dependency finished it is `Waiting 1`, listed by nobody and in no queue — it never becomes ready. (HyperQueue
removes duplicates before it hands the dependencies to tako: `build_tasks_graph` collects them into a set.) -/
theorem dupDep_witness :
    RunOk OpOk4 {} dupDepOps ∧ NoIdReuse dupDepOps ∧
    ((run {} (dupDepOps.take 3)).toOption.map fun r => r.1.tasks.map fun t => (t.id, t.consumers, t.state)) =
      some [((1, 0), [(1, 1)], .waiting 0), ((1, 1), [], .waiting 2)] ∧
    ((run {} dupDepOps).toOption.map fun r => r.1.tasks.map fun t => (t.id, t.consumers, t.state)) =
      some [((1, 1), [], .waiting 1)] ∧
    ((run {} dupDepOps).toOption.map fun r => r.1.queues.map fun q => qIds q) = some [[]] :=
  ⟨by decide, by decide, by decide, by decide, by decide⟩

end HqModel.Core
