import HqModel.Lemmas.CoreNoPanicLoops
import HqModel.Lemmas.CoreNoPanicFrame7
import HqModel.Lemmas.CoreNoPanicDeps3
import HqModel.Lemmas.CoreNoPanicQ7
/-!
C09 progress ("it returns `.ok`") for `on_cancel_tasks` / `on_task_update`, part 1: the invariant **bundle**
`Bd U D R s` and its preservation by the reactor functions (combination of the `*_inv`, `*_tw`, `*_safe`,
`NPA.*_npw/_npidx/_npmn`, `NPB.*_npdeps`, `NPC.*_npq` lemmas). Everything is in namespace `HqModel.Core.NPR`;
no existing file was edited.

## STATUS (files `CoreNoPanicReactP.lean`, `…P2`, …, `…P6`): everything listed is proved — no `sorry`, axioms
## `propext, Classical.choice, Quot.sound` only. NOT done: nothing of the task list (see "remarks" at the end).

### `CoreNoPanicReactP.lean` — the bundle
* `structure Bd (U : List TaskId) (D : TaskId → Prop) (R : List TaskId) (s : State) : Prop` with fields
  `inv : Inv s`, `tw : TWI D s`, `q : QInv U none [] s`, `w : NpW s`, `idx : NpIdx s`, `mn : NpMn s`,
  `deps : NpDeps U s`, `nq : NpQ D R s`
* `Bd.of : InvF s → QInv U none [] s → NpInv U [] s → Bd U noD [] s`; `Bd.invF : Bd U noD R s → InvF s`;
  `Bd.npinv : Bd U noD R s → NpInv U R s`; `Bd.mono : Bd U D R s → (∀ x, D x → D' x) → Bd U D' R s`; `Bd.nd`
* loops, in the form used with the `*_cons` decompositions of `CoreNoPanicLoops.lean` (apply to a one-element list):
  - `Bd.cancelLoop : Bd U (· ∈ u) [] s → NPC.PfD [] s u → (∀ x ∈ u, Free s x) → s.cancelLoop ids u r = .ok (s', u', r') →
       Bd U (· ∈ u') [] s' ∧ NPC.PfD [] s' u' ∧ ∀ x ∈ u', Free s' x`
  - `Bd.removeTasksBatched : Bd U (fun x => x ∈ ids ∨ D0 x) [] s → NPC.PfD [] s ids → (∀ x ∈ ids, Free s x) →
       s.removeTasksBatched ids = .ok s' → Bd U D0 [] s'`
  - `Bd.removeWaitingAll : Bd U D R s → s.removeWaitingAll ids = .ok s' → Bd U D R s'`
  - `Bd.retract : Bd U D R s → s.retract R = .ok (s', o) → Bd U D [] s'`
* whole functions (all `Bd U noD [] s → … = .ok … → Bd U noD [] s'`): `Bd.cancelTasks`, `Bd.taskFailed` (any `worker`, `ret`),
  `Bd.taskRunning` (hyp `UpdNP s w (.running id rv)`), `Bd.taskFinished` (hyp `UpdNP s w (.finished id)`),
  `Bd.taskReject` (hyp `RejectOk s w id rv`), `Bd.requestEnabled`, `Bd.updateState` (hyps `UpdProto s w u`, `UpdNP s w u`),
  `Bd.updateLoop`, `Bd.taskUpdate` (hyps `UpdatesOk UpdProto …`, `UpdatesOk UpdNP …`)
* (`CoreNoPanicReactP4.lean`) `Bd.setWorker_same : Bd U D R s → findWorker s.workers wk'.id = some wk →
     wk'.assign = wk.assign → wk'.total = wk.total → Bd U D R (s.setWorker wk')`

### `CoreNoPanicReactP2.lean` — removal loops, `on_cancel_tasks`
* `structure Lt U s` (`q : QInv U none [] s`, `idx : NpIdx s`, `deps : NpDeps U s`): all `remove_task` needs and keeps; `Bd.lt`
* `removeTask_ok_lt : Lt U s → s.task? id = some task → ∃ s', s.removeTask id = .ok (s', task.state) ∧ Lt U s' ∧
     ∀ x, x ≠ id → stOf s'.tasks x = stOf s.tasks x`
* `removeTasksBatched_ok : ∀ ids s, Lt U s → ids.Nodup → (∀ x ∈ ids, ∃ st, stOf s.tasks x = some st) →
     ∃ s', s.removeTasksBatched ids = .ok s'`
* `removeWaitingAll_ok : ∀ ids s, Lt U s → ids.Nodup → (∀ x ∈ ids, ∃ n, stOf s.tasks x = some (.waiting n)) →
     ∃ s', s.removeWaitingAll ids = .ok s' ∧ Lt U s' ∧ ∀ x, x ∉ ids → stOf s'.tasks x = stOf s.tasks x`
* `unionTids_nodup : a.Nodup → (unionTids a b).Nodup`
* `cancelLoop_one_ok` (one iteration succeeds: `Bd U (· ∈ u) [] s`, and `id ∈ u` only if the record is Waiting),
  `cancelLoop_one_u`, `structure CLI U s u rest` (loop invariant), `CLI.step`, `cancelLoop_ok`
* **`cancelTasks_ok : Bd U noD [] s → ids.Nodup → ∃ r, s.cancelTasks ids = .ok r`**

### `CoreNoPanicReactP3.lean` — `task_finished`
* `finPre`, `finTail`, `taskFinished_eq` (rfl); `FinState w st`, `updNP_fin_elim`; `structure AfterPre s s1 id`
  (state after the worker side: same tasks and queues, `TWI (· = id) s1`, `NpQ noD [] s1`, no redirect of `id`);
  `detachSn_ok` (Assigned/Running: `s.rq` and `remove_sn_task` succeed), `detachMn_ok` (`reset_mn_task_workers` succeeds),
  `finPre_ok`, `removeTask_finished`, `finTail_ok`
* **`taskFinished_ok : Bd U noD [] s → UpdNP s w (.finished id) → ∃ r, s.taskFinished w id = .ok r`**

### `CoreNoPanicReactP4.lean` — `task_reject`, `request_enabled`
* `structure TailReady s1 task` (`ht : s1.task? task.id = some task`, `tw : TWI (· = task.id) s1`, `nr` no redirect of the task,
  `nq : NpQ noD [] (s1.setTask { task with state := .waiting 0 })`, `rq : task.rq < s1.queues.length`)
* **`rejectTail_np : TailReady s1 task → ∃ r, rejectTail s1 task = .ok r`** (`rejectTail` of `CoreMnReject.lean`);
  `TailReady.of_after` (from `AfterPre`, for a task that is stored in no queue)
* `blockW`, `rejectArms`, `taskReject_unfold : s.task? id = some task → s.worker? w = some wk0 →
     s.taskReject w id rv = rejectArms (s.setWorker (blockW wk0 task.rq rv)) (blockW wk0 task.rq rv) w id rv task`, `rejectArms_ok`
* **`taskReject_ok : Bd U noD [] s → UpdNP s w (.reject id rv) → RejectOk s w id rv → ∃ r, s.taskReject w id rv = .ok r`**
* `requestEnabled_ok : (s.worker? w).isSome = true → ∃ r, s.requestEnabled w rq rv = .ok r`, `removePrefilled_qlen`

### `CoreNoPanicReactP5.lean` — `task_failed`
* `failPre`, `failRest`, `taskFailed_eq` (rfl), `failRet`, `failRest_split` (rest for `ret` = rest for `[]`, then `on_cancel_tasks ret`)
* `FailState worker st`; `FailProto s worker id := match worker with | some w => UpdNP s w (.failed id)
     | none => ∀ task, s.task? id = some task → task.state = .waiting 0`
* `failPre_ok` (→ `s1.tasks = s.tasks ∧ Lt U s1`), `failRest_nil_ok`
* **`taskFailed_ok : Bd U noD [] s → FailProto s worker id → ret.Nodup → ∃ r, s.taskFailed worker id ret = .ok r`**,
  `taskFailed_ok_some` (hyp `UpdNP s w (.failed id)`), `taskFailed_ok_none` (hyp: the record, if any, is `Waiting 0`)

### `CoreNoPanicReactP6.lean` — `on_task_update`
* `updateState_ok : Bd U noD [] s → UpdProto s w u → UpdNP s w u → NoF27 s w u → RetsOk rets → ∃ r, s.updateState w u rets = .ok r`
* `updateState_rets`, `updateLoop_step` (forward form of `updateLoop_cons`), `updateLoop_ok`
* **`taskUpdate_ok : Bd U noD [] s → UpdatesOk UpdProto s w us rets → UpdatesOk UpdNP s w us rets →
     UpdatesOk NoF27 s w us rets → RetsOk rets → ∃ r, s.taskUpdate w us rets = .ok r`**
* `cancelTasks_np`, `taskUpdate_np` (`NoCorePanic` forms)

### remarks
* the `none` caller of `task_failed` (crash loop) is stated for a record that is `Waiting 0` (what `lostAssigned` leaves);
  what is used is only `slack task.state = 0` (nobody lists the task, so it is not its own recursive consumer).
* the removal phases (`removeTasksBatched`, `removeWaitingAll`, the final `remove_task`) need only the light bundle `Lt`.
* bundle lemmas for `on_remove_worker` / `on_new_tasks` / `schedule` (`Bd.crashLoop`, `Bd.removeWorker`, `Bd.newTasks`, …) are NOT
  here (not part of this task; they combine the same way from `*_inv/_tw/_safe/_np*`).
-/
namespace HqModel.Core.NPR

open HqModel.Core.NP

/-- everything the progress proofs read of a state: `D` = tasks in repair (exempt from the state → list clauses of
`TWI` and from `NpQ.pin`), `R` = ids disposed from a prefill set and not yet retracted -/
structure Bd (U : List TaskId) (D : TaskId → Prop) (R : List TaskId) (s : State) : Prop where
  inv : Inv s
  tw : TWI D s
  q : QInv U none [] s
  w : NpW s
  idx : NpIdx s
  mn : NpMn s
  deps : NpDeps U s
  nq : NpQ D R s

section
variable {U : List TaskId} {s s' : State}

theorem Bd.of (hi : InvF s) (hq : QInv U none [] s) (hn : NpInv U [] s) : Bd U noD [] s :=
  ⟨hi.inv, hi.tw, hq, hn.w, hn.idx, hn.mn, hn.deps, hn.q⟩

theorem Bd.invF {R} (hb : Bd U noD R s) : InvF s := ⟨hb.inv, hb.tw⟩

theorem Bd.npinv {R} (hb : Bd U noD R s) : NpInv U R s := ⟨hb.w, hb.idx, hb.mn, hb.deps, hb.nq⟩

theorem Bd.mono {D D' : TaskId → Prop} {R} (hb : Bd U D R s) (hd : ∀ x, D x → D' x) : Bd U D' R s :=
  ⟨hb.inv, hb.tw.mono hd, hb.q, hb.w, hb.idx, hb.mn, hb.deps, hb.nq.mono hd⟩

theorem Bd.nd {D R} (hb : Bd U D R s) : (taskIds s.tasks).Nodup := hb.inv.nd

/-! ### `on_cancel_tasks` -/

/-- the per-task loop of `on_cancel_tasks` (whole loop; applied to a one-element list: one iteration) -/
theorem Bd.cancelLoop {ids u u' : List TaskId} {r r' : List (Nat × List TaskId)}
    (hb : Bd U (· ∈ u) [] s) (hpf : NPC.PfD [] s u) (hfr : ∀ x ∈ u, Free s x)
    (h : s.cancelLoop ids u r = .ok (s', u', r')) :
    Bd U (· ∈ u') [] s' ∧ NPC.PfD [] s' u' ∧ ∀ x ∈ u', Free s' x := by
  obtain ⟨hi, hf⟩ := cancelLoop_inv _ _ _ _ _ _ _ hb.inv hfr h
  obtain ⟨hq, hp⟩ := NPC.cancelLoop_npq (D0 := noD) _ _ _ _ _ _ _ (hb.nq.mono (fun _ hx => Or.inl hx)) hpf hb.inv.cw h
  refine ⟨⟨hi, cancelLoop_tw _ _ _ _ _ _ _ hb.tw h, cancelLoop_safe _ _ _ _ _ _ _ h U none [] hb.q,
    NPA.cancelLoop_npw _ _ _ _ _ _ _ hb.w h, NPA.cancelLoop_npidx _ _ _ _ _ _ _ hb.idx h,
    NPA.cancelLoop_npmn _ _ _ _ _ _ _ hb.mn h, NPB.cancelLoop_npdeps hb.deps h, ?_⟩, hp, hf⟩
  exact hq.mono (fun x hx => by rcases hx with h1 | h1; exact h1; exact h1.elim)

/-- the removal loop of `on_cancel_tasks` (`D0` = what stays in repair) -/
theorem Bd.removeTasksBatched {D0 : TaskId → Prop} {ids : List TaskId}
    (hb : Bd U (fun x => x ∈ ids ∨ D0 x) [] s) (hpf : NPC.PfD [] s ids) (hfr : ∀ x ∈ ids, Free s x)
    (h : s.removeTasksBatched ids = .ok s') : Bd U D0 [] s' :=
  ⟨removeTasksBatched_inv _ _ _ hb.inv hfr h, removeTasksBatched_tw _ _ _ hb.tw hb.inv.nd hfr h,
    removeTasksBatched_safe _ _ _ h U none [] hb.q, NPA.removeTasksBatched_npw _ _ _ hb.w h,
    NPA.removeTasksBatched_npidx _ _ _ hb.idx h, NPA.removeTasksBatched_npmn _ _ _ hb.mn h,
    NPB.removeTasksBatched_npdeps _ hb.deps hb.q h, (NPC.removeTasksBatched_npq _ _ _ hb.nq hb.inv.nd hpf h).1⟩

theorem Bd.cancelTasks {ids : List TaskId} {o : Out} (hb : Bd U noD [] s) (h : s.cancelTasks ids = .ok (s', o)) :
    Bd U noD [] s' :=
  ⟨cancelTasks_inv hb.inv h, cancelTasks_tw hb.tw hb.inv h, cancelTasks_safe h U none [] hb.q,
    NPA.cancelTasks_npw hb.w h, NPA.cancelTasks_npidx hb.idx h, NPA.cancelTasks_npmn hb.mn h,
    NPB.cancelTasks_npdeps hb.deps hb.q h, (NPC.cancelTasks_npq hb.nq hb.inv.nd hb.inv.cw h).1⟩

/-! ### `task_failed` -/

theorem Bd.removeWaitingAll {D R} {ids : List TaskId} (hb : Bd U D R s) (h : s.removeWaitingAll ids = .ok s') :
    Bd U D R s' :=
  ⟨(removeWaitingAll_inv _ _ _ hb.inv h).1, removeWaitingAll_tw _ _ _ hb.tw hb.inv h,
    removeWaitingAll_safe _ _ _ h U none [] hb.q, NPA.removeWaitingAll_npw _ _ _ hb.w h,
    NPA.removeWaitingAll_npidx _ _ _ hb.idx h, NPA.removeWaitingAll_npmn _ _ _ hb.mn h,
    NPB.removeWaitingAll_npdeps _ hb.deps hb.q h, (NPC.removeWaitingAll_npq _ _ _ hb.nq hb.inv.nd h).1⟩

theorem Bd.taskFailed {worker : Option Nat} {id : TaskId} {ret : List TaskId} {o : Out} (hb : Bd U noD [] s)
    (h : s.taskFailed worker id ret = .ok (s', o)) : Bd U noD [] s' :=
  ⟨taskFailed_inv hb.inv h, taskFailed_tw hb.tw hb.inv h, taskFailed_safe h U none [] hb.q,
    NPA.taskFailed_npw hb.w h, NPA.taskFailed_npidx hb.idx h, NPA.taskFailed_npmn hb.mn h,
    NPB.taskFailed_npdeps hb.deps hb.q h, (NPC.taskFailed_npq hb.nq hb.inv.nd hb.inv.cw h).1⟩

/-! ### the other update handlers -/

theorem Bd.taskRunning {w : Nat} {id : TaskId} {rv : Nat} {o : Out} (hb : Bd U noD [] s)
    (hp : UpdNP s w (.running id rv)) (h : s.taskRunning w id rv = .ok (s', o)) : Bd U noD [] s' :=
  ⟨taskRunning_inv hb.inv h, taskRunning_tw hb.tw h, taskRunning_safe h U none [] hb.q,
    NPA.taskRunning_npw hp hb.w h, NPA.taskRunning_npidx hp hb.idx h, NPA.taskRunning_npmn hp hb.mn h,
    NPB.taskRunning_npdeps hb.deps h, NPC.taskRunning_npq hb.nq (by simp) h⟩

theorem Bd.taskFinished {w : Nat} {id : TaskId} {o : Out} {b : Bool} (hb : Bd U noD [] s)
    (hp : UpdNP s w (.finished id)) (h : s.taskFinished w id = .ok (s', o, b)) : Bd U noD [] s' :=
  ⟨taskFinished_inv hb.inv h, taskFinished_tw hb.tw hb.inv h, taskFinished_safeN h U hb.q,
    NPA.taskFinished_npw hb.w h, NPA.taskFinished_npidx hb.inv.rdRet hb.idx h, NPA.taskFinished_npmn hb.mn h,
    NPB.taskFinished_npdeps hb.deps hb.q h,
    NPC.taskFinished_npq hb.nq hb.inv.nd hb.inv.rdRetr
      (fun _ w0 ht => NPC.updNP_fin_not_retracting hp ht w0) h⟩

theorem Bd.taskReject {w : Nat} {id : TaskId} {rv : Option Nat} {o : Out} {b : Bool} (hb : Bd U noD [] s)
    (hr : RejectOk s w id rv) (h : s.taskReject w id rv = .ok (s', o, b)) : Bd U noD [] s' :=
  ⟨taskReject_inv hb.inv hr h, taskReject_tw hb.tw hr h, taskReject_safe h U none [] hb.q,
    NPA.taskReject_npw hb.w h, NPA.taskReject_npidx hb.inv.rdRet hb.idx h, NPA.taskReject_npmn hb.mn h,
    NPB.taskReject_npdeps hb.deps h, NPC.taskReject_npq hb.nq hb.inv.rdRetr h⟩

theorem Bd.requestEnabled {w rq rv : Nat} (hb : Bd U noD [] s) (h : s.requestEnabled w rq rv = .ok s') :
    Bd U noD [] s' :=
  ⟨requestEnabled_inv hb.inv h, requestEnabled_tw hb.tw h, requestEnabled_safe h U none [] hb.q,
    NPA.requestEnabled_npw hb.w h, NPA.requestEnabled_npidx hb.idx h, NPA.requestEnabled_npmn hb.mn h,
    NPB.requestEnabled_npdeps hb.deps h, NPC.requestEnabled_npq hb.nq h⟩

/-- one update of `on_task_update` -/
theorem Bd.updateState {w : Nat} {u : Update} {rets rets' : List (List TaskId)} (hb : Bd U noD [] s)
    (h1 : UpdProto s w u) (h2 : UpdNP s w u) (h : s.updateState w u rets = .ok (s', rets')) : Bd U noD [] s' :=
  ⟨updateState_inv hb.inv h1 h, updateState_tw hb.tw hb.inv h1 h, NPB.updateState_safeN h U hb.q,
    NPA.updateState_npw h2 hb.w h, NPA.updateState_npidx h2 hb.inv.rdRet hb.idx h, NPA.updateState_npmn h2 hb.mn h,
    NPB.updateState_npdeps hb.deps hb.q h, NPC.updateState_npq hb.nq hb.inv h2 h⟩

theorem Bd.updateLoop {w : Nat} {us : List Update} {rets rets' : List (List TaskId)} {o o' : Out} {n n' : Bool}
    (hb : Bd U noD [] s) (h1 : UpdatesOk UpdProto s w us rets) (h2 : UpdatesOk UpdNP s w us rets)
    (h : s.updateLoop w us rets o n = .ok (s', o', n', rets')) : Bd U noD [] s' :=
  ⟨updateLoop_inv _ _ _ _ _ _ _ _ _ _ hb.inv h1 h, updateLoop_tw _ _ _ _ _ _ _ _ _ _ hb.tw hb.inv h1 h,
    updateLoop_safeN _ _ _ _ _ _ _ _ _ _ h U hb.q, NPA.updateLoop_npw _ _ _ _ _ _ _ _ _ _ h2 hb.w h,
    NPA.updateLoop_npidx _ _ _ _ _ _ _ _ _ _ h2 hb.inv.rdRet hb.idx h, NPA.updateLoop_npmn _ _ _ _ _ _ _ _ _ _ h2 hb.mn h,
    NPB.updateLoop_npdeps _ hb.deps hb.q h, NPC.updateLoop_npq _ _ _ _ _ _ _ _ _ _ hb.nq hb.inv h1 h2 h⟩

theorem Bd.taskUpdate {w : Nat} {us : List Update} {rets : List (List TaskId)} {o : Out}
    (hb : Bd U noD [] s) (h1 : UpdatesOk UpdProto s w us rets) (h2 : UpdatesOk UpdNP s w us rets)
    (h : s.taskUpdate w us rets = .ok (s', o)) : Bd U noD [] s' :=
  ⟨taskUpdate_inv hb.inv h1 h, taskUpdate_tw hb.tw hb.inv h1 h, taskUpdate_safeN h U hb.q,
    NPA.taskUpdate_npw h2 hb.w h, NPA.taskUpdate_npidx h2 hb.inv.rdRet hb.idx h, NPA.taskUpdate_npmn h2 hb.mn h,
    NPB.taskUpdate_npdeps hb.deps hb.q h, NPC.taskUpdate_npq hb.nq hb.inv h1 h2 h⟩

/-- `retract` of exactly the pending ids -/
theorem Bd.retract {D R} {o : Out} (hb : Bd U D R s) (h : s.retract R = .ok (s', o)) : Bd U D [] s' :=
  ⟨retract_inv hb.inv h, retract_tw hb.tw h, retract_safe h U none [] hb.q, NPA.retract_npw hb.w h,
    NPA.retract_npidx hb.inv.rdRet hb.idx h, NPA.retract_npmn hb.mn h, NPB.retract_npdeps hb.deps h,
    NPC.retract_npq hb.nq hb.inv.rdRetr h⟩

end

end HqModel.Core.NPR
