import HqModel.Lemmas.CoreNoPanicQ7
/-!
C09 progress, queue correspondence, part 8: the loops of `on_remove_worker` — `lostPrefilled`, `lostAssigned`,
`lostRetracting` — with the side facts they carry (`Side`: redirects only for Retracting tasks, registered consumers
are Waiting, ids unique; needed by `retract` and `crashLoop` at the end of the operation).
-/
namespace HqModel.Core.NPC

open HqModel.Core.NP

/-! ### side facts -/

/-- the record of `t'.id` is replaced; consumer lists are kept; the new state is Waiting or the old one was not -/
theorem cw3_put {ts : List Task} {t' told : Task} (hcw : CW3 ts) (hf : findTask ts t'.id = some told)
    (hc : t'.consumers = told.consumers) (hs : isWaiting t'.state ∨ ¬ isWaiting told.state) :
    CW3 (putTask ts t') := by
  intro d dt hd c hcm st hst
  have hold : ∃ dt0, findTask ts d = some dt0 ∧ c ∈ dt0.consumers := by
    rw [findTask_putTask] at hd
    split at hd
    · rename_i e
      subst e
      rw [hf] at hd
      simp only [Option.map_some, Option.some.injEq] at hd
      subst hd
      exact ⟨told, hf, hc ▸ hcm⟩
    · exact ⟨dt, hd, hcm⟩
  obtain ⟨dt0, hd0, hcm0⟩ := hold
  rw [stOf_put (told := told) hf] at hst
  split at hst
  · rename_i e
    subst e
    simp only [Option.some.injEq] at hst
    subst hst
    rcases hs with hs | hs
    · exact hs
    · exact absurd (hcw d dt0 hd0 _ hcm0 told.state (stOf_of_find hf)) hs
  · exact hcw d dt0 hd0 c hcm0 st hst

/-- the side facts `retract` and `crashLoop` need -/
structure Side (s : State) : Prop where
  rd : RdRetr s
  cw : CW3 s.tasks
  nd : (taskIds s.tasks).Nodup

theorem _root_.HqModel.Core.Inv.side {s : State} (h : Inv s) : Side s := ⟨h.rdRetr, h.cw, h.nd⟩

theorem Side.frame {s s' : State} (h : Side s) (ht : s'.tasks = s.tasks)
    (hr : ∀ x ∈ s'.redirects, x ∈ s.redirects) : Side s' :=
  ⟨h.rd.frame ht hr, by rw [ht]; exact h.cw, by rw [ht]; exact h.nd⟩

theorem Side.setTask {s : State} (h : Side s) {t' told : Task} (hf : s.task? t'.id = some told)
    (hc : t'.consumers = told.consumers) (hs : isWaiting t'.state ∨ ¬ isWaiting told.state)
    (hok : (∃ w, t'.state = .retracting w) ∨ ∀ x ∈ s.redirects, x.1 ≠ t'.id) : Side (s.setTask t') :=
  ⟨h.rd.setTask hf hok, cw3_put h.cw hf hc hs, by rw [setTask_ids]; exact h.nd⟩

theorem withWorker_side {s s' : State} {w : Nat} {f : Worker → M Worker} (h : Side s)
    (heq : s.withWorker w f = .ok s') : Side s' :=
  h.frame (withWorker_tasks heq) (by rw [withWorker_redirects heq]; exact fun _ hx => hx)

theorem addReady_side {s s' : State} {t : Task} {r : List TaskId} (h : Side s)
    (heq : s.addReady t = .ok (s', r)) : Side s' := by
  obtain ⟨ht, hr, _⟩ := addReady_spec heq
  exact h.frame ht (by rw [hr]; exact fun _ hx => hx)

theorem processRetracted_side (l : List TaskId) (s s' : State) (acc acc' : List (Nat × TaskId))
    (h : Side s) (heq : s.processRetracted l acc = .ok (s', acc')) : Side s' := by
  induction l generalizing s acc with
  | nil => simp only [State.processRetracted] at heq; cases heq; exact h
  | cons t rest ih =>
    simp only [State.processRetracted] at heq
    split at heq
    · cases heq
    · rename_i task hg
      have ht : s.task? t = some task := getTask_spec hg
      have hid : task.id = t := findTask_some_id ht
      split at heq
      · rename_i w hs
        split at heq
        · cases heq
        · rename_i s1 hw
          have ht1 : s1.task? task.id = some task := by
            rw [hid, task?_congr (withWorker_tasks hw)]; exact ht
          exact ih _ _ ((withWorker_side h hw).setTask (t' := { task with state := .retracting w }) ht1 rfl
            (Or.inr (by rw [hs]; exact fun e => e)) (Or.inl ⟨w, rfl⟩)) heq
      · cases heq

theorem retract_side {s s' : State} {l : List TaskId} {o : Out} (h : Side s) (heq : s.retract l = .ok (s', o)) :
    Side s' := by
  simp only [State.retract] at heq
  split at heq
  · cases heq
  · rename_i s1 pairs hp
    cases heq
    exact processRetracted_side _ _ _ _ _ h hp

/-! ### transport of the per-id clauses -/

theorem readyGood_congr {R} {s s' : State} {i : Nat} {p : Int} {x : TaskId} (h : ReadyGood R s i p x)
    (ht : s'.task? x = s.task? x) (hr : s'.redirects = s.redirects) : ReadyGood R s' i p x := by
  obtain ⟨t, a, b⟩ := readyGood_iff.mp h
  exact readyGood_iff.mpr ⟨t, by rw [ht]; exact a, by rw [hr]; exact b⟩

theorem pfGood_congr {R} {s s' : State} {i : Nat} {p : Int} {x : TaskId} (h : PfGood R s i p x)
    (ht : s'.task? x = s.task? x) : PfGood R s' i p x := by
  obtain ⟨t, w, a, b⟩ := pfGood_iff.mp h
  exact pfGood_iff.mpr ⟨t, w, by rw [ht]; exact a, b⟩

theorem isPrefilled_congr {s s' : State} {x : TaskId} (h : IsPrefilled s x) (ht : s'.task? x = s.task? x) :
    IsPrefilled s' x := by
  obtain ⟨t, w, a, b⟩ := isPrefilled_iff.mp h
  exact isPrefilled_iff.mpr ⟨t, w, by rw [ht]; exact a, b⟩

/-! ### `lostPrefilled` -/

theorem movePrefilledToReady_spec {s s' : State} {rq : Nat} {id : TaskId}
    (heq : s.movePrefilledToReady rq id = .ok s') :
    s'.tasks = s.tasks ∧ s'.redirects = s.redirects ∧
    ∃ q pp ts, s.queues[rq]? = some q ∧ q.prefill = some (pp, ts) ∧ id ∈ ts ∧
      ∀ j, s'.queues[j]? = if j = rq then
          some { ready := readyAdd q.ready id pp,
                 prefill := if (ts.erase id).isEmpty then none else some (pp, ts.erase id) }
        else s.queues[j]? := by
  simp only [State.movePrefilledToReady] at heq
  split at heq
  · cases heq
  · rename_i q hq
    split at heq
    · cases heq
    · rename_i pp ts hp
      split at heq
      · cases heq
      · rename_i hc
        cases heq
        refine ⟨rfl, rfl, q, pp, ts, hq, hp, by simpa using hc, ?_⟩
        intro j
        have hlt : rq < s.queues.length := by
          rcases Nat.lt_or_ge rq s.queues.length with h | h
          · exact h
          · rw [List.getElem?_eq_none h] at hq; cases hq
        simp only [List.getElem?_set]
        by_cases e : rq = j
        · subst e; simp [hlt]
        · have : ¬ j = rq := fun e' => e e'.symm
          simp [e, this]

/-- one iteration of the loop over the lost worker's prefilled tasks: the record becomes `Waiting 0`, the id moves
from the prefill set into the ready list of its queue -/
theorem lostPrefilled_step {D R} {s s2 : State} {task t' : Task} (h : NpQ D R s)
    (hf : s.task? task.id = some task) (hid : t'.id = task.id) (hrq : t'.rq = task.rq) (hp : t'.prio = task.prio)
    (hs : t'.state = .waiting 0) (heq : (s.setTask t').movePrefilledToReady task.rq task.id = .ok s2) :
    NpQ D R s2 ∧ ∃ w, task.state = .prefilled w := by
  obtain ⟨ht2, hr2, q, pp, ts, hq, hpf, hm, hget⟩ := movePrefilledToReady_spec heq
  have hq : s.queues[task.rq]? = some q := hq
  have hok := h.qok hq
  have hnd : ts.Nodup := by simpa [pfIds, hpf] using hok.pnd
  have hpfq : task.id ∈ pfIds q := mem_pfIds.mpr ⟨pp, ts, hpf, hm⟩
  obtain ⟨tk, w0, pp1, ts1, hpf1, _, hf', _, hprio, hnR, hst⟩ := h.task_of_pf hq hpfq
  rw [hf] at hf'; cases hf'
  rw [hpf] at hpf1; cases hpf1
  refine ⟨?_, w0, hst⟩
  have hself : s2.task? task.id = some t' := by
    rw [task?_congr ht2, ← hid]
    exact task?_setTask_self (hid ▸ hf)
  have hoth : ∀ x, x ≠ task.id → s2.task? x = s.task? x := by
    intro x hx
    rw [task?_congr ht2, task?_setTask, if_neg (hid ▸ hx)]
  have hr2' : s2.redirects = s.redirects := hr2
  -- ids of other queues are not `task.id`
  have hne_of_other : ∀ (j : Nat) (q' : Queue), s.queues[j]? = some q' → j ≠ task.rq →
      (∀ x ∈ rPairs q'.ready, x.2 ≠ task.id) ∧ ∀ x ∈ pfIds q', x ≠ task.id := by
    intro j q' hq' hne
    constructor
    · rintro ⟨p, x⟩ hx e
      simp only at e; subst e
      obtain ⟨t, a, b, _⟩ := h.task_of_ready hq' hx
      rw [hf] at a; cases a
      exact hne b.symm
    · intro x hx e
      subst e
      exact hne (h.pf_unique hq' hq hx hpfq)
  have hsub : ∀ pp' ts', (if (ts.erase task.id).isEmpty then none else some (pp, ts.erase task.id)) = some (pp', ts') →
      pp' = pp ∧ ts' = ts.erase task.id := by
    intro pp' ts' e
    split at e
    · cases e
    · cases e; exact ⟨rfl, rfl⟩
  refine npq_iff.mpr ⟨?_, ?_, h.rnd, ?_⟩
  · intro j q' hq'
    rw [hget] at hq'
    split at hq'
    · rename_i e
      subst e
      simp only [Option.some.injEq] at hq'
      subst hq'
      refine ⟨readyAdd_wf hok.wf, ?_, ?_, ?_⟩
      · rintro ⟨xp, xid⟩ hx
        rcases mem_rPairs_readyAdd.mp hx with e | hx1
        · simp only [Prod.mk.injEq] at e
          obtain ⟨rfl, rfl⟩ := e
          exact readyGood_iff.mpr ⟨t', hself, hrq, hp.trans hprio, Or.inl hs⟩
        · have hne : xid ≠ task.id := by
            intro e; subst e
            exact h.ready_prefill_disjoint hq (mem_rIds_iff_pairs.mpr ⟨xp, hx1⟩) hpfq
          exact readyGood_congr (hok.rg _ hx1) (hoth _ hne) hr2'
      · simp only [pfIds]
        split
        · rename_i pp' ts' e
          obtain ⟨_, rfl⟩ := hsub pp' ts' e
          exact hnd.erase _
        · simp
      · intro pp' ts' e x hx
        obtain ⟨rfl, rfl⟩ := hsub pp' ts' e
        have hne : x ≠ task.id := (hnd.mem_erase_iff.mp hx).1
        exact pfGood_congr (hok.pg _ ts hpf x (List.mem_of_mem_erase hx)) (hoth _ hne)
    · rename_i hne
      have hok' := h.qok hq'
      obtain ⟨n1, n2⟩ := hne_of_other j q' hq' hne
      refine ⟨hok'.wf, ?_, hok'.pnd, ?_⟩
      · intro x hx
        exact readyGood_congr (hok'.rg x hx) (hoth _ (n1 x hx)) hr2'
      · intro pp' ts' e x hx
        exact pfGood_congr (hok'.pg pp' ts' e x hx) (hoth _ (n2 x (mem_pfIds.mpr ⟨pp', ts', e, hx⟩)))
  · rw [ht2]
    intro x hx hpre hxR hxD
    rcases mem_putTask' hx with e | ⟨hxm, hne⟩
    · subst e; obtain ⟨w, hw⟩ := hpre; rw [hs] at hw; cases hw
    · have hin := h.pin x hxm hpre hxR hxD
      rw [inPrefill_iff] at hin ⊢
      obtain ⟨q1, hq1, hm1⟩ := hin
      rw [hget]
      split
      · rename_i e
        rw [e] at hq1
        rw [hq] at hq1; cases hq1
        refine ⟨_, rfl, ?_⟩
        have hm2 : x.id ∈ ts.erase task.id := by
          simp only [pfIds, hpf] at hm1
          exact (List.mem_erase_of_ne (hid ▸ hne)).mpr hm1
        have hnemp : (ts.erase task.id).isEmpty = false := by
          cases hx' : ts.erase task.id with
          | nil => rw [hx'] at hm2; cases hm2
          | cons a b => rfl
        simp only [pfIds, hnemp]
        exact hm2
      · exact ⟨q1, hq1, hm1⟩
  · intro x hx
    have hne : x ≠ task.id := fun e => hnR (e ▸ hx)
    exact isPrefilled_congr (h.rpre x hx) (hoth _ hne)

/-- **`move_prefilled_task_to_ready`** on its own: the record is still Prefilled, so the id joins the accumulator
(exactly like an id disposed by `add_ready_task`) -/
theorem movePrefilledToReady_npq {D R} {s s' : State} {rq : Nat} {id : TaskId} (h : NpQ D R s)
    (heq : s.movePrefilledToReady rq id = .ok s') : NpQ D (R ++ [id]) s' := by
  obtain ⟨ht2, hr2, q, pp, ts, hq, hpf, hm, hget⟩ := movePrefilledToReady_spec heq
  have hok := h.qok hq
  have hnd : ts.Nodup := by simpa [pfIds, hpf] using hok.pnd
  have hpfq : id ∈ pfIds q := mem_pfIds.mpr ⟨pp, ts, hpf, hm⟩
  obtain ⟨tk, w0, pp1, ts1, hpf1, _, hf, hrq, hprio, hnR, hst⟩ := h.task_of_pf hq hpfq
  rw [hpf] at hpf1; cases hpf1
  have htk : ∀ x, s'.task? x = s.task? x := task?_congr ht2
  have hsub : ∀ pp' ts', (if (ts.erase id).isEmpty then none else some (pp, ts.erase id)) = some (pp', ts') →
      pp' = pp ∧ ts' = ts.erase id := by
    intro pp' ts' e
    split at e
    · cases e
    · cases e; exact ⟨rfl, rfl⟩
  have hrg : ∀ {i : Nat} {p : Int} {x : TaskId}, ReadyGood R s i p x → ReadyGood (R ++ [id]) s' i p x := by
    intro i p x hx
    obtain ⟨t, a, b, c, d⟩ := readyGood_iff.mp hx
    exact readyGood_iff.mpr ⟨t, by rw [htk]; exact a, b, c,
      d.mono (fun y hy _ => by rw [hr2] at hy; exact hy) (fun e => List.mem_append_left _ e)⟩
  have hpg : ∀ {i : Nat} {p : Int} {x : TaskId}, PfGood R s i p x → x ≠ id → PfGood (R ++ [id]) s' i p x := by
    intro i p x hx hne
    obtain ⟨t, w, a, b, c, d, e⟩ := pfGood_iff.mp hx
    refine pfGood_iff.mpr ⟨t, w, by rw [htk]; exact a, b, c, ?_, e⟩
    intro hin
    rcases List.mem_append.mp hin with h1 | h1
    · exact d h1
    · simp only [List.mem_singleton] at h1; exact hne h1
  refine npq_iff.mpr ⟨?_, ?_, ?_, ?_⟩
  · intro j q' hq'
    rw [hget] at hq'
    split at hq'
    · rename_i e
      subst e
      simp only [Option.some.injEq] at hq'
      subst hq'
      refine ⟨readyAdd_wf hok.wf, ?_, ?_, ?_⟩
      · rintro ⟨xp, xid⟩ hx
        rcases mem_rPairs_readyAdd.mp hx with e | hx1
        · simp only [Prod.mk.injEq] at e
          obtain ⟨rfl, rfl⟩ := e
          exact readyGood_iff.mpr ⟨tk, by rw [htk]; exact hf, hrq, hprio,
            Or.inr (Or.inr ⟨⟨w0, hst⟩, List.mem_append_right _ (List.mem_singleton.mpr rfl)⟩)⟩
        · exact hrg (hok.rg _ hx1)
      · simp only [pfIds]
        split
        · rename_i pp' ts' e
          obtain ⟨_, rfl⟩ := hsub pp' ts' e
          exact hnd.erase _
        · simp
      · intro pp' ts' e x hx
        obtain ⟨rfl, rfl⟩ := hsub pp' ts' e
        exact hpg (hok.pg _ ts hpf x (List.mem_of_mem_erase hx)) (hnd.mem_erase_iff.mp hx).1
    · rename_i hne
      have hok' := h.qok hq'
      refine ⟨hok'.wf, fun x hx => hrg (hok'.rg x hx), hok'.pnd, ?_⟩
      intro pp' ts' e x hx
      refine hpg (hok'.pg pp' ts' e x hx) ?_
      intro e'
      subst e'
      exact hne (h.pf_unique hq' hq (mem_pfIds.mpr ⟨pp', ts', e, hx⟩) hpfq)
  · rw [ht2]
    intro x hx hpre hxR hxD
    have hxR1 : x.id ∉ R := fun e => hxR (List.mem_append_left _ e)
    have hne : x.id ≠ id := fun e => hxR (List.mem_append_right _ (List.mem_singleton.mpr e))
    have hin := h.pin x hx hpre hxR1 hxD
    rw [inPrefill_iff] at hin ⊢
    obtain ⟨q1, hq1, hm1⟩ := hin
    rw [hget]
    split
    · rename_i e
      rw [e, hq] at hq1; cases hq1
      refine ⟨_, rfl, ?_⟩
      have hm2 : x.id ∈ ts.erase id := by
        simp only [pfIds, hpf] at hm1
        exact (List.mem_erase_of_ne hne).mpr hm1
      have hnemp : (ts.erase id).isEmpty = false := by
        cases hx' : ts.erase id with
        | nil => rw [hx'] at hm2; cases hm2
        | cons a b => rfl
      simp only [pfIds, hnemp]
      exact hm2
    · exact ⟨q1, hq1, hm1⟩
  · rw [List.nodup_append]
    refine ⟨h.rnd, by simp, ?_⟩
    intro a ha b hb e
    simp only [List.mem_singleton] at hb
    subst hb; subst e
    exact hnR ha
  · intro x hx
    rcases List.mem_append.mp hx with h1 | h1
    · exact isPrefilled_congr (h.rpre x h1) (htk x)
    · simp only [List.mem_singleton] at h1
      subst h1
      exact isPrefilled_iff.mpr ⟨tk, w0, by rw [htk]; exact hf, hst⟩

/-- **the loop over the lost worker's prefilled tasks** -/
theorem lostPrefilled_npq {D R} (ids : List TaskId) (s s' : State) (h : NpQ D R s) (hsd : Side s)
    (heq : s.lostPrefilled ids = .ok s') :
    NpQ D R s' ∧ Side s' ∧ ∀ x, ¬ IsPrefilled s x → ¬ IsPrefilled s' x := by
  induction ids generalizing s with
  | nil => simp only [State.lostPrefilled] at heq; cases heq; exact ⟨h, hsd, fun _ hx => hx⟩
  | cons id rest ih =>
    simp only [State.lostPrefilled] at heq
    split at heq
    · cases heq
    · rename_i task hg
      have ht : s.task? id = some task := getTask_spec hg
      have hid : task.id = id := findTask_some_id ht
      subst hid
      have ht' : s.task? task.id = some task := ht
      split at heq
      · cases heq
      · rename_i s2 hm
        obtain ⟨a, w0, hw0⟩ := lostPrefilled_step (t' := { task with inst := task.inst + 1, state := .waiting 0 })
          h ht' rfl rfl rfl rfl hm
        obtain ⟨t2, r2, _⟩ := movePrefilledToReady_spec hm
        have sd1 : Side (s.setTask { task with inst := task.inst + 1, state := .waiting 0 }) :=
          hsd.setTask (t' := { task with inst := task.inst + 1, state := .waiting 0 }) ht' rfl (Or.inl trivial)
            (Or.inr (hsd.rd.none_of_state ht' (by rw [hw0]; intro w e; cases e)))
        have sd2 : Side s2 := sd1.frame t2 (by rw [r2]; exact fun _ hx => hx)
        obtain ⟨b, c, d⟩ := ih s2 a sd2 heq
        refine ⟨b, c, fun x hx => d x ?_⟩
        intro hp
        apply hx
        rw [isPrefilled_iff_stOf] at hp ⊢
        obtain ⟨w, hw⟩ := hp
        rw [t2] at hw
        change stOf (putTask s.tasks _) x = _ at hw
        rw [stOf_put (t' := { task with inst := task.inst + 1, state := .waiting 0 }) (told := task) ht'] at hw
        split at hw
        · cases hw
        · exact ⟨w, hw⟩

/-! ### `lostAssigned` -/

theorem notpre_step {s s2 : State} {t' told : Task} (hf : s.task? t'.id = some told)
    (ht2 : s2.tasks = putTask s.tasks t') (hs : ∀ w, t'.state ≠ .prefilled w) :
    ∀ x, ¬ IsPrefilled s x → ¬ IsPrefilled s2 x := by
  intro x hx hp
  apply hx
  rw [isPrefilled_iff_stOf] at hp ⊢
  obtain ⟨w, hw⟩ := hp
  rw [ht2, stOf_put (told := told) hf] at hw
  split at hw
  · simp only [Option.some.injEq] at hw
    exact absurd hw (hs w)
  · exact ⟨w, hw⟩

/-- a record that is neither Prefilled nor Retracting becomes `Waiting 0` and is queued -/
theorem requeue_waiting_npq {D R} {s s2 : State} {task t'' : Task} {r : List TaskId} (h : NpQ D R s) (hsd : Side s)
    (hf : s.task? task.id = some task) (hid : t''.id = task.id) (hrq : t''.rq = task.rq) (hp : t''.prio = task.prio)
    (hc : t''.consumers = task.consumers) (hs : t''.state = .waiting 0) (hnp : ∀ w, task.state ≠ .prefilled w)
    (hnr : ∀ w, task.state ≠ .retracting w) (ha : (s.setTask t'').addReady t'' = .ok (s2, r)) :
    NpQ D (R ++ r) s2 ∧ Side s2 := by
  have hf' : s.task? t''.id = some task := by rw [hid]; exact hf
  have a : NpQ D R (s.setTask t'') := by
    refine setTask_npq h hf' hrq hp (fun _ => Or.inl hs)
      (fun ⟨i, q, hq', hm⟩ => absurd (hid ▸ hm) (h.not_pf hf hnp hq')) ?_
      (fun ⟨w, e⟩ => by rw [hs] at e; cases e) (fun _ _ hdx => hdx)
    intro hr
    obtain ⟨t, w, a, b⟩ := isPrefilled_iff.mp (h.rpre _ hr)
    rw [hf'] at a; cases a
    exact absurd b (hnp w)
  have sd : Side (s.setTask t'') :=
    hsd.setTask hf' hc (Or.inl (by rw [hs]; trivial)) (Or.inr (hid ▸ hsd.rd.none_of_state hf hnr))
  exact ⟨addReady_npq a (task?_setTask_self hf') rfl rfl (Or.inl hs) ha, addReady_side sd ha⟩

/-- **the loop over the lost worker's assigned tasks**; none of them is Prefilled (`LS3.a1`: they are Assigned /
Running on the worker or Retracting with a redirect to it) -/
theorem lostAssigned_npq {D} (ids : List TaskId) (s s' : State) (ru ru' R R' : List TaskId) (h : NpQ D R s)
    (hsd : Side s) (hnp : ∀ id ∈ ids, ¬ IsPrefilled s id) (heq : s.lostAssigned ids ru R = .ok (s', ru', R')) :
    NpQ D R' s' ∧ Side s' := by
  induction ids generalizing s ru R with
  | nil => simp only [State.lostAssigned] at heq; cases heq; exact ⟨h, hsd⟩
  | cons id rest ih =>
    simp only [State.lostAssigned] at heq
    split at heq
    · cases heq
    · rename_i task hg
      have ht : s.task? id = some task := getTask_spec hg
      have hid : task.id = id := findTask_some_id ht
      subst hid
      have hnpre : ∀ w, task.state ≠ .prefilled w := by
        intro w e
        exact hnp task.id List.mem_cons_self (isPrefilled_iff.mpr ⟨task, w, ht, e⟩)
      have hrest : ∀ x ∈ rest, ¬ IsPrefilled s x := fun x hx => hnp x (List.mem_cons_of_mem _ hx)
      split at heq
      · -- running
        rename_i w0 rv0 hs
        split at heq
        · cases heq
        · rename_i s2 r2 ha
          obtain ⟨a, b⟩ := requeue_waiting_npq (t'' := { task with state := .waiting 0, inst := task.inst + 1 })
            h hsd ht rfl rfl rfl rfl rfl hnpre (by rw [hs]; intro w e; cases e) ha
          refine ih _ _ _ a b ?_ heq
          intro x hx
          exact notpre_step (t' := { task with state := .waiting 0, inst := task.inst + 1 }) ht
            (addReady_tasks ha) (by intro w e; cases e) x (hrest x hx)
      · -- retracting
        rename_i w0 hs
        split at heq
        · cases heq
        · split at heq
          · cases heq
          · rename_i s2 r2 ha
            have a0 : NpQ D R ({ s with redirects := s.redirects.filter (·.1 ≠ task.id) } : State) :=
              h.frame rfl rfl (fun x hx => (List.mem_filter.mp hx).1)
            have sd0 : Side ({ s with redirects := s.redirects.filter (·.1 ≠ task.id) } : State) :=
              hsd.frame rfl (fun x hx => (List.mem_filter.mp hx).1)
            have a1 := setTask_npq_same (t' := { task with inst := task.inst + 1 }) a0 ht rfl rfl rfl
            have sd1 := sd0.setTask (t' := { task with inst := task.inst + 1 }) ht rfl
              (Or.inr (by rw [hs]; exact fun e => e)) (Or.inl ⟨w0, hs⟩)
            have a2 := addReady_npq a1 (task?_setTask_self (t' := { task with inst := task.inst + 1 }) ht) rfl rfl
              (Or.inr ⟨⟨w0, hs⟩, by
                intro x hx
                have := (List.mem_filter.mp hx).2
                simpa using this⟩) ha
            refine ih _ _ _ a2 (addReady_side sd1 ha) ?_ heq
            intro x hx
            exact notpre_step (s := { s with redirects := s.redirects.filter (·.1 ≠ task.id) })
              (t' := { task with inst := task.inst + 1 }) ht (addReady_tasks ha)
              (by rw [hs]; intro w e; cases e) x (hrest x hx)
      · -- every other state
        rename_i hnrun hnretr
        split at heq
        · cases heq
        · rename_i s2 r2 ha
          obtain ⟨a, b⟩ := requeue_waiting_npq (t'' := { task with state := .waiting 0, inst := task.inst + 1 })
            h hsd ht rfl rfl rfl rfl rfl hnpre (fun w e => hnretr w e) ha
          refine ih _ _ _ a b ?_ heq
          intro x hx
          exact notpre_step (t' := { task with state := .waiting 0, inst := task.inst + 1 }) ht
            (addReady_tasks ha) (by intro w e; cases e) x (hrest x hx)

/-! ### `lostRetracting` -/

/-- **tasks that were being retracted from the lost worker**: with a redirect → Assigned to the target (in no ready
list), without → `Waiting 0` (stays in the ready list) -/
theorem lostRetracting_npq {D R} (l : List Task) (s s' : State) (w : Nat) (o o' : Out) (h : NpQ D R s)
    (hsd : Side s) (heq : s.lostRetracting w l o = .ok (s', o')) : NpQ D R s' ∧ Side s' := by
  induction l generalizing s o with
  | nil => simp only [State.lostRetracting] at heq; cases heq; exact ⟨h, hsd⟩
  | cons t0 rest ih =>
    simp only [State.lostRetracting] at heq
    split at heq
    · exact ih _ _ h hsd heq
    · rename_i task0 ht
      have hid : task0.id = t0.id := findTask_some_id ht
      have ht' : s.task? task0.id = some task0 := by rw [hid]; exact ht
      split at heq
      · exact ih _ _ h hsd heq
      · rename_i hs
        simp only [ne_eq, Decidable.not_not] at hs
        split at heq
        · rename_i x0 target rv hfind
          have hmem := rd_mem_of_find hfind
          refine ih _ _ ?_ ?_ heq
          · exact resolve_redirect_npq
              (t' := { task0 with inst := task0.inst + 1, state := .assigned target rv }) h ht' rfl rfl
              ⟨w, hs⟩ ⟨_, hmem.1, hmem.2⟩ (by intro w e; cases e)
          · have sd0 : Side ({ s with redirects := s.redirects.filter (·.1 ≠ task0.id) } : State) :=
              hsd.frame rfl (fun x hx => (List.mem_filter.mp hx).1)
            exact sd0.setTask (t' := { task0 with inst := task0.inst + 1, state := .assigned target rv }) ht' rfl
              (Or.inr (by rw [hs]; exact fun e => e)) (Or.inr (by
                intro x hx
                have := (List.mem_filter.mp hx).2
                simpa using this))
        · rename_i hnone
          refine ih _ _ ?_ ?_ heq
          · exact retracted_to_waiting_npq
              (t' := { task0 with inst := task0.inst + 1, state := .waiting 0 }) h ht' rfl rfl ⟨w, hs⟩ rfl
          · exact hsd.setTask (t' := { task0 with inst := task0.inst + 1, state := .waiting 0 }) ht' rfl
              (Or.inl trivial) (Or.inr (by
                intro x hx
                have := List.find?_eq_none.mp hnone x hx
                simpa using this))

end HqModel.Core.NPC
