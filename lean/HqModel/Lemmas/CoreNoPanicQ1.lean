import HqModel.Lemmas.CoreNoPanicQList
/-!
C09 progress, queue correspondence: **preservation of `NpQ D R s`**, part 1 — vocabulary, frame / record moves.

## STATUS of the family `CoreNoPanicQList`, `CoreNoPanicQ1` … `CoreNoPanicQ9` (all in `namespace HqModel.Core.NPC`)

Everything listed is proved (no `sorry`); NOT done: nothing of the task list is missing (`Sched.lean` is another
family). `h : NpQ D R s` and `heq : <fn> = .ok …` are implicit in the one-line statements; `hn` = `(taskIds
s.tasks).Nodup`, `hcw` = `CW3 s.tasks` (`Inv.cw`), `RdRetr s` = `LS3.d1` (`Inv.rdRetr`), `Side s` = `RdRetr ∧ CW3 ∧
Nodup` (`Inv.side`).

QList (pure lists): `mem_insertTid`, `insertTid_asc/_ne_nil/_of_mem`, `readyWf_nil/_cons`, `mem_rPairs_cons`,
  `mem_rPairs_readyAdd`, `readyAdd_wf`, `readyAdd_of_mem`, `mem_rPairs_readyAddMany`, `readyAddMany_wf`,
  `mem_rPairs_readyRemove(_sub)`, `readyRemove_wf`, `readyRemove_of_not_mem`, `remove_cases`, `remove_ready_wf`,
  `mem_rPairs_remove_sub`, `mem_pfIds_remove_sub`, `pfIds_remove_nodup`, `checkDispose_cases`,
  `mem_checkDispose_snd`, `checkDispose_ready_wf`, `mem_rPairs_checkDispose`, `checkDispose_prefill`,
  `length_disposeAll`, `mem_disposeAll_snd`, `disposeAll_snd_nodup`, `length_modifyQueue`.
Q1: `RState`, `readyGood_iff`, `pfGood_iff`, `isPrefilled_iff`, `inPrefill_iff`, `mem_pfIds`, `QOk`, `npq_iff` (index
  form), `NoQ`, `NpQ.task_of_ready`, `NpQ.task_of_pf`, `NpQ.not_ready`, `NpQ.not_pf`, `NpQ.noQ`, `NpQ.noQ_none`,
  `NpQ.not_pf_of_R`;
  `NpQ.frame` (tasks, queues equal, redirects ⊆ ⟹ `NpQ D R s'`), `withWorker_npq`, `setWorker_npq`, `ask_npq`,
  `tryRemoveRedirection_npq`;
  `setTask_npq` (GENERAL MOVE: same rq/prio; new state `RState` if the id is in a ready list, Prefilled if in a
  prefill set or in `R`, `InPrefill` if Prefilled ∉ R ∉ D'; ⟹ `NpQ D' R (s.setTask t')`), `setTask_npq_noQ` (id stored
  nowhere), `setTask_npq_unq` (old state not a ready-list state, not Prefilled; new not Prefilled),
  `setTask_npq_same` (state kept).
Q2: `NpQ.pf_unique`, `NpQ.shrink` (queues only lose ids), `queueRemove_spec`, `queueRemove_npq`
  (⟹ `NpQ (D ∨ · = id) R s'`), `queueRemove_noQ` (rq/prio of the record ⟹ `NoQ s' id`), `removePrefilled_spec`,
  `removePrefilled_npq` (⟹ `NpQ (D ∨ · = id) R s' ∧ NoQ s' id`), `addQ`, `addReady_spec`, `mem_addReady_r`,
  `addReady_npq` (record has `t.rq`, `t.prio`, is `Waiting 0` or Retracting without redirect ⟹ `NpQ D (R ++ r) s'`).
Q3: `key`, `KRel` (only consumers/deps/inst/crashes change), `NpQ.krel`, `removeConsumer(s)_krel`,
  `registerDeps_krel`, `erase_npq` (`hn`, `NoQ s id`, `id ∉ R` ⟹ `NpQ (D ∧ · ≠ id) R`), `append_npq`,
  `removeTask_npq` (`hn`; if the record is Prefilled: `id ∉ R` and in no prefill set ⟹ `NpQ (D ∧ · ≠ id) R s'`),
  `RdRetr`, `Inv.rdRetr`, `retract_one`, `processRetracted_npq` (`NpQ D l s`, `RdRetr s` ⟹ `NpQ D [] s'`),
  `retract_npq` (`NpQ D R s`, `RdRetr s`, `s.retract R` ⟹ `NpQ D [] s'`).
Q4: `RdRetr.mono/frame/krel/none_of_state/setTask`, `withWorker_/addReady_/tryRemoveRedirection_rdRetr`, `PfSub`,
  `PfD`, `newWorker_npq`, `newRq_npq`, `addNewTasks_npq` (`NpQ D R s ⟹ NpQ D R' s'`), `addNewTasks_rdRetr`,
  `newTasks_npq` (`NpQ D [] s`, `RdRetr s`), `resetMnAll_npq`, `resetMnChecked_npq` (+ `_rdRetr`, `_redirects`).
Q5: `cancelLoop_npq` (`NpQ (· ∈ u ∨ D0 ·) R s`, `PfD R s u`, `hcw` ⟹ the same for `u'`, `s'`), `Rem`,
  `removeTask_rem`, `removeTasksBatched_npq` (`NpQ (· ∈ ids ∨ D0 ·) R s`, `hn`, `PfD R s ids` ⟹ `NpQ D0 R s'`),
  `cancelTasks_npq` (`hn`, `hcw`), `removeWaitingAll_npq` (`hn`), `taskFailed_npq` (`hn`, `hcw`; any state accepted).
Q6: `queueRemove_transport`, `remove_then_set`, `taskRunning_npq` (`id ∉ R`), `wakeConsumers_npq`
  (`NpQ D R s ⟹ NpQ D R' s'`), `wakeConsumers_rdRetr`, `taskFinished_npq` (`NpQ D [] s`, `hn`, `RdRetr s`, the task is
  not Retracting), `requeue_npq`, `requestEnabled_npq`.
Q7: `taskReject_npq` (`NpQ D [] s`, `RdRetr s`; includes the RunningMultiNode arm of the F32 fix),
  `updNP_fin_not_retracting`, `updateState_npq`, `updateLoop_npq`, `taskUpdate_npq` (`Inv s`, `UpdatesOk UpdProto`,
  `UpdatesOk UpdNP`), `resolve_redirect_npq`, `retracted_to_waiting_npq`, `retractLoop_npq`, `retractResponse_npq`.
Q8: `cw3_put`, `Side`, `Inv.side`, `Side.frame/setTask`, `processRetracted_side`, `retract_side`,
  `movePrefilledToReady_spec`, `lostPrefilled_step`, `movePrefilledToReady_npq` (⟹ `NpQ D (R ++ [id]) s'`),
  `lostPrefilled_npq` (`Side s` ⟹ `NpQ D R s' ∧ Side s' ∧` no new Prefilled), `requeue_waiting_npq`,
  `lostAssigned_npq` (`Side s`, no id of the list is Prefilled ⟹ `NpQ D R' s' ∧ Side s'`), `lostRetracting_npq`.
Q9: `crashLoop_npq` (`hn`, `hcw`), `removeWorker_npq` (`NpQ D [] s`, `Inv s`), **`step_npq_reactor`**.

This file: vocabulary
* `RState R rd id st` — the states allowed for an id stored in a ready list;
* `readyGood_iff`, `pfGood_iff`, `isPrefilled_iff`, `inPrefill_iff` — existential forms;
* `QOk R s i q` / `npq_iff` — index form of `NpQ`;
* `NoQ s id` — `id` is in no ready list and in no prefill set.
-/
namespace HqModel.Core.NPC

open HqModel.Core.NP

/-! ### vocabulary -/

/-- the states allowed for an id stored in a ready list -/
def RState (R : List TaskId) (rd : List (TaskId × Nat × Nat)) (id : TaskId) (st : TS) : Prop :=
  st = .waiting 0 ∨ ((∃ w, st = .retracting w) ∧ ∀ x ∈ rd, x.1 ≠ id) ∨ ((∃ w, st = .prefilled w) ∧ id ∈ R)

theorem RState.mono {R R' rd rd' id st} (h : RState R rd id st) (hr : ∀ x ∈ rd', x.1 = id → x ∈ rd)
    (hR : id ∈ R → id ∈ R') : RState R' rd' id st := by
  rcases h with h | ⟨h1, h2⟩ | ⟨h1, h2⟩
  · exact Or.inl h
  · exact Or.inr (Or.inl ⟨h1, fun x hx e => h2 x (hr x hx e) e⟩)
  · exact Or.inr (Or.inr ⟨h1, hR h2⟩)

theorem readyGood_iff {R} {s : State} {i : Nat} {p : Int} {id : TaskId} :
    ReadyGood R s i p id ↔ ∃ t, s.task? id = some t ∧ t.rq = i ∧ t.prio = p ∧ RState R s.redirects id t.state :=
  ⟨fun h => h.elim, fun ⟨_, a, b, c, d⟩ => ReadyGood.intro a b c d⟩

theorem pfGood_iff {R} {s : State} {i : Nat} {pp : Int} {id : TaskId} :
    PfGood R s i pp id ↔ ∃ t w, s.task? id = some t ∧ t.rq = i ∧ t.prio = pp ∧ id ∉ R ∧ t.state = .prefilled w :=
  ⟨fun h => h.elim, fun ⟨_, _, a, b, c, d, e⟩ => PfGood.intro a b c d e⟩

theorem isPrefilled_iff {s : State} {id : TaskId} :
    IsPrefilled s id ↔ ∃ t w, s.task? id = some t ∧ t.state = .prefilled w :=
  ⟨fun h => h.elim, fun ⟨_, _, a, b⟩ => IsPrefilled.intro a b⟩

theorem inPrefill_iff {s : State} {t : Task} : InPrefill s t ↔ ∃ q, s.queues[t.rq]? = some q ∧ t.id ∈ pfIds q := by
  unfold InPrefill
  cases h : s.queues[t.rq]? with
  | none => simp
  | some q => simp

theorem mem_pfIds {q : Queue} {id : TaskId} : id ∈ pfIds q ↔ ∃ pp ts, q.prefill = some (pp, ts) ∧ id ∈ ts := by
  unfold pfIds
  split
  · rename_i pp ts hp
    constructor
    · intro h; exact ⟨pp, ts, hp, h⟩
    · rintro ⟨pp', ts', e, h⟩; rw [hp] at e; cases e; exact h
  · rename_i hp
    constructor
    · intro h; cases h
    · rintro ⟨pp', ts', e, _⟩; rw [hp] at e; cases e

/-- what `NpQ` says about queue `i` -/
structure QOk (R : List TaskId) (s : State) (i : Nat) (q : Queue) : Prop where
  wf : ReadyWf q.ready
  rg : ∀ x ∈ rPairs q.ready, ReadyGood R s i x.1 x.2
  pnd : (pfIds q).Nodup
  pg : ∀ pp ts, q.prefill = some (pp, ts) → ∀ id ∈ ts, PfGood R s i pp id

/-- index form of the invariant -/
theorem npq_iff {D R} {s : State} : NpQ D R s ↔ (∀ (i : Nat) (q : Queue), s.queues[i]? = some q → QOk R s i q) ∧
    (∀ t ∈ s.tasks, (∃ w, t.state = .prefilled w) → t.id ∉ R → ¬ D t.id → InPrefill s t) ∧ R.Nodup ∧
    ∀ id ∈ R, IsPrefilled s id := by
  constructor
  · intro h
    refine ⟨fun i q hq => ⟨h.wf q (mem_of_get hq), ?_, h.pnd q (mem_of_get hq), fun pp ts hp id hid => h.pg' hq hp hid⟩,
      h.pin, h.rnd, h.rpre⟩
    rintro ⟨p, id⟩ hx
    obtain ⟨e, he, e1, hm⟩ := mem_rPairs.mp hx
    subst e1
    exact h.rg' hq he hm
  · rintro ⟨h1, h2, h3, h4⟩
    refine ⟨?_, ?_, ?_, ?_, h2, h3, h4⟩
    · intro q hq
      obtain ⟨i, hi⟩ := List.getElem?_of_mem hq
      exact (h1 i q hi).wf
    · rintro ⟨q, i⟩ hp e he id hid
      have hi := List.mem_zipIdx_iff_getElem?.mp hp
      exact (h1 i q hi).rg (e.1, id) (mem_rPairs.mpr ⟨e, he, rfl, hid⟩)
    · intro q hq
      obtain ⟨i, hi⟩ := List.getElem?_of_mem hq
      exact (h1 i q hi).pnd
    · rintro ⟨q, i⟩ hp pp ts hpf id hid
      have hi := List.mem_zipIdx_iff_getElem?.mp hp
      exact (h1 i q hi).pg pp ts hpf id hid

theorem _root_.HqModel.Core.NpQ.qok {D R} {s : State} (h : NpQ D R s) {i : Nat} {q : Queue}
    (hq : s.queues[i]? = some q) : QOk R s i q := (npq_iff.mp h).1 i q hq

/-- `id` is in no ready list and in no prefill set -/
def NoQ (s : State) (id : TaskId) : Prop := ∀ (i : Nat) (q : Queue), s.queues[i]? = some q → id ∉ rIds q.ready ∧ id ∉ pfIds q

theorem task?_congr {s s' : State} (ht : s'.tasks = s.tasks) (x : TaskId) : s'.task? x = s.task? x := by
  unfold State.task?; rw [ht]

theorem task?_setTask (s : State) (t' : Task) (x : TaskId) :
    (s.setTask t').task? x = if x = t'.id then (s.task? x).map (fun _ => t') else s.task? x :=
  findTask_putTask _ _ _

theorem mem_putTask' {ts : List Task} {t x : Task} (h : x ∈ putTask ts t) : x = t ∨ (x ∈ ts ∧ x.id ≠ t.id) := by
  by_cases e : x.id = t.id
  · exact Or.inl (mem_putTask_id h e)
  · rcases mem_putTask h with h1 | h1
    · exact Or.inl h1
    · exact Or.inr ⟨h1, e⟩

theorem findTask_of_mem {ts : List Task} (hn : (taskIds ts).Nodup) {t : Task} (h : t ∈ ts) :
    findTask ts t.id = some t := by
  induction ts with
  | nil => cases h
  | cons y ys ih =>
    simp only [taskIds, List.map_cons, List.nodup_cons] at hn
    simp only [findTask]
    rcases List.mem_cons.mp h with e | e
    · subst e; simp
    · have : y.id ≠ t.id := fun e' => hn.1 (e' ▸ List.mem_map_of_mem e)
      simp only [this, if_false]
      exact ih hn.2 e

/-! ### facts about stored ids -/

/-- the record of an id stored in a ready list -/
theorem _root_.HqModel.Core.NpQ.task_of_ready {D R} {s : State} (h : NpQ D R s) {i : Nat} {q : Queue}
    (hq : s.queues[i]? = some q) {p : Int} {id : TaskId} (hx : (p, id) ∈ rPairs q.ready) :
    ∃ t, s.task? id = some t ∧ t.rq = i ∧ t.prio = p ∧ RState R s.redirects id t.state :=
  readyGood_iff.mp ((h.qok hq).rg _ hx)

/-- the record of an id stored in a prefill set -/
theorem _root_.HqModel.Core.NpQ.task_of_pf {D R} {s : State} (h : NpQ D R s) {i : Nat} {q : Queue}
    (hq : s.queues[i]? = some q) {id : TaskId} (hx : id ∈ pfIds q) :
    ∃ t w pp ts, q.prefill = some (pp, ts) ∧ id ∈ ts ∧ s.task? id = some t ∧ t.rq = i ∧ t.prio = pp ∧ id ∉ R ∧
      t.state = .prefilled w := by
  obtain ⟨pp, ts, hp, hm⟩ := mem_pfIds.mp hx
  obtain ⟨t, w, a⟩ := pfGood_iff.mp ((h.qok hq).pg pp ts hp id hm)
  exact ⟨t, w, pp, ts, hp, hm, a⟩

/-- a task whose state is not a ready-list state is in no ready list -/
theorem _root_.HqModel.Core.NpQ.not_ready {D R} {s : State} (h : NpQ D R s) {id : TaskId} {t : Task}
    (hf : s.task? id = some t) (hs : ¬ RState R s.redirects id t.state) {i : Nat} {q : Queue}
    (hq : s.queues[i]? = some q) : id ∉ rIds q.ready := by
  intro hm
  obtain ⟨p, hp⟩ := mem_rIds_iff_pairs.mp hm
  obtain ⟨t', ht', _, _, hs'⟩ := h.task_of_ready hq hp
  rw [hf] at ht'; cases ht'
  exact hs hs'

/-- a task that is not Prefilled is in no prefill set -/
theorem _root_.HqModel.Core.NpQ.not_pf {D R} {s : State} (h : NpQ D R s) {id : TaskId} {t : Task}
    (hf : s.task? id = some t) (hs : ∀ w, t.state ≠ .prefilled w) {i : Nat} {q : Queue}
    (hq : s.queues[i]? = some q) : id ∉ pfIds q := by
  intro hm
  obtain ⟨t', w, _, _, _, _, ht', _, _, _, hs'⟩ := h.task_of_pf hq hm
  rw [hf] at ht'; cases ht'
  exact hs w hs'

theorem _root_.HqModel.Core.NpQ.noQ {D R} {s : State} (h : NpQ D R s) {id : TaskId} {t : Task}
    (hf : s.task? id = some t) (hs : ¬ RState R s.redirects id t.state) (hp : ∀ w, t.state ≠ .prefilled w) :
    NoQ s id := by
  intro i q hq
  exact ⟨h.not_ready hf hs hq, h.not_pf hf hp hq⟩

/-- an id that is not in the map is in no queue -/
theorem _root_.HqModel.Core.NpQ.noQ_none {D R} {s : State} (h : NpQ D R s) {id : TaskId}
    (hf : s.task? id = none) : NoQ s id := by
  intro i q hq
  constructor
  · intro hm
    obtain ⟨p, hp⟩ := mem_rIds_iff_pairs.mp hm
    obtain ⟨t', ht', _⟩ := h.task_of_ready hq hp
    rw [hf] at ht'; cases ht'
  · intro hm
    obtain ⟨t', w, _, _, _, _, ht', _⟩ := h.task_of_pf hq hm
    rw [hf] at ht'; cases ht'

/-- an id of `R` is in no prefill set -/
theorem _root_.HqModel.Core.NpQ.not_pf_of_R {D R} {s : State} (h : NpQ D R s) {id : TaskId} (hr : id ∈ R)
    {i : Nat} {q : Queue} (hq : s.queues[i]? = some q) : id ∉ pfIds q := by
  intro hm
  obtain ⟨_, _, _, _, _, _, _, _, _, hn, _⟩ := h.task_of_pf hq hm
  exact hn hr

/-! ### frame -/

/-- tasks and queues unchanged, redirects only removed (`withWorker`, `setWorker`, `ask`, `try_remove_redirection`) -/
theorem _root_.HqModel.Core.NpQ.frame {D R} {s s' : State} (h : NpQ D R s) (ht : s'.tasks = s.tasks)
    (hq : s'.queues = s.queues) (hr : ∀ x ∈ s'.redirects, x ∈ s.redirects) : NpQ D R s' := by
  have htk : ∀ x, s'.task? x = s.task? x := task?_congr ht
  refine ⟨by rw [hq]; exact h.wf, ?_, by rw [hq]; exact h.pnd, ?_, ?_, h.rnd, ?_⟩
  · rw [hq]
    intro p hp e he id hid
    obtain ⟨t, a, b, c, d⟩ := readyGood_iff.mp (h.rg p hp e he id hid)
    exact readyGood_iff.mpr ⟨t, by rw [htk]; exact a, b, c, d.mono (fun x hx _ => hr x hx) (fun e => e)⟩
  · rw [hq]
    intro p hp pp ts hpf id hid
    obtain ⟨t, w, a⟩ := pfGood_iff.mp (h.pg p hp pp ts hpf id hid)
    exact pfGood_iff.mpr ⟨t, w, by rw [htk]; exact a.1, a.2⟩
  · rw [ht]
    intro t htm hpre hR hD
    have := h.pin t htm hpre hR hD
    unfold InPrefill at this ⊢
    rw [hq]; exact this
  · intro id hid
    obtain ⟨t, w, a, b⟩ := isPrefilled_iff.mp (h.rpre id hid)
    exact isPrefilled_iff.mpr ⟨t, w, by rw [htk]; exact a, b⟩

theorem withWorker_npq {D R} {s s' : State} {w : Nat} {f : Worker → M Worker} (h : NpQ D R s)
    (heq : s.withWorker w f = .ok s') : NpQ D R s' := by
  obtain ⟨wk, wk', _, _, rfl⟩ := withWorker_spec heq
  exact h.frame rfl rfl (fun _ hx => hx)

theorem setWorker_npq {D R} {s : State} (w : Worker) (h : NpQ D R s) : NpQ D R (s.setWorker w) :=
  h.frame rfl rfl (fun _ hx => hx)

theorem ask_npq {D R} {s : State} (h : NpQ D R s) : NpQ D R (ask s) := h.frame rfl rfl (fun _ hx => hx)

theorem tryRemoveRedirection_npq {D R} {s s' : State} {t : TaskId} {rq : Nat} (h : NpQ D R s)
    (heq : s.tryRemoveRedirection t rq = .ok s') : NpQ D R s' := by
  simp only [State.tryRemoveRedirection] at heq
  split at heq
  · cases heq; exact h
  · split at heq
    · cases heq
    · refine withWorker_npq (h.frame (s' := { s with redirects := s.redirects.filter (·.1 ≠ t) }) rfl rfl ?_) heq
      intro x hx; exact (List.mem_filter.mp hx).1

/-! ### replacing a record -/

/-- **general move lemma**: the record of `t'.id` is replaced by `t'` (same request, same priority); the new state
must be compatible with where the id is stored -/
theorem setTask_npq {D D' : TaskId → Prop} {R : List TaskId} {s : State} {t' told : Task} (h : NpQ D R s)
    (hf : s.task? t'.id = some told) (hrq : t'.rq = told.rq) (hp : t'.prio = told.prio)
    (hready : (∃ (i : Nat) (q : Queue), s.queues[i]? = some q ∧ t'.id ∈ rIds q.ready) → RState R s.redirects t'.id t'.state)
    (hpf : (∃ (i : Nat) (q : Queue), s.queues[i]? = some q ∧ t'.id ∈ pfIds q) → ∃ w, t'.state = .prefilled w)
    (hR : t'.id ∈ R → ∃ w, t'.state = .prefilled w)
    (hpin : (∃ w, t'.state = .prefilled w) → t'.id ∉ R → ¬ D' t'.id → InPrefill s t')
    (hD : ∀ x, x ≠ t'.id → D x → D' x) : NpQ D' R (s.setTask t') := by
  refine ⟨h.wf, ?_, h.pnd, ?_, ?_, h.rnd, ?_⟩
  · intro p hpm e he id hid
    have hq := List.mem_zipIdx_iff_getElem?.mp hpm
    obtain ⟨t, a, b, c, d⟩ := readyGood_iff.mp (h.rg p hpm e he id hid)
    by_cases e1 : id = t'.id
    · subst e1
      rw [hf] at a; cases a
      refine readyGood_iff.mpr ⟨t', ?_, hrq.trans b, hp.trans c, hready ⟨p.2, p.1, hq, mem_rIds.mpr ⟨e, he, hid⟩⟩⟩
      rw [task?_setTask, if_pos rfl, hf]; rfl
    · exact readyGood_iff.mpr ⟨t, by rw [task?_setTask, if_neg e1]; exact a, b, c, d⟩
  · intro p hpm pp ts hpre id hid
    have hq := List.mem_zipIdx_iff_getElem?.mp hpm
    obtain ⟨t, w, a, b, c, d, e⟩ := pfGood_iff.mp (h.pg p hpm pp ts hpre id hid)
    by_cases e1 : id = t'.id
    · subst e1
      rw [hf] at a; cases a
      obtain ⟨w', hw'⟩ := hpf ⟨p.2, p.1, hq, mem_pfIds.mpr ⟨pp, ts, hpre, hid⟩⟩
      refine pfGood_iff.mpr ⟨t', w', ?_, hrq.trans b, hp.trans c, d, hw'⟩
      rw [task?_setTask, if_pos rfl, hf]; rfl
    · exact pfGood_iff.mpr ⟨t, w, by rw [task?_setTask, if_neg e1]; exact a, b, c, d, e⟩
  · intro x hx hpre hxR hxD
    rcases mem_putTask' hx with e | ⟨hm, hne⟩
    · subst e; exact hpin hpre hxR hxD
    · exact h.pin x hm hpre hxR (fun hd => hxD (hD _ hne hd))
  · intro id hid
    obtain ⟨t, w, a, b⟩ := isPrefilled_iff.mp (h.rpre id hid)
    by_cases e1 : id = t'.id
    · subst e1
      obtain ⟨w', hw'⟩ := hR hid
      refine isPrefilled_iff.mpr ⟨t', w', ?_, hw'⟩
      rw [task?_setTask, if_pos rfl, hf]; rfl
    · exact isPrefilled_iff.mpr ⟨t, w, by rw [task?_setTask, if_neg e1]; exact a, b⟩

/-- the record of an id that is stored nowhere (and is not in `R`) gets any state that is not Prefilled -/
theorem setTask_npq_noQ {D : TaskId → Prop} {R : List TaskId} {s : State} {t' told : Task} (h : NpQ D R s)
    (hf : s.task? t'.id = some told) (hrq : t'.rq = told.rq) (hp : t'.prio = told.prio)
    (hnq : NoQ s t'.id) (hR : t'.id ∉ R) (hnew : ∀ w, t'.state ≠ .prefilled w) : NpQ D R (s.setTask t') :=
  setTask_npq h hf hrq hp (fun ⟨i, q, hq, hm⟩ => absurd hm (hnq i q hq).1) (fun ⟨i, q, hq, hm⟩ => absurd hm (hnq i q hq).2)
    (fun hr => absurd hr hR) (fun ⟨w, hw⟩ => absurd hw (hnew w)) (fun _ _ hd => hd)

/-- the old state is neither a ready-list state nor Prefilled (Assigned, Running, RunningMultiNode, Finished,
`Waiting (n+1)`, Retracting with a redirect), the new state is not Prefilled -/
theorem setTask_npq_unq {D : TaskId → Prop} {R : List TaskId} {s : State} {t' told : Task} (h : NpQ D R s)
    (hf : s.task? t'.id = some told) (hrq : t'.rq = told.rq) (hp : t'.prio = told.prio)
    (hold : ¬ RState R s.redirects t'.id told.state) (hold2 : ∀ w, told.state ≠ .prefilled w)
    (hnew : ∀ w, t'.state ≠ .prefilled w) : NpQ D R (s.setTask t') := by
  refine setTask_npq_noQ h hf hrq hp (h.noQ hf hold hold2) ?_ hnew
  intro hr
  obtain ⟨t, w, a, b⟩ := isPrefilled_iff.mp (h.rpre _ hr)
  rw [hf] at a; cases a
  exact hold2 w b

/-- the state is kept (instance id, crash counter, consumers, dependencies change) -/
theorem setTask_npq_same {D : TaskId → Prop} {R : List TaskId} {s : State} {t' told : Task} (h : NpQ D R s)
    (hf : s.task? t'.id = some told) (hrq : t'.rq = told.rq) (hp : t'.prio = told.prio)
    (hst : t'.state = told.state) : NpQ D R (s.setTask t') := by
  have hid : told.id = t'.id := findTask_some_id hf
  refine setTask_npq h hf hrq hp ?_ ?_ ?_ ?_ (fun _ _ hd => hd)
  · rintro ⟨i, q, hq, hm⟩
    obtain ⟨p, hp'⟩ := mem_rIds_iff_pairs.mp hm
    obtain ⟨t, a, _, _, d⟩ := h.task_of_ready hq hp'
    rw [hf] at a; cases a
    rw [hst]; exact d
  · rintro ⟨i, q, hq, hm⟩
    obtain ⟨t, w, _, _, _, _, a, _, _, _, e⟩ := h.task_of_pf hq hm
    rw [hf] at a; cases a
    exact ⟨w, hst.trans e⟩
  · intro hr
    obtain ⟨t, w, a, b⟩ := isPrefilled_iff.mp (h.rpre _ hr)
    rw [hf] at a; cases a
    exact ⟨w, hst.trans b⟩
  · rintro ⟨w, hw⟩ hr hd
    have := h.pin told (findTask_some_mem hf) ⟨w, hst ▸ hw⟩ (hid ▸ hr) (hid ▸ hd)
    rw [inPrefill_iff] at this ⊢
    rw [hrq, ← hid]; exact this

end HqModel.Core.NPC
