import HqModel.Lemmas.CoreNoPanicPipeWk2
/-!
`WKeys` (the worker ids are unchanged) for one scheduling round (`Sched.lean`), for one update of a `TaskUpdate`
message (`upd1`) and for `Core.step`; what `newWorker` / `removeWorker` do to the id list; and the forms used by the
pipe argument (`upd1_worker_keep`, `step_worker_keep`, `newWorker_worker_new`).
-/
namespace HqModel.SysW.NPP
open HqModel HqModel.Core

/-! ### `Sched.lean` -/

theorem placeSnBody_wk {s s' : Core.State} {m m' : List WUpdate} {v : Nat} {r : Rq} {id : Core.TaskId} {w : Nat}
    (h : s.placeSnBody m v r id w = .ok (s', m')) : WKeys s s' := by
  simp only [Core.State.placeSnBody] at h
  split at h
  · cases h
  · rename_i s1 hw
    have f1 : WKeys s s1 := WKeys.withWorker hw
    split at h
    · cases h
    · rename_i task hg
      split at h
      · cases h
        exact f1.trans (WKeys.setTask _ _)
      · rename_i old hs
        split at h
        · split at h
          · cases h
          · rename_i r' hr
            split at h
            · cases h
            · rename_i s3 hw3
              cases h
              have f2 : WKeys s1 { s1 with redirects := (s1.redirects.filter (·.1 ≠ id)) ++ [(id, w, v)] } :=
                WKeys.of_eq rfl
              have f3 : WKeys { s1 with redirects := (s1.redirects.filter (·.1 ≠ id)) ++ [(id, w, v)] } s3 :=
                WKeys.withWorker hw3
              exact ((f1.trans f2).trans f3).trans (WKeys.setTask _ _)
        · cases h
          exact f1.trans (WKeys.of_eq rfl)
      · rename_i old hs
        split at h
        · cases h
        · rename_i s2 hw2
          split at h
          · cases h
          · cases h
            have f2 : WKeys s1 s2 := WKeys.withWorker hw2
            exact (f1.trans f2).trans (WKeys.of_eq rfl)
      · cases h

theorem placeSn_wk {s s' : Core.State} {m m' : List WUpdate} {v : Nat} {r : Rq} {id : Core.TaskId} {w : Nat}
    (h : s.placeSn m v r id w = .ok (s', m')) : WKeys s s' :=
  placeSnBody_wk (placeSn_ok h).1

theorem placeAll_wk (l : List (Core.TaskId × Nat)) (s s' : Core.State) (m m' : List WUpdate) (v : Nat) (r : Rq)
    (h : s.placeAll m v r l = .ok (s', m')) : WKeys s s' := by
  induction l generalizing s m with
  | nil => simp only [Core.State.placeAll] at h; cases h; exact WKeys.refl _
  | cons p rest ih =>
    obtain ⟨id, w⟩ := p
    simp only [Core.State.placeAll] at h
    split at h
    · cases h
    · rename_i s1 m1 h1
      exact (placeSn_wk h1).trans (ih _ _ h)

theorem mapSn_wk (es : List SnEntry) (s s' : Core.State) (now : Nat) (m m' : List WUpdate)
    (h : s.mapSn now m es = .ok (s', m')) : WKeys s s' := by
  induction es generalizing s m with
  | nil => simp only [Core.State.mapSn] at h; cases h; exact WKeys.refl _
  | cons e rest ih =>
    simp only [Core.State.mapSn] at h
    split at h
    · cases h
    · split at h
      · cases h
      · split at h
        · cases h
        · rename_i q hq
          split at h
          · cases h
          · rename_i q' hq'
            split at h
            · cases h
            · rename_i s2 m2 hp
              have f1 : WKeys s { s with queues := s.queues.set e.rq q' } := WKeys.of_eq rfl
              exact (f1.trans (placeAll_wk _ _ _ _ _ _ _ hp)).trans (ih _ _ h)

theorem setMnAll_wk (ws : List Nat) (s s' : Core.State) (id : Core.TaskId) (first : Bool)
    (h : Core.setMnAll s id ws first = .ok s') : WKeys s s' := by
  induction ws generalizing s first with
  | nil => simp only [Core.setMnAll] at h; cases h; exact WKeys.refl _
  | cons w rest ih =>
    simp only [Core.setMnAll] at h
    split at h
    · cases h
    · rename_i s1 hw
      exact (WKeys.withWorker hw).trans (ih _ _ h)

theorem mapMnSets_wk (sets : List (List Nat)) (s s' : Core.State) (rq : Nat) (acc acc' : List Core.TaskId)
    (h : s.mapMnSets rq sets acc = .ok (s', acc')) : WKeys s s' := by
  induction sets generalizing s acc with
  | nil => simp only [Core.State.mapMnSets] at h; cases h; exact WKeys.refl _
  | cons ws rest ih =>
    simp only [Core.State.mapMnSets] at h
    split at h
    · cases h
    · rename_i q hq
      split at h
      · cases h
      · rename_i p ids more hr
        split at h
        · cases h
        · rename_i id ids'
          split at h
          · cases h
          · rename_i s2 hm
            split at h
            · cases h
            · rename_i task hg
              split at h
              · cases h
              · have f2 := setMnAll_wk _ _ _ _ _ hm
                have f12 : WKeys s s2 := f2
                have f3 : WKeys s2 (s2.setTask { task with state := .runningMN ws }) := WKeys.setTask _ _
                exact (f12.trans f3).trans (ih _ _ h)

theorem mapMn_wk (es : List MnEntry) (s s' : Core.State) (acc acc' : List Core.TaskId)
    (h : s.mapMn es acc = .ok (s', acc')) : WKeys s s' := by
  induction es generalizing s acc with
  | nil => simp only [Core.State.mapMn] at h; cases h; exact WKeys.refl _
  | cons e rest ih =>
    simp only [Core.State.mapMn] at h
    split at h
    · cases h
    · rename_i s1 acc1 h1
      exact (mapMnSets_wk _ _ _ _ _ _ h1).trans (ih _ _ h)

theorem prefillBack_wk (rq : Nat) (l : List Core.TaskId) (s s' : Core.State) (keep keep' : List Core.TaskId)
    (h : Core.State.prefillWorker.back rq s l keep = .ok (s', keep')) : WKeys s s' := by
  induction l generalizing s keep with
  | nil => simp only [Core.State.prefillWorker.back] at h; cases h; exact WKeys.refl _
  | cons id rest ih =>
    simp only [Core.State.prefillWorker.back] at h
    split at h
    · cases h
    · split at h
      · split at h
        · cases h
        · rename_i s2 hm
          exact (WKeys.core (movePrefilledToReady_core hm)).trans (ih _ _ h)
      · exact ih _ _ h

theorem prefillMark_wk (w : Nat) (l : List Core.TaskId) (s s' : Core.State)
    (h : Core.State.prefillWorker.mark w s l = .ok s') : WKeys s s' := by
  induction l generalizing s with
  | nil => simp only [Core.State.prefillWorker.mark] at h; cases h; exact WKeys.refl _
  | cons id rest ih =>
    simp only [Core.State.prefillWorker.mark] at h
    split at h
    · cases h
    · rename_i t hg
      split at h
      · split at h
        · cases h
        · rename_i s2 hw
          have f1 : WKeys s (s.setTask { t with state := .prefilled w }) := WKeys.setTask _ _
          exact (f1.trans (WKeys.withWorker hw)).trans (ih _ h)
      · cases h

theorem prefillWorker_wk {s s' : Core.State} {m m' : List WUpdate} {rq size w : Nat}
    (h : s.prefillWorker m rq size w = .ok (s', m')) : WKeys s s' := by
  simp only [Core.State.prefillWorker] at h
  split at h
  · cases h
  · rename_i q hq
    split at h
    · cases h
    · split at h
      · cases h
      · rename_i pf hpf
        split at h
        · cases h
        · rename_i s2 keep hb
          split at h
          · cases h
          · rename_i s3 hmk
            cases h
            have f1 : WKeys s { s with queues := s.queues.set rq { ready := (takeFromFirst q.ready size).1, prefill := some pf } } :=
              WKeys.of_eq rfl
            exact (f1.trans (prefillBack_wk _ _ _ _ _ _ hb)).trans (prefillMark_wk _ _ _ _ hmk)

theorem prefillWorkers_wk (ws : List Nat) (s s' : Core.State) (m m' : List WUpdate) (rq size : Nat)
    (h : s.prefillWorkers m rq size ws = .ok (s', m')) : WKeys s s' := by
  induction ws generalizing s m with
  | nil => simp only [Core.State.prefillWorkers] at h; cases h; exact WKeys.refl _
  | cons w rest ih =>
    simp only [Core.State.prefillWorkers] at h
    split at h
    · cases h
    · rename_i s1 m1 h1
      exact (prefillWorker_wk h1).trans (ih _ _ h)

theorem proactive_wk (n : Nat) (s s' : Core.State) (m m' : List WUpdate) (orders : List (Nat × List Nat)) (top : Int)
    (rq : Nat) (h : s.proactive m orders top n rq = .ok (s', m')) : WKeys s s' := by
  have hp := prefillWorkers_wk
  have ht := @WKeys.trans
  have hr := WKeys.refl
  fun_induction Core.State.proactive s m orders top n rq <;> grind

theorem schedule_wk {s s' : Core.State} {sol : Solution} {o : Core.Out} (h : s.schedule sol = .ok (s', o)) :
    WKeys s s' := by
  simp only [Core.State.schedule] at h
  split at h
  · cases h
  · rename_i s1 m1 h1
    have f1 := mapSn_wk _ _ _ _ _ _ h1
    split at h
    · cases h
    · rename_i s2 mnTasks h2
      have f2 := mapMn_wk _ _ _ _ _ h2
      split at h
      · cases h
      · rename_i s3 m3 h3
        have f3 : WKeys s2 s3 := by
          split at h3
          · cases h3; exact WKeys.refl _
          · exact proactive_wk _ _ _ _ _ _ _ _ h3
        split at h
        · cases h
        · split at h
          · cases h
          · cases h
            exact ((f1.trans f2).trans f3).trans (WKeys.of_eq rfl)

/-! ### `on_new_tasks`, `on_task_update` -/

theorem newTasks_wk {s s' : Core.State} {nts : List NewTask} {o : Core.Out} (h : s.newTasks nts = .ok (s', o)) :
    WKeys s s' := by
  simp only [Core.State.newTasks] at h
  split at h
  · cases h
  · split at h
    · cases h
    · rename_i s1 retracted h1
      split at h
      · cases h
      · rename_i s2 out h2
        cases h
        exact ((WKeys.of_eq (addNewTasks_desc _ _ _ _ _ h1).1).trans (retract_wk h2)).trans (WKeys.ask _)

/-- one update of a `TaskUpdate` message (`State.upd1`, `Lemmas/SysLock.lean`) keeps the worker ids -/
theorem upd1_wkeys {c c1 : Core.State} {w : Nat} {u : Core.Update} {rets rets1 : List (List TaskId)} {o1 : Core.Out}
    (h : c.upd1 w u rets = .ok (c1, o1, rets1)) : WKeys c c1 := by
  cases u with
  | finished t =>
    simp only [Core.State.upd1] at h
    split at h
    · cases h
    · rename_i s1 o b h1
      cases h; exact taskFinished_wk h1
  | failed t =>
    simp only [Core.State.upd1] at h
    split at h
    · cases h
    · rename_i s1 o h1
      cases h; exact taskFailed_wk h1
  | running t rv =>
    simp only [Core.State.upd1] at h
    split at h
    · cases h
    · rename_i s1 o h1
      cases h; exact taskRunning_wk h1
  | runningPrefilled t rv =>
    simp only [Core.State.upd1] at h
    split at h
    · cases h
    · rename_i s1 o h1
      cases h; exact taskRunning_wk h1
  | reject t rv =>
    simp only [Core.State.upd1] at h
    split at h
    · cases h
    · rename_i s1 o b h1
      cases h; exact taskReject_wk h1
  | enable rq rv =>
    simp only [Core.State.upd1] at h
    split at h
    · cases h
    · rename_i s1 h1
      cases h; exact requestEnabled_wk h1

theorem updateLoop_wk (us : List Core.Update) (s : Core.State) (w : Nat) (rets : List (List Core.TaskId))
    (out : Core.Out) (need : Bool) (res : Core.State × Core.Out × Bool × List (List Core.TaskId))
    (h : s.updateLoop w us rets out need = .ok res) : WKeys s res.1 := by
  induction us generalizing s rets out need with
  | nil => simp only [Core.State.updateLoop] at h; cases h; exact WKeys.refl _
  | cons u rest ih =>
    obtain ⟨s1, o1, rets1, need1, h1, h2⟩ := updateLoop_cons_out h
    exact (upd1_wkeys h1).trans (ih _ _ _ _ h2)

theorem taskUpdate_wk {s s' : Core.State} {w : Nat} {us : List Core.Update} {rets : List (List Core.TaskId)}
    {o : Core.Out} (h : s.taskUpdate w us rets = .ok (s', o)) : WKeys s s' := by
  simp only [Core.State.taskUpdate] at h
  split at h
  · cases h
  · rename_i s1 out need r h1
    cases h
    have f : WKeys s s1 := updateLoop_wk _ _ _ _ _ _ _ h1
    split
    · exact f.trans (WKeys.ask _)
    · exact f

/-! ### `Core.step` -/

/-- every operation of the core except `newWorker` / `removeWorker` keeps the worker ids -/
theorem step_wkeys {c c' : Core.State} {op : Core.Op} {o : Core.Out} (h : Core.step c op = .ok (c', o))
    (hnw : ∀ wk, op ≠ .newWorker wk) (hrm : ∀ w r f ord rets, op ≠ .removeWorker w r f ord rets) : WKeys c c' := by
  cases op with
  | newWorker wk => exact (hnw wk rfl).elim
  | removeWorker w r f ord rets => exact (hrm w r f ord rets rfl).elim
  | newRq rqv => simp only [Core.step] at h; cases h; exact WKeys.of_eq rfl
  | newTasks nts => exact newTasks_wk h
  | cancel ids => exact cancelTasks_wk h
  | update w us rets => exact taskUpdate_wk h
  | retracted w ids => exact retractResponse_wk h
  | schedule sol => exact schedule_wk h

theorem newWorker_ids {c c' : Core.State} {wk : Core.Worker} {o : Core.Out}
    (h : Core.step c (.newWorker wk) = .ok (c', o)) : c'.workers.map (·.id) = c.workers.map (·.id) ++ [wk.id] := by
  simp only [Core.step, Core.State.newWorker] at h
  cases h
  simp [Core.ask]

theorem filter_ids (ws : List Core.Worker) (w : Nat) :
    (ws.filter (·.id ≠ w)).map (·.id) = (ws.map (·.id)).filter (· ≠ w) := by
  rw [List.filter_map]; rfl

theorem removeWorker_ids {c c' : Core.State} {w : Nat} {r : String} {f : Bool} {ord : List TaskId}
    {rets : List (List TaskId)} {o : Core.Out} (h : Core.step c (.removeWorker w r f ord rets) = .ok (c', o)) :
    c'.workers.map (·.id) = (c.workers.map (·.id)).filter (· ≠ w) := by
  have f1 := removeWorker_wk (s := c) h
  unfold WKeys at f1
  rw [f1]
  exact filter_ids _ _

/-! ### the forms used downstream -/

theorem upd1_worker_keep {c c1 : Core.State} {w : Nat} {u : Core.Update} {rets rets1 : List (List TaskId)} {o1 : Core.Out}
    (h : c.upd1 w u rets = .ok (c1, o1, rets1)) (x : Nat) (hx : (c.worker? x).isSome = true) :
    (c1.worker? x).isSome = true :=
  (upd1_wkeys h).worker_keep x hx

theorem step_worker_keep {c c' : Core.State} {op : Core.Op} {o : Core.Out} (h : Core.step c op = .ok (c', o)) (x : Nat)
    (hx : (c.worker? x).isSome = true) (hne : ∀ w r f ord rets, op = .removeWorker w r f ord rets → x ≠ w) :
    (c'.worker? x).isSome = true := by
  by_cases hnw : ∃ wk, op = .newWorker wk
  · obtain ⟨wk, rfl⟩ := hnw
    unfold Core.State.worker? at *
    rw [findWorker_isSome_iff] at *
    rw [newWorker_ids h]
    exact List.mem_append_left _ hx
  · by_cases hrm : ∃ w r f ord rets, op = .removeWorker w r f ord rets
    · obtain ⟨w, r, f, ord, rets, rfl⟩ := hrm
      have hxw := hne w r f ord rets rfl
      unfold Core.State.worker? at *
      rw [findWorker_isSome_iff] at *
      rw [removeWorker_ids h]
      exact List.mem_filter.mpr ⟨hx, by simpa using hxw⟩
    · exact (step_wkeys h (fun wk e => hnw ⟨wk, e⟩) (fun w r f ord rets e => hrm ⟨w, r, f, ord, rets, e⟩)).worker_keep x hx

theorem newWorker_worker_new {c c' : Core.State} {wk : Core.Worker} {o : Core.Out}
    (h : Core.step c (.newWorker wk) = .ok (c', o)) : (c'.worker? wk.id).isSome = true := by
  unfold Core.State.worker?
  rw [findWorker_isSome_iff, newWorker_ids h]
  exact List.mem_append_right _ (List.mem_singleton.mpr rfl)

end HqModel.SysW.NPP
