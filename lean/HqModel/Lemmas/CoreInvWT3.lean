import HqModel.Lemmas.CoreInvWT2
/-!
Stage 2, part 5: preservation of `Inv` by `on_remove_worker`, `on_new_worker` and new requests.
-/
namespace HqModel.Core

/-- the task is in no worker set (it may have a redirect) -/
structure LFree3 (ws : List Worker) (t : TaskId) : Prop where
  na : ∀ w, t ∉ asgW ws w
  np : ∀ w, t ∉ preW ws w
  nm : ∀ w, mnW ws w ≠ some t

theorem Free3.lfree {ws rd t} (h : Free3 ws rd t) : LFree3 ws t := ⟨h.na, h.np, h.nm⟩

/-- a task Prefilled on a worker that is gone -/
theorem LS3.free_of_prefilled_gone {ts ws rd} (h : LS3 ts ws rd) {t : TaskId} {w : Nat}
    (hs : stOf ts t = some (.prefilled w)) (hg : preW ws w = []) : Free3 ws rd t := by
  have ha1 := h.a1
  have ha2 := h.a2
  have hm1 := h.m1
  have hd1 := h.d1
  refine ⟨?_, ?_, ?_, ?_⟩
  · grind [Holds]
  · intro x hx
    have := ha2 x t hx
    rw [hs] at this; cases this
    rw [hg] at hx; cases hx
  · grind
  · grind

/-- a task that held a reservation on a worker that is gone -/
theorem LS3.lfree_of_holds_gone {ts ws rd} (h : LS3 ts ws rd) {t : TaskId} {w : Nat} {st : TS}
    (hs : stOf ts t = some st) (hh : Holds rd w t st) (hg : asgW ws w = []) : LFree3 ws t := by
  have ha2 := h.a2
  have hm1 := h.m1
  refine ⟨?_, ?_, ?_⟩
  · intro x hx
    obtain ⟨st', h1, h2⟩ := h.a1 x t hx
    rw [hs] at h1; cases h1
    have hxw : x = w := by
      cases st <;> simp only [Holds_assigned, Holds_running, Holds_retracting, Holds_waiting, Holds_prefilled,
        Holds_runningMN, Holds_finished] at hh h2
      · rw [← hh, ← h2]
      · obtain ⟨v, hv⟩ := hh
        obtain ⟨v', hv'⟩ := h2
        exact (rd_unique h.d2 hv' hv).1
      · rw [← hh, ← h2]
    rw [hxw, hg] at hx; cases hx
  · intro x hx
    have := ha2 x t hx
    rw [hs] at this; cases this
    exact hh
  · intro x hx
    obtain ⟨l, h1, _⟩ := hm1 x t hx
    rw [hs] at h1; cases h1
    exact hh

/-! ### the loops of `on_remove_worker` -/

theorem lostPrefilled_inv (ids : List TaskId) (s s' : State) (hi : Inv s) (hf : ∀ id ∈ ids, Free s id)
    (h : s.lostPrefilled ids = .ok s') : Inv s' ∧ s'.workers = s.workers ∧ s'.redirects = s.redirects := by
  induction ids generalizing s with
  | nil => simp only [State.lostPrefilled] at h; cases h; exact ⟨hi, rfl, rfl⟩
  | cons id rest ih =>
    simp only [State.lostPrefilled] at h
    split at h
    · cases h
    · rename_i task hg
      have ht := getTask_spec hg
      have hid : task.id = id := findTask_some_id ht
      split at h
      · cases h
      · rename_i s2 hm
        have hc := movePrefilledToReady_core hm
        have ht1 : findTask s.tasks ({ task with inst := task.inst + 1, state := .waiting 0 } : Task).id = some task := by
          rw [hid]; exact ht
        have hi1 : Inv (s.setTask { task with inst := task.inst + 1, state := .waiting 0 }) := by
          show Inv4 (putTask s.tasks _) s.workers s.redirects s.rqs
          refine hi.put ht1 rfl rfl (by simp [isWaiting]) (by simp) (hi.ls.mv_free ht1 ?_)
          show Free3 _ _ task.id
          rw [hid]; exact hf id (by simp)
        obtain ⟨a, b, c⟩ := ih _ (hc.inv hi1) (fun x hx => by
          have := hf x (by simp [hx])
          unfold Free at this ⊢; rw [hc.w, hc.r]; exact this) h
        exact ⟨a, b.trans hc.w, c.trans hc.r⟩

/-- one task of the lost worker goes back to the queue -/
theorem lost_requeue_inv {s : State} {rd' : List (TaskId × Nat × Nat)} {task t' : Task} (hi : Inv s)
    (ht : findTask s.tasks t'.id = some task) (hc : t'.consumers = task.consumers) (hq : t'.rq = task.rq)
    (hw : isWaiting task.state → isWaiting t'.state) (hm : ∀ l', t'.state = .runningMN l' → ∃ l, task.state = .runningMN l)
    (hf : LFree3 s.workers t'.id)
    (hrd : ∀ u x v, u ≠ t'.id → ((u, x, v) ∈ rd' ↔ (u, x, v) ∈ s.redirects))
    (hr : ∀ x v, (t'.id, x, v) ∈ rd' → ∃ w0, t'.state = .retracting w0)
    (hd2 : (rd'.map (·.1)).Nodup) :
    Inv4 (putTask s.tasks t') s.workers rd' s.rqs :=
  hi.put ht hc hq hw hm (hi.ls.mv_listfree ht hf.na hf.np hf.nm hrd hr hd2)

theorem lostAssigned_inv (ids : List TaskId) (s s' : State) (ru ru' re re' : List TaskId) (hi : Inv s)
    (hf : ∀ id ∈ ids, LFree3 s.workers id)
    (h : s.lostAssigned ids ru re = .ok (s', ru', re')) : Inv s' := by
  induction ids generalizing s ru re with
  | nil => simp only [State.lostAssigned] at h; cases h; exact hi
  | cons id rest ih =>
    simp only [State.lostAssigned] at h
    split at h
    · cases h
    · rename_i task hg
      have ht := getTask_spec hg
      have hid : task.id = id := findTask_some_id ht
      have hst := stOf_of_find ht
      have hfid : LFree3 s.workers id := hf id (by simp)
      have hrest : ∀ x ∈ rest, LFree3 s.workers x := fun x hx => hf x (by simp [hx])
      -- redirects exist only for Retracting tasks
      have hnord : (∀ w0, task.state ≠ .retracting w0) → ∀ x v, (id, x, v) ∉ s.redirects := by
        intro hn x v hm
        obtain ⟨w0, h1⟩ := hi.ls.d1 id x v hm
        rw [hst] at h1
        exact hn w0 (by simpa using h1)
      split at h
      · -- running
        rename_i a b hs
        split at h
        · cases h
        · rename_i s2 r2 ha
          have hc := addReady_core ha
          refine ih _ _ _ (hc.inv ?_) (fun x hx => by rw [hc.w]; exact hrest x hx) h
          have ht1 : findTask s.tasks ({ task with state := .waiting 0, inst := task.inst + 1 } : Task).id = some task := by
            rw [hid]; exact ht
          exact lost_requeue_inv hi ht1 rfl rfl (by simp [isWaiting]) (by simp) (by show LFree3 _ task.id; rw [hid]; exact hfid)
            (fun _ _ _ _ => Iff.rfl)
            (fun x v hm => absurd hm (by show (task.id, x, v) ∉ _; rw [hid]; exact hnord (by simp [hs]) x v)) hi.ls.d2
      · -- retracting
        rename_i w0 hs
        split at h
        · cases h
        · split at h
          · cases h
          · rename_i s2 r2 ha
            have hc := addReady_core ha
            refine ih _ _ _ (hc.inv ?_) (fun x hx => by rw [hc.w]; exact hrest x hx) h
            have ht1 : findTask s.tasks ({ task with inst := task.inst + 1 } : Task).id = some task := by
              rw [hid]; exact ht
            show Inv4 (putTask s.tasks _) s.workers (s.redirects.filter (·.1 ≠ id)) s.rqs
            exact lost_requeue_inv (rd' := s.redirects.filter (·.1 ≠ id)) hi ht1 rfl rfl (fun h => h) (fun l' hl => ⟨l', hl⟩)
              (by show LFree3 _ task.id; rw [hid]; exact hfid)
              (fun u x v hu => by rw [rd_filter_mem]; simp only [hid] at hu; simp [hu])
              (fun x v hm => by rw [rd_filter_mem] at hm; simp only [hid] at hm; exact absurd rfl hm.2)
              (rd_filter_nodup hi.ls.d2 _)
      · -- assigned (every other state)
        rename_i hn1 hn2
        split at h
        · cases h
        · rename_i s2 r2 ha
          have hc := addReady_core ha
          refine ih _ _ _ (hc.inv ?_) (fun x hx => by rw [hc.w]; exact hrest x hx) h
          have ht1 : findTask s.tasks ({ task with state := .waiting 0, inst := task.inst + 1 } : Task).id = some task := by
            rw [hid]; exact ht
          exact lost_requeue_inv hi ht1 rfl rfl (by simp [isWaiting]) (by simp) (by show LFree3 _ task.id; rw [hid]; exact hfid)
            (fun _ _ _ _ => Iff.rfl)
            (fun x v hm => absurd hm (by show (task.id, x, v) ∉ _; rw [hid]; exact hnord (fun w0 e => hn2 w0 e) x v)) hi.ls.d2

theorem lostRetracting_inv (l : List Task) (s s' : State) (w : Nat) (o o' : Out) (hi : Inv s)
    (h : s.lostRetracting w l o = .ok (s', o')) : Inv s' := by
  induction l generalizing s o with
  | nil => simp only [State.lostRetracting] at h; cases h; exact hi
  | cons t0 rest ih =>
    simp only [State.lostRetracting, State.task?] at h
    split at h
    · exact ih _ _ hi h
    · rename_i task ht
      have hid : task.id = t0.id := findTask_some_id ht
      have hst := stOf_of_find ht
      split at h
      · exact ih _ _ hi h
      · rename_i hs
        simp only [ne_eq, Decidable.not_not] at hs
        split at h
        · rename_i tt target trv hfind
          refine ih _ _ ?_ h
          have hmem := rd_mem_of_find hfind
          have ht0' : tt = task.id := by simpa using hmem.2
          subst ht0'
          show Inv4 (putTask s.tasks _) s.workers (s.redirects.filter _) s.rqs
          have ht1 : findTask s.tasks ({ task with inst := task.inst + 1, state := .assigned target trv } : Task).id = some task := by
            show findTask s.tasks task.id = _; rw [hid]; exact ht
          refine hi.put ht1 rfl rfl (by simp [hs, isWaiting]) (by simp) ?_
          exact hi.ls.mv_resolve_redirect (t' := { task with inst := task.inst + 1, state := .assigned target trv }) ht1 hs
            hmem.1 rfl
        · rename_i hnone
          refine ih _ _ ?_ h
          show Inv4 (putTask s.tasks _) s.workers s.redirects s.rqs
          have ht1 : findTask s.tasks ({ task with inst := task.inst + 1, state := .waiting 0 } : Task).id = some task := by
            show findTask s.tasks task.id = _; rw [hid]; exact ht
          refine hi.put ht1 rfl rfl (by simp [isWaiting]) (by simp) (hi.ls.mv_free ht1 ?_)
          show Free3 _ _ task.id
          exact hi.ls.free_of_retracting (w0 := w) (by rw [hid, hst, hs]) (fun x v => rd_find_none hnone x v)

theorem crashLoop_inv (ids : List TaskId) (s s' : State) (f : Bool) (rets : List (List TaskId)) (o o' : Out)
    (hi : Inv s) (h : s.crashLoop f ids rets o = .ok (s', o')) : Inv s' := by
  induction ids generalizing s rets o with
  | nil => simp only [State.crashLoop] at h; cases h; exact hi
  | cons id rest ih =>
    simp only [State.crashLoop, State.task?] at h
    split at h
    · exact ih _ _ _ hi h
    · rename_i task ht
      have hid : task.id = id := findTask_some_id ht
      have hi1 : ∀ c, Inv (s.setTask { task with crashes := c }) := by
        intro c
        show Inv4 (putTask s.tasks _) s.workers s.redirects s.rqs
        have ht1 : findTask s.tasks ({ task with crashes := c } : Task).id = some task := by rw [hid]; exact ht
        exact hi.put ht1 rfl rfl (fun h => h) (fun l' hl => ⟨l', hl⟩) (hi.ls.mv_same ht1 rfl)
      split at h
      · split at h
        · cases h
        · rename_i s2 o2 h2
          exact ih _ _ _ (taskFailed_inv (hi1 _) h2) h
      · exact ih _ _ _ (hi1 _) h

/-! ### `on_remove_worker` -/

theorem mem_of_all_contains {l A : List TaskId} (h : l.all A.contains = true) : ∀ x ∈ l, x ∈ A := by
  intro x hx
  have := List.all_eq_true.mp h x hx
  simpa using this

theorem removeWorker_inv {s s' : State} {w : Nat} {reason : String} {f : Bool} {order : List TaskId}
    {rets : List (List TaskId)} {o : Out} (hi : Inv s)
    (h : s.removeWorker w reason f order rets = .ok (s', o)) : Inv s' := by
  simp only [State.removeWorker, State.worker?] at h
  split at h
  · cases h
  · rename_i wk hfw
    -- the worker is dropped
    have hi0 : Inv { s with workers := s.workers.filter (·.id ≠ w) } := by
      show Inv4 s.tasks (s.workers.filter (·.id ≠ w)) s.redirects s.rqs
      exact hi.workers (hi.ls.mv_drop_worker w)
    have hgA : asgW (s.workers.filter (·.id ≠ w)) w = [] := by rw [asgW_filter]; simp
    have hgP : preW (s.workers.filter (·.id ≠ w)) w = [] := by rw [preW_filter]; simp
    split at h
    · cases h
    · rename_i s1 running retracted hp1
      have hi1 : Inv s1 := by
        clear h
        split at hp1
        · -- single-node assignment
          rename_i A F P ha
          split at hp1
          · cases hp1
          · rename_i hperm
            simp only [Bool.not_eq_true, Bool.not_eq_false, Bool.and_eq_true, Bool.not_eq_eq_eq_not, Bool.not_true,
              Bool.not_false] at hperm
            split at hp1
            · cases hp1
            · rename_i s01 hlp
              have hP : preW s.workers w = P := by rw [preW_of_find hfw]; simp [wPre, ha]
              have hA : asgW s.workers w = A := by rw [asgW_of_find hfw]; simp [wAsg, ha]
              obtain ⟨a, b, c⟩ := lostPrefilled_inv _ _ _ hi0 (fun id hid => by
                have hs := hi.ls.a2 w id (by rw [hP]; exact hid)
                exact hi0.ls.free_of_prefilled_gone hs hgP) hlp
              refine lostAssigned_inv _ _ _ _ _ _ _ a ?_ hp1
              intro id hid
              rw [b]
              have hmem : id ∈ A := by
                have h1 : order.all A.contains = true := by
                  have := hperm
                  simp only [Bool.and_eq_true, decide_eq_true_eq] at this
                  exact this.1.1
                exact mem_of_all_contains h1 id hid
              obtain ⟨st, hs, hh⟩ := hi.ls.a1 w id (by rw [hA]; exact hmem)
              exact hi0.ls.lfree_of_holds_gone hs hh hgA
        · -- multi-node assignment
          rename_i tid root started ha
          have hM : mnW s.workers w = some tid := by rw [mnW_of_find hfw]; simp [wMn, ha]
          split at hp1
          · cases hp1
          · rename_i task hg
            have ht : findTask s.tasks tid = some task := getTask_spec hg
            have hid : task.id = tid := findTask_some_id ht
            have hst := stOf_of_find ht
            split at hp1
            · rename_i ws hs
              split at hp1
              · rename_i rootw others
                split at hp1
                · rename_i hroot
                  split at hp1
                  · cases hp1
                  · rename_i s01 hr
                    obtain ⟨a, b, c, d, e, ff⟩ := resetMnAll_ls _ _ _ hi0.ls hr
                    have hi01 : Inv s01 := by unfold Inv; rw [c, e]; exact hi0.workers a
                    split at hp1
                    · cases hp1
                    · rename_i s3 r3 har
                      cases hp1
                      refine (addReady_core har).inv ?_
                      have ht1 : findTask s01.tasks ({ task with state := .waiting 0, inst := task.inst + 1 } : Task).id = some task := by
                        rw [c, hid]; exact ht
                      show Inv4 (putTask s01.tasks _) s01.workers s01.redirects s01.rqs
                      refine hi01.put ht1 rfl rfl (by simp [isWaiting]) (by simp) (hi01.ls.mv_free ht1 ?_)
                      show Free3 _ _ task.id
                      rw [hid]
                      refine hi01.ls.free_of_mn (l := rootw :: others) (by rw [c]; exact hst.trans (by rw [hs])) ?_
                      intro x hx
                      have h0 := b.m x tid hx
                      change mnW (s.workers.filter (·.id ≠ w)) x = some tid at h0
                      rw [mnW_filter] at h0
                      split at h0
                      · cases h0
                      · rename_i hxw
                        obtain ⟨l, h1, h2⟩ := hi.ls.m1 x tid h0
                        rw [hst, hs] at h1; cases h1
                        simp only [List.mem_cons] at h2
                        rcases h2 with h2 | h2
                        · exact hxw (h2.trans hroot)
                        · rw [ff x h2] at hx; cases hx
                · rename_i hroot
                  cases hp1
                  have ht1 : findTask s.tasks ({ task with state := .runningMN ((rootw :: others).filter (· ≠ w)) } : Task).id = some task := by
                    rw [hid]; exact ht
                  show Inv4 (putTask s.tasks _) (s.workers.filter (·.id ≠ w)) s.redirects s.rqs
                  refine Inv4.put hi0 ht1 rfl rfl (by simp [hs, isWaiting]) (fun _ _ => ⟨_, hs⟩) ?_
                  refine hi0.ls.mv_mn_state ht1 hs rfl ?_
                  intro x hx
                  rw [mnW_filter] at hx
                  split at hx
                  · cases hx
                  · rename_i hxw
                    obtain ⟨l, h1, h2⟩ := hi.ls.m1 x task.id hx
                    rw [hid, hst, hs] at h1; cases h1
                    exact List.mem_filter.mpr ⟨h2, by simpa using hxw⟩
              · cases hp1
            · cases hp1
      split at h
      · cases h
      · rename_i s2 out1 h2
        have hi2 := lostRetracting_inv _ _ _ _ _ _ hi1 h2
        split at h
        · cases h
        · rename_i s3 out2 h3
          have hi3 := retract_inv hi2 h3
          split at h
          · cases h
          · rename_i s4 out h4
            cases h
            exact (CoreEq.ask s4).inv (crashLoop_inv _ _ _ _ _ _ _ hi3 h4)

/-! ### `on_new_worker`, new requests -/

/-- side condition of a `newWorker` operation: the record is a fresh single-node worker (what `Worker::new` builds) -/
def FreshWorker (w : Worker) : Prop := w.assign = .sn [] w.total []

instance (w : Worker) : Decidable (FreshWorker w) := by
  unfold FreshWorker
  cases h : w.assign with
  | sn a f p =>
    by_cases h1 : a = [] ∧ f = w.total ∧ p = []
    · exact isTrue (by rw [h1.1, h1.2.1, h1.2.2])
    · exact isFalse (fun e => by cases e; exact h1 ⟨rfl, rfl, rfl⟩)
  | mn a b c => exact isFalse (fun e => by cases e)

theorem newWorker_inv {s s' : State} {w : Worker} {o : Out} (hi : Inv s) (hw : FreshWorker w)
    (h : s.newWorker w = .ok (s', o)) : Inv s' := by
  simp only [State.newWorker] at h
  cases h
  show Inv4 s.tasks (s.workers ++ [w]) s.redirects s.rqs
  unfold FreshWorker at hw
  exact hi.workers (hi.ls.mv_new_worker (by simp [wAsg, hw]) (by simp [wPre, hw]) (by simp [wMn, hw]))

theorem isMultiNodeRq_append {rqs : List Rqv} {rq : Nat} (l : List Rqv) (h : isMultiNodeRq rqs rq = true) :
    isMultiNodeRq (rqs ++ l) rq = true := by
  unfold isMultiNodeRq at h ⊢
  cases hq : rqs[rq]? with
  | none => simp [hq] at h
  | some r =>
    have : rq < rqs.length := by
      rcases Nat.lt_or_ge rq rqs.length with h1 | h1
      · exact h1
      · rw [List.getElem?_eq_none h1] at hq; cases hq
    rw [List.getElem?_append_left this, hq]
    rw [hq] at h; exact h

theorem newRq_inv {s : State} (rqv : Rqv) (hi : Inv s) : Inv (s.newRq rqv) := by
  show Inv4 s.tasks s.workers s.redirects (s.rqs ++ [rqv])
  exact ⟨hi.nd, hi.ls, hi.cw, fun t task l hf hs => isMultiNodeRq_append _ (hi.mn t task l hf hs)⟩

end HqModel.Core
