import HqModel.Lemmas.Alloc2Tight
/-!
Two more facts about every reachable state of the allocator, needed by the full-strength C16 theorems:

* `PKeys`: the fraction maps of the pools have distinct keys (they are maps). Together with `PoolInv.vals` this bounds
  every value stored in a map — hence `group_amounts()` — below one unit (`gvals_of_inv`).
* `Static`: the static part of the state never changes — kinds / sizes / group counts of the pools (`SameKinds`),
  `static_info.all_resources` (`allFree`), the coupling weights — and what `ResourceAllocator::new` builds
  (`InitFacts`): fresh pools whose full size is the number of their indices, `allFree` = their concise state.
-/
namespace HqModel.Alloc

def GKeys (gs : List Group) : Prop := ∀ g ∈ gs, KeysNodup g.fracs

def PKeys (pools : List Pool) : Prop := ∀ p ∈ pools, GKeys p.groupsOf

theorem GKeys.set {gs : List Group} {p : Nat} {g' : Group} (h : GKeys gs) (hg' : KeysNodup g'.fracs) :
    GKeys (gs.set p g') := by
  intro g hg
  rcases List.mem_or_eq_of_mem_set hg with h1 | rfl
  · exact h g h1
  · exact hg'

theorem PKeys.set {pools : List Pool} {rid : Nat} {p' : Pool} (h : PKeys pools) (hp' : GKeys p'.groupsOf) :
    PKeys (pools.set rid p') := by
  intro p hp
  rcases List.mem_or_eq_of_mem_set hp with h1 | rfl
  · exact h p h1
  · exact hp'

theorem Prim.gkeys {gs acc gs' acc'} (p : Prim gs acc gs' acc') (h : GKeys gs) : GKeys gs' := by
  cases p with
  | @whole gid g i rest hg hfree =>
    exact h.set (g' := { g with free := rest }) (h g (List.mem_of_getElem? hg))
  | @frac gid g i f fr hg _ _ _ =>
    exact h.set (g' := { g with fracs := fset g.fracs i (f - fr) })
      (fset_keys_nodup (h g (List.mem_of_getElem? hg)) _ _)
  | @split gid g i rest fr hg _ _ _ =>
    exact h.set (g' := { free := rest, fracs := fset g.fracs i (FPU - fr) })
      (fset_keys_nodup (h g (List.mem_of_getElem? hg)) _ _)

theorem Claims.gkeys {gs acc gs' acc'} (c : Claims gs acc gs' acc') (h : GKeys gs) : GKeys gs' := by
  induction c with
  | refl => exact h
  | step p _ ih => exact ih (p.gkeys h)
  | perm _ _ ih => exact ih h

theorem Pool.claim_gkeys {p p' : Pool} {e : Entry} {pick : Option Nat} {ra : RAlloc}
    (h : p.claim e pick = .ok (p', ra)) (hk : GKeys p.groupsOf) : GKeys p'.groupsOf := by
  cases p with
  | empty => simp [Pool.claim] at h
  | indices full g =>
    simp only [Pool.claim] at h
    split at h
    · cases h
    · rename_i g1 acc1 h1
      split at h
      · cases h
      · rename_i g2 acc2 h2
        simp only [Except.ok.injEq, Prod.mk.injEq] at h
        obtain ⟨rfl, rfl⟩ := h
        obtain ⟨c1, -⟩ := takeIndices_claims (gs := [g]) h1 rfl
        have c2 := takeFracOrSplit_claims (gs := [g1]) h2 rfl (Nat.mod_lt _ FPU_pos)
        have c : Claims [g] [] [g2] acc2 := by
          simp only [List.set_cons_zero] at c1 c2
          exact c1.trans c2
        exact c.gkeys hk
  | groups full gs =>
    simp only [Pool.claim] at h
    split at h
    · cases h
    · cases h
    · cases h
    · cases h
    · split at h
      · cases h
      · rename_i gs' acc hc
        simp only [Except.ok.injEq, Prod.mk.injEq] at h
        obtain ⟨rfl, rfl⟩ := h
        exact (claimScatter_claims hc).gkeys hk
    · simp only [Except.ok.injEq, Prod.mk.injEq] at h
      obtain ⟨rfl, rfl⟩ := h
      have c := claimAllAux_claims [] gs []
      simp only [List.nil_append, List.length_nil] at c
      exact c.gkeys hk
  | sum full free =>
    simp only [Pool.claim] at h
    split at h
    · cases h
    · simp only [Except.ok.injEq, Prod.mk.injEq] at h
      obtain ⟨rfl, rfl⟩ := h
      intro g hg
      simp [Pool.groupsOf] at hg

theorem Pool.claimWithMask_gkeys {p p' : Pool} {e : Entry} {set : List Nat} {pick : Option Nat} {ra : RAlloc}
    (h : p.claimWithMask e set pick = .ok (p', ra)) (hk : GKeys p.groupsOf) : GKeys p'.groupsOf := by
  cases p with
  | groups full gs =>
    simp only [Pool.claimWithMask] at h
    split at h
    · split at h
      · cases h
      · rename_i gs' acc hc
        simp only [Except.ok.injEq, Prod.mk.injEq] at h
        obtain ⟨rfl, rfl⟩ := h
        exact (claimScatter_claims hc).gkeys hk
    · split at h
      · cases h
      · rename_i gs' acc hc
        simp only [Except.ok.injEq, Prod.mk.injEq] at h
        obtain ⟨rfl, rfl⟩ := h
        exact (claimScatter_claims hc).gkeys hk
    · split at h
      · cases h
      · rename_i gs' acc hc
        simp only [Except.ok.injEq, Prod.mk.injEq] at h
        obtain ⟨rfl, rfl⟩ := h
        exact (claimTight_claims hc).gkeys hk
    · split at h
      · cases h
      · rename_i gs' acc hc
        simp only [Except.ok.injEq, Prod.mk.injEq] at h
        obtain ⟨rfl, rfl⟩ := h
        exact (claimTight_claims hc).gkeys hk
    · cases h
    · cases h
  | empty => simp [Pool.claimWithMask] at h
  | indices _ _ => simp [Pool.claimWithMask] at h
  | sum _ _ => simp [Pool.claimWithMask] at h

theorem claimPlain_gkeys {picks : Choices} {pools pools' : List Pool} {rq : Request} {al al' : Allocation}
    (h : claimPlain picks pools rq al = .ok (pools', al')) (hk : PKeys pools) : PKeys pools' := by
  induction rq generalizing pools al with
  | nil =>
    simp only [claimPlain, Except.ok.injEq, Prod.mk.injEq] at h
    rw [← h.1]; exact hk
  | cons e es ih =>
    simp only [claimPlain] at h
    split at h
    · cases h
    · rename_i pool hp
      split at h
      · exact ih h hk
      · split at h
        · cases h
        · rename_i pool' ra hc
          exact ih h (hk.set (Pool.claim_gkeys hc (hk pool (List.mem_of_getElem? hp))))

theorem claimCoupled_gkeys {picks : Choices} {pools pools' : List Pool} {es : List Entry} {sets : List (List Nat)}
    {al al' : Allocation} (h : claimCoupled picks pools es sets al = .ok (pools', al')) (hk : PKeys pools) :
    PKeys pools' := by
  induction es generalizing pools al sets with
  | nil =>
    simp only [claimCoupled, Except.ok.injEq, Prod.mk.injEq] at h
    rw [← h.1]; exact hk
  | cons e es ih =>
    cases sets with
    | nil =>
      simp only [claimCoupled, Except.ok.injEq, Prod.mk.injEq] at h
      rw [← h.1]; exact hk
    | cons set sets =>
      simp only [claimCoupled] at h
      split at h
      · cases h
      · rename_i pool hp
        split at h
        · cases h
        · rename_i pool' ra hc
          exact ih h (hk.set (Pool.claimWithMask_gkeys hc (hk pool (List.mem_of_getElem? hp))))

theorem claimResources_gkeys {s : State} {rq : Request} {ch : Choices} {sols sols' : List (Option SolRec)}
    {pools' : List Pool} {al : Allocation} (h : claimResources s rq ch sols = .ok (pools', al, sols'))
    (hk : PKeys s.pools) : PKeys pools' := by
  unfold claimResources at h
  split at h
  · cases h
  · rename_i pools1 al1 h1
    have hk1 := claimPlain_gkeys h1 hk
    dsimp only at h
    by_cases hce : (coupledEntries s.pools rq).isEmpty = true
    · rw [if_pos hce] at h
      simp only [Except.ok.injEq, Prod.mk.injEq] at h
      rw [← h.1]; exact hk1
    · rw [if_neg hce] at h
      split at h
      · cases h
      · split at h
        · cases h
        · cases h
        · split at h
          · cases h
          · rename_i pools2 al2 h2
            simp only [Except.ok.injEq, Prod.mk.injEq] at h
            rw [← h.1]; exact claimCoupled_gkeys h2 hk1

/-! ### release -/

theorem ferase_keys_sublist (m : FMap) (i : Nat) : ((ferase m i).map Prod.fst).Sublist (m.map Prod.fst) := by
  induction m with
  | nil => exact List.Sublist.refl _
  | cons kv m ih =>
    obtain ⟨k, v⟩ := kv
    simp only [ferase]
    split
    · exact List.Sublist.cons _ ih
    · exact List.Sublist.cons_cons _ ih

theorem ferase_keys_nodup {m : FMap} (h : KeysNodup m) (i : Nat) : KeysNodup (ferase m i) :=
  List.Nodup.sublist (ferase_keys_sublist m i) h

theorem releaseIdx_gkeys {gs gs' : List Group} {e : AIdx} (h : releaseIdx gs e = .ok gs') (hk : GKeys gs) :
    GKeys gs' := by
  unfold releaseIdx at h
  split at h
  · cases h
  · rename_i g hg
    have hkg := hk g (List.mem_of_getElem? hg)
    split at h
    · simp only [Except.ok.injEq] at h
      subst h
      exact hk.set (g' := { g with free := e.index :: g.free }) hkg
    · split at h
      · cases h
      · split at h
        · simp only [Except.ok.injEq] at h
          subst h
          exact hk.set (g' := { free := e.index :: g.free, fracs := ferase g.fracs e.index })
            (ferase_keys_nodup hkg _)
        · simp only [Except.ok.injEq] at h
          subst h
          exact hk.set (g' := { g with fracs := fset g.fracs e.index _ }) (fset_keys_nodup hkg _ _)

theorem releaseList_gkeys {gs gs' : List Group} {l : List AIdx} (h : releaseList gs l = .ok gs') (hk : GKeys gs) :
    GKeys gs' := by
  induction l generalizing gs with
  | nil =>
    simp only [releaseList, Except.ok.injEq] at h
    rw [← h]; exact hk
  | cons e es ih =>
    simp only [releaseList] at h
    split at h
    · cases h
    · rename_i gs₁ h₁
      exact ih h (releaseIdx_gkeys h₁ hk)

theorem Pool.release_gkeys {p p' : Pool} {ra : RAlloc} (h : p.release ra = .ok p') (hk : GKeys p.groupsOf) :
    GKeys p'.groupsOf := by
  cases p with
  | empty => simp [Pool.release] at h
  | indices full g =>
    simp only [Pool.release] at h
    split at h
    · cases h
    · split at h
      · cases h
      · rename_i g' hr
        simp only [Except.ok.injEq] at h
        subst h
        exact releaseList_gkeys hr hk
      · cases h
  | groups full gs =>
    simp only [Pool.release] at h
    split at h
    · cases h
    · rename_i gs' hr
      simp only [Except.ok.injEq] at h
      subst h
      exact releaseList_gkeys hr hk
  | sum full free =>
    simp only [Pool.release] at h
    split at h
    · cases h
    · split at h
      · cases h
      · simp only [Except.ok.injEq] at h
        subst h
        intro g hg
        simp [Pool.groupsOf] at hg

theorem releasePools_gkeys {pools pools' : List Pool} {al : Allocation} (h : releasePools pools al = .ok pools')
    (hk : PKeys pools) : PKeys pools' := by
  induction al generalizing pools with
  | nil =>
    simp only [releasePools, Except.ok.injEq] at h
    rw [← h]; exact hk
  | cons ra ras ih =>
    simp only [releasePools] at h
    split at h
    · cases h
    · rename_i pool hp
      split at h
      · cases h
      · rename_i pool' hr
        exact ih h (hk.set (Pool.release_gkeys hr (hk pool (List.mem_of_getElem? hp))))

/-! ### the static part of the state -/

theorem SameKinds.trans {a b c : List Pool} (h1 : SameKinds a b) (h2 : SameKinds b c) : SameKinds a c := by
  refine ⟨h1.1.trans h2.1, fun rid p r hp hr => ?_⟩
  have hlt : rid < b.length := by rw [← h1.1]; exact lt_length_of_getElem? hp
  obtain ⟨q, hq⟩ := exists_get hlt
  obtain ⟨t1, f1, n1⟩ := h1.2 rid p q hp hq
  obtain ⟨t2, f2, n2⟩ := h2.2 rid q r hq hr
  exact ⟨by rw [t2, t1], by rw [f2, f1], by rw [n2, n1]⟩

/-- what never changes along a run (relative to the initial state `s₀`), plus `PKeys` -/
structure Static (s₀ s : State) : Prop where
  kinds : SameKinds s₀.pools s.pools
  allFree : s.allFree = s₀.allFree
  weights : s.weights = s₀.weights
  keys : PKeys s.pools

theorem tryAllocate_static {s s' : State} {h : Nat} {rq : Request} {ch : Choices} {r : Option Allocation}
    (hstep : tryAllocate s h rq ch = .ok (r, s')) :
    SameKinds s.pools s'.pools ∧ s'.allFree = s.allFree ∧ s'.weights = s.weights ∧
      (PKeys s.pools → PKeys s'.pools) := by
  unfold tryAllocate at hstep
  split at hstep
  · cases hstep
  · simp only [Except.ok.injEq, Prod.mk.injEq] at hstep
    obtain ⟨-, rfl⟩ := hstep
    exact ⟨SameKinds.refl _, rfl, rfl, fun h => h⟩
  · cases hstep
  · split at hstep
    · cases hstep
    · cases hstep
    · rename_i pools al hcl
      split at hstep
      · cases hstep
      · simp only [Except.ok.injEq, Prod.mk.injEq] at hstep
        obtain ⟨-, rfl⟩ := hstep
        exact ⟨(claimResources_exact hcl).2, rfl, rfl, fun hk => claimResources_gkeys hcl hk⟩

theorem isEnabled_static {s s' : State} {rq : Request} {ch : Choices} {b : Bool}
    (hstep : isEnabled s rq ch = .ok (b, s')) :
    s'.pools = s.pools ∧ s'.allFree = s.allFree ∧ s'.weights = s.weights := by
  unfold isEnabled at hstep
  split at hstep
  · cases hstep
  · simp only [Except.ok.injEq, Prod.mk.injEq] at hstep
    obtain ⟨-, rfl⟩ := hstep
    exact ⟨rfl, rfl, rfl⟩
  · cases hstep

theorem release_static {s s' : State} {h : Nat} (hr : release s h = some (.ok s')) :
    SameKinds s.pools s'.pools ∧ s'.allFree = s.allFree ∧ s'.weights = s.weights ∧
      (PKeys s.pools → PKeys s'.pools) := by
  unfold release at hr
  split at hr
  · cases hr
  · rename_i al hg
    simp only [Option.some.injEq] at hr
    split at hr
    · cases hr
    · split at hr
      · cases hr
      · rename_i concise _ pools hrel
        simp only [Except.ok.injEq] at hr
        subst hr
        obtain ⟨hl, hk⟩ := releasePools_kinds hrel
        refine ⟨⟨hl, fun rid p q hp hq => ?_⟩, rfl, rfl, fun hk' => releasePools_gkeys hrel hk'⟩
        obtain ⟨t, f, n, -⟩ := hk rid p q hp hq
        exact ⟨t, f, n⟩

theorem step_static {s₀ s s' : State} {op : Op} (hs : Static s₀ s) (hstep : step s op = some (.ok s')) :
    Static s₀ s' := by
  cases op with
  | enabled rq ch =>
    simp only [step, Option.some.injEq] at hstep
    cases hr : isEnabled s rq ch with
    | error e => simp [hr, Except.map] at hstep
    | ok v =>
      obtain ⟨b, s''⟩ := v
      simp only [hr, Except.map, Except.ok.injEq] at hstep
      subst hstep
      obtain ⟨h1, h2, h3⟩ := isEnabled_static hr
      exact ⟨by rw [h1]; exact hs.kinds, by rw [h2, hs.allFree], by rw [h3, hs.weights], by rw [h1]; exact hs.keys⟩
  | alloc h rq ch =>
    simp only [step, Option.some.injEq] at hstep
    cases hr : tryAllocate s h rq ch with
    | error e => simp [hr, Except.map] at hstep
    | ok v =>
      obtain ⟨r, s''⟩ := v
      simp only [hr, Except.map, Except.ok.injEq] at hstep
      subst hstep
      obtain ⟨h1, h2, h3, h4⟩ := tryAllocate_static hr
      exact ⟨hs.kinds.trans h1, by rw [h2, hs.allFree], by rw [h3, hs.weights], h4 hs.keys⟩
  | release h =>
    simp only [step] at hstep
    obtain ⟨h1, h2, h3, h4⟩ := release_static hstep
    exact ⟨hs.kinds.trans h1, by rw [h2, hs.allFree], by rw [h3, hs.weights], h4 hs.keys⟩

/-! ### what `ResourceAllocator::new` builds -/

/-- the full size of an index pool is the number of its (free) indices -/
def Pool.FullOk : Pool → Prop
  | .indices full g => full = g.free.length * FPU
  | .groups full gs => full = (gs.map (·.free.length)).sum * FPU
  | _ => True

theorem stackRange_length (a n : Nat) : (stackRange a n).length = n := by simp [stackRange]

theorem groupsFrom_total (off : Nat) (sizes : List Nat) :
    ((groupsFrom off sizes).map (·.free.length)).sum = sizes.sum := by
  induction sizes generalizing off with
  | nil => simp [groupsFrom]
  | cons n ns ih => simp [groupsFrom, stackRange_length, ih]

theorem Pool.new_fullOk (k : Kind) : (Pool.new k).FullOk := by
  cases k with
  | list n => simp [Pool.new, Pool.FullOk, stackRange_length]
  | range s e => simp [Pool.new, Pool.FullOk, stackRange_length]
  | groups sizes => simp [Pool.new, Pool.FullOk, groupsFrom_total]
  | sum size => simp [Pool.new, Pool.FullOk]

theorem placeItems_fullOk (ps : List Pool) (items : List (Nat × Kind)) (h : ∀ p ∈ ps, p.FullOk) :
    ∀ p ∈ placeItems ps items, p.FullOk := by
  induction items generalizing ps with
  | nil => simpa [placeItems] using h
  | cons it rest ih =>
    obtain ⟨rid, k⟩ := it
    simp only [placeItems]
    apply ih
    intro p hp
    rcases List.mem_or_eq_of_mem_set hp with hp | rfl
    · exact h p hp
    · exact Pool.new_fullOk k

structure InitFacts (s₀ : State) : Prop where
  fresh : ∀ p ∈ s₀.pools, p.Fresh
  full : ∀ p ∈ s₀.pools, p.FullOk
  live : s₀.live = []
  concise : s₀.concise = s₀.pools.map Pool.conciseState
  allFree : s₀.allFree = s₀.pools.map Pool.conciseState

theorem init_facts {d : Descriptor} {s₀ : State} (h : State.init d = some s₀) : InitFacts s₀ := by
  unfold State.init at h
  split at h
  · cases h
  · dsimp only at h
    split at h
    · cases h
    · simp only [Option.some.injEq] at h
      subst h
      refine ⟨?_, ?_, rfl, rfl, rfl⟩
      · apply placeItems_fresh
        intro p hp
        rw [List.eq_of_mem_replicate hp]
        exact Pool.empty_fresh
      · apply placeItems_fullOk
        intro p hp
        rw [List.eq_of_mem_replicate hp]
        trivial

theorem init_static {s₀ : State} (hf : InitFacts s₀) : Static s₀ s₀ := by
  refine ⟨SameKinds.refl _, rfl, rfl, ?_⟩
  intro p hp g hg
  rw [(hf.fresh p hp).1 g hg |>.1]
  simp [KeysNodup]

theorem reach_static {d : Descriptor} {s₀ s : State} (hinit : State.init d = some s₀) (hreach : Reach s₀ s) :
    Static s₀ s := by
  induction hreach with
  | init => exact init_static (init_facts hinit)
  | step op _ hstep ih => exact step_static ih hstep

/-- in a state with `Conserve` and distinct map keys, every value stored in a fraction map of a grouped pool is below
one unit -/
theorem gvals_of_inv {U} {s : State} (hinv : Inv U s) (hk : PKeys s.pools) {rid full : Nat} {gs : List Group}
    (hp : s.pools[rid]? = some (.groups full gs)) : GVals gs := by
  intro p g hg kv hkv
  have hpool := hinv.pools.pool rid _ hp
  have hnd : KeysNodup g.fracs := hk _ (List.mem_of_getElem? hp) g (by
    simp only [Pool.groupsOf]; exact List.mem_of_getElem? hg)
  have h1 := fget_of_mem hnd hkv
  have h2 := hpool.vals p g (by simpa [Pool.groupsOf] using hg) kv.1
  rw [fracOf_of_fget h1] at h2
  exact h2

end HqModel.Alloc
