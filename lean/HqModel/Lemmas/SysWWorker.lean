import HqModel.Lemmas.SysWDefs
import HqModel.Lemmas.WorkerBasic
/-!
The worker side (M2) of the composed invariant, for ONE task id `n`: what a step of the worker does to "the worker
holds `n`" (`Free` / `Back`) and which events about `n` it emits, in the four situations the pipeline invariant
distinguishes:

* `step_free`  — the worker does not hold `n` and the message does not carry `n`: nothing about `n` is emitted;
* `step_asg`   — … and the message carries `n` exactly once, as an assigned item with variant `rv`: the events about
  `n` are `[run rv]`, `[fail]` or `[rej (some rv)]` (then `n` is not held afterwards);
* `step_pre`   — … exactly once, as a prefill item;
* `step_back`  — `n` waits (exactly once) in a backlog: the events start with `run` / `fail`, or are exactly one
  `rej` / `resp` (then `n` is not held afterwards), or nothing.

No server contract and no well-formedness of the worker state is assumed (only that the key list of the backlog
has no duplicates, `bkeys_nodup`, an invariant of every run).
-/
namespace HqModel.SysW
open HqModel HqModel.Worker

/-! ### events -/

def EA (n : Nat) (a : Acc) : List Ev := a.upd.flatMap (evsW n)

def D (P : List Ev) : Prop := (∃ rv rest, P = .run rv :: rest) ∨ (∃ rest, P = .fail :: rest)

theorem D.append {P : List Ev} (h : D P) (X : List Ev) : D (P ++ X) := by
  rcases h with ⟨rv, rest, rfl⟩ | ⟨rest, rfl⟩
  · exact .inl ⟨rv, rest ++ X, rfl⟩
  · exact .inr ⟨rest ++ X, rfl⟩

/-- `n` waits in a backlog and nothing was said, or the events start with `run` / `fail`, or they are one reject and
`n` is not held any more -/
def PreTail (P : List Ev) (s : Worker.State) (n : Nat) : Prop :=
  (P = [] ∧ Back s n) ∨ D P ∨ (∃ o, P = [.rej o] ∧ Free s n)

theorem PreTail.preDone {P : List Ev} {s : Worker.State} {n : Nat} (h : PreTail P s n) : PreDone P s n := by
  rcases h with ⟨a, b⟩ | (⟨rv, rest, a⟩ | ⟨rest, a⟩) | ⟨o, a, b⟩
  · exact .inl ⟨a, .inl b⟩
  · exact .inr (.inl ⟨rv, rest, a⟩)
  · exact .inr (.inr (.inl ⟨rest, a⟩))
  · exact .inr (.inr (.inr (.inl ⟨o, a, b⟩)))

theorem EA_upd {n : Nat} {a a' : Acc} {us : List Update} (h : a'.upd = a.upd ++ us) :
    EA n a' = EA n a ++ us.flatMap (evsW n) := by
  simp [EA, h]

/-! ### what the worker holds -/

structure SameHold (n : Nat) (s s' : Worker.State) : Prop where
  run : isRun s' n ↔ isRun s n
  bl : ∀ rq, bcount s' n rq = bcount s n rq

theorem SameHold.refl (n : Nat) (s : Worker.State) : SameHold n s s := ⟨Iff.rfl, fun _ => rfl⟩
theorem SameHold.trans {n : Nat} {a b c : Worker.State} (h1 : SameHold n a b) (h2 : SameHold n b c) : SameHold n a c :=
  ⟨h2.run.trans h1.run, fun rq => (h2.bl rq).trans (h1.bl rq)⟩

theorem SameHold.free {n : Nat} {s s' : Worker.State} (h : SameHold n s s') (hf : Free s n) : Free s' n :=
  ⟨fun hr => hf.1 (h.run.mp hr), fun rq => by rw [h.bl]; exact hf.2 rq⟩

theorem SameHold.back {n : Nat} {s s' : Worker.State} (h : SameHold n s s') (hb : Back s n) : Back s' n := by
  obtain ⟨h1, rq0, h2, h3⟩ := hb
  exact ⟨fun hr => h1 (h.run.mp hr), rq0, by rw [h.bl]; exact h2, fun rq hrq => by rw [h.bl]; exact h3 rq hrq⟩

theorem SameHold.of_eq {n : Nat} {s s' : Worker.State} (hr : s'.running = s.running) (hb : s'.backlog = s.backlog) :
    SameHold n s s' :=
  ⟨by simp only [isRun, hr], fun rq => by simp only [bcount, hb]⟩

theorem bcount_setBacklog (s : Worker.State) (n rq : Nat) (l : List Task) (r : Nat) :
    bcount (setBacklog s rq l) n r = if r = rq then (l.filter fun x => x.id = n).length else bcount s n r := by
  simp only [bcount, setBacklog_backlog]
  split <;> rfl

theorem isRun_started (s : Worker.State) (x : Task) (rv h n : Nat) :
    isRun (started s x rv h) n ↔ isRun s n ∨ x.id = n := by
  simp only [isRun, started, List.mem_append, List.mem_singleton]
  constructor
  · rintro ⟨r, hr | hr, e⟩
    · exact .inl ⟨r, hr, e⟩
    · subst hr; exact .inr e
  · rintro (⟨r, hr, e⟩ | e)
    · exact ⟨r, .inl hr, e⟩
    · exact ⟨_, .inr rfl, e⟩

theorem not_free_of_mem {s : Worker.State} {n rq : Nat} {x : Task} (hx : x ∈ s.backlog rq) (hid : x.id = n) :
    ¬ Free s n := by
  intro hf
  have := hf.2 rq
  simp only [bcount, List.length_eq_zero_iff, List.filter_eq_nil_iff] at this
  exact this x hx (by simp [hid])

/-! ### `tryStart` -/

theorem tryStart_other {n : Nat} {a a' : Acc} {x : Task} {rv h : Nat} {p c : Bool} (hx : x.id ≠ n)
    (hs : tryStart a x rv p h = .ok (a', c)) :
    SameHold n a.s a'.s ∧ EA n a' = EA n a ∧ (c = false → a'.s = a.s) ∧ a'.s.bkeys = a.s.bkeys := by
  obtain ⟨_, hc⟩ := tryStart_cases hs
  rcases hc with ⟨h0, h1, _, h3⟩ | ⟨h0, h1, _, h3⟩ | ⟨h0, _, h1, _, h3⟩
  · refine ⟨by rw [h1]; exact SameHold.refl _ _, ?_, fun _ => h1, by rw [h1]⟩
    simp [EA, h3, evsW, hx]
  · refine ⟨by rw [h1]; exact SameHold.refl _ _, ?_, fun _ => h1, by rw [h1]⟩
    simp [EA, h3, evsW, hx]
  · refine ⟨?_, ?_, fun e => (by rw [h0] at e; cases e), by rw [h1]; rfl⟩
    · rw [h1]
      exact ⟨by rw [isRun_started]; simp [hx], fun _ => rfl⟩
    · cases p <;> simp [EA, h3, evsW, hx]

theorem tryStart_self {n : Nat} {a a' : Acc} {x : Task} {rv h : Nat} {p c : Bool} (hx : x.id = n)
    (hs : tryStart a x rv p h = .ok (a', c)) :
    (c = false ∧ a'.s = a.s ∧ (EA n a' = EA n a ++ [.rej (some rv)] ∨ EA n a' = EA n a ++ [.fail])) ∨
    (c = true ∧ EA n a' = EA n a ++ [.run rv]) := by
  obtain ⟨_, hc⟩ := tryStart_cases hs
  rcases hc with ⟨h0, h1, _, h3⟩ | ⟨h0, h1, _, h3⟩ | ⟨h0, _, h1, _, h3⟩
  · exact .inl ⟨h0, h1, .inl (by simp [EA, h3, evsW, hx])⟩
  · exact .inl ⟨h0, h1, .inr (by simp [EA, h3, evsW, hx])⟩
  · exact .inr ⟨h0, by cases p <;> simp [EA, h3, evsW, hx]⟩

theorem tryStart_grow {n : Nat} {a a' : Acc} {x : Task} {rv h : Nat} {p c : Bool}
    (hs : tryStart a x rv p h = .ok (a', c)) :
    (∃ X, EA n a' = EA n a ++ X) ∧ (∀ o ∈ a'.ev, o ∈ a.ev ∨ outMsg o = none) := by
  obtain ⟨_, hc⟩ := tryStart_cases hs
  rcases hc with ⟨_, _, h2, h3⟩ | ⟨_, _, h2, h3⟩ | ⟨_, _, _, h2, h3⟩
  · exact ⟨⟨_, EA_upd h3⟩, fun o ho => .inl (h2 ▸ ho)⟩
  · refine ⟨⟨_, EA_upd h3⟩, fun o ho => ?_⟩
    rw [h2] at ho
    rcases List.mem_append.mp ho with ho | ho
    · exact .inl ho
    · simp only [List.mem_singleton] at ho; subst ho; exact .inr rfl
  · refine ⟨⟨_, EA_upd h3⟩, fun o ho => ?_⟩
    rw [h2] at ho
    rcases List.mem_append.mp ho with ho | ho
    · exact .inl ho
    · simp only [List.mem_singleton] at ho; subst ho; exact .inr rfl

/-! ### `prefillLoop` -/

theorem prefillLoop_grow {n rq rv h : Nat} : ∀ (bl : List Task) {a a' : Acc} {c : Bool},
    prefillLoop rq rv h bl a = .ok (a', c) →
    (∃ X, EA n a' = EA n a ++ X) ∧ (∀ o ∈ a'.ev, o ∈ a.ev ∨ outMsg o = none) ∧ a'.s.bkeys = a.s.bkeys
  | [], a, a', c, hs => by
    simp only [prefillLoop] at hs
    cases hs
    refine ⟨⟨[], by simp [EA]⟩, fun o ho => ?_, rfl⟩
    rcases List.mem_append.mp ho with ho | ho
    · exact .inl ho
    · simp only [List.mem_singleton] at ho; subst ho; exact .inr rfl
  | x :: rest, a, a', c, hs => by
    simp only [prefillLoop] at hs
    split at hs
    · cases hs
    · rename_i a1 hts
      cases hs
      obtain ⟨g1, g2⟩ := tryStart_grow (n := n) hts
      obtain ⟨_, hc⟩ := tryStart_cases hts
      refine ⟨g1, g2, ?_⟩
      rcases hc with ⟨hc, _⟩ | ⟨hc, _⟩ | ⟨_, _, h1, _⟩
      · cases hc
      · cases hc
      · rw [h1]; rfl
    · rename_i a1 hts
      obtain ⟨⟨X, g1⟩, g2⟩ := tryStart_grow (n := n) hts
      obtain ⟨⟨Y, k1⟩, k2, k3⟩ := prefillLoop_grow (n := n) rest hs
      obtain ⟨_, hc⟩ := tryStart_cases hts
      refine ⟨⟨X ++ Y, by rw [k1, g1]; simp [EA]⟩, fun o ho => ?_, ?_⟩
      · rcases k2 o ho with h1 | h1
        · exact g2 o h1
        · exact .inr h1
      · rw [k3]
        rcases hc with ⟨_, h1, _⟩ | ⟨_, h1, _⟩ | ⟨hc, _⟩
        · rw [h1]; rfl
        · rw [h1]; rfl
        · cases hc

theorem sameHold_pop_other {n rq : Nat} {s : Worker.State} {x : Task} {rest : List Task}
    (hbl : s.backlog rq = x :: rest) (hx : x.id ≠ n) : SameHold n s (setBacklog s rq rest) := by
  refine ⟨Iff.rfl, fun r => ?_⟩
  rw [bcount_setBacklog]
  split
  · rename_i e; subst e
    simp [bcount, hbl, List.filter_cons, hx]
  · rfl

theorem prefillLoop_free {n rq rv h : Nat} : ∀ (bl : List Task) {a a' : Acc} {c : Bool},
    bl = a.s.backlog rq → Free a.s n → prefillLoop rq rv h bl a = .ok (a', c) →
    Free a'.s n ∧ EA n a' = EA n a
  | [], a, a', c, hbl, hf, hs => by
    simp only [prefillLoop] at hs
    cases hs
    refine ⟨?_, rfl⟩
    have : SameHold n a.s { setBacklog a.s rq [] with live := a.s.live.erase h } := by
      refine ⟨Iff.rfl, fun r => ?_⟩
      show bcount (setBacklog a.s rq []) n r = _
      rw [bcount_setBacklog]
      split
      · rename_i e; subst e; simp [bcount, ← hbl]
      · rfl
    exact this.free hf
  | x :: rest, a, a', c, hbl, hf, hs => by
    have hx : x.id ≠ n := fun e => not_free_of_mem (s := a.s) (rq := rq) (x := x) (by rw [← hbl]; simp) e hf
    have h0 : SameHold n a.s (setBacklog a.s rq rest) := sameHold_pop_other hbl.symm hx
    simp only [prefillLoop] at hs
    split at hs
    · cases hs
    · rename_i a1 hts
      cases hs
      obtain ⟨g1, g2, _, _⟩ := tryStart_other hx hts
      exact ⟨g1.free (h0.free hf), g2⟩
    · rename_i a1 hts
      obtain ⟨g1, g2, g3, _⟩ := tryStart_other hx hts
      have e1 : a1.s = setBacklog a.s rq rest := g3 rfl
      obtain ⟨k1, k2⟩ := prefillLoop_free rest (by rw [e1]; simp) (g1.free (h0.free hf)) hs
      exact ⟨k1, k2.trans g2⟩

theorem prefillLoop_back {n rq rv h : Nat} : ∀ (bl : List Task) {a a' : Acc} {c : Bool},
    bl = a.s.backlog rq → PreTail (EA n a) a.s n → prefillLoop rq rv h bl a = .ok (a', c) →
    PreTail (EA n a') a'.s n
  | [], a, a', c, hbl, ht, hs => by
    rcases ht with ⟨he, hb⟩ | hd | ⟨o, he, hf⟩
    · simp only [prefillLoop] at hs
      cases hs
      refine .inl ⟨he, ?_⟩
      have : SameHold n a.s { setBacklog a.s rq [] with live := a.s.live.erase h } := by
        refine ⟨Iff.rfl, fun r => ?_⟩
        show bcount (setBacklog a.s rq []) n r = _
        rw [bcount_setBacklog]
        split
        · rename_i e; subst e; simp [bcount, ← hbl]
        · rfl
      exact this.back hb
    · obtain ⟨⟨X, g⟩, _⟩ := prefillLoop_grow (n := n) [] hs
      exact .inr (.inl (g ▸ hd.append X))
    · obtain ⟨k1, k2⟩ := prefillLoop_free [] hbl hf hs
      exact .inr (.inr ⟨o, by rw [k2]; exact he, k1⟩)
  | x :: rest, a, a', c, hbl, ht, hs => by
    rcases ht with ⟨he, hb⟩ | hd | ⟨o, he, hf⟩
    · simp only [prefillLoop] at hs
      by_cases hx : x.id = n
      · -- the waiting copy of `n` is popped
        have hfree : Free (setBacklog a.s rq rest) n := by
          obtain ⟨h1, rq0, h2, h3⟩ := hb
          have hrq : rq = rq0 := by
            apply Classical.byContradiction
            intro hne
            have := h3 rq hne
            simp only [bcount, ← hbl, List.filter_cons, hx, decide_true, if_true, List.length_cons] at this
            omega
          subst hrq
          refine ⟨h1, fun r => ?_⟩
          rw [bcount_setBacklog]
          split
          · simp only [bcount, ← hbl, List.filter_cons, hx, decide_true, if_true, List.length_cons] at h2
            omega
          · rename_i hne; exact h3 r hne
        split at hs
        · cases hs
        · rename_i a1 hts
          cases hs
          rcases tryStart_self hx hts with ⟨hc, _⟩ | ⟨_, g⟩
          · cases hc
          · refine .inr (.inl (.inl ⟨rv, [], ?_⟩))
            rw [g]; show EA n a ++ _ = _; rw [he]; rfl
        · rename_i a1 hts
          rcases tryStart_self hx hts with ⟨_, g1, g2⟩ | ⟨hc, _⟩
          · have hEA : EA n { a with s := setBacklog a.s rq rest } = [] := he
            refine prefillLoop_back rest (by rw [g1]; simp) ?_ hs
            rcases g2 with g2 | g2
            · exact .inr (.inr ⟨some rv, by rw [g2, hEA]; rfl, by rw [g1]; exact hfree⟩)
            · exact .inr (.inl (.inr ⟨[], by rw [g2, hEA]; rfl⟩))
          · cases hc
      · have h0 : SameHold n a.s (setBacklog a.s rq rest) := sameHold_pop_other hbl.symm hx
        split at hs
        · cases hs
        · rename_i a1 hts
          cases hs
          obtain ⟨g1, g2, _, _⟩ := tryStart_other hx hts
          exact .inl ⟨by rw [g2]; exact he, g1.back (h0.back hb)⟩
        · rename_i a1 hts
          obtain ⟨g1, g2, g3, _⟩ := tryStart_other hx hts
          have e1 : a1.s = setBacklog a.s rq rest := g3 rfl
          exact prefillLoop_back rest (by rw [e1]; simp) (.inl ⟨by rw [g2]; exact he, g1.back (h0.back hb)⟩) hs
    · obtain ⟨⟨X, g⟩, _⟩ := prefillLoop_grow (n := n) (x :: rest) hs
      exact .inr (.inl (g ▸ hd.append X))
    · obtain ⟨k1, k2⟩ := prefillLoop_free (x :: rest) hbl hf hs
      exact .inr (.inr ⟨o, by rw [k2]; exact he, k1⟩)

/-! ### `computeEntry` -/

theorem sameHold_insertBlocked (n : Nat) (s : Worker.State) (k : Nat × Nat) : SameHold n s (insertBlocked s k) := by
  unfold insertBlocked
  split
  · exact SameHold.refl _ _
  · exact SameHold.of_eq rfl rfl

theorem bkeys_insertBlocked (s : Worker.State) (k : Nat × Nat) : (insertBlocked s k).bkeys = s.bkeys := by
  unfold insertBlocked
  split <;> rfl

theorem sameHold_push_other {n : Nat} (s : Worker.State) (x : Task) (bk : List Nat) (hx : x.id ≠ n) :
    SameHold n s { setBacklog s x.rq (x :: s.backlog x.rq) with bkeys := bk } := by
  refine ⟨Iff.rfl, fun r => ?_⟩
  show bcount (setBacklog s x.rq (x :: s.backlog x.rq)) n r = _
  rw [bcount_setBacklog]
  split
  · rename_i e; subst e; simp [bcount, List.filter_cons, hx]
  · rfl

theorem computeEntry_grow {n : Nat} {a a' : Acc} {e : Entry} (hs : computeEntry a e = .ok a') :
    (∃ X, EA n a' = EA n a ++ X) ∧ (∀ o ∈ a'.ev, o ∈ a.ev ∨ outMsg o = none) ∧
    (a'.s.bkeys = a.s.bkeys ∨ (e.task.rq ∉ a.s.bkeys ∧ a'.s.bkeys = e.task.rq :: a.s.bkeys)) := by
  unfold computeEntry at hs
  split at hs
  · cases hs
    refine ⟨⟨[], by simp [EA]⟩, fun o ho => .inl ho, ?_⟩
    by_cases hk : e.task.rq ∈ a.s.bkeys
    · left; simp [hk]
    · right; exact ⟨hk, by simp [hk]⟩
  · rename_i rv hrv
    split at hs
    · cases hs
    · split at hs
      · cases hs
        exact ⟨⟨_, EA_upd rfl⟩, fun o ho => .inl ho, .inl (bkeys_insertBlocked _ _)⟩
      · rename_i hh halloc
        split at hs
        · cases hs
        · split at hs
          · cases hs
          · rename_i a1 hts
            cases hs
            obtain ⟨g1, g2⟩ := tryStart_grow (n := n) hts
            obtain ⟨_, hc⟩ := tryStart_cases hts
            refine ⟨g1, g2, .inl ?_⟩
            rcases hc with ⟨hc, _⟩ | ⟨hc, _⟩ | ⟨_, _, h1, _⟩
            · cases hc
            · cases hc
            · rw [h1]; rfl
          · rename_i a1 hts
            split at hs
            · cases hs
            · rename_i a2 c2 hpl
              cases hs
              obtain ⟨⟨X, g1⟩, g2⟩ := tryStart_grow (n := n) hts
              obtain ⟨⟨Y, k1⟩, k2, k3⟩ := prefillLoop_grow (n := n) _ hpl
              obtain ⟨_, hc⟩ := tryStart_cases hts
              refine ⟨⟨X ++ Y, by rw [k1, g1]; simp [EA]⟩, fun o ho => ?_, .inl ?_⟩
              · rcases k2 o ho with h1 | h1
                · exact g2 o h1
                · exact .inr h1
              · rw [k3]
                rcases hc with ⟨_, h1, _⟩ | ⟨_, h1, _⟩ | ⟨hc, _⟩
                · rw [h1]
                · rw [h1]
                · cases hc

/-- an entry for another task: `n` stays not held, or stays in the `PreTail` situation -/
theorem computeEntry_other {n : Nat} {a a' : Acc} {e : Entry} (hx : e.task.id ≠ n) (hs : computeEntry a e = .ok a') :
    (Free a.s n → Free a'.s n ∧ EA n a' = EA n a) ∧ (PreTail (EA n a) a.s n → PreTail (EA n a') a'.s n) := by
  have hgrow := computeEntry_grow (n := n) hs
  -- the two `D` / reject cases of `PreTail` follow from the first claim and `grow`
  suffices hmain : (Free a.s n → Free a'.s n ∧ EA n a' = EA n a) ∧
      (EA n a = [] → Back a.s n → PreTail (EA n a') a'.s n) by
    refine ⟨hmain.1, fun ht => ?_⟩
    rcases ht with ⟨he, hb⟩ | hd | ⟨o, he, hf⟩
    · exact hmain.2 he hb
    · obtain ⟨⟨X, g⟩, _⟩ := hgrow
      exact .inr (.inl (g ▸ hd.append X))
    · obtain ⟨k1, k2⟩ := hmain.1 hf
      exact .inr (.inr ⟨o, by rw [k2]; exact he, k1⟩)
  unfold computeEntry at hs
  split at hs
  · cases hs
    have := sameHold_push_other (n := n) a.s e.task
      (if e.task.rq ∈ a.s.bkeys then a.s.bkeys else e.task.rq :: a.s.bkeys) hx
    exact ⟨fun hf => ⟨this.free hf, rfl⟩, fun he hb => .inl ⟨he, this.back hb⟩⟩
  · rename_i rv hrv
    split at hs
    · cases hs
    · split at hs
      · cases hs
        have := sameHold_insertBlocked n a.s (e.task.rq, rv)
        have hE : EA n { a with s := insertBlocked a.s (e.task.rq, rv), upd := a.upd ++ [.reject e.task.id (some rv)] } = EA n a := by
          simp [EA, evsW, hx]
        exact ⟨fun hf => ⟨this.free hf, hE⟩, fun he hb => .inl ⟨by rw [hE]; exact he, this.back hb⟩⟩
      · rename_i hh halloc
        split at hs
        · cases hs
        · have h0 : SameHold n a.s ({ a.s with live := hh :: a.s.live } : Worker.State) := SameHold.of_eq rfl rfl
          split at hs
          · cases hs
          · rename_i a1 hts
            cases hs
            obtain ⟨g1, g2, _, _⟩ := tryStart_other hx hts
            exact ⟨fun hf => ⟨g1.free (h0.free hf), g2⟩, fun he hb => .inl ⟨by rw [g2]; exact he, g1.back (h0.back hb)⟩⟩
          · rename_i a1 hts
            split at hs
            · cases hs
            · rename_i a2 c2 hpl
              cases hs
              obtain ⟨g1, g2, _, _⟩ := tryStart_other hx hts
              constructor
              · intro hf
                obtain ⟨k1, k2⟩ := prefillLoop_free _ rfl (g1.free (h0.free hf)) hpl
                exact ⟨k1, k2.trans g2⟩
              · intro he hb
                exact prefillLoop_back _ rfl (.inl ⟨by rw [g2]; exact he, g1.back (h0.back hb)⟩) hpl

/-- the entry for `n` itself, when `n` is not held -/
theorem computeEntry_self {n : Nat} {a a' : Acc} {e : Entry} (hx : e.task.id = n) (hf : Free a.s n)
    (hs : computeEntry a e = .ok a') :
    match e.rv with
    | none => Back a'.s n ∧ EA n a' = EA n a
    | some rv => (EA n a' = EA n a ++ [.rej (some rv)] ∧ Free a'.s n) ∨ EA n a' = EA n a ++ [.fail] ∨
        EA n a' = EA n a ++ [.run rv] := by
  unfold computeEntry at hs
  split at hs
  · rename_i hrv
    rw [hrv]
    cases hs
    refine ⟨⟨hf.1, e.task.rq, ?_, fun r hr => ?_⟩, rfl⟩
    · show bcount (setBacklog a.s e.task.rq (e.task :: a.s.backlog e.task.rq)) n e.task.rq = 1
      rw [bcount_setBacklog]
      have := hf.2 e.task.rq
      simp only [bcount] at this
      simp [List.filter_cons, hx, this]
    · show bcount (setBacklog a.s e.task.rq (e.task :: a.s.backlog e.task.rq)) n r = 0
      rw [bcount_setBacklog]
      simp only [hr, if_false]
      exact hf.2 r
  · rename_i rv hrv
    rw [hrv]
    split at hs
    · cases hs
    · split at hs
      · cases hs
        refine .inl ⟨by simp [EA, evsW, hx], (sameHold_insertBlocked n a.s _).free hf⟩
      · rename_i hh halloc
        split at hs
        · cases hs
        · have h0 : SameHold n a.s ({ a.s with live := hh :: a.s.live } : Worker.State) := SameHold.of_eq rfl rfl
          split at hs
          · cases hs
          · rename_i a1 hts
            cases hs
            rcases tryStart_self hx hts with ⟨hc, _⟩ | ⟨_, g⟩
            · cases hc
            · exact .inr (.inr g)
          · rename_i a1 hts
            split at hs
            · cases hs
            · rename_i a2 c2 hpl
              cases hs
              rcases tryStart_self hx hts with ⟨_, g1, g2⟩ | ⟨hc, _⟩
              · have hf1 : Free a1.s n := by rw [g1]; exact h0.free hf
                obtain ⟨k1, k2⟩ := prefillLoop_free _ rfl hf1 hpl
                rcases g2 with g2 | g2
                · exact .inl ⟨k2.trans g2, k1⟩
                · exact .inr (.inl (k2.trans g2))
              · cases hc

/-! ### `computeEntries` -/

/-- the items of a `ComputeTasks` message for `n` -/
def itemsW (n : Nat) (es : List Entry) : List (Option Nat) := (es.filter fun e => e.task.id = n).map (·.rv)

theorem itemsW_cons (n : Nat) (e : Entry) (es : List Entry) :
    itemsW n (e :: es) = if e.task.id = n then e.rv :: itemsW n es else itemsW n es := by
  simp only [itemsW, List.filter_cons]
  split <;> simp_all

theorem computeEntries_grow {n : Nat} : ∀ (es : List Entry) {a a' : Acc}, computeEntries es a = .ok a' →
    (∃ X, EA n a' = EA n a ++ X) ∧ (∀ o ∈ a'.ev, o ∈ a.ev ∨ outMsg o = none) ∧ (a.s.bkeys.Nodup → a'.s.bkeys.Nodup)
  | [], a, a', hs => by
    simp only [computeEntries] at hs; cases hs
    exact ⟨⟨[], by simp⟩, fun o ho => .inl ho, fun h => h⟩
  | e :: es, a, a', hs => by
    simp only [computeEntries] at hs
    split at hs
    · cases hs
    · rename_i a1 h1
      obtain ⟨⟨X, g1⟩, g2, g3⟩ := computeEntry_grow (n := n) h1
      obtain ⟨⟨Y, k1⟩, k2, k3⟩ := computeEntries_grow (n := n) es hs
      refine ⟨⟨X ++ Y, by rw [k1, g1]; simp⟩, fun o ho => ?_, fun hn => k3 ?_⟩
      · rcases k2 o ho with h | h
        · exact g2 o h
        · exact .inr h
      · rcases g3 with g | ⟨g, g'⟩
        · rw [g]; exact hn
        · rw [g']; exact List.nodup_cons.mpr ⟨g, hn⟩

theorem computeEntries_none {n : Nat} : ∀ (es : List Entry) {a a' : Acc}, itemsW n es = [] →
    computeEntries es a = .ok a' →
    (Free a.s n → Free a'.s n ∧ EA n a' = EA n a) ∧ (PreTail (EA n a) a.s n → PreTail (EA n a') a'.s n)
  | [], a, a', _, hs => by
    simp only [computeEntries] at hs; cases hs
    exact ⟨fun h => ⟨h, rfl⟩, fun h => h⟩
  | e :: es, a, a', hi, hs => by
    simp only [computeEntries] at hs
    rw [itemsW_cons] at hi
    split at hi
    · cases hi
    · rename_i hx
      split at hs
      · cases hs
      · rename_i a1 h1
        obtain ⟨g1, g2⟩ := computeEntry_other hx h1
        obtain ⟨k1, k2⟩ := computeEntries_none es hi hs
        refine ⟨fun hf => ?_, fun ht => k2 (g2 ht)⟩
        obtain ⟨p1, p2⟩ := g1 hf
        obtain ⟨q1, q2⟩ := k1 p1
        exact ⟨q1, q2.trans p2⟩

/-- exactly one item for `n`, and `n` not held before: the two delivery lemmas -/
theorem computeEntries_one {n : Nat} : ∀ (es : List Entry) {a a' : Acc} (orv : Option Nat), itemsW n es = [orv] →
    Free a.s n → EA n a = [] → computeEntries es a = .ok a' →
    match orv with
    | none => PreTail (EA n a') a'.s n
    | some rv => D (EA n a') ∨ (EA n a' = [.rej (some rv)] ∧ Free a'.s n)
  | [], a, a', orv, hi, _, _, _ => by cases hi
  | e :: es, a, a', orv, hi, hf, he, hs => by
    simp only [computeEntries] at hs
    rw [itemsW_cons] at hi
    split at hs
    · cases hs
    · rename_i a1 h1
      split at hi
      · rename_i hx
        simp only [List.cons.injEq] at hi
        obtain ⟨hrv, hrest⟩ := hi
        have hself := computeEntry_self hx hf h1
        obtain ⟨k1, k2⟩ := computeEntries_none es hrest hs
        obtain ⟨⟨Y, hY⟩, _⟩ := computeEntries_grow (n := n) es hs
        rw [hrv] at hself
        cases orv with
        | none =>
          simp only at hself ⊢
          exact k2 (.inl ⟨by rw [hself.2]; exact he, hself.1⟩)
        | some rv =>
          simp only at hself ⊢
          rcases hself with ⟨g1, g2⟩ | g | g
          · obtain ⟨q1, q2⟩ := k1 g2
            exact .inr ⟨by rw [q2, g1, he]; rfl, q1⟩
          · exact .inl (hY ▸ (D.append (.inr ⟨[], by rw [g, he]; rfl⟩) Y))
          · exact .inl (hY ▸ (D.append (.inl ⟨rv, [], by rw [g, he]; rfl⟩) Y))
      · rename_i hx
        obtain ⟨g1, _⟩ := computeEntry_other hx h1
        obtain ⟨p1, p2⟩ := g1 hf
        exact computeEntries_one es orv hi p1 (by rw [p2]; exact he) hs

/-! ### whole steps -/

theorem ok_pair {α β ε : Type} {x : α × β} {a : α} {b : β} (h : (Except.ok x : Except ε (α × β)) = .ok (a, b)) :
    a = x.1 ∧ b = x.2 := by
  cases h; exact ⟨rfl, rfl⟩

theorem evsOut_none {n : Nat} {o : Worker.Out} (h : outMsg o = none) : evsOut n o = [] := by
  cases o <;> simp_all [outMsg, evsOut]

theorem evsOuts_finish (n : Nat) (a : Acc) (hev : ∀ o ∈ a.ev, outMsg o = none) :
    evsOuts n (finish a).2 = EA n a := by
  simp only [finish, evsOuts, List.flatMap_append]
  have h1 : a.ev.flatMap (evsOut n) = [] := by
    rw [List.flatMap_eq_nil_iff]
    exact fun o ho => evsOut_none (hev o ho)
  rw [h1, List.nil_append]
  split
  · rename_i hu; simp [EA, hu]
  · simp [evsOut, EA]

/-- the message carries no item for `n` -/
def NoItem (n : Nat) : Worker.Op → Prop
  | .compute es => itemsW n es = []
  | _ => True

theorem retract_hold (n : Nat) (s : Worker.State) (ids : List Nat) :
    (n ∉ ids → SameHold n s (retract s ids).1) ∧
    (n ∈ ids → ¬ isRun s n → Free (retract s ids).1 n) := by
  constructor
  · intro hn
    refine ⟨Iff.rfl, fun rq => ?_⟩
    simp only [bcount, retract, List.filter_filter]
    congr 1
    apply List.filter_congr
    intro x _
    by_cases hx : x.id = n
    · simp [hx, hn]
    · simp [hx]
  · intro hn hr
    refine ⟨hr, fun rq => ?_⟩
    simp only [bcount, retract, List.filter_filter, List.length_eq_zero_iff, List.filter_eq_nil_iff]
    intro x _
    by_cases hx : x.id = n
    · simp [hx, hn]
    · simp [hx]

theorem cancelOne_hold (n : Nat) (a : Worker.State × List Worker.Out) (t : Nat) :
    (∀ o ∈ (cancelOne a t).2, o ∈ a.2 ∨ outMsg o = none) ∧
    (Free a.1 n → Free (cancelOne a t).1 n) ∧
    (Back a.1 n → Back (cancelOne a t).1 n ∨ Free (cancelOne a t).1 n) := by
  obtain ⟨s, outs⟩ := a
  simp only [cancelOne]
  split
  · rename_i hnone
    refine ⟨fun o ho => .inl ho, ?_, ?_⟩
    · intro hf
      refine ⟨hf.1, fun rq => ?_⟩
      have h0 := hf.2 rq
      simp only [bcount, List.length_eq_zero_iff, List.filter_eq_nil_iff] at h0 ⊢
      intro x hx
      exact h0 x (List.mem_filter.mp hx).1
    · intro hb
      by_cases ht : t = n
      · right
        refine ⟨hb.1, fun rq => ?_⟩
        simp only [bcount, List.filter_filter, List.length_eq_zero_iff, List.filter_eq_nil_iff]
        intro x _
        by_cases hx : x.id = n
        · simp [hx, ht]
        · simp [hx]
      · left
        have : SameHold n s { s with backlog := fun rq => (s.backlog rq).filter (fun x => x.id ≠ t) } := by
          refine ⟨Iff.rfl, fun rq => ?_⟩
          simp only [bcount, List.filter_filter]
          congr 1
          apply List.filter_congr
          intro x _
          by_cases hx : x.id = n
          · simp [hx, Ne.symm ht]
          · simp [hx]
        exact this.back hb
  · rename_i r hr
    split
    · exact ⟨fun o ho => .inl ho, fun h => h, fun h => .inl h⟩
    · have : SameHold n s { s with running := s.running.map fun x => if x.task.id = t then { x with stopSent := true } else x } := by
        refine ⟨?_, fun _ => rfl⟩
        simp only [isRun, List.mem_map]
        constructor
        · rintro ⟨r', ⟨x, hx, rfl⟩, e⟩
          refine ⟨x, hx, ?_⟩
          split at e <;> exact e
        · rintro ⟨x, hx, e⟩
          refine ⟨_, ⟨x, hx, rfl⟩, ?_⟩
          split <;> exact e
      refine ⟨fun o ho => ?_, this.free, fun h => .inl (this.back h)⟩
      rcases List.mem_append.mp ho with ho | ho
      · exact .inl ho
      · simp only [List.mem_singleton] at ho; subst ho; exact .inr rfl

theorem cancel_hold (n : Nat) : ∀ (ids : List Nat) (a : Worker.State × List Worker.Out),
    (∀ o ∈ (ids.foldl cancelOne a).2, o ∈ a.2 ∨ outMsg o = none) ∧
    (Free a.1 n → Free (ids.foldl cancelOne a).1 n) ∧
    (Back a.1 n → Back (ids.foldl cancelOne a).1 n ∨ Free (ids.foldl cancelOne a).1 n)
  | [], a => ⟨fun o ho => .inl ho, fun h => h, fun h => .inl h⟩
  | t :: rest, a => by
    simp only [List.foldl_cons]
    obtain ⟨g1, g2, g3⟩ := cancelOne_hold n a t
    obtain ⟨k1, k2, k3⟩ := cancel_hold n rest (cancelOne a t)
    refine ⟨fun o ho => ?_, fun h => k2 (g2 h), fun h => ?_⟩
    · rcases k1 o ho with h | h
      · exact g1 o h
      · exact .inr h
    · rcases g3 h with h | h
      · exact k3 h
      · exact .inr (k2 h)

theorem evsOuts_of_none {n : Nat} {outs : List Worker.Out} (h : ∀ o ∈ outs, outMsg o = none) : evsOuts n outs = [] := by
  simp only [evsOuts, List.flatMap_eq_nil_iff]
  exact fun o ho => evsOut_none (h o ho)

/-- the rejects of `retract_check_process` -/
theorem retractCheckLoop_spec {n : Nat} (s : Worker.State) (rem : Nat) : ∀ (order : List Nat) (acc acc' : RcAcc),
    retractCheckLoop s rem order acc = .ok acc' →
    ∃ rm, acc'.toRemove = acc.toRemove ++ rm ∧ rm.Sublist order ∧
      acc'.upd.flatMap (evsW n) = acc.upd.flatMap (evsW n) ++
        rm.flatMap (fun rq => ((s.backlog rq).reverse.map fun t => Update.reject t.id none).flatMap (evsW n))
  | [], acc, acc', hs => by
    simp only [retractCheckLoop] at hs; cases hs
    exact ⟨[], by simp, List.Sublist.refl _, by simp⟩
  | rq :: rest, acc, acc', hs => by
    simp only [retractCheckLoop] at hs
    split at hs
    · cases hs
    · split at hs
      · obtain ⟨rm, h1, h2, h3⟩ := retractCheckLoop_spec s rem rest _ _ hs
        refine ⟨rq :: rm, by rw [h1]; simp, h2.cons_cons _, ?_⟩
        rw [h3]; simp
      · obtain ⟨rm, h1, h2, h3⟩ := retractCheckLoop_spec s rem rest _ _ hs
        exact ⟨rm, h1, h2.cons _, h3⟩

theorem rejects_of_bcount (n : Nat) (s : Worker.State) (rq : Nat) :
    ((s.backlog rq).reverse.map fun t => Update.reject t.id none).flatMap (evsW n) =
      List.replicate (bcount s n rq) (.rej none) := by
  simp only [bcount]
  generalize s.backlog rq = l
  induction l with
  | nil => rfl
  | cons x xs ih =>
    simp only [List.reverse_cons, List.map_append, List.flatMap_append, ih, List.map_cons, List.map_nil,
      List.flatMap_cons, List.flatMap_nil, List.append_nil, List.filter_cons]
    by_cases hx : x.id = n
    · simp only [evsW, hx, if_true, decide_true, List.length_cons]
      rw [← List.replicate_succ']
    · simp [evsW, hx]

/-- **not held, no item** — nothing about `n` happens -/
theorem step_free {n : Nat} {s s' : Worker.State} {op : Worker.Op} {outs : List Worker.Out} (hf : Free s n)
    (hno : NoItem n op) (hs : Worker.step s op = .ok (s', outs)) : Free s' n ∧ evsOuts n outs = [] := by
  cases op with
  | compute es =>
    simp only [Worker.step, compute] at hs
    split at hs
    · cases hs
    · rename_i a ha
      cases hs
      obtain ⟨g1, _⟩ := computeEntries_none es hno ha
      obtain ⟨_, g2, _⟩ := computeEntries_grow (n := n) es ha
      obtain ⟨p1, p2⟩ := g1 hf
      refine ⟨p1, ?_⟩
      change evsOuts n (finish a).2 = []
      rw [evsOuts_finish n a (fun o ho => by rcases g2 o ho with h | h; cases h; exact h)]
      rw [p2]; rfl
  | retract ids =>
    simp only [Worker.step] at hs
    cases hs
    have hh := retract_hold n s ids
    constructor
    · by_cases hn : n ∈ ids
      · exact hh.2 hn hf.1
      · exact (hh.1 hn).free hf
    · simp only [retract, evsOuts]
      split
      · rfl
      · simp only [List.flatMap_cons, List.flatMap_nil, List.append_nil, evsOut]
        rw [if_neg]
        simp only [List.mem_flatMap, List.mem_map, List.mem_filter, not_exists, not_and]
        intro rq _ x hx hid
        exact not_free_of_mem hx.1 hid hf
  | cancel ids =>
    simp only [Worker.step, Except.ok.injEq] at hs
    obtain ⟨g1, g2, _⟩ := cancel_hold n ids (s, [])
    have e1 : s' = (ids.foldl cancelOne (s, [])).1 := (congrArg Prod.fst hs).symm
    have e2 : outs = (ids.foldl cancelOne (s, [])).2 := (congrArg Prod.snd hs).symm
    rw [e1, e2]
    exact ⟨g2 hf, evsOuts_of_none fun o ho => by rcases g1 o ho with h | h; cases h; exact h⟩
  | taskEnd t res en =>
    simp only [Worker.step, taskEnd] at hs
    split at hs
    · cases hs
    · rename_i r hr
      have hrt : r.task.id = t := by simpa using List.find?_some hr
      have htn : t ≠ n := fun e => hf.1 ⟨r, List.mem_of_find?_eq_some hr, hrt.trans e⟩
      split at hs
      · cases hs
      · rename_i a used hpl
        have h0 : Free ({ s with running := s.running.filter (fun x => x.task.id != t) } : Worker.State) n := by
          refine ⟨?_, hf.2⟩
          rintro ⟨x, hx, e⟩
          exact hf.1 ⟨x, (List.mem_filter.mp hx).1, e⟩
        obtain ⟨p1, p2⟩ := prefillLoop_free (n := n)
          (a := { s := { s with running := s.running.filter (fun x => x.task.id != t) }, upd := resultUpdates t res })
          _ rfl h0 hpl
        obtain ⟨_, g2, _⟩ := prefillLoop_grow (n := n) _ hpl
        have hE0 : EA n a = [] := by
          rw [p2]
          cases res <;> simp [EA, resultUpdates, evsW, htn]
        have hev : ∀ o ∈ a.ev, outMsg o = none := fun o ho => by rcases g2 o ho with h | h; cases h; exact h
        split at hs
        · split at hs
          · obtain ⟨e1, e2⟩ := ok_pair hs
            rw [e1, e2]
            refine ⟨⟨p1.1, p1.2⟩, ?_⟩
            refine (evsOuts_finish n _ ?_).trans ?_
            · exact hev
            simp only [EA, List.flatMap_append]
            rw [show a.upd.flatMap (evsW n) = [] from hE0]
            simp only [List.nil_append, List.flatMap_eq_nil_iff, List.mem_map]
            rintro u ⟨k, _, rfl⟩
            rfl
          · cases hs
        · obtain ⟨e1, e2⟩ := ok_pair hs
          rw [e1, e2]
          exact ⟨p1, by rw [evsOuts_finish n a hev]; exact hE0⟩
  | timeoutFire t =>
    simp only [Worker.step, timeoutFire] at hs
    split at hs
    · cases hs
    · split at hs
      · cases hs
      · cases hs
        constructor
        · refine ⟨?_, hf.2⟩
          rintro ⟨x, hx, e⟩
          simp only [List.mem_map] at hx
          obtain ⟨y, hy, rfl⟩ := hx
          exact hf.1 ⟨y, hy, by split at e <;> exact e⟩
        · apply evsOuts_of_none
          intro o ho
          split at ho
          · cases ho
          · simp only [List.mem_singleton] at ho; subst ho; rfl
  | retractCheck order =>
    simp only [Worker.step, retractCheck] at hs
    split at hs
    · cases hs; exact ⟨hf, rfl⟩
    · split at hs
      · cases hs; exact ⟨hf, rfl⟩
      · split at hs
        · split at hs
          · cases hs
          · rename_i acc hacc
            obtain ⟨rm, h1, _, h3⟩ := retractCheckLoop_spec (n := n) s _ order {} acc hacc
            split at hs
            · cases hs; exact ⟨hf, rfl⟩
            · cases hs
              constructor
              · refine ⟨hf.1, fun rq => ?_⟩
                simp only [bcount]
                split
                · rfl
                · exact hf.2 rq
              · simp only [evsOuts, List.flatMap_cons, List.flatMap_nil, List.append_nil, evsOut]
                rw [h3]
                simp only [List.flatMap_nil, List.nil_append]
                exact List.flatMap_eq_nil_iff.mpr fun rq _ => by rw [rejects_of_bcount, hf.2 rq]; rfl
        · cases hs
  | newRq id mts =>
    simp only [Worker.step, newRq] at hs
    split at hs
    · cases hs; exact ⟨⟨hf.1, hf.2⟩, rfl⟩
    · cases hs
  | stop =>
    simp only [Worker.step] at hs
    cases hs
    exact ⟨hf, rfl⟩

end HqModel.SysW
