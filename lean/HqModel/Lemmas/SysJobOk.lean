import HqModel.Lemmas.SysJobReq
/-!
The client requests of the job layer do not panic in a well-formed state (`open`, `forget`; `cancel` is
`cancelJob_ok`, `close` cannot panic by construction; `submit`: `submit_ok`, under the client-side condition
`SubmitOk`: one entry per id and no id twice in an array).
-/
namespace HqModel.Sys
open HqModel HqModel.Job

theorem getJob_ctr_none {js : Job.State} (hwf : StateWF js) : js.getJob js.jobCtr = none := by
  apply findJob_none_of_not_mem
  intro hm
  obtain ⟨x, hx, he⟩ := List.mem_map.mp hm
  have := hwf.below x hx
  omega

theorem openJob_ok {js : Job.State} (hwf : StateWF js) (mf : Option Nat) : ∃ r, js.openJob mf = .ok r := by
  simp only [Job.State.openJob, getJob_ctr_none hwf]
  exact ⟨_, rfl⟩

theorem status_ok {job : Job} (hw : JobWF job) : ∃ st, job.status = .ok st := by
  have hs := countS_sum_le job.tasks
  simp only [Job.status]
  split
  · exact ⟨_, rfl⟩
  · split
    · exact ⟨_, rfl⟩
    · split
      · exact ⟨_, rfl⟩
      · split
        · exact ⟨_, rfl⟩
        · split
          · exact ⟨_, rfl⟩
          · rename_i h1 h2 h3 h4 h5
            split
            · rename_i h6
              exfalso
              simp only [Job.nWaiting, Counters.sum, Job.nTasks, hw.running, hw.finished, hw.failed, hw.canceled,
                hw.aborted, gt_iff_lt, Nat.not_lt, Nat.le_zero_eq, bne_iff_ne, ne_eq] at h1 h2 h3 h4 h5 h6
              omega
            · exact ⟨_, rfl⟩

theorem forgetJob_ok {js : Job.State} (hwf : StateWF js) (j : Nat) (allowed : List Status) :
    ∃ r, js.forgetJob j allowed = .ok r := by
  simp only [Job.State.forgetJob]
  split
  · exact ⟨_, rfl⟩
  · rename_i job hj
    split
    · exact ⟨_, rfl⟩
    · obtain ⟨st, hst⟩ := status_ok (getJob_wf hwf hj)
      rw [hst]
      simp only
      split <;> exact ⟨_, rfl⟩

/-! ### `handle_submit` does not panic -/

/-- what the `hq` client guarantees about a submit: one entry per id, and no id twice in an array (the command-line
parser refuses overlapping ranges; `validate_submit` checks uniqueness for graphs only — an array with a repeated id
makes `attach_submit` panic, see notes/job_journal.md) -/
def SubmitOk (d : TaskDesc) : Prop :=
  SubmitCover d ∧
  match d with
  | .array ids _ => ids.iter.Nodup
  | .graph _ => True

instance (d : TaskDesc) : Decidable (SubmitOk d) := by
  unfold SubmitOk
  cases d <;> infer_instance

theorem attach_ok : ∀ (ids : List Nat) (job : Job), ids.Nodup → (∀ x ∈ ids, lookup job.tasks x = none) →
    ∃ job', job.attach ids = .ok job' := by
  intro ids
  induction ids with
  | nil => intro job _ _; exact ⟨job, rfl⟩
  | cons t rest ih =>
    intro job hnd hno
    simp only [List.nodup_cons] at hnd
    simp only [Job.attach, hno t (by simp)]
    apply ih _ hnd.2
    intro x hx
    simp only [lookup_append_one, hno x (by simp [hx])]
    have : x ≠ t := fun e => hnd.1 (e ▸ hx)
    simp [this]

theorem firstSome_none {α β : Type} {f : α → Option β} : ∀ {l : List α}, firstSome f l = none → ∀ x ∈ l, f x = none := by
  intro l
  induction l with
  | nil => intro _ x hx; cases hx
  | cons a as ih =>
    intro h x hx
    simp only [firstSome] at h
    cases hf : f a with
    | some y => rw [hf] at h; cases h
    | none =>
      rw [hf] at h
      rcases List.mem_cons.mp hx with e | e
      · subst e; exact hf
      · exact ih h x e

theorem validateGraph_nodup (job : Option Job) : ∀ (ts : List (Nat × List Nat)) (seen : List Nat),
    validateGraph job ts seen = none → (ts.map (·.1)).Nodup ∧ ∀ t ∈ ts.map (·.1), t ∉ seen := by
  intro ts
  induction ts with
  | nil => intro seen _; exact ⟨List.nodup_nil, fun _ h => nomatch h⟩
  | cons p rest ih =>
    intro seen h
    obtain ⟨t, deps⟩ := p
    simp only [validateGraph] at h
    split at h
    · cases h
    · rename_i hns
      split at h
      · cases h
      · obtain ⟨a, b⟩ := ih _ h
        have hts : t ∉ seen := by simpa using hns
        refine ⟨List.nodup_cons.mpr ⟨fun hm => (b t hm) (by simp), a⟩, ?_⟩
        intro x hx
        rcases List.mem_cons.mp hx with e | e
        · simp only at e; subst e; exact hts
        · exact fun hm => b x e (List.mem_cons_of_mem _ hm)

theorem maxId_fold (l : List (Nat × TState)) (acc : Option Nat) :
    (∀ a, acc = some a → ∃ m, l.foldl (fun acc p => match acc with | none => some p.1 | some m => some (max m p.1)) acc = some m ∧ a ≤ m) ∧
    ∀ p ∈ l, ∃ m, l.foldl (fun acc p => match acc with | none => some p.1 | some m => some (max m p.1)) acc = some m ∧ p.1 ≤ m := by
  induction l generalizing acc with
  | nil => exact ⟨fun a h => ⟨a, h, Nat.le_refl _⟩, fun _ h => nomatch h⟩
  | cons q rest ih =>
    simp only [List.foldl_cons]
    constructor
    · intro a ha
      subst ha
      obtain ⟨m, hm, hle⟩ := (ih (some (max a q.1))).1 _ rfl
      exact ⟨m, hm, by omega⟩
    · intro p hp
      rcases List.mem_cons.mp hp with e | e
      · subst e
        cases acc with
        | none =>
          obtain ⟨m, hm, hle⟩ := (ih (some p.1)).1 _ rfl
          exact ⟨m, hm, hle⟩
        | some a =>
          obtain ⟨m, hm, hle⟩ := (ih (some (max a p.1))).1 _ rfl
          exact ⟨m, hm, by omega⟩
      · exact (ih _).2 p e

/-- ids above `max_id` are new -/
theorem lookup_above_maxId {job : Job} {x : Nat}
    (h : x ≥ (match job.maxId with | some m => m + 1 | none => 0)) : lookup job.tasks x = none := by
  cases hl : lookup job.tasks x with
  | none => rfl
  | some st =>
    exfalso
    obtain ⟨m, hm, hle⟩ := (maxId_fold job.tasks none).2 (x, st) (lookup_mem hl)
    have : job.maxId = some m := hm
    rw [this] at h
    simp only at h hle
    omega

theorem submit_ok {js : Job.State} (hwf : StateWF js) (jobId mf : Option Nat) {desc : TaskDesc} (hok : SubmitOk desc) :
    ∃ r, js.submit jobId mf desc = .ok r := by
  simp only [Job.State.submit]
  split
  · exact ⟨_, rfl⟩
  · rename_i hval
    split
    · rename_i j
      split
      · exact ⟨_, rfl⟩
      · rename_i job hj
        split
        · exact ⟨_, rfl⟩
        · split
          · exact ⟨_, rfl⟩
          · have hat : ∃ job', job.attach (fillIdsOpen job desc).jobIds = .ok job' := by
              have hval' : validateSubmit (some job) desc = none := by
                simpa [Option.bind, hj] using hval
              cases desc with
              | array ids en =>
                simp only [validateSubmit] at hval'
                have hfs : firstSome (fun t => if (lookup job.tasks t).isSome then some t else none) ids.iter = none := by
                  cases hf : firstSome (fun t => if (lookup job.tasks t).isSome then some t else none) ids.iter with
                  | none => rfl
                  | some v => rw [hf] at hval'; cases hval'
                have habs : ∀ x ∈ ids.iter, lookup job.tasks x = none := by
                  intro x hx
                  have := firstSome_none hfs x hx
                  cases hl : lookup job.tasks x with
                  | none => rfl
                  | some v => simp [hl] at this
                simp only [fillIdsOpen]
                split
                · cases en with
                  | some n =>
                    simp only [TaskDesc.jobIds, fromRange_iter]
                    apply attach_ok _ _ (List.nodup_range')
                    intro x hx
                    apply lookup_above_maxId
                    have := (List.mem_range'_1.mp hx).1
                    exact this
                  | none =>
                    simp only [TaskDesc.jobIds, fromId_iter]
                    apply attach_ok _ _ (by simp)
                    intro x hx
                    apply lookup_above_maxId
                    simp only [List.mem_singleton] at hx
                    rw [hx]; exact Nat.le_refl _
                · exact attach_ok _ _ hok.2 habs
              | graph ts =>
                simp only [validateSubmit] at hval'
                split at hval'
                · cases hval'
                · rename_i hfs
                  have hfs' : firstSome (fun (p : Nat × List Nat) => if (lookup job.tasks p.1).isSome then some p.1 else none) ts = none := by
                    simpa using hfs
                  obtain ⟨hnd, _⟩ := validateGraph_nodup _ _ _ hval'
                  simp only [fillIdsOpen, TaskDesc.jobIds]
                  apply attach_ok _ _ hnd
                  intro x hx
                  obtain ⟨p, hp, rfl⟩ := List.mem_map.mp hx
                  have := firstSome_none hfs' p hp
                  cases hl : lookup job.tasks p.1 with
                  | none => rfl
                  | some v => simp [hl] at this
            obtain ⟨job', ha⟩ := hat
            rw [ha]; exact ⟨_, rfl⟩
    · simp only [getJob_ctr_none hwf]
      have hat : ∃ job', Job.attach { id := js.jobCtr, isOpen := false, maxFails := mf } (fillIdsNew desc).jobIds = .ok job' := by
        have hval' : validateSubmit none desc = none := by simpa [Option.bind] using hval
        cases desc with
        | array ids en =>
          simp only [fillIdsNew]
          split
          · cases en with
            | some n =>
              simp only [TaskDesc.jobIds, fromRange_iter]
              exact attach_ok _ _ (List.nodup_range') (fun _ _ => rfl)
            | none =>
              simp only [TaskDesc.jobIds, fromId_iter]
              exact attach_ok _ _ (by simp) (fun _ _ => rfl)
          · exact attach_ok _ _ hok.2 (fun _ _ => rfl)
        | graph ts =>
          simp only [validateSubmit] at hval'
          obtain ⟨hnd, _⟩ := validateGraph_nodup _ _ _ hval'
          simp only [fillIdsNew, TaskDesc.jobIds]
          exact attach_ok _ _ hnd (fun _ _ => rfl)
      obtain ⟨job', ha⟩ := hat
      simp only [Option.isSome_none, Bool.false_eq_true, if_false]
      rw [ha]; exact ⟨_, rfl⟩

end HqModel.Sys
