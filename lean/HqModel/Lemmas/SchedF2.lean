import HqModel.Lemmas.SchedF2c
/-!
Lemmas for C15, part 9: fragment F2 — one worker, two request classes with ready tasks, equal class weights, and
both classes ask for cpus only (`Instance.CpuOnly`; the worker may have the second resource kind and tasks running
there may use it).

`priorityRespecting_of_inF2`: if the batches satisfy their closed-form specification (`BatchesSpec`, evaluated by
the driver on every generated instance), every optimal solution of `milp inst` yields only priority-respecting
placements. Proof by exchange: from a violating pair (waiting `h` of class `H`, dispatched lower `l` of class `L`)
build the solution with one more `H` task and only the `L` tasks of priority ≥ `h`; the cut of `L` just below
`h`'s priority and the forced blocker variable bound the removed `L` tasks by the gap, which is smaller than one
`H` task — so the new solution is feasible and strictly better.
-/
namespace HqModel.Sched
open HqModel.Core (TaskId)

theorem map_eq_pair {α β} {f : α → β} {a b : β} : ∀ {l : List α}, l.map f = [a, b] →
    ∃ x y, l = [x, y] ∧ f x = a ∧ f y = b
  | [], h => by simp at h
  | [_], h => by simp at h
  | [x, y], h => by
    simp only [List.map_cons, List.map_nil, List.cons.injEq, and_true] at h
    exact ⟨x, y, rfl, h.1, h.2⟩
  | _ :: _ :: _ :: _, h => by simp at h

theorem priorityRespecting_of_inF2 {inst : Instance} (hwf : inst.WF) (hF : inst.inF2 = true)
    (hco : inst.CpuOnly) (hspec : BatchesSpec inst (batches inst))
    {x : Assign} (hopt : Optimal (milp inst) x) {pl : Placement} (hv : ValidPlacement inst x pl) :
    PriorityRespecting inst pl := by
  intro h hh l hl w' hw'
  cases hvp : violatingPair inst pl h l w' with
  | false => rfl
  | true =>
  exfalso
  -- the single worker
  simp only [Instance.inF2, Bool.and_eq_true, decide_eq_true_eq, List.all_eq_true] at hF
  obtain ⟨⟨⟨hlen, hrc⟩, hwt⟩, _⟩ := hF
  obtain ⟨w, hw⟩ : ∃ w, inst.workers = [w] := by
    match hws : inst.workers, hlen with
    | [w], _ => exact ⟨w, rfl⟩
  have hww : w = w' := by rw [hw] at hw'; exact (by simpa using hw' : w' = w).symm
  subst hww
  simp only [violatingPair, Bool.and_eq_true, Bool.not_eq_true', decide_eq_true_eq, fitsWithoutLower] at hvp
  obtain ⟨⟨⟨⟨hnd, hon⟩, hlt⟩, ⟨hnb, hfit⟩, _⟩, _⟩ := hvp
  have hdl : pl.dispatched l.id = true := on_dispatched hon
  -- the two classes
  obtain ⟨hHr, hHq⟩ := cls_mem_readyClasses hh
  obtain ⟨hLr, hLq⟩ := cls_mem_readyClasses hl
  have hc2H : inst.need2 h.cls = 0 := hco _ hHr
  have hc2L : inst.need2 l.cls = 0 := hco _ hLr
  have hne : h.cls ≠ l.cls := by
    intro e
    have := dispatched_prio_ge hwf hv hh hl e hnd hdl
    omega
  have hHc : h.cls < inst.classes.length := by rw [← hwf.sameLen]; exact hHq
  have hLc : l.cls < inst.classes.length := by rw [← hwf.sameLen]; exact hLq
  have hnH := need_pos_of_classes hwf hHc
  have hnL := need_pos_of_classes hwf hLc
  have hready := two_of_length_le_two hrc hHr hLr hne
  have hfree := hwf.freeLeTotal w (by rw [hw]; simp)
  -- both classes can start on the worker
  have hpH : hasP inst w h.cls = true := by
    simp only [hasP, fitsNow_cpu hc2H, Bool.and_eq_true, decide_eq_true_eq]
    exact ⟨by rw [hnb]; rfl, by omega⟩
  have hcountL := hv.counts w (by rw [hw]; simp) l.cls hLq
  have hcountH := hv.counts w (by rw [hw]; simp) h.cls hHq
  have hlcount : 1 ≤ countOn inst pl w.id l.cls := by
    simp only [countOn]
    have : l ∈ inst.tasks.filter fun t => decide (t.cls = l.cls) && pl.on t.id w.id := by
      simp [List.mem_filter, hl, hon]
    exact List.length_pos_of_mem this
  have hpL : hasP inst w l.cls = true := by
    cases hp : hasP inst w l.cls with
    | true => rfl
    | false => rw [hp] at hcountL; simp at hcountL; omega
  rw [hpL] at hcountL
  rw [hpH] at hcountH
  simp only [↓reduceIte] at hcountL hcountH
  have hcapH : inst.need h.cls ≤ w.total := by
    simp only [hasP, fitsNow_cpu hc2H, Bool.and_eq_true, decide_eq_true_eq] at hpH; omega
  have hcapL : inst.need l.cls ≤ w.total := by
    simp only [hasP, fitsNow_cpu hc2L, Bool.and_eq_true, decide_eq_true_eq] at hpL; omega
  have hfreePos : 0 < w.free := by
    simp only [hasP, fitsNow_cpu hc2H, Bool.and_eq_true, decide_eq_true_eq] at hpH; omega
  have hcapH' : capable inst h.cls w = true := by rw [capable_cpu hc2H]; simpa using hcapH
  -- the batches
  have hlimH : inst.limitOf h.cls > 0 := by rw [limitOf_one hw hc2H hcapH]; omega
  have hlimL : inst.limitOf l.cls > 0 := by rw [limitOf_one hw hc2L hcapL]; omega
  obtain ⟨bH, bL, hbs, hbH, hbL⟩ : ∃ bH bL, (batches inst = [bH, bL] ∨ batches inst = [bL, bH]) ∧
      bH.rq = h.cls ∧ bL.rq = l.cls := by
    have hcl := hspec.classes
    rcases hready with e | e
    · rw [e] at hcl
      simp only [List.filter_cons, hlimH, hlimL, decide_true, ↓reduceIte, List.filter_nil] at hcl
      obtain ⟨b1, b2, hb, h1, h2⟩ := map_eq_pair hcl
      exact ⟨b1, b2, Or.inl hb, h1, h2⟩
    · rw [e] at hcl
      simp only [List.filter_cons, hlimH, hlimL, decide_true, ↓reduceIte, List.filter_nil] at hcl
      obtain ⟨b1, b2, hb, h1, h2⟩ := map_eq_pair hcl
      exact ⟨b2, b1, Or.inr hb, h2, h1⟩
  have htb : TwoBatches inst w (batches inst) bH bL :=
    ⟨hw, hbs, by rw [hbH, hbL]; exact hne, by rw [hbH]; exact hpH, by rw [hbL]; exact hpL,
      by rw [hbH]; exact hc2H, by rw [hbL]; exact hc2L⟩
  have hreadyL : inst.readyClasses = [l.cls, h.cls] ∨ inst.readyClasses = [h.cls, l.cls] := hready.symm
  -- counts
  have hx : Feasible (milpOf inst (batches inst)) x := hopt.1
  have hdisp_ge : ∀ t ∈ inst.tasks, t.cls = h.cls → pl.dispatched t.id = true → h.prio ≤ t.prio :=
    fun t ht hc hd => dispatched_prio_ge hwf hv hh ht hc.symm hnd hd
  have hdisp_L : ∀ t ∈ inst.tasks, t.cls = l.cls → h.prio ≤ t.prio → pl.on t.id w.id = true := by
    intro t ht hc hp
    apply dispatched_on_one hw hv
    cases hd : pl.dispatched t.id with
    | true => rfl
    | false =>
      have := dispatched_prio_ge hwf hv ht hl hc hd hdl
      omega
  -- mH = number of H tasks with priority ≥ h; k = number of L tasks with priority ≥ h
  let mH := (inst.tasks.filter fun t => decide (t.cls = h.cls) && decide (h.prio ≤ t.prio)).length
  let k := (inst.tasks.filter fun t => decide (t.cls = l.cls) && decide (h.prio ≤ t.prio)).length
  have hxH_lt : x (.P w.id h.cls) + 1 ≤ mH := by
    rw [← hcountH]
    simp only [countOn]
    apply filter_length_lt
    · intro t ht hp
      simp only [Bool.and_eq_true, decide_eq_true_eq] at hp ⊢
      exact ⟨hp.1, hdisp_ge t ht hp.1 (on_dispatched hp.2)⟩
    · refine ⟨h, hh, by simp, ?_⟩
      cases hon' : pl.on h.id w.id with
      | false => simp
      | true => rw [on_dispatched hon'] at hnd; cases hnd
  have hk_lt : k + 1 ≤ x (.P w.id l.cls) := by
    rw [← hcountL]
    simp only [countOn]
    apply filter_length_lt
    · intro t ht hp
      simp only [Bool.and_eq_true, decide_eq_true_eq] at hp ⊢
      exact ⟨hp.1, hdisp_L t ht hp.1 hp.2⟩
    · refine ⟨l, hl, by simp [hon], ?_⟩
      simp only [Bool.and_eq_false_iff, decide_eq_false_iff_not]
      right; omega
  -- the load kept on the worker
  have hload : inst.need h.cls * x (.P w.id h.cls) + inst.need l.cls * k ≤ keptLoad inst pl w.id h.prio := by
    rw [← hcountH]
    simp only [countOn, keptLoad]
    refine load_ge (fun t : TaskInfo => inst.need t.cls)
      (fun t => pl.on t.id w.id && decide (h.prio ≤ t.prio))
      (fun t => decide (t.cls = h.cls) && pl.on t.id w.id)
      (fun t => decide (t.cls = l.cls) && decide (h.prio ≤ t.prio))
      (inst.need h.cls) (inst.need l.cls) inst.tasks ?_ ?_
    · intro t ht hp
      simp only [Bool.and_eq_true, decide_eq_true_eq] at hp
      refine ⟨?_, by rw [hp.1], ?_⟩
      · simp only [Bool.and_eq_true, decide_eq_true_eq]
        exact ⟨hp.2, hdisp_ge t ht hp.1 (on_dispatched hp.2)⟩
      · simp only [Bool.and_eq_false_iff, decide_eq_false_iff_not]
        left; rw [hp.1]; exact hne
    · intro t ht hp
      simp only [Bool.and_eq_true, decide_eq_true_eq] at hp
      refine ⟨?_, by rw [hp.1]⟩
      simp only [Bool.and_eq_true, decide_eq_true_eq]
      exact ⟨hdisp_L t ht hp.1 hp.2, hp.2⟩
  have hres : inst.need bH.rq * (x (.P w.id bH.rq) + 1) + inst.need bL.rq * k ≤ w.free := by
    rw [hbH, hbL, Nat.mul_add, Nat.mul_one]; omega
  -- the highest level of L below h's priority
  obtain ⟨ls, hls, hmax⟩ := exists_max (fun t : TaskInfo => t.prio)
    (l := inst.tasks.filter fun t => decide (t.cls = l.cls) && decide (t.prio < h.prio))
    (List.ne_nil_of_mem (a := l) (by simp [List.mem_filter, hl, hlt]))
  simp only [List.mem_filter, Bool.and_eq_true, decide_eq_true_eq] at hls hmax
  obtain ⟨hlsm, hlsc, hlsp⟩ := hls
  have habove_k : above inst l.cls ls.prio = k := by
    simp only [above]
    congr 1
    apply List.filter_congr
    intro t ht
    by_cases hc : t.cls = l.cls
    · simp only [hc, decide_true, Bool.true_and, decide_eq_decide]
      constructor
      · intro hp
        by_cases hq : h.prio ≤ t.prio
        · exact hq
        · have := hmax t ⟨ht, hc, by omega⟩
          omega
      · intro hp; omega
    · simp [hc]
  -- resource row of x
  obtain ⟨rr, hrr, _⟩ := htb.resourceRow_mem
  have hrrx := hx.1 rr ((TwoBatches.rows_iff _ _).mpr (Or.inl hrr))
  obtain ⟨hrge, hrbound, hrlhs⟩ := htb.resourceRow hrr
  unfold Row.holds at hrrx
  simp only [hrge, Bool.false_eq_true, ↓reduceIte, hrlhs, hrbound, hbH, hbL] at hrrx
  have hxL_lim : x (.P w.id l.cls) ≤ inst.limitOf l.cls :=
    le_limitOf_one hw hc2L hcapL hnL (by omega)
  -- the cut of L at that level
  have hmH_le : mH ≤ above inst h.cls ls.prio := by
    simp only [above]
    apply filter_length_mono
    intro t _ hp
    simp only [Bool.and_eq_true, decide_eq_true_eq] at hp ⊢
    exact ⟨hp.1, by omega⟩
  have hblL_eq := blockersAt_two (Ne.symm hne) hreadyL ls.prio
  have haH_pos : above inst h.cls ls.prio > 0 := by omega
  simp only [haH_pos, ↓reduceIte] at hblL_eq
  obtain ⟨cut, hcut, hcsize, hcbl⟩ := hspec.cutExists bL htb.memL ls hlsm (by rw [hbL]; exact hlsc)
    (by rw [hbL, hspec.limit bL htb.memL, hbL, habove_k]; omega)
    (by rw [hbL, hblL_eq]; simp)
  rw [hbL, habove_k] at hcsize
  rw [hbL, hblL_eq] at hcbl
  have hcvH : (countVarsOf inst (batches inst) bH.rq).isEmpty = false := by rw [htb.countVarsOfH]; rfl
  have hcvL : (countVars inst bL).isEmpty = false := by rw [htb.countVarsL]; rfl
  obtain ⟨pre, post, hcuts⟩ := List.append_of_mem hcut
  have hrows_of_cut : ∀ r, r ∈ cutRows inst (batches inst) bL ([] ++ pre) cut → r.holds x := by
    intro r hr
    apply hx.1 r
    refine (TwoBatches.rows_iff _ _).mpr (Or.inr (Or.inr (Or.inr ⟨bL, htb.memL, ?_⟩)))
    simp only [batchCutRows, hcvL, Bool.false_eq_true, ↓reduceIte]
    rw [hcuts]
    exact cutRows_sub hr
  -- the removed L tasks fit into the gap
  have hgap : gap inst h.cls l.cls w ≠ 0 ∧ x (.P w.id l.cls) ≤ k + gap inst h.cls l.cls w := by
    by_cases hlimit : above inst h.cls ls.prio > inst.limitOf h.cls
    · -- the blocker is unbounded
      simp only [hlimit, ↓reduceIte] at hcbl
      have hblmem : (h.cls, (none : Option Nat)) ∈ cut.blockers := by rw [hcbl]; simp
      by_cases hg : gap inst h.cls l.cls w = 0
      · exfalso
        obtain ⟨pre0, cut0, post0, e1, e2, e3, e4⟩ :=
          first_unbounded (c' := h.cls) (earlier := []) (by simp) hcut hblmem
        have hrow := zeroRow_none_mem (bs := batches inst) (b := bL) (cut := cut0) hw hcapH'
          (by rw [hbL]; exact hg) (by rw [hbL]; exact hpL)
        have hin : ({ ge := false, bound := cut0.size, terms := [(.P w.id bL.rq, 1)] } : Row) ∈
            cutRows inst (batches inst) bL ([] ++ pre0) cut0 := by
          apply cutRows_mem_of_blocker e2
          right
          simp only at e3 ⊢
          rw [e3]; exact hrow
        have hholds := hx.1 _ ((TwoBatches.rows_iff _ _).mpr (Or.inr (Or.inr (Or.inr ⟨bL, htb.memL, by
          simp only [batchCutRows, hcvL, Bool.false_eq_true, ↓reduceIte]
          rw [e1]; exact cutRows_sub hin⟩))))
        simp only [Row.holds, Bool.false_eq_true, ↓reduceIte, Row.lhs, List.map_cons, List.map_nil,
          List.sum_cons, List.sum_nil, hbL] at hholds
        have hsorted := hspec.cutsSorted bL htb.memL
        rw [e1, List.pairwise_append] at hsorted
        have h0 : cut0.size ≤ cut.size := by
          rcases e4 with rfl | hin'
          · exact Nat.le_refl _
          · exact (List.pairwise_cons.mp hsorted.2.1).1 cut hin'
        omega
      · refine ⟨hg, ?_⟩
        have hrow := gapRow_none_mem (bs := batches inst) (b := bL) (cut := cut) hw hcapH'
          (by rw [hbL]; exact hg)
        have hholds := hrows_of_cut _ (cutRows_mem_of_blocker hblmem (Or.inl hrow))
        simp only [Row.holds, Bool.false_eq_true, ↓reduceIte, Row.lhs, theP, hpL, List.map_cons,
          List.map_nil, List.sum_cons, List.sum_nil, hbL] at hholds
        omega
    · -- the blocker is bounded by s = number of H tasks above the level: x is short of it, so B = 1
      simp only [hlimit, ↓reduceIte] at hcbl
      have hblmem : (h.cls, some (above inst h.cls ls.prio)) ∈ cut.blockers := by rw [hcbl]; simp
      have huses : usesB inst (batches inst) bL h.cls = true := by
        simp only [usesB, Bool.and_eq_true, Bool.not_eq_true', Bool.or_eq_true, List.any_eq_true]
        refine ⟨by rw [← hbH]; exact hcvH, ?_⟩
        by_cases hg : gap inst h.cls l.cls w = 0
        · right
          rw [zeroCond_one hw]
          simp [hcapH', hbL, hg, hpL]
        · left
          refine ⟨w, by rw [capableWorkers_one hw]; simp [hcapH'], ?_⟩
          rw [hbL]; simpa using hg
      have hbrow := bRow_mem htb.memL hcvL hcut hblmem huses
      have hbholds := hx.1 _ ((TwoBatches.rows_iff _ _).mpr (Or.inr (Or.inr (Or.inl hbrow))))
      rw [← hbH, htb.countVarsOfH] at hbholds
      simp only [Row.holds, ↓reduceIte, Row.lhs, List.map_cons, List.map_nil, List.cons_append,
        List.nil_append, List.sum_cons, List.sum_nil, hbH] at hbholds
      have hB : 1 ≤ x (.B h.cls (above inst h.cls ls.prio)) := by
        cases hb0 : x (.B h.cls (above inst h.cls ls.prio)) with
        | zero => rw [hb0] at hbholds; omega
        | succ n => omega
      have hBmul : bL.size ≤ bL.size * x (.B h.cls (above inst h.cls ls.prio)) :=
        Nat.le_mul_of_pos_right _ hB
      by_cases hg : gap inst h.cls l.cls w = 0
      · exfalso
        have hrow := zeroRow_some_mem (bs := batches inst) (b := bL) (cut := cut)
          (s := above inst h.cls ls.prio)
          (flag := (([] ++ pre).all fun e => !e.blockers.contains ((h.cls, some (above inst h.cls ls.prio)).1, none)))
          hw hcapH' (by rw [hbL]; exact hg) (by rw [hbL]; exact hpL) (by rw [← hbH]; exact hcvH)
        have hholds := hrows_of_cut _ (cutRows_mem_of_blocker hblmem (Or.inr hrow))
        simp only [Row.holds, Bool.false_eq_true, ↓reduceIte, Row.lhs, List.map_cons,
          List.map_nil, List.sum_cons, List.sum_nil, hbL] at hholds
        omega
      · refine ⟨hg, ?_⟩
        have hrow := gapRow_some_mem (bs := batches inst) (b := bL) (cut := cut)
          (s := above inst h.cls ls.prio) hw hcapH' (by rw [hbL]; exact hg) (by rw [← hbH]; exact hcvH)
        have hholds := hrows_of_cut _ (cutRows_mem_of_blocker hblmem (Or.inl hrow))
        simp only [Row.holds, Bool.false_eq_true, ↓reduceIte, Row.lhs, theP, hpL, List.map_cons,
          List.map_nil, List.cons_append, List.nil_append, List.sum_cons, List.sum_nil, hbL] at hholds
        omega
  obtain ⟨_, hxL_le⟩ := hgap
  -- the exchanged solution is feasible
  have hblock_of_sound : ∀ (b : Batch) (c' : Nat), b ∈ batches inst →
      (inst.readyClasses = [b.rq, c'] ∨ inst.readyClasses = [c', b.rq]) → b.rq ≠ c' →
      ∀ cut ∈ b.cuts, ∀ bl ∈ cut.blockers, ∃ t ∈ inst.tasks, t.cls = b.rq ∧ cut.size = above inst b.rq t.prio ∧
        bl = (c', if above inst c' t.prio > inst.limitOf c' then none else some (above inst c' t.prio)) := by
    intro b c' hb hr hnc cut hcut bl hbl
    obtain ⟨t, ht, htc, hsz, _, hblk⟩ := hspec.cutSound b hb cut hcut
    rw [hblk, blockersAt_two hnc hr] at hbl
    split at hbl
    · simp only [List.mem_singleton] at hbl
      exact ⟨t, ht, htc, hsz, hbl⟩
    · simp at hbl
  have hfeas : Feasible (milpOf inst (batches inst)) (exch x w.id bH.rq bL.rq k) := by
    apply exch_feasible htb hx
    · rw [hbL]; omega
    · exact hres
    · -- size of H's batch
      rw [hbH]
      cases hre : bH.reached with
      | false =>
        have := (hspec.sizeAll bH htb.memH hre).1
        rw [this, hbH]
        have : mH ≤ total inst h.cls := by
          simp only [total]
          apply filter_length_mono
          intro t _ hp
          simp only [Bool.and_eq_true, decide_eq_true_eq] at hp ⊢
          exact hp.1
        omega
      | true =>
        have := (hspec.sizeReached bH htb.memH hre).1
        rw [this, hspec.limit bH htb.memH, hbH]
        apply le_limitOf_one hw hc2H hcapH hnH
        rw [hbH, hbL] at hres
        omega
    · intro cut hcut bl hbl
      obtain ⟨t, _, _, _, hbl'⟩ := hblock_of_sound bL h.cls htb.memL (by rw [hbL]; exact hreadyL)
        (by rw [hbL]; exact Ne.symm hne) cut hcut bl hbl
      rw [hbl', hbH]
    · intro cut hcut bl hbl
      obtain ⟨t, ht, htc, hsz, hbl'⟩ := hblock_of_sound bH l.cls htb.memH (by rw [hbH]; exact hready)
        (by rw [hbH]; exact hne) cut hcut bl hbl
      rw [hbH] at htc hsz
      refine ⟨by rw [hbl', hbL], ?_⟩
      by_cases hp : t.prio < h.prio
      · right
        rw [hsz, hbH]
        have : mH ≤ above inst h.cls t.prio := by
          simp only [above]
          apply filter_length_mono
          intro t' _ hp'
          simp only [Bool.and_eq_true, decide_eq_true_eq] at hp' ⊢
          exact ⟨hp'.1, by omega⟩
        omega
      · left
        have hle : above inst l.cls t.prio ≤ k := by
          simp only [above]
          apply filter_length_mono
          intro t' _ hp'
          simp only [Bool.and_eq_true, decide_eq_true_eq] at hp' ⊢
          exact ⟨hp'.1, by omega⟩
        have hnl : ¬ above inst l.cls t.prio > inst.limitOf l.cls := by omega
        refine ⟨above inst l.cls t.prio, ?_, hle⟩
        rw [hbl']; simp only [hnl, ↓reduceIte]
  -- and strictly better
  have hobj := hopt.2 _ hfeas
  change objective (milpOf inst (batches inst)) _ ≤ objective (milpOf inst (batches inst)) _ at hobj
  rw [htb.objective_eq, htb.objective_eq, exch_PH, exch_PL _ _ _ htb.ne, hbH, hbL,
    weightP_one hw hfreePos hc2H (weight_of_classes hwt hHc),
    weightP_one hw hfreePos hc2L (weight_of_classes hwt hLc)] at hobj
  -- the factor common to all weights (free amount of the second kind, scale) is positive and cancels
  have hK : 0 < max w.free2 1 * 1000000 := by
    have : 0 < max w.free2 1 := by omega
    omega
  have hobj := obj_cancel hK hobj
  rw [Nat.mul_add, Nat.mul_one] at hobj
  have hgaplt := gap_mul_lt inst h.cls l.cls w hnH hc2H hc2L
  have h1 : inst.need l.cls * x (.P w.id l.cls) ≤
      inst.need l.cls * k + inst.need l.cls * gap inst h.cls l.cls w := by
    rw [← Nat.mul_add]; exact Nat.mul_le_mul_left _ hxL_le
  omega

end HqModel.Sched
