import HqModel.Lemmas.JobJournalEntry
/-!
# C07, restart clause: the crash counter recorded in `meaning J` = the failure-losses counted over the records of `J`
-/
namespace HqModel.Emit
open HqModel.Job HqModel.Journal

/-- What the records say about task `(job, t)`: `(run, crashes)` — the workers of its current run (root first; `none`:
not recorded running) and the number of failure-losses of the root worker while it was recorded running.
* a record that creates `job` starts from `(none, 0)`;
* `TaskStarted job t _ ws`: the task runs on `ws` (a later start replaces the run);
* `TaskFinished / TaskFailed job t`, a `TasksCanceled / TasksAborted` that contains `(job, t)`: the run ends;
* `WorkerLost w reason` while the task runs with ROOT `w`: the run ends; if `reason` is a failure
  (connection / heartbeat lost) it counts as a crash. The loss of a non-root worker changes nothing. -/
def trackStep (job t : Nat) (tr : Option (List Nat) × Nat) : Record → Option (List Nat) × Nat
  | .jobOpen j _ => if j = job then (none, 0) else tr
  | .submit j closed _ _ => if j = job ∧ closed = true then (none, 0) else tr
  | .taskStarted j t' _ ws => if j = job ∧ t' = t then (some ws, tr.2) else tr
  | .taskFinished j t' => if j = job ∧ t' = t then (none, tr.2) else tr
  | .taskFailed j t' => if j = job ∧ t' = t then (none, tr.2) else tr
  | .tasksCanceled ids => if (job, t) ∈ ids then (none, tr.2) else tr
  | .tasksAborted ids => if (job, t) ∈ ids then (none, tr.2) else tr
  | .workerLost w reason =>
    match tr.1 with
    | some (root :: _) => if root = w then (none, if reason.isFailure then tr.2 + 1 else tr.2) else tr
    | _ => tr
  | _ => tr

/-- **the number of crashes of task `(job, t)` the journal `J` records** -/
def crashCount (J : List Record) (job t : Nat) : Nat := (J.foldl (trackStep job t) (none, 0)).2

/-- the entry of the job agrees with the tracker on every task with id `t`; a task that does not exist (yet) has the
initial tracker -/
def CrashInv (t : Nat) (o : Option AJob) (tr : Option (List Nat) × Nat) : Prop :=
  ∀ aj, o = some aj →
    (∀ a ∈ aj.tasks, a.id = t → a.run = tr.1 ∧ a.crashes = tr.2) ∧ (t ∉ aj.tasks.map (·.id) → tr = (none, 0))

theorem CrashInv.map {t : Nat} {o : Option AJob} {tr tr' : Option (List Nat) × Nat} (h : CrashInv t o tr)
    (f : ATask → ATask) (hid : ∀ a, (f a).id = a.id)
    (hf : ∀ a, a.id = t → a.run = tr.1 → a.crashes = tr.2 → (f a).run = tr'.1 ∧ (f a).crashes = tr'.2)
    (hn : tr = (none, 0) → tr' = (none, 0)) :
    CrashInv t (o.map fun aj => mapTasks aj f) tr' := by
  intro aj' ho
  cases o with
  | none => cases ho
  | some aj =>
    simp only [Option.map_some, Option.some.injEq] at ho
    subst ho
    obtain ⟨h1, h2⟩ := h aj rfl
    refine ⟨?_, ?_⟩
    · intro a' ha' hid'
      simp only [mapTasks_tasks, List.mem_map] at ha'
      obtain ⟨a, ha, rfl⟩ := ha'
      rw [hid] at hid'
      obtain ⟨hr, hc⟩ := h1 a ha hid'
      exact hf a hid' hr hc
    · intro hnm
      refine hn (h2 ?_)
      intro hm
      apply hnm
      simp only [mapTasks_tasks, List.map_map]
      obtain ⟨a, ha, hat⟩ := List.mem_map.mp hm
      exact List.mem_map.mpr ⟨a, ha, by simp [hid, hat]⟩

/-- a map that does not touch tasks with id `t` -/
theorem CrashInv.map_other {t : Nat} {o : Option AJob} {tr : Option (List Nat) × Nat} (h : CrashInv t o tr)
    (f : ATask → ATask) (hid : ∀ a, (f a).id = a.id) (hf : ∀ a, a.id = t → f a = a) :
    CrashInv t (o.map fun aj => mapTasks aj f) tr :=
  h.map f hid (fun a hat hr hc => by rw [hf a hat]; exact ⟨hr, hc⟩) id

theorem CrashInv.some_of {t : Nat} {o : Option AJob} {tr : Option (List Nat) × Nat} {g : AJob → AJob}
    (h : CrashInv t o tr) (hg : ∀ aj, (g aj).tasks = aj.tasks) : CrashInv t (o.map g) tr := by
  intro aj' ho
  cases o with
  | none => cases ho
  | some aj =>
    simp only [Option.map_some, Option.some.injEq] at ho
    subst ho
    rw [hg]
    exact h aj rfl

theorem markF_run_in (o : Outcome) (S : List Nat) (a : ATask) (h : a.id ∈ S) :
    (markF o S a).run = none ∧ (markF o S a).crashes = a.crashes := by
  simp [markF, h, setO]

theorem markF_out (o : Outcome) (S : List Nat) (a : ATask) (h : a.id ∉ S) : markF o S a = a := by
  simp [markF, h]

/-- an outcome for the tasks with ids `S` -/
theorem CrashInv.mark {t : Nat} {o : Option AJob} {tr : Option (List Nat) × Nat} (h : CrashInv t o tr)
    (oc' : Outcome) (S : List Nat) :
    CrashInv t (o.map fun aj => mapTasks aj (markF oc' S)) (if t ∈ S then (none, tr.2) else tr) := by
  by_cases ht : t ∈ S
  · rw [if_pos ht]
    refine h.map _ (markF_id _ _) ?_ ?_
    · intro a hat _ hc
      have := markF_run_in oc' S a (hat ▸ ht)
      exact ⟨this.1, this.2.trans hc⟩
    · intro e; rw [e]
  · rw [if_neg ht]
    exact h.map_other _ (markF_id _ _) (fun a hat => markF_out _ _ _ (hat ▸ ht))

theorem CrashInv.step {A : AState} {job t : Nat} {tr : Option (List Nat) × Nat} (r : Record)
    (h : CrashInv t (alGet A.jobs job) tr) (hok : recordOk A r = true) :
    CrashInv t (alGet (meaningStep A r).jobs job) (trackStep job t tr r) := by
  rw [entry_eq]
  cases r with
  | submit j closed mf d =>
    simp only [entryStep, trackStep]
    by_cases hj : j = job
    · subst hj
      simp only [if_true, true_and]
      by_cases hcl : closed = true
      · simp only [hcl, if_true]
        intro aj ho
        simp only [Option.some.injEq] at ho
        subst ho
        exact ⟨fun a ha _ => ⟨(specTasks_fresh ha).2.2.2.2, (specTasks_fresh ha).2.2.2.1⟩, fun _ => rfl⟩
      · simp only [hcl, if_false, Bool.false_eq_true]
        intro aj' ho
        cases hg : alGet A.jobs j with
        | none => rw [hg] at ho; cases ho
        | some aj =>
          rw [hg] at ho
          simp only [Option.map_some, Option.some.injEq] at ho
          subst ho
          obtain ⟨h1, h2⟩ := h aj hg
          have hcl' : closed = false := by simpa using hcl
          simp only [recordOk, hcl', Bool.false_eq_true, if_false, hg, Bool.and_eq_true] at hok
          refine ⟨?_, ?_⟩
          · intro a ha hat
            simp only [List.mem_append] at ha
            rcases ha with ha | ha
            · exact h1 a ha hat
            · have hf := specTasks_fresh ha
              have hnot : t ∉ aj.tasks.map (·.id) := hat ▸ submitOk_fresh hok.2 a.id hf.2.2.1
              rw [h2 hnot]
              exact ⟨hf.2.2.2.2, hf.2.2.2.1⟩
          · intro hnm
            refine h2 (fun hm => hnm ?_)
            simp only [List.map_append, List.mem_append]
            exact .inl hm
    · simp only [hj, if_false, false_and]; exact h
  | jobOpen j mf =>
    simp only [entryStep, trackStep]
    by_cases hj : j = job
    · simp only [hj, if_true]
      intro aj ho
      simp only [Option.some.injEq] at ho
      subst ho
      exact ⟨fun a ha => (by cases ha), fun _ => rfl⟩
    · simp only [hj, if_false]; exact h
  | jobClose j =>
    simp only [entryStep, trackStep]
    split
    · exact h.some_of (fun _ => rfl)
    · exact h
  | jobCompleted j =>
    simp only [entryStep, trackStep]
    split
    · intro aj ho; cases ho
    · exact h
  | taskStarted j t' i ws =>
    simp only [entryStep, trackStep]
    by_cases hj : j = job
    · subst hj
      simp only [if_true, true_and]
      by_cases ht : t' = t
      · subst ht
        simp only [if_true]
        -- the task exists (`recordOk`)
        intro aj' ho
        cases hg : alGet A.jobs j with
        | none => rw [hg] at ho; cases ho
        | some aj =>
          have hex : t' ∈ aj.tasks.map (·.id) := by
            simp only [recordOk, taskIs, hg, Bool.and_eq_true] at hok
            cases hf : aj.find t' with
            | none => rw [hf] at hok; simp at hok
            | some a0 =>
              obtain ⟨hm0, hid0⟩ := find_mem hf
              exact List.mem_map.mpr ⟨a0, hm0, hid0⟩
          rw [hg] at ho
          simp only [Option.map_some, Option.some.injEq] at ho
          subst ho
          obtain ⟨h1, -⟩ := h aj hg
          refine ⟨?_, ?_⟩
          · intro a' ha' hid'
            simp only [mapTasks_tasks, List.mem_map] at ha'
            obtain ⟨a, ha, rfl⟩ := ha'
            rw [startF_id] at hid'
            have hc := (h1 a ha hid').2
            simp [startF, hid', hc]
          · intro hnm
            exfalso
            apply hnm
            simp only [mapTasks_tasks, List.map_map]
            obtain ⟨a, ha, hat⟩ := List.mem_map.mp hex
            exact List.mem_map.mpr ⟨a, ha, by simp [startF_id, hat]⟩
      · simp only [ht, if_false]
        exact h.map_other _ (startF_id t' i ws) (fun a hat => by simp [startF, hat, Ne.symm ht])
    · simp only [hj, if_false, false_and]; exact h
  | taskFinished j t' =>
    simp only [entryStep, trackStep]
    by_cases hj : j = job
    · simp only [hj, if_true, true_and]
      have := h.mark .finished [t']
      simp only [List.mem_singleton] at this
      by_cases ht : t' = t
      · simpa [ht] using this
      · simpa [ht, Ne.symm ht] using this
    · simp only [hj, if_false, false_and]; exact h
  | taskFailed j t' =>
    simp only [entryStep, trackStep]
    by_cases hj : j = job
    · simp only [hj, if_true, true_and]
      have := h.mark .failed [t']
      simp only [List.mem_singleton] at this
      by_cases ht : t' = t
      · simpa [ht] using this
      · simpa [ht, Ne.symm ht] using this
    · simp only [hj, if_false, false_and]; exact h
  | tasksCanceled ids =>
    simp only [entryStep, trackStep]
    have := h.mark .canceled (idsOf job ids)
    simpa only [mem_idsOf] using this
  | tasksAborted ids =>
    simp only [entryStep, trackStep]
    have := h.mark .aborted (idsOf job ids)
    simpa only [mem_idsOf] using this
  | workerLost w reason =>
    simp only [entryStep]
    refine h.map _ (fun a => (lose_fields w _ a).1) ?_ ?_
    · intro a _ hr hc
      simp only [trackStep, ATask.lose, hr]
      cases h1 : tr.1 with
      | none => simp [hr, hc, h1]
      | some l =>
        cases l with
        | nil => simp [hr, hc, h1]
        | cons root rest =>
          simp only
          by_cases hw : root = w
          · simp only [hw, if_true]
            cases reason.isFailure <;> simp [hc]
          · simp [hw, hr, hc, h1]
    · intro e; rw [e]; rfl
  | serverStart _ => exact h
  | serverStop => exact h
  | workerConnected _ _ => exact h
  | workerOverview _ => exact h
  | jobCancel _ => exact h
  | queueCreated _ => exact h
  | queueRemoved _ => exact h
  | allocQueued _ _ => exact h
  | allocStarted _ _ => exact h
  | allocFinished _ _ => exact h

theorem CrashInv.fold (job t : Nat) : ∀ (J : List Record) {A : AState} {tr : Option (List Nat) × Nat},
    producibleFrom A J = true → CrashInv t (alGet A.jobs job) tr →
    CrashInv t (alGet (J.foldl meaningStep A).jobs job) (J.foldl (trackStep job t) tr)
  | [], _, _, _, h => h
  | r :: rs, _, _, hp, h => by
    simp only [producibleFrom, Bool.and_eq_true] at hp
    exact CrashInv.fold job t rs hp.2 (h.step r hp.1)

end HqModel.Emit
