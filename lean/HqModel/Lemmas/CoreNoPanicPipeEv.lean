import HqModel.Lemmas.SysWWorker2
/-!
C09 compose, Stage 4b — vocabulary of the strengthened pipeline invariant (worker side, M2 only):

* `NPP.isRR e` — the event is a `run` or a `rej` (the two events that make the core panic when the task is Running on
  the reporting worker: `task_running.unreachable`, `task_reject.unreachable`);
* `NPP.Calm P` — no `run` and no `rej` among the events `P`;
* `NPP.NB s n` — task `n` is in no backlog of the worker state `s` (it may be running);
* `NPP.RunLast E s' n` — if the events `E` (emitted by one step) start with a `run`, nothing follows it and `n` is in
  no backlog afterwards.
-/
namespace HqModel.SysW.NPP
open HqModel HqModel.Worker

/-- a `run` or a `rej` event -/
def isRR : Ev → Bool
  | .run _ => true
  | .rej _ => true
  | _ => false

/-- no `run` and no `rej` among the events -/
def Calm (P : List Ev) : Prop := ∀ e ∈ P, isRR e = false

theorem Calm.nil : Calm [] := fun _ h => by cases h

theorem Calm.append {P Q : List Ev} (hp : Calm P) (hq : Calm Q) : Calm (P ++ Q) := by
  intro e he
  rcases List.mem_append.mp he with h | h
  · exact hp e h
  · exact hq e h

theorem Calm.tail {e : Ev} {P : List Ev} (h : Calm (e :: P)) : Calm P := fun x hx => h x (List.mem_cons_of_mem _ hx)

theorem Calm.head {e : Ev} {P : List Ev} (h : Calm (e :: P)) : isRR e = false := h e List.mem_cons_self

/-- task `n` is in no backlog -/
def NB (s : Worker.State) (n : Nat) : Prop := ∀ rq, bcount s n rq = 0

theorem NB.of_free {s : Worker.State} {n : Nat} (h : Free s n) : NB s n := h.2

/-- if the events of one step start with a `run`, nothing follows it and `n` is in no backlog afterwards -/
def RunLast (E : List Ev) (s' : Worker.State) (n : Nat) : Prop :=
  ∀ rv rest, E = .run rv :: rest → rest = [] ∧ NB s' n

theorem RunLast.nil (s' : Worker.State) (n : Nat) : RunLast [] s' n := fun _ _ h => by cases h

end HqModel.SysW.NPP
