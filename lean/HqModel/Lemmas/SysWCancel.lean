import HqModel.Lemmas.SysWRun
/-!
`on_cancel_tasks` tells the owner: for every named task that is at a worker (Assigned, Prefilled, Retracting, Running:
that worker; RunningMultiNode: the root) a `CancelTasks` message with its id goes to that worker.
-/
namespace HqModel.Core
open HqModel HqModel.SysW

/-- `running` (the per-worker id lists of `on_cancel_tasks`) names `t` for worker `w` -/
def Names (r : List (Nat × List TaskId)) (w : Nat) (t : TaskId) : Prop := ∃ p ∈ r, p.1 = w ∧ t ∈ p.2

theorem addTo_names (acc : List (Nat × List TaskId)) (w : Nat) (t : TaskId) :
    Names (addTo acc w t) w t ∧ ∀ w' t', Names acc w' t' → Names (addTo acc w t) w' t' := by
  unfold addTo
  by_cases ha : (acc.any (·.1 == w)) = true
  · rw [if_pos ha]
    obtain ⟨p, hp, hpw⟩ := List.any_eq_true.mp ha
    have hpw : p.1 = w := by simpa using hpw
    constructor
    · refine ⟨(p.1, p.2 ++ [t]), List.mem_map.mpr ⟨p, hp, by simp [hpw]⟩, hpw, by simp⟩
    · rintro w' t' ⟨q, hq, hqw, hqt⟩
      by_cases hqe : q.1 = w
      · exact ⟨(q.1, q.2 ++ [t]), List.mem_map.mpr ⟨q, hq, by simp [hqe]⟩, hqw, by simp [hqt]⟩
      · exact ⟨q, List.mem_map.mpr ⟨q, hq, by simp [hqe]⟩, hqw, hqt⟩
  · rw [if_neg ha]
    constructor
    · exact ⟨(w, [t]), by simp, rfl, by simp⟩
    · rintro w' t' ⟨q, hq, hqw, hqt⟩
      exact ⟨q, List.mem_append_left _ hq, hqw, hqt⟩

theorem cancelLoop_names (ids : List TaskId) (s s' : State) (u u' : List TaskId) (r r' : List (Nat × List TaskId))
    (h : s.cancelLoop ids u r = .ok (s', u', r')) :
    (∀ w t, Names r w t → Names r' w t) ∧
    ∀ id ∈ ids, ∀ st w, stOf s.tasks id = some st → owner st = some w → Names r' w id := by
  induction ids generalizing s u r with
  | nil => simp only [State.cancelLoop] at h; cases h; exact ⟨fun _ _ h => h, fun _ h => by cases h⟩
  | cons id rest ih =>
    simp only [State.cancelLoop] at h
    -- the tail, from a state with the same tasks and a `running` list that names what `r1` names
    have tail : ∀ (s1 : State) (u1 : List TaskId) (r1 : List (Nat × List TaskId)), s1.tasks = s.tasks →
        (∀ w t, Names r w t → Names r1 w t) →
        (∀ st w, stOf s.tasks id = some st → owner st = some w → Names r1 w id) →
        s1.cancelLoop rest u1 r1 = .ok (s', u', r') →
        (∀ w t, Names r w t → Names r' w t) ∧
        ∀ x ∈ id :: rest, ∀ st w, stOf s.tasks x = some st → owner st = some w → Names r' w x := by
      intro s1 u1 r1 e1 hmono hid h
      obtain ⟨a, b⟩ := ih _ _ _ h
      refine ⟨fun w t hn => a w t (hmono w t hn), fun x hx st w hs ho => ?_⟩
      rcases List.mem_cons.mp hx with rfl | hx
      · exact a w x (hid st w hs ho)
      · exact b x hx st w (by rw [e1]; exact hs) ho
    split at h
    · rename_i hno
      refine tail s u r rfl (fun _ _ h => h) (fun st w hs _ => ?_) h
      rw [stOf_none_of_task? hno] at hs; cases hs
    · rename_i task ht
      have hst : stOf s.tasks id = some task.state := stOf_of_find ht
      split at h
      · cases h
      · rename_i cons hc
        have own : ∀ (r1 : List (Nat × List TaskId)) (w0 : Nat), owner task.state = some w0 →
            (∀ w t, Names r w t → Names r1 w t) → Names r1 w0 id →
            ∀ st w, stOf s.tasks id = some st → owner st = some w → Names r1 w id := by
          intro r1 w0 ho _ hn st w hs ho'
          rw [hst] at hs; cases hs
          rw [ho] at ho'; cases ho'; exact hn
        split at h
        · rename_i n hs
          refine tail (ask s) _ r rfl (fun _ _ h => h) (fun st w hs' ho => ?_) h
          rw [hst, hs] at hs'; cases hs'; cases ho
        · rename_i w0 rv hs
          split at h
          · cases h
          · split at h
            · cases h
            · rename_i s1 hw
              obtain ⟨n1, n2⟩ := addTo_names r w0 id
              exact tail (ask s1) _ _ (by have := withWorker_tasks hw; exact this) n2 (own _ w0 (by rw [hs]; rfl) n2 n1) h
        · rename_i w0 rv hs
          split at h
          · cases h
          · split at h
            · cases h
            · rename_i s1 hw
              obtain ⟨n1, n2⟩ := addTo_names r w0 id
              exact tail (ask s1) _ _ (by have := withWorker_tasks hw; exact this) n2 (own _ w0 (by rw [hs]; rfl) n2 n1) h
        · rename_i ws hs
          split at h
          · cases h
          · rename_i s1 hr
            split at h
            · cases h
            · rename_i root others
              obtain ⟨n1, n2⟩ := addTo_names r root id
              exact tail (ask s1) _ _ (by have := resetMnAll_tasks _ _ _ hr; exact this) n2 (own _ root (by rw [hs]; rfl) n2 n1) h
        · rename_i w0 hs
          split at h
          · cases h
          · rename_i s1 hr
            obtain ⟨n1, n2⟩ := addTo_names r w0 id
            exact tail (ask s1) _ _ (by have := tryRemoveRedirection_tasks hr; exact this) n2 (own _ w0 (by rw [hs]; rfl) n2 n1) h
        · rename_i w0 hs
          split at h
          · cases h
          · rename_i s1 hr
            split at h
            · cases h
            · rename_i s2 hw
              obtain ⟨n1, n2⟩ := addTo_names r w0 id
              exact tail s2 _ _ ((withWorker_tasks hw).trans (removePrefilled_tasks hr)) n2
                (own _ w0 (by rw [hs]; rfl) n2 n1) h
        · cases h

/-- **`on_cancel_tasks` sends `CancelTasks` to the owner of every named task** -/
theorem cancelTasks_sent {s s' : State} {ids : List TaskId} {o : Out} (h : s.cancelTasks ids = .ok (s', o))
    (id : TaskId) (hid : id ∈ ids) (st : TS) (w : Nat) (hs : stOf s.tasks id = some st) (ho : owner st = some w) :
    ∃ l, Msg.cancel w l ∈ o.msgs ∧ id ∈ l := by
  simp only [State.cancelTasks] at h
  split at h
  · cases h
  · rename_i s1 unreg running h1
    split at h
    · cases h
    · cases h
      obtain ⟨p, hp, hpw, hpt⟩ := (cancelLoop_names _ _ _ _ _ _ _ h1).2 id hid st w hs ho
      exact ⟨p.2, List.mem_map.mpr ⟨p, hp, by rw [hpw]⟩, hpt⟩

end HqModel.Core
