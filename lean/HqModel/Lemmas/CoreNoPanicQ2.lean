import HqModel.Lemmas.CoreNoPanicQ1
/-!
C09 progress, queue correspondence, part 2: the queue primitives of `Model.lean`
(`addReady`, `queueRemove`, `removePrefilled`) on a state that satisfies `NpQ`.
-/
namespace HqModel.Core.NPC

open HqModel.Core.NP

/-- an id is in the prefill set of at most one queue -/
theorem _root_.HqModel.Core.NpQ.pf_unique {D R} {s : State} (h : NpQ D R s) {i j : Nat} {q q' : Queue}
    (hq : s.queues[i]? = some q) (hq' : s.queues[j]? = some q') {id : TaskId} (h1 : id ∈ pfIds q)
    (h2 : id ∈ pfIds q') : i = j := by
  obtain ⟨t, _, _, _, _, _, a, b, _⟩ := h.task_of_pf hq h1
  obtain ⟨t', _, _, _, _, _, a', b', _⟩ := h.task_of_pf hq' h2
  rw [a] at a'; cases a'
  rw [← b, ← b']

/-! ### queues only lose ids -/

/-- tasks unchanged, redirects only removed, every queue only loses ids -/
theorem _root_.HqModel.Core.NpQ.shrink {D D' : TaskId → Prop} {R} {s s' : State} (h : NpQ D R s)
    (ht : s'.tasks = s.tasks) (hr : ∀ x ∈ s'.redirects, x ∈ s.redirects)
    (hq : ∀ (j : Nat) (q' : Queue), s'.queues[j]? = some q' → ∃ q, s.queues[j]? = some q ∧ ReadyWf q'.ready ∧
      (∀ x ∈ rPairs q'.ready, x ∈ rPairs q.ready) ∧ (pfIds q').Nodup ∧
      ∀ pp ts, q'.prefill = some (pp, ts) → ∃ ts0, q.prefill = some (pp, ts0) ∧ ∀ x ∈ ts, x ∈ ts0)
    (hpin : ∀ t ∈ s.tasks, (∃ w, t.state = .prefilled w) → ¬ D' t.id → InPrefill s t → InPrefill s' t)
    (hD : ∀ x, D x → D' x) : NpQ D' R s' := by
  have htk : ∀ x, s'.task? x = s.task? x := task?_congr ht
  refine npq_iff.mpr ⟨?_, ?_, h.rnd, ?_⟩
  · intro j q' hq'
    obtain ⟨q, hqj, hwf, hsub, hnd, hpf⟩ := hq j q' hq'
    have hok := h.qok hqj
    refine ⟨hwf, ?_, hnd, ?_⟩
    · intro x hx
      obtain ⟨t, a, b, c, d⟩ := readyGood_iff.mp (hok.rg x (hsub x hx))
      exact readyGood_iff.mpr ⟨t, by rw [htk]; exact a, b, c, d.mono (fun y hy _ => hr y hy) (fun e => e)⟩
    · intro pp ts hp id hid
      obtain ⟨ts0, hp0, hs0⟩ := hpf pp ts hp
      obtain ⟨t, w, a⟩ := pfGood_iff.mp (hok.pg pp ts0 hp0 id (hs0 id hid))
      exact pfGood_iff.mpr ⟨t, w, by rw [htk]; exact a.1, a.2⟩
  · rw [ht]
    intro t htm hpre hR hD'
    exact hpin t htm hpre hD' (h.pin t htm hpre hR (fun hd => hD' (hD _ hd)))
  · intro id hid
    obtain ⟨t, w, a, b⟩ := isPrefilled_iff.mp (h.rpre id hid)
    exact isPrefilled_iff.mpr ⟨t, w, by rw [htk]; exact a, b⟩

/-! ### `queueRemove` -/

theorem queueRemove_spec {s s' : State} {rq : Nat} {id : TaskId} {p : Int} (heq : s.queueRemove rq id p = .ok s') :
    s'.tasks = s.tasks ∧ s'.redirects = s.redirects ∧ s'.workers = s.workers ∧ s'.rqs = s.rqs ∧
    rq < s.queues.length ∧
    ∀ j, s'.queues[j]? = if j = rq then (s.queues[rq]?).map (fun q => q.remove id p) else s.queues[j]? := by
  simp only [State.queueRemove] at heq
  split at heq
  · cases heq
  · rename_i hlt
    cases heq
    exact ⟨rfl, rfl, rfl, rfl, by omega, fun j => getElem?_modifyQueue _ _ _ _⟩

/-- `queueRemove` only removes: the invariant survives, except that `id` may have left a prefill set -/
theorem queueRemove_npq {D R} {s s' : State} {rq : Nat} {id : TaskId} {p : Int} (h : NpQ D R s)
    (heq : s.queueRemove rq id p = .ok s') : NpQ (fun x => D x ∨ x = id) R s' := by
  obtain ⟨ht, hr, _, _, _, hget⟩ := queueRemove_spec heq
  refine h.shrink ht (by rw [hr]; exact fun _ hx => hx) ?_ ?_ (fun _ hd => Or.inl hd)
  · intro j q' hq'
    rw [hget] at hq'
    split at hq'
    · rename_i e
      subst e
      cases hq : s.queues[j]? with
      | none => rw [hq] at hq'; cases hq'
      | some q =>
        rw [hq] at hq'
        simp only [Option.map_some, Option.some.injEq] at hq'
        subst hq'
        have hok := h.qok hq
        refine ⟨q, rfl, remove_ready_wf hok.wf, fun x hx => mem_rPairs_remove_sub hx, pfIds_remove_nodup hok.pnd, ?_⟩
        intro pp ts hp
        rcases remove_cases q id p with ⟨pp0, ts0, hp0, _, _, e⟩ | ⟨_, e⟩ <;> rw [e] at hp
        · simp only [Option.some.injEq, Prod.mk.injEq] at hp
          obtain ⟨rfl, rfl⟩ := hp
          exact ⟨ts0, hp0, fun x hx => List.mem_of_mem_erase hx⟩
        · exact ⟨ts, hp, fun _ hx => hx⟩
    · have hok := h.qok hq'
      exact ⟨q', hq', hok.wf, fun _ hx => hx, hok.pnd, fun pp ts hp => ⟨ts, hp, fun _ hx => hx⟩⟩
  · intro t htm _ hD hin
    rw [inPrefill_iff] at hin ⊢
    obtain ⟨q, hq, hm⟩ := hin
    rw [hget]
    split
    · rename_i e
      rw [← e, hq]
      refine ⟨q.remove id p, rfl, ?_⟩
      rcases remove_cases q id p with ⟨pp0, ts0, hp0, _, _, e'⟩ | ⟨_, e'⟩ <;> rw [e']
      · simp only [pfIds, hp0] at hm ⊢
        exact (List.mem_erase_of_ne (fun e'' => hD (Or.inr e''))).mpr hm
      · exact hm
    · exact ⟨q, hq, hm⟩

/-- removing an id from the queue of its request under its priority removes it completely -/
theorem queueRemove_noQ {D R} {s s' : State} {id : TaskId} {task : Task} (h : NpQ D R s)
    (hf : s.task? id = some task) (heq : s.queueRemove task.rq id task.prio = .ok s') : NoQ s' id := by
  obtain ⟨_, _, _, _, _, hget⟩ := queueRemove_spec heq
  intro j q' hq'
  rw [hget] at hq'
  have hother : ∀ q, s.queues[j]? = some q → j ≠ task.rq → id ∉ rIds q.ready ∧ id ∉ pfIds q := by
    intro q hq hne
    constructor
    · intro hm
      obtain ⟨p, hp⟩ := mem_rIds_iff_pairs.mp hm
      obtain ⟨t, a, b, _⟩ := h.task_of_ready hq hp
      rw [hf] at a; cases a
      exact hne b.symm
    · intro hm
      obtain ⟨t, _, _, _, _, _, a, b, _⟩ := h.task_of_pf hq hm
      rw [hf] at a; cases a
      exact hne b.symm
  split at hq'
  · rename_i e
    subst e
    cases hq : s.queues[task.rq]? with
    | none => rw [hq] at hq'; cases hq'
    | some q =>
      rw [hq] at hq'
      simp only [Option.map_some, Option.some.injEq] at hq'
      subst hq'
      have hok := h.qok hq
      rcases remove_cases q id task.prio with ⟨pp0, ts0, hp0, hpp, hm0, e⟩ | ⟨hn, e⟩ <;> rw [e]
      · constructor
        · intro hm
          exact h.ready_prefill_disjoint hq hm (mem_pfIds.mpr ⟨pp0, ts0, hp0, hm0⟩)
        · simp only [pfIds]
          have hnd : ts0.Nodup := by simpa [pfIds, hp0] using hok.pnd
          intro hm
          exact (hnd.mem_erase_iff.mp hm).1 rfl
      · constructor
        · intro hm
          obtain ⟨p, hp⟩ := mem_rIds_iff_pairs.mp hm
          simp only at hp
          obtain ⟨hp1, hp2⟩ := (mem_rPairs_readyRemove hok.wf).mp hp
          obtain ⟨t, a, _, c, _⟩ := h.task_of_ready hq hp1
          rw [hf] at a; cases a
          exact hp2 (by rw [c])
        · intro hm
          obtain ⟨pp, ts, hp, hmt⟩ := mem_pfIds.mp hm
          simp only at hp
          obtain ⟨t, w, a, _, c, _⟩ := pfGood_iff.mp (hok.pg pp ts hp id hmt)
          rw [hf] at a; cases a
          exact hn pp ts hp ⟨c, hmt⟩
  · rename_i hne
    exact hother q' hq' hne

/-! ### `removePrefilled` -/

theorem removePrefilled_spec {s s' : State} {rq : Nat} {id : TaskId} (heq : s.removePrefilled rq id = .ok s') :
    s'.tasks = s.tasks ∧ s'.redirects = s.redirects ∧ s'.workers = s.workers ∧ s'.rqs = s.rqs ∧
    ∃ q pp ts, s.queues[rq]? = some q ∧ q.prefill = some (pp, ts) ∧ id ∈ ts ∧
      ∀ j, s'.queues[j]? = if j = rq then
          some { q with prefill := if (ts.erase id).isEmpty then none else some (pp, ts.erase id) }
        else s.queues[j]? := by
  simp only [State.removePrefilled] at heq
  split at heq
  · cases heq
  · rename_i q hq
    split at heq
    · cases heq
    · rename_i pp ts hp
      split at heq
      · cases heq
      · rename_i hc
        cases heq
        refine ⟨rfl, rfl, rfl, rfl, q, pp, ts, hq, hp, by simpa using hc, ?_⟩
        intro j
        have hlt : rq < s.queues.length := by
          rcases Nat.lt_or_ge rq s.queues.length with h | h
          · exact h
          · rw [List.getElem?_eq_none h] at hq; cases hq
        simp only [List.getElem?_set]
        by_cases e : rq = j
        · subst e; simp [hlt]
        · have : ¬ j = rq := fun e' => e e'.symm
          simp [e, this]

/-- `remove_prefilled`: the id leaves the prefill set of queue `rq` (and is then in no queue) -/
theorem removePrefilled_npq {D R} {s s' : State} {rq : Nat} {id : TaskId} (h : NpQ D R s)
    (heq : s.removePrefilled rq id = .ok s') : NpQ (fun x => D x ∨ x = id) R s' ∧ NoQ s' id := by
  obtain ⟨ht, hr, _, _, q, pp, ts, hq, hp, hm, hget⟩ := removePrefilled_spec heq
  have hok := h.qok hq
  have hnd : ts.Nodup := by simpa [pfIds, hp] using hok.pnd
  have hpfq : id ∈ pfIds q := mem_pfIds.mpr ⟨pp, ts, hp, hm⟩
  obtain ⟨task, w, _, _, _, _, hf, hrq, hprio, hnR, hst⟩ := h.task_of_pf hq hpfq
  have hsub : ∀ pp' ts', (if (ts.erase id).isEmpty then none else some (pp, ts.erase id)) = some (pp', ts') →
      pp' = pp ∧ ts' = ts.erase id := by
    intro pp' ts' e
    split at e
    · cases e
    · cases e; exact ⟨rfl, rfl⟩
  constructor
  · refine h.shrink ht (by rw [hr]; exact fun _ hx => hx) ?_ ?_ (fun _ hd => Or.inl hd)
    · intro j q' hq'
      rw [hget] at hq'
      split at hq'
      · rename_i e
        subst e
        simp only [Option.some.injEq] at hq'
        subst hq'
        refine ⟨q, hq, hok.wf, fun _ hx => hx, ?_, ?_⟩
        · simp only [pfIds]
          split
          · rename_i pp' ts' e
            obtain ⟨_, rfl⟩ := hsub pp' ts' e
            exact hnd.erase id
          · simp
        · intro pp' ts' e
          obtain ⟨rfl, rfl⟩ := hsub pp' ts' e
          exact ⟨ts, hp, fun x hx => List.mem_of_mem_erase hx⟩
      · have hok' := h.qok hq'
        exact ⟨q', hq', hok'.wf, fun _ hx => hx, hok'.pnd, fun pp ts hp => ⟨ts, hp, fun _ hx => hx⟩⟩
    · intro t htm _ hD hin
      rw [inPrefill_iff] at hin ⊢
      obtain ⟨q1, hq1, hm1⟩ := hin
      rw [hget]
      split
      · rename_i e
        rw [e, hq] at hq1; cases hq1
        refine ⟨_, rfl, ?_⟩
        have hne : t.id ≠ id := fun e'' => hD (Or.inr e'')
        have hm2 : t.id ∈ ts.erase id := by
          simp only [pfIds, hp] at hm1
          exact (List.mem_erase_of_ne hne).mpr hm1
        have hnemp : (ts.erase id).isEmpty = false := by
          cases hx : ts.erase id with
          | nil => rw [hx] at hm2; cases hm2
          | cons a b => rfl
        simp only [pfIds, hnemp]
        exact hm2
      · exact ⟨q1, hq1, hm1⟩
  · intro j q' hq'
    rw [hget] at hq'
    split at hq'
    · rename_i e
      subst e
      simp only [Option.some.injEq] at hq'
      subst hq'
      constructor
      · exact fun hmr => h.ready_prefill_disjoint hq hmr hpfq
      · simp only [pfIds]
        split
        · rename_i pp' ts' e
          obtain ⟨_, rfl⟩ := hsub pp' ts' e
          intro hm'
          exact (hnd.mem_erase_iff.mp hm').1 rfl
        · simp
    · rename_i hne
      constructor
      · intro hmr
        obtain ⟨p, hp'⟩ := mem_rIds_iff_pairs.mp hmr
        obtain ⟨t, a, b, _⟩ := h.task_of_ready hq' hp'
        rw [hf] at a; cases a
        exact hne (b.symm.trans hrq)
      · intro hmp
        exact hne (h.pf_unique hq' hq hmp hpfq)

/-! ### `addReady` -/

/-- what `add_ready_task` does to queue `j` -/
def addQ (t : Task) (j : Nat) (q : Queue) : Queue :=
  if j = t.rq then
    { (q.checkDispose t.prio).1 with ready := readyAdd (q.checkDispose t.prio).1.ready t.id t.prio }
  else (q.checkDispose t.prio).1

theorem addQ_prefill (t : Task) (j : Nat) (q : Queue) : (addQ t j q).prefill = (q.checkDispose t.prio).1.prefill := by
  unfold addQ; split <;> rfl

theorem addQ_ready_wf {t : Task} {j : Nat} {q : Queue} (h : ReadyWf q.ready) : ReadyWf (addQ t j q).ready := by
  unfold addQ
  split
  · exact readyAdd_wf (checkDispose_ready_wf h)
  · exact checkDispose_ready_wf h

theorem mem_rPairs_addQ {t : Task} {j : Nat} {q : Queue} {x : Int × TaskId} :
    x ∈ rPairs (addQ t j q).ready ↔ (j = t.rq ∧ x = (t.prio, t.id)) ∨ x ∈ rPairs q.ready ∨
      ∃ pp ts, q.prefill = some (pp, ts) ∧ pp < t.prio ∧ x.1 = pp ∧ x.2 ∈ ts := by
  unfold addQ
  split
  · rename_i e
    simp only [mem_rPairs_readyAdd, mem_rPairs_checkDispose, e, true_and]
  · rename_i e
    simp only [mem_rPairs_checkDispose, e, false_and, false_or]

theorem addReady_spec {s s' : State} {t : Task} {r : List TaskId} (heq : s.addReady t = .ok (s', r)) :
    s'.tasks = s.tasks ∧ s'.redirects = s.redirects ∧ s'.workers = s.workers ∧ s'.rqs = s.rqs ∧
    t.rq < s.queues.length ∧ r = (disposeAll s.queues t.prio).2 ∧
    ∀ j, s'.queues[j]? = (s.queues[j]?).map (addQ t j) := by
  simp only [State.addReady] at heq
  split at heq
  · cases heq
  · rename_i hlt
    cases heq
    refine ⟨rfl, rfl, rfl, rfl, by omega, rfl, ?_⟩
    intro j
    simp only [getElem?_modifyQueue, getElem?_disposeAll]
    unfold addQ
    split
    · rename_i e
      subst e
      cases s.queues[t.rq]? <;> simp
    · rename_i e
      cases s.queues[j]? <;> simp

/-- the ids `add_ready_task` returns: the prefill sets of lower priority -/
theorem mem_addReady_r {s : State} {p : Int} {x : TaskId} :
    x ∈ (disposeAll s.queues p).2 ↔
      ∃ (i : Nat) (q : Queue) (pp : Int) (ts : List TaskId), s.queues[i]? = some q ∧ q.prefill = some (pp, ts) ∧ pp < p ∧ x ∈ ts := by
  rw [mem_disposeAll_snd]
  constructor
  · rintro ⟨q, hq, hx⟩
    obtain ⟨i, hi⟩ := List.getElem?_of_mem hq
    obtain ⟨pp, ts, a, b, c⟩ := mem_checkDispose_snd.mp hx
    exact ⟨i, q, pp, ts, hi, a, b, c⟩
  · rintro ⟨i, q, pp, ts, hi, a, b, c⟩
    exact ⟨q, mem_of_get hi, mem_checkDispose_snd.mpr ⟨pp, ts, a, b, c⟩⟩

/-- **`add_ready_task`**: the record of `t.id` has request `t.rq`, priority `t.prio` and is `Waiting 0` or Retracting
without a redirect; the disposed prefill ids join the accumulator -/
theorem addReady_npq {D R} {s s' : State} {t t0 : Task} {r : List TaskId} (h : NpQ D R s)
    (hf : s.task? t.id = some t0) (hrq : t0.rq = t.rq) (hp : t0.prio = t.prio)
    (hs : t0.state = .waiting 0 ∨ ((∃ w, t0.state = .retracting w) ∧ ∀ x ∈ s.redirects, x.1 ≠ t.id))
    (heq : s.addReady t = .ok (s', r)) : NpQ D (R ++ r) s' := by
  obtain ⟨ht, hr, _, _, _, hre, hget⟩ := addReady_spec heq
  have htk : ∀ x, s'.task? x = s.task? x := task?_congr ht
  have hmr : ∀ x, x ∈ r ↔ ∃ (i : Nat) (q : Queue) (pp : Int) (ts : List TaskId),
      s.queues[i]? = some q ∧ q.prefill = some (pp, ts) ∧ pp < t.prio ∧ x ∈ ts := by
    intro x; rw [hre]; exact mem_addReady_r
  -- an id of a prefill set that is kept is not retracted
  have hkeep : ∀ (j : Nat) (q : Queue) (pp : Int) (ts : List TaskId), s.queues[j]? = some q → q.prefill = some (pp, ts) →
      ¬ pp < t.prio → ∀ id ∈ ts, id ∉ r := by
    intro j q pp ts hq hpf hnl id hid hin
    obtain ⟨i, q2, pp2, ts2, hq2, hpf2, hlt2, hid2⟩ := (hmr id).mp hin
    have e := h.pf_unique hq hq2 (mem_pfIds.mpr ⟨pp, ts, hpf, hid⟩) (mem_pfIds.mpr ⟨pp2, ts2, hpf2, hid2⟩)
    subst e
    rw [hq] at hq2; cases hq2
    rw [hpf] at hpf2; cases hpf2
    exact hnl hlt2
  refine npq_iff.mpr ⟨?_, ?_, ?_, ?_⟩
  · intro j q' hq'
    rw [hget] at hq'
    cases hq : s.queues[j]? with
    | none => rw [hq] at hq'; cases hq'
    | some q =>
      rw [hq] at hq'
      simp only [Option.map_some, Option.some.injEq] at hq'
      subst hq'
      have hok := h.qok hq
      refine ⟨addQ_ready_wf hok.wf, ?_, ?_, ?_⟩
      · rintro ⟨xp, xid⟩ hx
        rcases mem_rPairs_addQ.mp hx with ⟨e1, e2⟩ | hx1 | ⟨pp, ts, hpf, hlt, e1, e2⟩
        · simp only [Prod.mk.injEq] at e2
          obtain ⟨rfl, rfl⟩ := e2
          refine readyGood_iff.mpr ⟨t0, by rw [htk]; exact hf, hrq.trans e1.symm, hp, ?_⟩
          rcases hs with hs | ⟨hs1, hs2⟩
          · exact Or.inl hs
          · exact Or.inr (Or.inl ⟨hs1, by rw [hr]; exact hs2⟩)
        · obtain ⟨t1, a, b, c, d⟩ := readyGood_iff.mp (hok.rg _ hx1)
          exact readyGood_iff.mpr ⟨t1, by rw [htk]; exact a, b, c,
            d.mono (fun y hy _ => by rw [hr] at hy; exact hy) (fun e => List.mem_append_left _ e)⟩
        · simp only at e1 e2
          subst e1
          obtain ⟨t1, w, a, b, c, _, e⟩ := pfGood_iff.mp (hok.pg _ ts hpf xid e2)
          refine readyGood_iff.mpr ⟨t1, by rw [htk]; exact a, b, c, Or.inr (Or.inr ⟨⟨w, e⟩, ?_⟩)⟩
          exact List.mem_append_right _ ((hmr xid).mpr ⟨j, q, _, ts, hq, hpf, hlt, e2⟩)
      · have : pfIds (addQ t j q) = pfIds q ∨ pfIds (addQ t j q) = [] := by
          simp only [pfIds, addQ_prefill]
          rcases checkDispose_cases q t.prio with ⟨pp, ts, _, _, e⟩ | ⟨_, e⟩ <;> rw [e]
          · exact Or.inr rfl
          · exact Or.inl rfl
        rcases this with e | e <;> rw [e]
        · exact hok.pnd
        · simp
      · intro pp ts hpf id hid
        rw [addQ_prefill, checkDispose_prefill] at hpf
        obtain ⟨t1, w, a, b, c, d, e⟩ := pfGood_iff.mp (hok.pg pp ts hpf.1 id hid)
        refine pfGood_iff.mpr ⟨t1, w, by rw [htk]; exact a, b, c, ?_, e⟩
        intro hin
        rcases List.mem_append.mp hin with h1 | h1
        · exact d h1
        · exact hkeep j q pp ts hq hpf.1 hpf.2 id hid h1
  · rw [ht]
    intro t1 htm hpre hR hD
    have hR1 : t1.id ∉ R := fun e => hR (List.mem_append_left _ e)
    have hR2 : t1.id ∉ r := fun e => hR (List.mem_append_right _ e)
    have hin := h.pin t1 htm hpre hR1 hD
    rw [inPrefill_iff] at hin ⊢
    obtain ⟨q, hq, hm⟩ := hin
    refine ⟨addQ t t1.rq q, by rw [hget, hq]; rfl, ?_⟩
    obtain ⟨pp, ts, hpf, hmt⟩ := mem_pfIds.mp hm
    refine mem_pfIds.mpr ⟨pp, ts, ?_, hmt⟩
    rw [addQ_prefill, checkDispose_prefill]
    refine ⟨hpf, fun hlt => hR2 ((hmr _).mpr ⟨t1.rq, q, pp, ts, hq, hpf, hlt, hmt⟩)⟩
  · rw [List.nodup_append]
    refine ⟨h.rnd, ?_, ?_⟩
    · rw [hre]
      refine disposeAll_snd_nodup (fun q hq => h.pnd q hq) ?_
      rw [List.pairwise_iff_getElem]
      intro i j hi hj hij x hx hx'
      have e := h.pf_unique (List.getElem?_eq_getElem hi) (List.getElem?_eq_getElem hj) hx hx'
      omega
    · intro x hx y hy exy
      subst exy
      obtain ⟨i, q, pp, ts, hq, hpf, _, hid⟩ := (hmr x).mp hy
      exact h.not_pf_of_R hx hq (mem_pfIds.mpr ⟨pp, ts, hpf, hid⟩)
  · intro id hid
    rcases List.mem_append.mp hid with h1 | h1
    · obtain ⟨t1, w, a, b⟩ := isPrefilled_iff.mp (h.rpre id h1)
      exact isPrefilled_iff.mpr ⟨t1, w, by rw [htk]; exact a, b⟩
    · obtain ⟨i, q, pp, ts, hq, hpf, _, hm⟩ := (hmr id).mp h1
      obtain ⟨t1, w, a, _, _, _, e⟩ := pfGood_iff.mp ((h.qok hq).pg pp ts hpf id hm)
      exact isPrefilled_iff.mpr ⟨t1, w, by rw [htk]; exact a, e⟩

end HqModel.Core.NPC
