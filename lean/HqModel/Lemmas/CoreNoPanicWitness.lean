import HqModel.Lemmas.CoreNoPanicDefs
import HqModel.Lemmas.CoreMsgWitness
/-!
C09 progress: concrete runs (all `decide`d).

* `f27Ops` — the finding F27 in the model: every side condition (`OpOk5`, `OpNP`, `NoIdReuse`) holds on every
  operation, the exclusion `NoF27` is false exactly on the last one, and the run stops with
  `insert_sn_task.unreachable`: the exclusion cannot be dropped.
* necessity witnesses for the NEW input side conditions: for each, a run on which all OTHER conditions hold and
  which stops with a panic site of the code.
* `NpOk` — all side conditions of the progress theorems on one operation; non-vacuity: the witness runs of
  `CoreMsgWitness.lean` satisfy them.
-/
namespace HqModel.Core

/-- all side conditions of the C09 progress theorems on one operation (existing `OpOk5` + new `OpNP` + the two
exclusions `OpExcl`) -/
def NpOk (s : State) (op : Op) : Prop := OpOk5 s op ∧ OpNP s op ∧ OpExcl s op

instance (s : State) (op : Op) : Decidable (NpOk s op) := by unfold NpOk; infer_instance

/-- the side conditions without the exclusions -/
def NpOk0 (s : State) (op : Op) : Prop := OpOk5 s op ∧ OpNP s op

instance (s : State) (op : Op) : Decidable (NpOk0 s op) := by unfold NpOk0; infer_instance

/-- the outcome of a run: `none` = no stop, `some site` = stopped at `site` -/
def runStop (ops : List Op) : Option String :=
  match run {} ops with
  | .ok _ => none
  | .error (.panic site) => some site

/-- **F27**: worker 1 runs task 0 and has task 1 prefilled; a task of higher priority arrives, the prefill set is
disposed and task 1 is being retracted (worker 1's prefilled list is empty now); task 0 finishes: worker 1 looks
free; a multi-node task is placed on worker 1; worker 1 had started task 1 from its backlog before the retract
message arrived and reports RunningPrefilled: `task_running` (Retracting arm) calls `insert_sn_task` on a worker
in a multi-node assignment. -/
def f27Ops : List Op :=
  [.newWorker (wkr 1),
   .newRq [{ entries := [⟨0, .amount 5000⟩] }],
   .newRq [{ nNodes := 1 }],
   .newTasks [ntk 0, ntk 1, ntk 2],
   .schedule { sn := [{ rq := 0, v := 0, counts := [(1, 1)], taken := [(1, 0)] }], prefillOrders := [(0, [1])] },
   .newTasks [{ id := (1, 3), rq := 0, prio := 5, crashLimit := .max 5, deps := [] }],
   .update 1 [.running (1, 0) 0] [],
   .update 1 [.finished (1, 0)] [],
   .newTasks [{ id := (2, 0), rq := 1, prio := 9, crashLimit := .max 5, deps := [] }],
   .schedule { mn := [{ rq := 1, sets := [[1]] }] }]

def f27Op : Op := .update 1 [.runningPrefilled (1, 1) 0] []

/-- the outcome of one step -/
def stepStop (s : State) (op : Op) : Option String :=
  match step s op with
  | .ok _ => none
  | .error (.panic site) => some site

theorem stepStop_some {s : State} {op : Op} {site : String} (h : stepStop s op = some site) :
    step s op = .error (.panic site) := by
  unfold stepStop at h
  split at h
  · cases h
  · rename_i site' hs; cases h; exact hs

/-- the state a run from the empty core ends in (the empty state if it stops) -/
def endState (ops : List Op) : State :=
  match run {} ops with
  | .ok (s, _) => s
  | .error _ => {}

theorem f27_witness :
    RunOk NpOk {} f27Ops ∧ NoIdReuse (f27Ops ++ [f27Op]) ∧ runStop f27Ops = none ∧
    NpOk0 (endState f27Ops) f27Op ∧ ¬ OpExcl (endState f27Ops) f27Op ∧
    step (endState f27Ops) f27Op = .error (.panic "insert_sn_task.unreachable") := by
  refine ⟨by decide, by decide, by decide, by decide, by decide, stepStop_some (by decide)⟩

/-! ### non-vacuity: runs that satisfy every side condition -/

example : RunOk NpOk {} resendOps ∧ NoIdReuse resendOps ∧ runStop resendOps = none := by decide
example : RunOk NpOk {} rejectOps ∧ NoIdReuse rejectOps ∧ runStop rejectOps = none := by decide
example : RunOk NpOk {} lossOps ∧ NoIdReuse lossOps ∧ runStop lossOps = none := by decide
example : RunOk NpOk {} depOps ∧ NoIdReuse depOps ∧ runStop depOps = none := by decide

/-! ### necessity of the new input side conditions -/

/-- the condition fails exactly on the last operation and the run stops there at `site` -/
def NecWitness (ops : List Op) (last : Op) (site : String) : Prop :=
  RunOk NpOk {} ops ∧ NoIdReuse (ops ++ [last]) ∧ runStop ops = none ∧
  OpOk5 (endState ops) last ∧ OpExcl (endState ops) last ∧ ¬ OpNP (endState ops) last ∧
  stepStop (endState ops) last = some site

instance (ops : List Op) (last : Op) (site : String) : Decidable (NecWitness ops last site) := by
  unfold NecWitness; infer_instance

def baseOps : List Op :=
  [.newWorker (wkr 1), .newWorker (wkr 2),
   .newRq [{ entries := [⟨0, .amount 5000⟩] }],
   .newTasks [ntk 0, ntk 1]]

def placed : List Op :=
  baseOps ++ [.schedule { sn := [{ rq := 0, v := 0, counts := [(1, 1)], taken := [(1, 0)] }] }]

/-- `NewTasksOk`: an empty message -/
example : NecWitness baseOps (.newTasks []) "on_new_tasks.assert_nonempty" := by decide
/-- `NewTasksOk`: a request id that was never created -/
example : NecWitness baseOps (.newTasks [{ id := (1, 5), rq := 7, prio := 0, crashLimit := .max 5, deps := [] }])
    "task_queues.index" := by decide
/-- `cancel`: a task named twice (the second `remove_sn_task` asserts) -/
example : NecWitness placed (.cancel [(1, 0), (1, 0)]) "remove_sn_task.assert" := by decide
/-- `RetsOk`: the client's cancel list names an Assigned task twice -/
example : NecWitness (placed ++ [.schedule { sn := [{ rq := 0, v := 0, counts := [(2, 1)], taken := [(1, 1)] }] }])
    (.update 1 [.failed (1, 0)] [[(1, 1), (1, 1)]]) "remove_sn_task.assert" := by decide
/-- `UpdNP`: Running from a worker the task is not assigned to -/
example : NecWitness placed (.update 2 [.running (1, 0) 0] []) "task_running.assert_worker" := by decide
/-- `UpdNP`: Running twice -/
example : NecWitness (placed ++ [.update 1 [.running (1, 0) 0] []]) (.update 1 [.running (1, 0) 0] [])
    "task_running.unreachable" := by decide
/-- `UpdNP`: Finished for a task that is Waiting -/
example : NecWitness placed (.update 1 [.finished (1, 1)] []) "task_finished.unreachable" := by decide
/-- `UpdNP`: a message from a worker that is not in the map -/
example : NecWitness placed (.update 9 [.enable 0 0] []) "get_worker" := by decide
/-- `removeWorker`: an unknown worker -/
example : NecWitness placed (.removeWorker 9 "lost" true [] []) "remove_worker.get_worker" := by decide
/-- `SolOk`: an sn entry for a request that does not exist -/
example : NecWitness baseOps (.schedule { sn := [{ rq := 3, v := 0, counts := [], taken := [] }] })
    "request_map.get" := by decide
/-- `SolOk`: more placements than the queue offers -/
example : NecWitness baseOps (.schedule { sn := [{ rq := 0, v := 0, counts := [(1, 2), (2, 1)], taken := [(1, 0), (1, 1)] }] })
    "take_tasks.first_entry_unwrap" := by decide

/-- `NewTasksOk`: a dependency named twice is counted twice but registered once; removing the consumer later
asserts in `remove_task` -/
example : NecWitness (baseOps ++ [.newTasks [ntk 2 0 [(1, 0), (1, 0)]]]) (.cancel [(1, 2)]) "never" ∨
    (RunOk NpOk {} baseOps ∧
     runStop (baseOps ++ [.newTasks [ntk 2 0 [(1, 0), (1, 0)]], .cancel [(1, 2)]]) = some "remove_task.assert_consumer") := by
  right; decide

end HqModel.Core
