import HqModel.Lemmas.CoreNoPanicInv
import HqModel.Lemmas.CoreNoPanicNew
import HqModel.Lemmas.CoreNoPanicReactP6
import HqModel.Lemmas.CoreNoPanicSchedP4
/-!
C09 progress: one step of the core, every operation except `on_remove_worker` (which is `CoreNoPanicLossP*.lean`):
`step_np_of` takes the worker-loss case as a hypothesis, so that the assembly is usable before that file is merged.
-/
namespace HqModel.Core

/-- what `removeWorker_np` states -/
def LossNP : Prop :=
  ∀ (U : List TaskId) (s : State) (w : Nat) (reason : String) (f : Bool) (order : List TaskId)
    (rets : List (List TaskId)), InvF s → QInv U none [] s → NpInv U [] s → (s.worker? w).isSome = true → RetsOk rets →
    NoCorePanic (s.removeWorker w reason f order rets)

/-- **one step never panics** (all operations; the worker-loss case is the hypothesis `hl`) -/
theorem step_np_of (hl : LossNP) {U : List TaskId} {s : State} {op : Op} (hg : CoreGood U s) (hok : OpOk2q s op)
    (hnp : OpNP s op) (hex : OpExcl s op) (hfresh : ∀ x ∈ op.newIds, x ∉ U) (hnd : op.newIds.Nodup) :
    NoCorePanic (step s op) := by
  obtain ⟨hi, hq, hn⟩ := hg
  have hb := NPR.Bd.of hi hq hn
  cases op with
  | newWorker w => exact NoCorePanic.ok _
  | removeWorker w reason f order rets => exact hl U s w reason f order rets hi hq hn hnp.1 hnp.2
  | newRq rqv => exact NoCorePanic.ok _
  | newTasks nts =>
    apply NoCorePanic.of_ok
    exact NP.newTasks_ok hq hi.tw hn.idx hn.q hnp
      (fun nt hnt => hfresh nt.id (List.mem_map_of_mem hnt)) hnd
  | cancel ids =>
    apply NoCorePanic.of_ok
    exact NPR.cancelTasks_ok hb hnp
  | update w us rets =>
    apply NoCorePanic.of_ok
    exact NPR.taskUpdate_ok hb hok hnp.1 hex hnp.2
  | retracted w ids =>
    apply NoCorePanic.of_ok
    exact NP.retractResponse_ok s w ids
  | schedule sol => exact NPS.schedule_np hi hq hn hok hnp

end HqModel.Core
