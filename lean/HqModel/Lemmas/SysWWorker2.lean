import HqModel.Lemmas.SysWWorker
/-!
The worker side of the composed invariant, part 2: the three delivery lemmas in which the worker is involved with the
task (`step_asg`, `step_pre`, `step_back`) and the invariant `bkeys.Nodup`.
-/
namespace HqModel.SysW
open HqModel HqModel.Worker

/-- **not held, one assigned item for `n`** -/
theorem step_asg {n rv : Nat} {s s' : Worker.State} {es : List Entry} {outs : List Worker.Out} (hf : Free s n)
    (hi : itemsW n es = [some rv]) (hs : Worker.step s (.compute es) = .ok (s', outs)) :
    AsgDone rv (evsOuts n outs) s' n := by
  simp only [Worker.step, compute] at hs
  split at hs
  · cases hs
  · rename_i a ha
    obtain ⟨e1, e2⟩ := ok_pair hs
    rw [e1, e2]
    obtain ⟨_, g2, _⟩ := computeEntries_grow (n := n) es ha
    rw [evsOuts_finish n a (fun o ho => by rcases g2 o ho with h | h; cases h; exact h)]
    have := computeEntries_one es (some rv) hi hf rfl ha
    simp only at this
    rcases this with (⟨rv', rest, h⟩ | ⟨rest, h⟩) | ⟨h1, h2⟩
    · exact .inl ⟨rv', rest, h⟩
    · exact .inr (.inl ⟨rest, h⟩)
    · exact .inr (.inr ⟨h1, h2⟩)

/-- **not held, one prefill item for `n`** -/
theorem step_pre {n : Nat} {s s' : Worker.State} {es : List Entry} {outs : List Worker.Out} (hf : Free s n)
    (hi : itemsW n es = [none]) (hs : Worker.step s (.compute es) = .ok (s', outs)) :
    PreDone (evsOuts n outs) s' n := by
  simp only [Worker.step, compute] at hs
  split at hs
  · cases hs
  · rename_i a ha
    obtain ⟨e1, e2⟩ := ok_pair hs
    rw [e1, e2]
    obtain ⟨_, g2, _⟩ := computeEntries_grow (n := n) es ha
    rw [evsOuts_finish n a (fun o ho => by rcases g2 o ho with h | h; cases h; exact h)]
    have := computeEntries_one es none hi hf rfl ha
    exact PreTail.preDone this

theorem flatMap_single {β : Type} (f : Nat → List β) (a0 : Nat) (x : β) :
    ∀ (l : List Nat), l.Nodup → (∀ a ∈ l, a ≠ a0 → f a = []) → f a0 = [x] →
      (a0 ∈ l → l.flatMap f = [x]) ∧ (a0 ∉ l → l.flatMap f = [])
  | [], _, _, _ => ⟨fun h => (by cases h), fun _ => rfl⟩
  | a :: l, hn, h0, h1 => by
    simp only [List.nodup_cons] at hn
    obtain ⟨ih1, ih2⟩ := flatMap_single f a0 x l hn.2 (fun b hb => h0 b (List.mem_cons_of_mem _ hb)) h1
    simp only [List.flatMap_cons]
    by_cases ha : a = a0
    · subst ha
      exact ⟨fun _ => by rw [h1, ih2 hn.1]; rfl, fun h => (h List.mem_cons_self).elim⟩
    · rw [h0 a List.mem_cons_self ha, List.nil_append]
      refine ⟨fun h => ih1 ?_, fun h => ih2 fun h' => h (List.mem_cons_of_mem _ h')⟩
      rcases List.mem_cons.mp h with e | e
      · exact (ha e.symm).elim
      · exact e

theorem sameHold_preDone {n : Nat} {s s' : Worker.State} {P : List Ev} (h : SameHold n s s') (hp : PreDone P s n) :
    PreDone P s' n := by
  rcases hp with ⟨a, b | b⟩ | b | b | ⟨o, a, b⟩ | ⟨a, b⟩
  · exact .inl ⟨a, .inl (h.back b)⟩
  · exact .inl ⟨a, .inr (h.free b)⟩
  · exact .inr (.inl b)
  · exact .inr (.inr (.inl b))
  · exact .inr (.inr (.inr (.inl ⟨o, a, h.free b⟩)))
  · exact .inr (.inr (.inr (.inr ⟨a, h.free b⟩)))

/-- **`n` waits in a backlog, no item for `n`** -/
theorem step_back {n : Nat} {s s' : Worker.State} {op : Worker.Op} {outs : List Worker.Out} (hb : Back s n)
    (hk : s.bkeys.Nodup) (hno : NoItem n op) (hs : Worker.step s op = .ok (s', outs)) :
    PreDone (evsOuts n outs) s' n := by
  cases op with
  | compute es =>
    simp only [Worker.step, compute] at hs
    split at hs
    · cases hs
    · rename_i a ha
      obtain ⟨e1, e2⟩ := ok_pair hs
      rw [e1, e2]
      obtain ⟨_, g2, _⟩ := computeEntries_grow (n := n) es ha
      rw [evsOuts_finish n a (fun o ho => by rcases g2 o ho with h | h; cases h; exact h)]
      exact ((computeEntries_none es hno ha).2 (.inl ⟨rfl, hb⟩)).preDone
  | retract ids =>
    simp only [Worker.step] at hs
    obtain ⟨e1, e2⟩ := ok_pair hs
    rw [e1, e2]
    have hh := retract_hold n s ids
    by_cases hn : n ∈ ids
    · have hf := hh.2 hn hb.1
      have hne : ids ≠ [] := by rintro rfl; cases hn
      simp only [retract, hne, if_false, evsOuts, List.flatMap_cons, List.flatMap_nil, List.append_nil, evsOut]
      split
      · exact .inr (.inr (.inr (.inr ⟨rfl, hf⟩)))
      · exact .inl ⟨rfl, .inr hf⟩
    · refine .inl ⟨?_, .inl ((hh.1 hn).back hb)⟩
      simp only [retract, evsOuts]
      split
      · rfl
      · simp only [List.flatMap_cons, List.flatMap_nil, List.append_nil, evsOut]
        rw [if_neg]
        simp only [List.mem_flatMap, List.mem_map, List.mem_filter, not_exists, not_and]
        intro rq _ x hx hid
        apply hn
        rw [← hid]
        simpa using hx.2
  | cancel ids =>
    simp only [Worker.step, Except.ok.injEq] at hs
    obtain ⟨g1, _, g3⟩ := cancel_hold n ids (s, [])
    have e1 : s' = (ids.foldl cancelOne (s, [])).1 := (congrArg Prod.fst hs).symm
    have e2 : outs = (ids.foldl cancelOne (s, [])).2 := (congrArg Prod.snd hs).symm
    rw [e1, e2]
    refine .inl ⟨evsOuts_of_none fun o ho => by rcases g1 o ho with h | h; cases h; exact h, g3 hb⟩
  | taskEnd t res en =>
    simp only [Worker.step, taskEnd] at hs
    split at hs
    · cases hs
    · rename_i r hr
      have hrt : r.task.id = t := by simpa using List.find?_some hr
      have htn : t ≠ n := fun e => hb.1 ⟨r, List.mem_of_find?_eq_some hr, hrt.trans e⟩
      split at hs
      · cases hs
      · rename_i a used hpl
        have h0 : SameHold n s ({ s with running := s.running.filter (fun x => x.task.id != t) } : Worker.State) := by
          refine ⟨?_, fun _ => rfl⟩
          constructor
          · rintro ⟨x, hx, e⟩
            exact ⟨x, (List.mem_filter.mp hx).1, e⟩
          · rintro ⟨x, hx, e⟩
            exact (hb.1 ⟨x, hx, e⟩).elim
        have hE1 : EA n ({ s := { s with running := s.running.filter (fun x => x.task.id != t) }, upd := resultUpdates t res } : Acc) = [] := by
          cases res <;> simp [EA, resultUpdates, evsW, htn]
        have hpt := prefillLoop_back (n := n)
          (a := { s := { s with running := s.running.filter (fun x => x.task.id != t) }, upd := resultUpdates t res })
          _ rfl (.inl ⟨hE1, h0.back hb⟩) hpl
        obtain ⟨_, g2, _⟩ := prefillLoop_grow (n := n) _ hpl
        have hev : ∀ o ∈ a.ev, outMsg o = none := fun o ho => by rcases g2 o ho with h | h; cases h; exact h
        split at hs
        · split at hs
          · obtain ⟨e1, e2⟩ := ok_pair hs
            rw [e1, e2]
            refine (congrArg (fun P => PreDone P _ n) ((evsOuts_finish n _ ?_).trans ?_)).mpr
              (sameHold_preDone (s := a.s) (SameHold.of_eq rfl rfl) hpt.preDone)
            · exact hev
            · simp only [EA, List.flatMap_append]
              have : (List.map (fun k => Update.enable k.1 k.2) (List.map (fun x => x.1) (List.filter (fun x => x.2) en))).flatMap (evsW n) = [] := by
                simp only [List.flatMap_eq_nil_iff, List.mem_map]
                rintro u ⟨k, _, rfl⟩
                rfl
              rw [this, List.append_nil]
          · cases hs
        · obtain ⟨e1, e2⟩ := ok_pair hs
          rw [e1, e2, evsOuts_finish n a hev]
          exact hpt.preDone
  | timeoutFire t =>
    simp only [Worker.step, timeoutFire] at hs
    split at hs
    · cases hs
    · split at hs
      · cases hs
      · obtain ⟨e1, e2⟩ := ok_pair hs
        rw [e1, e2]
        have hsh : SameHold n s { s with running := s.running.map fun x =>
            if x.task.id = t then { x with stopSent := true, fired := true } else x } := by
          refine ⟨?_, fun _ => rfl⟩
          simp only [isRun, List.mem_map]
          constructor
          · rintro ⟨r', ⟨x, hx, rfl⟩, e⟩
            refine ⟨x, hx, ?_⟩
            split at e <;> exact e
          · rintro ⟨x, hx, e⟩
            refine ⟨_, ⟨x, hx, rfl⟩, ?_⟩
            split <;> exact e
        refine .inl ⟨?_, .inl (hsh.back hb)⟩
        apply evsOuts_of_none
        intro o ho
        split at ho
        · cases ho
        · simp only [List.mem_singleton] at ho; subst ho; rfl
  | retractCheck order =>
    simp only [Worker.step, retractCheck] at hs
    split at hs
    · cases hs; exact .inl ⟨rfl, .inl hb⟩
    · split at hs
      · cases hs; exact .inl ⟨rfl, .inl hb⟩
      · split at hs
        · rename_i hperm
          split at hs
          · cases hs
          · rename_i acc hacc
            obtain ⟨rm, h1, h2, h3⟩ := retractCheckLoop_spec (n := n) s _ order {} acc hacc
            have hon : order.Nodup := (List.isPerm_iff.mp hperm).nodup_iff.mpr hk
            have hrn : rm.Nodup := h2.nodup hon
            obtain ⟨hnr, rq0, hc1, hc0⟩ := hb
            have hev : acc.upd.flatMap (evsW n) = if rq0 ∈ rm then [.rej none] else [] := by
              rw [h3]
              simp only [List.flatMap_nil, List.nil_append]
              obtain ⟨q1, q2⟩ := flatMap_single
                (fun rq => ((s.backlog rq).reverse.map fun t => Update.reject t.id none).flatMap (evsW n))
                rq0 (Ev.rej none) rm hrn
                (fun rq _ hne => by rw [rejects_of_bcount, hc0 rq hne]; rfl)
                (by rw [rejects_of_bcount, hc1]; rfl)
              by_cases hm : rq0 ∈ rm
              · rw [if_pos hm]; exact q1 hm
              · rw [if_neg hm]; exact q2 hm
            have htr : acc.toRemove = rm := by rw [h1]; rfl
            split at hs
            · cases hs; exact .inl ⟨rfl, .inl ⟨hnr, rq0, hc1, hc0⟩⟩
            · obtain ⟨e1, e2⟩ := ok_pair hs
              rw [e1, e2]
              simp only [evsOuts, List.flatMap_cons, List.flatMap_nil, List.append_nil, evsOut, hev, htr]
              by_cases hm : rq0 ∈ rm
              · simp only [hm, if_true]
                refine .inr (.inr (.inr (.inl ⟨none, rfl, hnr, fun rq => ?_⟩)))
                simp only [bcount]
                split
                · rfl
                · rename_i hrq
                  have : rq ≠ rq0 := fun e => hrq (e ▸ hm)
                  exact hc0 rq this
              · simp only [hm, if_false]
                refine .inl ⟨rfl, .inl ⟨hnr, rq0, ?_, fun rq hrq => ?_⟩⟩
                · simp only [bcount, hm, if_false]; exact hc1
                · simp only [bcount]
                  split
                  · rfl
                  · exact hc0 rq hrq
        · cases hs
  | newRq id mts =>
    simp only [Worker.step, newRq] at hs
    split at hs
    · cases hs; exact .inl ⟨rfl, .inl ⟨hb.1, hb.2⟩⟩
    · cases hs
  | stop =>
    simp only [Worker.step] at hs
    cases hs
    exact .inl ⟨rfl, .inl hb⟩

/-! ### `bkeys` has no duplicates -/

theorem cancelOne_bkeys (a : Worker.State × List Worker.Out) (t : Nat) : (cancelOne a t).1.bkeys = a.1.bkeys := by
  obtain ⟨s, outs⟩ := a
  simp only [cancelOne]
  split
  · rfl
  · split <;> rfl

theorem cancel_bkeys : ∀ (ids : List Nat) (a : Worker.State × List Worker.Out),
    (ids.foldl cancelOne a).1.bkeys = a.1.bkeys
  | [], _ => rfl
  | t :: rest, a => by
    simp only [List.foldl_cons]
    rw [cancel_bkeys rest, cancelOne_bkeys]

theorem step_bkeys {s s' : Worker.State} {op : Worker.Op} {outs : List Worker.Out} (hk : s.bkeys.Nodup)
    (hs : Worker.step s op = .ok (s', outs)) : s'.bkeys.Nodup := by
  cases op with
  | compute es =>
    simp only [Worker.step, compute] at hs
    split at hs
    · cases hs
    · rename_i a ha
      obtain ⟨e1, _⟩ := ok_pair hs
      rw [e1]
      exact (computeEntries_grow (n := 0) es ha).2.2 hk
  | retract ids =>
    simp only [Worker.step] at hs
    obtain ⟨e1, _⟩ := ok_pair hs
    rw [e1]; exact hk
  | cancel ids =>
    simp only [Worker.step, Except.ok.injEq] at hs
    have e1 : s' = (ids.foldl cancelOne (s, [])).1 := (congrArg Prod.fst hs).symm
    rw [e1, cancel_bkeys]; exact hk
  | taskEnd t res en =>
    simp only [Worker.step, taskEnd] at hs
    split at hs
    · cases hs
    · split at hs
      · cases hs
      · rename_i a used hpl
        obtain ⟨_, _, g3⟩ := prefillLoop_grow (n := 0) _ hpl
        split at hs
        · split at hs
          · obtain ⟨e1, _⟩ := ok_pair hs
            rw [e1]; show a.s.bkeys.Nodup; rw [g3]; exact hk
          · cases hs
        · obtain ⟨e1, _⟩ := ok_pair hs
          rw [e1]; show a.s.bkeys.Nodup; rw [g3]; exact hk
  | timeoutFire t =>
    simp only [Worker.step, timeoutFire] at hs
    split at hs
    · cases hs
    · split at hs
      · cases hs
      · obtain ⟨e1, _⟩ := ok_pair hs
        rw [e1]; exact hk
  | retractCheck order =>
    simp only [Worker.step, retractCheck] at hs
    split at hs
    · cases hs; exact hk
    · split at hs
      · cases hs; exact hk
      · split at hs
        · split at hs
          · cases hs
          · split at hs
            · cases hs; exact hk
            · obtain ⟨e1, _⟩ := ok_pair hs
              rw [e1]; exact hk.filter _
        · cases hs
  | newRq id mts =>
    simp only [Worker.step, newRq] at hs
    split at hs
    · cases hs; exact hk
    · cases hs
  | stop =>
    simp only [Worker.step] at hs
    cases hs; exact hk

end HqModel.SysW
