import HqModel.Lemmas.SysWFrame2
/-!
`FrW` for `task_failed`, `task_finished`, `task_running`, `task_reject`, `on_retract_response`, `on_remove_worker`
(the traversal is the one of `Lemmas/SysCoreFrame3.lean`). Modes:

* `ownM id` — the reported task `id` is released by everybody and may be acquired (its own transition is described
  by the specifications of `Lemmas/SysWCore*.lean`), every other task is calm;
* `ownL ids` — the same for the ids of a retract response;
* `lostM w` — worker `w` releases everything, nothing is acquired (the first part of `on_remove_worker`);
* `lostA w` — … and tasks may be acquired (`lostRetracting`: redirect targets).
-/
namespace HqModel.Core

def ownM (t0 : TaskId) : Mode := { rel := fun _ id => id = t0, acq := fun id => id = t0 }
def ownL (ids : List TaskId) : Mode := { rel := fun _ id => id ∈ ids, acq := fun id => id ∈ ids }
def lostM (w : Nat) : Mode := { rel := fun x _ => x = w }
def lostA (w : Nat) : Mode := { rel := fun x _ => x = w, acq := fun _ => True }

theorem Frq.to {m : Mode} (hs : m.sch → False) {s s' : State} (h : Frq s s') : FrW m s s' :=
  FrW.mono (calm_le m) hs h

theorem Frq.own {t0 : TaskId} {s s' : State} (h : Frq s s') : FrW (ownM t0) s s' := h.to (fun e => e)
theorem Frq.ownL {ids : List TaskId} {s s' : State} (h : Frq s s') : FrW (ownL ids) s s' := h.to (fun e => e)
theorem Frq.lost {w : Nat} {s s' : State} (h : Frq s s') : FrW (lostM w) s s' := h.to (fun e => e)
theorem Frq.lostA {w : Nat} {s s' : State} (h : Frq s s') : FrW (lostA w) s s' := h.to (fun e => e)
theorem FrW.lostA {w : Nat} {s s' : State} (h : FrW (lostM w) s s') : FrW (Core.lostA w) s s' :=
  FrW.mono (show (lostM w).le (Core.lostA w) from ⟨fun _ _ e => e, fun _ e => False.elim e, fun e => e⟩) (fun e => e) h

/-- the reported task itself: anything goes -/
theorem sok_own {t0 : TaskId} {a b : TS} : SOk (fun x => (ownM t0).rel x t0) ((ownM t0).acq t0) a b :=
  SOk.free (fun _ _ => rfl) rfl

theorem taskFailed_frq {s s' : State} {worker : Option Nat} {id : TaskId} {ret : List TaskId} {o : Out}
    (h : s.taskFailed worker id ret = .ok (s', o)) : Frq s s' := by
  simp only [State.taskFailed] at h
  split at h
  · cases h; exact Frq.refl _
  · rename_i task ht
    split at h
    · cases h
    · rename_i s1 hpre
      have f1 : Frq s s1 := by
        clear h
        repeat' split at hpre
        all_goals first
          | (cases hpre; done)
          | (cases hpre; exact Frq.refl _)
          | exact resetMnAll_frq _ _ _ hpre
          | exact FrW.withWorker (removeSn_wrelw _ _ _) hpre
          | exact tryRemoveRedirection_frq hpre
          | (rename_i hrp; exact (removePrefilled_core hrp).frw.trans (FrW.withWorker (removePrefill_wrelw _ _) hpre))
      split at h
      · cases h
      · rename_i consumers hc
        split at h
        · cases h
        · rename_i s2 h2
          have f2 := removeWaitingAll_frq _ _ _ h2
          split at h
          · cases h
          · rename_i s3 st h3
            have f123 : Frq s s3 := (f1.trans f2).trans (removeTask_frq h3)
            clear hpre f1 f2 h2 h3 hc ht
            repeat' split at h
            all_goals first
              | (cases h; done)
              | (cases h; exact f123)
              | (cases h; exact f123.trans (cancelTasks_frq (by assumption)))

theorem wakeConsumers_frq (cs : List TaskId) (s s' : State) (r r' : List TaskId)
    (h : s.wakeConsumers cs r = .ok (s', r')) : Frq s s' := by
  induction cs generalizing s r with
  | nil => simp only [State.wakeConsumers] at h; cases h; exact Frq.refl _
  | cons c rest ih =>
    simp only [State.wakeConsumers] at h
    split at h
    · cases h
    · rename_i t hg
      split at h
      · rename_i n hs
        have f1 : Frq s (s.setTask { t with state := .waiting n }) :=
          FrW.setState (task?_of_get hg) rfl (hs ▸ SOk.of_keep trivial rfl)
        split at h
        · split at h
          · cases h
          · rename_i s2 r2 ha
            exact (f1.trans (addReady_core ha).frw).trans (ih _ _ h)
        · exact f1.trans (ih _ _ h)
      · cases h

theorem taskFinished_frw {s s' : State} {w : Nat} {id : TaskId} {o : Out} {b : Bool}
    (h : s.taskFinished w id = .ok (s', o, b)) : FrW (ownM id) s s' := by
  simp only [State.taskFinished] at h
  split at h
  · cases h; exact FrW.refl _ _
  · rename_i task ht
    have hid : task.id = id := findTask_some_id ht
    split at h
    · cases h
    · rename_i s1 hpre
      have f1 : Frq s s1 := by
        clear h
        repeat' split at hpre
        all_goals first
          | (cases hpre; done)
          | exact resetMnChecked_frq _ _ _ _ hpre
          | exact FrW.withWorker (removeSn_wrelw _ _ _) hpre
          | exact tryRemoveRedirection_frq hpre
      have e1 : s1.tasks = s.tasks := by
        clear h
        repeat' split at hpre
        all_goals first
          | (cases hpre; done)
          | exact resetMnChecked_tasks _ _ _ _ hpre
          | exact withWorker_tasks hpre
          | exact tryRemoveRedirection_tasks hpre
      have f2 : FrW (ownM id) s1 (s1.setTask { task with state := .finished }) :=
        FrW.setState (task?_congr e1 ht) rfl (hid ▸ sok_own)
      split at h
      · cases h
      · rename_i s3 retracted h3
        have f3 := wakeConsumers_frq _ _ _ _ _ h3
        split at h
        · cases h
        · rename_i s4 out h4
          have f4 := retract_frq h4
          split at h
          · cases h
          · rename_i s5 st h5
            have f5 := removeTask_frq h5
            split at h
            · cases h
            · cases h
              exact (((f1.own.trans f2).trans f3.own).trans f4.own).trans f5.own

theorem requestEnabled_frq {s s' : State} {w rq rv : Nat} (h : s.requestEnabled w rq rv = .ok s') : Frq s s' := by
  simp only [State.requestEnabled] at h
  refine FrW.withWorker ?_ h
  intro wk wk' e
  cases e
  exact wrelw_same rfl rfl

theorem taskReject_frw {s s' : State} {w : Nat} {id : TaskId} {rv : Option Nat} {o : Out} {b : Bool}
    (h : s.taskReject w id rv = .ok (s', o, b)) : FrW (ownM id) s s' := by
  simp only [State.taskReject] at h
  split at h
  · cases h; exact FrW.refl _ _
  · rename_i task ht
    have htid : task.id = id := findTask_some_id ht
    split at h
    · cases h
    · rename_i wk0 hg
      have hf := getWorker_spec hg
      have hid := findWorker_some_id hf
      -- the worker record with the updated blocked list
      have W : ∀ wk : Worker, (wk = wk0 ∨ ∃ b, wk = { wk0 with blocked := b }) → FrW (ownM id) s (s.setWorker wk) := by
        intro wk hwk
        refine FrW.setWorker (wk := wk0) (by rw [hid]; exact hf) ?_
        rcases hwk with e | ⟨b, e⟩
        · subst e; exact WRelW.refl _ _
        · subst e; exact wrelw_same rfl rfl
      have requeue : ∀ (s1 : State), FrW (ownM id) s s1 → s1.tasks = s.tasks →
          (match (s1.setTask { task with state := .waiting 0 }).addReady { task with state := .waiting 0 } with
            | .error e => (.error e : M (State × Out × Bool))
            | .ok (s2, retracted) =>
              match s2.retract retracted with
              | .error e => .error e
              | .ok (s3, out) => .ok (s3, out, true)) = .ok (s', o, b) → FrW (ownM id) s s' := by
        intro s1 fs e1 h
        have f1 : FrW (ownM id) s1 (s1.setTask { task with state := .waiting 0 }) :=
          FrW.setState (task?_congr e1 ht) rfl (htid ▸ sok_own)
        split at h
        · cases h
        · rename_i s2 retracted ha
          split at h
          · cases h
          · rename_i s3 out hr
            cases h
            exact ((fs.trans f1).trans (addReady_core ha).frw).trans (retract_frq hr).own
      split at h
      · split at h
        · exact requeue _ (W _ (by cases rv <;> first | exact .inl rfl | exact .inr ⟨_, rfl⟩)) rfl h
        · split at h
          · exact requeue _ (W _ (by cases rv <;> first | exact .inl rfl | exact .inr ⟨_, rfl⟩)) rfl h
          · split at h
            · cases h
            · split at h
              · cases h
              · rename_i s1 hw
                exact requeue _ ((W _ (by cases rv <;> first | exact .inl rfl | exact .inr ⟨_, rfl⟩)).trans
                  (FrW.withWorker (removeSn_wrelw _ id _) hw)) (by have := withWorker_tasks hw; exact this) h
      · split at h
        · cases h
        · rename_i s1 hw
          split at h
          · cases h
          · rename_i s2 hp
            exact requeue _ (((W _ (by cases rv <;> first | exact .inl rfl | exact .inr ⟨_, rfl⟩)).trans
              (FrW.withWorker (removePrefill_wrelw _ id) hw)).trans (removePrefilled_core hp).frw)
              ((removePrefilled_tasks hp).trans (by have := withWorker_tasks hw; exact this)) h
      · split at h
        · cases h; exact W _ (by cases rv <;> first | exact .inl rfl | exact .inr ⟨_, rfl⟩)
        · split at h
          · rename_i target trv hfind
            cases h
            have R : ∀ (wk : Worker) (rd : List (TaskId × Nat × Nat)), (wk = wk0 ∨ ∃ b, wk = { wk0 with blocked := b }) →
                FrW (ownM id) s (({ s.setWorker wk with redirects := rd } : State).setTask { task with state := .assigned target trv }) :=
              fun wk rd hwk => (W wk hwk).trans
                (FrW.setState_rd (s := s.setWorker wk) rd (id := id) ht rfl (htid ▸ sok_own))
            exact R _ _ (by cases rv <;> first | exact .inl rfl | exact .inr ⟨_, rfl⟩)
          · exact requeue _ (W _ (by cases rv <;> first | exact .inl rfl | exact .inr ⟨_, rfl⟩)) rfl h
      · -- multi-node: refused by its root before the start was reported
        split at h
        · cases h
        · split at h
          · cases h; exact W _ (by cases rv <;> first | exact .inl rfl | exact .inr ⟨_, rfl⟩)
          · split at h
            · cases h; exact W _ (by cases rv <;> first | exact .inl rfl | exact .inr ⟨_, rfl⟩)
            · split at h
              · cases h; exact W _ (by cases rv <;> first | exact .inl rfl | exact .inr ⟨_, rfl⟩)
              · split at h
                · cases h
                · rename_i s1 hr
                  exact requeue _ ((W _ (by cases rv <;> first | exact .inl rfl | exact .inr ⟨_, rfl⟩)).trans
                    (resetMnChecked_frq _ _ _ _ hr).own) (by have := resetMnChecked_tasks _ _ _ _ hr; exact this) h
      all_goals cases h

/-- `task_running` (the traversal of `taskRunning_spec`) -/
theorem taskRunning_frw {s s' : State} {w : Nat} {id : TaskId} {rv : Nat} {o : Out}
    (h : s.taskRunning w id rv = .ok (s', o)) : FrW (ownM id) s s' := by
  simp only [State.taskRunning] at h
  split at h
  · cases h; exact FrW.refl _ _
  · rename_i task ht
    have htid : task.id = id := findTask_some_id ht
    have fset : FrW (ownM id) s (s.setTask { task with state := .running w rv }) :=
      FrW.setState ht rfl (htid ▸ sok_own)
    split at h
    · -- assigned
      split at h
      · cases h
      · split at h
        · cases h
        · cases h; exact fset
    · -- prefilled
      split at h
      · cases h
      · split at h
        · cases h
        · split at h
          · cases h
          · rename_i s1 hw
            split at h
            · cases h
            · rename_i s2 hq
              cases h
              exact (fset.trans (FrW.withWorker (prefilledToStarted_wrelw _ id _) hw)).trans (queueRemove_core hq).frw
    · -- retracting
      split at h
      · cases h
      · split at h
        · cases h
        · rename_i s1 hq
          split at h
          · cases h
          · rename_i s2 hr
            split at h
            · cases h
            · split at h
              · cases h
              · rename_i s3 hw
                cases h
                have f0 : FrW (ownM id) s (ask (s.setTask { task with state := .running w rv })) :=
                  fset.trans (FrW.ask _ _)
                exact ((f0.trans (queueRemove_core hq).frw).trans (tryRemoveRedirection_frq hr).own).trans
                  (FrW.withWorker (insertSn_wrelw _ id _) hw)
    · -- multi node
      split at h
      · split at h
        · cases h
        · split at h
          · cases h
          · rename_i s1 hw
            cases h
            refine FrW.withWorker ?_ hw
            intro wk wk' e
            split at e
            · rename_i t r f ha
              cases e
              exact ⟨rfl, fun t' r' f' e' => by cases e'; exact .inl ⟨f, ha, fun _ => rfl⟩,
                fun hs => hs.elim⟩
            · cases e; exact WRelW.refl _ _
      · cases h
    all_goals cases h

theorem retractLoop_frw (ids0 : List TaskId) (ids : List TaskId) (hsub : ∀ id ∈ ids, id ∈ ids0) (s s' : State) (w : Nat)
    (acc acc' : List (Nat × TaskId × Nat)) (h : s.retractLoop w ids acc = .ok (s', acc')) : FrW (ownL ids0) s s' := by
  induction ids generalizing s acc with
  | nil => simp only [State.retractLoop] at h; cases h; exact FrW.refl _ _
  | cons id rest ih =>
    have hrest : ∀ x ∈ rest, x ∈ ids0 := fun x hx => hsub x (List.mem_cons_of_mem _ hx)
    have hmem : id ∈ ids0 := hsub id List.mem_cons_self
    simp only [State.retractLoop] at h
    split at h
    · exact ih hrest _ _ h
    · rename_i task ht
      have htid : task.id = id := findTask_some_id ht
      have hfree : ∀ b, SOk (fun x => (ownL ids0).rel x task.id) ((ownL ids0).acq task.id) task.state b :=
        fun b => SOk.free (fun _ _ => htid ▸ hmem) (htid ▸ hmem)
      split at h
      · exact ih hrest _ _ h
      · split at h
        · rename_i target rv hfind
          have f1 : FrW (ownL ids0) s { s with redirects := s.redirects.filter (·.1 ≠ id) } := FrW.of_eq rfl rfl
          have f2 : FrW (ownL ids0) { s with redirects := s.redirects.filter (·.1 ≠ id) }
              (({ s with redirects := s.redirects.filter (·.1 ≠ id) } : State).setTask { task with state := .assigned target rv }) :=
            FrW.setState (s := { s with redirects := s.redirects.filter (·.1 ≠ id) }) (task := task) (id := id) ht rfl
              (hfree _)
          exact (f1.trans f2).trans (ih hrest _ _ h)
        · have f1 : FrW (ownL ids0) s (s.setTask { task with state := .waiting 0 }) := FrW.setState ht rfl (hfree _)
          exact f1.trans (ih hrest _ _ h)

theorem retractResponse_frw {s s' : State} {w : Nat} {ids : List TaskId} {o : Out}
    (h : s.retractResponse w ids = .ok (s', o)) : FrW (ownL ids) s s' := by
  simp only [State.retractResponse] at h
  split at h
  · cases h
  · rename_i s1 items h1
    split at h
    · cases h
    · cases h; exact retractLoop_frw ids ids (fun _ h => h) _ _ _ _ _ h1

/-! ### `on_remove_worker` -/

/-- the task (if known) is at `w` or ownerless -/
def AtW (w : Nat) (s : State) (id : TaskId) : Prop :=
  ∀ task, findTask s.tasks id = some task → owner task.state = some w ∨ owner task.state = none

/-- the task (if known) is at `w`, ownerless, or Retracting (from any worker) -/
def AtOr (w : Nat) (s : State) (id : TaskId) : Prop :=
  ∀ task, findTask s.tasks id = some task →
    owner task.state = some w ∨ owner task.state = none ∨ ∃ x, task.state = .retracting x

theorem AtW.atOr {w : Nat} {s : State} {id : TaskId} (h : AtW w s id) : AtOr w s id :=
  fun task hf => (h task hf).imp (fun x => x) .inl

theorem AtOr.of_step {w : Nat} {s s2 : State} {t' : Task} (h2 : s2.tasks = putTask s.tasks t')
    (hs : owner t'.state = none ∨ ∃ x, t'.state = .retracting x) : ∀ x, AtOr w s x → AtOr w s2 x := by
  intro x hx task hf
  rw [h2, findTask_putTask] at hf
  split at hf
  · cases hfx : findTask s.tasks x with
    | none => rw [hfx] at hf; cases hf
    | some y =>
      rw [hfx] at hf
      simp only [Option.map_some, Option.some.injEq] at hf
      rw [← hf]; exact .inr hs
  · exact hx task hf

theorem AtW.of_step {w : Nat} {s s2 : State} {t' : Task} (h2 : s2.tasks = putTask s.tasks t')
    (hs : owner t'.state = none) : ∀ x, AtW w s x → AtW w s2 x := by
  intro x hx task hf
  rw [h2, findTask_putTask] at hf
  split at hf
  · cases hfx : findTask s.tasks x with
    | none => rw [hfx] at hf; cases hf
    | some y =>
      rw [hfx] at hf
      simp only [Option.map_some, Option.some.injEq] at hf
      rw [← hf]; exact .inr hs
  · exact hx task hf

theorem sok_lost_release {w : Nat} {id : TaskId} {a b : TS} (ha : owner a = some w ∨ owner a = none)
    (hb : owner b = none) : SOk (fun x => (lostM w).rel x id) ((lostM w).acq id) a b := by
  refine SOk.release (fun x hx => ?_) hb
  rcases ha with e | e
  · rw [e] at hx; cases hx; rfl
  · rw [e] at hx; cases hx

theorem lostPrefilled_frw (w : Nat) (ids : List TaskId) (s s' : State) (hp : ∀ id ∈ ids, AtW w s id)
    (h : s.lostPrefilled ids = .ok s') : FrW (lostM w) s s' ∧ ∀ x, AtOr w s x → AtOr w s' x := by
  induction ids generalizing s with
  | nil => simp only [State.lostPrefilled] at h; cases h; exact ⟨FrW.refl _ _, fun _ h => h⟩
  | cons id rest ih =>
    simp only [State.lostPrefilled] at h
    split at h
    · cases h
    · rename_i task hg
      have ht := task?_of_get hg
      have f1 : FrW (lostM w) s (s.setTask { task with inst := task.inst + 1, state := .waiting 0 }) :=
        FrW.setState ht rfl (sok_lost_release (hp id List.mem_cons_self task ht) rfl)
      split at h
      · cases h
      · rename_i s2 hm
        have e2 : s2.tasks = putTask s.tasks { task with inst := task.inst + 1, state := .waiting 0 } :=
          movePrefilledToReady_tasks hm
        obtain ⟨a, b⟩ := ih _ (fun x hx => AtW.of_step e2 rfl x (hp x (List.mem_cons_of_mem _ hx))) h
        exact ⟨(f1.trans (movePrefilledToReady_core hm).frw).trans a, fun x hx => b x (AtOr.of_step e2 (.inl rfl) x hx)⟩

theorem lostAssigned_frw (w : Nat) (ids : List TaskId) (s s' : State) (ru ru' re re' : List TaskId)
    (hp : ∀ id ∈ ids, AtOr w s id) (h : s.lostAssigned ids ru re = .ok (s', ru', re')) : FrW (lostM w) s s' := by
  induction ids generalizing s ru re with
  | nil => simp only [State.lostAssigned] at h; cases h; exact FrW.refl _ _
  | cons id rest ih =>
    simp only [State.lostAssigned] at h
    split at h
    · cases h
    · rename_i task hg
      have ht := task?_of_get hg
      have hat := hp id List.mem_cons_self task ht
      have hrest : ∀ x ∈ rest, AtOr w s x := fun x hx => hp x (List.mem_cons_of_mem _ hx)
      have step : ∀ (s0 : State) (t0 : Task) (ru0 : List TaskId), FrW (lostM w) s s0 → s0.tasks = s.tasks →
          t0.id = task.id → SOk (fun x => (lostM w).rel x task.id) ((lostM w).acq task.id) task.state t0.state →
          (owner t0.state = none ∨ ∃ x, t0.state = .retracting x) →
          (match (s0.setTask { t0 with inst := t0.inst + 1 }).addReady { t0 with inst := t0.inst + 1 } with
            | .error e => (.error e : M (State × List TaskId × List TaskId))
            | .ok (s2, r) => State.lostAssigned s2 rest ru0 (re ++ r)) = .ok (s', ru', re') → FrW (lostM w) s s' := by
        intro s0 t0 ru0 f0 e0 hid hs hown h
        have f1 : FrW (lostM w) s0 (s0.setTask { t0 with inst := t0.inst + 1 }) :=
          FrW.setState (task?_congr e0 ht) hid hs
        split at h
        · cases h
        · rename_i s2 r ha
          have e2 : s2.tasks = putTask s.tasks { t0 with inst := t0.inst + 1 } := by
            rw [addReady_tasks ha]; show putTask s0.tasks _ = _; rw [e0]
          exact ((f0.trans f1).trans (addReady_core ha).frw).trans
            (ih _ _ _ (fun x hx => AtOr.of_step e2 hown x (hrest x hx)) h)
      split at h
      · rename_i hs
        refine step s { task with state := .waiting 0 } _ (FrW.refl _ _) rfl rfl ?_ (.inl rfl) h
        refine sok_lost_release ?_ rfl
        rcases hat with e | e | ⟨x, e⟩
        · exact .inl e
        · exact .inr e
        · rw [hs] at e; cases e
      · split at h
        · cases h
        · rename_i x hs _
          exact step { s with redirects := s.redirects.filter (·.1 ≠ id) } task _ (FrW.of_eq rfl rfl) rfl rfl
            (SOk.refl _ _ _) (.inr ⟨x, hs⟩) h
      · rename_i hnr hnt
        refine step s { task with state := .waiting 0 } _ (FrW.refl _ _) rfl rfl ?_ (.inl rfl) h
        refine sok_lost_release ?_ rfl
        rcases hat with e | e | ⟨x, e⟩
        · exact .inl e
        · exact .inr e
        · exact (hnt x e).elim

theorem lostRetracting_frw (l : List Task) (s s' : State) (w : Nat) (o o' : Out)
    (h : s.lostRetracting w l o = .ok (s', o')) : FrW (lostA w) s s' := by
  induction l generalizing s o with
  | nil => simp only [State.lostRetracting] at h; cases h; exact FrW.refl _ _
  | cons t0 rest ih =>
    simp only [State.lostRetracting] at h
    split at h
    · exact ih _ _ h
    · rename_i task ht
      split at h
      · exact ih _ _ h
      · rename_i hst
        have hst : task.state = .retracting w := Classical.not_not.mp hst
        have hfree : ∀ b, SOk (fun x => (lostA w).rel x task.id) ((lostA w).acq task.id) task.state b :=
          fun b => SOk.free (fun x hx => by rw [hst] at hx; cases hx; rfl) trivial
        split at h
        · rename_i target rv hfind
          have f1 : FrW (lostA w) s { s with redirects := s.redirects.filter (·.1 ≠ task.id) } := FrW.of_eq rfl rfl
          have f2 : FrW (lostA w) { s with redirects := s.redirects.filter (·.1 ≠ task.id) }
              (({ s with redirects := s.redirects.filter (·.1 ≠ task.id) } : State).setTask
                { task with inst := task.inst + 1, state := .assigned target rv }) :=
            FrW.setState (s := { s with redirects := s.redirects.filter (·.1 ≠ task.id) }) (task := task) (id := t0.id)
              ht rfl (hfree _)
          exact (f1.trans f2).trans (ih _ _ h)
        · have f1 : FrW (lostA w) s (s.setTask { task with inst := task.inst + 1, state := .waiting 0 }) :=
            FrW.setState ht rfl (hfree _)
          exact f1.trans (ih _ _ h)

theorem crashLoop_frq (ids : List TaskId) (s s' : State) (f : Bool) (rets : List (List TaskId)) (o o' : Out)
    (h : s.crashLoop f ids rets o = .ok (s', o')) : Frq s s' := by
  induction ids generalizing s rets o with
  | nil => simp only [State.crashLoop] at h; cases h; exact Frq.refl _
  | cons id rest ih =>
    simp only [State.crashLoop] at h
    split at h
    · exact ih _ _ _ h
    · rename_i task ht
      have f1 : Frq s (s.setTask { task with crashes := (crashOutcome task.crashLimit f task.crashes).1 }) :=
        FrW.setSame ht rfl rfl
      split at h
      · split at h
        · cases h
        · rename_i s2 o2 h2
          exact (f1.trans (taskFailed_frq h2)).trans (ih _ _ _ h)
      · exact f1.trans (ih _ _ _ h)

theorem dropWorker_frq (s : State) (w : Nat) : Frq s { s with workers := s.workers.filter (·.id ≠ w) } := by
  refine ⟨TFrW.refl _ _, ?_⟩
  intro x wk' hx
  change findWorker (s.workers.filter (·.id ≠ w)) x = some wk' at hx
  rw [findWorker_filter] at hx
  split at hx
  · cases hx
  · exact ⟨wk', hx, WRelW.refl _ _⟩

theorem filter_root {root w : Nat} {others : List Nat} (h : root ≠ w) :
    (root :: others).filter (· ≠ w) = root :: others.filter (· ≠ w) := by
  simp [List.filter_cons, h]

/-- `on_remove_worker`, split where the composition needs it: up to `lostRetracting` nothing is acquired (`lostM`),
`lostRetracting` hands redirected tasks to their targets, the rest (`retract`, the crash loop) is calm -/
theorem removeWorker_parts {s s' : State} {w : Nat} {reason : String} {f : Bool} {order : List TaskId}
    {rets : List (List TaskId)} {o : Out} (hi : Inv s)
    (h : s.removeWorker w reason f order rets = .ok (s', o)) :
    ∃ s1 s2 s3 s4 running retracted out1 out2,
      FrW (lostM w) s s1 ∧ s1.lostRetracting w s1.tasks {} = .ok (s2, out1) ∧
      s2.retract retracted = .ok (s3, out2) ∧
      s3.crashLoop f running rets ((out1.add out2).add { cbs := [.workerLost w running reason] }) = .ok (s4, o) ∧
      s' = ask s4 ∧ taskIds s1.tasks = taskIds s.tasks := by
  simp only [State.removeWorker, State.worker?] at h
  split at h
  · cases h
  · rename_i wk hfw
    have f0 : FrW (lostM w) s { s with workers := s.workers.filter (·.id ≠ w) } := (dropWorker_frq s w).lost
    split at h
    · cases h
    · rename_i s1 running retracted hp1
      have e1 : taskIds s1.tasks = taskIds s.tasks := by
        have hp1' := hp1
        clear h hp1
        have hlp := lostPrefilled_ids
        have hla := lostAssigned_ids
        have hrm := resetMnAll_tasks
        repeat' (split at hp1')
        all_goals grind [setTask_ids]
      have f1 : FrW (lostM w) { s with workers := s.workers.filter (·.id ≠ w) } s1 := by
        clear h
        split at hp1
        · rename_i A F P ha
          split at hp1
          · cases hp1
          · rename_i hperm
            simp only [Bool.not_eq_false, Bool.and_eq_true, Bool.not_eq_eq_eq_not, Bool.not_true] at hperm
            split at hp1
            · cases hp1
            · rename_i s01 hlp
              have hP : preW s.workers w = P := by rw [preW_of_find hfw]; simp [wPre, ha]
              have hA : asgW s.workers w = A := by rw [asgW_of_find hfw]; simp [wAsg, ha]
              have hpP : ∀ id ∈ P, AtW w { s with workers := s.workers.filter (·.id ≠ w) } id := by
                intro id hid task hft
                have hs := hi.ls.a2 w id (by rw [hP]; exact hid)
                rw [stOf_of_find hft] at hs
                simp only [Option.some.injEq] at hs
                rw [hs]; exact .inl rfl
              have hpA : ∀ id ∈ order, AtOr w { s with workers := s.workers.filter (·.id ≠ w) } id := by
                intro id hid task hft
                have hidA : id ∈ A := by
                  have h1 : order.all A.contains = true := by
                    have := hperm
                    simp only [decide_eq_true_eq] at this
                    exact this.1.1
                  exact mem_of_all_contains h1 id hid
                obtain ⟨st, h1, h2⟩ := hi.ls.a1 w id (by rw [hA]; exact hidA)
                rw [stOf_of_find hft] at h1
                simp only [Option.some.injEq] at h1
                rw [h1]
                cases st <;> simp only [Holds_assigned, Holds_running, Holds_retracting, Holds_waiting, Holds_prefilled,
                  Holds_runningMN, Holds_finished] at h2
                · subst h2; exact .inl rfl
                · exact .inr (.inr ⟨_, rfl⟩)
                · subst h2; exact .inl rfl
              obtain ⟨a, b⟩ := lostPrefilled_frw w _ _ _ hpP hlp
              exact a.trans (lostAssigned_frw w _ _ _ _ _ _ _ (fun id hid => b id (hpA id hid)) hp1)
        · split at hp1
          · cases hp1
          · rename_i task hg
            have ht := task?_of_get hg
            split at hp1
            · rename_i ws hs
              split at hp1
              · rename_i root others
                split at hp1
                · rename_i hroot
                  split at hp1
                  · cases hp1
                  · rename_i s01 hr
                    split at hp1
                    · cases hp1
                    · rename_i s3 r3 ha
                      cases hp1
                      have f2 := (resetMnAll_frq _ _ _ hr).lost (w := w)
                      have f3 : FrW (lostM w) s01 (s01.setTask { task with state := .waiting 0, inst := task.inst + 1 }) :=
                        FrW.setState (task?_congr (resetMnAll_tasks _ _ _ hr) ht) rfl
                          (sok_lost_release (.inl (by rw [hs, hroot]; rfl)) rfl)
                      exact (f2.trans f3).trans (addReady_core ha).frw
                · rename_i hroot
                  cases hp1
                  refine FrW.setState ht rfl (SOk.of_keep ?_ ?_)
                  · rw [hs]; exact ⟨_, congrArg TS.runningMN (filter_root hroot)⟩
                  · rw [hs]; show owner (.runningMN ((root :: others).filter _)) = _; rw [filter_root hroot]; rfl
              · cases hp1
            · cases hp1
      split at h
      · cases h
      · rename_i s2 out1 h2
        split at h
        · cases h
        · rename_i s3 out2 h3
          split at h
          · cases h
          · rename_i s4 out h4
            cases h
            exact ⟨s1, s2, s3, s4, running, retracted, out1, out2, f0.trans f1, h2, h3, h4, rfl, e1⟩

end HqModel.Core
