import HqModel.Props.C09Core
import HqModel.Props.Sys
import HqModel.Lemmas.CoreNoPanicSysJob
/-!
C09 compose (stage 4): the progress theorem of the core (`Props/C09Core.lean`) lifted to the composed system `Sys`
(job layer M4 on top of the core M1).

* `Sys.coreOpOf s op` — the core operation `Sys.step s op` actually hands to `Core.step s.core` (`none`: the action
  does not reach the core — `openJob` / `close` / `forget`, a refused or empty `submit`, a `cancel` that names no
  task, or a `submit` / `cancel` whose world-action argument is inconsistent: `badSubmit` / `badCancel`);
* `Sys.OpNPc` / `Sys.RunNPc` — the NEW input conditions of the core (`Core.OpNP`) and the exclusion of finding F27
  (`Core.OpExcl`), lifted: they are judged on the core operation the step hands over, in the core state it is applied
  to. They are HYPOTHESES of the composed theorems (decidable; a driver evaluates them per step);
* `NPX.GoodU U s` — the invariant of the composed run: `Core.CoreGood U s.core` (ghost `U` = all task ids handed to
  the core so far), `Job.StateWF s.job`, and every id of `U` is still `NPX.Known` to the job layer. The last clause
  is what makes "no task id is submitted twice" (`NoIdReuse`, a hypothesis of `c09_core_run_no_panic`) a THEOREM
  here: an accepted submit hands out only unknown ids (`NPX.submit_fresh`);
* `NPX.good_step`, `NPX.good_no_core_panic`, `NPX.run_good`, `NPX.run_no_core_panic`.
-/
namespace HqModel.Core

/-- `OpOk2q` is `OpOk2` without `QueueOkD` -/
theorem np_ok2q_of_ok2 {s : State} {op : Op} (h : OpOk2 s op) : OpOk2q s op := by
  cases op <;> simp only [OpOk2q, OpOk2] at h ⊢ <;> first | exact h | exact h.2

end HqModel.Core

namespace HqModel.Sys
open HqModel

/-! ### the lifted side conditions -/

/-- the core operation `Sys.step s op` hands to `Core.step s.core` (mirrors `Sys.step`) -/
def coreOpOf (s : State) : Op → Option Core.Op
  | .submit job mf desc nts =>
    match s.job.submit job mf desc with
    | .ok (_, _, .ok _, core) => if ntsOk desc core nts = true ∧ nts.isEmpty = false then some (.newTasks nts) else none
    | _ => none
  | .cancel j ids =>
    match s.job.cancelJob j with
    | .ok (_, _, .canceled ts _) =>
      if ts.isEmpty = false ∧ sameSet ids (ts.map fun t => (j, t)) = true then some (.cancel ids) else none
    | _ => none
  | .newWorker w => some (.newWorker w)
  | .removeWorker w reason f order rets => some (.removeWorker w reason f order rets)
  | .newRq rqv => some (.newRq rqv)
  | .update w us rets => some (.update w us rets)
  | .retracted w ids => some (.retracted w ids)
  | .schedule sol => some (.schedule sol)
  | _ => none

/-- the new input conditions of the core and the exclusion of F27, for an optional core operation -/
def NPcOf (c : Core.State) : Option Core.Op → Prop
  | some cop => Core.OpNP c cop ∧ Core.OpExcl c cop
  | none => True

instance (c : Core.State) (o : Option Core.Op) : Decidable (NPcOf c o) := by
  cases o <;> simp only [NPcOf] <;> infer_instance

/-- **the lifted hypothesis of one world action**: the core operation the step hands to the core (if any) satisfies
the new input conditions `Core.OpNP` (fresh worker id, known lost worker, `RetsOk`, `NewTasksOk`, duplicate-free
cancel list, the worker protocol `UpdNP` on every update, `SolOk`) and the exclusion `Core.OpExcl` (finding F27),
judged in the core state the operation is applied to -/
def OpNPc (s : State) (op : Op) : Prop := NPcOf s.core (coreOpOf s op)

instance (s : State) (op : Op) : Decidable (OpNPc s op) := by unfold OpNPc; infer_instance

/-- `OpNPc` holds for every action of a run, each evaluated in the state it is applied to (as `RunOk`) -/
def RunNPc (s : State) : List Op → Prop
  | [] => True
  | op :: ops =>
    OpNPc s op ∧
    match step s op with
    | .ok (s1, _) => RunNPc s1 ops
    | .error _ => True

instance RunNPc.decidable : ∀ (ops : List Op) (s : State), Decidable (RunNPc s ops)
  | [], _ => isTrue trivial
  | op :: ops, s => by
    simp only [RunNPc]
    cases h : step s op with
    | error e => simp only; infer_instance
    | ok r =>
      obtain ⟨s1, o⟩ := r
      simp only
      have := RunNPc.decidable ops s1
      infer_instance

/-- the ids a world action hands to the core -/
def newIdsOf (s : State) (op : Op) : List TaskId :=
  match coreOpOf s op with
  | some cop => cop.newIds
  | none => []

namespace NPX
open HqModel.Job (StateWF)

/-! ### `Stop.core` comes from `Core.step` only -/

theorem cbStep_not_core {js : Job.State} {rets : List (List TaskId)} {cb : Core.Cb} {site : String} :
    cbStep js rets cb ≠ .error (.core site) := by
  intro h
  cases cb <;> simp only [cbStep] at h <;> (repeat' split at h) <;> cases h

theorem route_not_core : ∀ (cbs : List Core.Cb) (js : Job.State) (rets : List (List TaskId)) (site : String),
    route js rets cbs ≠ .error (.core site) := by
  intro cbs
  induction cbs with
  | nil => intro js rets site h; simp only [route] at h; cases h
  | cons cb rest ih =>
    intro js rets site h
    simp only [route] at h
    split at h
    · rename_i e he
      cases h
      exact cbStep_not_core he
    · split at h
      · rename_i e he
        cases h
        exact ih _ _ _ he
      · cases h

theorem coreStep_core_err {s : State} {cop : Core.Op} {rets : List (List TaskId)} {evs0 : List Job.Ev} {resp : Resp}
    {site : String} (h : coreStep s cop rets evs0 resp = .error (.core site)) :
    Core.step s.core cop = .error (.panic site) := by
  simp only [coreStep] at h
  split at h
  · rename_i site' hs
    cases h
    exact hs
  · split at h
    · rename_i e he
      cases h
      exact absurd he (route_not_core _ _ _ _)
    · split at h <;> cases h

theorem coreStep_core_ok {s s' : State} {cop : Core.Op} {rets : List (List TaskId)} {evs0 : List Job.Ev} {resp : Resp}
    {o : Out} (h : coreStep s cop rets evs0 resp = .ok (s', o)) : Core.step s.core cop = .ok (s'.core, o.core) := by
  simp only [coreStep] at h
  split at h
  · cases h
  · rename_i c' out hs
    split at h
    · cases h
    · split at h
      · cases h; exact hs
      · cases h

/-- what `Sys.step` does when the action reaches the core: a (possibly empty) client request of the job layer that
leads to the job state `js`, then `coreStep`; new ids only come from an accepted submit -/
theorem step_reach {s : State} {op : Op} {cop : Core.Op} (hc : coreOpOf s op = some cop) :
    ∃ js rets evs0 resp, step s op = coreStep { s with job := js } cop rets evs0 resp ∧
      (∃ pre evs', Job.run s.job pre = .ok (js, evs')) ∧
      (cop.newIds = [] ∨
        ∃ job mf desc evs j, s.job.submit job mf desc = .ok (js, evs, .ok j, cop.newIds)) := by
  have direct : ∀ (c : Core.Op) (rets : List (List TaskId)), c.newIds = [] → step s op = coreStep s c rets [] .none →
      ∃ js rets evs0 resp, step s op = coreStep { s with job := js } c rets evs0 resp ∧
      (∃ pre evs', Job.run s.job pre = .ok (js, evs')) ∧
      (c.newIds = [] ∨ ∃ job mf desc evs j, s.job.submit job mf desc = .ok (js, evs, .ok j, c.newIds)) :=
    fun c rets h0 hs => ⟨s.job, rets, [], .none, hs, ⟨[], [], rfl⟩, .inl h0⟩
  cases op with
  | openJob mf => simp only [coreOpOf] at hc; cases hc
  | close j => simp only [coreOpOf] at hc; cases hc
  | forget j allowed => simp only [coreOpOf] at hc; cases hc
  | submit job mf desc nts =>
    simp only [coreOpOf] at hc
    split at hc
    · rename_i js evs j core hj
      split at hc
      · rename_i hcond
        cases hc
        have hids : nts.map (·.id) = core := by
          have := hcond.1
          simp only [ntsOk, Bool.and_eq_true, decide_eq_true_eq] at this
          exact this.1
        refine ⟨js, [], evs, .submit (.ok j), ?_, ⟨[.submit job mf desc], evs ++ [], ?_⟩,
          .inr ⟨job, mf, desc, evs, j, ?_⟩⟩
        · simp only [step, hj, hcond.1, if_true, hcond.2, Bool.false_eq_true, if_false]
        · simp [Job.run, Job.step, hj, Except.map]
        · show s.job.submit job mf desc = .ok (js, evs, .ok j, nts.map (·.id))
          rw [hids]; exact hj
      · cases hc
    · cases hc
  | cancel j ids =>
    simp only [coreOpOf] at hc
    split at hc
    · rename_i js evs ts n hj
      split at hc
      · rename_i hcond
        cases hc
        refine ⟨js, [], evs, .cancel (.canceled ts n), ?_, ⟨[.cancel j], evs ++ [], ?_⟩, .inl rfl⟩
        · simp only [step, hj, hcond.1, Bool.false_eq_true, if_false, hcond.2, if_true]
        · simp [Job.run, Job.step, hj, Except.map]
      · cases hc
    · cases hc
  | newWorker w => simp only [coreOpOf, Option.some.injEq] at hc; subst hc; exact direct _ [] rfl rfl
  | removeWorker w reason f order rets =>
    simp only [coreOpOf, Option.some.injEq] at hc; subst hc; exact direct _ rets rfl rfl
  | newRq rqv => simp only [coreOpOf, Option.some.injEq] at hc; subst hc; exact direct _ [] rfl rfl
  | update w us rets => simp only [coreOpOf, Option.some.injEq] at hc; subst hc; exact direct _ rets rfl rfl
  | retracted w ids => simp only [coreOpOf, Option.some.injEq] at hc; subst hc; exact direct _ [] rfl rfl
  | schedule sol => simp only [coreOpOf, Option.some.injEq] at hc; subst hc; exact direct _ [] rfl rfl

/-- … and when it does not: no `Stop.core`, the core is untouched -/
theorem step_noreach {s : State} {op : Op} (hc : coreOpOf s op = none) :
    (∀ site, step s op ≠ .error (.core site)) ∧ ∀ s' o, step s op = .ok (s', o) → s'.core = s.core := by
  cases op with
  | openJob mf =>
    simp only [step]
    split
    · exact ⟨fun _ h => (by cases h), fun _ _ h => (by cases h)⟩
    · exact ⟨fun _ h => (by cases h), fun _ _ h => (by cases h; rfl)⟩
  | close j => simp only [step]; exact ⟨fun _ h => (by cases h), fun _ _ h => (by cases h; rfl)⟩
  | forget j allowed =>
    simp only [step]
    split
    · exact ⟨fun _ h => (by cases h), fun _ _ h => (by cases h)⟩
    · exact ⟨fun _ h => (by cases h), fun _ _ h => (by cases h; rfl)⟩
  | submit job mf desc nts =>
    simp only [coreOpOf] at hc
    simp only [step]
    split
    · exact ⟨fun _ h => (by cases h), fun _ _ h => (by cases h)⟩
    · rename_i js evs resp core hj
      rw [hj] at hc
      split
      · rename_i j
        simp only at hc
        split
        · rename_i hn
          split
          · exact ⟨fun _ h => (by cases h), fun _ _ h => (by cases h; rfl)⟩
          · rename_i he
            rw [if_pos ⟨hn, by simpa using he⟩] at hc
            cases hc
        · exact ⟨fun _ h => (by cases h), fun _ _ h => (by cases h)⟩
      all_goals exact ⟨fun _ h => (by cases h), fun _ _ h => (by cases h; rfl)⟩
  | cancel j ids =>
    simp only [coreOpOf] at hc
    simp only [step]
    split
    · exact ⟨fun _ h => (by cases h), fun _ _ h => (by cases h)⟩
    · rename_i js evs resp hj
      rw [hj] at hc
      split
      · rename_i ts n
        simp only at hc
        split
        · exact ⟨fun _ h => (by cases h), fun _ _ h => (by cases h; rfl)⟩
        · rename_i he
          split
          · rename_i hs
            rw [if_pos ⟨by simpa using he, hs⟩] at hc
            cases hc
          · exact ⟨fun _ h => (by cases h), fun _ _ h => (by cases h)⟩
      · exact ⟨fun _ h => (by cases h), fun _ _ h => (by cases h; rfl)⟩
  | newWorker w => simp only [coreOpOf] at hc; cases hc
  | removeWorker w reason f order rets => simp only [coreOpOf] at hc; cases hc
  | newRq rqv => simp only [coreOpOf] at hc; cases hc
  | update w us rets => simp only [coreOpOf] at hc; cases hc
  | retracted w ids => simp only [coreOpOf] at hc; cases hc
  | schedule sol => simp only [coreOpOf] at hc; cases hc

theorem coreOpOf_coreOp {s : State} {op : Op} {cop : Core.Op} (hc : coreOpOf s op = some cop) :
    coreOp op = some cop := by
  cases op with
  | submit job mf desc nts =>
    simp only [coreOpOf] at hc
    split at hc
    · split at hc
      · exact hc
      · cases hc
    · cases hc
  | cancel j ids =>
    simp only [coreOpOf] at hc
    split at hc
    · split at hc
      · exact hc
      · cases hc
    · cases hc
  | openJob mf => simp only [coreOpOf] at hc; cases hc
  | close j => simp only [coreOpOf] at hc; cases hc
  | forget j allowed => simp only [coreOpOf] at hc; cases hc
  | newWorker w => exact hc
  | removeWorker w reason f order rets => exact hc
  | newRq rqv => exact hc
  | update w us rets => exact hc
  | retracted w ids => exact hc
  | schedule sol => exact hc

/-- **`Stop.core` arises only from a panic / refusal of `Core.step` on the operation handed over** -/
theorem step_core_err {s : State} {op : Op} {site : String} (h : step s op = .error (.core site)) :
    ∃ cop, coreOpOf s op = some cop ∧ Core.step s.core cop = .error (.panic site) := by
  cases hc : coreOpOf s op with
  | none => exact absurd h ((step_noreach hc).1 site)
  | some cop =>
    obtain ⟨js, rets, evs0, resp, hs, _⟩ := step_reach hc
    rw [hs] at h
    exact ⟨cop, rfl, coreStep_core_err (s := { s with job := js }) h⟩

/-! ### the invariant of the composed run -/

/-- `Core.CoreGood` for the ghost list `U`, the job layer is well-formed and still knows every id of `U` -/
structure GoodU (U : List TaskId) (s : State) : Prop where
  core : Core.CoreGood U s.core
  wf : StateWF s.job
  known : ∀ x ∈ U, Known s.job x

theorem npInv_initState (reserve max : Nat) :
    Core.NpInv [] [] ({ prefillReserve := reserve, prefillMax := max } : Core.State) := by
  refine ⟨⟨?_, ?_⟩, ⟨rfl, ?_, ?_⟩, ⟨?_, ?_⟩, ⟨?_, ?_, ?_, ?_, ?_⟩, ⟨?_, ?_, ?_, ?_, ?_, ?_, ?_⟩⟩
  all_goals first
    | exact List.nodup_nil
    | (intro a ha; cases ha)
    | (intro a ha; simp at ha)

theorem goodU_initState (reserve max : Nat) : GoodU [] (initState reserve max) := by
  refine ⟨⟨(coupled_initState reserve max).inv, ?_, npInv_initState reserve max⟩, Job.init_wf, fun x hx => by cases hx⟩
  exact Core.qinv_init

/-- the new ids of a world action are unknown to the job layer before it, hence not in `U`; and pairwise distinct -/
theorem coreOpOf_fresh {U : List TaskId} {s : State} {op : Op} {cop : Core.Op} (hg : GoodU U s)
    (hc : coreOpOf s op = some cop) : (∀ x ∈ cop.newIds, x ∉ U) ∧ cop.newIds.Nodup := by
  obtain ⟨js, rets, evs0, resp, _, _, hcase⟩ := step_reach hc
  rcases hcase with h0 | ⟨job, mf, desc, evs, j, hj⟩
  · rw [h0]
    exact ⟨fun x hx => (by cases hx), List.nodup_nil⟩
  · obtain ⟨hnd, hfr, _⟩ := submit_fresh hg.wf hj
    exact ⟨fun x hx hu => hfr x hx (hg.known x hu), hnd⟩

/-- **no composed step panics in the core**: in a state satisfying the invariant, for an action satisfying `OpOk`
and the lifted conditions `OpNPc`, a stop `Stop.core site` is a `!…` refusal of an invalid recorded input -/
theorem good_no_core_panic {U : List TaskId} {s : State} {op : Op} (hg : GoodU U s) (hok : OpOk s op)
    (hnp : OpNPc s op) (site : String) (h : step s op = .error (.core site)) : site.startsWith "!" = true := by
  obtain ⟨cop, hc, hs⟩ := step_core_err h
  have hnp' : Core.OpNP s.core cop ∧ Core.OpExcl s.core cop := by
    unfold OpNPc at hnp; rw [hc] at hnp; exact hnp
  obtain ⟨hf, hnd⟩ := coreOpOf_fresh hg hc
  exact C09.c09_core_step_no_panic hg.core (Core.np_ok2q_of_ok2 (opOk2_of_opOk hok (coreOpOf_coreOp hc)))
    hnp'.1 hnp'.2 hf hnd site hs

/-- **the invariant is inductive over `Sys.step`** -/
theorem good_step {U : List TaskId} {s s' : State} {op : Op} {o : Out} (hg : GoodU U s) (hok : OpOk s op)
    (hnp : OpNPc s op) (h : step s op = .ok (s', o)) : GoodU (U ++ newIdsOf s op) s' := by
  have hjr := step_job_run h
  have hwf' : StateWF s'.job := Job.run_wf _ hg.wf hjr
  have hgrow := run_jgrow _ hjr
  cases hc : coreOpOf s op with
  | none =>
    have hcore := (step_noreach hc).2 s' o h
    simp only [newIdsOf, hc, List.append_nil]
    exact ⟨by rw [hcore]; exact hg.core, hwf', fun x hx => hgrow.known (hg.known x hx)⟩
  | some cop =>
    have hnp' : Core.OpNP s.core cop ∧ Core.OpExcl s.core cop := by
      unfold OpNPc at hnp; rw [hc] at hnp; exact hnp
    obtain ⟨hf, hnd⟩ := coreOpOf_fresh hg hc
    obtain ⟨js, rets, evs0, resp, hs, _, hcase⟩ := step_reach hc
    rw [hs] at h
    have hcs : Core.step s.core cop = .ok (s'.core, o.core) := coreStep_core_ok (s := { s with job := js }) h
    simp only [newIdsOf, hc]
    refine ⟨Core.coreGood_step hg.core (Core.np_ok2q_of_ok2 (opOk2_of_opOk hok (coreOpOf_coreOp hc)))
      hnp'.1 hnp'.2 hf hnd hcs, hwf', ?_⟩
    intro x hx
    rcases List.mem_append.mp hx with hx | hx
    · exact hgrow.known (hg.known x hx)
    · rcases hcase with h0 | ⟨job, mf, desc, evs, j, hj⟩
      · rw [h0] at hx; cases hx
      · obtain ⟨evs2, _, hr2⟩ := coreStep_job_run h
        exact (run_jgrow _ hr2).known ((submit_fresh hg.wf hj).2.2 x hx)

/-- the ghost list of a run: all ids handed to the core -/
def runIds : State → List Op → List TaskId
  | _, [] => []
  | s, op :: ops =>
    newIdsOf s op ++
    match step s op with
    | .ok (s1, _) => runIds s1 ops
    | .error _ => []

/-- **the invariant holds after every run** whose actions satisfy `OpOk` and `OpNPc` -/
theorem run_good : ∀ (ops : List Op) {U : List TaskId} {s s' : State} {outs : List Out}, GoodU U s → RunOk s ops →
    RunNPc s ops → run s ops = .ok (s', outs) → GoodU (U ++ runIds s ops) s' := by
  intro ops
  induction ops with
  | nil =>
    intro U s s' outs hg _ _ h
    simp only [run] at h; cases h
    simpa [runIds] using hg
  | cons op rest ih =>
    intro U s s' outs hg hok hnp h
    simp only [run] at h
    split at h
    · cases h
    · rename_i s1 o1 h1
      simp only [RunOk, h1] at hok
      simp only [RunNPc, h1] at hnp
      split at h
      · cases h
      · rename_i s2 os h2
        cases h
        have := ih (good_step hg hok.1 hnp.1 h1) hok.2 hnp.2 h2
        simpa [runIds, h1, List.append_assoc] using this

/-- **no such run stops with a panic of the core** -/
theorem run_no_core_panic : ∀ (ops : List Op) {U : List TaskId} {s : State}, GoodU U s → RunOk s ops →
    RunNPc s ops → ∀ site, run s ops = .error (.core site) → site.startsWith "!" = true := by
  intro ops
  induction ops with
  | nil => intro U s _ _ _ site h; simp only [run] at h; cases h
  | cons op rest ih =>
    intro U s hg hok hnp site h
    simp only [run] at h
    split at h
    · rename_i e he
      cases h
      exact good_no_core_panic hg hok.1 hnp.1 site he
    · rename_i s1 o1 h1
      simp only [RunOk, h1] at hok
      simp only [RunNPc, h1] at hnp
      split at h
      · rename_i e he
        cases h
        exact ih (good_step hg hok.1 hnp.1 h1) hok.2 hnp.2 site he
      · cases h

end NPX

end HqModel.Sys
