import HqModel.Lemmas.CoreNoPanicBase
/-!
C09 progress, queue correspondence `NpQ`: shared vocabulary for the list-level lemmas.

* `tidLt` is a strict total order;
* `rPairs ready` — the `(priority, id)` pairs of a ready list; for a well-formed list (`ReadyWf`) they are distinct;
* with the priority clause of `ReadyGood` (an id is stored under the priority of its task) every id occurs at most
  once in a queue (`NpQ.ready_nodup`), and ready list and prefill set of a queue are disjoint.
-/
namespace HqModel.Core

namespace NP

theorem tidLt_irrefl (a : TaskId) : tidLt a a = false := by
  simp [tidLt]

theorem tidLt_trans {a b c : TaskId} (h1 : tidLt a b = true) (h2 : tidLt b c = true) : tidLt a c = true := by
  simp only [tidLt, Bool.or_eq_true, decide_eq_true_eq, Bool.and_eq_true, beq_iff_eq] at *
  omega

theorem tidLt_asymm {a b : TaskId} (h1 : tidLt a b = true) : tidLt b a = false := by
  cases h : tidLt b a with
  | false => rfl
  | true => have := tidLt_trans h1 h; rw [tidLt_irrefl] at this; cases this

theorem tidLt_total {a b : TaskId} (h1 : tidLt a b = false) (h2 : a ≠ b) : tidLt b a = true := by
  obtain ⟨a1, a2⟩ := a
  obtain ⟨b1, b2⟩ := b
  simp only [tidLt, Bool.or_eq_false_iff, decide_eq_false_iff_not, Bool.and_eq_false_imp, beq_iff_eq,
    Bool.or_eq_true, decide_eq_true_eq, Bool.and_eq_true] at *
  have : ¬ (a1 = b1 ∧ a2 = b2) := fun ⟨e1, e2⟩ => h2 (by rw [e1, e2])
  omega

/-- a strictly ascending id list has no duplicates -/
theorem nodup_of_asc {l : List TaskId} (h : l.Pairwise (fun a b => tidLt a b = true)) : l.Nodup := by
  refine List.Pairwise.imp ?_ h
  intro a b hab e
  subst e
  rw [tidLt_irrefl] at hab; cases hab

/-- the `(priority, id)` pairs of a ready list -/
def rPairs (ready : List (Int × List TaskId)) : List (Int × TaskId) :=
  ready.flatMap fun e => e.2.map fun id => (e.1, id)

theorem mem_rPairs {ready : List (Int × List TaskId)} {p : Int} {id : TaskId} :
    (p, id) ∈ rPairs ready ↔ ∃ e ∈ ready, e.1 = p ∧ id ∈ e.2 := by
  simp only [rPairs, List.mem_flatMap, List.mem_map, Prod.mk.injEq]
  constructor
  · rintro ⟨e, he, x, hx, e1, e2⟩; subst e1 e2; exact ⟨e, he, rfl, hx⟩
  · rintro ⟨e, he, e1, hx⟩; exact ⟨e, he, id, hx, e1, rfl⟩

theorem mem_rIds {ready : List (Int × List TaskId)} {id : TaskId} :
    id ∈ rIds ready ↔ ∃ e ∈ ready, id ∈ e.2 := by
  simp only [rIds, List.mem_flatten, List.mem_map]
  constructor
  · rintro ⟨l, ⟨e, he, rfl⟩, hx⟩; exact ⟨e, he, hx⟩
  · rintro ⟨e, he, hx⟩; exact ⟨e.2, ⟨e, he, rfl⟩, hx⟩

theorem mem_rIds_iff_pairs {ready : List (Int × List TaskId)} {id : TaskId} :
    id ∈ rIds ready ↔ ∃ p, (p, id) ∈ rPairs ready := by
  rw [mem_rIds]
  constructor
  · rintro ⟨e, he, hx⟩; exact ⟨e.1, mem_rPairs.mpr ⟨e, he, rfl, hx⟩⟩
  · rintro ⟨p, hp⟩; obtain ⟨e, he, _, hx⟩ := mem_rPairs.mp hp; exact ⟨e, he, hx⟩

theorem rIds_eq_map_rPairs (ready : List (Int × List TaskId)) : rIds ready = (rPairs ready).map (·.2) := by
  induction ready with
  | nil => rfl
  | cons e rest ih =>
    have : rIds (e :: rest) = e.2 ++ rIds rest := by simp [rIds]
    rw [this, ih]
    simp [rPairs, List.map_flatMap, Function.comp_def]

theorem rPairs_nodup_aux : ∀ (ready : List (Int × List TaskId)),
    (ready.map (·.1)).Pairwise (fun a b => a > b) →
    (∀ e ∈ ready, e.2.Pairwise (fun a b => tidLt a b = true)) → (rPairs ready).Nodup
  | [], _, _ => by simp [rPairs]
  | e :: rest, hp, ha => by
    simp only [List.map_cons, List.pairwise_cons] at hp
    have hrest := rPairs_nodup_aux rest hp.2 (fun x hx => ha x (List.mem_cons_of_mem _ hx))
    show (e.2.map (fun id => (e.1, id)) ++ rPairs rest).Nodup
    rw [List.nodup_append]
    refine ⟨?_, hrest, ?_⟩
    · have := nodup_of_asc (ha e List.mem_cons_self)
      rw [List.Nodup, List.pairwise_map]
      exact List.Pairwise.imp (fun hab e => hab (by simpa using e)) this
    · intro x hx y hy exy
      subst exy
      obtain ⟨id, _, rfl⟩ := List.mem_map.mp hx
      obtain ⟨e', he', e1, _⟩ := mem_rPairs.mp hy
      have := hp.1 e'.1 (List.mem_map_of_mem he')
      omega

/-- the pairs of a well-formed ready list are distinct -/
theorem rPairs_nodup {ready : List (Int × List TaskId)} (h : ReadyWf ready) : (rPairs ready).Nodup :=
  rPairs_nodup_aux ready h.prio h.asc

end NP

open NP

/-- all ids of the ready list of a queue that satisfies the priority clause are distinct -/
theorem NpQ.ready_nodup {D R} {s : State} (h : NpQ D R s) {i : Nat} {q : Queue} (hq : s.queues[i]? = some q) :
    (rIds q.ready).Nodup := by
  rw [rIds_eq_map_rPairs]
  have hwf := h.wf q (mem_of_get hq)
  have hnd := rPairs_nodup hwf
  rw [List.Nodup, List.pairwise_map]
  refine List.Pairwise.imp_of_mem ?_ hnd
  intro x y hx hy hne exy
  apply hne
  obtain ⟨p1, id1⟩ := x
  obtain ⟨p2, id2⟩ := y
  simp only at exy
  subst exy
  obtain ⟨e1, he1, rfl, hm1⟩ := mem_rPairs.mp hx
  obtain ⟨e2, he2, rfl, hm2⟩ := mem_rPairs.mp hy
  obtain ⟨t1, ht1, _, hp1, _⟩ := (h.rg' hq he1 hm1).elim
  obtain ⟨t2, ht2, _, hp2, _⟩ := (h.rg' hq he2 hm2).elim
  rw [ht1] at ht2; cases ht2
  rw [← hp1, ← hp2]

/-- ready list and prefill set of a queue are disjoint (an id of the prefill set is not in `R`, a Prefilled task in a
ready list is) -/
theorem NpQ.ready_prefill_disjoint {D R} {s : State} (h : NpQ D R s) {i : Nat} {q : Queue}
    (hq : s.queues[i]? = some q) {id : TaskId} (h1 : id ∈ rIds q.ready) (h2 : id ∈ pfIds q) : False := by
  obtain ⟨e, he, hm⟩ := mem_rIds.mp h1
  obtain ⟨t, ht, _, _, hs⟩ := (h.rg' hq he hm).elim
  unfold pfIds at h2
  split at h2
  · rename_i pp ts hp
    obtain ⟨t', w, ht', _, _, hr, hs'⟩ := (h.pg' hq hp h2).elim
    rw [ht] at ht'; cases ht'
    rcases hs with hs | ⟨⟨w', hs⟩, _⟩ | ⟨_, hs⟩
    · rw [hs] at hs'; cases hs'
    · rw [hs] at hs'; cases hs'
    · exact hr hs
  · cases h2

/-- an id is in the queues of at most one request -/
theorem NpQ.queue_unique {D R} {s : State} (h : NpQ D R s) {i j : Nat} {q q' : Queue}
    (hq : s.queues[i]? = some q) (hq' : s.queues[j]? = some q') {id : TaskId} (h1 : id ∈ qIds q) (h2 : id ∈ qIds q') :
    i = j := by
  have key : ∀ (k : Nat) (qq : Queue), s.queues[k]? = some qq → id ∈ qIds qq → ∃ t, s.task? id = some t ∧ t.rq = k := by
    intro k qq hk hm
    rw [qIds_eq, List.mem_append] at hm
    rcases hm with hm | hm
    · obtain ⟨e, he, hx⟩ := mem_rIds.mp hm
      obtain ⟨t, ht, hr, _⟩ := (h.rg' hk he hx).elim
      exact ⟨t, ht, hr⟩
    · split at hm
      · rename_i pp ts hp
        obtain ⟨t, _, ht, hr, _⟩ := (h.pg' hk hp hm).elim
        exact ⟨t, ht, hr⟩
      · cases hm
  obtain ⟨t1, ht1, e1⟩ := key i q hq h1
  obtain ⟨t2, ht2, e2⟩ := key j q' hq' h2
  rw [ht1] at ht2; cases ht2
  rw [← e1, ← e2]

end HqModel.Core
