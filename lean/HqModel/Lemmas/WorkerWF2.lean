import HqModel.Lemmas.WorkerWF
/-!
`WWF` is an invariant of every step whose message satisfies the server contract, and such a step never panics.
-/
namespace HqModel.Worker

theorem init_WWF (rqs : List (List Nat)) (rem : Option Nat) : WWF (init rqs rem) where
  runRq := by intro r hr; simp [init] at hr
  blRq := by intro rq x hx; simp [init] at hx
  keyRq := by intro rq hrq; simp [init] at hrq
  keys := by intro rq h; simp [init] at h
  disj := by intro r hr; simp [init] at hr
  blNodup := by intro rq; simp [init]
  blCross := by intro rq1 rq2 x1 x2 h1; simp [init] at h1

theorem noBacklog_of_not_mem_backlogIds {s : State} (hw : WWF s) {t : Nat} (h : t ∉ backlogIds s) :
    NoBacklog t s := by
  intro rq x hx heq
  apply h
  simp only [backlogIds, List.mem_flatMap, List.mem_map]
  exact ⟨rq, hw.keys rq (List.ne_nil_of_mem hx), x, hx, heq⟩

theorem cancelOne_WWF (a : State × List Out) (c : Nat) (hw : WWF a.1) : WWF (cancelOne a c).1 := by
  obtain ⟨s, outs⟩ := a
  simp only [cancelOne]
  split
  · exact hw.shrink (fun _ => List.filter_sublist) (fun r hr => ⟨r, hr, rfl, rfl⟩) rfl
      (fun rq hne => hw.keys rq (by
        intro hnil; apply hne; simp only; rw [hnil]; rfl))
      (fun _ h => h)
  · split
    · exact hw
    · exact hw.shrink (fun _ => List.Sublist.refl _)
        (by
          intro r' hr'
          simp only [List.mem_map] at hr'
          obtain ⟨x, hx, rfl⟩ := hr'
          refine ⟨x, hx, ?_⟩
          split <;> exact ⟨rfl, rfl⟩)
        rfl hw.keys (fun _ h => h)

theorem cancel_fold_WWF : ∀ (ids : List Nat) (a : State × List Out),
    WWF a.1 → WWF (ids.foldl cancelOne a).1
  | [], _, h => h
  | c :: ids, a, h => cancel_fold_WWF ids (cancelOne a c) (cancelOne_WWF a c h)

theorem retractCheckLoop_noPanic {s : State} {rem : Nat} : ∀ (order : List Nat) (acc : RcAcc),
    (∀ rq ∈ order, ∃ vs, s.rqs[rq]? = some vs) → NoPanic (retractCheckLoop s rem order acc)
  | [], _, _ => by simp only [retractCheckLoop]; exact NoPanic.ok _
  | rq :: rest, acc, h => by
    obtain ⟨vs, hvs⟩ := h rq List.mem_cons_self
    simp only [retractCheckLoop, hvs]
    split
    · exact retractCheckLoop_noPanic rest _ (fun r hr => h r (List.mem_cons_of_mem _ hr))
    · exact retractCheckLoop_noPanic rest _ (fun r hr => h r (List.mem_cons_of_mem _ hr))

theorem entryReg_of_entryOk {s : State} {e : Entry} (h : entryOk s e = true) : EntryReg s.rqs e := by
  unfold entryOk at h
  split at h
  · cases h
  · rename_i vs hvs
    refine ⟨vs, hvs, ?_⟩
    intro rv hrv
    rw [hrv] at h
    simpa using h

/-- One step under the contract: no panic, and `WWF` is kept. -/
theorem step_WWF {s : State} {op : Op} (hw : WWF s) (hc : contract s op = true) :
    NoPanic (step s op) ∧ ∀ s' outs, step s op = .ok (s', outs) → WWF s' := by
  cases op with
  | compute es =>
    simp only [contract, Bool.and_eq_true, List.all_eq_true, decide_eq_true_eq] at hc
    obtain ⟨⟨hreg, hnd⟩, hheld⟩ := hc
    have hfresh : ∀ e ∈ es, Fresh e.task.id s := by
      intro e he
      have := hheld e he
      simp only [heldIds, List.mem_append, not_or, List.mem_map] at this
      refine ⟨?_, noBacklog_of_not_mem_backlogIds hw this.2⟩
      intro r hr heq
      exact this.1 ⟨r, hr, heq⟩
    obtain ⟨hnp, hok⟩ := computeEntries_WWF es (a := { s := s }) hw
      (fun e he => entryReg_of_entryOk (hreg e he)) hnd hfresh
    simp only [step, compute]
    refine ⟨?_, ?_⟩
    · intro site hs
      split at hs
      · rename_i err he
        cases hs
        exact hnp site he
      · cases hs
    · intro s' outs hs
      split at hs
      · cases hs
      · rename_i a ha
        cases hs
        exact hok a ha
  | retract ids =>
    simp only [step, retract]
    refine ⟨NoPanic.ok _, ?_⟩
    intro s' outs hs
    cases hs
    exact hw.shrink (fun _ => List.filter_sublist) (fun r hr => ⟨r, hr, rfl, rfl⟩) rfl
      (fun rq hne => hw.keys rq (by
        intro hnil; apply hne; simp only; rw [hnil]; rfl))
      (fun _ h => h)
  | cancel ids =>
    simp only [step, cancel]
    refine ⟨NoPanic.ok _, ?_⟩
    intro s' outs hs
    have hs := Except.ok.inj hs
    have := cancel_fold_WWF ids (s, []) hw
    rw [hs] at this
    exact this
  | taskEnd t res en =>
    simp only [step, taskEnd]
    split
    · exact ⟨fun site hs => (by cases hs), fun s' outs hs => (by cases hs)⟩
    · rename_i r hr
      have hrmem := List.mem_of_find?_eq_some hr
      have hw1 : WWF { s with running := s.running.filter (fun x => x.task.id != t) } :=
        hw.shrink (fun _ => List.Sublist.refl _)
          (fun r' hr' => ⟨r', (List.mem_filter.mp hr').1, rfl, rfl⟩) rfl hw.keys (fun _ h => h)
      obtain ⟨hnp, hok⟩ := prefillLoop_WWF (rq := r.task.rq) (rv := r.rv) (h := r.h)
        (s.backlog r.task.rq)
        (a := { s := { s with running := s.running.filter (fun x => x.task.id != t) }, upd := resultUpdates t res })
        hw1 rfl (hw.runRq r hrmem)
      refine ⟨?_, ?_⟩
      · intro site hs
        split at hs
        · rename_i err he
          cases hs
          exact hnp site he
        · split at hs
          · split at hs
            · cases hs
            · cases hs
          · cases hs
      · intro s' outs hs
        split at hs
        · cases hs
        · rename_i a used hpl
          obtain ⟨hw2, _, _⟩ := hok a used hpl
          split at hs
          · split at hs
            · cases hs
              exact hw2.shrink (fun _ => List.Sublist.refl _) (fun r hr => ⟨r, hr, rfl, rfl⟩) rfl hw2.keys
                (fun _ h => h)
            · cases hs
          · cases hs
            exact hw2
  | timeoutFire t =>
    simp only [step, timeoutFire]
    split
    · exact ⟨fun site hs => (by cases hs), fun s' outs hs => (by cases hs)⟩
    · split
      · exact ⟨fun site hs => (by cases hs), fun s' outs hs => (by cases hs)⟩
      · refine ⟨NoPanic.ok _, ?_⟩
        intro s' outs hs
        cases hs
        exact hw.shrink (fun _ => List.Sublist.refl _)
          (by
            intro r' hr'
            simp only [List.mem_map] at hr'
            obtain ⟨x, hx, rfl⟩ := hr'
            refine ⟨x, hx, ?_⟩
            split <;> exact ⟨rfl, rfl⟩)
          rfl hw.keys (fun _ h => h)
  | retractCheck order =>
    simp only [step, retractCheck]
    split
    · exact ⟨NoPanic.ok _, fun s' outs hs => by cases hs; exact hw⟩
    · split
      · exact ⟨NoPanic.ok _, fun s' outs hs => by cases hs; exact hw⟩
      · rename_i rem _
        split
        · rename_i hperm
          have hreg : ∀ rq ∈ order, ∃ vs, s.rqs[rq]? = some vs := by
            intro rq hrq
            exact hw.keyRq rq ((List.isPerm_iff.mp hperm).mem_iff.mp hrq)
          have hnp := retractCheckLoop_noPanic (s := s) (rem := rem) order {} hreg
          refine ⟨?_, ?_⟩
          · intro site hs
            split at hs
            · rename_i err he
              cases hs
              exact hnp site he
            · split at hs <;> cases hs
          · intro s' outs hs
            split at hs
            · cases hs
            · rename_i acc _
              split at hs
              · cases hs; exact hw
              · cases hs
                exact hw.shrink
                  (by intro rq; simp only; split
                      · exact List.nil_sublist _
                      · exact List.Sublist.refl _)
                  (fun r hr => ⟨r, hr, rfl, rfl⟩) rfl
                  (by
                    intro rq hne
                    simp only at hne ⊢
                    split at hne
                    · exact absurd rfl hne
                    · rename_i hnot
                      exact List.mem_filter.mpr ⟨hw.keys rq hne, by simpa using hnot⟩)
                  (fun rq hrq => (List.mem_filter.mp hrq).1)
        · exact ⟨fun site hs => (by cases hs), fun s' outs hs => (by cases hs)⟩
  | newRq id mts =>
    simp only [contract, decide_eq_true_eq] at hc
    simp only [step, newRq, hc, if_true]
    refine ⟨NoPanic.ok _, ?_⟩
    intro s' outs hs
    cases hs
    have mono : ∀ (i : Nat) (vs : List Nat), s.rqs[i]? = some vs → (s.rqs ++ [mts])[i]? = some vs := by
      intro i vs h
      rw [List.getElem?_append_left (by
        rcases List.getElem?_eq_some_iff.mp h with ⟨hlt, _⟩; exact hlt)]
      exact h
    exact
      { runRq := by
          intro r hr
          obtain ⟨vs, hvs, hlt⟩ := hw.runRq r hr
          exact ⟨vs, mono _ _ hvs, hlt⟩
        blRq := hw.blRq
        keyRq := by
          intro rq hrq
          obtain ⟨vs, hvs⟩ := hw.keyRq rq hrq
          exact ⟨vs, mono _ _ hvs⟩
        keys := hw.keys
        disj := hw.disj
        blNodup := hw.blNodup
        blCross := hw.blCross }
  | stop =>
    simp only [step]
    exact ⟨NoPanic.ok _, fun s' outs hs => by cases hs; exact hw⟩

/-- Along a run that satisfies the contract there is no panic and `WWF` holds at the end. -/
theorem run_WWF : ∀ (ops : List Op) {s : State}, WWF s → contractRun s ops = true →
    NoPanic (run s ops) ∧ ∀ s' os, run s ops = .ok (s', os) → WWF s'
  | [], s, hw, _ => by
    simp only [run]
    exact ⟨NoPanic.ok _, fun s' os hs => by cases hs; exact hw⟩
  | op :: ops, s, hw, hc => by
    simp only [contractRun, Bool.and_eq_true] at hc
    obtain ⟨hc1, hc2⟩ := hc
    obtain ⟨hnp, hok⟩ := step_WWF hw hc1
    simp only [run]
    refine ⟨?_, ?_⟩
    · intro site hs
      split at hs
      · rename_i err he
        cases hs
        exact hnp site he
      · rename_i s1 o1 h1
        rw [h1] at hc2
        have ih := (run_WWF ops (hok s1 o1 h1) hc2).1
        split at hs
        · rename_i err he
          cases hs
          exact ih site he
        · cases hs
    · intro s' os hs
      split at hs
      · cases hs
      · rename_i s1 o1 h1
        rw [h1] at hc2
        have ih := (run_WWF ops (hok s1 o1 h1) hc2).2
        split at hs
        · cases hs
        · rename_i s2 os2 h2
          cases hs
          exact ih _ _ h2

end HqModel.Worker
