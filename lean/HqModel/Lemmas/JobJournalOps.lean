import HqModel.Lemmas.JobJournalRec
/-!
# The elementary transitions of one stored job and the records they write

For each elementary transition of the job layer (`set_running_state`, `set_finished_state`, `set_failed_state`,
the `markAll` loop of cancel / abort, `check_termination`) : the records it writes are allowed in the current
meaning of the journal (`recordOk`), and `Inv` holds again afterwards (`Leads`).
-/
namespace HqModel.Emit
open HqModel.Job HqModel.Journal

/-- a non-terminal task of a stored job, seen from the journal -/
theorem Inv.task {s : State} {A : AState} (h : Inv s A) {j t : Nat} {job : Job} {x : Job.TState}
    (hg : s.getJob j = some job) (hx : lookup job.tasks t = some x) (hnt : x.terminal = false) :
    ∃ aj a, alGet A.jobs j = some aj ∧ JSim job aj ∧ aj.find t = some a ∧ a.st = .waiting ∧
      (x = .running → a.inst.isSome = true) := by
  obtain ⟨aj, haj, hs⟩ := h.live hg (.inr ⟨t, x, hx, hnt⟩)
  obtain ⟨a, hfa, -, -, hst, hin⟩ := hs.find hx
  exact ⟨aj, a, haj, hs, hfa, by rw [hst]; exact (oc_waiting_iff x).mpr hnt, hin⟩

theorem getJob_putJob_self {s : State} {j : Nat} {job job' : Job} (hg : s.getJob j = some job) (hid : job'.id = j) :
    (s.putJob job').getJob j = some job' := by
  rw [getJob_putJob, if_pos hid.symm, hg]; rfl

/-! ### `check_termination` -/

theorem tail_leads {s : State} {A : AState} {j : Nat} {job : Job} (s0 : State) (op : Op) (h : Inv s A)
    (hg : s.getJob j = some job) (hin : (alGet A.jobs j).isSome = true) :
    Leads A (job.checkTermination.flatMap (recOfEv s0 op)) s := by
  have hid := getJob_id hg
  unfold Job.checkTermination
  split
  · rename_i hna
    split
    · simpa [recOfEv] using Leads.nil h
    · rename_i hop
      have hop' : job.isOpen = false := by simpa using hop
      have ht := (hasNoActive_iff (getJob_wf h.wf hg)).mp hna
      obtain ⟨aj, haj⟩ := Option.isSome_iff_exists.mp hin
      have hs : JSim job aj := by have := h.sim j job hg; rwa [haj] at this
      have e : List.flatMap (recOfEv s0 op) [Ev.jobCompleted job.id] = [.jobCompleted j] := by
        simp [recOfEv, hid]
      rw [e]
      refine Leads.one h ?_ (h.del hg hop' ht)
      simp [recordOk, haj, hs.isOpen, hop']
      simpa using hs.all_outcome ht
  · simpa using Leads.nil h

/-! ### `set_running_state` -/

theorem setRunning_spec {job job' : Job} {t : Nat} (e : job.setRunning t = .ok job') :
    ∃ x x', lookup job.tasks t = some x ∧ job'.id = job.id ∧ job'.isOpen = job.isOpen ∧
      keys job'.tasks = keys job.tasks ∧
      (∀ k, lookup job'.tasks k = if k = t then some x' else lookup job.tasks k) ∧
      (x.terminal = false → x' = .running) := by
  unfold Job.setRunning at e
  split at e
  · cases e
  · rename_i hl
    cases e
    refine ⟨.waiting, .running, hl, rfl, rfl, keys_setState _ _ _, ?_, fun _ => rfl⟩
    intro k; simp only [lookup_setState, hl]; rfl
  · rename_i x hnw hl
    cases e
    refine ⟨x, x, hl, rfl, rfl, rfl, ?_, ?_⟩
    · intro k; by_cases hk : k = t <;> simp [hk, hl]
    · intro hnt
      cases x <;> simp [Job.TState.terminal] at hnt
      · exact absurd rfl hnw
      · rfl

theorem started_leads {s : State} {A : AState} {j t inst : Nat} {ws : List Nat} {job job' : Job} (h : Inv s A)
    (hg : s.getJob j = some job) (hr : job.setRunning t = .ok job')
    (hnl : ∀ x, lookup job.tasks t = some x → x.terminal = false)
    (hi : instFresh A (j, t) inst = true) (hws : ws.all (fun w => decide (w ≤ A.maxWorker)) = true) :
    Leads A [.taskStarted j t inst ws] (s.putJob job') := by
  obtain ⟨x, x', hx, hid, hop, hk, hl, hx'⟩ := setRunning_spec hr
  have hnt := hnl x hx
  have hrun := hx' hnt
  subst hrun
  have hjid := getJob_id hg
  have hw' : JobWF job' := (getJob_wf h.wf hg).setRunning hr
  obtain ⟨aj, a, haj, hs, hfa, hst, -⟩ := h.task hg hx hnt
  refine Leads.one h ?_ ?_
  · simp only [instFresh, haj, hfa] at hi
    simp only [recordOk, taskIs, haj, hfa, hst, Bool.and_eq_true, hws, and_true, beq_self_eq_true, true_and]
    exact hi
  · rw [step_started haj]
    refine h.put hg (hid.trans hjid) hw' (by simp [haj]) ?_
      (JDep.map_same (h.dep _ (alGet_mem haj)) _ (startF_id t inst ws) (startF_deps t inst ws) (startF_st t inst ws))
    refine hs.map _ (startF_id t inst ws) hop hk ?_
    intro a0 _ x0 hx0 hs0 hi0
    rw [hl]
    by_cases hk0 : a0.id = t
    · rw [hk0, hx] at hx0
      cases hx0
      refine ⟨.running, by simp [hk0], ?_, fun _ => by simp [startF, hk0]⟩
      rw [startF_st, hs0]
      cases x <;> simp [Job.TState.terminal] at hnt <;> rfl
    · refine ⟨x0, by simp [hk0, hx0], by rw [startF_st]; exact hs0, ?_⟩
      simpa [startF, hk0] using hi0

/-! ### one terminal outcome (`set_finished_state`, `set_failed_state`) -/

/-- the invariant after the record that gives task `t` of job `j` outcome `o` -/
theorem outcome_inv {s : State} {A : AState} {j t : Nat} {job job' : Job} {x : Job.TState} (h : Inv s A)
    (hg : s.getJob j = some job) (hx : lookup job.tasks t = some x) (hnt : x.terminal = false)
    (target : Job.TState) (o : Outcome) (ho : oc target = o) (htt : target.terminal = true)
    (hid : job'.id = job.id) (hop : job'.isOpen = job.isOpen) (hk : keys job'.tasks = keys job.tasks)
    (hl : ∀ k, lookup job'.tasks k = if k = t then some target else lookup job.tasks k) (hw : JobWF job')
    (hc : o = .finished ∨ ∀ aj, alGet A.jobs j = some aj → ∀ a ∈ aj.tasks, a.st = .waiting → a.id ≠ t → t ∉ a.deps) :
    Inv (s.putJob job') (setOutcome o A (j, t)) ∧ (alGet (setOutcome o A (j, t)).jobs j).isSome = true := by
  have hjid := getJob_id hg
  obtain ⟨aj, a, haj, hs, -, -, -⟩ := h.task hg hx hnt
  have hne : target ≠ .running := by intro e; rw [e] at htt; cases htt
  have how : o ≠ .waiting := by
    intro e; rw [← ho, oc_waiting_iff, htt] at e; cases e
  rw [step_outcome haj]
  refine ⟨h.put hg (hid.trans hjid) hw (by simp [haj]) ?_ ?_, by simp [alGet_set_self]⟩
  · refine hs.mark o [t] target ho hne hop hk ?_ ?_
    · intro k hk' _
      simp only [List.mem_singleton] at hk'
      rw [hl, if_pos hk']
    · intro k hk'
      simp only [List.mem_singleton] at hk'
      rw [hl, if_neg hk']
  · refine (h.dep _ (alGet_mem haj)).mark o [t] how ?_
    rcases hc with hc | hc
    · exact .inl hc
    · right
      intro a ha hwa hm d hd
      simp only [List.mem_singleton] at hm ⊢
      intro e
      exact hc aj haj a ha hwa hm (e ▸ hd)

theorem setFinished_spec {job job' : Job} {t : Nat} {evs : List Ev} (e : job.setFinished t = .ok (job', evs)) :
    lookup job.tasks t = some .running ∧ job'.id = job.id ∧ job'.isOpen = job.isOpen ∧
      keys job'.tasks = keys job.tasks ∧
      (∀ k, lookup job'.tasks k = if k = t then some .finished else lookup job.tasks k) ∧
      evs = [.finished (job.id, t)] ++ job'.checkTermination := by
  unfold Job.setFinished at e
  split at e
  · cases e
  · rename_i hl
    cases e
    refine ⟨hl, rfl, rfl, keys_setState _ _ _, ?_, rfl⟩
    intro k; simp only [lookup_setState, hl]; rfl
  · cases e

theorem finished_leads {s : State} {A : AState} {j t : Nat} {job job' : Job} {evs : List Ev} (s0 : State) (op : Op)
    (h : Inv s A) (hg : s.getJob j = some job) (hf : job.setFinished t = .ok (job', evs)) :
    Leads A (evs.flatMap (recOfEv s0 op)) (s.putJob job') := by
  obtain ⟨hx, hid, hop, hk, hl, hev⟩ := setFinished_spec hf
  have hjid := getJob_id hg
  have hw' : JobWF job' := (getJob_wf h.wf hg).setFinished hf
  obtain ⟨aj, a, haj, -, hfa, hst, hin⟩ := h.task hg hx rfl
  obtain ⟨hinv, hsome⟩ := outcome_inv h hg hx rfl .finished .finished rfl rfl hid hop hk hl hw' (.inl rfl)
  subst hev
  rw [List.flatMap_append]
  have e : List.flatMap (recOfEv s0 op) [Ev.finished (job.id, t)] = [.taskFinished j t] := by
    simp [recOfEv, hjid]
  rw [e]
  refine Leads.append (Leads.one h ?_ hinv) (tail_leads s0 op hinv (getJob_putJob_self hg (hid.trans hjid)) hsome)
  simp [recordOk, taskIs, haj, hfa, hst, hin rfl]

theorem setFailed_spec {job job' : Job} {t : Nat} {evs : List Ev} (e : job.setFailed t = .ok (job', evs)) :
    ∃ x, lookup job.tasks t = some x ∧ x.terminal = false ∧ job'.id = job.id ∧ job'.isOpen = job.isOpen ∧
      job'.maxFails = job.maxFails ∧ keys job'.tasks = keys job.tasks ∧
      (∀ k, lookup job'.tasks k = if k = t then some .failed else lookup job.tasks k) ∧
      evs = [.failed (job.id, t)] ++ job'.checkTermination := by
  unfold Job.setFailed at e
  split at e
  · cases e
  · rename_i hl
    cases e
    refine ⟨.running, hl, rfl, rfl, rfl, rfl, keys_setState _ _ _, ?_, rfl⟩
    intro k; simp only [lookup_setState, hl]; rfl
  · rename_i hl
    cases e
    refine ⟨.waiting, hl, rfl, rfl, rfl, rfl, keys_setState _ _ _, ?_, rfl⟩
    intro k; simp only [lookup_setState, hl]; rfl
  · cases e

theorem failed_leads {s : State} {A : AState} {j t : Nat} {job job' : Job} {evs : List Ev} (s0 : State) (op : Op)
    (h : Inv s A) (hg : s.getJob j = some job) (hf : job.setFailed t = .ok (job', evs))
    (hc : ∀ aj, alGet A.jobs j = some aj → ∀ a ∈ aj.tasks, a.st = .waiting → a.id ≠ t → t ∉ a.deps) :
    Leads A (evs.flatMap (recOfEv s0 op)) (s.putJob job') := by
  obtain ⟨x, hx, hnt, hid, hop, -, hk, hl, hev⟩ := setFailed_spec hf
  have hjid := getJob_id hg
  have hw' : JobWF job' := (getJob_wf h.wf hg).setFailed hf
  obtain ⟨aj, a, haj, -, hfa, hst, -⟩ := h.task hg hx hnt
  obtain ⟨hinv, hsome⟩ := outcome_inv h hg hx hnt .failed .failed rfl rfl hid hop hk hl hw' (.inr hc)
  subst hev
  rw [List.flatMap_append]
  have e : List.flatMap (recOfEv s0 op) [Ev.failed (job.id, t)] = [.taskFailed j t] := by
    simp [recOfEv, hjid]
  rw [e]
  refine Leads.append (Leads.one h ?_ hinv) (tail_leads s0 op hinv (getJob_putJob_self hg (hid.trans hjid)) hsome)
  simp [recordOk, taskIs, haj, hfa, hst]

/-! ### the `markAll` loop of cancel / abort and the batch record it writes -/

theorem batch_leads {s : State} {A : AState} {j : Nat} {job job1 job' : Job} {ids : List TaskId} {site : String}
    (target : Job.TState) (o : Outcome) (r : Record) (h : Inv s A) (hg : s.getJob j = some job)
    (hm : job.markAll target site ids = .ok job1) (hne : ids ≠ [])
    (ho : oc target = o) (htt : target.terminal = true) (ht3 : target ≠ .finished) (ht4 : target ≠ .failed)
    (htasks : job'.tasks = job1.tasks) (hop : job'.isOpen = job1.isOpen) (hid : job'.id = job1.id) (hw : JobWF job')
    (hrec : meaningStep A r = ids.foldl (setOutcome o) A)
    (hok : recordOk A r = (ids.all (fun id => taskIs A id fun a => a.st == .waiting) && decide ids.Nodup))
    (hc : ∀ aj, alGet A.jobs j = some aj → ∀ a ∈ aj.tasks, a.st = .waiting → (j, a.id) ∉ ids →
      ∀ d ∈ a.deps, (j, d) ∉ ids) :
    Leads A [r] (s.putJob job') ∧ ∃ aj, alGet A.jobs j = some aj ∧
      meaningStep A r = { A with jobs := alSet A.jobs j (mapTasks aj (markF o (ids.map (·.2)))) } := by
  have hjid := getJob_id hg
  have wf := getJob_wf h.wf hg
  have hne1 : target ≠ .running := by intro e; rw [e] at htt; cases htt
  have hne2 : target ≠ .waiting := by intro e; rw [e] at htt; cases htt
  have how : o ≠ .waiting := by
    intro e; rw [← ho, oc_waiting_iff, htt] at e; cases e
  have mh := markAll_hist target site htt ids job job1 hm
  have ms := markAll_spec target site hne1 hne2 ht3 ht4 ids job job1 wf.nodup wf.running hm
  have hown : ∀ p ∈ ids, p.1 = j := fun p hp => (mh.own p hp).trans hjid
  -- the job is live: it has an entry in the journal's table
  obtain ⟨p0, rest, rfl⟩ := List.exists_cons_of_ne_nil hne
  obtain ⟨x0, hx0, hnt0⟩ := mh.before p0 (by simp)
  obtain ⟨aj, -, haj, hs, -, -, -⟩ := h.task hg hx0 hnt0
  generalize hids : p0 :: rest = ids at *
  have hinv : Inv (s.putJob job') (meaningStep A r) := by
    rw [hrec, batch_eq o j ids A aj haj hown]
    refine h.put hg ((hid.trans mh.id).trans hjid) hw (by simp [haj]) ?_ ?_
    · refine hs.mark o (ids.map (·.2)) target ho hne1 (hop.trans mh.isOpen) (by rw [htasks, ms.keys]) ?_ ?_
      · intro k hk _
        obtain ⟨p, hp, rfl⟩ := List.mem_map.mp hk
        rw [htasks]; exact mh.after p hp
      · intro k hk
        rw [htasks]
        refine mh.other k ?_
        intro hm'
        exact hk (List.mem_map.mpr ⟨_, hm', rfl⟩)
    · refine (h.dep _ (alGet_mem haj)).mark o (ids.map (·.2)) how (.inr ?_)
      intro a ha hwa hm' d hd hd'
      obtain ⟨p, hp, rfl⟩ := List.mem_map.mp hd'
      have hp1 := hown p hp
      refine hc aj haj a ha hwa ?_ p.2 hd (by rw [← hp1]; exact hp)
      intro hm''
      exact hm' (List.mem_map.mpr ⟨_, hm'', rfl⟩)
  refine ⟨Leads.one h ?_ hinv, ?_⟩
  · rw [hok]
    simp only [Bool.and_eq_true, List.all_eq_true, decide_eq_true_eq]
    refine ⟨?_, mh.nodup⟩
    intro p hp
    obtain ⟨x, hx, hnt⟩ := mh.before p hp
    obtain ⟨a, hfa, -, -, hst, -⟩ := hs.find hx
    have hp1 := hown p hp
    obtain ⟨pj, pt⟩ := p
    simp only at hp1 hfa
    subst hp1
    have : a.st = .waiting := by rw [hst]; exact (oc_waiting_iff x).mpr hnt
    simp [taskIs, haj, hfa, this]
  · exact ⟨aj, haj, by rw [hrec, batch_eq o j ids A aj haj hown]⟩

/-- the tasks without outcome of job `j` in `A'` are tasks without outcome of `A` outside `ids`, with the same
dependencies -/
def Sub (j : Nat) (ids : List TaskId) (A A' : AState) : Prop :=
  ∀ aj', alGet A'.jobs j = some aj' → ∃ aj, alGet A.jobs j = some aj ∧
    ∀ a' ∈ aj'.tasks, a'.st = .waiting →
      ∃ a ∈ aj.tasks, a.id = a'.id ∧ a.deps = a'.deps ∧ a.st = .waiting ∧ (j, a.id) ∉ ids

theorem tail_get (s0 : State) (op : Op) (job : Job) (A : AState) {j : Nat} (hid : job.id = j) (aj' : AJob)
    (h : alGet ((job.checkTermination.flatMap (recOfEv s0 op)).foldl meaningStep A).jobs j = some aj') :
    alGet A.jobs j = some aj' := by
  unfold Job.checkTermination at h
  split at h
  · split at h
    · simpa [recOfEv] using h
    · simp [recOfEv, meaningStep, hid, alGet_del] at h
  · simpa using h

theorem abort_leads {s : State} {A : AState} {j : Nat} {job job' : Job} {ids : List TaskId} {evs : List Ev}
    (s0 : State) (op : Op) (h : Inv s A) (hg : s.getJob j = some job) (ha : job.abortTasks ids = .ok (job', evs))
    (hc : ∀ aj, alGet A.jobs j = some aj → ∀ a ∈ aj.tasks, a.st = .waiting → (j, a.id) ∉ ids →
      ∀ d ∈ a.deps, (j, d) ∉ ids) :
    Leads A (evs.flatMap (recOfEv s0 op)) (s.putJob job') ∧
      Sub j ids A ((evs.flatMap (recOfEv s0 op)).foldl meaningStep A) := by
  have hjid := getJob_id hg
  have hw' : JobWF job' := (getJob_wf h.wf hg).abortTasks ha
  have hid' := abortTasks_id ha
  unfold Job.abortTasks at ha
  split at ha
  · rename_i hemp
    cases ha
    refine ⟨by simpa using Leads.nil (h.putSame hg hjid (getJob_wf h.wf hg) (h.sim j job hg)), ?_⟩
    intro aj' haj'
    simp only [List.flatMap_nil, List.foldl_nil] at haj'
    have : ids = [] := by simpa using hemp
    subst this
    exact ⟨aj', haj', fun a' ha' hw => ⟨a', ha', rfl, rfl, hw, by simp⟩⟩
  · rename_i hne
    split at ha
    · cases ha
    · rename_i job1 hm
      cases ha
      have hne' : ids ≠ [] := by intro e; simp [e] at hne
      obtain ⟨hl, aj, haj, hstep⟩ := batch_leads (job' := { job1 with cnt := { job1.cnt with aborted := job1.cnt.aborted + ids.length } })
        .aborted .aborted (.tasksAborted ids) h hg hm hne' rfl rfl (by decide) (by decide)
        rfl rfl rfl hw' rfl rfl hc
      have hsome : (alGet (meaningStep A (.tasksAborted ids)).jobs j).isSome = true := by
        rw [hstep]; simp [alGet_set_self]
      rw [List.flatMap_append]
      have e : List.flatMap (recOfEv s0 op) [Ev.aborted ids] = [.tasksAborted ids] := by simp [recOfEv]
      rw [e]
      refine ⟨Leads.append hl (tail_leads s0 op hl.2 (getJob_putJob_self hg (hid'.trans hjid)) hsome), ?_⟩
      intro aj' haj'
      rw [List.foldl_append] at haj'
      have h1 := tail_get s0 op _ _ (hid'.trans hjid) aj' haj'
      simp only [List.foldl_cons, List.foldl_nil] at h1
      rw [hstep] at h1
      simp only [alGet_set_self, Option.some.injEq] at h1
      subst h1
      refine ⟨aj, haj, ?_⟩
      intro a' ha' hw
      simp only [mapTasks_tasks, List.mem_map] at ha'
      obtain ⟨a, ha, rfl⟩ := ha'
      have hm' : a.id ∉ ids.map (·.2) := by
        intro hm'; simp [markF, hm', setO] at hw
      have e' : markF Outcome.aborted (ids.map (·.2)) a = a := by simp [markF, hm']
      rw [e'] at hw ⊢
      refine ⟨a, ha, rfl, rfl, hw, ?_⟩
      intro hm''
      exact hm' (List.mem_map.mpr ⟨_, hm'', rfl⟩)

theorem cancel_leads {s : State} {A : AState} {j : Nat} {job job' : Job} {ids : List TaskId} {evs : List Ev}
    (s0 : State) (op : Op) (h : Inv s A) (hg : s.getJob j = some job) (ha : job.setCancel ids = .ok (job', evs))
    (hc : ∀ aj, alGet A.jobs j = some aj → ∀ a ∈ aj.tasks, a.st = .waiting → (j, a.id) ∉ ids →
      ∀ d ∈ a.deps, (j, d) ∉ ids) :
    Leads A (evs.flatMap (recOfEv s0 op)) (s.putJob job') := by
  have hjid := getJob_id hg
  have hw' : JobWF job' := (getJob_wf h.wf hg).setCancel ha
  have hid' := setCancel_id ha
  unfold Job.setCancel at ha
  split at ha
  · cases ha
    simpa using Leads.nil (h.putSame hg hjid (getJob_wf h.wf hg) (h.sim j job hg))
  · rename_i hne
    split at ha
    · cases ha
    · rename_i job1 hm
      cases ha
      have hne' : ids ≠ [] := by intro e; simp [e] at hne
      obtain ⟨hl, aj, haj, hstep⟩ := batch_leads (job' := { job1 with cnt := { job1.cnt with canceled := job1.cnt.canceled + ids.length } })
        .canceled .canceled (.tasksCanceled ids) h hg hm hne' rfl rfl (by decide) (by decide)
        rfl rfl rfl hw' rfl rfl hc
      have hsome : (alGet (meaningStep A (.tasksCanceled ids)).jobs j).isSome = true := by
        rw [hstep]; simp [alGet_set_self]
      -- the job has an entry: `JobCancel` is allowed and changes nothing
      have hin : (alGet A.jobs j).isSome = true := by simp [haj]
      have e : List.flatMap (recOfEv s0 op) ([Ev.jobCancel job.id, Ev.canceled ids] ++
          ({ job1 with cnt := { job1.cnt with canceled := job1.cnt.canceled + ids.length } } : Job).checkTermination) =
          [.jobCancel j] ++ ([.tasksCanceled ids] ++
            List.flatMap (recOfEv s0 op) ({ job1 with cnt := { job1.cnt with canceled := job1.cnt.canceled + ids.length } } : Job).checkTermination) := by
        simp [recOfEv, hjid]
      rw [e]
      have hc1 : Leads A [.jobCancel j] s := Leads.one h (by simpa [recordOk] using hin) (by exact h)
      exact Leads.append hc1 (Leads.append hl (tail_leads s0 op hl.2 (getJob_putJob_self hg (hid'.trans hjid)) hsome))

end HqModel.Emit
