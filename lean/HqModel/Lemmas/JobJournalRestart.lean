import HqModel.Lemmas.JobJournalRestartDefs
import HqModel.Lemmas.JobJournalIds
import HqModel.Lemmas.JournalRestore
/-!
# The restored job-layer state satisfies the emit invariant

`restart_inv`: for a producible journal `J` whose recorded state is failure-closed, `restore J = .ok (R, X)` gives an M4
state `jobStateOf R X` with `Emit.Inv (jobStateOf R X) (meaning (J ++ [.serverStart uid]))`; `restart_wf`: `StateWF`.
-/
namespace HqModel.Emit
open HqModel.Job HqModel.Journal

/-! ### restore never leaves a Running task -/

/-- every task is Waiting or carries an outcome -/
def Clean (ts : List (Nat × Journal.TState)) : Prop := ∀ p ∈ ts, p.2 = .waiting ∨ p.2.isCompleted = true

theorem attachIds_clean : ∀ (ids : List Nat) {ts ts' : List (Nat × Journal.TState)}, Clean ts →
    attachIds ts ids = .ok ts' → Clean ts'
  | [], _, _, h, e => by simp only [attachIds] at e; cases e; exact h
  | i :: is, ts, ts', h, e => by
    simp only [attachIds] at e
    split at e
    · cases e
    · refine attachIds_clean is ?_ e
      intro p hp
      rcases mem_alSet hp with rfl | hp
      · exact .inl rfl
      · exact h p hp

theorem applyStates_clean (rt : List (Nat × RTask)) {ts : List (Nat × Journal.TState)} (h : Clean ts) :
    Clean (applyStates rt ts) := by
  intro p hp
  simp only [applyStates, List.mem_map] at hp
  obtain ⟨jt, hjt, rfl⟩ := hp
  split
  · split
    · split
      · rename_i hc; exact .inr hc
      · exact h jt hjt
    · exact h jt hjt
  · exact h jt hjt

theorem restoreSubmit_clean {job : Nat} {rt : List (Nat × RTask)} {acc acc' : JobAcc} {d : Journal.TaskDesc}
    (h : Clean acc.tasks) (e : restoreSubmit job rt acc d = .ok acc') : Clean acc'.tasks := by
  simp only [restoreSubmit] at e
  split at e
  · cases e
  · cases e
  · split at e
    · cases e
    · rename_i tasks ha
      cases e
      exact applyStates_clean rt (attachIds_clean _ h ha)

theorem restoreSubmits_clean {job : Nat} {rt : List (Nat × RTask)} : ∀ (ds : List Journal.TaskDesc) {acc acc' : JobAcc},
    Clean acc.tasks → restoreSubmits job rt acc ds = .ok acc' → Clean acc'.tasks
  | [], _, _, h, e => by simp only [restoreSubmits] at e; cases e; exact h
  | d :: ds, acc, acc', h, e => by
    simp only [restoreSubmits] at e
    split at e
    · rename_i acc1 h1
      exact restoreSubmits_clean ds (restoreSubmit_clean h h1) e
    · cases e

theorem restoreJob_clean {id : Nat} {j : RJob} {rj : RestoredJob} {bs : List Batch}
    (e : restoreJob id j = .ok (rj, bs)) : Clean rj.tasks ∧ rj.id = id := by
  simp only [restoreJob] at e
  split at e
  · rename_i acc h1
    cases e
    exact ⟨restoreSubmits_clean _ (show Clean ([] : List (Nat × Journal.TState)) from fun p hp => by cases hp) h1, rfl⟩
  · cases e

theorem restoreJobsFrom_clean : ∀ (l : List (Nat × RJob)) {acc X : Restored},
    (∀ rj ∈ acc.jobs, Clean rj.tasks) → restoreJobsFrom l acc = .ok X → ∀ rj ∈ X.jobs, Clean rj.tasks
  | [], _, _, h, e => by simp only [restoreJobsFrom] at e; cases e; exact h
  | (id, j) :: rest, acc, X, h, e => by
    simp only [restoreJobsFrom] at e
    split at e
    · rename_i rj bs h1
      refine restoreJobsFrom_clean rest ?_ e
      intro rj' hm
      simp only [List.mem_append, List.mem_singleton] at hm
      rcases hm with hm | rfl
      · exact h rj' hm
      · exact (restoreJob_clean h1).1
    · cases e

theorem restore_clean {J : List Record} {R : Restorer} {X : Restored} (e : restore J = .ok (R, X)) :
    ∀ rj ∈ X.jobs, Clean rj.tasks := by
  simp only [restore] at e
  split at e
  · cases e
  · split at e
    · cases e
    · rename_i r hr x hx
      cases e
      exact restoreJobsFrom_clean _ (fun rj hm => by cases hm) hx

theorem restore_fold {J : List Record} {R : Restorer} {X : Restored} (e : restore J = .ok (R, X)) :
    restorerFold J = .ok R := by
  simp only [restore] at e
  split at e
  · cases e
  · rename_i r hr
    split at e
    · cases e
    · cases e; exact hr

/-! ### task ids of a recorded job are pairwise distinct -/

theorem submitsOk_nodup : ∀ (ds : List Journal.TaskDesc) (have_ : List Nat), have_.Nodup → submitsOk have_ ds = true →
    (have_ ++ ds.flatMap (·.ids)).Nodup
  | [], have_, h, _ => by simpa using h
  | d :: ds, have_, h, hok => by
    simp only [submitsOk, Bool.and_eq_true] at hok
    have hnd : (have_ ++ d.ids).Nodup := by
      rw [List.nodup_append]
      refine ⟨h, submitOk_nodup hok.1, ?_⟩
      intro a ha b hb e
      subst e
      exact submitOk_fresh hok.1 a hb ha
    have := submitsOk_nodup ds _ hnd hok.2
    simpa [List.append_assoc] using this

theorem JobRel.ids_nodup {rj : RJob} {aj : AJob} (h : JobRel rj aj) : (aj.tasks.map (·.id)).Nodup := by
  rw [h.ids]
  simpa using submitsOk_nodup rj.submits [] (by simp) h.valid

/-! ### job ids of `meaning` are at most `maxJob`; started jobs too -/

def KeysLe (A : AState) : Prop := ∀ j aj, alGet A.jobs j = some aj → j ≤ A.maxJob

theorem maxJob_step (A : AState) (r : Record) :
    (meaningStep A r).maxJob = match createdJob r with | some j => max A.maxJob j | none => A.maxJob := by
  cases r with
  | submit j closed mf d =>
    cases closed with
    | true => rfl
    | false =>
      simp only [meaningStep, createdJob, Bool.false_eq_true, if_false]
      split <;> rfl
  | jobClose j => simp only [meaningStep, createdJob]; split <;> rfl
  | taskStarted j t i ws => simp only [meaningStep, createdJob, updTask]; split <;> rfl
  | taskFinished j t => simp only [meaningStep, createdJob, setOutcome, updTask]; split <;> rfl
  | taskFailed j t => simp only [meaningStep, createdJob, setOutcome, updTask]; split <;> rfl
  | tasksCanceled ids =>
    simp only [meaningStep, createdJob]
    induction ids generalizing A with
    | nil => rfl
    | cons p rest ih => simp only [List.foldl_cons]; rw [ih]; simp only [setOutcome, updTask]; split <;> rfl
  | tasksAborted ids =>
    simp only [meaningStep, createdJob]
    induction ids generalizing A with
    | nil => rfl
    | cons p rest ih => simp only [List.foldl_cons]; rw [ih]; simp only [setOutcome, updTask]; split <;> rfl
  | _ => rfl

theorem entryStep_isSome {job : Nat} {o : Option AJob} {r : Record} (h : (entryStep job o r).isSome = true) :
    o.isSome = true ∨ createdJob r = some job := by
  cases r with
  | submit j closed mf d =>
    simp only [entryStep] at h
    split at h
    · rename_i hj
      cases closed with
      | true => exact .inr (by simp [createdJob, hj])
      | false => simp at h; exact .inl (by simpa using h)
    · exact .inl h
  | jobOpen j mf =>
    simp only [entryStep] at h
    split at h
    · rename_i hj; exact .inr (by simp [createdJob, hj])
    · exact .inl h
  | jobClose j =>
    simp only [entryStep] at h
    split at h
    · exact .inl (by simpa using h)
    · exact .inl h
  | jobCompleted j =>
    simp only [entryStep] at h
    split at h
    · cases h
    · exact .inl h
  | taskStarted j t i ws =>
    simp only [entryStep] at h
    split at h
    · exact .inl (by simpa using h)
    · exact .inl h
  | taskFinished j t =>
    simp only [entryStep] at h
    split at h
    · exact .inl (by simpa using h)
    · exact .inl h
  | taskFailed j t =>
    simp only [entryStep] at h
    split at h
    · exact .inl (by simpa using h)
    · exact .inl h
  | tasksCanceled ids => simp only [entryStep] at h; exact .inl (by simpa using h)
  | tasksAborted ids => simp only [entryStep] at h; exact .inl (by simpa using h)
  | workerLost w reason => simp only [entryStep] at h; exact .inl (by simpa using h)
  | serverStart _ => exact .inl h
  | serverStop => exact .inl h
  | workerConnected _ _ => exact .inl h
  | workerOverview _ => exact .inl h
  | jobCancel _ => exact .inl h
  | queueCreated _ => exact .inl h
  | queueRemoved _ => exact .inl h
  | allocQueued _ _ => exact .inl h
  | allocStarted _ _ => exact .inl h
  | allocFinished _ _ => exact .inl h

theorem KeysLe.step {A : AState} (h : KeysLe A) (r : Record) :
    KeysLe (meaningStep A r) ∧ A.maxJob ≤ (meaningStep A r).maxJob := by
  have hm := maxJob_step A r
  have hge : A.maxJob ≤ (meaningStep A r).maxJob := by
    rw [hm]; split
    · exact Nat.le_max_left _ _
    · exact Nat.le_refl _
  refine ⟨?_, hge⟩
  intro j aj hj
  rw [entry_eq] at hj
  rcases entryStep_isSome (by rw [hj]; rfl) with h1 | h1
  · obtain ⟨aj0, h0⟩ := Option.isSome_iff_exists.mp h1
    exact Nat.le_trans (h j aj0 h0) hge
  · rw [hm, h1]; exact Nat.le_max_right _ _

/-- along a producible journal: every job with a `TaskStarted` record is at most the final `maxJob` -/
theorem started_le : ∀ (J : List Record) {A : AState}, KeysLe A → producibleFrom A J = true →
    KeysLe (J.foldl meaningStep A) ∧ A.maxJob ≤ (J.foldl meaningStep A).maxJob ∧
    ∀ r ∈ J, ∀ j, startedJob r = some j → j ≤ (J.foldl meaningStep A).maxJob
  | [], _, h, _ => ⟨h, Nat.le_refl _, fun r hr => by cases hr⟩
  | r :: rs, A, h, hp => by
    simp only [producibleFrom, Bool.and_eq_true] at hp
    obtain ⟨h1, h2⟩ := h.step r
    obtain ⟨g1, g2, g3⟩ := started_le rs h1 hp.2
    simp only [List.foldl_cons]
    refine ⟨g1, by omega, ?_⟩
    intro r' hr' j hj
    simp only [List.mem_cons] at hr'
    rcases hr' with rfl | hr'
    · cases r' with
      | taskStarted j' t i ws =>
        simp only [startedJob, Option.some.injEq] at hj
        subst hj
        have hok := hp.1
        simp only [recordOk, taskIs, Bool.and_eq_true] at hok
        cases hg : alGet A.jobs j' with
        | none => rw [hg] at hok; simp at hok
        | some aj => have := h j' aj hg; omega
      | _ => simp [startedJob] at hj
    · exact g3 r' hr' j hj

theorem meaning_keysLe (J : List Record) (hp : Producible J) :
    KeysLe (meaning J) ∧ ∀ r ∈ J, ∀ j, startedJob r = some j → j ≤ (meaning J).maxJob := by
  have := started_le J (A := {}) (fun j aj h => by simp [alGet] at h) hp
  exact ⟨this.1, this.2.2⟩

end HqModel.Emit
