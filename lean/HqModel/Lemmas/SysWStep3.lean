import HqModel.Lemmas.SysWStep2
/-!
`WInv` is inductive over `SysW.step`, part 3: the delivery of a `TaskUpdate` batch. Update by update
(`State.upd1`): the head of the worker's own stream satisfies the worker-protocol side condition `Sys.UpdOk`
(`FinProto` for `finished`, `RejectOk` for `reject`) BECAUSE of the pipeline invariant, and processing it
re-establishes the invariant with the rest of the batch at the head of the queue.
-/
namespace HqModel.SysW
open HqModel HqModel.Core

/-! ### the protocol side conditions from the views -/

theorem finProto_of_hot {c : Core.State} {w : Nat} {t : TaskId} (h : view c w t = .hot) : Sys.FinProto c t := by
  unfold Sys.FinProto
  cases ht : c.task? t with
  | none => trivial
  | some task =>
    simp only
    unfold view at h
    rw [ht] at h
    simp only at h
    cases hs : task.state with
    | running x v => trivial
    | runningMN l =>
      cases l with
      | nil => rw [hs] at h; simp [viewSt] at h
      | cons root rest =>
        rw [hs] at h
        simp only [viewSt] at h
        by_cases hr : root = w
        · subst hr
          simp only [if_true] at h
          by_cases hm : mnStarted c root t = true
          · obtain ⟨wk, r, hw, ha⟩ := mnStarted_iff.mp hm
            simp only [hw, ha]
            first | exact ⟨rfl, rfl⟩ | exact ⟨trivial, trivial⟩ | trivial | simp
          · simp [hm] at h
        · simp [hr] at h
    | waiting n => rw [hs] at h; simp [viewSt] at h
    | finished => rw [hs] at h; simp [viewSt] at h
    | assigned x v => rw [hs] at h; simp only [viewSt] at h; split at h <;> cases h
    | prefilled x => rw [hs] at h; simp only [viewSt] at h; split at h <;> cases h
    | retracting x => rw [hs] at h; simp only [viewSt] at h; split at h <;> cases h

theorem rejectOk_of_view {c : Core.State} {w : Nat} {t : TaskId} {orv : Option Nat} (hq : view c w t ≠ .quiet)
    (ha : ∀ rv, view c w t = .asg rv → orv = some rv) : Core.RejectOk c w t orv := by
  intro task w' rv' ht hs
  have hv : view c w t = viewSt c w t (.assigned w' rv') := by
    unfold view; rw [ht]; simp only; rw [hs]
  by_cases hw : w' = w
  · subst hw
    have : view c w' t = .asg rv' := by rw [hv]; simp [viewSt]
    exact ⟨rfl, ha rv' this⟩
  · exact (hq (by rw [hv]; simp [viewSt, hw])).elim

/-! ### one update -/

/-- the record after one update: messages routed, the queue of the reporting worker replaced -/
def st1 (w : Nat) (q : List W2S) (msgs : List Core.Msg) (y : WState) : WState :=
  route1 { y with w2s := if y.id = w then q else y.w2s } msgs

theorem upd1_sub {c c1 : Core.State} {w : Nat} {u : Core.Update} {rets rets1 : List (List TaskId)} {o1 : Core.Out}
    (h : c.upd1 w u rets = .ok (c1, o1, rets1)) : IdsSub c c1 := by
  cases u <;> simp only [State.upd1] at h <;> split at h <;> first | (cases h; done) | skip
  · rename_i h1; cases h; exact taskFinished_sub h1
  · rename_i h1; cases h; exact taskFailed_sub h1
  · rename_i h1; cases h; exact (taskRunning_stable h1).sub
  · rename_i h1; cases h; exact (taskRunning_stable h1).sub
  · rename_i h1; cases h; exact (taskReject_stable h1).sub
  · rename_i h1; cases h; exact (IdsStable.of_tasks (requestEnabled_tasks h1)).sub

theorem updateState_upd1 {c c1 : Core.State} {w : Nat} {u : Core.Update} {rets rets1 : List (List TaskId)}
    (h : c.updateState w u rets = .ok (c1, rets1)) : ∃ o1, c.upd1 w u rets = .ok (c1, o1, rets1) := by
  cases u <;> simp only [State.updateState] at h <;> simp only [State.upd1] <;> split at h <;>
    first | (cases h; done) | (rename_i h1; cases h; rw [h1]; exact ⟨_, rfl⟩)

theorem pend_updates_cons (t : TaskId) (u : Core.Update) (rest : List Core.Update) (tl : List W2S) :
    pend t (.updates (u :: rest) :: tl) = evsOfUpd t u ++ pend t (.updates rest :: tl) := by
  simp [pend_cons, evsOfMsg, List.flatMap_cons]

/-- **one update of the batch at the head of worker `w`'s queue** -/
theorem upd1_step {c : Core.State} {U : List TaskId} {ws : List WState} {w : Nat} {u : Core.Update}
    {rest : List Core.Update} {tl : List W2S} {rets : List (List TaskId)}
    (hi : InvF c) (hsub : ∀ t ∈ taskIds c.tasks, t ∈ U) (hall : ∀ y ∈ ws, ∀ t, Pipe c U y t)
    (hq : ∀ y ∈ ws, y.id = w → y.w2s = .updates (u :: rest) :: tl) (hex : ∃ x ∈ ws, x.id = w) :
    Sys.UpdOk c w u ∧
    ∀ c1 o1 rets1, c.upd1 w u rets = .ok (c1, o1, rets1) →
      InvF c1 ∧ (∀ t ∈ taskIds c1.tasks, t ∈ U) ∧
      ∀ y ∈ ws.map (st1 w (.updates rest :: tl) o1.msgs), ∀ t, Pipe c1 U y t := by
  obtain ⟨x, hx, hxid⟩ := hex
  have hxq := hq x hx hxid
  -- the head event of the stream about `t`
  have head : ∀ t e, evsOfUpd t u = [e] →
      t ∈ U ∧ PipeOk (view c w t) (comps t x.s2w) (e :: pend t (.updates rest :: tl)) x.w (enc t) := by
    intro t e he
    have hp : pend t x.w2s = e :: pend t (.updates rest :: tl) := by rw [hxq, pend_updates_cons, he]; rfl
    have hu : t ∈ U := by
      apply Classical.byContradiction
      intro hn
      have := ((hall x hx t).2 hn).2.1
      rw [hp] at this; cases this
    have := (hall x hx t).1 hu
    rw [hp, hxid] at this
    exact ⟨hu, this⟩
  have hquiet : ∀ t e, evsOfUpd t u = [e] → view c w t ≠ .quiet := fun t e he => (head t e he).2.head_ne_quiet
  have hok : Sys.UpdOk c w u := by
    cases u with
    | finished t0 =>
      exact ⟨trivial, finProto_of_hot ((head t0 .fin (by simp [evsOfUpd])).2.head_fin)⟩
    | reject t0 orv =>
      obtain ⟨a, b⟩ := (head t0 (.rej orv) (by simp [evsOfUpd])).2.head_rej
      exact ⟨rejectOk_of_view a b, trivial⟩
    | failed t0 => exact ⟨trivial, trivial⟩
    | running t0 rv => exact ⟨trivial, trivial⟩
    | runningPrefilled t0 rv => exact ⟨trivial, trivial⟩
    | enable rq rv => exact ⟨trivial, trivial⟩
  refine ⟨hok, fun c1 o1 rets1 h => ?_⟩
  have hus := upd1_updateState h
  have hi1 : InvF c1 := ⟨updateState_inv hi.inv hok.proto hus, updateState_tw hi.tw hi.inv hok.proto hus⟩
  have hsub1 : ∀ t ∈ taskIds c1.tasks, t ∈ U := fun t ht => hsub t ((upd1_sub h).subset ht)
  obtain ⟨v1, v2, v3⟩ := upd1_views hi.inv.nd (MnOk.of_invF hi) (MnOk.of_invF hi1) hquiet h
  refine ⟨hi1, hsub1, fun y' hy' t => ?_⟩
  obtain ⟨y, hy, rfl⟩ := List.mem_map.mp hy'
  by_cases hyw : y.id = w
  · -- a record of the reporting worker
    have hyq := hq y hy hyw
    rcases evsOfUpd_cases t u with he | ⟨e, he⟩
    · -- the update is not about `t`
      have hp : Pipe c U { y with w2s := if y.id = w then .updates rest :: tl else y.w2s } t :=
        (hall y hy t).congr rfl rfl (by simp only [hyw, if_true]; rw [hyq, pend_updates_cons, he]; rfl) rfl
      refine hp.srv (fun u hu => hu) (fun hne => hsub t (mem_ids_stOf hne)) (fun _ => ?_) (fun hnone => ?_)
      · show Foreign (view c y.id t) (cfor y.id t o1.msgs) (view c1 y.id t)
        exact v1 y.id t (.inr he)
      · exact ⟨fresh_of_foreign (v1 y.id t (.inr he)) hnone, v3 y.id t hnone⟩
    · refine Pipe.own (x := y) (e := e) (hall y hy t) rfl rfl rfl ?_ ?_
      · simp only [hyw, if_true]; rw [hyq, pend_updates_cons, he]; rfl
      · rw [hyw]; exact v2 t e he
  · have hp : Pipe c U { y with w2s := if y.id = w then .updates rest :: tl else y.w2s } t :=
      (hall y hy t).congr rfl rfl (by simp only [hyw, if_false]) rfl
    refine hp.srv (fun u hu => hu) (fun hne => hsub t (mem_ids_stOf hne)) (fun _ => ?_) (fun hnone => ?_)
    · show Foreign (view c y.id t) (cfor y.id t o1.msgs) (view c1 y.id t)
      exact v1 y.id t (.inl hyw)
    · exact ⟨fresh_of_foreign (v1 y.id t (.inl hyw)) hnone, v3 y.id t hnone⟩

/-! ### the whole batch -/

theorem st1_st1 (w : Nat) (q q' : List W2S) (m1 m2 : List Core.Msg) (y : WState) :
    st1 w q' m2 (st1 w q m1 y) = st1 w q' (m1 ++ m2) y := by
  simp only [st1, route1, List.filterMap_append, List.append_assoc]
  congr 1
  split <;> rfl

theorem st1_id (w : Nat) (q : List W2S) (m : List Core.Msg) (y : WState) : (st1 w q m y).id = y.id := rfl

/-- **a `TaskUpdate` batch**: every update satisfies `Sys.UpdOk`, and after the loop the invariant holds with the
batch removed from the queue and all messages routed -/
theorem batch_step (w : Nat) (tl : List W2S) (U : List TaskId) : ∀ (us : List Core.Update) (c : Core.State)
    (ws : List WState) (rets : List (List TaskId)),
    InvF c → (∀ t ∈ taskIds c.tasks, t ∈ U) → (∀ y ∈ ws, ∀ t, Pipe c U y t) →
    (∀ y ∈ ws, y.id = w → y.w2s = .updates us :: tl) → (∃ x ∈ ws, x.id = w) →
    Core.UpdatesOk Sys.UpdOk c w us rets ∧
    ∀ out0 need0 c' out need' rets', c.updateLoop w us rets out0 need0 = .ok (c', out, need', rets') →
      ∃ msgs, out.msgs = out0.msgs ++ msgs ∧ (∀ t ∈ taskIds c'.tasks, t ∈ U) ∧
        ∀ y ∈ ws.map (st1 w tl msgs), ∀ t, Pipe c' U y t := by
  intro us
  induction us with
  | nil =>
    intro c ws rets hi hsub hall hq hex
    refine ⟨trivial, fun out0 need0 c' out need' rets' h => ?_⟩
    simp only [State.updateLoop] at h
    cases h
    refine ⟨[], by simp, hsub, fun y' hy' t => ?_⟩
    obtain ⟨y, hy, rfl⟩ := List.mem_map.mp hy'
    have hp : Pipe c U { y with w2s := if y.id = w then tl else y.w2s } t := by
      refine (hall y hy t).congr rfl rfl ?_ rfl
      by_cases hyw : y.id = w
      · simp only [hyw, if_true]; rw [hq y hy hyw]; simp [pend_cons, evsOfMsg]
      · simp only [hyw, if_false]
    exact hp.srv (fun u hu => hu) (fun hne => hsub t (mem_ids_stOf hne))
      (fun _ => by rw [cfor_nil]; exact Foreign.same _)
      (fun hnone => ⟨.inr (view_none hnone), cfor_nil _ _⟩)
  | cons u rest ih =>
    intro c ws rets hi hsub hall hq hex
    obtain ⟨hok, hstep⟩ := upd1_step (rets := rets) hi hsub hall hq hex
    have hq1 : ∀ m, ∀ y ∈ ws.map (st1 w (.updates rest :: tl) m), y.id = w → y.w2s = .updates rest :: tl := by
      intro m y' hy' hid
      obtain ⟨y, _, rfl⟩ := List.mem_map.mp hy'
      have : y.id = w := hid
      simp [st1, route1, this]
    have hex1 : ∀ m, ∃ x ∈ ws.map (st1 w (.updates rest :: tl) m), x.id = w := by
      intro m
      obtain ⟨x, hx, hxid⟩ := hex
      exact ⟨_, List.mem_map_of_mem hx, hxid⟩
    constructor
    · refine ⟨hok, ?_⟩
      cases hus : c.updateState w u rets with
      | error e => trivial
      | ok r =>
        obtain ⟨c1, rets1⟩ := r
        simp only
        obtain ⟨o1, h1⟩ := updateState_upd1 hus
        obtain ⟨hi1, hsub1, hall1⟩ := hstep c1 o1 rets1 h1
        exact (ih c1 _ rets1 hi1 hsub1 hall1 (hq1 _) (hex1 _)).1
    · intro out0 need0 c' out need' rets' h
      obtain ⟨c1, o1, rets1, need1, h1, h2⟩ := updateLoop_cons_out h
      obtain ⟨hi1, hsub1, hall1⟩ := hstep c1 o1 rets1 h1
      obtain ⟨msgs, e1, e2, e3⟩ := (ih c1 _ rets1 hi1 hsub1 hall1 (hq1 _) (hex1 _)).2 _ _ _ _ _ _ h2
      refine ⟨o1.msgs ++ msgs, by rw [e1, Out.add_msgs, List.append_assoc], e2, ?_⟩
      intro y' hy' t
      obtain ⟨y, hy, rfl⟩ := List.mem_map.mp hy'
      rw [← st1_st1 w (.updates rest :: tl) tl o1.msgs msgs y]
      exact e3 _ (List.mem_map_of_mem (List.mem_map_of_mem hy)) t

end HqModel.SysW
