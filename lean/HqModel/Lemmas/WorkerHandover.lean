import HqModel.Lemmas.WorkerBasic
/-!
Allocation handles (C04, worker side): the ghost set `live` of the abstract allocator is exactly the set of
handles owned by running tasks (`HInv`), every handle is owned by at most one running task, a launcher call
that succeeds leaves the task running with exactly the handle the launcher saw, and the handle of a task that
ends is either handed to exactly one prefilled task or released.
-/
namespace HqModel.Worker

def handles (s : State) : List Nat := s.running.map (·.h)
def runIds (s : State) : List Nat := s.running.map (·.task.id)

/-- `f` = handles that were allocated and are at the moment not owned by a running task (in flight inside
`try_alloc_and_start_task` / `prefill_loop`) -/
def HInvF (f : List Nat) (s : State) : Prop :=
  s.live.Perm (f ++ handles s) ∧ s.live.Nodup ∧ (runIds s).Nodup

/-- between two steps every live handle is owned by exactly one running task -/
def HInv (s : State) : Prop := HInvF [] s

theorem HInv.handles_nodup {s : State} (h : HInv s) : (handles s).Nodup := by
  have := h.1.nodup_iff.mp h.2.1
  simpa using this

theorem HInv.mem_live_iff {s : State} (h : HInv s) (x : Nat) : x ∈ s.live ↔ ∃ r ∈ s.running, r.h = x := by
  rw [h.1.mem_iff]
  simp [handles]

@[simp] theorem handles_setBacklog (s : State) (rq l) : handles (setBacklog s rq l) = handles s := rfl
@[simp] theorem runIds_setBacklog (s : State) (rq l) : runIds (setBacklog s rq l) = runIds s := rfl

theorem HInvF.setBacklog {f : List Nat} {s : State} (h : HInvF f s) (rq l) : HInvF f (setBacklog s rq l) := h

theorem handles_started (s : State) (x : Task) (rv h : Nat) : handles (started s x rv h) = handles s ++ [h] := by
  simp [handles, started]

theorem runIds_started (s : State) (x : Task) (rv h : Nat) : runIds (started s x rv h) = runIds s ++ [x.id] := by
  simp [runIds, started]

theorem tryStart_HInvF {a a' : Acc} {x : Task} {rv h : Nat} {p c : Bool}
    (hi : HInvF [h] a.s) (hs : tryStart a x rv p h = .ok (a', c)) :
    (c = true → HInv a'.s) ∧ (c = false → HInvF [h] a'.s) := by
  obtain ⟨_, hc⟩ := tryStart_cases hs
  rcases hc with ⟨hc, h1, _⟩ | ⟨hc, h1, _⟩ | ⟨hc, hr, h1, _⟩
  · subst hc; exact ⟨by simp, fun _ => h1 ▸ hi⟩
  · subst hc; exact ⟨by simp, fun _ => h1 ▸ hi⟩
  · subst hc
    refine ⟨fun _ => ?_, by simp⟩
    rw [h1]
    refine ⟨?_, hi.2.1, ?_⟩
    · rw [handles_started]
      show a.s.live.Perm ([] ++ (handles a.s ++ [h]))
      exact hi.1.trans (by simpa using (List.perm_append_comm (l₁ := [h]) (l₂ := handles a.s)))
    · rw [runIds_started, List.nodup_append]
      refine ⟨hi.2.2, by simp, ?_⟩
      intro y hy z hz
      simp only [List.mem_singleton] at hz
      subst hz
      rw [isRunning_false_iff] at hr
      obtain ⟨r, hr', rfl⟩ := List.mem_map.mp hy
      exact hr r hr'

theorem prefillLoop_HInv {rq rv h : Nat} : ∀ (bl : List Task) {a a' : Acc} {c : Bool},
    HInvF [h] a.s → prefillLoop rq rv h bl a = .ok (a', c) → HInv a'.s
  | [], a, a', c, hi, hs => by
    simp only [prefillLoop] at hs
    cases hs
    refine ⟨?_, ?_, hi.2.2⟩
    · show (a.s.live.erase h).Perm ([] ++ handles a.s)
      have := hi.1.erase h
      simpa using this
    · exact hi.2.1.erase h
  | x :: rest, a, a', c, hi, hs => by
    simp only [prefillLoop] at hs
    have hi1 : HInvF [h] ({ a with s := setBacklog a.s rq rest } : Acc).s := hi
    split at hs
    · cases hs
    · rename_i a1 hts
      cases hs
      exact (tryStart_HInvF hi1 hts).1 rfl
    · rename_i a1 hts
      exact prefillLoop_HInv rest ((tryStart_HInvF hi1 hts).2 rfl) hs

theorem computeEntry_HInv {a a' : Acc} {e : Entry} (hi : HInv a.s) (hs : computeEntry a e = .ok a') :
    HInv a'.s := by
  unfold computeEntry at hs
  split at hs
  · cases hs; exact hi
  · split at hs
    · cases hs
    · split at hs
      · cases hs
        unfold insertBlocked
        split
        · exact hi
        · exact hi
      · rename_i h _
        split at hs
        · cases hs
        · rename_i hlive
          have hi1 : HInvF [h] ({ a with s := { a.s with live := h :: a.s.live } } : Acc).s := by
            refine ⟨?_, ?_, hi.2.2⟩
            · show (h :: a.s.live).Perm ([h] ++ handles a.s)
              have := hi.1
              simpa using this
            · exact List.nodup_cons.mpr ⟨hlive, hi.2.1⟩
          split at hs
          · cases hs
          · rename_i a1 hts
            cases hs
            exact (tryStart_HInvF hi1 hts).1 rfl
          · rename_i a1 hts
            split at hs
            · cases hs
            · rename_i a2 _ hpl
              cases hs
              exact prefillLoop_HInv _ ((tryStart_HInvF hi1 hts).2 rfl) hpl

theorem computeEntries_HInv : ∀ (es : List Entry) {a a' : Acc},
    HInv a.s → computeEntries es a = .ok a' → HInv a'.s
  | [], a, a', hi, hs => by simp only [computeEntries] at hs; cases hs; exact hi
  | e :: es, a, a', hi, hs => by
    simp only [computeEntries] at hs
    split at hs
    · cases hs
    · rename_i a1 h1
      exact computeEntries_HInv es (computeEntry_HInv hi h1) hs

theorem cancelOne_handles (a : State × List Out) (c : Nat) :
    (cancelOne a c).1.running.map (·.h) = a.1.running.map (·.h) ∧
    (cancelOne a c).1.running.map (·.task.id) = a.1.running.map (·.task.id) ∧
    (cancelOne a c).1.live = a.1.live := by
  obtain ⟨s, outs⟩ := a
  simp only [cancelOne]
  split
  · exact ⟨rfl, rfl, rfl⟩
  · split
    · exact ⟨rfl, rfl, rfl⟩
    · refine ⟨?_, ?_, rfl⟩
      · simp only [List.map_map]
        apply List.map_congr_left
        intro x _
        simp only [Function.comp]
        split <;> rfl
      · simp only [List.map_map]
        apply List.map_congr_left
        intro x _
        simp only [Function.comp]
        split <;> rfl

theorem cancel_fold_HInv : ∀ (ids : List Nat) (a : State × List Out),
    HInv a.1 → HInv (ids.foldl cancelOne a).1
  | [], _, h => h
  | c :: ids, a, h => by
    apply cancel_fold_HInv ids (cancelOne a c)
    obtain ⟨h1, h2, h3⟩ := cancelOne_handles a c
    unfold HInv HInvF handles runIds at h ⊢
    rw [h1, h2, h3]
    exact h

/-- removing the (unique) element with key `t` -/
theorem perm_of_find {α : Type} (key : α → Nat) (t : Nat) : ∀ (l : List α) {r : α},
    (l.map key).Nodup → l.find? (fun x => key x == t) = some r →
    l.Perm (r :: l.filter (fun x => key x != t))
  | [], _, _, h => by simp at h
  | y :: l, r, hn, h => by
    simp only [List.map_cons, List.nodup_cons] at hn
    by_cases hy : key y = t
    · have : (y :: l).find? (fun x => key x == t) = some y := by simp [hy]
      rw [this] at h
      cases h
      have hfl : l.filter (fun x => key x != t) = l := by
        apply List.filter_eq_self.mpr
        intro z hz
        have : key z ≠ t := by
          intro hzt
          exact hn.1 (List.mem_map.mpr ⟨z, hz, by rw [hzt, hy]⟩)
        simpa using this
      simp [hy, hfl]
    · have h' : l.find? (fun x => key x == t) = some r := by
        simpa [List.find?_cons, hy] using h
      have ih := perm_of_find key t l hn.2 h'
      have : (y :: l).filter (fun x => key x != t) = y :: l.filter (fun x => key x != t) := by
        simp [hy]
      rw [this]
      exact (List.Perm.cons y ih).trans (List.Perm.swap r y _)

theorem taskEnd_HInv {s s' : State} {t : Nat} {res : TaskResult} {en} {outs : List Out}
    (hi : HInv s) (hs : taskEnd s t res en = .ok (s', outs)) : HInv s' := by
  simp only [taskEnd] at hs
  split at hs
  · cases hs
  · rename_i r hr
    split at hs
    · cases hs
    · rename_i a used hpl
      have hperm := perm_of_find (fun x : Running => x.task.id) t s.running hi.2.2 hr
      have hi1 : HInvF [r.h] { s with running := s.running.filter (fun x => x.task.id != t) } := by
        refine ⟨?_, hi.2.1, ?_⟩
        · show s.live.Perm ([r.h] ++ (s.running.filter (fun x => x.task.id != t)).map (·.h))
          have h1 : s.live.Perm (s.running.map (·.h)) := by simpa [handles] using hi.1
          exact h1.trans (by simpa using hperm.map (·.h))
        · show ((s.running.filter (fun x => x.task.id != t)).map (·.task.id)).Nodup
          exact hi.2.2.sublist (List.Sublist.map _ List.filter_sublist)
      have hi2 := prefillLoop_HInv _ hi1 hpl
      split at hs
      · split at hs
        · cases hs; exact hi2
        · cases hs
      · cases hs; exact hi2

theorem map_flags {α : Type} (f _g : α → α) (key : α → Nat) (l : List α) (p : α → Prop) [DecidablePred p]
    (hf : ∀ x, key (f x) = key x) :
    (l.map fun x => if p x then f x else x).map key = l.map key := by
  simp only [List.map_map]
  apply List.map_congr_left
  intro x _
  simp only [Function.comp]
  split
  · exact hf x
  · rfl

theorem timeoutFire_HInv {s s' : State} {t : Nat} {outs : List Out}
    (hi : HInv s) (hs : timeoutFire s t = .ok (s', outs)) : HInv s' := by
  unfold timeoutFire at hs
  split at hs
  · cases hs
  · split at hs
    · cases hs
    · cases hs
      unfold HInv HInvF handles runIds at hi ⊢
      simp only
      rw [map_flags (fun x : Running => { x with stopSent := true, fired := true }) id (·.h) s.running
            (fun x => x.task.id = t) (fun _ => rfl),
          map_flags (fun x : Running => { x with stopSent := true, fired := true }) id (·.task.id) s.running
            (fun x => x.task.id = t) (fun _ => rfl)]
      exact hi

theorem retractCheck_frame {s s' : State} {order : List Nat} {outs : List Out}
    (hs : retractCheck s order = .ok (s', outs)) :
    s'.running = s.running ∧ s'.live = s.live ∧ s'.blocked = s.blocked ∧ s'.rqs = s.rqs ∧
      s'.remaining = s.remaining := by
  unfold retractCheck at hs
  split at hs
  · cases hs; exact ⟨rfl, rfl, rfl, rfl, rfl⟩
  · split at hs
    · cases hs; exact ⟨rfl, rfl, rfl, rfl, rfl⟩
    · split at hs
      · split at hs
        · cases hs
        · split at hs
          · cases hs; exact ⟨rfl, rfl, rfl, rfl, rfl⟩
          · cases hs; exact ⟨rfl, rfl, rfl, rfl, rfl⟩
      · cases hs

/-- `HInv` is an invariant of every step. -/
theorem step_HInv {s s' : State} {op : Op} {outs : List Out}
    (hi : HInv s) (hs : step s op = .ok (s', outs)) : HInv s' := by
  cases op with
  | compute es =>
    simp only [step, compute] at hs
    split at hs
    · cases hs
    · rename_i a ha
      cases hs
      exact computeEntries_HInv es hi ha
  | retract ids =>
    simp only [step, retract] at hs
    cases hs
    exact hi
  | cancel ids =>
    simp only [step, cancel] at hs
    have hs := Except.ok.inj hs
    have := cancel_fold_HInv ids (s, []) hi
    rw [hs] at this
    exact this
  | taskEnd t res en => exact taskEnd_HInv hi (by simpa only [step] using hs)
  | timeoutFire t => exact timeoutFire_HInv hi (by simpa only [step] using hs)
  | retractCheck order =>
    obtain ⟨h1, h2, _⟩ := retractCheck_frame (by simpa only [step] using hs)
    unfold HInv HInvF handles runIds at hi ⊢
    rw [h1, h2]; exact hi
  | newRq id mts =>
    simp only [step, newRq] at hs
    split at hs
    · cases hs; exact hi
    · cases hs
  | stop =>
    simp only [step] at hs
    cases hs; exact hi

theorem init_HInv (rqs : List (List Nat)) (rem : Option Nat) : HInv (init rqs rem) := by
  refine ⟨?_, ?_, ?_⟩ <;> simp [init, handles, runIds]

theorem run_HInv : ∀ (ops : List Op) {s s' : State} {os : List (List Out)},
    HInv s → run s ops = .ok (s', os) → HInv s'
  | [], s, s', os, hi, hr => by simp only [run] at hr; cases hr; exact hi
  | op :: ops, s, s', os, hi, hr => by
    simp only [run] at hr
    split at hr
    · cases hr
    · rename_i s1 o1 h1
      split at hr
      · cases hr
      · rename_i s2 os2 h2
        cases hr
        exact run_HInv ops (step_HInv hi h1) h2

end HqModel.Worker
