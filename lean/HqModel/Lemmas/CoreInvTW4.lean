import HqModel.Lemmas.CoreInvTW3
/-!
Stage 2c, part 4: `TW3`/`MNU` under `on_remove_worker`, `on_new_worker`, new requests.
-/
namespace HqModel.Core

theorem lostPrefilled_tw {D0 : TaskId → Prop} (ids : List TaskId) (s s' : State)
    (hi : TWI (fun u => u ∈ ids ∨ D0 u) s) (hf : ∀ id ∈ ids, Free s id)
    (h : s.lostPrefilled ids = .ok s') : TWI D0 s' := by
  induction ids generalizing s with
  | nil =>
    simp only [State.lostPrefilled] at h; cases h
    exact hi.mono (fun u hu => by rcases hu with h1 | h1; cases h1; exact h1)
  | cons id rest ih =>
    simp only [State.lostPrefilled] at h
    split at h
    · cases h
    · rename_i task hg
      have ht := getTask_spec hg
      have hid : task.id = id := findTask_some_id ht
      split at h
      · cases h
      · rename_i s2 hm
        have hc := movePrefilledToReady_core hm
        have ht1 : findTask s.tasks ({ task with inst := task.inst + 1, state := .waiting 0 } : Task).id = some task := by
          rw [hid]; exact ht
        have hfree := hf id (by simp)
        have hi1 : TWI (fun u => u ∈ rest ∨ D0 u) (s.setTask { task with inst := task.inst + 1, state := .waiting 0 }) := by
          constructor
          · refine (hi.tw.put_noob ht1 trivial (fun _ _ _ _ h => h)
              (fun x v hm => absurd hm (by show (task.id, x, v) ∉ _; rw [hid]; exact hfree.nr x v))).mono ?_
            intro u hu
            rcases hu.1 with h1 | h1
            · simp only [List.mem_cons] at h1
              rcases h1 with h2 | h2
              · exact absurd (by simpa [hid] using h2) hu.2
              · exact Or.inl h2
            · exact Or.inr h1
          · exact hi.mnu.put_nonmn ht1 (by simp)
        refine ih _ (hc.twi hi1) (fun x hx => ?_) h
        have := hf x (by simp [hx])
        unfold Free at this ⊢; rw [hc.w, hc.r]; exact this

theorem lostAssigned_tw {D0 : TaskId → Prop} (ids : List TaskId) (s s' : State) (ru ru' re re' : List TaskId)
    (hi : TWI (fun u => u ∈ ids ∨ D0 u) s)
    (h : s.lostAssigned ids ru re = .ok (s', ru', re')) : TWI D0 s' := by
  induction ids generalizing s ru re with
  | nil =>
    simp only [State.lostAssigned] at h; cases h
    exact hi.mono (fun u hu => by rcases hu with h1 | h1; cases h1; exact h1)
  | cons id rest ih =>
    simp only [State.lostAssigned] at h
    split at h
    · cases h
    · rename_i task hg
      have ht := getTask_spec hg
      have hid : task.id = id := findTask_some_id ht
      have hmono : ∀ u, ((u ∈ id :: rest ∨ D0 u) ∧ u ≠ id) → (u ∈ rest ∨ D0 u) := by
        intro u hu
        rcases hu.1 with h1 | h1
        · simp only [List.mem_cons] at h1
          rcases h1 with h2 | h2
          · exact absurd h2 hu.2
          · exact Or.inl h2
        · exact Or.inr h1
      split at h
      · -- running
        rename_i a b hs
        split at h
        · cases h
        · rename_i s2 r2 ha
          have hc := addReady_core ha
          refine ih _ _ _ (hc.twi ?_) h
          have ht1 : findTask s.tasks ({ task with state := .waiting 0, inst := task.inst + 1 } : Task).id = some task := by
            rw [hid]; exact ht
          exact (hi.put_noob ht1 trivial (by simp [hs])).mono (fun u hu => hmono u ⟨hu.1, by simpa [hid] using hu.2⟩)
      · -- retracting: the redirect is dropped
        rename_i w0 hs
        split at h
        · cases h
        · split at h
          · cases h
          · rename_i s2 r2 ha
            have hc := addReady_core ha
            refine ih _ _ _ (hc.twi ?_) h
            have ht1 : findTask s.tasks ({ task with inst := task.inst + 1 } : Task).id = some task := by
              rw [hid]; exact ht
            constructor
            · show TW3 _ (putTask s.tasks _) s.workers (s.redirects.filter (·.1 ≠ id))
              refine (hi.tw.put_noob (rd' := s.redirects.filter (·.1 ≠ id)) ht1 (by simp [hs, NoOb])
                (fun _ _ _ _ hm => (rd_filter_mem.mp hm).1)
                (fun x v hm => absurd (by simp [hid]) (rd_filter_mem.mp hm).2)).mono ?_
              intro u hu
              exact hmono u ⟨hu.1, by simpa [hid] using hu.2⟩
            · exact hi.mnu.put_nonmn ht1 (by simp [hs])
      · -- assigned (every other state)
        rename_i hn1 hn2
        split at h
        · cases h
        · rename_i s2 r2 ha
          have hc := addReady_core ha
          refine ih _ _ _ (hc.twi ?_) h
          have ht1 : findTask s.tasks ({ task with state := .waiting 0, inst := task.inst + 1 } : Task).id = some task := by
            rw [hid]; exact ht
          exact (hi.put_noob ht1 trivial (fun w0 e => hn2 w0 e)).mono (fun u hu => hmono u ⟨hu.1, by simpa [hid] using hu.2⟩)

theorem lostRetracting_tw (l : List Task) (s s' : State) (w : Nat) (o o' : Out) (hi : TWI noD s)
    (h : s.lostRetracting w l o = .ok (s', o')) : TWI noD s' := by
  induction l generalizing s o with
  | nil => simp only [State.lostRetracting] at h; cases h; exact hi
  | cons t0 rest ih =>
    simp only [State.lostRetracting, State.task?] at h
    split at h
    · exact ih _ _ hi h
    · rename_i task ht
      have hid : task.id = t0.id := findTask_some_id ht
      split at h
      · exact ih _ _ hi h
      · rename_i hs
        simp only [ne_eq, Decidable.not_not] at hs
        split at h
        · rename_i tt target trv hfind
          refine ih _ _ ?_ h
          have hmem := rd_mem_of_find hfind
          have ht0' : tt = task.id := by simpa using hmem.2
          subst ht0'
          obtain ⟨k1, k2⟩ := resolve_redirect_tw (inst := task.inst + 1) hi (by rw [hid]; exact ht) hs hfind
          exact ⟨k1, k2⟩
        · rename_i hnone
          refine ih _ _ ?_ h
          have ht1 : findTask s.tasks ({ task with inst := task.inst + 1, state := .waiting 0 } : Task).id = some task := by
            show findTask s.tasks task.id = _; rw [hid]; exact ht
          constructor
          · exact (hi.tw.put_noob ht1 trivial (fun _ _ _ _ h => h)
              (fun x v hm => absurd hm (rd_find_none hnone x v))).mono (fun u hu => hu.1)
          · exact hi.mnu.put_nonmn ht1 (by simp)

theorem crashLoop_tw (ids : List TaskId) (s s' : State) (f : Bool) (rets : List (List TaskId)) (o o' : Out)
    (hi : TWI noD s) (hinv : Inv s) (h : s.crashLoop f ids rets o = .ok (s', o')) : TWI noD s' := by
  induction ids generalizing s rets o with
  | nil => simp only [State.crashLoop] at h; cases h; exact hi
  | cons id rest ih =>
    simp only [State.crashLoop, State.task?] at h
    split at h
    · exact ih _ _ _ hi hinv h
    · rename_i task ht
      have hid : task.id = id := findTask_some_id ht
      have ht1 : ∀ c, findTask s.tasks ({ task with crashes := c } : Task).id = some task := by
        intro c; rw [hid]; exact ht
      have hi1 : ∀ c, TWI noD (s.setTask { task with crashes := c }) := fun c => hi.put_same (ht1 c) rfl
      have hinv1 : ∀ c, Inv (s.setTask { task with crashes := c }) := by
        intro c
        show Inv4 (putTask s.tasks _) s.workers s.redirects s.rqs
        exact hinv.put (ht1 c) rfl rfl (fun h => h) (fun l' hl => ⟨l', hl⟩) (hinv.ls.mv_same (ht1 c) rfl)
      split at h
      · split at h
        · cases h
        · rename_i s2 o2 h2
          exact ih _ _ _ (taskFailed_tw (hi1 _) (hinv1 _) h2) (taskFailed_inv (hinv1 _) h2) h
      · exact ih _ _ _ (hi1 _) (hinv1 _) h

/-- the worker `w` is dropped from the map: the tasks that refer to it are in repair -/
theorem drop_worker_tw {s : State} (hi : TWI noD s) (w : Nat) {D : TaskId → Prop}
    (hA : ∀ u, u ∈ asgW s.workers w → D u) (hP : ∀ u, u ∈ preW s.workers w → D u)
    (hM : ∀ u, mnW s.workers w = some u → D u) :
    TW3 D s.tasks (s.workers.filter (·.id ≠ w)) s.redirects ∧ MNU s.tasks (s.workers.filter (·.id ≠ w)) := by
  constructor
  · refine ⟨?_, ?_, ?_, ?_, hi.tw.d0⟩
    · intro u w' v hd hs
      have := hi.tw.t1 u w' v (fun e => e) hs
      rw [asgW_filter]; split
      · rename_i e; subst e; exact absurd (hA u this) hd
      · exact this
    · intro u w' hd hs
      have := hi.tw.t2 u w' (fun e => e) hs
      rw [preW_filter]; split
      · rename_i e; subst e; exact absurd (hP u this) hd
      · exact this
    · intro u l hd hs x hx
      have := hi.tw.t3 u l (fun e => e) hs x hx
      rw [mnW_filter]; split
      · rename_i e; subst e; exact absurd (hM u this) hd
      · exact this
    · intro u w' v hd hm
      have := hi.tw.d1 u w' v (fun e => e) hm
      rw [asgW_filter]; split
      · rename_i e; subst e; exact absurd (hA u this) hd
      · exact this
  · intro t l hs x hx
    rw [asgW_filter, preW_filter, mnW_filter]
    split
    · exact Or.inr ⟨rfl, rfl, rfl⟩
    · exact hi.mnu t l hs x hx

theorem removeWorker_tw {s s' : State} {w : Nat} {reason : String} {f : Bool} {order : List TaskId}
    {rets : List (List TaskId)} {o : Out} (hi : TWI noD s) (hinv : Inv s)
    (h : s.removeWorker w reason f order rets = .ok (s', o)) : TWI noD s' := by
  have hinv' := hinv
  simp only [State.removeWorker, State.worker?] at h
  split at h
  · cases h
  · rename_i wk hfw
    have hi0 : Inv { s with workers := s.workers.filter (·.id ≠ w) } := by
      show Inv4 s.tasks (s.workers.filter (·.id ≠ w)) s.redirects s.rqs
      exact hinv.workers (hinv.ls.mv_drop_worker w)
    have hgA : asgW (s.workers.filter (·.id ≠ w)) w = [] := by rw [asgW_filter]; simp
    have hgP : preW (s.workers.filter (·.id ≠ w)) w = [] := by rw [preW_filter]; simp
    split at h
    · cases h
    · rename_i s1 running retracted hp1
      have hi1 : TWI noD s1 ∧ Inv s1 := by
        clear h
        split at hp1
        · -- single-node assignment
          rename_i A F P ha
          split at hp1
          · cases hp1
          · rename_i hperm
            simp only [Bool.not_eq_eq_eq_not, Bool.not_true, Bool.not_eq_false, Bool.and_eq_true] at hperm
            split at hp1
            · cases hp1
            · rename_i s01 hlp
              have hP : preW s.workers w = P := by rw [preW_of_find hfw]; simp [wPre, ha]
              have hA : asgW s.workers w = A := by rw [asgW_of_find hfw]; simp [wAsg, ha]
              have hM : mnW s.workers w = none := by rw [mnW_of_find hfw]; simp [wMn, ha]
              have hAo : ∀ u, u ∈ A → u ∈ order := by
                have h1 : A.all order.contains = true := by
                  have := hperm
                  simp only [decide_eq_true_eq] at this
                  exact this.1.2
                exact mem_of_all_contains h1
              obtain ⟨a0, b0⟩ := drop_worker_tw hi w (D := fun u => u ∈ P ∨ (u ∈ order ∨ noD u))
                (fun u hu => Or.inr (Or.inl (hAo u (hA ▸ hu)))) (fun u hu => Or.inl (hP ▸ hu))
                (fun u hu => by rw [hM] at hu; cases hu)
              have hfreeP : ∀ id ∈ P, Free { s with workers := s.workers.filter (·.id ≠ w) } id := by
                intro id hid
                have hs := hinv.ls.a2 w id (by rw [hP]; exact hid)
                exact hi0.ls.free_of_prefilled_gone hs hgP
              have a1 := lostPrefilled_tw (D0 := fun u => u ∈ order ∨ noD u) P _ _ ⟨a0, b0⟩ hfreeP hlp
              obtain ⟨i1, e1, e2⟩ := lostPrefilled_inv _ _ _ hi0 hfreeP hlp
              refine ⟨lostAssigned_tw (D0 := noD) _ _ _ _ _ _ _ a1 hp1, ?_⟩
              refine lostAssigned_inv _ _ _ _ _ _ _ i1 ?_ hp1
              intro id hid
              rw [e1]
              have hmem : id ∈ A := by
                have h1 : order.all A.contains = true := by
                  have := hperm
                  simp only [decide_eq_true_eq] at this
                  exact this.1.1
                exact mem_of_all_contains h1 id hid
              obtain ⟨st, hs, hh⟩ := hinv.ls.a1 w id (by rw [hA]; exact hmem)
              exact hi0.ls.lfree_of_holds_gone hs hh hgA
        · -- multi-node assignment
          rename_i tid root started ha
          have hM : mnW s.workers w = some tid := by rw [mnW_of_find hfw]; simp [wMn, ha]
          have hA : asgW s.workers w = [] := by rw [asgW_of_find hfw]; simp [wAsg, ha]
          have hP : preW s.workers w = [] := by rw [preW_of_find hfw]; simp [wPre, ha]
          obtain ⟨a0, b0⟩ := drop_worker_tw hi w (D := fun u => u = tid)
            (fun u hu => by rw [hA] at hu; cases hu) (fun u hu => by rw [hP] at hu; cases hu)
            (fun u hu => by rw [hM] at hu; cases hu; rfl)
          split at hp1
          · cases hp1
          · rename_i task hg
            have ht : findTask s.tasks tid = some task := getTask_spec hg
            have hid : task.id = tid := findTask_some_id ht
            have hst := stOf_of_find ht
            split at hp1
            · rename_i ws hs
              have hnr : ∀ x v, (tid, x, v) ∉ s.redirects := hi.tw.no_rd_of_state hst (by simp [hs])
              split at hp1
              · rename_i rootw others
                split at hp1
                · rename_i hroot
                  split at hp1
                  · cases hp1
                  · rename_i s01 hr
                    obtain ⟨a, b, c, d, e, ff⟩ := resetMnAll_ls _ _ _ hi0.ls hr
                    have hi01 : Inv s01 := by unfold Inv; rw [c, e]; exact hi0.workers a
                    obtain ⟨ta, tb⟩ := resetMnAll_tw others _ s01 (D := fun u => u = tid) (ts := s.tasks) (id := tid)
                      (l0 := rootw :: others) a0 b0 (by rw [hst, hs]) (fun x hx => List.mem_cons_of_mem _ hx) hr
                    split at hp1
                    · cases hp1
                    · rename_i s3 r3 har
                      cases hp1
                      have ht1 : findTask s01.tasks ({ task with state := .waiting 0, inst := task.inst + 1 } : Task).id = some task := by
                        rw [c, hid]; exact ht
                      have hfree : Free3 s01.workers s01.redirects task.id := by
                        rw [hid]
                        refine hi01.ls.free_of_mn (l := rootw :: others) (by rw [c]; exact hst.trans (by rw [hs])) ?_
                        intro x hx
                        have h0 := b.m x tid hx
                        change mnW (s.workers.filter (·.id ≠ w)) x = some tid at h0
                        rw [mnW_filter] at h0
                        split at h0
                        · cases h0
                        · rename_i hxw
                          obtain ⟨l, h1, h2⟩ := hinv.ls.m1 x tid h0
                          rw [hst, hs] at h1; cases h1
                          simp only [List.mem_cons] at h2
                          rcases h2 with h2 | h2
                          · exact hxw (h2.trans hroot)
                          · rw [ff x h2] at hx; cases hx
                      constructor
                      · refine (addReady_core har).twi ?_
                        constructor
                        · show TW3 noD (putTask s01.tasks _) s01.workers s01.redirects
                          rw [c]
                          refine (ta.put_noob (t' := { task with state := .waiting 0, inst := task.inst + 1 })
                            (by rw [← c]; exact ht1) trivial (fun _ _ _ _ h => h)
                            (fun x v hm => absurd hm (by rw [d]; show (task.id, x, v) ∉ _; rw [hid]; exact hnr x v))).mono ?_
                          intro u hu
                          rcases hu.1 with h1 | h1
                          · exact hu.2 (by simpa [hid] using h1)
                          · exact hu.2 (by simpa [hid] using h1)
                        · show MNU (putTask s01.tasks _) s01.workers
                          rw [c]
                          exact tb.put_nonmn (t' := { task with state := .waiting 0, inst := task.inst + 1 })
                            (by rw [← c]; exact ht1) (by simp)
                      · refine (addReady_core har).inv ?_
                        show Inv4 (putTask s01.tasks _) s01.workers s01.redirects s01.rqs
                        exact hi01.put ht1 rfl rfl (by simp [isWaiting]) (by simp) (hi01.ls.mv_free ht1 hfree)
                · rename_i hroot
                  cases hp1
                  have ht1 : findTask s.tasks ({ task with state := .runningMN ((rootw :: others).filter (· ≠ w)) } : Task).id = some task := by
                    rw [hid]; exact ht
                  have hst1 := stOf_put (ts := s.tasks) ht1
                  refine ⟨⟨?_, ?_⟩, ?_⟩
                  · show TW3 noD (putTask s.tasks _) (s.workers.filter (·.id ≠ w)) s.redirects
                    refine a0.frame tid (fun u hu => Or.inr hu) (fun u hu => by rw [hst1, if_neg (by simpa [hid] using hu)])
                      (fun _ _ _ h => h) (fun _ _ _ h => h) (fun _ _ _ h => h) (fun _ _ _ _ h => h) ?_ ?_ ?_ ?_ ?_
                    · intro w' v _ hs'
                      rw [hst1] at hs'
                      simp only [hid, if_true, Option.some.injEq] at hs'
                      rcases hs' with e | e <;> cases e
                    · intro w' _ hs'
                      rw [hst1] at hs'
                      simp only [hid, if_true, Option.some.injEq] at hs'; cases hs'
                    · intro l _ hs' x hx
                      rw [hst1] at hs'
                      simp only [hid, if_true, Option.some.injEq, TS.runningMN.injEq] at hs'
                      subst hs'
                      obtain ⟨hx1, hx2⟩ := List.mem_filter.mp hx
                      have hxw : x ≠ w := by simpa using hx2
                      rw [mnW_filter, if_neg hxw]
                      exact hi.tw.t3 tid _ (fun e => e) (by rw [hst, hs]) x hx1
                    · intro w' v _ hm; exact absurd hm (hnr w' v)
                    · intro w' v hm; exact absurd hm (hnr w' v)
                  · show MNU (putTask s.tasks _) (s.workers.filter (·.id ≠ w))
                    intro t l hs' x hx
                    rw [hst1] at hs'
                    split at hs'
                    · rename_i e
                      simp only [Option.some.injEq, TS.runningMN.injEq] at hs'
                      subst hs'
                      have hx1 := (List.mem_filter.mp hx).1
                      have := b0 tid _ (by rw [hst, hs]) x hx1
                      rw [e, hid]; exact this
                    · exact b0 t l hs' x hx
                  · show Inv4 (putTask s.tasks _) (s.workers.filter (·.id ≠ w)) s.redirects s.rqs
                    refine Inv4.put hi0 ht1 rfl rfl (by simp [hs, isWaiting]) (fun _ _ => ⟨_, hs⟩) ?_
                    refine hi0.ls.mv_mn_state ht1 hs rfl ?_
                    intro x hx
                    rw [mnW_filter] at hx
                    split at hx
                    · cases hx
                    · rename_i hxw
                      obtain ⟨l, h1, h2⟩ := hinv.ls.m1 x task.id hx
                      rw [hid, hst, hs] at h1; cases h1
                      exact List.mem_filter.mpr ⟨h2, by simpa using hxw⟩
              · cases hp1
            · cases hp1
      obtain ⟨ht1, hinv1⟩ := hi1
      split at h
      · cases h
      · rename_i s2 out1 h2
        have ht2 := lostRetracting_tw _ _ _ _ _ _ ht1 h2
        have hi2 := lostRetracting_inv _ _ _ _ _ _ hinv1 h2
        split at h
        · cases h
        · rename_i s3 out2 h3
          have ht3 := retract_tw ht2 h3
          have hi3 := retract_inv hi2 h3
          split at h
          · cases h
          · rename_i s4 out h4
            cases h
            exact (CoreEq.ask s4).twi (crashLoop_tw _ _ _ _ _ _ _ ht3 hi3 h4)

theorem newWorker_tw {s s' : State} {w : Worker} {o : Out} (hi : TWI noD s) (hw : FreshWorker w)
    (h : s.newWorker w = .ok (s', o)) : TWI noD s' := by
  simp only [State.newWorker] at h
  cases h
  unfold FreshWorker at hw
  have e1 : ∀ x, asgW (s.workers ++ [w]) x = asgW s.workers x := by
    intro x; unfold asgW; rw [findWorker_append]
    cases findWorker s.workers x with
    | some y => rfl
    | none => by_cases e : w.id = x <;> simp [e, wAsg, hw]
  have e2 : ∀ x, preW (s.workers ++ [w]) x = preW s.workers x := by
    intro x; unfold preW; rw [findWorker_append]
    cases findWorker s.workers x with
    | some y => rfl
    | none => by_cases e : w.id = x <;> simp [e, wPre, hw]
  have e3 : ∀ x, mnW (s.workers ++ [w]) x = mnW s.workers x := by
    intro x; unfold mnW; rw [findWorker_append]
    cases findWorker s.workers x with
    | some y => rfl
    | none => by_cases e : w.id = x <;> simp [e, wMn, hw]
  constructor
  · show TW3 noD s.tasks (s.workers ++ [w]) s.redirects
    exact ⟨fun t w' v hd hs => by rw [e1]; exact hi.tw.t1 t w' v hd hs, fun t w' hd hs => by rw [e2]; exact hi.tw.t2 t w' hd hs,
      fun t l hd hs x hx => by rw [e3]; exact hi.tw.t3 t l hd hs x hx, fun t w' v hd hm => by rw [e1]; exact hi.tw.d1 t w' v hd hm,
      hi.tw.d0⟩
  · show MNU s.tasks (s.workers ++ [w])
    intro t l hs x hx
    rw [e1, e2, e3]; exact hi.mnu t l hs x hx

theorem newRq_tw {D} {s : State} (rqv : Rqv) (hi : TWI D s) : TWI D (s.newRq rqv) := ⟨hi.tw, hi.mnu⟩

end HqModel.Core
