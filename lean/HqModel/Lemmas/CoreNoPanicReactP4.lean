import HqModel.Lemmas.CoreNoPanicReactP3
import HqModel.Lemmas.CoreMnReject
/-!
C09 progress, part 4 of the reactor: **`task_reject`** and `request_enabled`.

* `TailReady s1 task` / **`rejectTail_np`** — the common tail of `task_reject` (`rejectTail` of `CoreMnReject.lean`:
  `task.state = Waiting 0; add_ready_task; process_retracted`) never panics;
* `Bd.setWorker_same` — the bundle when one worker record is replaced by one with the same assignment and total;
* `taskReject_unfold` — `task_reject` for a known task and an existing worker, arm by arm (`rejectArms`);
* **`taskReject_ok`**, `requestEnabled_ok`.
-/
namespace HqModel.Core.NPR

open HqModel.Core.NP

/-! ### the common tail -/

/-- what the tail of `task_reject` needs of the state `s1` reached after the worker side (the record of `task` is still
the one read at the beginning) -/
structure TailReady (s1 : State) (task : Task) : Prop where
  ht : s1.task? task.id = some task
  /-- the worker side is detached: only `task` is in repair -/
  tw : TWI (fun u => u = task.id) s1
  nr : ∀ x v, (task.id, x, v) ∉ s1.redirects
  /-- the queues are right for the record set to `Waiting 0` -/
  nq : NpQ noD [] (s1.setTask { task with state := .waiting 0 })
  rq : task.rq < s1.queues.length

/-- **the tail of `task_reject` never panics** -/
theorem rejectTail_np {s1 : State} {task : Task} (h : TailReady s1 task) : ∃ r, rejectTail s1 task = .ok r := by
  have ht' : findTask s1.tasks ({ task with state := .waiting 0 } : Task).id = some task := h.ht
  have hi2 : TWI noD (s1.setTask { task with state := .waiting 0 }) := by
    constructor
    · refine (h.tw.tw.put_noob ht' trivial (fun _ _ _ _ h => h) (fun x v hm => absurd hm (h.nr x v))).mono ?_
      intro u hu
      exact hu.2 hu.1
    · exact h.tw.mnu.put_nonmn ht' (by simp)
  obtain ⟨⟨s2, r⟩, ha⟩ := addReady_ok (s := s1.setTask { task with state := .waiting 0 })
    (t := { task with state := .waiting 0 }) h.rq
  have a2 := NPC.addReady_npq h.nq (NPC.task?_setTask_self (t' := { task with state := .waiting 0 }) h.ht) rfl rfl
    (Or.inl rfl) ha
  rw [List.nil_append] at a2
  have hi3 := (addReady_core ha).twi hi2
  obtain ⟨⟨s3, out⟩, hr⟩ := retract_ok a2.rnd (retrReady_of hi3 a2 (fun _ _ h => h))
  simp only [rejectTail, ha, hr]
  exact ⟨_, rfl⟩

section
variable {U : List TaskId} {s : State}

/-- after `detachSn_ok` / `detachMn_ok` (the old state is stored in no queue) -/
theorem TailReady.of_after {s1 : State} {id : TaskId} {task : Task} (hb : Bd U noD [] s)
    (ht : s.task? id = some task) (ha : AfterPre s s1 id) (h1 : task.state ≠ .waiting 0)
    (h2 : ∀ w, task.state ≠ .retracting w) (h3 : ∀ w, task.state ≠ .prefilled w) : TailReady s1 task := by
  have hid : task.id = id := findTask_some_id ht
  have ht1 : s1.task? task.id = some task := by rw [hid, NPC.task?_congr ha.t]; exact ht
  refine ⟨ht1, by rw [hid]; exact ha.tw, by rw [hid]; exact ha.nr, ?_, ?_⟩
  · exact NPC.setTask_npq_unq (t' := { task with state := .waiting 0 }) ha.nq ht1 rfl rfl
      (NPC.not_rstate h1 h2 h3) h3 (by intro w e; cases e)
  · rw [ha.q, hb.idx.ql]; exact hb.idx.rq task (findTask_some_mem ht)

theorem removePrefilled_qlen {s s' : State} {rq : Nat} {t : TaskId} (h : s.removePrefilled rq t = .ok s') :
    s'.queues.length = s.queues.length := by
  simp only [State.removePrefilled] at h
  repeat' (split at h)
  all_goals cases h
  all_goals simp

/-! ### one worker record replaced -/

theorem Bd.setWorker_same {D R} (hb : Bd U D R s) {wk wk' : Worker} (hfw : findWorker s.workers wk'.id = some wk)
    (ha : wk'.assign = wk.assign) (ht : wk'.total = wk.total) : Bd U D R (s.setWorker wk') := by
  have e1 : wAsg wk' = wAsg wk := by simp only [wAsg, ha]
  have e2 : wPre wk' = wPre wk := by simp only [wPre, ha]
  have e3 : wMn wk' = wMn wk := by simp only [wMn, ha]
  have hid : wk'.id = wk.id := (findWorker_some_id hfw).symm
  have hfo : NPA.FreeOk wk → NPA.FreeOk wk' := fun h A F P e => by rw [ht]; exact h A F P (ha ▸ e)
  have hfr : ∀ all : Prop, NPA.Fr all s (s.setWorker wk') := fun _ => NPA.setWorker_fr hfw hid ht hfo
  exact ⟨hb.inv.setWorker_same hfw e1 e2 e3, hb.tw.setWorker_same hfw e1 e2 e3, Safe.setWorker s wk' U none [] hb.q,
    (hfr True).npw hb.w, (hfr False).npidx hb.idx, (hfr True).npmn hb.mn, hb.deps.of_ds (NPB.DS.setWorker s wk'),
    NPC.setWorker_npq wk' hb.nq⟩

/-! ### `task_reject`, arm by arm -/

/-- the record of the rejecting worker with the (request, variant) blocked -/
def blockW (wk0 : Worker) (rq : Nat) (rv : Option Nat) : Worker :=
  match rv with
  | some v => { wk0 with blocked := if wk0.blocked.contains (rq, v) then wk0.blocked else wk0.blocked ++ [(rq, v)] }
  | none => wk0

theorem blockW_id (wk0 : Worker) (rq : Nat) (rv : Option Nat) : (blockW wk0 rq rv).id = wk0.id := by
  cases rv <;> rfl
theorem blockW_assign (wk0 : Worker) (rq : Nat) (rv : Option Nat) : (blockW wk0 rq rv).assign = wk0.assign := by
  cases rv <;> rfl
theorem blockW_total (wk0 : Worker) (rq : Nat) (rv : Option Nat) : (blockW wk0 rq rv).total = wk0.total := by
  cases rv <;> rfl

/-- `task_reject` after the task and the worker were found (`s0` = the state with the request blocked on `w`,
`wk` = the record of `w` in it) -/
def rejectArms (s0 : State) (wk : Worker) (w : Nat) (id : TaskId) (rv : Option Nat) (task : Task) :
    M (State × Out × Bool) :=
  match task.state with
  | .assigned w' rv' =>
    if w ≠ w' then rejectTail s0 task
    else if rv ≠ some rv' then rejectTail s0 task
    else
      match s0.rq task.rq rv' with
      | .error e => .error e
      | .ok r =>
        match s0.withWorker w (·.removeSn id r) with
        | .error e => .error e
        | .ok s1 => rejectTail s1 task
  | .prefilled _ =>
    match s0.withWorker w (·.removePrefill id) with
    | .error e => .error e
    | .ok s1 =>
      match s1.removePrefilled task.rq id with
      | .error e => .error e
      | .ok s2 => rejectTail s2 task
  | .retracting w' =>
    if w ≠ w' then .ok (s0, {}, false) else
    match s0.redirects.find? (·.1 = id) with
    | some (_, target, trv) =>
      let s1 := { s0 with redirects := s0.redirects.filter (·.1 ≠ id) }
      let t' := { task with state := .assigned target trv }
      .ok (s1.setTask t', { msgs := [.compute target [computeOne t' (some trv) []]] }, false)
    | none => rejectTail s0 task
  | .runningMN ws =>
    match ws with
    | [] => .error (.panic "task_reject.ws0")
    | root :: _ =>
      if w ≠ root then .ok (s0, {}, false) else
      match wk.assign with
      | .sn .. => .ok (s0, {}, false)
      | .mn _ _ started =>
        if started then .ok (s0, {}, false) else
        match resetMnChecked s0 id ws with
        | .error e => .error e
        | .ok s1 => rejectTail s1 task
  | .waiting .. | .running .. | .finished => .error (.panic "task_reject.unreachable")

theorem taskReject_unfold {w : Nat} {id : TaskId} {rv : Option Nat} {task : Task} {wk0 : Worker}
    (ht : s.task? id = some task) (hw : s.worker? w = some wk0) :
    s.taskReject w id rv =
      rejectArms (s.setWorker (blockW wk0 task.rq rv)) (blockW wk0 task.rq rv) w id rv task := by
  simp only [State.taskReject, ht, getWorker_ok hw]
  rfl

/-- the arms succeed under the bundle of `s0`; `wk` is the record of `w` -/
theorem rejectArms_ok {s0 : State} {wk : Worker} {w : Nat} {id : TaskId} {rv : Option Nat} {task : Task}
    (hb : Bd U noD [] s0) (ht : s0.task? id = some task) (hw : s0.worker? w = some wk)
    (hp : match task.state with
      | .assigned _ _ => True
      | .prefilled w' => w' = w
      | .retracting _ => True
      | .runningMN _ => True
      | _ => False)
    (hr : ∀ w' rv', task.state = .assigned w' rv' → w = w' ∧ rv = some rv') :
    ∃ r, rejectArms s0 wk w id rv task = .ok r := by
  have hmem : task ∈ s0.tasks := findTask_some_mem ht
  have hid : task.id = id := findTask_some_id ht
  have hst := stOf_of_find (show findTask s0.tasks id = some task from ht)
  have hrq : task.rq < s0.queues.length := by rw [hb.idx.ql]; exact hb.idx.rq task hmem
  unfold rejectArms
  cases hs : task.state with
  | assigned w' rv' =>
    obtain ⟨e1, e2⟩ := hr w' rv' hs
    subst e1; subst e2
    obtain ⟨r, s1, hr1, hww, ha⟩ := detachSn_ok hb ht (Or.inl hs)
    simp only [ne_eq, not_true_eq_false, if_false, hr1, hww]
    exact rejectTail_np (TailReady.of_after hb ht ha (by simp [hs]) (by simp [hs]) (by simp [hs]))
  | prefilled w' =>
    rw [hs] at hp
    simp only at hp
    subst hp
    -- the worker lists the task as prefilled
    have hpre := hb.tw.tw.t2 id w' (fun e => e) (by rw [hst, hs])
    obtain ⟨wk', A, F, P, hfw, ha, hmp⟩ := mem_preW_elim hpre
    have hww := withWorker_ok (s := s0) (f := fun x => x.removePrefill id) (show s0.worker? w' = some wk' from hfw)
      (removePrefill_ok ha hmp)
    -- the prefill set of its queue contains it
    obtain ⟨q, pp, ts, hq, hpf, hm⟩ := (hb.nq.pin task hmem ⟨w', hs⟩ (by simp) (fun e => e)).elim
    rw [hid] at hm
    obtain ⟨s2, h2⟩ := removePrefilled_ok (s := s0.setWorker { wk' with assign := .sn A F (P.erase id) })
      (rq := task.rq) (t := id) hq hpf hm
    simp only [hww, h2]
    apply rejectTail_np
    obtain ⟨a, b⟩ := removePrefill_tw hb.tw.tw hb.tw.mnu hww
    have hc := removePrefilled_core h2
    have ht2 : s2.task? task.id = some task := by rw [hid, NPC.task?_congr hc.t]; exact ht
    obtain ⟨a2, nq2⟩ := NPC.removePrefilled_npq (NPC.withWorker_npq hb.nq hww) h2
    refine ⟨ht2, ?_, ?_, ?_, ?_⟩
    · rw [hid]; exact hc.twi (twi_of_detach rfl a b)
    · rw [hid, hc.r]; exact hb.tw.tw.no_rd_of_state hst (by simp [hs])
    · refine NPC.setTask_npq (t' := { task with state := .waiting 0 }) a2 ht2 rfl rfl
        (fun ⟨i, q, hq', hm⟩ => absurd hm (hid ▸ (nq2 i q hq').1))
        (fun ⟨i, q, hq', hm⟩ => absurd hm (hid ▸ (nq2 i q hq').2)) (fun hr => by cases hr)
        (fun ⟨w, e⟩ => by cases e) ?_
      intro x hx hdx
      rcases hdx with hdx | hdx
      · exact hdx
      · exact absurd (hdx.trans hid.symm) hx
    · rw [removePrefilled_qlen h2]; exact hrq
  | retracting w' =>
    by_cases hww : w ≠ w'
    · simp only [hww, ne_eq, not_false_eq_true, if_true]; exact ⟨_, rfl⟩
    · simp only [hww, if_false]
      cases hfind : s0.redirects.find? (·.1 = id) with
      | some x => exact ⟨_, rfl⟩
      | none =>
        simp only
        apply rejectTail_np
        have ht0 : s0.task? task.id = some task := by rw [hid]; exact ht
        have hnp : ∀ w, task.state ≠ .prefilled w := by simp [hs]
        refine ⟨ht0, hb.tw.mono (fun _ h => h.elim), by rw [hid]; exact rd_find_none hfind, ?_, hrq⟩
        exact NPC.setTask_npq (t' := { task with state := .waiting 0 }) hb.nq ht0 rfl rfl (fun _ => Or.inl rfl)
          (fun ⟨i, q, hq', hm⟩ => absurd hm (hb.nq.not_pf ht0 hnp hq')) (fun hr => by cases hr)
          (fun ⟨w, e⟩ => by cases e) (fun _ _ hdx => hdx)
  | runningMN ws =>
    have hne := (hb.mn.ne task hmem ws hs).1
    cases ws with
    | nil => exact absurd rfl hne
    | cons root rest =>
      by_cases hwr : w ≠ root
      · simp only [hwr, ne_eq, not_false_eq_true, if_true]; exact ⟨_, rfl⟩
      · simp only [hwr, if_false]
        have hwr' : w = root := Classical.not_not.mp hwr
        subst hwr'
        obtain ⟨wk', root', st, hfw, ha⟩ := mn_workers_of hb.tw ht (fun e => e) hs w List.mem_cons_self
        rw [hw] at hfw; cases hfw
        rw [ha]
        cases st with
        | true => exact ⟨_, rfl⟩
        | false =>
          obtain ⟨s1, h1, hap⟩ := detachMn_ok hb ht hs
          simp only [Bool.false_eq_true, if_false, h1]
          exact rejectTail_np (TailReady.of_after hb ht hap (by simp [hs]) (by simp [hs]) (by simp [hs]))
  | waiting n => rw [hs] at hp; exact hp.elim
  | running a b => rw [hs] at hp; exact hp.elim
  | finished => rw [hs] at hp; exact hp.elim

/-- **`task_reject` does not panic** -/
theorem taskReject_ok {w : Nat} {id : TaskId} {rv : Option Nat} (hb : Bd U noD [] s)
    (hp : UpdNP s w (.reject id rv)) (hr : RejectOk s w id rv) : ∃ r, s.taskReject w id rv = .ok r := by
  cases ht : s.task? id with
  | none => simp only [State.taskReject, ht]; exact ⟨_, rfl⟩
  | some task =>
    obtain ⟨wk0, hw0⟩ := Option.isSome_iff_exists.mp hp.1
    rw [taskReject_unfold ht hw0]
    have hwid : wk0.id = w := findWorker_some_id hw0
    have hfw : findWorker s.workers (blockW wk0 task.rq rv).id = some wk0 := by rw [blockW_id, hwid]; exact hw0
    have hb0 := hb.setWorker_same hfw (blockW_assign _ _ _) (blockW_total _ _ _)
    have hw' : (s.setWorker (blockW wk0 task.rq rv)).worker? w = some (blockW wk0 task.rq rv) := by
      rw [worker?_setWorker, if_pos (by rw [blockW_id, hwid]), hw0]; rfl
    have hp2 := hp.2
    simp only [ht] at hp2
    exact rejectArms_ok hb0 (show (s.setWorker _).task? id = some task from ht) hw' hp2
      (fun w' rv' hs => hr task w' rv' ht hs)

/-! ### `request_enabled` -/

theorem requestEnabled_ok {w rq rv : Nat} (hw : (s.worker? w).isSome = true) : ∃ r, s.requestEnabled w rq rv = .ok r := by
  obtain ⟨wk, hwk⟩ := Option.isSome_iff_exists.mp hw
  exact ⟨_, withWorker_ok (f := fun wk => .ok { wk with blocked := wk.blocked.erase (rq, rv) }) hwk rfl⟩

end

end HqModel.Core.NPR
