import HqModel.Lemmas.SysJob
/-!
The tako callbacks of the job layer through the view `tst`: what a successful call did (`…_spec`) and when a call
cannot panic (`…_ok`).
-/
namespace HqModel.Sys
open HqModel HqModel.Job

/-- everything but the job table and `sent` is unchanged -/
structure SameRest (js js' : Job.State) : Prop where
  workers : js'.workers = js.workers
  jobCtr : js'.jobCtr = js.jobCtr
  ids : js'.jobs.map (·.id) = js.jobs.map (·.id)

theorem SameRest.refl (js : Job.State) : SameRest js js := ⟨rfl, rfl, rfl⟩
theorem SameRest.trans {a b c : Job.State} (h1 : SameRest a b) (h2 : SameRest b c) : SameRest a c :=
  ⟨h2.workers.trans h1.workers, h2.jobCtr.trans h1.jobCtr, h2.ids.trans h1.ids⟩

theorem SameRest.putJob (js : Job.State) (job : Job) : SameRest js (js.putJob job) :=
  ⟨rfl, rfl, replaceJob_ids _ _⟩

/-! ### `process_task_started` -/

theorem taskStarted_spec {js js' : Job.State} {t : TaskId} {i : Nat} {ws : List Nat} {rv : Nat} {evs : List Ev}
    (h : js.taskStarted t i ws rv = .ok (js', evs)) :
    SameRest js js' ∧ js'.sent = js.sent ∧ (tst js t).isSome ∧
    ∀ x, tst js' x = if x = t then startedSt (tst js t) else tst js x := by
  unfold Job.State.taskStarted at h
  split at h
  · cases h
  · rename_i job hj
    split at h
    · cases h
    · rename_i job' hr
      cases h
      obtain ⟨m, hs, hl⟩ := setRunning_spec hr
      have hid := getJob_id hj
      have htt : tst js t = lookup job.tasks t.2 := by
        have := tst_of_getJob hj t.2
        simpa using this
      refine ⟨SameRest.putJob _ _, rfl, by rw [htt]; exact hs, ?_⟩
      intro x
      rw [tst_putJob hj (m.id.trans hid) x]
      by_cases hx : x = t
      · subst hx
        simp only [if_true, hl, htt]
      · by_cases hx1 : x.1 = t.1
        · have hx2 : x.2 ≠ t.2 := fun e => hx (Prod.ext hx1 e)
          have : tst js x = lookup job.tasks x.2 := by
            have := tst_of_getJob hj x.2
            rw [← hx1] at this; simpa using this
          simp only [hx1, if_true, hl, hx2, if_false, hx, this]
        · simp [hx1, hx]

theorem taskStarted_ok {js : Job.State} {t : TaskId} (i : Nat) (ws : List Nat) (rv : Nat) (h : (tst js t).isSome) :
    ∃ r, js.taskStarted t i ws rv = .ok r := by
  obtain ⟨job, hj, hl⟩ := getJob_of_tst h
  unfold Job.State.taskStarted
  rw [hj]
  obtain ⟨job', hr⟩ := setRunning_ok (job := job) (t := t.2) (by rw [hl]; exact h)
  simp only [hr]
  exact ⟨_, rfl⟩

/-! ### `process_task_finished` -/

theorem taskFinished_spec {js js' : Job.State} {t : TaskId} {evs : List Ev}
    (h : js.taskFinished t = .ok (js', evs)) :
    SameRest js js' ∧ js'.sent = removeAll js.sent [t] ∧ tst js t = some .running ∧
    ∀ x, tst js' x = if x = t then some .finished else tst js x := by
  unfold Job.State.taskFinished at h
  split at h
  · cases h
  · rename_i job hj
    split at h
    · cases h
    · rename_i job' evs' hr
      cases h
      obtain ⟨m, hs, hl⟩ := setFinished_spec hr
      have hid := getJob_id hj
      have htt : tst js t = lookup job.tasks t.2 := by
        have := tst_of_getJob hj t.2
        simpa using this
      refine ⟨⟨rfl, rfl, replaceJob_ids _ _⟩, rfl, by rw [htt]; exact hs, ?_⟩
      intro x
      show tst (js.putJob job') x = _
      rw [tst_putJob hj (m.id.trans hid) x]
      by_cases hx : x = t
      · subst hx
        simp only [if_true, hl]
      · by_cases hx1 : x.1 = t.1
        · have hx2 : x.2 ≠ t.2 := fun e => hx (Prod.ext hx1 e)
          have : tst js x = lookup job.tasks x.2 := by
            have := tst_of_getJob hj x.2
            rw [← hx1] at this; simpa using this
          simp only [hx1, if_true, hl, hx2, if_false, hx, this]
        · simp [hx1, hx]

theorem taskFinished_ok {js : Job.State} {t : TaskId} (h : tst js t = some .running) :
    ∃ r, js.taskFinished t = .ok r := by
  obtain ⟨job, hj, hl⟩ := getJob_of_tst (js := js) (t := t) (by rw [h]; rfl)
  unfold Job.State.taskFinished
  rw [hj]
  obtain ⟨r, hr⟩ := setFinished_ok (job := job) (t := t.2) (by rw [hl]; exact h)
  simp only [hr]
  exact ⟨_, rfl⟩

/-! ### `process_worker_new` / `process_worker_lost` -/

theorem workerNew_spec {js js' : Job.State} {w : Nat} {evs : List Ev} (h : js.workerNew w = .ok (js', evs)) :
    js'.jobs = js.jobs ∧ js'.sent = js.sent ∧ js'.jobCtr = js.jobCtr ∧ js'.workers = js.workers ++ [w] ∧
    w ∉ js.workers := by
  unfold Job.State.workerNew at h
  split at h
  · cases h
  · rename_i hc
    cases h
    exact ⟨rfl, rfl, rfl, rfl, by simpa using hc⟩

theorem workerNew_ok {js : Job.State} {w : Nat} (h : w ∉ js.workers) : ∃ r, js.workerNew w = .ok r := by
  unfold Job.State.workerNew
  have : js.workers.contains w = false := by simpa using h
  simp only [this]
  exact ⟨_, rfl⟩

theorem setWaitingAll_spec : ∀ (ts : List TaskId) {js js' : Job.State}, js.setWaitingAll ts = .ok js' →
    SameRest js js' ∧ js'.sent = js.sent ∧ (∀ t ∈ ts, live (tst js t) = true) ∧
    ∀ x, tst js' x = if x ∈ ts then some .waiting else tst js x := by
  intro ts
  induction ts with
  | nil =>
    intro js js' h
    simp only [Job.State.setWaitingAll] at h
    cases h
    exact ⟨SameRest.refl _, rfl, by simp, by simp⟩
  | cons t rest ih =>
    intro js js' h
    simp only [Job.State.setWaitingAll] at h
    split at h
    · cases h
    · rename_i job hj
      split at h
      · cases h
      · rename_i job' hw
        obtain ⟨m, hs, hl⟩ := setWaiting_spec' hw
        have hid := getJob_id hj
        obtain ⟨a, b, c, d⟩ := ih h
        have htt : tst js t = lookup job.tasks t.2 := by
          have := tst_of_getJob hj t.2
          simpa using this
        have h1 : ∀ x, tst (js.putJob job') x = if x = t then some .waiting else tst js x := by
          intro x
          rw [tst_putJob hj (m.id.trans hid) x]
          by_cases hx : x = t
          · subst hx
            simp only [if_true, hl]
          · by_cases hx1 : x.1 = t.1
            · have hx2 : x.2 ≠ t.2 := fun e => hx (Prod.ext hx1 e)
              have : tst js x = lookup job.tasks x.2 := by
                have := tst_of_getJob hj x.2
                rw [← hx1] at this; simpa using this
              simp only [hx1, if_true, hl, hx2, if_false, hx, this]
            · simp [hx1, hx]
        refine ⟨(SameRest.putJob _ _).trans a, b, ?_, ?_⟩
        · intro u hu
          rcases List.mem_cons.mp hu with e | e
          · subst e; rw [htt, hs]; rfl
          · have := c u e
            rw [h1] at this
            by_cases hut : u = t
            · subst hut; rw [htt, hs]; rfl
            · simpa [hut] using this
        · intro x
          rw [d x, h1 x]
          by_cases hx : x ∈ rest
          · simp [hx]
          · by_cases hxt : x = t
            · simp [hxt]
            · simp [hx, hxt]

theorem setWaitingAll_ok : ∀ (ts : List TaskId) (js : Job.State), ts.Nodup → (∀ t ∈ ts, tst js t = some .running) →
    ∃ js', js.setWaitingAll ts = .ok js' := by
  intro ts
  induction ts with
  | nil => intro js _ _; exact ⟨js, rfl⟩
  | cons t rest ih =>
    intro js hnd hall
    simp only [List.nodup_cons] at hnd
    have ht := hall t (by simp)
    obtain ⟨job, hj, hl⟩ := getJob_of_tst (js := js) (t := t) (by rw [ht]; rfl)
    obtain ⟨job', hw⟩ := setWaiting_ok (job := job) (t := t.2) (by rw [hl]; exact ht)
    simp only [Job.State.setWaitingAll, hj, hw]
    apply ih _ hnd.2
    intro u hu
    obtain ⟨m, _, hlk⟩ := setWaiting_spec' hw
    rw [tst_putJob hj (m.id.trans (getJob_id hj)) u]
    have hut : u ≠ t := fun e => hnd.1 (e ▸ hu)
    by_cases hu1 : u.1 = t.1
    · have hu2 : u.2 ≠ t.2 := fun e => hut (Prod.ext hu1 e)
      have : tst js u = lookup job.tasks u.2 := by
        have := tst_of_getJob hj u.2
        rw [← hu1] at this; simpa using this
      simp only [hu1, if_true, hlk, hu2, if_false]
      rw [← this]; exact hall u (by simp [hu])
    · simp only [hu1, if_false]; exact hall u (by simp [hu])

theorem workerLost_spec {js js' : Job.State} {w : Nat} {running : List TaskId} {reason : String} {evs : List Ev}
    (h : js.workerLost w running reason = .ok (js', evs)) :
    SameRest js js' ∧ js'.sent = js.sent ∧
    ∀ x, tst js' x = if x ∈ running then some .waiting else tst js x := by
  unfold Job.State.workerLost at h
  split at h
  · cases h
  · rename_i s' hs
    split at h
    · cases h
    · cases h
      obtain ⟨a, b, _, d⟩ := setWaitingAll_spec _ hs
      exact ⟨a, b, d⟩

theorem workerLost_ok {js : Job.State} {w : Nat} {running : List TaskId} (reason : String) (hw : w ∈ js.workers)
    (hnd : running.Nodup) (hall : ∀ t ∈ running, tst js t = some .running) :
    ∃ r, js.workerLost w running reason = .ok r := by
  obtain ⟨js', hs⟩ := setWaitingAll_ok running js hnd hall
  unfold Job.State.workerLost
  rw [hs]
  have : js'.workers.contains w = true := by
    rw [(setWaitingAll_spec _ hs).1.workers]; simpa using hw
  simp only [this]
  exact ⟨_, rfl⟩

end HqModel.Sys
