import HqModel.Auth.Trace
import HqModel.Lemmas.AuthBasic
/-! The inductive invariant of the trace system and its preservation by every step. -/
namespace HqModel.Auth

theorem update_eq_some {f : Nat → Option Session} {sid i : Nat} {σn σ : Session}
    (h : update f sid σn i = some σ) : (i = sid ∧ σ = σn) ∨ (i ≠ sid ∧ f i = some σ) := by
  unfold update at h
  split at h
  · rename_i hi; left; exact ⟨hi, by cases h; rfl⟩
  · rename_i hi; right; exact ⟨hi, h⟩

theorem update_self (f : Nat → Option Session) (i : Nat) (σ : Session) : update f i σ i = some σ := by
  simp [update]

theorem update_ne (f : Nat → Option Session) {i j : Nat} (σ : Session) (h : j ≠ i) :
    update f i σ j = f j := by
  simp [update, h]

theorem ciphersOf_req (r : Request) (kn : List Msg) : ciphersOf (.req r :: kn) = ciphersOf kn := by
  simp [ciphersOf]

theorem mem_ciphersOf_resp {ct : Cipher} {resp : Response} {kn : List Msg} :
    ct ∈ ciphersOf (.resp resp :: kn) ↔ (∃ n, resp = .encryption n ct) ∨ ct ∈ ciphersOf kn := by
  cases resp with
  | noAuth => simp [ciphersOf]
  | error => simp [ciphersOf]
  | encryption n c =>
    simp only [ciphersOf, List.mem_cons, Response.encryption.injEq, exists_eq_left']
    constructor
    · rintro (h | h)
      · left; exact h.symm
      · right; exact h
    · rintro (h | h)
      · left; exact h.symm
      · right; exact h

theorem derivable_seal {kn : List Msg} {adv : List Nat} {n' k n : Nat} {p : Bytes} :
    derivable kn adv (.encryption n' (.seal k n p)) = true ↔
      k ∈ adv ∨ Cipher.seal k n p ∈ ciphersOf kn := by
  simp [derivable]

/-- The invariant carried along every trace. -/
structure Inv (adv : List Nat) (s : State) : Prop where
  /-- a keyed session's challenge has 16 bytes and is recorded as used -/
  chal_ok : ∀ {i σ k}, s.sessions i = some σ → σ.auth.key = some k →
    σ.auth.challenge.length = challengeLength ∧ σ.auth.challenge ∈ s.usedChals
  /-- challenges of keyed sessions are pairwise distinct (freshness) -/
  chal_distinct : ∀ {i j σi σj ki kj}, s.sessions i = some σi → s.sessions j = some σj →
    σi.auth.key = some ki → σj.auth.key = some kj → i ≠ j →
    σi.auth.challenge ≠ σj.auth.challenge
  /-- every seal under an honest key on the network stems from a logged responded-event -/
  seal_origin : ∀ {k n p}, Cipher.seal k n p ∈ ciphersOf s.knowledge → k ∉ adv →
    ∃ e ∈ s.log, e.key = k ∧ e.nonce = n ∧ p = e.role ++ e.chal ∧ e.chal.length = challengeLength
  /-- every responded-event belongs to an honest session with that key and role which has responded -/
  event_origin : ∀ {e}, e ∈ s.log → ∃ τ, s.sessions e.sid = some τ ∧ τ.auth.key = some e.key ∧
    τ.auth.myRole = e.role ∧ τ.phase ≠ .awaitRequest ∧ e.chal ∈ s.usedChals ∧ e.time < s.time
  /-- agreement for accepted sessions with an honest key -/
  accepted : ∀ {i σ k}, s.sessions i = some σ → σ.result = some true → σ.auth.key = some k → k ∉ adv →
    ∃ e ∈ s.log, Agrees σ k e
  start_lt : ∀ {i σ}, s.sessions i = some σ → σ.startTime < s.time
  /-- an answer to a keyed session's challenge was given after that session started -/
  recent : ∀ {e}, e ∈ s.log → ∀ {i σ k}, s.sessions i = some σ → σ.auth.key = some k →
    e.chal = σ.auth.challenge → σ.startTime < e.time

theorem Inv.init (adv : List Nat) : Inv adv .init := by
  constructor <;> simp [State.init, ciphersOf]

theorem Inv.start {adv : List Nat} {s : State} (h : Inv adv s) {sid : Nat} (cfg : Config) {chal : Bytes}
    (hnone : s.sessions sid = none) (hlen : chal.length = challengeLength) (hfresh : chal ∉ s.usedChals) :
    Inv adv
      { sessions := update s.sessions sid
          { auth := (makeRequest (.new cfg) chal).1, phase := .awaitRequest, result := none,
            consumed := none, startTime := s.time }
        knowledge := .req (makeRequest (.new cfg) chal).2 :: s.knowledge
        log := s.log
        usedChals := chal :: s.usedChals
        time := s.time + 1 } := by
  have hnewchal : ∀ k, (makeRequest (.new cfg) chal).1.key = some k →
      (makeRequest (.new cfg) chal).1.challenge = chal := by
    intro k hk
    rw [makeRequest_key] at hk
    exact makeRequest_challenge_keyed hk
  constructor
  all_goals dsimp only
  · -- chal_ok
    intro i σ k hs hk
    rcases update_eq_some hs with ⟨_, rfl⟩ | ⟨_, hs⟩
    · rw [hnewchal k hk]; exact ⟨hlen, List.mem_cons_self⟩
    · have := h.chal_ok hs hk
      exact ⟨this.1, List.mem_cons_of_mem _ this.2⟩
  · -- chal_distinct
    intro i j σi σj ki kj hi hj hki hkj hij
    rcases update_eq_some hi with ⟨rfl, rfl⟩ | ⟨_, hi2⟩ <;>
      rcases update_eq_some hj with ⟨rfl, rfl⟩ | ⟨_, hj2⟩
    · exact absurd rfl hij
    · rw [hnewchal ki hki]
      intro heq
      exact hfresh (heq ▸ (h.chal_ok hj2 hkj).2)
    · rw [hnewchal kj hkj]
      intro heq
      exact hfresh (heq ▸ (h.chal_ok hi2 hki).2)
    · exact h.chal_distinct hi2 hj2 hki hkj hij
  · -- seal_origin
    intro k n p hm hk
    rw [ciphersOf_req] at hm
    exact h.seal_origin hm hk
  · -- event_origin
    intro e he
    obtain ⟨τ, hτ, h1, h2, h3, h4, h5⟩ := h.event_origin he
    refine ⟨τ, ?_, h1, h2, h3, List.mem_cons_of_mem _ h4, Nat.lt_succ_of_lt h5⟩
    rw [update_ne]
    · exact hτ
    · intro heq; rw [heq, hnone] at hτ; cases hτ
  · -- accepted
    intro i σ k hs hacc hk hadv
    rcases update_eq_some hs with ⟨_, rfl⟩ | ⟨_, hs⟩
    · cases hacc
    · exact h.accepted hs hacc hk hadv
  · -- start_lt
    intro i σ hs
    rcases update_eq_some hs with ⟨_, rfl⟩ | ⟨_, hs⟩
    · exact Nat.lt_succ_self _
    · exact Nat.lt_succ_of_lt (h.start_lt hs)
  · -- recent
    intro e he i σ k hs hk hc
    rcases update_eq_some hs with ⟨_, rfl⟩ | ⟨_, hs⟩
    · exfalso
      obtain ⟨τ, _, _, _, _, h4, _⟩ := h.event_origin he
      rw [hnewchal k hk] at hc
      exact hfresh (hc ▸ h4)
    · exact h.recent he hs hk hc

theorem Inv.deliverRequest {adv : List Nat} {s : State} (h : Inv adv s) {sid : Nat} {σ : Session}
    (req : Request) (nonce : Nat) (hσ : s.sessions sid = some σ) (_hph : σ.phase = .awaitRequest) :
    Inv adv
      { sessions := update s.sessions sid
          { σ with auth := (makeResponse σ.auth req nonce).1, phase := .awaitResponse }
        knowledge := .resp (makeResponse σ.auth req nonce).2 :: s.knowledge
        log := eventOf sid σ.auth req nonce s.time (makeResponse σ.auth req nonce).2 ++ s.log
        usedChals := chalsOfReq req ++ s.usedChals
        time := s.time + 1 } := by
  -- the new event, if any
  have hev : ∀ e, e ∈ eventOf sid σ.auth req nonce s.time (makeResponse σ.auth req nonce).2 →
      ∃ c, (makeResponse σ.auth req nonce).2 = .encryption nonce (.seal e.key nonce (σ.auth.myRole ++ c)) ∧
        σ.auth.key = some e.key ∧ req.mode = .encryption c ∧ c.length = challengeLength ∧
        e = { sid, key := e.key, role := σ.auth.myRole, chal := c, nonce, time := s.time } := by
    intro e he
    unfold eventOf at he
    split at he
    · rename_i n' ct k c hresp hk hm
      obtain ⟨k', c', hk', hm', hl, hn, hct, _, _⟩ := makeResponse_encryption hresp
      rw [hk] at hk'; cases hk'
      rw [hm] at hm'; cases hm'
      simp only [List.mem_singleton] at he
      subst he
      exact ⟨c, by rw [hresp, hn, hct], hk, hm, hl, rfl⟩
    · cases he
  have hsealev : ∀ n' ct, (makeResponse σ.auth req nonce).2 = .encryption n' ct →
      ∃ e ∈ eventOf sid σ.auth req nonce s.time (makeResponse σ.auth req nonce).2,
        ct = .seal e.key e.nonce (e.role ++ e.chal) ∧ e.chal.length = challengeLength := by
    intro n' ct hresp
    obtain ⟨k, c, hk, hm, hl, hn, hct, _, _⟩ := makeResponse_encryption hresp
    refine ⟨{ sid, key := k, role := σ.auth.myRole, chal := c, nonce, time := s.time }, ?_, hct, hl⟩
    unfold eventOf
    rw [hresp, hk, hm]
    exact List.mem_singleton.mpr rfl
  -- frame for the updated session
  have hkey := makeResponse_key σ.auth req nonce
  have hmy := makeResponse_myRole σ.auth req nonce
  have hpeer := makeResponse_peerRole σ.auth req nonce
  have hch := makeResponse_challenge σ.auth req nonce
  constructor
  all_goals dsimp only
  · -- chal_ok
    intro i σ' k hs hk
    rcases update_eq_some hs with ⟨rfl, rfl⟩ | ⟨_, hs⟩
    · simp only [hkey, hch] at hk ⊢
      have := h.chal_ok hσ hk
      exact ⟨this.1, List.mem_append_right _ this.2⟩
    · have := h.chal_ok hs hk
      exact ⟨this.1, List.mem_append_right _ this.2⟩
  · -- chal_distinct
    intro i j σi σj ki kj hi hj hki hkj hij
    rcases update_eq_some hi with ⟨rfl, rfl⟩ | ⟨_, hi2⟩ <;>
      rcases update_eq_some hj with ⟨rfl, rfl⟩ | ⟨_, hj2⟩
    · exact absurd rfl hij
    · simp only [hkey, hch] at hki ⊢
      exact h.chal_distinct hσ hj2 hki hkj hij
    · simp only [hkey, hch] at hkj ⊢
      exact h.chal_distinct hi2 hσ hki hkj hij
    · exact h.chal_distinct hi2 hj2 hki hkj hij
  · -- seal_origin
    intro k n p hm hk
    rcases mem_ciphersOf_resp.mp hm with ⟨n', hresp⟩ | hold
    · obtain ⟨e, he, hct, hl⟩ := hsealev n' _ hresp
      cases hct
      exact ⟨e, List.mem_append_left _ he, rfl, rfl, rfl, hl⟩
    · obtain ⟨e, he, h1⟩ := h.seal_origin hold hk
      exact ⟨e, List.mem_append_right _ he, h1⟩
  · -- event_origin
    intro e he
    rcases List.mem_append.mp he with hnew | hold
    · obtain ⟨c, _, hk, hm, _, heq⟩ := hev e hnew
      have hsid : e.sid = sid := by rw [heq]
      have hrole : e.role = σ.auth.myRole := by rw [heq]
      have hchal : e.chal = c := by rw [heq]
      have htime : e.time = s.time := by rw [heq]
      refine ⟨{ σ with auth := (makeResponse σ.auth req nonce).1, phase := .awaitResponse },
        ?_, ?_, ?_, ?_, ?_, ?_⟩
      · rw [hsid]; exact update_self _ _ _
      · simp only [hkey]; exact hk
      · simp only [hmy]; exact hrole.symm
      · simp
      · rw [hchal]; simp [chalsOfReq, hm]
      · rw [htime]; exact Nat.lt_succ_self _
    · obtain ⟨τ, hτ, h1, h2, h3, h4, h5⟩ := h.event_origin hold
      by_cases hsid : e.sid = sid
      · rw [hsid, hσ] at hτ; cases hτ
        refine ⟨{ σ with auth := (makeResponse σ.auth req nonce).1, phase := .awaitResponse },
          by rw [hsid]; exact update_self _ _ _, ?_, ?_, by simp,
          List.mem_append_right _ h4, Nat.lt_succ_of_lt h5⟩
        · simp only [hkey]; exact h1
        · simp only [hmy]; exact h2
      · exact ⟨τ, by rw [update_ne _ _ hsid]; exact hτ, h1, h2, h3,
          List.mem_append_right _ h4, Nat.lt_succ_of_lt h5⟩
  · -- accepted
    intro i σ' k hs hacc hk hadv
    rcases update_eq_some hs with ⟨rfl, rfl⟩ | ⟨_, hs⟩
    · simp only [hkey] at hk
      obtain ⟨e, he, hag⟩ := h.accepted hσ hacc hk hadv
      refine ⟨e, List.mem_append_right _ he, ?_⟩
      unfold Agrees at hag ⊢
      simp only [hpeer, hch]
      exact hag
    · obtain ⟨e, he, hag⟩ := h.accepted hs hacc hk hadv
      exact ⟨e, List.mem_append_right _ he, hag⟩
  · -- start_lt
    intro i σ' hs
    rcases update_eq_some hs with ⟨rfl, rfl⟩ | ⟨_, hs⟩
    · have := h.start_lt hσ
      exact Nat.lt_succ_of_lt this
    · exact Nat.lt_succ_of_lt (h.start_lt hs)
  · -- recent
    intro e he i σ' k hs hk hc
    -- the session as it was before the step
    have hold : ∃ σ₀, s.sessions i = some σ₀ ∧ σ₀.auth.key = some k ∧
        σ₀.auth.challenge = σ'.auth.challenge ∧ σ₀.startTime = σ'.startTime := by
      rcases update_eq_some hs with ⟨rfl, rfl⟩ | ⟨_, hs⟩
      · exact ⟨σ, hσ, by simpa only [hkey] using hk, by simp only [hch], rfl⟩
      · exact ⟨σ', hs, hk, rfl, rfl⟩
    obtain ⟨σ₀, hs₀, hk₀, hc₀, ht₀⟩ := hold
    rw [← ht₀]
    rcases List.mem_append.mp he with hnew | hold
    · obtain ⟨c, _, _, _, _, heq⟩ := hev e hnew
      rw [heq]
      exact h.start_lt hs₀
    · exact h.recent hold hs₀ hk₀ (hc.trans hc₀.symm)

theorem Inv.deliverResponse {adv : List Nat} {s : State} (h : Inv adv s) {sid : Nat} {σ : Session}
    {resp : Response} (hσ : s.sessions sid = some σ) (_hph : σ.phase = .awaitResponse)
    (hder : derivable s.knowledge adv resp = true) :
    Inv adv
      { s with
        sessions := update s.sessions sid
          { σ with phase := .done, result := some (finish σ.auth resp), consumed := some resp }
        time := s.time + 1 } := by
  constructor
  all_goals dsimp only
  · -- chal_ok
    intro i σ' k hs hk
    rcases update_eq_some hs with ⟨rfl, rfl⟩ | ⟨_, hs⟩
    · have := h.chal_ok hσ hk
      exact this
    · exact h.chal_ok hs hk
  · -- chal_distinct
    intro i j σi σj ki kj hi hj hki hkj hij
    rcases update_eq_some hi with ⟨rfl, rfl⟩ | ⟨_, hi2⟩ <;>
      rcases update_eq_some hj with ⟨rfl, rfl⟩ | ⟨_, hj2⟩
    · exact absurd rfl hij
    · have := h.chal_distinct hσ hj2 hki hkj hij
      exact this
    · have := h.chal_distinct hi2 hσ hki hkj hij
      exact this
    · exact h.chal_distinct hi2 hj2 hki hkj hij
  · -- seal_origin
    intro k n p hm hk
    exact h.seal_origin hm hk
  · -- event_origin
    intro e he
    obtain ⟨τ, hτ, h1, h2, h3, h4, h5⟩ := h.event_origin he
    by_cases hsid : e.sid = sid
    · rw [hsid, hσ] at hτ; cases hτ
      exact ⟨{ σ with phase := .done, result := some (finish σ.auth resp), consumed := some resp },
        by rw [hsid]; exact update_self _ _ _, h1, h2, by simp, h4, Nat.lt_succ_of_lt h5⟩
    · exact ⟨τ, by rw [update_ne _ _ hsid]; exact hτ, h1, h2, h3, h4, Nat.lt_succ_of_lt h5⟩
  · -- accepted: the heart of C20
    intro i σ' k hs hacc hk hadv
    rcases update_eq_some hs with ⟨rfl, rfl⟩ | ⟨_, hs⟩
    · -- σ just finished and accepted
      have hfin : finish σ.auth resp = true := by simpa using hacc
      have hk : σ.auth.key = some k := hk
      obtain ⟨_, n, hresp⟩ := (finish_keyed hk resp).mp hfin
      subst hresp
      -- the seal is under an honest key: the adversary can only have copied it from the network
      rcases derivable_seal.mp hder with hbad | hnet
      · exact absurd hbad hadv
      · obtain ⟨e, he, hek, hen, hp, hl⟩ := h.seal_origin hnet hadv
        -- no separator between role and challenge: injectivity needs both lengths = 16
        have hl' := (h.chal_ok hσ hk).1
        obtain ⟨hrole, hchal⟩ := role_chal_inj hp (hl'.trans hl.symm)
        refine ⟨e, he, hek, hrole.symm, hchal.symm, ?_⟩
        simp only [hen, ← hrole, ← hchal]
    · exact h.accepted hs hacc hk hadv
  · -- start_lt
    intro i σ' hs
    rcases update_eq_some hs with ⟨rfl, rfl⟩ | ⟨_, hs⟩
    · have := h.start_lt hσ
      exact Nat.lt_succ_of_lt this
    · exact Nat.lt_succ_of_lt (h.start_lt hs)
  · -- recent
    intro e he i σ' k hs hk hc
    rcases update_eq_some hs with ⟨rfl, rfl⟩ | ⟨_, hs⟩
    · have := h.recent he hσ hk hc
      exact this
    · exact h.recent he hs hk hc

theorem Inv.step {adv : List Nat} {s s' : State} {act : Action} (h : Inv adv s)
    (hs : step adv s act = some s') : Inv adv s' := by
  cases act with
  | start sid cfg chal =>
    simp only [HqModel.Auth.step] at hs
    split at hs
    · rename_i hc
      cases hs
      exact h.start cfg (by simpa using hc.1) hc.2.1 hc.2.2
    · cases hs
  | deliverRequest sid req nonce =>
    simp only [HqModel.Auth.step] at hs
    split at hs
    · rename_i σ hσ
      split at hs
      · rename_i hph
        cases hs
        exact h.deliverRequest req nonce hσ hph
      · cases hs
    · cases hs
  | deliverResponse sid resp =>
    simp only [HqModel.Auth.step] at hs
    split at hs
    · rename_i σ hσ
      split at hs
      · rename_i hc
        cases hs
        exact h.deliverResponse hσ hc.1 hc.2
      · cases hs
    · cases hs

theorem Inv.run {adv : List Nat} {as : List Action} {s s' : State} (h : Inv adv s)
    (hr : run adv s as = some s') : Inv adv s' := by
  induction as generalizing s with
  | nil => simp only [HqModel.Auth.run] at hr; cases hr; exact h
  | cons a as ih =>
    simp only [HqModel.Auth.run] at hr
    split at hr
    · rename_i s₁ hs₁
      exact ih (h.step hs₁) hr
    · cases hr

/-- Every reachable state satisfies the invariant. -/
theorem Reachable.inv {adv : List Nat} {s : State} (h : Reachable adv s) : Inv adv s := by
  obtain ⟨as, hr⟩ := h
  exact (Inv.init adv).run hr

end HqModel.Auth
