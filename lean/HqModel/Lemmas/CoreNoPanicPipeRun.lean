import HqModel.Lemmas.CoreNoPanicPipeUpd
/-!
C09 compose, Stage 4b — the strengthened invariant `WInv2 = WInv ∧ XInv` is inductive over `SysW.step`
(`step_inv2`) and holds in every reachable state (`run_winv2`); the invariant of Stage 4 (`NPX.WGood`) together with
it (`WGood2`) under the WEAKENED hypothesis `OpNPc2` (`step_wgood2`, `run_wgood2`, `wgood2_no_core_panic`,
`run_no_core_panic2`).
-/
namespace HqModel.SysW.NPP
open HqModel HqModel.Core

/-- **the extra invariant is inductive** (given `WInv` before; `WInv` afterwards is `step_inv`) -/
theorem step_xinv {s s' : State} {op : Op} {o : Out} (hi : WInv s) (hxi : XInv s) (hok : OpOk s op)
    (h : step s op = .ok (s', o)) : XInv s' := by
  have hi' : WInv s' := step_inv hi hok h
  cases op with
  | srv sop =>
    simp only [step] at h
    split at h
    · rename_i hal
      refine sysStep_xinv (fun sys' so hs => ?_) h
      exact srv_xpipes hi hxi hal hok hs (by rw [sysStep_sys' h sys' so hs]; exact hi'.coupled)
    · cases h
  | addWorker wk rqs rem =>
    simp only [step] at h
    split at h
    · cases h
    · exact sysStep_xinv (fun sys' so hs => addWorker_xpipes hi hxi hok hs) h
  | loseWorker w reason f order rets =>
    simp only [step] at h
    split at h
    · cases h
    · refine sysStep_xinv (sop := .removeWorker w reason f order rets) (fun sys' so hs => ?_) h
      exact loseWorker_xpipes hi hxi hs (by rw [sysStep_sys' h sys' so hs]; exact hi'.coupled)
  | deliverW2S w rets =>
    simp only [step] at h
    split at h
    · cases h
    · rename_i x hf
      obtain ⟨hx, hxid⟩ := findW_some hf
      split at h
      · cases h
      · rename_i m rest hq
        split at h
        · rename_i us
          exact sysStep_xinv (sop := .update w us rets) (fun sys' so hs => updates_xpipes hi hxi hf hq hs) h
        · rename_i ids
          exact sysStep_xinv (sop := .retracted w ids) (fun sys' so hs => retracted_xpipes hi hxi hx hxid hq hs) h
  | deliverS2W w extras =>
    simp only [step] at h
    split at h
    · cases h
    · rename_i x0 hf
      obtain ⟨hx, _⟩ := findW_some hf
      split at h
      · cases h
      · rename_i m rest hq
        split at h
        · cases h
        · rename_i op hop
          refine workerStep_xinv (x0 := x0) (x := { x0 with s2w := rest }) hi hxi hx rfl rfl rfl
            (fun t => ⟨compsOfMsg t m, ?_, ?_⟩) h
          · rw [hq, comps_cons]
          · obtain ⟨a, b⟩ := toWorkerOp_items t hop
            cases op <;> first | exact a _ rfl | exact b (fun es e => by cases e)
  | wlocal w op =>
    simp only [step] at h
    split at h
    · rename_i hal
      split at h
      · cases h
      · rename_i x hf
        obtain ⟨hx, _⟩ := findW_some hf
        refine workerStep_xinv (x0 := x) hi hxi hx rfl rfl rfl (fun t => ⟨[], rfl, ?_⟩) h
        cases op <;> first | rfl | cases hal
    · cases h

/-- **the strengthened invariant is inductive** -/
theorem step_inv2 {s s' : State} {op : Op} {o : Out} (hi : WInv2 s) (hok : OpOk s op) (h : step s op = .ok (s', o)) :
    WInv2 s' :=
  ⟨step_inv hi.winv hok h, step_xinv hi.winv hi.xinv hok h⟩

theorem xinv_init (reserve max : Nat) : XInv (initState reserve max) :=
  ⟨fun x hx => (by cases hx), fun x hx => (by cases hx)⟩

theorem winv2_init (reserve max : Nat) : WInv2 (initState reserve max) := ⟨winv_init reserve max, xinv_init reserve max⟩

theorem run_winv2 : ∀ (ops : List Op) {s s' : State} {outs : List Out}, WInv2 s → RunOk s ops →
    run s ops = .ok (s', outs) → WInv2 s' := by
  intro ops
  induction ops with
  | nil => intro s s' outs hi _ h; simp only [run] at h; cases h; exact hi
  | cons op rest ih =>
    intro s s' outs hi hok h
    simp only [run] at h
    split at h
    · cases h
    · rename_i s1 o1 h1
      simp only [RunOk, h1] at hok
      split at h
      · cases h
      · rename_i s2 os h2
        cases h
        exact ih (step_inv2 hi hok.1 h1) hok.2 h2

end HqModel.SysW.NPP

namespace HqModel.SysW
open HqModel

/-! ### the weakened hypothesis -/

/-- **the lifted hypothesis of one world action, WEAKENED for the delivery of a `TaskUpdate` batch**: of the worker
protocol `UpdatesOk UpdNP` only the `RunIdx` part (`UpdatesOk UpdRunIdx`: a `Running` about a Prefilled / Retracting
task names a variant the worker can host — M2 does not model resource vectors) remains, plus `RetsOk` (what the
client's `on_task_error` returned) and the exclusion of F27; every other action: `OpNPc` unchanged. -/
def OpNPc2 (s : State) (op : Op) : Prop :=
  match sysOpOf s op with
  | some (.update w us rets) =>
    Core.UpdatesOk Core.UpdRunIdx s.sys.core w us rets ∧ Core.RetsOk rets ∧ Core.UpdatesOk Core.NoF27 s.sys.core w us rets
  | o => NPcOfSys s.sys o

instance (s : State) (op : Op) : Decidable (OpNPc2 s op) := by
  unfold OpNPc2
  split <;> infer_instance

/-- `OpNPc2` on the pre-state of every action of a run (as `RunOk`) -/
def RunNPc2 (s : State) : List Op → Prop
  | [] => True
  | op :: ops =>
    OpNPc2 s op ∧
    match step s op with
    | .ok (s1, _) => RunNPc2 s1 ops
    | .error _ => True

instance RunNPc2.decidable : ∀ (ops : List Op) (s : State), Decidable (RunNPc2 s ops)
  | [], _ => isTrue trivial
  | op :: ops, s => by
    simp only [RunNPc2]
    cases h : step s op with
    | error e => simp only; infer_instance
    | ok r =>
      obtain ⟨s1, o⟩ := r
      simp only
      have := RunNPc2.decidable ops s1
      infer_instance

namespace NPP
open HqModel.Core

/-- an `update` is only performed by the delivery of the batch at the head of that worker's queue -/
theorem sysOpOf_update {s : State} {op : Op} {w : Nat} {us : List Core.Update} {rets : List (List TaskId)}
    (h : sysOpOf s op = some (.update w us rets)) :
    ∃ x rest, findW s.workers w = some x ∧ x.w2s = .updates us :: rest := by
  cases op with
  | srv sop =>
    simp only [sysOpOf] at h
    split at h
    · rename_i hal
      cases h
      cases hal
    · cases h
  | addWorker wk rqs rem => simp only [sysOpOf] at h; split at h <;> cases h
  | loseWorker w0 reason f order rets0 => simp only [sysOpOf] at h; split at h <;> cases h
  | deliverW2S w0 rets0 =>
    simp only [sysOpOf] at h
    split at h
    · cases h
    · rename_i x hf
      split at h
      · cases h
      · rename_i us0 rest hq
        cases h
        exact ⟨x, rest, hf, hq⟩
      · cases h
  | deliverS2W w0 extras => simp only [sysOpOf] at h; cases h
  | wlocal w0 op0 => simp only [sysOpOf] at h; cases h

/-- **in a state satisfying the strengthened invariant the weakened hypothesis implies the hypothesis of Stage 4** -/
theorem opNPc_of_opNPc2 {s : State} {op : Op} (hi : WInv2 s) (h : OpNPc2 s op) : OpNPc s op := by
  unfold OpNPc2 at h
  unfold OpNPc
  split at h
  · rename_i w us rets hc
    rw [hc]
    obtain ⟨x, rest, hf, hq⟩ := sysOpOf_update hc
    have hnpw := deliver_updNPw hi.winv hi.xinv hf hq rets
    show (Core.UpdatesOk Core.UpdNP s.sys.core w us rets ∧ Core.RetsOk rets) ∧ Core.UpdatesOk Core.NoF27 s.sys.core w us rets
    exact ⟨⟨(updatesOk_updNP_iff _ _ _ _).mpr ⟨hnpw, h.1⟩, h.2.1⟩, h.2.2⟩
  · exact h

theorem opNPc2_of_opNPc {s : State} {op : Op} (h : OpNPc s op) : OpNPc2 s op := by
  unfold OpNPc at h
  unfold OpNPc2
  split
  · rename_i w us rets hc
    rw [hc] at h
    have h : (Core.UpdatesOk Core.UpdNP s.sys.core w us rets ∧ Core.RetsOk rets) ∧
        Core.UpdatesOk Core.NoF27 s.sys.core w us rets := h
    exact ⟨((updatesOk_updNP_iff _ _ _ _).mp h.1.1).2, h.1.2, h.2⟩
  · exact h

theorem runNPc_of_runNPc2 : ∀ (ops : List Op) {s : State}, WInv2 s → RunOk s ops → RunNPc2 s ops → RunNPc s ops := by
  intro ops
  induction ops with
  | nil => intro _ _ _ _; trivial
  | cons op rest ih =>
    intro s hi hok hnp
    simp only [RunNPc2] at hnp
    simp only [RunNPc]
    refine ⟨opNPc_of_opNPc2 hi hnp.1, ?_⟩
    cases h1 : step s op with
    | error e => trivial
    | ok r =>
      obtain ⟨s1, o1⟩ := r
      simp only [RunOk, h1] at hok
      simp only [h1] at hnp
      exact ih (step_inv2 hi hok.1 h1) hok.2 hnp.2

theorem findW_of_mem {ws : List WState} (hn : (ws.map (·.id)).Nodup) {x : WState} (hx : x ∈ ws) :
    findW ws x.id = some x := by
  cases hf : findW ws x.id with
  | none => exact absurd rfl (findW_none hf x hx)
  | some y =>
    obtain ⟨hy, hyid⟩ := findW_some hf
    rw [eq_of_id hn hx hy hyid]

end NPP

end HqModel.SysW
