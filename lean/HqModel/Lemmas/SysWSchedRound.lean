import HqModel.Lemmas.SysWSchedItems
/-!
One scheduling round, part 2: `SI` through `create_task_mapping` + `process_proactive_filling`
(`mapSn`, the sort of the assigned lists, `mapMn`, `proactive`).
-/
namespace HqModel.Core
open HqModel HqModel.SysW

/-- no prefill has been entered yet (everything before `process_proactive_filling`) -/
def NoPre (m : List WUpdate) : Prop := ∀ u ∈ m, u.prefills = []

theorem NoPre.pItems {m : List WUpdate} (h : NoPre m) (w : Nat) (t : TaskId) : Core.pItems m w t = [] := by
  simp only [Core.pItems, items, List.flatMap_eq_nil_iff]
  intro u hu
  split
  · simp [selP, h u hu]
  · rfl

theorem NoPre.updAt {m : List WUpdate} (h : NoPre m) (w : Nat) {f : WUpdate → WUpdate}
    (hf : ∀ u, (f u).prefills = u.prefills) : NoPre (updAt m w f) := by
  intro u hu
  unfold Core.updAt at hu
  split at hu
  · obtain ⟨x, hx, rfl⟩ := List.mem_map.mp hu
    split
    · rw [hf]; exact h x hx
    · exact h x hx
  · rcases List.mem_append.mp hu with hu | hu
    · exact h u hu
    · simp only [List.mem_singleton] at hu
      subst hu; rw [hf]

theorem stOf_setTask {s : State} {id : TaskId} {task t' : Task} (hf : s.task? id = some task) (hid : t'.id = task.id)
    (u : TaskId) : stOf (s.setTask t').tasks u = if u = id then some t'.state else stOf s.tasks u := by
  have hid' : task.id = id := findTask_some_id hf
  show stOf (putTask s.tasks t') u = _
  rw [stOf_put (told := task) (by rw [hid, hid']; exact hf), hid, hid']

theorem selA_append (t : TaskId) (u : WUpdate) (l : List (TaskId × Nat)) :
    selA t { u with assigned := u.assigned ++ l } = selA t u ++ (l.filter fun a => a.1 = t).map (·.2) := by
  simp [selA]

theorem selP_append (t : TaskId) (u : WUpdate) (l : List TaskId) :
    selP t { u with prefills := u.prefills ++ l } = selP t u ++ l.filter fun x => x = t := by
  simp [selP]

/-! ### single-node placements -/

theorem placeSnBody_si {c0 s s' : State} {m m' : List WUpdate} {acc : List TaskId} {v : Nat} {r : Rq} {id : TaskId}
    {w : Nat} (hi : SI c0 s m acc) (hp : NoPre m) (h : s.placeSnBody m v r id w = .ok (s', m')) :
    SI c0 s' m' acc ∧ NoPre m' := by
  simp only [State.placeSnBody] at h
  split at h
  · cases h
  · rename_i s1 hw
    have e1 : s1.tasks = s.tasks := withWorker_tasks hw
    split at h
    · cases h
    · rename_i task hg
      have ht : s1.task? id = some task := task?_of_get hg
      have hst : stOf s.tasks id = some task.state := by rw [← e1]; exact stOf_of_find ht
      split at h
      · -- Waiting: the task is placed
        rename_i n hs
        cases h
        have hput := stOf_setTask (t' := { task with state := .assigned w v }) ht rfl
        have hf : ∀ u : WUpdate, ({ u with assigned := u.assigned ++ [(id, v)] } : WUpdate).w = u.w := fun _ => rfl
        refine ⟨SI.step hi (updAt_nodup hf hi.nd) (fun t => t = id) (fun t hne => ?_) (fun t he => ?_),
          hp.updAt w (fun _ => rfl)⟩
        · refine ⟨by rw [hput, if_neg hne, e1], fun w' => ?_, fun w' => ?_, rfl⟩
          · show items (selA t) _ w' = items (selA t) m w'
            rw [items_updAt (selA t) (D := ([(id, v)].filter fun a => a.1 = t).map (·.2)) hi.nd hf
              (fun u => selA_append t u _) rfl w']
            have : (([(id, v)] : List (TaskId × Nat)).filter fun a => a.1 = t) = [] := by
              simp [List.filter_cons, Ne.symm hne]
            simp [this]
          · exact items_updAt_same (selP t) hi.nd hf (fun _ => rfl) rfl w'
        · subst he
          have h0 := hi.t t
          rw [hst, hs] at h0
          obtain ⟨ea, hA, hP, hk⟩ := h0.of_waiting
          rw [ea, hput, if_pos rfl]
          have hAi : ∀ w', aItems (updAt m w fun u => { u with assigned := u.assigned ++ [(t, v)] }) w' t =
              if w = w' then [v] else [] := by
            intro w'
            show items (selA t) _ w' = _
            rw [items_updAt (selA t) (D := ([(t, v)].filter fun a => a.1 = t).map (·.2)) hi.nd hf
              (fun u => selA_append t u _) rfl w']
            have := hA w'
            simp only [aItems] at this
            rw [this]
            simp
          refine .inr (.inl ⟨w, v, rfl, by show aItems _ _ _ = _; rw [hAi]; simp,
            fun w' hne => by show aItems _ _ _ = _; rw [hAi]; simp [Ne.symm hne], fun w' => ?_, hk⟩)
          show items (selP t) _ w' = []
          rw [items_updAt_same (selP t) hi.nd hf (fun _ => rfl) rfl w']
          exact hP w'
      · -- Retracting: only the redirect changes
        rename_i old hs
        split at h
        · split at h
          · cases h
          · split at h
            · cases h
            · rename_i s3 hw3
              cases h
              have e3 : s3.tasks = s.tasks := by
                have := withWorker_tasks hw3
                rw [this]; exact e1
              have ht3 : s3.task? id = some task := task?_congr (by rw [e3, e1]) ht
              have hput := stOf_setTask (t' := { task with state := .retracting old }) ht3 rfl
              refine ⟨SI.step hi hi.nd (fun _ => False) (fun t _ => ⟨?_, fun _ => rfl, fun _ => rfl, rfl⟩)
                (fun _ e => e.elim), hp⟩
              rw [hput]
              split
              · rename_i e; rw [e, hst, hs]
              · rw [e3]
        · cases h
          exact ⟨hi.congr e1, hp⟩
      · -- Prefilled here (before the round): it becomes Retracting
        rename_i old hs
        split at h
        · cases h
        · rename_i s2 hw2
          split at h
          · cases h
          · cases h
            have e2 : s2.tasks = s.tasks := by
              have := withWorker_tasks hw2
              rw [this]; exact e1
            have ht2 : s2.task? id = some task := task?_congr (by rw [e2, e1]) ht
            have hput := stOf_setTask (s := { s2 with redirects := s2.redirects ++ [(id, w, v)] })
              (t' := { task with state := .retracting old }) ht2 rfl
            have hf : ∀ u : WUpdate, ({ u with retracts := u.retracts ++ [id] } : WUpdate).w = u.w := fun _ => rfl
            have hA : ∀ t w', aItems (updAt m old fun u => { u with retracts := u.retracts ++ [id] }) w' t =
                aItems m w' t := fun t w' => items_updAt_same (selA t) hi.nd hf (fun _ => rfl) rfl w'
            have hP : ∀ t w', pItems (updAt m old fun u => { u with retracts := u.retracts ++ [id] }) w' t =
                pItems m w' t := fun t w' => items_updAt_same (selP t) hi.nd hf (fun _ => rfl) rfl w'
            refine ⟨SI.step hi (updAt_nodup hf hi.nd) (fun t => t = id) (fun t hne => ?_) (fun t he => ?_),
              hp.updAt old (fun _ => rfl)⟩
            · refine ⟨?_, hA t, hP t, rfl⟩
              rw [hput, if_neg hne]; exact congrArg (fun ts => stOf ts t) e2
            · subst he
              have h0 := hi.t t
              rw [hst, hs] at h0
              rw [hput, if_pos rfl]
              have eA : (fun w' => aItems (updAt m old fun u => { u with retracts := u.retracts ++ [t] }) w' t) =
                  fun w' => aItems m w' t := funext (hA t)
              have eP : (fun w' => pItems (updAt m old fun u => { u with retracts := u.retracts ++ [t] }) w' t) =
                  fun w' => pItems m w' t := funext (hP t)
              rw [eA, eP]
              cases ha : stOf c0.tasks t with
              | none => rw [ha] at h0; obtain ⟨e, _⟩ := h0; cases e
              | some st0 =>
                rw [ha] at h0
                cases st0 with
                | waiting n0 =>
                  rcases h0 with ⟨e, _⟩ | ⟨_, _, e, _⟩ | ⟨w1, e, hpi, _⟩ | ⟨_, e, _⟩
                  · cases e
                  · cases e
                  · have hpi : pItems m w1 t = [t] := hpi
                    rw [hp.pItems] at hpi; cases hpi
                  · cases e
                | assigned x y =>
                  obtain ⟨hn, st, e, ho, _⟩ := h0; cases e
                  exact ⟨hn, _, rfl, ho, fun hh => hh⟩
                | prefilled x =>
                  obtain ⟨hn, st, e, ho, _⟩ := h0; cases e
                  exact ⟨hn, _, rfl, ho, fun hh => hh⟩
                | retracting x =>
                  obtain ⟨hn, st, e, ho, _⟩ := h0; cases e
                  exact ⟨hn, _, rfl, ho, fun hh => hh⟩
                | running x y =>
                  obtain ⟨hn, st, e, ho, _⟩ := h0; cases e
                  exact ⟨hn, _, rfl, ho, fun hh => hh⟩
                | runningMN l =>
                  obtain ⟨hn, st, e, ho, _⟩ := h0; cases e
                  exact ⟨hn, _, rfl, ho, fun hh => hh⟩
                | finished =>
                  obtain ⟨hn, st, e, ho, _⟩ := h0; cases e
                  exact ⟨hn, _, rfl, ho, fun hh => hh⟩
      · cases h

theorem placeAll_si (l : List (TaskId × Nat)) (c0 s s' : State) (m m' : List WUpdate) (acc : List TaskId) (v : Nat)
    (r : Rq) (hi : SI c0 s m acc) (hp : NoPre m) (h : s.placeAll m v r l = .ok (s', m')) :
    SI c0 s' m' acc ∧ NoPre m' := by
  induction l generalizing s m with
  | nil => simp only [State.placeAll] at h; cases h; exact ⟨hi, hp⟩
  | cons p rest ih =>
    obtain ⟨id, w⟩ := p
    simp only [State.placeAll] at h
    split at h
    · cases h
    · rename_i s1 m1 h1
      obtain ⟨a, b⟩ := placeSnBody_si hi hp (placeSn_ok h1).1
      exact ih _ _ a b h

theorem mapSn_si (es : List SnEntry) (c0 s s' : State) (now : Nat) (m m' : List WUpdate) (acc : List TaskId)
    (hi : SI c0 s m acc) (hp : NoPre m) (h : s.mapSn now m es = .ok (s', m')) : SI c0 s' m' acc ∧ NoPre m' := by
  induction es generalizing s m with
  | nil => simp only [State.mapSn] at h; cases h; exact ⟨hi, hp⟩
  | cons e rest ih =>
    simp only [State.mapSn] at h
    split at h
    · cases h
    · split at h
      · cases h
      · split at h
        · cases h
        · rename_i q hq
          split at h
          · cases h
          · rename_i q' hq'
            split at h
            · cases h
            · rename_i s2 m2 hpl
              obtain ⟨a, b⟩ := placeAll_si _ c0 _ _ _ _ acc _ _
                (hi.congr (s' := { s with queues := s.queues.set e.rq q' }) rfl) hp hpl
              exact ih _ _ a b h

/-! ### the sort of the assigned lists -/

theorem insertByPrio_perm (prio : TaskId → Int) (x : TaskId × Nat) (l : List (TaskId × Nat)) :
    (insertByPrio prio x l).Perm (x :: l) := by
  induction l with
  | nil => exact List.Perm.refl _
  | cons y ys ih =>
    simp only [insertByPrio]
    split
    · exact ((List.Perm.cons y ih).trans (List.Perm.swap x y ys))
    · exact List.Perm.refl _

theorem sortByPrio_perm (prio : TaskId → Int) (l : List (TaskId × Nat)) : (sortByPrio prio l).Perm l := by
  unfold sortByPrio
  have : ∀ (l acc : List (TaskId × Nat)), (l.foldl (fun acc x => insertByPrio prio x acc) acc).Perm (l.reverse ++ acc) := by
    intro l
    induction l with
    | nil => intro acc; exact List.Perm.refl _
    | cons x xs ih =>
      intro acc
      simp only [List.foldl_cons, List.reverse_cons, List.append_assoc, List.singleton_append]
      exact (ih _).trans (List.Perm.append_left _ (insertByPrio_perm prio x acc))
  have h := this l []
  rw [List.append_nil] at h
  exact h.trans (List.reverse_perm l)

theorem TRelS.perm {t : TaskId} {a b : Option TS} {A A' : Nat → List Nat} {P : Nat → List TaskId} {k : Nat}
    (h : TRelS t a b A P k) (hp : ∀ w, (A' w).Perm (A w)) : TRelS t a b A' P k := by
  have nil : ∀ w, A w = [] → A' w = [] := fun w e => (e ▸ hp w).eq_nil
  have one : ∀ w x, A w = [x] → A' w = [x] := fun w x e => List.perm_singleton.mp (e ▸ hp w)
  have noit : NoIt A P k → NoIt A' P k := fun ⟨a, b, c⟩ => ⟨fun w => nil w (a w), b, c⟩
  cases a with
  | none => exact ⟨h.1, noit h.2⟩
  | some st0 =>
    cases st0 with
    | waiting n =>
      rcases h with ⟨e, hn⟩ | ⟨w, rv, e, h1, h2, h3, h4⟩ | ⟨w, e, h1, h2, h3, h4⟩ | ⟨ws, e, h1, h2, h3⟩
      · exact .inl ⟨e, noit hn⟩
      · exact .inr (.inl ⟨w, rv, e, one w rv h1, fun w' hne => nil w' (h2 w' hne), h3, h4⟩)
      · exact .inr (.inr (.inl ⟨w, e, h1, h2, fun w' => nil w' (h3 w'), h4⟩))
      · exact .inr (.inr (.inr ⟨ws, e, fun w' => nil w' (h1 w'), h2, h3⟩))
    | assigned x y => exact ⟨noit h.1, h.2⟩
    | prefilled x => exact ⟨noit h.1, h.2⟩
    | retracting x => exact ⟨noit h.1, h.2⟩
    | running x y => exact ⟨noit h.1, h.2⟩
    | runningMN l => exact ⟨noit h.1, h.2⟩
    | finished => exact ⟨noit h.1, h.2⟩

theorem aItems_sort_perm (prio : TaskId → Int) (w : Nat) (t : TaskId) : ∀ (m : List WUpdate),
    (aItems (m.map fun u => { u with assigned := sortByPrio prio u.assigned }) w t).Perm (aItems m w t)
  | [] => List.Perm.refl _
  | u :: rest => by
    simp only [aItems, List.map_cons, items_cons]
    refine List.Perm.append ?_ (aItems_sort_perm prio w t rest)
    split
    · exact ((sortByPrio_perm prio u.assigned).filter _).map _
    · exact List.Perm.refl _

theorem sort_si {c0 s : State} {m : List WUpdate} {acc : List TaskId} (prio : TaskId → Int) (hi : SI c0 s m acc)
    (hp : NoPre m) :
    SI c0 s (m.map fun u => { u with assigned := sortByPrio prio u.assigned }) acc ∧
    NoPre (m.map fun u => { u with assigned := sortByPrio prio u.assigned }) := by
  refine ⟨⟨by rw [List.map_map]; exact hi.nd, fun t => ?_⟩, fun u hu => ?_⟩
  · have eP : (fun w => pItems (m.map fun u => { u with assigned := sortByPrio prio u.assigned }) w t) =
        fun w => pItems m w t := by
      funext w
      simp only [pItems, items, List.flatMap_map]
      rfl
    rw [eP]
    exact (hi.t t).perm fun w => aItems_sort_perm prio w t m
  · obtain ⟨x, hx, rfl⟩ := List.mem_map.mp hu
    exact hp x hx

end HqModel.Core
