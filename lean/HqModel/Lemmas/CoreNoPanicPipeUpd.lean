import HqModel.Lemmas.CoreNoPanicPipeStep
/-!
C09 compose, Stage 4b — the delivery of a `TaskUpdate` batch, update by update (parallel to `upd1_step` / `batch_step`
of `Lemmas/SysWStep3.lean`): the head of the worker's own stream satisfies `Core.UpdNPw` BECAUSE of the pipeline
invariants (`updNPw_of_head`), and processing it re-establishes the extra invariant with the rest of the batch at the
head of the queue. Result: `batch_step2` (`Core.UpdatesOk Core.UpdNPw` + the extra invariant after the loop).
-/
namespace HqModel.SysW.NPP
open HqModel HqModel.Core

/-! ### the worker protocol from the head of the stream -/

theorem stOf_of_task? {c : Core.State} {t : TaskId} {task : Task} (h : c.task? t = some task) :
    stOf c.tasks t = some task.state := stOf_of_find h

theorem view_of_task? {c : Core.State} {w : Nat} {t : TaskId} {task : Task} (h : c.task? t = some task) :
    view c w t = viewSt c w t task.state := by
  unfold view; rw [h]

/-- **`UpdNPw` of the update at the head of worker `w`'s stream**, from `PipeOk` and `PX` of the task it is about -/
theorem updNPw_of_head {c : Core.State} {w : Nat} {u : Core.Update} (hw : (c.worker? w).isSome = true)
    (hh : ∀ t e, evsOfUpd t u = [e] → ∃ cs P ws n,
      PipeOk (view c w t) cs (e :: P) ws n ∧ PX (runsOn c w t) (view c w t) cs (e :: P) ws n) :
    Core.UpdNPw c w u := by
  unfold UpdNPw
  refine ⟨hw, ?_⟩
  -- the facts about the reported task `t0` with head event `e`
  have key : ∀ t0 e, evsOfUpd t0 u = [e] → ∀ task, c.task? t0 = some task →
      viewSt c w t0 task.state ≠ .quiet ∧
      (e = .fin → viewSt c w t0 task.state = .hot) ∧
      (isRR e = true → ∀ v, task.state ≠ .running w v) ∧
      (∀ rv rv', e = .run rv' → viewSt c w t0 task.state = .asg rv → rv' = rv) := by
    intro t0 e he task ht
    obtain ⟨cs, P, ws, n, hp, hx⟩ := hh t0 e he
    rw [view_of_task? ht] at hp hx
    refine ⟨hp.head_ne_quiet, fun e' => by subst e'; exact hp.head_fin, fun hr v hs => ?_, fun rv rv' e' hv => ?_⟩
    · have hR : runsOn c w t0 := ⟨v, by rw [stOf_of_task? ht, hs]⟩
      have := (hx.run hR).2.1.head
      rw [hr] at this; cases this
    · subst e'
      exact (hx.head rv' P rfl (.inr ⟨rv, hv⟩)).2.2 rv hv
  -- the state of a task whose view is not `quiet`
  cases u with
  | running t0 rv =>
    simp only
    cases ht : c.task? t0 with
    | none => trivial
    | some task =>
      obtain ⟨k1, _, k3, k4⟩ := key t0 (.run rv) (by simp [evsOfUpd]) task ht
      simp only
      cases hs : task.state with
      | waiting n => rw [hs] at k1; simp [viewSt] at k1
      | finished => rw [hs] at k1; simp [viewSt] at k1
      | assigned w' rv' =>
        rw [hs] at k1 k4
        simp only [viewSt] at k1 k4
        by_cases e : w' = w
        · subst e
          simp only [if_true] at k4
          exact ⟨rfl, (k4 rv' rv rfl rfl).symm⟩
        · simp [e] at k1
      | prefilled w' =>
        rw [hs] at k1
        simp only [viewSt] at k1
        by_cases e : w' = w
        · exact e
        · simp [e] at k1
      | retracting w' =>
        rw [hs] at k1
        simp only [viewSt] at k1
        by_cases e : w' = w
        · exact e
        · simp [e] at k1
      | running w' v =>
        rw [hs] at k1
        simp only [viewSt] at k1
        by_cases e : w' = w
        · subst e; exact k3 rfl v hs
        · simp [e] at k1
      | runningMN l =>
        rw [hs] at k1
        cases l with
        | nil => simp [viewSt] at k1
        | cons root rest =>
          simp only [viewSt] at k1
          by_cases e : root = w
          · simp [e]
          · simp [e] at k1
  | runningPrefilled t0 rv =>
    simp only
    cases ht : c.task? t0 with
    | none => trivial
    | some task =>
      obtain ⟨k1, _, k3, k4⟩ := key t0 (.run rv) (by simp [evsOfUpd]) task ht
      simp only
      cases hs : task.state with
      | waiting n => rw [hs] at k1; simp [viewSt] at k1
      | finished => rw [hs] at k1; simp [viewSt] at k1
      | assigned w' rv' =>
        rw [hs] at k1 k4
        simp only [viewSt] at k1 k4
        by_cases e : w' = w
        · subst e
          simp only [if_true] at k4
          exact ⟨rfl, (k4 rv' rv rfl rfl).symm⟩
        · simp [e] at k1
      | prefilled w' =>
        rw [hs] at k1
        simp only [viewSt] at k1
        by_cases e : w' = w
        · exact e
        · simp [e] at k1
      | retracting w' =>
        rw [hs] at k1
        simp only [viewSt] at k1
        by_cases e : w' = w
        · exact e
        · simp [e] at k1
      | running w' v =>
        rw [hs] at k1
        simp only [viewSt] at k1
        by_cases e : w' = w
        · subst e; exact k3 rfl v hs
        · simp [e] at k1
      | runningMN l =>
        rw [hs] at k1
        cases l with
        | nil => simp [viewSt] at k1
        | cons root rest =>
          simp only [viewSt] at k1
          by_cases e : root = w
          · simp [e]
          · simp [e] at k1
  | finished t0 =>
    simp only
    cases ht : c.task? t0 with
    | none => trivial
    | some task =>
      obtain ⟨_, k2, _, _⟩ := key t0 .fin (by simp [evsOfUpd]) task ht
      have k2 := k2 rfl
      simp only
      cases hs : task.state with
      | waiting n => rw [hs] at k2; simp [viewSt] at k2
      | finished => rw [hs] at k2; simp [viewSt] at k2
      | assigned w' rv' => rw [hs] at k2; simp only [viewSt] at k2; split at k2 <;> cases k2
      | prefilled w' => rw [hs] at k2; simp only [viewSt] at k2; split at k2 <;> cases k2
      | retracting w' => rw [hs] at k2; simp only [viewSt] at k2; split at k2 <;> cases k2
      | running w' v =>
        rw [hs] at k2
        simp only [viewSt] at k2
        by_cases e : w' = w
        · exact e
        · simp [e] at k2
      | runningMN l =>
        rw [hs] at k2
        cases l with
        | nil => simp [viewSt] at k2
        | cons root rest =>
          simp only [viewSt] at k2
          by_cases e : root = w
          · simp [e]
          · simp [e] at k2
  | failed t0 =>
    simp only
    cases ht : c.task? t0 with
    | none => trivial
    | some task =>
      obtain ⟨k1, _, _, _⟩ := key t0 .fail (by simp [evsOfUpd]) task ht
      simp only
      cases hs : task.state with
      | waiting n => rw [hs] at k1; simp [viewSt] at k1
      | finished => rw [hs] at k1; simp [viewSt] at k1
      | assigned w' rv' =>
        rw [hs] at k1
        simp only [viewSt] at k1
        by_cases e : w' = w
        · exact e
        · simp [e] at k1
      | prefilled w' =>
        rw [hs] at k1
        simp only [viewSt] at k1
        by_cases e : w' = w
        · exact e
        · simp [e] at k1
      | retracting w' =>
        rw [hs] at k1
        simp only [viewSt] at k1
        by_cases e : w' = w
        · exact e
        · simp [e] at k1
      | running w' v =>
        rw [hs] at k1
        simp only [viewSt] at k1
        by_cases e : w' = w
        · exact e
        · simp [e] at k1
      | runningMN l =>
        rw [hs] at k1
        cases l with
        | nil => simp [viewSt] at k1
        | cons root rest =>
          simp only [viewSt] at k1
          by_cases e : root = w
          · simp [e]
          · simp [e] at k1
  | reject t0 orv =>
    simp only
    cases ht : c.task? t0 with
    | none => trivial
    | some task =>
      obtain ⟨k1, _, k3, _⟩ := key t0 (.rej orv) (by simp [evsOfUpd]) task ht
      simp only
      cases hs : task.state with
      | waiting n => rw [hs] at k1; simp [viewSt] at k1
      | finished => rw [hs] at k1; simp [viewSt] at k1
      | assigned w' rv' => trivial
      | prefilled w' =>
        rw [hs] at k1
        simp only [viewSt] at k1
        by_cases e : w' = w
        · exact e
        · simp [e] at k1
      | retracting w' => trivial
      | running w' v =>
        rw [hs] at k1
        simp only [viewSt] at k1
        by_cases e : w' = w
        · subst e; exact k3 rfl v hs
        · simp [e] at k1
      | runningMN l => trivial
  | enable rq rv => trivial

/-! ### one update -/

/-- **one update of the batch at the head of worker `w`'s queue**, extra half (the `WInv` half is `upd1_step`) -/
theorem upd1_step2 {c : Core.State} {U : List TaskId} {ws : List WState} {w : Nat} {u : Core.Update}
    {rest : List Core.Update} {tl : List W2S} {rets : List (List TaskId)}
    (hi : InvF c) (hall : ∀ y ∈ ws, ∀ t, Pipe c U y t)
    (hk : ∀ y ∈ ws, (c.worker? y.id).isSome = true) (hxall : ∀ y ∈ ws, ∀ t, PipeX c y t)
    (hq : ∀ y ∈ ws, y.id = w → y.w2s = .updates (u :: rest) :: tl) (hex : ∃ x ∈ ws, x.id = w) :
    Core.UpdNPw c w u ∧
    ∀ c1 o1 rets1, c.upd1 w u rets = .ok (c1, o1, rets1) → InvF c1 →
      (∀ y ∈ ws.map (st1 w (.updates rest :: tl) o1.msgs), (c1.worker? y.id).isSome = true) ∧
      ∀ y ∈ ws.map (st1 w (.updates rest :: tl) o1.msgs), ∀ t, PipeX c1 y t := by
  obtain ⟨x, hx, hxid⟩ := hex
  have hxq := hq x hx hxid
  -- the head event of the stream about `t`
  have head : ∀ t e, evsOfUpd t u = [e] →
      PipeOk (view c w t) (comps t x.s2w) (e :: pend t (.updates rest :: tl)) x.w (enc t) ∧
      PX (runsOn c w t) (view c w t) (comps t x.s2w) (e :: pend t (.updates rest :: tl)) x.w (enc t) := by
    intro t e he
    have hp : pend t x.w2s = e :: pend t (.updates rest :: tl) := by rw [hxq, pend_updates_cons, he]; rfl
    have hu : t ∈ U := by
      apply Classical.byContradiction
      intro hn
      have := ((hall x hx t).2 hn).2.1
      rw [hp] at this; cases this
    have h1 := (hall x hx t).1 hu
    have h2 : PX _ _ _ _ _ _ := hxall x hx t
    rw [hp, hxid] at h1 h2
    exact ⟨h1, h2⟩
  have hquiet : ∀ t e, evsOfUpd t u = [e] → view c w t ≠ .quiet := fun t e he => (head t e he).1.head_ne_quiet
  refine ⟨updNPw_of_head (hxid ▸ hk x hx) (fun t e he => ⟨_, _, _, _, head t e he⟩), fun c1 o1 rets1 h hi1 => ?_⟩
  obtain ⟨v1, v2, _⟩ := upd1_views hi.inv.nd (MnOk.of_invF hi) (MnOk.of_invF hi1) hquiet h
  obtain ⟨r1, r2⟩ := upd1_runkeep hi.inv.nd (MnOk.of_invF hi) hquiet h
  constructor
  · intro y' hy'
    obtain ⟨y, hy, rfl⟩ := List.mem_map.mp hy'
    exact upd1_worker_keep h y.id (hk y hy)
  · intro y' hy' t
    obtain ⟨y, hy, rfl⟩ := List.mem_map.mp hy'
    by_cases hyw : y.id = w
    · -- a record of the reporting worker
      have hyq := hq y hy hyw
      rcases evsOfUpd_cases t u with he | ⟨e, he⟩
      · have hpe : pend t (if y.id = w then W2S.updates rest :: tl else y.w2s) = pend t y.w2s := by
          simp only [hyw, if_true]; rw [hyq, pend_updates_cons, he]; rfl
        have hp : Pipe c U { y with w2s := if y.id = w then .updates rest :: tl else y.w2s } t :=
          (hall y hy t).congr rfl rfl hpe rfl
        have hxp : PipeX c { y with w2s := if y.id = w then .updates rest :: tl else y.w2s } t :=
          (hxall y hy t).congr Iff.rfl rfl rfl hpe rfl
        exact hxp.srv hp (fun _ => v1 y.id t (.inr he)) (r1 y.id t (.inr he))
      · refine PipeX.own (x := y) (e := e) (hall y hy t) (hxall y hy t) rfl rfl rfl ?_ ?_ ?_
        · simp only [hyw, if_true]; rw [hyq, pend_updates_cons, he]; rfl
        · rw [hyw]; exact v2 t e he
        · rw [hyw]; exact r2 t e he
    · have hpe : pend t (if y.id = w then W2S.updates rest :: tl else y.w2s) = pend t y.w2s := by
        simp only [hyw, if_false]
      have hp : Pipe c U { y with w2s := if y.id = w then .updates rest :: tl else y.w2s } t :=
        (hall y hy t).congr rfl rfl hpe rfl
      have hxp : PipeX c { y with w2s := if y.id = w then .updates rest :: tl else y.w2s } t :=
        (hxall y hy t).congr Iff.rfl rfl rfl hpe rfl
      exact hxp.srv hp (fun _ => v1 y.id t (.inl hyw)) (r1 y.id t (.inl hyw))

/-! ### the whole batch -/

/-- **a `TaskUpdate` batch**: every update satisfies `Core.UpdNPw` in the state in which the reactor processes it, and
after the loop the extra invariant holds with the batch removed from the queue and all messages routed -/
theorem batch_step2 (w : Nat) (tl : List W2S) (U : List TaskId) : ∀ (us : List Core.Update) (c : Core.State)
    (ws : List WState) (rets : List (List TaskId)),
    InvF c → (∀ t ∈ taskIds c.tasks, t ∈ U) → (∀ y ∈ ws, ∀ t, Pipe c U y t) →
    (∀ y ∈ ws, (c.worker? y.id).isSome = true) → (∀ y ∈ ws, ∀ t, PipeX c y t) →
    (∀ y ∈ ws, y.id = w → y.w2s = .updates us :: tl) → (∃ x ∈ ws, x.id = w) →
    Core.UpdatesOk Core.UpdNPw c w us rets ∧
    ∀ out0 need0 c' out need' rets', c.updateLoop w us rets out0 need0 = .ok (c', out, need', rets') →
      ∃ msgs, out.msgs = out0.msgs ++ msgs ∧ (∀ y ∈ ws.map (st1 w tl msgs), (c'.worker? y.id).isSome = true) ∧
        ∀ y ∈ ws.map (st1 w tl msgs), ∀ t, PipeX c' y t := by
  intro us
  induction us with
  | nil =>
    intro c ws rets hi hsub hall hk hxall hq hex
    refine ⟨trivial, fun out0 need0 c' out need' rets' h => ?_⟩
    simp only [State.updateLoop] at h
    cases h
    refine ⟨[], by simp, fun y' hy' => ?_, fun y' hy' t => ?_⟩
    · obtain ⟨y, hy, rfl⟩ := List.mem_map.mp hy'
      exact hk y hy
    · obtain ⟨y, hy, rfl⟩ := List.mem_map.mp hy'
      have hpe : pend t (if y.id = w then tl else y.w2s) = pend t y.w2s := by
        by_cases hyw : y.id = w
        · simp only [hyw, if_true]; rw [hq y hy hyw]; simp [pend_cons, evsOfMsg]
        · simp only [hyw, if_false]
      have hp : Pipe c U { y with w2s := if y.id = w then tl else y.w2s } t := (hall y hy t).congr rfl rfl hpe rfl
      have hxp : PipeX c { y with w2s := if y.id = w then tl else y.w2s } t :=
        (hxall y hy t).congr Iff.rfl rfl rfl hpe rfl
      exact hxp.same hp
  | cons u rest ih =>
    intro c ws rets hi hsub hall hk hxall hq hex
    obtain ⟨hok, hstep⟩ := upd1_step (rets := rets) hi hsub hall hq hex
    obtain ⟨hnp, hstep2⟩ := upd1_step2 (rets := rets) hi hall hk hxall hq hex
    have hq1 : ∀ m, ∀ y ∈ ws.map (st1 w (.updates rest :: tl) m), y.id = w → y.w2s = .updates rest :: tl := by
      intro m y' hy' hid
      obtain ⟨y, _, rfl⟩ := List.mem_map.mp hy'
      have : y.id = w := hid
      simp [st1, route1, this]
    have hex1 : ∀ m, ∃ x ∈ ws.map (st1 w (.updates rest :: tl) m), x.id = w := by
      intro m
      obtain ⟨x, hx, hxid⟩ := hex
      exact ⟨_, List.mem_map_of_mem hx, hxid⟩
    constructor
    · refine ⟨hnp, ?_⟩
      cases hus : c.updateState w u rets with
      | error e => trivial
      | ok r =>
        obtain ⟨c1, rets1⟩ := r
        simp only
        obtain ⟨o1, h1⟩ := updateState_upd1 hus
        obtain ⟨hi1, hsub1, hall1⟩ := hstep c1 o1 rets1 h1
        obtain ⟨hk1, hxall1⟩ := hstep2 c1 o1 rets1 h1 hi1
        exact (ih c1 _ rets1 hi1 hsub1 hall1 hk1 hxall1 (hq1 _) (hex1 _)).1
    · intro out0 need0 c' out need' rets' h
      obtain ⟨c1, o1, rets1, need1, h1, h2⟩ := updateLoop_cons_out h
      obtain ⟨hi1, hsub1, hall1⟩ := hstep c1 o1 rets1 h1
      obtain ⟨hk1, hxall1⟩ := hstep2 c1 o1 rets1 h1 hi1
      obtain ⟨msgs, e1, e2, e3⟩ := (ih c1 _ rets1 hi1 hsub1 hall1 hk1 hxall1 (hq1 _) (hex1 _)).2 _ _ _ _ _ _ h2
      refine ⟨o1.msgs ++ msgs, by rw [e1, Out.add_msgs, List.append_assoc], ?_, ?_⟩
      · intro y' hy'
        obtain ⟨y, hy, rfl⟩ := List.mem_map.mp hy'
        rw [← st1_st1 w (.updates rest :: tl) tl o1.msgs msgs y]
        exact e2 _ (List.mem_map_of_mem (List.mem_map_of_mem hy))
      · intro y' hy' t
        obtain ⟨y, hy, rfl⟩ := List.mem_map.mp hy'
        rw [← st1_st1 w (.updates rest :: tl) tl o1.msgs msgs y]
        exact e3 _ (List.mem_map_of_mem (List.mem_map_of_mem hy)) t

/-! ### the delivery -/

/-- **the side condition `UpdNPw` of the delivered batch, from the invariants** -/
theorem deliver_updNPw {s : State} {w : Nat} {x : WState} {us : List Core.Update} {rest : List W2S}
    (hi : WInv s) (hxi : XInv s) (hf : findW s.workers w = some x) (hq : x.w2s = .updates us :: rest)
    (rets : List (List TaskId)) : Core.UpdatesOk Core.UpdNPw s.sys.core w us rets := by
  obtain ⟨hx, hxid⟩ := findW_some hf
  refine (batch_step2 w rest s.submitted us s.sys.core s.workers rets hi.coupled.inv hi.sub hi.pipe hxi.known hxi.pipe
    ?_ ⟨x, hx, hxid⟩).1
  intro y hy hyw
  rw [eq_of_id hi.nodup hx hy (hyw.trans hxid.symm)]
  exact hq

theorem updates_xpipes {s : State} {w : Nat} {x : WState} {us : List Core.Update} {rest : List W2S}
    {rets : List (List TaskId)} (hi : WInv s) (hxi : XInv s) (hf : findW s.workers w = some x)
    (hq : x.w2s = .updates us :: rest) {sys' : Sys.State} {so : Sys.Out}
    (hs : Sys.step s.sys (.update w us rets) = .ok (sys', so)) :
    ∀ y ∈ setW s.workers { x with w2s := rest },
      (sys'.core.worker? y.id).isSome = true ∧ ∀ t, PipeX sys'.core (route1 y so.core.msgs) t := by
  obtain ⟨hx, hxid⟩ := findW_some hf
  have hqall : ∀ y ∈ s.workers, y.id = w → y.w2s = .updates us :: rest := by
    intro y hy hyw
    rw [eq_of_id hi.nodup hx hy (hyw.trans hxid.symm)]
    exact hq
  have hcs : Core.step s.sys.core (.update w us rets) = .ok (sys'.core, so.core) :=
    coreStep_core (by simpa only [Sys.step] using hs)
  simp only [Core.step, State.taskUpdate] at hcs
  split at hcs
  · cases hcs
  · rename_i s1 out need rets' hl
    simp only [Except.ok.injEq, Prod.mk.injEq] at hcs
    obtain ⟨ec, eo⟩ := hcs
    obtain ⟨msgs, e1, e2, e3⟩ :=
      (batch_step2 w rest s.submitted us s.sys.core s.workers rets hi.coupled.inv hi.sub hi.pipe hxi.known hxi.pipe
        hqall ⟨x, hx, hxid⟩).2 _ _ _ _ _ _ hl
    have em : so.core.msgs = msgs := by rw [← eo, e1]; rfl
    have hv : ∀ w t, view sys'.core w t = view s1 w t := by
      intro w t
      rw [← ec]
      split
      · exact view_ask _ _ _
      · rfl
    have ht : sys'.core.tasks = s1.tasks := by rw [← ec]; split <;> rfl
    have hwk : sys'.core.workers = s1.workers := by rw [← ec]; split <;> rfl
    intro y hy
    rw [em]
    have key : ∃ y0 ∈ s.workers, route1 y msgs = st1 w rest msgs y0 := by
      rcases mem_setW hy with rfl | ⟨hm, hne⟩
      · exact ⟨x, hx, by simp [st1, hxid]⟩
      · refine ⟨y, hm, ?_⟩
        have : y.id ≠ w := by rw [← hxid]; exact hne
        simp [st1, this]
    obtain ⟨y0, hy0, ey⟩ := key
    have hid : y.id = (st1 w rest msgs y0).id := by rw [← ey]; rfl
    constructor
    · rw [hid]
      have := e2 _ (List.mem_map_of_mem hy0)
      unfold State.worker? at this ⊢
      rw [hwk]; exact this
    · intro t
      rw [ey]
      refine (e3 _ (List.mem_map_of_mem hy0) t).congr ?_ (hv _ _) rfl rfl rfl
      unfold runsOn
      rw [ht]

end HqModel.SysW.NPP
