import HqModel.Lemmas.SysWEnc
/-!
Vocabulary of the composed invariant (`Lemmas/SysWInv.lean`): for ONE worker `w` and ONE task `t`

* `view c w t` — what the core thinks about `t` from the point of view of `w`:
  `hot` (unknown to the core, or Running on `w`, or RunningMultiNode with root `w` and the `started` flag: every
  message of `w` about `t` is harmless), `asg rv` (Assigned to `w` with variant `rv`, or multi-node with root `w`, not
  started), `pre` (Prefilled on `w` or Retracting from `w`), `quiet` (known and not at `w`);
* `comps t q` — the `ComputeTasks` items for `t` in a server → worker queue (`some rv` assigned, `none` prefill);
* `pend t q` — the events about `t` in a worker → server queue, in order (`Ev`);
* `Free` / `Back` — the worker does not hold `t` / holds it exactly once in a backlog and does not run it;
* `PipeOk` — the allowed pipelines (queue to the worker, worker, queue to the server) per view.
-/
namespace HqModel.SysW
open HqModel

/-! ### the core's view -/

inductive V where
  | hot | quiet | asg (rv : Nat) | pre
  deriving DecidableEq, Repr

/-- worker `w` is in a multi-node assignment for `t` with the `started` flag -/
def mnStarted (c : Core.State) (w : Nat) (t : TaskId) : Bool :=
  match c.worker? w with
  | some wk =>
    match wk.assign with
    | .mn t' _ true => t' == t
    | _ => false
  | none => false

def viewSt (c : Core.State) (w : Nat) (t : TaskId) : Core.TS → V
  | .running w' _ => if w' = w then .hot else .quiet
  | .assigned w' rv => if w' = w then .asg rv else .quiet
  | .prefilled w' => if w' = w then .pre else .quiet
  | .retracting w' => if w' = w then .pre else .quiet
  | .runningMN (root :: _) => if root = w then (if mnStarted c w t then .hot else .asg 0) else .quiet
  | _ => .quiet

def view (c : Core.State) (w : Nat) (t : TaskId) : V :=
  match c.task? t with
  | none => .hot
  | some task => viewSt c w t task.state

/-! ### events in the queues -/

inductive Ev where
  | run (rv : Nat) | fin | fail | rej (orv : Option Nat) | resp
  deriving DecidableEq, Repr

def evsOfUpd (t : TaskId) : Core.Update → List Ev
  | .finished t' => if t' = t then [.fin] else []
  | .failed t' => if t' = t then [.fail] else []
  | .running t' rv => if t' = t then [.run rv] else []
  | .runningPrefilled t' rv => if t' = t then [.run rv] else []
  | .reject t' orv => if t' = t then [.rej orv] else []
  | .enable _ _ => []

def evsOfMsg (t : TaskId) : W2S → List Ev
  | .updates us => us.flatMap (evsOfUpd t)
  | .retracted ids => if t ∈ ids then [.resp] else []

def pend (t : TaskId) (q : List W2S) : List Ev := q.flatMap (evsOfMsg t)

def compsOfMsg (t : TaskId) : S2W → List (Option Nat)
  | .compute items => (items.filter fun it => it.1 = t).map (·.2.2.1)
  | _ => []

def comps (t : TaskId) (q : List S2W) : List (Option Nat) := q.flatMap (compsOfMsg t)

/-- the same on the worker side (ids of M2) -/
def evsW (n : Nat) : Worker.Update → List Ev
  | .finished t => if t = n then [.fin] else []
  | .failed t _ => if t = n then [.fail] else []
  | .running t rv => if t = n then [.run rv] else []
  | .runningPrefilled t rv => if t = n then [.run rv] else []
  | .reject t orv => if t = n then [.rej orv] else []
  | .enable _ _ => []

def evsOut (n : Nat) : Worker.Out → List Ev
  | .updates us => us.flatMap (evsW n)
  | .retractResponse ids => if n ∈ ids then [.resp] else []
  | _ => []

def evsOuts (n : Nat) (outs : List Worker.Out) : List Ev := outs.flatMap (evsOut n)

/-! ### what the worker holds -/

def isRun (s : Worker.State) (n : Nat) : Prop := ∃ r ∈ s.running, r.task.id = n

def bcount (s : Worker.State) (n rq : Nat) : Nat := ((s.backlog rq).filter fun x => x.id = n).length

def Free (s : Worker.State) (n : Nat) : Prop := ¬ isRun s n ∧ ∀ rq, bcount s n rq = 0

def Back (s : Worker.State) (n : Nat) : Prop :=
  ¬ isRun s n ∧ ∃ rq0, bcount s n rq0 = 1 ∧ ∀ rq, rq ≠ rq0 → bcount s n rq = 0

/-! ### the allowed pipelines -/

def Quiet (cs : List (Option Nat)) (P : List Ev) (ws : Worker.State) (n : Nat) : Prop :=
  cs = [] ∧ P = [] ∧ Free ws n

/-- after the worker processed an assigned item with variant `rv` -/
def AsgDone (rv : Nat) (P : List Ev) (ws : Worker.State) (n : Nat) : Prop :=
  (∃ rv' rest, P = .run rv' :: rest) ∨ (∃ rest, P = .fail :: rest) ∨ (P = [.rej (some rv)] ∧ Free ws n)

/-- after the worker processed a prefill item -/
def PreDone (P : List Ev) (ws : Worker.State) (n : Nat) : Prop :=
  (P = [] ∧ (Back ws n ∨ Free ws n)) ∨ (∃ rv rest, P = .run rv :: rest) ∨ (∃ rest, P = .fail :: rest) ∨
  (∃ orv, P = [.rej orv] ∧ Free ws n) ∨ (P = [.resp] ∧ Free ws n)

def PipeOk : V → List (Option Nat) → List Ev → Worker.State → Nat → Prop
  | .hot, _, _, _, _ => True
  | .quiet, cs, P, ws, n => Quiet cs P ws n
  | .asg rv, cs, P, ws, n => (cs = [some rv] ∧ P = [] ∧ Free ws n) ∨ (cs = [] ∧ AsgDone rv P ws n)
  | .pre, cs, P, ws, n => (cs = [none] ∧ P = [] ∧ Free ws n) ∨ (cs = [] ∧ PreDone P ws n)

/-- the pipeline of worker record `x` for task `t`; `U` = the ids submitted so far -/
def Pipe (c : Core.State) (U : List TaskId) (x : WState) (t : TaskId) : Prop :=
  (t ∈ U → PipeOk (view c x.id t) (comps t x.s2w) (pend t x.w2s) x.w (enc t)) ∧
  (t ∉ U → Quiet (comps t x.s2w) (pend t x.w2s) x.w (enc t))

/-! ### how a view may change together with the `ComputeTasks` items sent to that worker for that task -/

/-- by an action that is not a message of this worker about this task -/
def Foreign (v : V) (cm : List (Option Nat)) (v' : V) : Prop :=
  (v = .hot → v' = .hot) ∧
  (v' = .hot ∨ (v' = v ∧ cm = []) ∨
   (v = .quiet ∧ ((∃ rv, v' = .asg rv ∧ cm = [some rv]) ∨ (v' = .pre ∧ cm = [none]))))

theorem Foreign.same (v : V) : Foreign v [] v := ⟨fun h => h, .inr (.inl ⟨rfl, rfl⟩)⟩

theorem PipeOk.foreign {v v' : V} {cs cm : List (Option Nat)} {P : List Ev} {ws : Worker.State} {n : Nat}
    (h : PipeOk v cs P ws n) (f : Foreign v cm v') : PipeOk v' (cs ++ cm) P ws n := by
  obtain ⟨_, f2⟩ := f
  rcases f2 with e | ⟨e, e2⟩ | ⟨e, f3⟩
  · subst e; trivial
  · subst e e2; rw [List.append_nil]; exact h
  · subst e
    obtain ⟨h1, h2, h3⟩ := h
    subst h1
    rcases f3 with ⟨rv, e, e2⟩ | ⟨e, e2⟩
    · subst e e2; exact .inl ⟨rfl, h2, h3⟩
    · subst e e2; exact .inl ⟨rfl, h2, h3⟩

/-- by the head event `e` of the worker's own stream about this task (`P = e :: P'`) -/
def Own (e : Ev) (v : V) (cm : List (Option Nat)) (v' : V) : Prop :=
  (v = .hot → v' = .hot) ∧
  match e with
  | .run _ => v' = .hot
  | .fail => v' = .hot
  | .fin => True
  | .rej orv =>
    (∀ rv, v = .asg rv → orv = some rv → (v' = .hot ∨ v' = .quiet) ∧ cm = []) ∧
    (v = .pre → v' = .hot ∨ (v' = .quiet ∧ cm = []) ∨ ∃ rv, v' = .asg rv ∧ cm = [some rv])
  | .resp =>
    (v = .pre → v' = .hot ∨ (v' = .quiet ∧ cm = []) ∨ (v' = .pre ∧ cm = []) ∨ ∃ rv, v' = .asg rv ∧ cm = [some rv])

theorem PipeOk.own {e : Ev} {v v' : V} {cs cm : List (Option Nat)} {P : List Ev} {ws : Worker.State} {n : Nat}
    (h : PipeOk v cs (e :: P) ws n) (f : Own e v cm v') : PipeOk v' (cs ++ cm) P ws n := by
  obtain ⟨f1, f2⟩ := f
  cases v with
  | hot => rw [f1 rfl]; trivial
  | quiet => obtain ⟨_, h2, _⟩ := h; cases h2
  | asg rv =>
    rcases h with ⟨_, h2, _⟩ | ⟨hc, hd⟩
    · cases h2
    · subst hc
      rcases hd with ⟨rv', rest, hp⟩ | ⟨rest, hp⟩ | ⟨hp, hf⟩
      · cases hp; have f2 : v' = .hot := f2; rw [f2]; trivial
      · cases hp; have f2 : v' = .hot := f2; rw [f2]; trivial
      · cases hp
        obtain ⟨g1, _⟩ := f2
        obtain ⟨k1, k2⟩ := g1 rv rfl rfl
        subst k2
        rcases k1 with e | e <;> rw [e]
        · trivial
        · exact ⟨rfl, rfl, hf⟩
  | pre =>
    rcases h with ⟨_, h2, _⟩ | ⟨hc, hd⟩
    · cases h2
    · subst hc
      rcases hd with ⟨hp, _⟩ | ⟨rv', rest, hp⟩ | ⟨rest, hp⟩ | ⟨orv, hp, hf⟩ | ⟨hp, hf⟩
      · cases hp
      · cases hp; have f2 : v' = .hot := f2; rw [f2]; trivial
      · cases hp; have f2 : v' = .hot := f2; rw [f2]; trivial
      · cases hp
        obtain ⟨_, g2⟩ := f2
        rcases g2 rfl with e | ⟨e, e2⟩ | ⟨rv, e, e2⟩
        · rw [e]; trivial
        · rw [e, e2]; exact ⟨rfl, rfl, hf⟩
        · rw [e, e2]; exact .inl ⟨rfl, rfl, hf⟩
      · cases hp
        have f2 : V.pre = V.pre → _ := f2
        rcases f2 rfl with e | ⟨e, e2⟩ | ⟨e, e2⟩ | ⟨rv, e, e2⟩
        · rw [e]; trivial
        · rw [e, e2]; exact ⟨rfl, rfl, hf⟩
        · rw [e, e2]; exact .inr ⟨rfl, .inl ⟨rfl, .inr hf⟩⟩
        · rw [e, e2]; exact .inl ⟨rfl, rfl, hf⟩

/-- the head event of a legal pipeline decides what the core may be asked: `fin` only in a hot view, a reject of an
Assigned task only with its variant -/
theorem PipeOk.head_fin {v : V} {cs : List (Option Nat)} {P : List Ev} {ws : Worker.State} {n : Nat}
    (h : PipeOk v cs (.fin :: P) ws n) : v = .hot := by
  cases v with
  | hot => rfl
  | quiet => obtain ⟨_, h2, _⟩ := h; cases h2
  | asg rv =>
    rcases h with ⟨_, h2, _⟩ | ⟨_, ⟨_, _, hp⟩ | ⟨_, hp⟩ | ⟨hp, _⟩⟩
    · cases h2
    · cases hp
    · cases hp
    · cases hp
  | pre =>
    rcases h with ⟨_, h2, _⟩ | ⟨_, ⟨hp, _⟩ | ⟨_, _, hp⟩ | ⟨_, hp⟩ | ⟨_, hp, _⟩ | ⟨hp, _⟩⟩
    · cases h2
    · cases hp
    · cases hp
    · cases hp
    · cases hp
    · cases hp

theorem PipeOk.head_rej {v : V} {cs : List (Option Nat)} {P : List Ev} {ws : Worker.State} {n : Nat} {orv : Option Nat}
    (h : PipeOk v cs (.rej orv :: P) ws n) : v ≠ .quiet ∧ ∀ rv, v = .asg rv → orv = some rv := by
  cases v with
  | hot => exact ⟨by simp, fun _ e => by cases e⟩
  | quiet => obtain ⟨_, h2, _⟩ := h; cases h2
  | asg rv =>
    refine ⟨by simp, fun rv' e => ?_⟩
    cases e
    rcases h with ⟨_, h2, _⟩ | ⟨_, ⟨_, _, hp⟩ | ⟨_, hp⟩ | ⟨hp, _⟩⟩
    · cases h2
    · cases hp
    · cases hp
    · cases hp; rfl
  | pre => exact ⟨by simp, fun _ e => by cases e⟩

theorem PipeOk.head_ne_quiet {v : V} {cs : List (Option Nat)} {e : Ev} {P : List Ev} {ws : Worker.State} {n : Nat}
    (h : PipeOk v cs (e :: P) ws n) : v ≠ .quiet := by
  rintro rfl
  obtain ⟨_, h2, _⟩ := h; cases h2

end HqModel.SysW
