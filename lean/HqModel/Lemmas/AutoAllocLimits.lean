import HqModel.AutoAlloc.Spec
/-!
Helper lemmas for C17 (`c17_limits`): the per-queue invariant `QInv` is preserved by every operation on a queue.
-/
namespace HqModel.AutoAlloc

/-! ### list facts -/

theorem filter_map_length_le (l : List Alloc) (f : Alloc → Alloc) (p : Alloc → Bool)
    (h : ∀ y, p (f y) = true → p y = true) :
    ((l.map f).filter p).length ≤ (l.filter p).length := by
  induction l with
  | nil => simp
  | cons y ys ih =>
    simp only [List.map_cons, List.filter_cons]
    by_cases h1 : p (f y) = true
    · have h2 := h y h1
      simp [h1, h2]; omega
    · simp only [h1]
      by_cases h2 : p y = true
      · simp [h2]; omega
      · simp [h2]; omega

theorem filter_map_sum_le (l : List Alloc) (f : Alloc → Alloc) (p : Alloc → Bool)
    (h : ∀ y, p (f y) = true → p y = true) (ht : ∀ y, (f y).target = y.target) :
    (((l.map f).filter p).map (·.target)).sum ≤ ((l.filter p).map (·.target)).sum := by
  induction l with
  | nil => simp
  | cons y ys ih =>
    simp only [List.map_cons, List.filter_cons]
    by_cases h1 : p (f y) = true
    · have h2 := h y h1
      simp [h1, h2, ht]; omega
    · simp only [h1]
      by_cases h2 : p y = true
      · simp [h2]; omega
      · simp [h2]; omega

/-! ### state transitions never re-activate an allocation -/

theorem syncState_queued (t : Nat) (st : AState) (r : SyncReason) :
    (syncState t st r).st.isQueued = true → st.isQueued = true := by
  unfold syncState
  split <;> (try simp only [apply_ite SyncOut.st]) <;> (try split) <;> simp_all [AState.isQueued]

theorem syncState_active (t : Nat) (st : AState) (r : SyncReason) :
    (syncState t st r).st.isActive = true → st.isActive = true := by
  unfold syncState
  split <;> (try simp only [apply_ite SyncOut.st]) <;> (try split) <;> simp_all [AState.isActive]

theorem errState_queued (c : Consts) (st : AState) :
    (errState c st).1.isQueued = true → st.isQueued = true := by
  unfold errState
  split <;> (try simp only [apply_ite Prod.fst]) <;> (try split) <;> simp_all [AState.isQueued]

theorem errState_active (c : Consts) (st : AState) :
    (errState c st).1.isActive = true → st.isActive = true := by
  unfold errState
  split <;> (try simp only [apply_ite Prod.fst]) <;> (try split) <;> simp_all [AState.isActive]
/-- Updating the states of the allocations by a function that never re-activates keeps `QInv`
(whatever happens to `active` and the limiter). -/
theorem QInv_mapState (q : Queue) (g : Alloc → AState) (act : Bool) (lim : Limiter) (sel : Alloc → Bool)
    (hq : ∀ y, (g y).isQueued = true → y.st.isQueued = true)
    (ha : ∀ y, (g y).isActive = true → y.st.isActive = true)
    (h : QInv q) :
    QInv { q with allocs := q.allocs.map (fun y => if sel y then { y with st := g y } else y),
                  active := act, lim := lim } := by
  obtain ⟨h1, h2, h3⟩ := h
  refine ⟨?_, ?_, ?_⟩
  · refine Nat.le_trans ?_ h1
    apply filter_map_length_le
    intro y hy
    by_cases hs : sel y = true
    · simp only [hs, if_true] at hy; exact hq y hy
    · simp only [hs] at hy; exact hy
  · intro m hm
    refine Nat.le_trans ?_ (h2 m hm)
    apply filter_map_sum_le
    · intro y hy
      by_cases hs : sel y = true
      · simp only [hs, if_true] at hy; exact ha y hy
      · simp only [hs] at hy; exact hy
    · intro y; by_cases hs : sel y = true <;> simp [hs]
  · intro a ha'
    simp only [List.mem_map] at ha'
    obtain ⟨y, hy, rfl⟩ := ha'
    have := h3 y hy
    by_cases hs : sel y = true <;> simp [hs] <;> exact this

theorem Queue.sync_QInv (q : Queue) (a : Nat) (r : SyncReason) (h : QInv q) : QInv (q.sync a r).1 := by
  unfold Queue.sync
  split
  · exact h
  · have := QInv_mapState q (fun y => (syncState y.target y.st r).st) q.active
      (Queue.limAfter q.lim (syncState ‹Alloc›.target ‹Alloc›.st r).fin) (fun y => decide (y.id = a))
      (fun y => syncState_queued _ _ _) (fun y => syncState_active _ _ _) h
    simpa using this

theorem Queue.bumpErr_QInv (c : Consts) (q : Queue) (a : Nat) (h : QInv q) : QInv (q.bumpErr c a).1 := by
  unfold Queue.bumpErr
  split
  · exact h
  · have := QInv_mapState q (fun y => (errState c y.st).1) q.active q.lim (fun y => decide (y.id = a))
      (fun y => errState_queued _ _) (fun y => errState_active _ _) h
    simpa using this

theorem Queue.applyStatus_QInv (c : Consts) (q : Queue) (a : Nat) (st : St) (h : QInv q) :
    QInv (q.applyStatus c a st).1 := by
  cases st <;> simp only [Queue.applyStatus] <;> first | exact Queue.sync_QInv _ _ _ h | exact Queue.bumpErr_QInv _ _ _ h

theorem Queue.refreshStatuses_QInv (c : Consts) (l : List (Nat × St)) (acc : Queue × List Out) (h : QInv acc.1) :
    QInv (Queue.refreshStatuses c l acc).1 := by
  induction l generalizing acc with
  | nil => simpa [Queue.refreshStatuses] using h
  | cons x xs ih =>
    obtain ⟨a, st⟩ := x
    obtain ⟨q, outs⟩ := acc
    simp only [Queue.refreshStatuses]
    exact ih _ (Queue.applyStatus_QInv c q a st h)

theorem Queue.refreshErr_QInv (c : Consts) (l : List Nat) (acc : Queue × List Out) (h : QInv acc.1) :
    QInv (Queue.refreshErr c l acc).1 := by
  induction l generalizing acc with
  | nil => simpa [Queue.refreshErr] using h
  | cons x xs ih =>
    obtain ⟨q, outs⟩ := acc
    simp only [Queue.refreshErr]
    exact ih _ (Queue.bumpErr_QInv c q x h)

theorem Queue.refresh_QInv (c : Consts) (q : Queue) (rep : Report) (h : QInv q) : QInv (q.refresh c rep).1 := by
  cases rep with
  | callErr ids => exact Queue.refreshErr_QInv c ids (q, []) h
  | statuses l => exact Queue.refreshStatuses_QInv c l (q, []) h

theorem Queue.tryPause_QInv (q : Queue) (h : QInv q) : QInv q.tryPause := by
  unfold Queue.tryPause
  split
  · exact h
  · exact h

/-! ### the submission permit -/

theorem grant_spec (wpa : Nat) (ts : List Nat) (rem : Option Nat) (l : List Nat)
    (h : grant wpa ts rem = .ok l) :
    (∀ n ∈ l, 1 ≤ n ∧ n ≤ wpa) ∧ l.length ≤ ts.length ∧ (∀ r, rem = some r → l.sum ≤ r) := by
  induction ts generalizing rem l with
  | nil =>
    simp only [grant, Except.ok.injEq] at h
    subst h; simp
  | cons t rest ih =>
    cases rem with
    | none =>
      simp only [grant, Option.map_none] at h
      split at h
      · cases h
      · split at h
        · simp only [Except.ok.injEq] at h; subst h; simp
        · split at h
          · cases h
          · rename_i l' hl'
            simp only [Except.ok.injEq] at h
            subst h
            obtain ⟨h1, h2, _⟩ := ih _ _ hl'
            refine ⟨?_, ?_, ?_⟩
            · intro n hn
              simp only [List.mem_cons] at hn
              rcases hn with rfl | hn
              · omega
              · exact h1 n hn
            · simp only [List.length_cons]; omega
            · intro r hr; cases hr
    | some r0 =>
      simp only [grant, Option.map_some] at h
      split at h
      · cases h
      · split at h
        · simp only [Except.ok.injEq] at h; subst h; simp
        · split at h
          · cases h
          · rename_i l' hl'
            simp only [Except.ok.injEq] at h
            subst h
            obtain ⟨h1, h2, h3⟩ := ih _ _ hl'
            have hm : min t r0 ≤ r0 := Nat.min_le_right _ _
            have hm2 : min t r0 ≤ t := Nat.min_le_left _ _
            refine ⟨?_, ?_, ?_⟩
            · intro n hn
              simp only [List.mem_cons] at hn
              rcases hn with rfl | hn
              · omega
              · exact h1 n hn
            · simp only [List.length_cons]; omega
            · intro r hr
              simp only [Option.some.injEq] at hr
              subst hr
              have := h3 (r0 - min t r0) rfl
              simp only [List.sum_cons]
              omega
theorem Queue.permit_spec (q : Queue) (r : QResp) (l : List Nat) (h : q.permit r = .ok l) :
    (∀ n ∈ l, 1 ≤ n ∧ n ≤ q.params.wpa) ∧ l.length ≤ q.params.backlog - q.queuedCount ∧
    (∀ m, q.params.mwc = some m → l.sum ≤ m - q.activeWorkers) := by
  unfold Queue.permit at h
  simp only at h
  split at h
  · simp only [Except.ok.injEq] at h; subst h; simp
  · split at h
    · cases h
    · obtain ⟨h1, h2, h3⟩ := grant_spec _ _ _ _ h
      refine ⟨h1, ?_, ?_⟩
      · refine Nat.le_trans h2 ?_
        simp only [List.length_take]
        exact Nat.min_le_left _ _
      · intro m hm
        exact h3 _ (by simp [hm])

/-! ### the submit loop -/

theorem queuedCount_append_queued (q : Queue) (a n : Nat) (act : Bool) (lim : Limiter) :
    ({ q with allocs := q.allocs ++ [⟨a, n, .queued 0⟩], active := act, lim := lim } : Queue).queuedCount
      = q.queuedCount + 1 := by
  simp [Queue.queuedCount, List.filter_append, AState.isQueued]

theorem activeWorkers_append_queued (q : Queue) (a n : Nat) (act : Bool) (lim : Limiter) :
    ({ q with allocs := q.allocs ++ [⟨a, n, .queued 0⟩], active := act, lim := lim } : Queue).activeWorkers
      = q.activeWorkers + n := by
  simp [Queue.activeWorkers, List.filter_append, AState.isActive]

/-- `QInv` only reads the allocations and the parameters. -/
theorem QInv_congr (q q' : Queue) (h1 : q'.allocs = q.allocs) (h2 : q'.params = q.params) (h : QInv q) : QInv q' := by
  unfold QInv Queue.queuedCount Queue.activeWorkers at *
  rw [h1, h2]; exact h

theorem Queue.submitLoop_spec (p : List Nat) (acc : SubAcc)
    (hr : ∀ n ∈ p, 1 ≤ n ∧ n ≤ acc.q.params.wpa)
    (hb : acc.q.queuedCount + p.length ≤ acc.q.params.backlog)
    (hm : ∀ m, acc.q.params.mwc = some m → acc.q.activeWorkers + p.sum ≤ m)
    (h : QInv acc.q) :
    QInv (Queue.submitLoop p acc).q ∧ (Queue.submitLoop p acc).q.params = acc.q.params ∧
    (Queue.submitLoop p acc).q.id = acc.q.id := by
  induction p generalizing acc with
  | nil => simpa [Queue.submitLoop] using h
  | cons n rest ih =>
    simp only [Queue.submitLoop]
    split
    · exact ⟨QInv_congr _ _ rfl rfl h, rfl, rfl⟩
    · rename_i a rs hres
      split
      · exact ⟨h, rfl, rfl⟩
      · have hn := hr n (by simp)
        simp only [List.length_cons, List.sum_cons] at hb hm
        have key := ih
          { q := { acc.q with allocs := acc.q.allocs ++ [⟨a, n, .queued 0⟩], lim := acc.q.lim.onSubmissionSuccess }
            outs := acc.outs ++ [Out.submit acc.q.id n] ++ [Out.evQueued acc.q.id a n], results := rs,
            newIds := acc.newIds ++ [a], panic := none }
          (by intro k hk; exact hr k (by simp [hk]))
          (by
            have := queuedCount_append_queued acc.q a n acc.q.active acc.q.lim.onSubmissionSuccess
            simp only at this ⊢
            rw [this]; omega)
          (by
            intro m hmm
            have := activeWorkers_append_queued acc.q a n acc.q.active acc.q.lim.onSubmissionSuccess
            simp only at this ⊢
            rw [this]
            have := hm m hmm
            omega)
          (by
            obtain ⟨h1, h2, h3⟩ := h
            refine ⟨?_, ?_, ?_⟩
            · have := queuedCount_append_queued acc.q a n acc.q.active acc.q.lim.onSubmissionSuccess
              simp only at this ⊢
              rw [this]; omega
            · intro m hmm
              have := activeWorkers_append_queued acc.q a n acc.q.active acc.q.lim.onSubmissionSuccess
              simp only at this ⊢
              rw [this]
              have := hm m hmm
              omega
            · intro x hx
              simp only [List.mem_append, List.mem_singleton] at hx
              rcases hx with hx | rfl
              · exact h3 x hx
              · exact hn)
        simpa using key
    · exact ⟨QInv_congr _ _ rfl rfl h, rfl, rfl⟩

theorem Queue.trySubmit_spec (q : Queue) (r : QResp) (now : Nat) (results : List SubRes) (h : QInv q) :
    QInv (q.trySubmit r now results).q ∧ (q.trySubmit r now results).q.params = q.params ∧
    (q.trySubmit r now results).q.id = q.id := by
  unfold Queue.trySubmit
  simp only
  split
  · exact ⟨h, rfl, rfl⟩
  · split
    · exact ⟨h, rfl, rfl⟩
    · split
      · exact ⟨h, rfl, rfl⟩
      · exact ⟨h, rfl, rfl⟩
      · rename_i n rest hp
        split
        · obtain ⟨p1, p2, p3⟩ := Queue.permit_spec q r _ hp
          obtain ⟨h1, h2, h3⟩ := h
          have := Queue.submitLoop_spec (n :: rest) ⟨{ q with lim := q.lim.onAttempt now }, [], results, [], none⟩
            (by simpa using p1)
            (by
              show q.queuedCount + (n :: rest).length ≤ q.params.backlog
              omega)
            (by
              intro m hm
              show q.activeWorkers + (n :: rest).sum ≤ m
              have := p3 m hm
              have := h2 m hm
              omega)
            (QInv_congr _ _ rfl rfl ⟨h1, h2, h3⟩)
          simpa using this
        · exact ⟨h, rfl, rfl⟩

/-! ### the whole state -/

theorem State.getQueue_mem (s : State) (id : Nat) (q : Queue) (h : s.getQueue id = some q) : q ∈ s.queues :=
  List.mem_of_find?_eq_some h

theorem State.getQueue_id (s : State) (id : Nat) (q : Queue) (h : s.getQueue id = some q) : q.id = id := by
  have := List.find?_some h
  simpa using this

theorem State.setQueue_Inv (s : State) (q : Queue) (h : Inv s) (hq : QInv q) : Inv (s.setQueue q) := by
  intro x hx
  simp only [State.setQueue, List.mem_map] at hx
  obtain ⟨y, hy, rfl⟩ := hx
  split
  · exact hq
  · exact h y hy

theorem State.addA2q_queues (s : State) (ids : List Nat) (q : Nat) : (s.addA2q ids q).queues = s.queues := rfl

theorem State.pauseAll_Inv (s : State) (h : Inv s) : Inv s.pauseAll := by
  intro x hx
  simp only [State.pauseAll, List.mem_map] at hx
  obtain ⟨y, hy, rfl⟩ := hx
  exact Queue.tryPause_QInv y (h y hy)

theorem submitAll_Inv (now : Nat) (l : List (QResp × Nat)) (acc : TickAcc) (h : Inv acc.st) :
    Inv (submitAll now l acc).st := by
  induction l generalizing acc with
  | nil => simpa [submitAll] using h
  | cons x xs ih =>
    obtain ⟨r, qid⟩ := x
    simp only [submitAll]
    split
    · exact ih acc h
    · rename_i q hq
      have hQ := (Queue.trySubmit_spec q r now acc.results (h q (State.getQueue_mem _ _ _ hq))).1
      have hI : Inv ((acc.st.setQueue (q.trySubmit r now acc.results).q).addA2q (q.trySubmit r now acc.results).newIds qid) := by
        intro y hy
        rw [State.addA2q_queues] at hy
        exact State.setQueue_Inv _ _ h hQ y hy
      split
      · exact hI
      · exact ih _ hI

theorem State.tick_Inv (s : State) (now : Nat) (order : List Nat) (query : Query) (results : List SubRes)
    (h : Inv s) : Inv (s.tick now order query results).st := by
  unfold State.tick
  simp only
  split
  · exact h
  · split
    · exact State.pauseAll_Inv s h
    · split
      · exact State.pauseAll_Inv s h
      · split
        · exact State.pauseAll_Inv s h
        · exact State.pauseAll_Inv s h
        · split
          · exact State.pauseAll_Inv s h
          · have := submitAll_Inv now (‹List QResp›.zip (s.pauseAll.activeIn order))
              ⟨s.pauseAll, [Out.query (s.pauseAll.activeIn order).length], results, none⟩ (State.pauseAll_Inv s h)
            split
            · exact this
            · exact State.pauseAll_Inv _ this

theorem State.refreshAll_Inv (l : List (Nat × Report)) (acc : State × List Out) (h : Inv acc.1) :
    Inv (State.refreshAll l acc).1 := by
  induction l generalizing acc with
  | nil => simpa [State.refreshAll] using h
  | cons x xs ih =>
    obtain ⟨qid, rep⟩ := x
    obtain ⟨s, outs⟩ := acc
    simp only [State.refreshAll]
    split
    · exact ih _ h
    · rename_i q hq
      exact ih _ (State.setQueue_Inv _ _ h (Queue.refresh_QInv _ _ _ (h q (State.getQueue_mem _ _ _ hq))))

theorem step_Inv (s : State) (e : Ev) (h : Inv s) : Inv (step s e).st := by
  cases e with
  | workerConnected w a =>
    simp only [step, State.workerEvent]
    split
    · exact h
    · split
      · exact h
      · rename_i q hq
        exact State.setQueue_Inv _ _ h (Queue.sync_QInv _ _ _ (h q (State.getQueue_mem _ _ _ hq)))
  | workerLost w a crashed =>
    simp only [step, State.workerEvent]
    split
    · exact h
    · split
      · exact h
      · rename_i q hq
        exact State.setQueue_Inv _ _ h (Queue.sync_QInv _ _ _ (h q (State.getQueue_mem _ _ _ hq)))
  | jobSubmitted => exact h
  | addQueue p lim qid =>
    simp only [step, State.addQueue]
    split
    · exact h
    · intro x hx
      simp only [List.mem_append, List.mem_singleton] at hx
      rcases hx with hx | rfl
      · exact h x hx
      · refine ⟨?_, ?_, ?_⟩ <;> simp [Queue.queuedCount, Queue.activeWorkers]
  | removeQueue q force =>
    simp only [step, State.removeQueue]
    split
    · exact h
    · split
      · exact h
      · split
        · intro x hx
          simp only [List.mem_filter] at hx
          exact h x hx.1
        · intro x hx
          simp only [List.mem_filter] at hx
          exact h x hx.1
  | pause q =>
    simp only [step, State.pause]
    split
    · exact h
    · rename_i qu hq
      exact State.setQueue_Inv _ _ h (QInv_congr _ _ rfl rfl (h qu (State.getQueue_mem _ _ _ hq)))
  | resume q =>
    simp only [step, State.resume]
    split
    · exact h
    · rename_i qu hq
      exact State.setQueue_Inv _ _ h (QInv_congr _ _ rfl rfl (h qu (State.getQueue_mem _ _ _ hq)))
  | tick now order query results => exact State.tick_Inv s now order query results h
  | refresh reports =>
    simp only [step, State.refresh]
    split
    · exact h
    · exact State.refreshAll_Inv reports (s, []) h

end HqModel.AutoAlloc
