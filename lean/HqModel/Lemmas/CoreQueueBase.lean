import HqModel.Lemmas.CoreMsgRun
import HqModel.Lemmas.CoreInvFull
/-!
The queue / dependency half of the sanity checks as an inductive invariant, part 1: vocabulary and primitive moves.

`QInv U f pend s` (only the task map and the queues of `s` are read):
* `U` — all task ids submitted so far (ghost); every id in the map, in a consumer list or in a queue is in `U`;
* `f` — the task that is being finished (`none` at operation boundaries): the only task that may be in state
  Finished, and the only lister that does not count;
* `cnt` — **the dependency count**: for every task `c` of the map, the number of tasks (other than `f`) that list
  `c` as a consumer is at most `slack c.state` (`n` for `Waiting n`, 0 for every other state); `pend` = consumers of
  `f` whose counter has not been decremented yet (they owe one);
* `qg` — every id in ready/prefill queue `i` is in `U`, is (if known) a task of request `i` whose state has no
  slack (`Waiting 0` or not Waiting), and no task other than `f` lists it as a consumer.
(Not claimed, because false of the model: that a queued id IS a task of the map — see `CoreQueueWitness.lean`.)

`Safe s s'` = every instance of `QInv` that holds in `s` holds in `s'` (a preorder, so it chains through the
intermediate states of an operation).
-/
namespace HqModel.Core

/-! ### listers -/

/-- `dt` is not the finishing task and lists `c` as a consumer -/
def lst (f : Option TaskId) (c : TaskId) (dt : Task) : Bool := decide (c ∈ dt.consumers) && decide (some dt.id ≠ f)

/-- number of tasks (other than `f`) that list `c` as a consumer -/
def nL (f : Option TaskId) (ts : List Task) (c : TaskId) : Nat := ts.countP (lst f c)

/-- the number of unfinished dependencies recorded in a state -/
def slack : TS → Nat
  | .waiting n => n
  | _ => 0

@[simp] theorem slack_waiting (n : Nat) : slack (.waiting n) = n := rfl
@[simp] theorem slack_assigned (w v : Nat) : slack (.assigned w v) = 0 := rfl
@[simp] theorem slack_prefilled (w : Nat) : slack (.prefilled w) = 0 := rfl
@[simp] theorem slack_retracting (w : Nat) : slack (.retracting w) = 0 := rfl
@[simp] theorem slack_running (w v : Nat) : slack (.running w v) = 0 := rfl
@[simp] theorem slack_runningMN (l : List Nat) : slack (.runningMN l) = 0 := rfl
@[simp] theorem slack_finished : slack .finished = 0 := rfl

theorem slack_of_not_waiting {st : TS} (h : ¬ isWaiting st) : slack st = 0 := by
  cases st <;> simp_all [isWaiting]

def owed (pend : List TaskId) (c : TaskId) : Nat := if c ∈ pend then 1 else 0

@[simp] theorem owed_nil (c : TaskId) : owed [] c = 0 := rfl

theorem lst_true {f : Option TaskId} {c : TaskId} {dt : Task} :
    lst f c dt = true ↔ c ∈ dt.consumers ∧ some dt.id ≠ f := by
  simp [lst]

theorem nL_zero {f : Option TaskId} {ts : List Task} {c : TaskId} :
    nL f ts c = 0 ↔ ∀ dt ∈ ts, c ∈ dt.consumers → some dt.id = f := by
  unfold nL
  rw [List.countP_eq_zero]
  constructor
  · intro h dt hdt hc
    have := h dt hdt
    rw [lst_true] at this
    exact Classical.byContradiction fun hne => this ⟨hc, hne⟩
  · intro h dt hdt hl
    rw [lst_true] at hl
    exact hl.2 (h dt hdt hl.1)

theorem putTask_of_not_mem {ts : List Task} {t : Task} (h : t.id ∉ taskIds ts) : putTask ts t = ts := by
  induction ts with
  | nil => rfl
  | cons y ys ih =>
    simp only [taskIds, List.map_cons, List.mem_cons, not_or] at h
    simp only [putTask]
    have : ¬ y.id = t.id := fun e => h.1 e.symm
    simp only [this, if_false]
    rw [ih h.2]

/-- exact effect of replacing one record on the number of listers -/
theorem nL_putTask {f : Option TaskId} {ts : List Task} {t' told : Task} (hn : (taskIds ts).Nodup)
    (hf : findTask ts t'.id = some told) (c : TaskId) :
    nL f (putTask ts t') c + (if lst f c told then 1 else 0) = nL f ts c + (if lst f c t' then 1 else 0) := by
  induction ts with
  | nil => cases hf
  | cons y ys ih =>
    simp only [taskIds, List.map_cons, List.nodup_cons] at hn
    simp only [findTask] at hf
    simp only [putTask]
    split at hf
    · rename_i hy
      cases hf
      simp only [hy, if_true]
      rw [putTask_of_not_mem (by rw [← hy]; exact hn.1)]
      simp only [nL, List.countP_cons]
      omega
    · rename_i hy
      simp only [hy, if_false]
      have := ih hn.2 hf
      simp only [nL, List.countP_cons] at this ⊢
      omega

theorem eraseTask_sublist (ts : List Task) (id : TaskId) : (eraseTask ts id).Sublist ts := by
  induction ts with
  | nil => exact List.Sublist.refl _
  | cons y ys ih =>
    simp only [eraseTask]
    split
    · exact List.sublist_cons_self _ _
    · exact List.Sublist.cons_cons _ ih

theorem nL_eraseTask_le (f : Option TaskId) (ts : List Task) (id c : TaskId) :
    nL f (eraseTask ts id) c ≤ nL f ts c :=
  List.Sublist.countP_le (eraseTask_sublist ts id)

/-! ### queues -/

/-- a property of all (queue index, id) pairs of the queues -/
def qsAll (qs : List Queue) (P : Nat → TaskId → Prop) : Prop :=
  ∀ (i : Nat) (q : Queue), qs[i]? = some q → ∀ id ∈ qIds q, P i id

/-- the ids of every queue of `qs'` come from the same queue of `qs`, or are `t` in queue `rq` -/
def QSubAdd (qs qs' : List Queue) (rq : Nat) (t : TaskId) : Prop :=
  ∀ (i : Nat) (q' : Queue), qs'[i]? = some q' → ∀ id ∈ qIds q', (∃ q, qs[i]? = some q ∧ id ∈ qIds q) ∨ (i = rq ∧ id = t)

def QSub (qs qs' : List Queue) : Prop :=
  ∀ (i : Nat) (q' : Queue), qs'[i]? = some q' → ∀ id ∈ qIds q', ∃ q, qs[i]? = some q ∧ id ∈ qIds q

theorem QSub.refl (qs : List Queue) : QSub qs qs := fun _ q hq _ hid => ⟨q, hq, hid⟩

theorem QSub.all {qs qs' : List Queue} (h : QSub qs qs') {P : Nat → TaskId → Prop} (ha : qsAll qs P) : qsAll qs' P := by
  intro i q' hq' id hid
  obtain ⟨q, hq, hid'⟩ := h i q' hq' id hid
  exact ha i q hq id hid'

theorem QSubAdd.all {qs qs' : List Queue} {rq : Nat} {t : TaskId} (h : QSubAdd qs qs' rq t)
    {P : Nat → TaskId → Prop} (ha : qsAll qs P) (ht : P rq t) : qsAll qs' P := by
  intro i q' hq' id hid
  rcases h i q' hq' id hid with ⟨q, hq, hid'⟩ | ⟨rfl, rfl⟩
  · exact ha i q hq id hid'
  · exact ht

theorem getElem?_modifyQueue (qs : List Queue) (i : Nat) (g : Queue → Queue) (j : Nat) :
    (modifyQueue qs i g)[j]? = if j = i then (qs[i]?).map g else qs[j]? := by
  unfold modifyQueue
  cases hq : qs[i]? with
  | none =>
    simp only [Option.map_none]
    split
    · rename_i e; rw [e, hq]
    · rfl
  | some q =>
    simp only [Option.map_some, List.getElem?_set]
    by_cases e : i = j
    · subst e
      simp only [if_true]
      have : i < qs.length := by
        rcases Nat.lt_or_ge i qs.length with h | h
        · exact h
        · rw [List.getElem?_eq_none h] at hq; cases hq
      simp [this]
    · have : ¬ j = i := fun e' => e e'.symm
      simp [e, this]

theorem readyRemove_sub (ready : List (Int × List TaskId)) (t : TaskId) (p : Int) (x : TaskId)
    (h : x ∈ rIds (readyRemove ready t p)) : x ∈ rIds ready := by
  induction ready with
  | nil => simpa [readyRemove] using h
  | cons e rest ih =>
    obtain ⟨q, ids⟩ := e
    simp only [readyRemove] at h
    rw [rIds_cons, List.mem_append]
    split at h
    · split at h
      · exact Or.inr h
      · rw [rIds_cons, List.mem_append] at h
        rcases h with h | h
        · exact Or.inl (List.mem_of_mem_erase h)
        · exact Or.inr h
    · rw [rIds_cons, List.mem_append] at h
      rcases h with h | h
      · exact Or.inl h
      · exact Or.inr (ih h)

theorem Queue.remove_sub (q : Queue) (t : TaskId) (p : Int) (x : TaskId) (h : x ∈ qIds (q.remove t p)) :
    x ∈ qIds q := by
  unfold Queue.remove at h
  rw [qIds_eq] at h ⊢
  split at h
  · rename_i pp ts hpre
    split at h
    · simp only [hpre, List.mem_append] at h ⊢
      rcases h with h | h
      · exact Or.inl h
      · exact Or.inr (List.mem_of_mem_erase h)
    · simp only [hpre, List.mem_append] at h ⊢
      rcases h with h | h
      · exact Or.inl (readyRemove_sub _ _ _ _ h)
      · exact Or.inr h
  · rename_i hpre
    simp only [hpre, List.mem_append] at h ⊢
    rcases h with h | h
    · exact Or.inl (readyRemove_sub _ _ _ _ h)
    · exact Or.inr h

theorem readyAddMany_sub (ts : List TaskId) (ready : List (Int × List TaskId)) (p : Int) (x : TaskId)
    (h : x ∈ rIds (readyAddMany ready ts p)) : x ∈ ts ∨ x ∈ rIds ready := by
  unfold readyAddMany at h
  induction ts generalizing ready with
  | nil => exact Or.inr h
  | cons t rest ih =>
    simp only [List.foldl_cons] at h
    rcases ih _ h with h1 | h1
    · exact Or.inl (List.mem_cons_of_mem _ h1)
    · rcases readyAdd_sub _ _ _ _ h1 with h2 | h2
      · exact Or.inl (h2 ▸ List.mem_cons_self)
      · exact Or.inr h2

theorem checkDispose_sub (q : Queue) (p : Int) (x : TaskId) (h : x ∈ qIds (q.checkDispose p).1) : x ∈ qIds q := by
  unfold Queue.checkDispose at h
  split at h
  · rename_i pp ts hpre
    split at h
    · rw [qIds_eq] at h ⊢
      simp only [hpre, List.mem_append, List.not_mem_nil, or_false] at h ⊢
      rcases readyAddMany_sub _ _ _ _ h with h1 | h1
      · exact Or.inr h1
      · exact Or.inl h1
    · exact h
  · exact h

theorem getElem?_disposeAll (qs : List Queue) (p : Int) (j : Nat) :
    (disposeAll qs p).1[j]? = (qs[j]?).map fun q => (q.checkDispose p).1 := by
  induction qs generalizing j with
  | nil => simp [disposeAll]
  | cons q rest ih =>
    simp only [disposeAll]
    cases j with
    | zero => simp
    | succ k => simpa using ih k

theorem addReady_qsub {s s' : State} {t : Task} {r : List TaskId} (h : s.addReady t = .ok (s', r)) :
    QSubAdd s.queues s'.queues t.rq t.id := by
  simp only [State.addReady] at h
  split at h
  · cases h
  · cases h
    intro i q' hq' id hid
    simp only [getElem?_modifyQueue, getElem?_disposeAll] at hq'
    split at hq'
    · rename_i e
      cases hq : s.queues[t.rq]? with
      | none => rw [hq] at hq'; cases hq'
      | some q =>
        rw [hq] at hq'
        simp only [Option.map_some, Option.some.injEq] at hq'
        subst hq'
        rw [qIds_eq] at hid
        simp only [List.mem_append] at hid
        rcases hid with h1 | h1
        · rcases readyAdd_sub _ _ _ _ h1 with h2 | h2
          · exact Or.inr ⟨e, h2⟩
          · exact Or.inl ⟨q, by rw [e]; exact hq, checkDispose_sub q _ _ (by rw [qIds_eq]; exact List.mem_append_left _ h2)⟩
        · exact Or.inl ⟨q, by rw [e]; exact hq, checkDispose_sub q _ _ (by rw [qIds_eq]; exact List.mem_append_right _ h1)⟩
    · cases hq : s.queues[i]? with
      | none => rw [hq] at hq'; cases hq'
      | some q =>
        rw [hq] at hq'
        simp only [Option.map_some, Option.some.injEq] at hq'
        subst hq'
        exact Or.inl ⟨q, rfl, checkDispose_sub q _ _ hid⟩

theorem queueRemove_qsub {s s' : State} {rq : Nat} {t : TaskId} {p : Int} (h : s.queueRemove rq t p = .ok s') :
    QSub s.queues s'.queues := by
  simp only [State.queueRemove] at h
  split at h
  · cases h
  · cases h
    intro i q' hq' id hid
    simp only [getElem?_modifyQueue] at hq'
    split at hq'
    · rename_i e
      subst e
      cases hq : s.queues[i]? with
      | none => rw [hq] at hq'; cases hq'
      | some q =>
        rw [hq] at hq'
        simp only [Option.map_some, Option.some.injEq] at hq'
        subst hq'
        exact ⟨q, rfl, Queue.remove_sub q _ _ _ hid⟩
    · exact ⟨q', hq', hid⟩

theorem removePrefilled_qsub {s s' : State} {rq : Nat} {t : TaskId} (h : s.removePrefilled rq t = .ok s') :
    QSub s.queues s'.queues := by
  simp only [State.removePrefilled] at h
  split at h
  · cases h
  · rename_i q hq
    split at h
    · cases h
    · rename_i pp ts hpre
      split at h
      · cases h
      · cases h
        intro i q' hq' id hid
        simp only [List.getElem?_set] at hq'
        split at hq'
        · rename_i e
          split at hq'
          · cases hq'
            refine ⟨q, by rw [← e]; exact hq, ?_⟩
            rw [qIds_eq] at hid ⊢
            simp only [hpre, List.mem_append] at hid ⊢
            rcases hid with h1 | h1
            · exact Or.inl h1
            · right
              split at h1
              · rename_i hh
                split at hh
                · cases hh
                · cases hh; exact List.mem_of_mem_erase h1
              · cases h1
          · cases hq'
        · exact ⟨q', hq', hid⟩

/-! ### the invariant -/

/-- what the invariant says about one id of queue `i` -/
structure QGood (U : List TaskId) (f : Option TaskId) (ts : List Task) (i : Nat) (id : TaskId) : Prop where
  u : id ∈ U
  rq : ∀ t, findTask ts id = some t → t.rq = i
  nl : ∀ dt ∈ ts, id ∈ dt.consumers → some dt.id = f
  /-- a queued task has no unfinished dependency: it is `Waiting 0` or not Waiting -/
  z : ∀ t, findTask ts id = some t → slack t.state = 0

structure QInv4 (U : List TaskId) (f : Option TaskId) (pend : List TaskId) (ts : List Task) (qs : List Queue) : Prop where
  nd : (taskIds ts).Nodup
  uT : ∀ t ∈ ts, t.id ∈ U
  uC : ∀ t ∈ ts, ∀ c ∈ t.consumers, c ∈ U
  cnd : ∀ t ∈ ts, t.consumers.Nodup
  fin : ∀ t ∈ ts, t.state = .finished → some t.id = f
  cnt : ∀ c t, findTask ts c = some t → nL f ts c + owed pend c ≤ slack t.state
  qg : qsAll qs (QGood U f ts)

/-- **the queue / dependency invariant** -/
def QInv (U : List TaskId) (f : Option TaskId) (pend : List TaskId) (s : State) : Prop :=
  QInv4 U f pend s.tasks s.queues

/-- every instance of the invariant that holds in `s` holds in `s'` -/
def Safe (s s' : State) : Prop := ∀ U f pend, QInv U f pend s → QInv U f pend s'

theorem Safe.refl (s : State) : Safe s s := fun _ _ _ h => h
theorem Safe.trans {a b c : State} (h1 : Safe a b) (h2 : Safe b c) : Safe a c := fun U f p h => h2 U f p (h1 U f p h)

theorem Safe.of_eq {s s' : State} (ht : s'.tasks = s.tasks) (hq : s'.queues = s.queues) : Safe s s' := by
  intro U f p h
  unfold QInv at h ⊢
  rw [ht, hq]; exact h

theorem QInv4.queues {U f pend ts qs qs'} (h : QInv4 U f pend ts qs) (hq : qsAll qs' (QGood U f ts)) :
    QInv4 U f pend ts qs' := ⟨h.nd, h.uT, h.uC, h.cnd, h.fin, h.cnt, hq⟩

theorem Safe.of_qsub {s s' : State} (ht : s'.tasks = s.tasks) (hq : QSub s.queues s'.queues) : Safe s s' := by
  intro U f p h
  unfold QInv at h ⊢
  rw [ht]
  exact h.queues (hq.all h.qg)

/-- a task whose state has no slack is listed by nobody (but the finishing task) -/
theorem QInv4.nl_of_slack {U f pend ts qs} (h : QInv4 U f pend ts qs) {c : TaskId} {t : Task}
    (hf : findTask ts c = some t) (hs : slack t.state = 0) : ∀ dt ∈ ts, c ∈ dt.consumers → some dt.id = f := by
  have := h.cnt c t hf
  rw [hs] at this
  exact nL_zero.mp (by omega)

/-! ### primitive moves -/

/-- admissible replacement of the record `told` by `t'` -/
structure PutOk (told t' : Task) : Prop where
  rq : t'.rq = told.rq
  cons : ∀ c ∈ t'.consumers, c ∈ told.consumers
  cnd : told.consumers.Nodup → t'.consumers.Nodup
  sl : slack t'.state = slack told.state
  fin : t'.state = .finished → told.state = .finished

theorem QInv4.put {U f pend ts qs} (h : QInv4 U f pend ts qs) {t' told : Task} (hf : findTask ts t'.id = some told)
    (hok : PutOk told t') : QInv4 U f pend (putTask ts t') qs := by
  have hid : told.id = t'.id := findTask_some_id hf
  have hmem : told ∈ ts := findTask_some_mem hf
  have hle : ∀ c, nL f (putTask ts t') c ≤ nL f ts c := by
    intro c
    have := nL_putTask (f := f) h.nd hf c
    have himp : lst f c t' = true → lst f c told = true := by
      rw [lst_true, lst_true]
      rintro ⟨a, b⟩
      exact ⟨hok.cons c a, by rw [hid]; exact b⟩
    cases h1 : lst f c t' <;> cases h2 : lst f c told <;> simp [h1, h2] at this himp <;> omega
  have hsub : ∀ x ∈ putTask ts t', ∃ y ∈ ts, x.id = y.id ∧ (∀ c ∈ x.consumers, c ∈ y.consumers) ∧
      (y.consumers.Nodup → x.consumers.Nodup) ∧ (x.state = .finished → y.state = .finished) := by
    intro x hx
    rcases mem_putTask hx with e | e
    · subst e; exact ⟨told, hmem, hid.symm, hok.cons, hok.cnd, hok.fin⟩
    · exact ⟨x, e, rfl, fun _ hc => hc, fun hh => hh, fun hh => hh⟩
  refine ⟨by rw [taskIds_putTask]; exact h.nd, ?_, ?_, ?_, ?_, ?_, ?_⟩
  · intro x hx
    obtain ⟨y, hy, e, _⟩ := hsub x hx
    rw [e]; exact h.uT y hy
  · intro x hx c hc
    obtain ⟨y, hy, _, e, _⟩ := hsub x hx
    exact h.uC y hy c (e c hc)
  · intro x hx
    obtain ⟨y, hy, _, _, e, _⟩ := hsub x hx
    exact e (h.cnd y hy)
  · intro x hx hs
    obtain ⟨y, hy, e, _, _, e2⟩ := hsub x hx
    rw [e]; exact h.fin y hy (e2 hs)
  · intro c t hc
    rw [findTask_putTask] at hc
    split at hc
    · rename_i e
      subst e
      rw [hf] at hc
      simp only [Option.map_some, Option.some.injEq] at hc
      rw [← hc]
      have := h.cnt _ told hf
      have := hle t'.id
      have := hok.sl
      omega
    · have := h.cnt c t hc
      have := hle c
      omega
  · intro i q hq id hid'
    obtain ⟨g1, g2, g3, g4⟩ := h.qg i q hq id hid'
    refine ⟨g1, ?_, ?_, ?_⟩
    · intro t ht
      rw [findTask_putTask] at ht
      split at ht
      · rename_i e
        subst e
        rw [hf] at ht
        simp only [Option.map_some, Option.some.injEq] at ht
        subst ht
        rw [hok.rq]; exact g2 told hf
      · exact g2 t ht
    · intro dt hdt hc
      obtain ⟨y, hy, e, e2, _⟩ := hsub dt hdt
      rw [e]; exact g3 y hy (e2 _ hc)
    · intro t ht
      rw [findTask_putTask] at ht
      split at ht
      · rename_i e
        subst e
        rw [hf] at ht
        simp only [Option.map_some, Option.some.injEq] at ht
        subst ht
        rw [hok.sl]; exact g4 told hf
      · exact g4 t ht

theorem Safe.setTask {s : State} {t' told : Task} (hf : findTask s.tasks t'.id = some told) (hok : PutOk told t') :
    Safe s (s.setTask t') := fun _ _ _ h => QInv4.put h hf hok

theorem QInv4.erase {U f pend ts qs} (h : QInv4 U f pend ts qs) (id : TaskId) :
    QInv4 U f pend (eraseTask ts id) qs := by
  have hfind : ∀ c t, findTask (eraseTask ts id) c = some t → findTask ts c = some t := by
    intro c t hc
    rw [findTask_eraseTask h.nd] at hc
    split at hc
    · cases hc
    · exact hc
  refine ⟨List.Sublist.nodup (taskIds_eraseTask_sublist ts id) h.nd, fun t ht => h.uT t (mem_eraseTask ht),
    fun t ht => h.uC t (mem_eraseTask ht), fun t ht => h.cnd t (mem_eraseTask ht),
    fun t ht => h.fin t (mem_eraseTask ht), ?_, ?_⟩
  · intro c t hc
    have := h.cnt c t (hfind c t hc)
    have := nL_eraseTask_le f ts id c
    omega
  · intro i q hq x hx
    obtain ⟨g1, g2, g3, g4⟩ := h.qg i q hq x hx
    exact ⟨g1, fun t ht => g2 t (hfind x t ht), fun dt hdt hc => g3 dt (mem_eraseTask hdt) hc,
      fun t ht => g4 t (hfind x t ht)⟩

theorem Safe.erase (s : State) (id : TaskId) : Safe s { s with tasks := eraseTask s.tasks id } :=
  fun _ _ _ h => QInv4.erase h id

theorem Safe.addReady {s s' : State} {t t0 : Task} {r : List TaskId} (hf : findTask s.tasks t.id = some t0)
    (hrq : t0.rq = t.rq) (hs : slack t0.state = 0) (h : s.addReady t = .ok (s', r)) : Safe s s' := by
  intro U f p hi
  have ht := addReady_tasks h
  unfold QInv at hi ⊢
  rw [ht]
  refine hi.queues ((addReady_qsub h).all hi.qg ⟨?_, ?_, ?_, ?_⟩)
  · have := hi.uT t0 (findTask_some_mem hf)
    rw [findTask_some_id hf] at this; exact this
  · intro t1 h1; rw [hf] at h1; cases h1; exact hrq
  · exact hi.nl_of_slack hf hs
  · intro t1 h1; rw [hf] at h1; cases h1; exact hs

theorem Safe.queueRemove {s s' : State} {rq : Nat} {t : TaskId} {p : Int} (h : s.queueRemove rq t p = .ok s') :
    Safe s s' := Safe.of_qsub (queueRemove_tasks h) (queueRemove_qsub h)

theorem Safe.removePrefilled {s s' : State} {rq : Nat} {t : TaskId} (h : s.removePrefilled rq t = .ok s') :
    Safe s s' := Safe.of_qsub (removePrefilled_tasks h) (removePrefilled_qsub h)

theorem Safe.movePrefilledToReady {s s' : State} {rq : Nat} {t : TaskId} (h : s.movePrefilledToReady rq t = .ok s') :
    Safe s s' := Safe.of_qsub (movePrefilledToReady_tasks h) (movePrefilledToReady_trk h).qsub

theorem Safe.withWorker {s s' : State} {w : Nat} {g : Worker → M Worker} (h : s.withWorker w g = .ok s') :
    Safe s s' := by
  obtain ⟨wk, wk', _, _, rfl⟩ := withWorker_spec h
  exact Safe.of_eq rfl rfl

theorem Safe.tryRemoveRedirection {s s' : State} {t : TaskId} {rq : Nat} (h : s.tryRemoveRedirection t rq = .ok s') :
    Safe s s' := by
  simp only [State.tryRemoveRedirection] at h
  split at h
  · cases h; exact Safe.refl _
  · split at h
    · cases h
    · exact Safe.trans (b := { s with redirects := s.redirects.filter (·.1 ≠ t) }) (Safe.of_eq rfl rfl) (Safe.withWorker h)

theorem resetMnAll_queues (ws : List Nat) (s s' : State) (h : resetMnAll s ws = .ok s') : s'.queues = s.queues := by
  fun_induction resetMnAll s ws <;> grind [State.setWorker]

theorem resetMnChecked_queues (ws : List Nat) (s s' : State) (id : TaskId)
    (h : resetMnChecked s id ws = .ok s') : s'.queues = s.queues := by
  fun_induction resetMnChecked s id ws <;> grind [State.setWorker]

theorem Safe.resetMnAll {ws : List Nat} {s s' : State} (h : resetMnAll s ws = .ok s') : Safe s s' :=
  Safe.of_eq (resetMnAll_tasks _ _ _ h) (resetMnAll_queues _ _ _ h)

theorem Safe.resetMnChecked {ws : List Nat} {s s' : State} {id : TaskId} (h : resetMnChecked s id ws = .ok s') :
    Safe s s' := Safe.of_eq (resetMnChecked_tasks _ _ _ _ h) (resetMnChecked_queues _ _ _ _ h)

/-- only the state (and the instance id / crash counter) of a record changes, to a state without slack obligations -/
theorem PutOk.mk' {told : Task} {st : TS} {deps : List TaskId} {prio : Int} {cl : CrashLimit} {inst crashes : Nat}
    (hs : slack st = slack told.state) (hf : st = .finished → told.state = .finished) :
    PutOk told ⟨told.id, st, told.consumers, deps, told.rq, prio, cl, inst, crashes⟩ :=
  ⟨rfl, fun _ h => h, fun h => h, hs, hf⟩

end HqModel.Core
