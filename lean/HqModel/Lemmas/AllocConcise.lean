import HqModel.Lemmas.AllocShape
/-!
The concise state of an index pool is a function of what is held (`CInv`): per group, `units` = number of indices of
the group nothing is held of, and the fraction map gives `FPU - held` for every partially held index (0 otherwise,
absent = 0). This characterisation does not depend on the order in which entries are processed, so it is preserved by
`ConciseResourceState::remove` / `add` for the (sorted / swapped) entry order the claims produce.
-/
namespace HqModel.Alloc

/-- number of indices of the list nothing is held of -/
def freeCount (U : List Nat) (L : List AIdx) (g : Nat) : Nat := (U.filter (fun i => heldBy L g i == 0)).length

structure CInv (c : CState) (n : Nat) (U : Nat → List Nat) (L : List AIdx) : Prop where
  len : c.length = n
  units : ∀ (g : Nat) (cg : CGroup), c[g]? = some cg → cg.units = freeCount (U g) L g
  fracs : ∀ (g : Nat) (cg : CGroup), c[g]? = some cg →
    ∀ i, fracOf cg.fracs i = if heldBy L g i = 0 then 0 else FPU - heldBy L g i
  /-- the keys of a fraction map are distinct (it is a map) -/
  nodup : ∀ (g : Nat) (cg : CGroup), c[g]? = some cg → KeysNodup cg.fracs

theorem keys_nodup_set {c : CState} {gidx : Nat} {cg cg' : CGroup}
    (h : ∀ (g : Nat) (x : CGroup), c[g]? = some x → KeysNodup x.fracs) (hcg : c[gidx]? = some cg)
    (hnew : KeysNodup cg'.fracs) :
    ∀ (g : Nat) (x : CGroup), (c.set gidx cg')[g]? = some x → KeysNodup x.fracs := by
  intro g x hx
  by_cases hg : g = gidx
  · subst hg
    simp [lt_length_of_getElem? hcg] at hx
    subst hx
    exact hnew
  · rw [List.getElem?_set_ne (by omega)] at hx
    exact h g x hx

theorem filter_length_update {l : List Nat} (hnd : l.Nodup) {i : Nat} (hi : i ∈ l) {p q : Nat → Bool}
    (hp : p i = true) (hq : q i = false) (hpq : ∀ j, j ≠ i → q j = p j) :
    (l.filter q).length + 1 = (l.filter p).length := by
  induction l with
  | nil => cases hi
  | cons x xs ih =>
    obtain ⟨hx, hxs⟩ := List.nodup_cons.mp hnd
    rcases List.mem_cons.mp hi with rfl | hi'
    · have hsame : xs.filter q = xs.filter p := by
        apply List.filter_congr
        intro j hj
        exact hpq j (fun h => hx (h ▸ hj))
      simp [List.filter_cons, hp, hq, hsame]
    · have hne : x ≠ i := fun h => hx (h ▸ hi')
      have := ih hxs hi'
      simp only [List.filter_cons, hpq x hne]
      split
      · simp only [List.length_cons]; omega
      · exact this

theorem filter_length_same {l : List Nat} {p q : Nat → Bool} (hpq : ∀ j ∈ l, q j = p j) :
    (l.filter q).length = (l.filter p).length := by
  rw [List.filter_congr hpq]

theorem beq_zero_false {n : Nat} (h : n ≠ 0) : (n == 0) = false := by simp [h]
theorem beq_zero_true {n : Nat} (h : n = 0) : (n == 0) = true := by simp [h]

theorem heldBy_snoc (L : List AIdx) (e : AIdx) (g i : Nat) :
    heldBy (L ++ [e]) g i = heldBy L g i + (if e.group = g ∧ e.index = i then e.amt else 0) := by
  rw [heldBy_append, heldBy_cons, heldBy_nil, Nat.add_zero]

theorem mem_of_count_pos {l : List Nat} {i : Nat} (h : 0 < l.count i) : i ∈ l :=
  List.count_pos_iff.mp h

/-- the bound that conservation gives: nothing is held beyond one unit of an index of the group, nothing at all of
other indices -/
def HeldBound (U : Nat → List Nat) (L : List AIdx) : Prop := ∀ g i, heldBy L g i ≤ FPU * (U g).count i

theorem HeldBound.prefix {U L₁ L₂} (h : HeldBound U (L₁ ++ L₂)) : HeldBound U L₁ := by
  intro g i
  have := h g i
  rw [heldBy_append] at this
  omega

/-- `remove`: one entry of the multi-group branch -/
theorem removeEntry_cinv {c : CState} {n : Nat} {U : Nat → List Nat} {L : List AIdx} {e : AIdx}
    (hU : ∀ g, (U g).Nodup) (hc : CInv c n U L) (hb : HeldBound U (L ++ [e])) (hg : e.group < n) :
    ∃ c', CState.removeEntries c [e] = .ok c' ∧ CInv c' n U (L ++ [e]) := by
  have hlt : e.group < c.length := by rw [hc.len]; exact hg
  obtain ⟨cg, hcg⟩ : ∃ cg, c[e.group]? = some cg := ⟨c[e.group], by simp [hlt]⟩
  have hbe := hb e.group e.index
  rw [heldBy_snoc] at hbe
  simp only [and_self, if_true] at hbe
  have hcnt1 := count_le_one_of_nodup (hU e.group) e.index
  have hcntpos : 0 < (U e.group).count e.index := by
    rcases Nat.eq_zero_or_pos ((U e.group).count e.index) with h0 | h0
    · rw [h0] at hbe
      have := e.amt_pos
      omega
    · exact h0
  have hcnt : (U e.group).count e.index = 1 := by omega
  have hmem : e.index ∈ U e.group := mem_of_count_pos hcntpos
  rw [hcnt, Nat.mul_one] at hbe
  have hunits := hc.units e.group cg hcg
  have hfr := hc.fracs e.group cg hcg
  -- generic facts about the new state in the other groups / indices
  have hother : ∀ g i, ¬ (e.group = g ∧ e.index = i) → heldBy (L ++ [e]) g i = heldBy L g i := by
    intro g i hne
    rw [heldBy_snoc]; simp [hne]
  by_cases hf : e.fractions = 0
  · -- whole index
    have hamt : e.amt = FPU := by simp [AIdx.amt, hf]
    have hL0 : heldBy L e.group e.index = 0 := by omega
    have hnew : heldBy (L ++ [e]) e.group e.index = FPU := by
      rw [heldBy_snoc]; simp [hL0, hamt]
    have hcount : freeCount (U e.group) (L ++ [e]) e.group + 1 = freeCount (U e.group) L e.group := by
      apply filter_length_update (hU e.group) hmem (i := e.index)
      · exact beq_zero_true hL0
      · have := FPU_pos
        exact beq_zero_false (by omega)
      · intro j hj
        rw [hother e.group j (fun h => hj h.2.symm)]
    have hupos : cg.units ≠ 0 := by omega
    refine ⟨c.set e.group ⟨cg.units - 1, cg.fracs⟩, ?_, ?_, ?_, ?_,
      keys_nodup_set hc.nodup hcg (hc.nodup _ cg hcg)⟩
    · simp [CState.removeEntries, hf, hcg, hupos]
    · simp [hc.len]
    · intro g cg' hcg'
      by_cases hgg : g = e.group
      · subst hgg
        simp [hlt] at hcg'
        subst hcg'
        show cg.units - 1 = _
        omega
      · rw [List.getElem?_set_ne (by omega)] at hcg'
        rw [hc.units g cg' hcg']
        unfold freeCount
        apply (filter_length_same _).symm
        intro j _
        rw [hother g j (fun h => hgg h.1.symm)]
    · intro g cg' hcg' i
      by_cases hgg : g = e.group
      · subst hgg
        simp [hlt] at hcg'
        subst hcg'
        show fracOf cg.fracs i = _
        rw [hfr i]
        by_cases hi : e.index = i
        · subst hi
          have := FPU_pos
          have hne : ¬ heldBy (L ++ [e]) e.group e.index = 0 := by omega
          rw [if_pos hL0, if_neg hne, hnew]
          omega
        · rw [hother e.group i (fun h => hi h.2)]
      · rw [List.getElem?_set_ne (by omega)] at hcg'
        rw [hc.fracs g cg' hcg' i, hother g i (fun h => hgg h.1.symm)]
  · -- a fraction
    have hamt : e.amt = e.fractions := by simp [AIdx.amt, hf]
    rw [hamt] at hbe
    have hfpos : 0 < e.fractions := by omega
    have hnew : heldBy (L ++ [e]) e.group e.index = heldBy L e.group e.index + e.fractions := by
      rw [heldBy_snoc]; simp [hamt]
    have hold := hfr e.index
    by_cases hL0 : heldBy L e.group e.index = 0
    · -- the index was whole-free: it is split
      rw [if_pos hL0] at hold
      have hcount : freeCount (U e.group) (L ++ [e]) e.group + 1 = freeCount (U e.group) L e.group := by
        apply filter_length_update (hU e.group) hmem (i := e.index)
        · exact beq_zero_true hL0
        · exact beq_zero_false (by omega)
        · intro j hj
          rw [hother e.group j (fun h => hj h.2.symm)]
      have hupos : cg.units ≠ 0 := by omega
      have hlt' : fracOf cg.fracs e.index < e.fractions := by omega
      refine ⟨c.set e.group ⟨cg.units - 1, fset cg.fracs e.index (FPU + fracOf cg.fracs e.index - e.fractions)⟩,
        ?_, ?_, ?_, ?_, keys_nodup_set hc.nodup hcg (fset_keys_nodup (hc.nodup _ cg hcg) _ _)⟩
      · simp [CState.removeEntries, hf, CState.removeFractions, hcg, hlt', hupos]
      · simp [hc.len]
      · intro g cg' hcg'
        by_cases hgg : g = e.group
        · subst hgg
          simp [hlt] at hcg'
          subst hcg'
          show cg.units - 1 = _
          omega
        · rw [List.getElem?_set_ne (by omega)] at hcg'
          rw [hc.units g cg' hcg']
          unfold freeCount
          apply (filter_length_same _).symm
          intro j _
          rw [hother g j (fun h => hgg h.1.symm)]
      · intro g cg' hcg' i
        by_cases hgg : g = e.group
        · subst hgg
          simp [hlt] at hcg'
          subst hcg'
          show fracOf (fset cg.fracs e.index _) i = _
          rw [fracOf_fset]
          by_cases hi : i = e.index
          · subst hi
            have hne : ¬ (heldBy (L ++ [e]) e.group e.index = 0) := by omega
            rw [if_pos rfl, if_neg hne, hnew]
            omega
          · rw [if_neg hi, hfr i, hother e.group i (fun h => hi h.2.symm)]
        · rw [List.getElem?_set_ne (by omega)] at hcg'
          rw [hc.fracs g cg' hcg' i, hother g i (fun h => hgg h.1.symm)]
    · -- the index was already partially held
      rw [if_neg hL0] at hold
      have hcount : freeCount (U e.group) (L ++ [e]) e.group = freeCount (U e.group) L e.group := by
        apply filter_length_same
        intro j _
        by_cases hj : e.index = j
        · subst hj
          rw [beq_zero_false hL0, beq_zero_false (by omega)]
        · rw [hother e.group j (fun h => hj h.2)]
      have hge : ¬ fracOf cg.fracs e.index < e.fractions := by omega
      refine ⟨c.set e.group ⟨cg.units, fset cg.fracs e.index (fracOf cg.fracs e.index - e.fractions)⟩, ?_, ?_, ?_, ?_,
        keys_nodup_set hc.nodup hcg (fset_keys_nodup (hc.nodup _ cg hcg) _ _)⟩
      · simp [CState.removeEntries, hf, CState.removeFractions, hcg, hge]
      · simp [hc.len]
      · intro g cg' hcg'
        by_cases hgg : g = e.group
        · subst hgg
          simp [hlt] at hcg'
          subst hcg'
          show cg.units = _
          omega
        · rw [List.getElem?_set_ne (by omega)] at hcg'
          rw [hc.units g cg' hcg']
          unfold freeCount
          apply (filter_length_same _).symm
          intro j _
          rw [hother g j (fun h => hgg h.1.symm)]
      · intro g cg' hcg' i
        by_cases hgg : g = e.group
        · subst hgg
          simp [hlt] at hcg'
          subst hcg'
          show fracOf (fset cg.fracs e.index _) i = _
          rw [fracOf_fset]
          by_cases hi : i = e.index
          · subst hi
            have hne : ¬ (heldBy (L ++ [e]) e.group e.index = 0) := by omega
            rw [if_pos rfl, if_neg hne, hnew]
            omega
          · rw [if_neg hi, hfr i, hother e.group i (fun h => hi h.2.symm)]
        · rw [List.getElem?_set_ne (by omega)] at hcg'
          rw [hc.fracs g cg' hcg' i, hother g i (fun h => hgg h.1.symm)]

theorem removeEntries_cons_ok {c c' : CState} {e : AIdx} {es : List AIdx}
    (h : CState.removeEntries c [e] = .ok c') : CState.removeEntries c (e :: es) = CState.removeEntries c' es := by
  simp only [CState.removeEntries] at h ⊢
  by_cases hf : e.fractions = 0
  · simp only [hf, if_true] at h ⊢
    cases hg : c[e.group]? with
    | none => simp [hg] at h
    | some g =>
      simp only [hg] at h ⊢
      by_cases hu : g.units = 0
      · simp [hu] at h
      · simp only [hu, if_false, Except.ok.injEq] at h ⊢
        rw [h]
  · simp only [hf, if_false] at h ⊢
    cases hr : c.removeFractions e.group e.index e.fractions with
    | error er => simp [hr] at h
    | ok c₁ =>
      simp only [hr, Except.ok.injEq] at h ⊢
      rw [h]

/-- `remove`, multi-group branch: any list of entries that stays within the bound -/
theorem removeEntries_cinv {c : CState} {n : Nat} {U : Nat → List Nat} {L es : List AIdx}
    (hU : ∀ g, (U g).Nodup) (hc : CInv c n U L) (hb : HeldBound U (L ++ es)) (hg : ∀ e ∈ es, e.group < n) :
    ∃ c', CState.removeEntries c es = .ok c' ∧ CInv c' n U (L ++ es) := by
  induction es generalizing c L with
  | nil => exact ⟨c, rfl, by simpa using hc⟩
  | cons e es ih =>
    have hb1 : HeldBound U (L ++ [e]) := by
      have : L ++ e :: es = (L ++ [e]) ++ es := by simp
      rw [this] at hb
      exact hb.prefix
    obtain ⟨c₁, h₁, inv₁⟩ := removeEntry_cinv hU hc hb1 (hg e (by simp))
    have hb2 : HeldBound U ((L ++ [e]) ++ es) := by simpa using hb
    obtain ⟨c₂, h₂, inv₂⟩ := ih inv₁ hb2 (fun e' he' => hg e' (List.mem_cons_of_mem _ he'))
    exact ⟨c₂, by rw [removeEntries_cons_ok h₁, h₂], by simpa using inv₂⟩

/-! ### `add` -/

theorem HeldBound.tail {U} {e : AIdx} {L : List AIdx} (h : HeldBound U (e :: L)) : HeldBound U L := by
  intro g i
  have := h g i
  rw [heldBy_cons] at this
  omega

/-- `add`: one entry of the multi-group branch (the entry leaves the held list) -/
theorem addEntry_cinv {c : CState} {n : Nat} {U : Nat → List Nat} {L : List AIdx} {e : AIdx}
    (hU : ∀ g, (U g).Nodup) (hc : CInv c n U (e :: L)) (hb : HeldBound U (e :: L)) (hg : e.group < n) :
    ∃ c', CState.addEntries c [e] = .ok c' ∧ CInv c' n U L := by
  have hlt : e.group < c.length := by rw [hc.len]; exact hg
  obtain ⟨cg, hcg⟩ : ∃ cg, c[e.group]? = some cg := ⟨c[e.group], by simp [hlt]⟩
  have hbe := hb e.group e.index
  rw [heldBy_cons] at hbe
  simp only [and_self, if_true] at hbe
  have hcnt1 := count_le_one_of_nodup (hU e.group) e.index
  have hcntpos : 0 < (U e.group).count e.index := by
    rcases Nat.eq_zero_or_pos ((U e.group).count e.index) with h0 | h0
    · rw [h0] at hbe
      have := e.amt_pos
      omega
    · exact h0
  have hcnt : (U e.group).count e.index = 1 := by omega
  have hmem : e.index ∈ U e.group := mem_of_count_pos hcntpos
  rw [hcnt, Nat.mul_one] at hbe
  have hunits := hc.units e.group cg hcg
  have hfr := hc.fracs e.group cg hcg
  have hother : ∀ g i, ¬ (e.group = g ∧ e.index = i) → heldBy (e :: L) g i = heldBy L g i := by
    intro g i hne
    rw [heldBy_cons]; simp [hne]
  have hold_eq : heldBy (e :: L) e.group e.index = e.amt + heldBy L e.group e.index := by
    rw [heldBy_cons]; simp
  have hamtpos := e.amt_pos
  have holdne : ¬ heldBy (e :: L) e.group e.index = 0 := by omega
  -- units / fracs of the groups and indices that are not touched
  have hunits_other : ∀ g cg', g ≠ e.group → c[g]? = some cg' → cg'.units = freeCount (U g) L g := by
    intro g cg' hgg hcg'
    rw [hc.units g cg' hcg']
    unfold freeCount
    apply filter_length_same
    intro j _
    rw [hother g j (fun h => hgg h.1.symm)]
  by_cases hf : e.fractions = 0
  · have hamt : e.amt = FPU := by simp [AIdx.amt, hf]
    have hL0 : heldBy L e.group e.index = 0 := by omega
    have hcount : freeCount (U e.group) (e :: L) e.group + 1 = freeCount (U e.group) L e.group := by
      apply filter_length_update (hU e.group) hmem (i := e.index)
      · exact beq_zero_true hL0
      · exact beq_zero_false holdne
      · intro j hj
        rw [hother e.group j (fun h => hj h.2.symm)]
    refine ⟨c.set e.group ⟨cg.units + 1, cg.fracs⟩, ?_, ?_, ?_, ?_,
      keys_nodup_set hc.nodup hcg (hc.nodup _ cg hcg)⟩
    · simp [CState.addEntries, hf, hcg]
    · simp [hc.len]
    · intro g cg' hcg'
      by_cases hgg : g = e.group
      · subst hgg
        simp [hlt] at hcg'
        subst hcg'
        show cg.units + 1 = _
        omega
      · rw [List.getElem?_set_ne (by omega)] at hcg'
        exact hunits_other g cg' hgg hcg'
    · intro g cg' hcg' i
      by_cases hgg : g = e.group
      · subst hgg
        simp [hlt] at hcg'
        subst hcg'
        show fracOf cg.fracs i = _
        rw [hfr i]
        by_cases hi : e.index = i
        · subst hi
          rw [if_neg holdne, if_pos hL0, hold_eq]
          omega
        · rw [hother e.group i (fun h => hi h.2)]
      · rw [List.getElem?_set_ne (by omega)] at hcg'
        rw [hc.fracs g cg' hcg' i, hother g i (fun h => hgg h.1.symm)]
  · have hamt : e.amt = e.fractions := by simp [AIdx.amt, hf]
    have hold := hfr e.index
    rw [if_neg holdne, hold_eq, hamt] at hold
    rw [hamt] at hbe hold_eq
    by_cases hL0 : heldBy L e.group e.index = 0
    · -- the index becomes whole-free again
      have hcount : freeCount (U e.group) (e :: L) e.group + 1 = freeCount (U e.group) L e.group := by
        apply filter_length_update (hU e.group) hmem (i := e.index)
        · exact beq_zero_true hL0
        · exact beq_zero_false holdne
        · intro j hj
          rw [hother e.group j (fun h => hj h.2.symm)]
      have hnew : fracOf cg.fracs e.index + e.fractions = FPU := by omega
      refine ⟨c.set e.group ⟨cg.units + 1, fset cg.fracs e.index (fracOf cg.fracs e.index + e.fractions - FPU)⟩,
        ?_, ?_, ?_, ?_, keys_nodup_set hc.nodup hcg (fset_keys_nodup (hc.nodup _ cg hcg) _ _)⟩
      · have h1 : FPU ≤ fracOf cg.fracs e.index + e.fractions := by omega
        have h2 : ¬ FPU ≤ fracOf cg.fracs e.index + e.fractions - FPU := by have := FPU_pos; omega
        simp [CState.addEntries, hf, CState.addFractions, hcg, h1, h2]
      · simp [hc.len]
      · intro g cg' hcg'
        by_cases hgg : g = e.group
        · subst hgg
          simp [hlt] at hcg'
          subst hcg'
          show cg.units + 1 = _
          omega
        · rw [List.getElem?_set_ne (by omega)] at hcg'
          exact hunits_other g cg' hgg hcg'
      · intro g cg' hcg' i
        by_cases hgg : g = e.group
        · subst hgg
          simp [hlt] at hcg'
          subst hcg'
          show fracOf (fset cg.fracs e.index _) i = _
          rw [fracOf_fset]
          by_cases hi : i = e.index
          · subst hi
            rw [if_pos rfl, if_pos hL0]
            omega
          · rw [if_neg hi, hfr i, hother e.group i (fun h => hi h.2.symm)]
        · rw [List.getElem?_set_ne (by omega)] at hcg'
          rw [hc.fracs g cg' hcg' i, hother g i (fun h => hgg h.1.symm)]
    · -- still partially held by others
      have hcount : freeCount (U e.group) (e :: L) e.group = freeCount (U e.group) L e.group := by
        apply filter_length_same
        intro j _
        by_cases hj : e.index = j
        · subst hj
          rw [beq_zero_false hL0, beq_zero_false holdne]
        · rw [hother e.group j (fun h => hj h.2)]
      have h1 : ¬ FPU ≤ fracOf cg.fracs e.index + e.fractions := by omega
      refine ⟨c.set e.group ⟨cg.units, fset cg.fracs e.index (fracOf cg.fracs e.index + e.fractions)⟩, ?_, ?_, ?_, ?_,
        keys_nodup_set hc.nodup hcg (fset_keys_nodup (hc.nodup _ cg hcg) _ _)⟩
      · simp [CState.addEntries, hf, CState.addFractions, hcg, h1]
      · simp [hc.len]
      · intro g cg' hcg'
        by_cases hgg : g = e.group
        · subst hgg
          simp [hlt] at hcg'
          subst hcg'
          show cg.units = _
          omega
        · rw [List.getElem?_set_ne (by omega)] at hcg'
          exact hunits_other g cg' hgg hcg'
      · intro g cg' hcg' i
        by_cases hgg : g = e.group
        · subst hgg
          simp [hlt] at hcg'
          subst hcg'
          show fracOf (fset cg.fracs e.index _) i = _
          rw [fracOf_fset]
          by_cases hi : i = e.index
          · subst hi
            rw [if_pos rfl, if_neg hL0]
            omega
          · rw [if_neg hi, hfr i, hother e.group i (fun h => hi h.2.symm)]
        · rw [List.getElem?_set_ne (by omega)] at hcg'
          rw [hc.fracs g cg' hcg' i, hother g i (fun h => hgg h.1.symm)]

theorem addEntries_cons_ok {c c' : CState} {e : AIdx} {es : List AIdx}
    (h : CState.addEntries c [e] = .ok c') : CState.addEntries c (e :: es) = CState.addEntries c' es := by
  simp only [CState.addEntries] at h ⊢
  by_cases hf : e.fractions = 0
  · simp only [hf, if_true] at h ⊢
    cases hg : c[e.group]? with
    | none => simp [hg] at h
    | some g =>
      simp only [hg, Except.ok.injEq] at h ⊢
      rw [h]
  · simp only [hf, if_false] at h ⊢
    cases hr : c.addFractions e.group e.index e.fractions with
    | error er => simp [hr] at h
    | ok c₁ =>
      simp only [hr, Except.ok.injEq] at h ⊢
      rw [h]

/-- `add`, multi-group branch -/
theorem addEntries_cinv {c : CState} {n : Nat} {U : Nat → List Nat} {es O : List AIdx}
    (hU : ∀ g, (U g).Nodup) (hc : CInv c n U (es ++ O)) (hb : HeldBound U (es ++ O))
    (hg : ∀ e ∈ es, e.group < n) :
    ∃ c', CState.addEntries c es = .ok c' ∧ CInv c' n U O := by
  induction es generalizing c with
  | nil => exact ⟨c, rfl, by simpa using hc⟩
  | cons e es ih =>
    obtain ⟨c₁, h₁, inv₁⟩ := addEntry_cinv hU (by simpa using hc) (by simpa using hb) (hg e (by simp))
    have hb' : HeldBound U (es ++ O) := HeldBound.tail (e := e) (by simpa using hb)
    obtain ⟨c₂, h₂, inv₂⟩ := ih inv₁ hb' (fun e' he' => hg e' (List.mem_cons_of_mem _ he'))
    exact ⟨c₂, by rw [addEntries_cons_ok h₁, h₂], inv₂⟩

/-! ### the single-group branch of `remove` / `add` coincides with the multi-group branch on shaped allocations -/

theorem removeEntries_whole_single (ws es : List AIdx) (cg : CGroup) (hw : WholeOnly ws)
    (hg : ∀ e ∈ ws, e.group = 0) :
    CState.removeEntries [cg] (ws ++ es) =
      if cg.units < ws.length then .error (.panic .assert)
      else CState.removeEntries [⟨cg.units - ws.length, cg.fracs⟩] es := by
  induction ws generalizing cg with
  | nil => simp
  | cons w ws ih =>
    have hw0 := hw w (by simp)
    have hg0 := hg w (by simp)
    simp only [List.cons_append, CState.removeEntries, hw0, if_true, hg0, List.getElem?_cons_zero]
    by_cases hu : cg.units = 0
    · simp [hu]
    · simp only [hu, if_false, List.set_cons_zero]
      rw [ih ⟨cg.units - 1, cg.fracs⟩ (fun e he => hw e (List.mem_cons_of_mem _ he))
        (fun e he => hg e (List.mem_cons_of_mem _ he))]
      simp only [List.length_cons]
      by_cases h1 : cg.units - 1 < ws.length
      · have h2 : cg.units < ws.length + 1 := by omega
        simp [h1, h2]
      · have h2 : ¬ cg.units < ws.length + 1 := by omega
        have h3 : cg.units - 1 - ws.length = cg.units - (ws.length + 1) := by omega
        simp [h1, h2, h3]

theorem trailingFractional_whole (ws : List AIdx) (hw : WholeOnly ws) : trailingFractional ws = [] := by
  cases ws with
  | nil => rfl
  | cons e es => simp [trailingFractional, hw e (by simp)]

theorem remove_single {cg : CGroup} {rid amount : Nat} {l : List AIdx} (hs : Shape amount l)
    (hg : ∀ e ∈ l, e.group = 0) :
    CState.remove [cg] ⟨rid, amount, l⟩ = CState.removeEntries [cg] l := by
  obtain ⟨ws, hw, hlen, hres⟩ := hs
  rcases hres with ⟨h0, rfl⟩ | ⟨f, hf, hne, rfl⟩
  · have := removeEntries_whole_single l [] cg hw hg
    simp only [List.append_nil] at this
    rw [this]
    simp only [CState.remove, hlen, h0, Nat.lt_irrefl, if_false]
    by_cases hu : cg.units < amount / FPU
    · simp [hu]
    · simp [hu, CState.removeEntries]
  · have hgw : ∀ e ∈ ws, e.group = 0 := fun e he => hg e (List.mem_append_left _ he)
    have hgf : f.group = 0 := hg f (by simp)
    rw [removeEntries_whole_single ws [f] cg hw hgw]
    have hpos : 0 < amount % FPU := by omega
    have hfne : f.fractions ≠ 0 := by omega
    have hrev : trailingFractional (ws ++ [f]).reverse = [f] := by
      simp only [List.reverse_append, List.reverse_cons, List.reverse_nil, List.nil_append, List.singleton_append,
        trailingFractional, hfne, if_false]
      rw [trailingFractional_whole _ (fun e he => hw e (List.mem_reverse.mp he))]
    simp only [CState.remove, hlen, hpos, if_true, hrev]
    by_cases hu : cg.units < amount / FPU
    · simp [hu]
    · simp only [hu, if_false]
      have hne' : (ws ++ [f]).isEmpty = false := by simp
      simp only [hne', Bool.false_eq_true, if_false, CState.removeFracList, CState.removeEntries, hfne, hgf, hf]
      cases hr : CState.removeFractions [⟨cg.units - amount / FPU, cg.fracs⟩] 0 f.index (amount % FPU) with
      | error er => simp [hne]
      | ok c' => simp [hne]

theorem addEntries_whole_single (ws es : List AIdx) (cg : CGroup) (hw : WholeOnly ws)
    (hg : ∀ e ∈ ws, e.group = 0) :
    CState.addEntries [cg] (ws ++ es) = CState.addEntries [⟨cg.units + ws.length, cg.fracs⟩] es := by
  induction ws generalizing cg with
  | nil => simp
  | cons w ws ih =>
    have hw0 := hw w (by simp)
    have hg0 := hg w (by simp)
    simp only [List.cons_append, CState.addEntries, hw0, if_true, hg0, List.getElem?_cons_zero, List.set_cons_zero]
    rw [ih ⟨cg.units + 1, cg.fracs⟩ (fun e he => hw e (List.mem_cons_of_mem _ he))
      (fun e he => hg e (List.mem_cons_of_mem _ he))]
    simp only [List.length_cons]
    have : cg.units + 1 + ws.length = cg.units + (ws.length + 1) := by omega
    rw [this]

theorem add_single {cg : CGroup} {rid amount : Nat} {l : List AIdx} (hs : Shape amount l)
    (hg : ∀ e ∈ l, e.group = 0) :
    CState.add [cg] ⟨rid, amount, l⟩ = CState.addEntries [cg] l := by
  obtain ⟨ws, hw, hlen, hres⟩ := hs
  rcases hres with ⟨h0, rfl⟩ | ⟨f, hf, hne, rfl⟩
  · have := addEntries_whole_single l [] cg hw hg
    simp only [List.append_nil] at this
    rw [this]
    simp [CState.add, hlen, h0, CState.addEntries]
  · have hgw : ∀ e ∈ ws, e.group = 0 := fun e he => hg e (List.mem_append_left _ he)
    have hgf : f.group = 0 := hg f (by simp)
    rw [addEntries_whole_single ws [f] cg hw hgw]
    have hpos : 0 < amount % FPU := by omega
    have hfne : f.fractions ≠ 0 := by omega
    have hrev : trailingFractional (ws ++ [f]).reverse = [f] := by
      simp only [List.reverse_append, List.reverse_cons, List.reverse_nil, List.nil_append, List.singleton_append,
        trailingFractional, hfne, if_false]
      rw [trailingFractional_whole _ (fun e he => hw e (List.mem_reverse.mp he))]
    have hne' : (ws ++ [f]).isEmpty = false := by simp
    simp only [CState.add, hlen, hpos, if_true, hrev, hne', Bool.false_eq_true, if_false, CState.addFracList,
      CState.addEntries, hfne, hgf, hf]
    cases hr : CState.addFractions [⟨cg.units + amount / FPU, cg.fracs⟩] 0 f.index (amount % FPU) with
    | error er => simp [hne]
    | ok c' => simp [hne]

theorem remove_multi {c : CState} (ra : RAlloc) (h : c.length ≠ 1) : c.remove ra = c.removeEntries ra.indices := by
  match c, h with
  | [], _ => rfl
  | _ :: _ :: _, _ => rfl

theorem add_multi {c : CState} (ra : RAlloc) (h : c.length ≠ 1) : c.add ra = c.addEntries ra.indices := by
  match c, h with
  | [], _ => rfl
  | _ :: _ :: _, _ => rfl

/-- `ConciseResourceState::remove` on an index pool -/
theorem remove_cinv {c : CState} {n : Nat} {U : Nat → List Nat} {L : List AIdx} {ra : RAlloc}
    (hU : ∀ g, (U g).Nodup) (hc : CInv c n U L) (hb : HeldBound U (L ++ ra.indices))
    (hg : ∀ e ∈ ra.indices, e.group < n) (hs : n = 1 → Shape ra.amount ra.indices) :
    ∃ c', c.remove ra = .ok c' ∧ CInv c' n U (L ++ ra.indices) := by
  obtain ⟨c', hr, inv⟩ := removeEntries_cinv hU hc hb hg
  refine ⟨c', ?_, inv⟩
  by_cases hn : n = 1
  · obtain ⟨cg, rfl⟩ : ∃ cg, c = [cg] := by
      have := hc.len
      rw [hn] at this
      match c, this with
      | [cg], _ => exact ⟨cg, rfl⟩
    have hg0 : ∀ e ∈ ra.indices, e.group = 0 := fun e he => by have := hg e he; omega
    have := remove_single (cg := cg) (rid := ra.rid) (hs hn) hg0
    rw [← hr, ← this]
  · rw [remove_multi ra (by rw [hc.len]; exact hn), hr]

/-- `ConciseResourceState::add` on an index pool -/
theorem add_cinv {c : CState} {n : Nat} {U : Nat → List Nat} {O : List AIdx} {ra : RAlloc}
    (hU : ∀ g, (U g).Nodup) (hc : CInv c n U (ra.indices ++ O)) (hb : HeldBound U (ra.indices ++ O))
    (hg : ∀ e ∈ ra.indices, e.group < n) (hs : n = 1 → Shape ra.amount ra.indices) :
    ∃ c', c.add ra = .ok c' ∧ CInv c' n U O := by
  obtain ⟨c', hr, inv⟩ := addEntries_cinv hU hc hb hg
  refine ⟨c', ?_, inv⟩
  by_cases hn : n = 1
  · obtain ⟨cg, rfl⟩ : ∃ cg, c = [cg] := by
      have := hc.len
      rw [hn] at this
      match c, this with
      | [cg], _ => exact ⟨cg, rfl⟩
    have hg0 : ∀ e ∈ ra.indices, e.group = 0 := fun e he => by have := hg e he; omega
    have := add_single (cg := cg) (rid := ra.rid) (hs hn) hg0
    rw [← hr, ← this]
  · rw [add_multi ra (by rw [hc.len]; exact hn), hr]

/-! ### sum pools -/

/-- the concise state of a sum pool with `free` free: one group, `free / FPU` units, `free % FPU` on pseudo-index 0 -/
def SumCInv (c : CState) (free : Nat) : Prop :=
  ∃ cg, c = [cg] ∧ cg.units = free / FPU ∧ (∀ i, fracOf cg.fracs i = if i = 0 then free % FPU else 0) ∧
    KeysNodup cg.fracs

theorem sum_remove {c : CState} {free : Nat} {ra : RAlloc} (hc : SumCInv c free) (hidx : ra.indices = [])
    (hle : ra.amount ≤ free) : ∃ c', c.remove ra = .ok c' ∧ SumCInv c' (free - ra.amount) := by
  obtain ⟨cg, rfl, hu, hf, hnd⟩ := hc
  have hf0 := hf 0
  simp only [if_true] at hf0
  have h1 : ¬ cg.units < ra.amount / FPU := by rw [hu]; unfold FPU; omega
  simp only [CState.remove, h1, if_false, hidx, List.isEmpty_nil, if_true]
  by_cases hfr : 0 < ra.amount % FPU
  · simp only [hfr, if_true, CState.removeFractions, List.getElem?_cons_zero, hf0, List.set_cons_zero]
    by_cases hlt : free % FPU < ra.amount % FPU
    · have h2 : ¬ cg.units - ra.amount / FPU = 0 := by rw [hu]; unfold FPU at *; omega
      simp only [hlt, if_true, h2, if_false]
      refine ⟨_, rfl, _, rfl, ?_, ?_, fset_keys_nodup hnd _ _⟩
      · show cg.units - ra.amount / FPU - 1 = _
        rw [hu]; unfold FPU at *; omega
      · intro i
        show fracOf (fset cg.fracs 0 _) i = _
        rw [fracOf_fset]
        by_cases hi : i = 0
        · simp only [hi, if_true]; unfold FPU at *; omega
        · simp [hi, hf i]
    · simp only [hlt, if_false]
      refine ⟨_, rfl, _, rfl, ?_, ?_, fset_keys_nodup hnd _ _⟩
      · show cg.units - ra.amount / FPU = _
        rw [hu]; unfold FPU at *; omega
      · intro i
        show fracOf (fset cg.fracs 0 _) i = _
        rw [fracOf_fset]
        by_cases hi : i = 0
        · simp only [hi, if_true]; unfold FPU at *; omega
        · simp [hi, hf i]
  · simp only [hfr, if_false]
    refine ⟨_, rfl, _, rfl, ?_, ?_, hnd⟩
    · show cg.units - ra.amount / FPU = _
      rw [hu]; unfold FPU at *; omega
    · intro i
      show fracOf cg.fracs i = _
      rw [hf i]
      by_cases hi : i = 0
      · simp only [hi, if_true]; unfold FPU at *; omega
      · simp [hi]

theorem sum_add {c : CState} {free : Nat} {ra : RAlloc} (hc : SumCInv c free) (hidx : ra.indices = []) :
    ∃ c', c.add ra = .ok c' ∧ SumCInv c' (free + ra.amount) := by
  obtain ⟨cg, rfl, hu, hf, hnd⟩ := hc
  have hf0 := hf 0
  simp only [if_true] at hf0
  simp only [CState.add, hidx, List.isEmpty_nil, if_true]
  by_cases hfr : 0 < ra.amount % FPU
  · simp only [hfr, if_true, CState.addFractions, List.getElem?_cons_zero, hf0, List.set_cons_zero]
    by_cases hge : FPU ≤ free % FPU + ra.amount % FPU
    · have h2 : ¬ FPU ≤ free % FPU + ra.amount % FPU - FPU := by unfold FPU at *; omega
      simp only [hge, if_true, h2, if_false]
      refine ⟨_, rfl, _, rfl, ?_, ?_, fset_keys_nodup hnd _ _⟩
      · show cg.units + ra.amount / FPU + 1 = _
        rw [hu]; unfold FPU at *; omega
      · intro i
        show fracOf (fset cg.fracs 0 _) i = _
        rw [fracOf_fset]
        by_cases hi : i = 0
        · simp only [hi, if_true]; unfold FPU at *; omega
        · simp [hi, hf i]
    · simp only [hge, if_false]
      refine ⟨_, rfl, _, rfl, ?_, ?_, fset_keys_nodup hnd _ _⟩
      · show cg.units + ra.amount / FPU = _
        rw [hu]; unfold FPU at *; omega
      · intro i
        show fracOf (fset cg.fracs 0 _) i = _
        rw [fracOf_fset]
        by_cases hi : i = 0
        · simp only [hi, if_true]; unfold FPU at *; omega
        · simp [hi, hf i]
  · simp only [hfr, if_false]
    refine ⟨_, rfl, _, rfl, ?_, ?_, hnd⟩
    · show cg.units + ra.amount / FPU = _
      rw [hu]; unfold FPU at *; omega
    · intro i
      show fracOf cg.fracs i = _
      rw [hf i]
      by_cases hi : i = 0
      · simp only [hi, if_true]; unfold FPU at *; omega
      · simp [hi]

end HqModel.Alloc
