import HqModel.Lemmas.CoreNoPanicQSched2
import HqModel.Lemmas.CoreNoPanicQList
/-!
C09 progress, queue correspondence `NpQ`, part B3: proactive filling (`prefillWorker` with its local loops `back` and
`mark`).

Inside `prefillWorker` the clause `pg` of `NpQ` is transiently false for the ids just moved from the ready list into the
prefill set. `NpJ K s` is `NpQ noD [] s` (in index / lookup form) with `pg` weakened for the *pending* ids `K`:
an id of a prefill set is `PfGood`, or it is pending and still satisfies `ReadyGood` for the same (queue, priority);
the pending ids are distinct, in no ready list, and in the prefill set of their queue.

Status (everything below is proved, no `sorry`):

* `NpJ`, `npj_of_npq`, `NpJ.npq` (`NpJ [] s ↔ NpQ noD [] s` given unique task ids), `NpJ.perm`.
* `taken_readyGood`, `NpJ.pending` : FORWARD facts for the progress proof (the popped / pending ids are `Waiting 0` or
  Retracting without a redirect, and — pending — in the prefill set of their queue).
* `inPrefill_set` : `InPrefill` after the replacement of one queue.
* `npj_start` : the state after `take_tasks_for_prefill` satisfies `NpJ taken`.
* `npj_move` : a pending Retracting id goes back to the ready list (`movePrefilledToReady`).
* `npj_markStep` : a pending Waiting id becomes Prefilled.
* `prefillBack_npj`, `prefillMark_npj` : the two loops.
-/
namespace HqModel.Core.NPD

open NP

structure NpJ (K : List TaskId) (s : State) : Prop where
  wf : ∀ (i : Nat) (q : Queue), s.queues[i]? = some q → ReadyWf q.ready
  rg : ∀ (i : Nat) (q : Queue), s.queues[i]? = some q → ∀ x ∈ rPairs q.ready, ReadyGood [] s i x.1 x.2
  pnd : ∀ (i : Nat) (q : Queue), s.queues[i]? = some q → (pfIds q).Nodup
  pg : ∀ (i : Nat) (q : Queue), s.queues[i]? = some q → ∀ pp ts, q.prefill = some (pp, ts) → ∀ id ∈ ts,
    PfGood [] s i pp id ∨ (id ∈ K ∧ ReadyGood [] s i pp id)
  pin : ∀ id t, s.task? id = some t → (∃ w, t.state = .prefilled w) → InPrefill s t
  knd : K.Nodup
  kq : ∀ id ∈ K, (∀ q ∈ s.queues, id ∉ rIds q.ready) ∧ ∃ t, s.task? id = some t ∧ InPrefill s t
  /-- a pending id is still what an id of a ready list is (`Waiting 0`, or Retracting without a redirect); not needed
  for the preservation of `NpQ`, kept for the progress proof -/
  krg : ∀ id ∈ K, ∃ i pp, ReadyGood [] s i pp id

theorem npj_of_npq {s : State} (h : NpQ noD [] s) : NpJ [] s :=
  ⟨fun _ _ hq => h.wf' hq, fun _ _ hq _ hx => h.rgp hq hx, fun _ _ hq => h.pnd' hq,
   fun _ _ hq _ _ hp _ hid => Or.inl (h.pg' hq hp hid),
   fun _ _ ht hp => h.pin' ht hp (by simp) (fun e => e), List.nodup_nil, fun _ hid => (by cases hid),
   fun _ hid => (by cases hid)⟩

theorem NpJ.npq {s : State} (h : NpJ [] s) (hn : (taskIds s.tasks).Nodup) : NpQ noD [] s := by
  refine npq_mk hn h.wf h.rg h.pnd ?_ (fun id t ht hp _ => h.pin id t ht hp)
  intro i q hq pp ts hp id hid
  rcases h.pg i q hq pp ts hp id hid with a | ⟨a, _⟩
  · exact a
  · cases a

theorem NpJ.perm {K K' : List TaskId} {s : State} (h : NpJ K s) (hp : K.Perm K') : NpJ K' s :=
  ⟨h.wf, h.rg, h.pnd,
   fun i q hq pp ts hpf id hid => (h.pg i q hq pp ts hpf id hid).imp (fun a => a) (fun a => ⟨hp.mem_iff.mp a.1, a.2⟩),
   h.pin, hp.nodup_iff.mp h.knd, fun id hid => h.kq id (hp.mem_iff.mpr hid),
   fun id hid => h.krg id (hp.mem_iff.mpr hid)⟩

/-- `InPrefill` after the replacement of queue `i` -/
theorem inPrefill_set {s : State} {i : Nat} {q q' : Queue} {t : Task} (hq : s.queues[i]? = some q)
    (h : InPrefill s t) (hc : t.rq = i → t.id ∈ pfIds q → t.id ∈ pfIds q') :
    InPrefill { s with queues := s.queues.set i q' } t := by
  have hlt : i < s.queues.length := by
    obtain ⟨hl, _⟩ := List.getElem?_eq_some_iff.mp hq; exact hl
  unfold InPrefill at h ⊢
  show (match (s.queues.set i q')[t.rq]? with | some q => t.id ∈ pfIds q | none => False)
  by_cases e : t.rq = i
  · rw [e, List.getElem?_set_self hlt]
    rw [e, hq] at h
    exact hc e h
  · rw [List.getElem?_set_ne (fun e' => e e'.symm)]; exact h

theorem getElem?_set_cases {qs : List Queue} {i : Nat} {q' : Queue} (hlt : i < qs.length) {j : Nat} {qq : Queue}
    (hj : (qs.set i q')[j]? = some qq) : (j = i ∧ qq = q') ∨ (j ≠ i ∧ qs[j]? = some qq) := by
  rw [List.getElem?_set] at hj
  split at hj
  · rename_i e
    simp only [Option.some.injEq] at hj
    exact Or.inl ⟨e.symm, hj.symm⟩
  · rename_i e
    exact Or.inr ⟨fun e' => e e'.symm, hj⟩

/-- FORWARD fact: the ids `take_tasks_for_prefill` pops are tasks of request `rq` with the top priority that are
`Waiting 0` or Retracting without a redirect -/
theorem taken_readyGood {D : TaskId → Prop} {s : State} {rq : Nat} {q : Queue} (h : NpQ D [] s)
    (hq : s.queues[rq]? = some q) (size : Nat) :
    ∀ id ∈ (takeFromFirst q.ready size).2, ReadyGood [] s rq (topPrio q.ready) id :=
  fun _ hid => h.rgp hq (takeFromFirst_taken_mem hid)

/-- what `NpJ` says about a pending id: a task that is `Waiting 0` or Retracting without a redirect, in the prefill set
of its queue -/
theorem NpJ.pending {K : List TaskId} {s : State} (h : NpJ K s) {id : TaskId} (hid : id ∈ K) :
    ∃ t, s.task? id = some t ∧ InPrefill s t ∧
      (t.state = .waiting 0 ∨ ((∃ w, t.state = .retracting w) ∧ ∀ x ∈ s.redirects, x.1 ≠ id)) := by
  obtain ⟨_, t, ht, hin⟩ := h.kq id hid
  obtain ⟨i, pp, hg⟩ := h.krg id hid
  obtain ⟨t', ht', _, _, hs⟩ := hg.elim
  rw [ht] at ht'; cases ht'
  refine ⟨t, ht, hin, ?_⟩
  rcases hs with a | a | ⟨_, a⟩
  · exact Or.inl a
  · exact Or.inr a
  · cases a

/-! ### the start: `take_tasks_for_prefill` -/

theorem npj_start {s : State} {rq size : Nat} {q : Queue} {p : Int} {ids0 : List TaskId}
    {more : List (Int × List TaskId)} {pf : Int × List TaskId}
    (h : NpQ noD [] s) (hq : s.queues[rq]? = some q) (hready : q.ready = (p, ids0) :: more)
    (hpf : (match q.prefill with
        | some (pp, ts) => if pp ≠ p then (.error (.panic "take_tasks_for_prefill.assert_priority") : M (Int × List TaskId))
            else .ok (pp, ts ++ (takeFromFirst q.ready size).2)
        | none => .ok (p, (takeFromFirst q.ready size).2)) = .ok pf) :
    NpJ (takeFromFirst q.ready size).2
      { s with queues := s.queues.set rq { ready := (takeFromFirst q.ready size).1, prefill := some pf } } := by
  have hlt : rq < s.queues.length := by
    obtain ⟨hl, _⟩ := List.getElem?_eq_some_iff.mp hq; exact hl
  have hI := takeFromFirst_ids q.ready size
  have hrn := h.ready_nodup hq
  have htop : topPrio q.ready = p := by rw [hready]; rfl
  -- shape of the new prefill set
  have hshape : pf.1 = p ∧ (∀ x ∈ pfIds q, x ∈ pf.2) ∧ (∀ x ∈ (takeFromFirst q.ready size).2, x ∈ pf.2) ∧
      (∀ x ∈ pf.2, x ∈ pfIds q ∨ x ∈ (takeFromFirst q.ready size).2) ∧
      (∀ pp ts, q.prefill = some (pp, ts) → pp = p) ∧ pf.2.Nodup := by
    have hnd0 := hrn
    rw [hI, List.nodup_append] at hnd0
    split at hpf
    · rename_i pp ts hpre
      split at hpf
      · cases hpf
      · rename_i hpp
        simp only [ne_eq, Decidable.not_not] at hpp
        cases hpf
        have e : pfIds q = ts := by simp [pfIds, hpre]
        refine ⟨hpp, ?_, ?_, ?_, ?_, ?_⟩
        · intro x hx; rw [e] at hx; exact List.mem_append.mpr (Or.inl hx)
        · intro x hx; exact List.mem_append.mpr (Or.inr hx)
        · intro x hx; rw [e]; exact List.mem_append.mp hx
        · intro pp' ts' hh; rw [hpre] at hh; cases hh; exact hpp
        · show (ts ++ (takeFromFirst q.ready size).2).Nodup
          rw [List.nodup_append]
          refine ⟨e ▸ h.pnd' hq, hnd0.1, ?_⟩
          intro a ha b hb eab
          subst eab
          exact h.ready_prefill_disjoint hq (by rw [hI]; exact List.mem_append.mpr (Or.inl hb)) (e ▸ ha)
    · rename_i hpre
      cases hpf
      have e : pfIds q = [] := by simp [pfIds, hpre]
      refine ⟨rfl, ?_, fun _ hx => hx, fun _ hx => Or.inr hx, ?_, hnd0.1⟩
      · intro x hx; rw [e] at hx; cases hx
      · intro pp' ts' hh; rw [hpre] at hh; cases hh
  obtain ⟨hp1, hsub1, hsub2, hcov, hpp, hpnd⟩ := hshape
  have hpfIds : pfIds ({ ready := (takeFromFirst q.ready size).1, prefill := some pf } : Queue) = pf.2 := rfl
  refine ⟨?_, ?_, ?_, ?_, ?_, ?_, ?_, ?_⟩
  rotate_right
  · intro x hx
    exact ⟨rq, topPrio q.ready, (h.rgp hq (takeFromFirst_taken_mem hx)).of_eq rfl (fun _ hy _ => hy)⟩
  · intro j qq hj
    rcases getElem?_set_cases hlt hj with ⟨_, rfl⟩ | ⟨_, hj'⟩
    · exact takeFromFirst_wf (h.wf' hq) _
    · exact h.wf' hj'
  · intro j qq hj x hx
    rcases getElem?_set_cases hlt hj with ⟨rfl, rfl⟩ | ⟨_, hj'⟩
    · exact (h.rgp hq (takeFromFirst_rest_sub hx)).of_eq rfl (fun _ hy _ => hy)
    · exact (h.rgp hj' hx).of_eq rfl (fun _ hy _ => hy)
  · intro j qq hj
    rcases getElem?_set_cases hlt hj with ⟨_, rfl⟩ | ⟨_, hj'⟩
    · rw [hpfIds]; exact hpnd
    · exact h.pnd' hj'
  · intro j qq hj pp ts hpre x hx
    rcases getElem?_set_cases hlt hj with ⟨rfl, rfl⟩ | ⟨_, hj'⟩
    · simp only [Option.some.injEq] at hpre
      subst hpre
      simp only at hp1 hx
      subst hp1
      rcases hcov x hx with a | a
      · left
        unfold pfIds at a
        split at a
        · rename_i pp0 ts0 hp0
          have := hpp pp0 ts0 hp0
          subst this
          exact (h.pg' hq hp0 a).of_eq rfl
        · cases a
      · right
        refine ⟨a, ?_⟩
        have := takeFromFirst_taken_mem a
        rw [htop] at this
        have hg := h.rgp hq this
        exact hg.of_eq rfl (fun _ hy _ => hy)
    · exact Or.inl ((h.pg' hj' hpre hx).of_eq rfl)
  · intro x t hxt hpr
    have hin := h.pin' (s := s) hxt hpr (by simp) (fun e => e)
    exact inPrefill_set hq hin (fun _ hm => hpfIds ▸ hsub1 _ hm)
  · rw [hI, List.nodup_append] at hrn; exact hrn.1
  · intro x hx
    have hxr : x ∈ rIds q.ready := by rw [hI]; exact List.mem_append.mpr (Or.inl hx)
    constructor
    · intro qq hqq hm
      obtain ⟨j, hj⟩ := List.mem_iff_getElem?.mp hqq
      rcases getElem?_set_cases hlt hj with ⟨_, rfl⟩ | ⟨hne, hj'⟩
      · rw [hI, List.nodup_append] at hrn
        exact hrn.2.2 x hx x hm rfl
      · apply hne
        refine h.queue_unique hj' hq (id := x) ?_ ?_
        · rw [qIds_eq']; exact List.mem_append.mpr (Or.inl hm)
        · rw [qIds_eq']; exact List.mem_append.mpr (Or.inl hxr)
    · obtain ⟨e, he, hm⟩ := mem_rIds.mp hxr
      obtain ⟨t, ht, hrq, _⟩ := (h.rg' hq he hm).elim
      refine ⟨t, ht, ?_⟩
      have hid : t.id = x := findTask_some_id ht
      unfold InPrefill
      show (match (s.queues.set rq _)[t.rq]? with | some q => t.id ∈ pfIds q | none => False)
      rw [hrq, List.getElem?_set_self hlt, hid]
      exact hsub2 x hx

/-! ### `back`: a pending Retracting id returns to the ready list -/

theorem npj_move {K : List TaskId} {s s' : State} {rq : Nat} {id : TaskId} {t : Task} {w0 : Nat}
    (h : NpJ (id :: K) s) (ht : s.task? id = some t) (hs : t.state = .retracting w0)
    (hm : s.movePrefilledToReady rq id = .ok s') : NpJ K s' := by
  simp only [State.movePrefilledToReady] at hm
  split at hm
  · cases hm
  · rename_i q hq
    split at hm
    · cases hm
    · rename_i pp ts hpre
      split at hm
      · cases hm
      · rename_i hc
        have htm : id ∈ ts := by simpa using hc
        cases hm
        have hlt : rq < s.queues.length := by
          obtain ⟨hl, _⟩ := List.getElem?_eq_some_iff.mp hq; exact hl
        have hnd : ts.Nodup := by have := h.pnd rq q hq; simpa [pfIds, hpre] using this
        have hknd := List.nodup_cons.mp h.knd
        -- the id still satisfies the ready clause
        have hrg : ReadyGood [] s rq pp id := by
          rcases h.pg rq q hq pp ts hpre id htm with a | a
          · obtain ⟨t', w, ht', _, _, _, hs'⟩ := a.elim
            rw [ht] at ht'; cases ht'
            rw [hs] at hs'; cases hs'
          · exact a.2
        have hpfIds : pfIds ({ ready := readyAdd q.ready id pp, prefill := if (ts.erase id).isEmpty then none else some (pp, ts.erase id) } : Queue) = ts.erase id :=
          pfIds_ite _ _ _
        have hpq : pfIds q = ts := by simp [pfIds, hpre]
        -- `InPrefill` of records other than `id`
        have hinp : ∀ t' : Task, t'.id ≠ id → InPrefill s t' → InPrefill { s with queues := s.queues.set rq { ready := readyAdd q.ready id pp, prefill := if (ts.erase id).isEmpty then none else some (pp, ts.erase id) } } t' := by
          intro t' hne hin
          refine inPrefill_set hq hin ?_
          intro _ hmem
          rw [hpfIds, List.Nodup.mem_erase_iff hnd]
          rw [hpq] at hmem
          exact ⟨hne, hmem⟩
        refine ⟨?_, ?_, ?_, ?_, ?_, hknd.2, ?_, ?_⟩
        rotate_right
        · intro x hx
          obtain ⟨i, pp', hg⟩ := h.krg x (List.mem_cons_of_mem _ hx)
          exact ⟨i, pp', hg.of_eq rfl (fun _ hy _ => hy)⟩
        · intro j qq hj
          rcases getElem?_set_cases hlt hj with ⟨_, rfl⟩ | ⟨_, hj'⟩
          · exact NPC.readyAdd_wf (h.wf rq q hq)
          · exact h.wf j qq hj'
        · intro j qq hj x hx
          rcases getElem?_set_cases hlt hj with ⟨rfl, rfl⟩ | ⟨_, hj'⟩
          · rcases NPC.mem_rPairs_readyAdd.mp hx with e | e
            · subst e; exact hrg.of_eq rfl (fun _ hy _ => hy)
            · exact (h.rg _ q hq x e).of_eq rfl (fun _ hy _ => hy)
          · exact (h.rg j qq hj' x hx).of_eq rfl (fun _ hy _ => hy)
        · intro j qq hj
          rcases getElem?_set_cases hlt hj with ⟨_, rfl⟩ | ⟨_, hj'⟩
          · rw [hpfIds]; exact List.Sublist.nodup List.erase_sublist hnd
          · exact h.pnd j qq hj'
        · intro j qq hj pp' ts' hpre' x hx
          rcases getElem?_set_cases hlt hj with ⟨rfl, rfl⟩ | ⟨hjne, hj'⟩
          · simp only at hpre'
            split at hpre'
            · cases hpre'
            · cases hpre'
              have hx' := (List.Nodup.mem_erase_iff hnd).mp hx
              rcases h.pg _ q hq pp ts hpre x hx'.2 with a | a
              · exact Or.inl (a.of_eq rfl)
              · refine Or.inr ⟨?_, a.2.of_eq rfl (fun _ hy _ => hy)⟩
                rcases List.mem_cons.mp a.1 with e | e
                · exact absurd e hx'.1
                · exact e
          · exact (h.pg j qq hj' pp' ts' hpre' x hx).imp (fun a => a.of_eq rfl) (fun a => by
              refine ⟨?_, a.2.of_eq rfl (fun _ hy _ => hy)⟩
              rcases List.mem_cons.mp a.1 with e | e
              · -- `id` is in the prefill set of queue `rq` only
                exfalso
                subst e
                obtain ⟨t1, ht1, hr1, _⟩ := a.2.elim
                obtain ⟨t2, ht2, hr2, _⟩ := hrg.elim
                rw [ht1] at ht2; cases ht2
                exact hjne (hr1.symm.trans hr2)
              · exact e)
        · intro x t' hxt hpr
          have hin := h.pin x t' hxt hpr
          refine hinp t' ?_ hin
          intro e
          have hid : t'.id = x := findTask_some_id hxt
          rw [hid] at e; subst e
          change s.task? x = some t' at hxt
          rw [ht] at hxt; cases hxt
          obtain ⟨w, hw⟩ := hpr
          rw [hs] at hw; cases hw
        · intro x hx
          have hxne : x ≠ id := fun e => hknd.1 (e ▸ hx)
          obtain ⟨a, t', ht', hin'⟩ := h.kq x (List.mem_cons_of_mem _ hx)
          constructor
          · intro qq hqq hmem
            obtain ⟨j, hj⟩ := List.mem_iff_getElem?.mp hqq
            rcases getElem?_set_cases hlt hj with ⟨_, rfl⟩ | ⟨_, hj'⟩
            · obtain ⟨p', hp'⟩ := mem_rIds_iff_pairs.mp hmem
              rcases NPC.mem_rPairs_readyAdd.mp hp' with e | e
              · simp only [Prod.mk.injEq] at e; exact hxne e.2
              · exact a q (mem_of_get hq) (mem_rIds_iff_pairs.mpr ⟨p', e⟩)
            · exact a qq (mem_of_get hj') hmem
          · refine ⟨t', ht', hinp t' ?_ hin'⟩
            rw [findTask_some_id ht']; exact hxne

theorem prefillBack_npj (rq : Nat) (l : List TaskId) (s s' : State) (keep keep' : List TaskId)
    (h : NpJ (l ++ keep) s) (hb : State.prefillWorker.back rq s l keep = .ok (s', keep')) : NpJ keep' s' := by
  induction l generalizing s keep with
  | nil =>
    simp only [State.prefillWorker.back] at hb; cases hb
    simpa using h
  | cons id rest ih =>
    simp only [State.prefillWorker.back] at hb
    split at hb
    · cases hb
    · rename_i t hgt
      have ht : s.task? id = some t := getTask_spec hgt
      split at hb
      · rename_i w0 hs
        split at hb
        · cases hb
        · rename_i s2 hm
          exact ih _ _ (npj_move (K := rest ++ keep) h ht hs hm) hb
      · refine ih _ _ (h.perm ?_) hb
        -- (id :: rest) ++ keep ~ rest ++ (keep ++ [id])
        have : (id :: rest ++ keep).Perm (rest ++ keep ++ [id]) := (List.perm_append_singleton id (rest ++ keep)).symm
        simpa [List.append_assoc] using this

/-! ### `mark`: a pending Waiting id becomes Prefilled -/

theorem npj_markStep {K : List TaskId} {s s' : State} {id : TaskId} {t : Task} {n w : Nat}
    (h : NpJ (id :: K) s) (ht : s.task? id = some t) (hs : t.state = .waiting n)
    (htasks : s'.tasks = putTask s.tasks { t with state := .prefilled w }) (hq : s'.queues = s.queues)
    (hr : s'.redirects = s.redirects) : NpJ K s' := by
  have hid : t.id = id := findTask_some_id ht
  have hknd := List.nodup_cons.mp h.knd
  have hother : ∀ x, x ≠ id → s'.task? x = s.task? x := by
    intro x hx
    show findTask s'.tasks x = findTask s.tasks x
    rw [htasks, findTask_putTask]
    simp only [hid, hx, if_false]
  have hself : s'.task? id = some { t with state := .prefilled w } := by
    show findTask s'.tasks id = _
    rw [htasks, findTask_putTask]
    simp only [hid, if_true]
    change (s.task? id).map _ = _
    rw [ht]; rfl
  have hkid := (h.kq id List.mem_cons_self)
  refine ⟨?_, ?_, ?_, ?_, ?_, hknd.2, ?_, ?_⟩
  rotate_right
  · intro x hx
    have hxne : x ≠ id := fun e => hknd.1 (e ▸ hx)
    obtain ⟨i, pp', hg⟩ := h.krg x (List.mem_cons_of_mem _ hx)
    exact ⟨i, pp', hg.of_eq (hother x hxne) (fun y hy _ => hr ▸ hy)⟩
  · intro j qq hj; rw [hq] at hj; exact h.wf j qq hj
  · intro j qq hj x hx
    rw [hq] at hj
    have hne : x.2 ≠ id := by
      intro e
      exact hkid.1 qq (mem_of_get hj) (e ▸ mem_rIds_iff_pairs.mpr ⟨x.1, hx⟩)
    exact (h.rg j qq hj x hx).of_eq (hother _ hne) (fun y hy _ => hr ▸ hy)
  · intro j qq hj; rw [hq] at hj; exact h.pnd j qq hj
  · intro j qq hj pp ts hpre x hx
    rw [hq] at hj
    by_cases e : x = id
    · subst e
      left
      rcases h.pg j qq hj pp ts hpre x hx with a | a
      · obtain ⟨t', w', ht', _, _, _, hs'⟩ := a.elim
        rw [ht] at ht'; cases ht'
        rw [hs] at hs'; cases hs'
      · obtain ⟨t', ht', hrq, hp, _⟩ := a.2.elim
        rw [ht] at ht'; cases ht'
        exact PfGood.intro hself hrq hp (by simp) rfl
    · rcases h.pg j qq hj pp ts hpre x hx with a | a
      · exact Or.inl (a.of_eq (hother x e))
      · refine Or.inr ⟨?_, a.2.of_eq (hother x e) (fun y hy _ => hr ▸ hy)⟩
        rcases List.mem_cons.mp a.1 with e' | e'
        · exact absurd e' e
        · exact e'
  · intro x t' hxt hpr
    by_cases e : x = id
    · subst e
      rw [hself] at hxt; cases hxt
      obtain ⟨t0, ht0, hin⟩ := hkid.2
      rw [ht] at ht0; cases ht0
      exact (hin.of_rec (t' := { t with state := .prefilled w }) rfl rfl).of_queues hq
    · rw [hother x e] at hxt
      exact (h.pin x t' hxt hpr).of_queues hq
  · intro x hx
    have hxne : x ≠ id := fun e => hknd.1 (e ▸ hx)
    obtain ⟨a, t', ht', hin'⟩ := h.kq x (List.mem_cons_of_mem _ hx)
    refine ⟨?_, t', (hother x hxne).trans ht', hin'.of_queues hq⟩
    rw [hq]; exact a

theorem prefillMark_npj (w : Nat) (l : List TaskId) (s s' : State) (h : NpJ l s)
    (hm : State.prefillWorker.mark w s l = .ok s') : NpJ [] s' := by
  induction l generalizing s with
  | nil => simp only [State.prefillWorker.mark] at hm; cases hm; exact h
  | cons id rest ih =>
    simp only [State.prefillWorker.mark] at hm
    split at hm
    · cases hm
    · rename_i t hgt
      have ht : s.task? id = some t := getTask_spec hgt
      split at hm
      · rename_i n hs
        split at hm
        · cases hm
        · rename_i s2 hw
          obtain ⟨a, b, c⟩ := withWorker_frame hw
          exact ih _ (npj_markStep h ht hs a b c) hm
      · cases hm

end HqModel.Core.NPD
