import HqModel.Lemmas.CoreNoPanicBase
/-!
C09 progress, part 2: the functions of `Core/Model.lean` succeed (forward lemmas `*_ok`), from local facts about
the state they are applied to; and how those local facts follow from the invariants (`TWI D`, `NpIdx`, `NpW`, `NpQ`, `NpDeps`).
-/
namespace HqModel.Core

namespace NP

theorem eraseDups_nodup' {α : Type} [BEq α] [LawfulBEq α] : ∀ (n : Nat) (l : List α), l.length ≤ n → l.eraseDups.Nodup
  | _, [], _ => by simp
  | 0, a :: l, h => by simp at h
  | n + 1, a :: l, h => by
    rw [List.eraseDups_cons]
    refine List.nodup_cons.mpr ⟨?_, eraseDups_nodup' n _ ?_⟩
    · rw [List.mem_eraseDups]
      simp
    · have := List.length_filter_le (fun b => !b == a) l
      simp only [List.length_cons] at h
      omega

theorem nodup_eraseDups {α : Type} [BEq α] [LawfulBEq α] (l : List α) : l.eraseDups.Nodup :=
  eraseDups_nodup' l.length l (Nat.le_refl _)

/-! ### reading the worker side of `TW3` -/

theorem mem_asgW_elim {ws : List Worker} {w : Nat} {t : TaskId} (h : t ∈ asgW ws w) :
    ∃ wk A F P, findWorker ws w = some wk ∧ wk.assign = .sn A F P ∧ t ∈ A := by
  unfold asgW at h
  split at h
  · rename_i wk hw
    unfold wAsg at h
    split at h
    · rename_i A F P ha; exact ⟨wk, A, F, P, hw, ha, h⟩
    · cases h
  · cases h

theorem mem_preW_elim {ws : List Worker} {w : Nat} {t : TaskId} (h : t ∈ preW ws w) :
    ∃ wk A F P, findWorker ws w = some wk ∧ wk.assign = .sn A F P ∧ t ∈ P := by
  unfold preW at h
  split at h
  · rename_i wk hw
    unfold wPre at h
    split at h
    · rename_i A F P ha; exact ⟨wk, A, F, P, hw, ha, h⟩
    · cases h
  · cases h

theorem mnW_elim {ws : List Worker} {w : Nat} {t : TaskId} (h : mnW ws w = some t) :
    ∃ wk root st, findWorker ws w = some wk ∧ wk.assign = .mn t root st := by
  unfold mnW at h
  split at h
  · rename_i wk hw
    unfold wMn at h
    split at h
    · rename_i t' root st ha; cases h; exact ⟨wk, root, st, hw, ha⟩
    · cases h
  · cases h

/-! ### queues -/

theorem addReady_ok {s : State} {t : Task} (h : t.rq < s.queues.length) : ∃ r, s.addReady t = .ok r := by
  have : ¬ t.rq ≥ s.queues.length := by omega
  simp only [State.addReady, this, if_false]
  exact ⟨_, rfl⟩

theorem queueRemove_ok {s : State} {rq : Nat} {t : TaskId} {p : Int} (h : rq < s.queues.length) :
    ∃ s', s.queueRemove rq t p = .ok s' := by
  have : ¬ rq ≥ s.queues.length := by omega
  simp only [State.queueRemove, this, if_false]
  exact ⟨_, rfl⟩

theorem removePrefilled_ok {s : State} {rq : Nat} {t : TaskId} {q : Queue} {pp : Int} {ts : List TaskId}
    (hq : s.queues[rq]? = some q) (hp : q.prefill = some (pp, ts)) (hm : t ∈ ts) :
    ∃ s', s.removePrefilled rq t = .ok s' := by
  simp only [State.removePrefilled, hq, hp]
  simp [hm]

theorem movePrefilledToReady_ok {s : State} {rq : Nat} {t : TaskId} {q : Queue} {pp : Int} {ts : List TaskId}
    (hq : s.queues[rq]? = some q) (hp : q.prefill = some (pp, ts)) (hm : t ∈ ts) :
    ∃ s', s.movePrefilledToReady rq t = .ok s' := by
  simp only [State.movePrefilledToReady, hq, hp]
  simp [hm]

/-! ### `process_retracted` -/

/-- the id is a Prefilled task and its worker lists it -/
def RetrReady (s : State) (x : TaskId) : Prop :=
  ∃ t w wk A F P, s.task? x = some t ∧ t.state = .prefilled w ∧ s.worker? w = some wk ∧ wk.assign = .sn A F P ∧ x ∈ P

theorem processRetracted_ok : ∀ (l : List TaskId) (s : State) (acc : List (Nat × TaskId)), l.Nodup →
    (∀ x ∈ l, RetrReady s x) → ∃ r, s.processRetracted l acc = .ok r
  | [], s, acc, _, _ => ⟨_, rfl⟩
  | t :: rest, s, acc, hnd, h => by
    obtain ⟨task, w, wk, A, F, P, ht, hs, hw, ha, hm⟩ := h t List.mem_cons_self
    have hid : task.id = t := findTask_some_id ht
    have hwid : wk.id = w := findWorker_some_id hw
    have hww := withWorker_ok (f := fun x => x.removePrefill t) hw (removePrefill_ok ha hm)
    simp only [State.processRetracted, getTask_ok ht, hs, hww]
    apply processRetracted_ok rest
    · exact (List.nodup_cons.mp hnd).2
    · intro x hx
      have hne : x ≠ t := fun e => (List.nodup_cons.mp hnd).1 (e ▸ hx)
      obtain ⟨tx, wx, wkx, Ax, Fx, Px, htx, hsx, hwx, hax, hmx⟩ := h x (List.mem_cons_of_mem _ hx)
      have h1 : (State.setTask (s.setWorker { wk with assign := .sn A F (P.erase t) })
          { task with state := .retracting w }).task? x = some tx := by
        show findTask (putTask s.tasks _) x = some tx
        rw [findTask_putTask]
        have : ¬ x = task.id := by rw [hid]; exact hne
        simp only [this, if_false]
        exact htx
      by_cases hwx' : wx = w
      · subst hwx'
        rw [hw] at hwx; cases hwx
        rw [ha] at hax; cases hax
        refine ⟨tx, wx, { wk with assign := .sn A F (P.erase t) }, A, F, P.erase t, h1, hsx, ?_, rfl, ?_⟩
        · show findWorker (putWorker s.workers _) wx = _
          rw [findWorker_putWorker]
          have hw' : findWorker s.workers wx = some wk := hw
          simp [hwid, hw']
        · exact (List.mem_erase_of_ne hne).mpr hmx
      · refine ⟨tx, wx, wkx, Ax, Fx, Px, h1, hsx, ?_, hax, hmx⟩
        show findWorker (putWorker s.workers _) wx = _
        rw [findWorker_putWorker]
        have : ¬ wx = wk.id := by rw [hwid]; exact hwx'
        simp only [this, if_false]
        exact hwx

theorem retract_ok {s : State} {l : List TaskId} (hnd : l.Nodup) (h : ∀ x ∈ l, RetrReady s x) :
    ∃ r, s.retract l = .ok r := by
  obtain ⟨⟨s', pairs⟩, hr⟩ := processRetracted_ok l s [] hnd h
  simp only [State.retract, hr]
  exact ⟨_, rfl⟩

/-- from the invariants: the ids of `R` can be retracted -/
theorem retrReady_of {D R} {s : State} (htw : TWI D s) (hq : NpQ D R s) (hd : ∀ x ∈ R, ¬ D x) :
    ∀ x ∈ R, RetrReady s x := by
  intro x hx
  obtain ⟨t, w, ht, hs⟩ := (hq.rpre x hx).elim
  have hm := htw.tw.t2 x w (hd x hx) (by rw [stOf_of_find ht, hs])
  obtain ⟨wk, A, F, P, hw, ha, hp⟩ := mem_preW_elim hm
  exact ⟨t, w, wk, A, F, P, ht, hs, hw, ha, hp⟩

/-! ### `try_remove_redirection` -/

theorem tryRemoveRedirection_ok {s : State} {t : TaskId} {rq : Nat}
    (h : ∀ x w v, s.redirects.find? (·.1 = t) = some (x, w, v) →
      ∃ r wk A F P, s.rq rq v = .ok r ∧ s.worker? w = some wk ∧ wk.assign = .sn A F P ∧ t ∈ A ∧
        ∀ e ∈ r.entries, e.res < F.length) :
    ∃ s', s.tryRemoveRedirection t rq = .ok s' := by
  unfold State.tryRemoveRedirection
  split
  · exact ⟨_, rfl⟩
  · rename_i x w v hf
    obtain ⟨r, wk, A, F, P, hr, hw, ha, hm, hidx⟩ := h x w v hf
    have hr' : ({ s with redirects := s.redirects.filter (·.1 ≠ t) } : State).rq rq v = .ok r := hr
    simp only [hr']
    obtain ⟨F', hrem, _⟩ := removeSn_ok (wk := wk) (t := t) (r := r) ha hm hidx
    exact ⟨_, withWorker_ok (s := { s with redirects := s.redirects.filter (·.1 ≠ t) })
      (f := fun x => x.removeSn t r) hw hrem⟩

/-- a held reservation can be given back: the variant exists, the worker lists the task, the indices are in range -/
theorem held_removable {D} {s : State} (htw : TWI D s) (hidx : NpIdx s) (hw : NpW s) {t : TaskId} {task : Task}
    (ht : s.task? t = some task) (hd : ¬ D t) {w v : Nat} (hh : HeldT s.redirects task w v) :
    ∃ r wk A F P, s.rq task.rq v = .ok r ∧ s.worker? w = some wk ∧ wk.assign = .sn A F P ∧ t ∈ A ∧
      ∀ e ∈ r.entries, e.res < F.length := by
  have hid : task.id = t := findTask_some_id ht
  have hmem : task ∈ s.tasks := findTask_some_mem ht
  obtain ⟨r, hr, hb⟩ := (hidx.held task hmem w v hh).elim
  have hin : t ∈ asgW s.workers w := by
    rcases hh with hs | hs | ⟨_, hm⟩
    · exact htw.tw.t1 t w v hd (Or.inl (by rw [stOf_of_find ht, hs]))
    · exact htw.tw.t1 t w v hd (Or.inr (by rw [stOf_of_find ht, hs]))
    · rw [hid] at hm; exact htw.tw.d1 t w v hd hm
  obtain ⟨wk, A, F, P, hfw, ha, hm⟩ := mem_asgW_elim hin
  refine ⟨r, wk, A, F, P, hr, hfw, ha, hm, ?_⟩
  intro e he
  rw [hw.free wk (findWorker_some_mem hfw) A F P ha]
  exact hb wk hfw e he

theorem tryRemoveRedirection_ok' {D} {s : State} (htw : TWI D s) (hidx : NpIdx s) (hw : NpW s) {t : TaskId} {task : Task}
    (ht : s.task? t = some task) (hd : ¬ D t) (hs : ∃ w0, task.state = .retracting w0) :
    ∃ s', s.tryRemoveRedirection t task.rq = .ok s' := by
  apply tryRemoveRedirection_ok
  intro x w v hf
  have hx : x = t := by simpa using List.find?_some hf
  subst hx
  have hm : (x, w, v) ∈ s.redirects := List.mem_of_find?_eq_some hf
  have hid : task.id = x := findTask_some_id ht
  exact held_removable htw hidx hw ht hd (Or.inr (Or.inr ⟨hs, by rw [hid]; exact hm⟩))

/-! ### `Core::remove_task` -/

theorem removeConsumers_ok : ∀ (deps : List TaskId) (tasks : List Task) (c : TaskId), deps.Nodup →
    (∀ d ∈ deps, ∀ dt, findTask tasks d = some dt → c ∈ dt.consumers) → ∃ ts, removeConsumers tasks c deps = .ok ts
  | [], tasks, c, _, _ => ⟨_, rfl⟩
  | d :: rest, tasks, c, hnd, h => by
    simp only [removeConsumers, removeConsumer]
    cases hf : findTask tasks d with
    | none => simp only; exact removeConsumers_ok rest tasks c (List.nodup_cons.mp hnd).2
                (fun d' hd' => h d' (List.mem_cons_of_mem _ hd'))
    | some dt =>
      have hc : dt.consumers.contains c = true := by simpa using h d List.mem_cons_self dt hf
      simp only [hc, Bool.not_true, Bool.false_eq_true, if_false]
      apply removeConsumers_ok rest _ c (List.nodup_cons.mp hnd).2
      intro d' hd' dt' hf'
      have hne : d' ≠ d := fun e => (List.nodup_cons.mp hnd).1 (e ▸ hd')
      rw [findTask_putTask] at hf'
      have hid : dt.id = d := findTask_some_id hf
      have : ¬ d' = dt.id := by rw [hid]; exact hne
      simp only [this, if_false] at hf'
      exact h d' (List.mem_cons_of_mem _ hd') dt' hf'

theorem removeTask_ok {s : State} {id : TaskId} {task : Task} (ht : s.task? id = some task)
    (hn : (taskIds s.tasks).Nodup) (hrq : task.rq < s.queues.length) (hdn : task.deps.Nodup)
    (hreg : ∀ d ∈ task.deps, ∀ dt, s.task? d = some dt → id ∈ dt.consumers) :
    ∃ s', s.removeTask id = .ok (s', task.state) := by
  simp only [State.removeTask, ht]
  have hq : ∀ (p : Int), ∃ s1, ({ s with tasks := eraseTask s.tasks id } : State).queueRemove task.rq id p = .ok s1 ∧
      s1.tasks = eraseTask s.tasks id := by
    intro p
    obtain ⟨s1, h1⟩ := queueRemove_ok (s := { s with tasks := eraseTask s.tasks id }) (t := id) (p := p) hrq
    exact ⟨s1, h1, queueRemove_tasks h1⟩
  cases hs : task.state with
  | waiting n =>
    obtain ⟨s1, h1, e1⟩ := hq task.prio
    simp only [h1]
    by_cases hn0 : n > 0
    · simp only [hn0, if_true]
      have : ∃ ts, removeConsumers s1.tasks id task.deps = .ok ts := by
        apply removeConsumers_ok _ _ _ hdn
        intro d hd dt hf
        rw [e1, findTask_eraseTask hn] at hf
        split at hf
        · cases hf
        · exact hreg d hd dt hf
      obtain ⟨ts, h2⟩ := this
      simp only [h2]; exact ⟨_, rfl⟩
    · simp only [hn0, if_false]; exact ⟨_, rfl⟩
  | retracting w =>
    obtain ⟨s1, h1, _⟩ := hq task.prio
    simp only [h1]; exact ⟨_, rfl⟩
  | _ => exact ⟨_, rfl⟩

/-! ### recursive consumers -/

theorem collectConsumers_ok (ts : List Task) (hc : ∀ t ∈ ts, ∀ c ∈ t.consumers, (findTask ts c).isSome = true) :
    ∀ (fuel : Nat) (stack out : List TaskId), (∀ x ∈ stack, (findTask ts x).isSome = true) →
      ∃ r, collectConsumers ts fuel stack out = .ok r
  | 0, _, _, _ => ⟨_, rfl⟩
  | _ + 1, [], _, _ => ⟨_, rfl⟩
  | fuel + 1, t :: stack, out, h => by
    have := h t List.mem_cons_self
    cases hf : findTask ts t with
    | none => rw [hf] at this; cases this
    | some task =>
      simp only [collectConsumers, hf]
      apply collectConsumers_ok ts hc fuel
      intro x hx
      rcases List.mem_append.mp hx with h1 | h1
      · exact h x (List.mem_cons_of_mem _ h1)
      · exact hc task (findTask_some_mem hf) x (List.mem_filter.mp h1).1

theorem recursiveConsumers_ok {U} {s : State} (hd : NpDeps U s) {task : Task} (ht : task ∈ s.tasks) :
    ∃ r, s.recursiveConsumers task = .ok r := by
  unfold State.recursiveConsumers
  apply collectConsumers_ok s.tasks hd.cin
  intro x hx
  exact hd.cin task ht x (List.mem_eraseDups.mp hx)

theorem collectConsumers_nodup (ts : List Task) : ∀ (fuel : Nat) (stack out res : List TaskId), out.Nodup →
    collectConsumers ts fuel stack out = .ok res → res.Nodup
  | 0, _, _, _, hn, h => by simp only [collectConsumers] at h; cases h; exact hn
  | _ + 1, [], _, _, hn, h => by simp only [collectConsumers] at h; cases h; exact hn
  | fuel + 1, t :: stack, out, res, hn, h => by
    simp only [collectConsumers] at h
    split at h
    · cases h
    · rename_i task hf
      refine collectConsumers_nodup ts fuel _ _ res ?_ h
      rw [List.nodup_append]
      refine ⟨hn, nodup_eraseDups _, ?_⟩
      intro a ha b hb e
      subst e
      have := (List.mem_filter.mp (List.mem_eraseDups.mp hb)).2
      simp only [Bool.and_eq_true, Bool.not_eq_eq_eq_not, Bool.not_true, List.contains_eq_mem,
        decide_eq_false_iff_not] at this
      exact this.1 ha

theorem recursiveConsumers_nodup {s : State} {task : Task} {cons : List TaskId}
    (h : s.recursiveConsumers task = .ok cons) : cons.Nodup :=
  collectConsumers_nodup _ _ _ _ _ (nodup_eraseDups _) h

end NP

end HqModel.Core
